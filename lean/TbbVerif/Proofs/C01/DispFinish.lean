/-
C01 / Dispatch: `complete` (release of the wait reference) and `ret` (return to the dispatch loop) preserve the
invariant; the invariant holds in every reachable state.
-/
import TbbVerif.Proofs.C01.DispSimple
import TbbVerif.Proofs.C01.DispTakeActs

namespace TbbVerif.C01.Dispatch

theorem units_set_get {l : List UnitR} {u : Nat} {x : UnitR} (hu : l[u]? = some x) (x' : UnitR) (v : Nat) :
    (l.set u x')[v]? = if u = v then some x' else l[v]? := by
  have hlt : u < l.length := (List.getElem?_eq_some_iff.mp hu).1
  simp only [List.getElem?_set]
  by_cases h : u = v
  · subst h; simp [hlt]
  · simp [h]

theorem inv_actComplete {s s' : St} {t : Tid} (h : Inv s) (he : actComplete s t = some s') : Inv s' := by
  unfold actComplete at he
  split at he
  · rename_i u rest hst
    split at he
    · simp at he
    · rename_i x hu
      split at he
      · simp at he
      · rename_i G hG
        split at he
        · rename_i hx
          simp only [Option.some.injEq] at he
          subst he
          refine ⟨?_, ?_, ?_, h.ipp, h.ipb, ?_, ?_, ?_⟩
          · intro v
            have hi := h.iocc v
            show occ s v = expOcc (s.units.set u { x with st := .released })[v]?
            rw [units_set_get hu]
            by_cases hv : u = v
            · subst hv; rw [hu] at hi; simp [expOcc, hx] at hi ⊢; exact hi
            · simp only [hv, if_false]; exact hi
          · intro v
            have hi := h.ifc v
            show frameCount s v = expFc (s.units.set u { x with st := .released })[v]?
            rw [units_set_get hu]
            by_cases hv : u = v
            · subst hv; rw [hu] at hi; simp [expFc, hx] at hi ⊢; exact hi
            · simp only [hv, if_false]; exact hi
          · intro v y hy
            change (s.units.set u { x with st := .released })[v]? = some y at hy
            rw [units_set_get hu] at hy
            by_cases hv : u = v
            · subst hv
              simp at hy
              subst hy
              have := h.ictr u x hu
              simp [hx] at this ⊢
              exact this
            · simp only [hv, if_false] at hy; exact h.ictr v y hy
          · intro q
            have e := countP_set_add (p := fun y : UnitR => y.grp == q && (y.st == .pending || y.st == .running)) hu
              { x with st := .released }
            have hi := h.irefs q
            show List.countP _ (s.units.set u { x with st := .released }) =
              expRefs (s.groups.set x.grp { G with refs := G.refs - 1 })[q]?
            rw [groups_set_get hG]
            simp only [live] at hi
            simp only [hx] at e
            by_cases hq : x.grp = q
            · subst hq
              rw [hG] at hi
              simp [expRefs] at e hi ⊢
              omega
            · have : (x.grp == q) = false := by simp [hq]
              simp [this, hq] at e ⊢
              omega
          · intro v y G2 hy hG2 hc
            change (s.units.set u { x with st := .released })[v]? = some y at hy
            change (s.groups.set x.grp { G with refs := G.refs - 1 })[y.grp]? = some G2 at hG2
            rw [units_set_get hu] at hy
            rw [groups_set_get hG] at hG2
            by_cases hv : u = v
            · subst hv
              simp at hy
              subst hy
              left; rfl
            · simp only [hv, if_false] at hy
              by_cases hq : x.grp = y.grp
              · simp only [hq, if_true, Option.some.injEq] at hG2
                subst hG2
                exact h.iclosed v y G hy (by rw [← hq]; exact hG) hc
              · simp only [hq, if_false] at hG2
                exact h.iclosed v y G2 hy hG2 hc
          · intro v y hy hpos
            change (s.units.set u { x with st := .released })[v]? = some y at hy
            rw [units_set_get hu] at hy
            by_cases hv : u = v
            · subst hv
              simp at hy
              subst hy
              exact h.icanc u x hu hpos
            · simp only [hv, if_false] at hy; exact h.icanc v y hy hpos
        · simp at he
  · simp at he

theorem inv_actRet {s s' : St} {t : Tid} (h : Inv s) (he : actRet s t = some s') : Inv s' := by
  unfold actRet at he
  split at he
  · rename_i u rest hst
    split at he
    · simp at he
    · rename_i x hu
      split at he
      · rename_i hx
        simp only [Option.some.injEq] at he
        subst he
        refine ⟨?_, ?_, ?_, h.ipp, h.ipb, ?_, ?_, ?_⟩
        · intro v
          have hi := h.iocc v
          show occ s v = expOcc (s.units.set u { x with st := .done })[v]?
          rw [units_set_get hu]
          by_cases hv : u = v
          · subst hv; rw [hu] at hi; simp [expOcc, hx] at hi ⊢; exact hi
          · simp only [hv, if_false]; exact hi
        · intro v
          have hi := h.ifc v
          have e := count_flatten_set_add hst rest (Frame.exec v)
          rw [List.count_cons] at e
          show (s.stacks.set t rest).flatten.count (Frame.exec v) = expFc (s.units.set u { x with st := .done })[v]?
          simp only [frameCount] at hi
          rw [units_set_get hu]
          by_cases hv : u = v
          · subst hv; rw [hu] at hi; simp [expFc, hx] at hi e ⊢; omega
          · have : (Frame.exec u == Frame.exec v) = false := by simp [hv]
            simp [hv, this] at e ⊢
            omega
        · intro v y hy
          change (s.units.set u { x with st := .done })[v]? = some y at hy
          rw [units_set_get hu] at hy
          by_cases hv : u = v
          · subst hv
            simp at hy
            subst hy
            have := h.ictr u x hu
            simp [hx] at this ⊢
            exact this
          · simp only [hv, if_false] at hy; exact h.ictr v y hy
        · intro q
          have e := countP_set_add (p := fun y : UnitR => y.grp == q && (y.st == .pending || y.st == .running)) hu
            { x with st := .done }
          have hi := h.irefs q
          show List.countP _ (s.units.set u { x with st := .done }) = expRefs s.groups[q]?
          simp only [live] at hi
          simp only [hx] at e
          simp at e
          omega
        · intro v y G2 hy hG2 hc
          change (s.units.set u { x with st := .done })[v]? = some y at hy
          change s.groups[y.grp]? = some G2 at hG2
          rw [units_set_get hu] at hy
          by_cases hv : u = v
          · subst hv
            simp at hy
            subst hy
            right; rfl
          · simp only [hv, if_false] at hy
            exact h.iclosed v y G2 hy hG2 hc
        · intro v y hy hpos
          change (s.units.set u { x with st := .done })[v]? = some y at hy
          rw [units_set_get hu] at hy
          by_cases hv : u = v
          · subst hv
            simp at hy
            subst hy
            exact h.icanc u x hu hpos
          · simp only [hv, if_false] at hy; exact h.icanc v y hy hpos
      · simp at he
  · simp at he

/-- every enabled action preserves the invariant -/
theorem inv_step {s s' : St} (a : Act) (h : Inv s) (he : step s a = some s') : Inv s' := by
  cases a with
  | newGroup t => exact inv_actNewGroup h he
  | newCtx => simp only [step, Option.some.injEq] at he; subst he; exact inv_newCtx h
  | cancel c => exact inv_actCancel h he
  | enter t k => exact inv_actEnter h he
  | leave t => exact inv_actLeave h he
  | beginWait t g iso => exact inv_actBeginWait h he
  | waitReturn t => exact inv_actWaitReturn h he
  | submit t g c iso tg => exact inv_actSubmit h he
  | respawn t => exact inv_actRespawn h he
  | miss t => exact inv_actMiss h he
  | takeBypass t => exact inv_actTakeBypass h he
  | takePool t v i => exact inv_actTakePool h he
  | takeBox t i => exact inv_actTakeBox h he
  | takeStream t kind i => exact inv_actTakeStream h he
  | drainBox k i => exact inv_actDrainBox h he
  | complete t => exact inv_actComplete h he
  | ret t => exact inv_actRet h he

theorem inv_run {s s' : St} (acts : List Act) (h : Inv s) (he : run s acts = some s') : Inv s' := by
  induction acts generalizing s with
  | nil => simp only [run, Option.some.injEq] at he; subst he; exact h
  | cons a as ih =>
    simp only [run] at he
    split at he
    · simp at he
    · rename_i s1 h1
      exact ih (inv_step a h h1) he

theorem inv_reachable {s : St} (hr : Reachable s) : Inv s := by
  obtain ⟨sa, na, nt, ord, acts, he⟩ := hr
  exact inv_run acts (inv_init sa na nt ord) he

end TbbVerif.C01.Dispatch
