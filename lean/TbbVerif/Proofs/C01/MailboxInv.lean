/- C01 — mail_outbox: the inductive invariant and the pusher's steps. -/
import TbbVerif.Proofs.C01.Mailbox

namespace TbbVerif.C01.Mailbox
open Lists

def curIso (s : St) : Nat := s.cons.ops.headD 0
/-- the current pop (isolation `curIso`) does not accept proxy `p` -/
def Mismatch (s : St) (p : Nat) : Prop := curIso s ≠ 0 ∧ isoOf s p ≠ curIso s

/-- where the consumer stands inside the logical queue: `pre` are the proxies it has walked past -/
def Pos (s : St) (pre post : List Nat) : Prop :=
  queue s = pre ++ s.cons.curr :: post ∧ s.cons.prev = tailLink .first pre ∧ (∀ q ∈ pre, Mismatch s q)

def ConsOK (s : St) : Prop :=
  match s.cons.pc with
  | .start => True
  | .walk => s.cons.ops ≠ [] ∧ ∃ pre post, Pos s pre post ∧ getLink s s.cons.prev = some s.cons.curr ∧ Mismatch s s.cons.curr
  | .second | .storeNull =>
      s.cons.ops ≠ [] ∧ ∃ pre post, Pos s pre post ∧ getLink s s.cons.prev = some s.cons.curr ∧ ¬ Mismatch s s.cons.curr
  | .storeSecond =>
      s.cons.ops ≠ [] ∧ ∃ pre post, Pos s pre post ∧ getLink s s.cons.prev = some s.cons.curr ∧ ¬ Mismatch s s.cons.curr ∧
        ∃ post', post = s.cons.second :: post' ∧ getLink s (.next s.cons.curr) = some s.cons.second
  | .cas => s.cons.ops ≠ [] ∧ ∃ pre post, Pos s pre post ∧ getLink s s.cons.prev = none ∧ ¬ Mismatch s s.cons.curr
  | .spin => s.cons.ops ≠ [] ∧ ∃ pre post, Pos s pre post ∧ getLink s s.cons.prev = none ∧ ¬ Mismatch s s.cons.curr ∧ post ≠ []
  | .storeLate =>
      s.cons.ops ≠ [] ∧ ∃ pre post, Pos s pre post ∧ getLink s s.cons.prev = none ∧ ¬ Mismatch s s.cons.curr ∧
        ∃ post', post = s.cons.second :: post' ∧ getLink s (.next s.cons.curr) = some s.cons.second

def PushOK (s : St) (u : Pusher) : Prop :=
  match u.pc with
  | .start => True
  | .xchg => u.ops ≠ [] ∧ u.p < s.nexts.length ∧ u.p ∉ s.order ∧ getLink s (.next u.p) = none
  | .link => u.ops ≠ [] ∧ ∃ pre post, queue s = pre ++ u.p :: post ∧ u.link = tailLink .first pre ∧ getLink s u.link = none

structure MInv (s : St) : Prop where
  lenI : s.isos.length = s.nexts.length
  ordN : s.order.Nodup
  ordB : ∀ p ∈ s.order, p < s.nexts.length
  popN : (popped s).Nodup
  popS : ∀ p ∈ popped s, p ∈ s.order
  seg : ChainSeg s .first (queue s)
  tl : getLink s (tailLink .first (queue s)) = none
  lastOK : s.last = tailLink .first (queue s)
  push : ∀ (k : Nat) (u : Pusher), s.pushers[k]? = some u → PushOK s u
  dist : ∀ (k k' : Nat) (u u' : Pusher), k ≠ k' → s.pushers[k]? = some u → s.pushers[k']? = some u' →
          u.pc ≠ .start → u'.pc ≠ .start → u.p ≠ u'.p
  cons : ConsOK s
  ncp : ∀ (k : Nat) (u : Pusher), s.pushers[k]? = some u → u.pc = .link → s.cons.pc ≠ .start → u.p ≠ s.cons.curr

/-- while the consumer is inside a pop its current proxy is in the logical queue -/
theorem curr_in_queue (s : St) (h : ConsOK s) (hp : s.cons.pc ≠ .start) : s.cons.curr ∈ queue s := by
  unfold ConsOK at h
  cases hpc : s.cons.pc <;> simp only [hpc] at h
  · exact absurd hpc hp
  all_goals (obtain ⟨_, pre, post, ⟨h1, _, _⟩, _⟩ := h; rw [h1]; simp)

theorem queue_sub (s : St) : ∀ p ∈ queue s, p ∈ s.order := by
  intro p hp
  exact (List.mem_filter.mp hp).1

theorem queue_nodup (s : St) (h : s.order.Nodup) : (queue s).Nodup := h.filter _

theorem queue_bound (s : St) (h : MInv s) : ∀ p ∈ queue s, p < s.nexts.length :=
  fun p hp => h.ordB p (queue_sub s p hp)

/-- every link address of the queue is `.first` or the `next` field of an allocated proxy -/
theorem addr_alloc (s : St) (h : MInv s) (b : Link) (hb : b = .first ∨ ∃ q ∈ queue s, b = .next q) :
    ∀ p, b = .next p → p < s.nexts.length := by
  intro p e
  rcases hb with hb | ⟨q, hq, hb⟩
  · rw [hb] at e; exact absurd e (by simp)
  · rw [hb] at e
    have : q = p := by injection e
    subst this
    exact queue_bound s h q hq

theorem first_ne_next (q : Nat) : Link.first ≠ Link.next q := by simp

/-- the queue's addresses are pairwise distinct: hypothesis bundle for `connAddr_ne_tail` -/
theorem first_ne_all (l : List Nat) : ∀ q ∈ l, Link.first ≠ Link.next q := fun q _ => first_ne_next q

theorem lt_of_getElem? {α} {l : List α} {k : Nat} {x : α} (h : l[k]? = some x) : k < l.length := by
  by_cases hl : k < l.length
  · exact hl
  · rw [List.getElem?_eq_none (by omega)] at h
    exact absurd h (by simp)

/-- every address of the queue (start, `next` fields, the address after the last node) -/
def QAddr (s : St) (b : Link) : Prop := b = .first ∨ ∃ q ∈ queue s, b = .next q

theorem connAddr_QAddr (s : St) (b : Link) (h : ConnAddr .first (queue s) b) : QAddr s b :=
  connAddr_addrIn .first (queue s) b h

theorem tail_QAddr (s : St) : QAddr s (tailLink .first (queue s)) := tailLink_addr .first (queue s)

theorem tailLink_pre_QAddr (s : St) (pre : List Nat) (c : Nat) (post : List Nat) (hq : queue s = pre ++ c :: post) :
    QAddr s (tailLink .first pre) := by
  rcases tailLink_addr .first pre with e | ⟨q, hq', e⟩
  · exact Or.inl e
  · exact Or.inr ⟨q, by rw [hq]; simp [hq'], e⟩

/-- the frame rule: the queue, the links at its addresses, outstanding link stores and the consumer's cut are kept -/
theorem frame_chain (s s' : St) (h : MInv s) (hq : queue s' = queue s)
    (hg : ∀ b, QAddr s b → getLink s' b = getLink s b)
    (hp : ∀ b p, pendingAt s b p → pendingAt s' b p) (hc : ∀ b p, cutAt s b p → cutAt s' b p) :
    ChainSeg s' .first (queue s') ∧ getLink s' (tailLink .first (queue s')) = none := by
  rw [hq]
  refine ⟨chainSeg_congr s s' .first (queue s) ?_ h.seg, by rw [hg _ (tail_QAddr s)]; exact h.tl⟩
  intro b p hb hcn
  have hb' := connAddr_QAddr s b hb
  rcases hcn with hl | ⟨hn, hpc⟩
  · exact Or.inl (by rw [hg b hb']; exact hl)
  · refine Or.inr ⟨by rw [hg b hb']; exact hn, ?_⟩
    rcases hpc with hp' | hc'
    · exact Or.inl (hp b p hp')
    · exact Or.inr (hc b p hc')

theorem getD_append_left {α} (l : List α) (x d : α) (i : Nat) (h : i < l.length) : (l ++ [x]).getD i d = l.getD i d := by
  simp [List.getD_eq_getElem?_getD, List.getElem?_append_left h]

/-- push, first access: `t->next_in_mailbox.store(nullptr)` on a freshly allocated proxy -/
theorem push_alloc (s s' : St) (k : Nat) (u : Pusher) (iso : Nat) (h : MInv s) (hk : s.pushers[k]? = some u)
    (hpc : u.pc = .start) (hops : u.ops ≠ [])
    (en : s'.nexts = s.nexts ++ [none]) (ei : s'.isos = s.isos ++ [iso])
    (ep : s'.pushers = s.pushers.set k { u with p := s.nexts.length, pc := .xchg })
    (ef : s'.first = s.first) (el : s'.last = s.last) (eo : s'.order = s.order) (ec : s'.cons = s.cons) : MInv s' := by
  have eq : queue s' = queue s := by simp only [queue, popped, eo, ec]
  have epop : popped s' = popped s := by simp only [popped, ec]
  have hkl := lt_of_getElem? hk
  have hqa : ∀ b, QAddr s b → ∀ p, b = .next p → p < s.nexts.length := fun b hb => addr_alloc s h b hb
  have hg : ∀ b, QAddr s b →
      getLink s' b = getLink s b := by
    intro b hb
    cases b with
    | first => simp only [getLink, ef]
    | next p => simp only [getLink, en]; exact getD_append_left _ _ _ _ (hqa _ hb p rfl)
  have hpend : ∀ b p, pendingAt s b p →
      pendingAt s' b p := by
    intro b p ⟨k', u', hk', h1, h2, h3⟩
    refine ⟨k', u', ?_, h1, h2, h3⟩
    have : k ≠ k' := by
      intro e; subst e; rw [hk] at hk'; cases hk'; rw [hpc] at h1; exact absurd h1 (by simp)
    rw [ep, List.getElem?_set_ne this]; exact hk'
  have hiso : ∀ q, q < s.nexts.length →
      isoOf s' q = isoOf s q := by
    intro q hq
    simp only [isoOf, ei]
    exact getD_append_left _ _ _ _ (by rw [h.lenI]; exact hq)
  obtain ⟨hseg, htl⟩ := frame_chain s s' h eq hg hpend (fun b p hc => by unfold cutAt at hc ⊢; rw [ec]; exact hc)
  refine ⟨by rw [en, ei]; simp [h.lenI], by rw [eo]; exact h.ordN, ?_, by rw [epop]; exact h.popN, by rw [epop, eo]; exact h.popS, hseg, htl,
          by rw [el, eq]; exact h.lastOK, ?_, ?_, ?_, ?_⟩
  · intro p hp; rw [eo] at hp; have := h.ordB p hp; rw [en]; simp only [List.length_append, List.length_singleton]; omega
  · intro k' u' hk'
    rw [ep] at hk'
    by_cases e : k = k'
    · subst e
      rw [List.getElem?_set_self hkl] at hk'
      cases hk'
      simp only [PushOK]
      refine ⟨hops, by rw [en]; simp, fun hm => ?_, ?_⟩
      · rw [eo] at hm; have := h.ordB _ hm; omega
      · simp [getLink, en, List.getD_eq_getElem?_getD]
    · rw [List.getElem?_set_ne e] at hk'
      have hold := h.push k' u' hk'
      unfold PushOK at hold ⊢
      cases hp : u'.pc with
      | start => trivial
      | xchg =>
        simp only [hp] at hold ⊢
        refine ⟨hold.1, by rw [en]; simp only [List.length_append, List.length_singleton]; omega, by rw [eo]; exact hold.2.2.1, ?_⟩
        simp only [getLink, en]; rw [getD_append_left _ _ _ _ hold.2.1]; exact hold.2.2.2
      | link =>
        simp only [hp] at hold ⊢
        obtain ⟨h1, pre, post, h2, h3, h4⟩ := hold
        refine ⟨h1, pre, post, by rw [eq]; exact h2, h3, ?_⟩
        rw [hg _ (by rw [h3]; exact tailLink_pre_QAddr s pre _ post h2)]; exact h4
  · intro k1 k2 u1 u2 hne h1 h2 hp1 hp2
    rw [ep] at h1 h2
    -- the fresh proxy id is larger than every id in use
    have hlt : ∀ (k' : Nat) (u' : Pusher), s.pushers[k']? = some u' → u'.pc ≠ .start → u'.p < s.nexts.length := by
      intro k' u' hk' hp'
      have hold := h.push k' u' hk'
      unfold PushOK at hold
      cases hp : u'.pc with
      | start => exact absurd hp hp'
      | xchg => simp only [hp] at hold; exact hold.2.1
      | link =>
        simp only [hp] at hold
        obtain ⟨_, pre, post, h2, _, _⟩ := hold
        exact queue_bound s h _ (by rw [h2]; simp)
    by_cases e1 : k = k1
    · subst e1
      rw [List.getElem?_set_self hkl] at h1; cases h1
      rw [List.getElem?_set_ne hne] at h2
      have := hlt k2 u2 h2 hp2
      simp only; omega
    · rw [List.getElem?_set_ne e1] at h1
      by_cases e2 : k = k2
      · subst e2
        rw [List.getElem?_set_self hkl] at h2; cases h2
        have := hlt k1 u1 h1 hp1
        simp only; omega
      · rw [List.getElem?_set_ne e2] at h2
        exact h.dist k1 k2 u1 u2 hne h1 h2 hp1 hp2
  · -- the consumer is untouched; links and tags at its addresses are unchanged
    have hc := h.cons
    unfold ConsOK at hc ⊢
    have hpos : ∀ pre post, Pos s pre post →
        Pos s' pre post := by
      intro pre post ⟨h1, h2, h3⟩
      refine ⟨by rw [eq, ec]; exact h1, by rw [ec]; exact h2, fun q hq => ?_⟩
      have hqb : q < s.nexts.length := queue_bound s h q (by rw [h1]; simp [hq])
      have := h3 q hq
      simp only [Mismatch, curIso] at this ⊢
      rw [hiso q hqb, ec]; exact this
    have hmm : ∀ pre post, Pos s pre post →
        (Mismatch s' s.cons.curr ↔
         Mismatch s s.cons.curr) := by
      intro pre post ⟨h1, _, _⟩
      have hqb : s.cons.curr < s.nexts.length := queue_bound s h _ (by rw [h1]; simp)
      simp only [Mismatch, curIso]
      rw [hiso _ hqb, ec]
    have hgp : ∀ pre post, Pos s pre post →
        getLink s' s.cons.prev = getLink s s.cons.prev := by
      intro pre post ⟨h1, h2, _⟩
      exact hg _ (by rw [h2]; exact tailLink_pre_QAddr s pre _ post h1)
    have hgc : ∀ pre post, Pos s pre post →
        getLink s' (.next s.cons.curr) =
        getLink s (.next s.cons.curr) := by
      intro pre post ⟨h1, _, _⟩
      exact hg _ (Or.inr ⟨_, by rw [h1]; simp, rfl⟩)
    rw [ec]
    cases hp : s.cons.pc <;> simp only [hp] at hc ⊢
    · obtain ⟨h0, pre, post, hP, h1, h2⟩ := hc
      exact ⟨h0, pre, post, hpos pre post hP, by rw [hgp pre post hP]; exact h1, (hmm pre post hP).mpr h2⟩
    · obtain ⟨h0, pre, post, hP, h1, h2⟩ := hc
      exact ⟨h0, pre, post, hpos pre post hP, by rw [hgp pre post hP]; exact h1, fun x => h2 ((hmm pre post hP).mp x)⟩
    · obtain ⟨h0, pre, post, hP, h1, h2, post', h3, h4⟩ := hc
      exact ⟨h0, pre, post, hpos pre post hP, by rw [hgp pre post hP]; exact h1, fun x => h2 ((hmm pre post hP).mp x),
             post', h3, by rw [hgc pre post hP]; exact h4⟩
    · obtain ⟨h0, pre, post, hP, h1, h2⟩ := hc
      exact ⟨h0, pre, post, hpos pre post hP, by rw [hgp pre post hP]; exact h1, fun x => h2 ((hmm pre post hP).mp x)⟩
    · obtain ⟨h0, pre, post, hP, h1, h2⟩ := hc
      exact ⟨h0, pre, post, hpos pre post hP, by rw [hgp pre post hP]; exact h1, fun x => h2 ((hmm pre post hP).mp x)⟩
    · obtain ⟨h0, pre, post, hP, h1, h2, h3⟩ := hc
      exact ⟨h0, pre, post, hpos pre post hP, by rw [hgp pre post hP]; exact h1, fun x => h2 ((hmm pre post hP).mp x), h3⟩
    · obtain ⟨h0, pre, post, hP, h1, h2, post', h3, h4⟩ := hc
      exact ⟨h0, pre, post, hpos pre post hP, by rw [hgp pre post hP]; exact h1, fun x => h2 ((hmm pre post hP).mp x),
             post', h3, by rw [hgc pre post hP]; exact h4⟩

  · intro k' u' hk' hl hcs
    rw [ep] at hk'
    rw [ec] at hcs ⊢
    by_cases e : k = k'
    · subst e
      rw [List.getElem?_set_self hkl] at hk'
      cases hk'
      exact absurd hl (by simp)
    · rw [List.getElem?_set_ne e] at hk'
      exact h.ncp k' u' hk' hl hcs

end TbbVerif.C01.Mailbox
