/- C01 — Deque: the logical window of the task pool and list lemmas about it. -/
import TbbVerif.Model.C01
import TbbVerif.Proofs.C01.Lists

namespace TbbVerif.C01.Deque
open Lists

def itemOf : Cell → Option Item
  | .item x => some x
  | _ => none

/-- the tasks in cells `[a, b)` of the array -/
def itemsN (p : List Cell) (a b : Nat) : List Item := ((p.drop a).take (b - a)).filterMap itemOf

def items (p : List Cell) (lo hi : Int) : List Item := itemsN p lo.toNat hi.toNat

theorem resident_eq (s : St) : resident s = items s.pool s.head s.tail := by
  simp only [resident, items, itemsN]
  congr 1

theorem itemsN_empty (p : List Cell) (a b : Nat) (h : b ≤ a) : itemsN p a b = [] := by
  simp [itemsN, Nat.sub_eq_zero_of_le h]

theorem take_succ_drop (p : List Cell) (a n : Nat) (h : a + n < p.length) :
    (p.drop a).take (n + 1) = (p.drop a).take n ++ [p.getD (a + n) .junk] := by
  rw [List.take_add_one]
  congr 1
  simp [List.getD_eq_getElem?_getD, h]

/-- extend the window by one cell at the top -/
theorem itemsN_snoc (p : List Cell) (a b : Nat) (hab : a ≤ b) (hb : b < p.length) :
    itemsN p a (b + 1) = itemsN p a b ++ (itemOf (p.getD b .junk)).toList := by
  simp only [itemsN]
  have e : b + 1 - a = (b - a) + 1 := by omega
  rw [e, take_succ_drop p a (b - a) (by omega)]
  have : a + (b - a) = b := by omega
  rw [this, List.filterMap_append]
  congr 1

/-- shrink the window by one cell at the bottom -/
theorem itemsN_cons (p : List Cell) (a b : Nat) (hab : a < b) (ha : a < p.length) :
    itemsN p a b = (itemOf (p.getD a .junk)).toList ++ itemsN p (a + 1) b := by
  simp only [itemsN]
  have e : b - a = (b - (a + 1)) + 1 := by omega
  rw [e]
  have hd : p.drop a = p.getD a .junk :: p.drop (a + 1) := by
    rw [List.drop_eq_getElem_cons ha]
    simp [List.getD_eq_getElem?_getD, ha]
  rw [hd, List.take_succ_cons, List.filterMap_cons]
  cases itemOf (p.getD a .junk) <;> simp

theorem itemsN_set_outside (p : List Cell) (a b i : Nat) (c : Cell) (h : i < a ∨ b ≤ i) :
    itemsN (p.set i c) a b = itemsN p a b := by
  simp only [itemsN]
  congr 1
  apply List.ext_getElem?
  intro n
  simp only [List.getElem?_take, List.getElem?_drop]
  by_cases hn : n < b - a
  · simp only [hn, if_true]
    rw [List.getElem?_set_ne (by omega)]
  · simp [hn]

/-- a cell of the window that holds no task contributes nothing -/
theorem itemsN_split (p : List Cell) (a i b : Nat) (hai : a ≤ i) (hib : i < b) (hb : b ≤ p.length) :
    itemsN p a b = itemsN p a i ++ (itemOf (p.getD i .junk)).toList ++ itemsN p (i + 1) b := by
  have h1 : itemsN p a b = itemsN p a i ++ itemsN p i b := by
    simp only [itemsN]
    rw [← List.filterMap_append]
    congr 1
    have : b - a = (i - a) + (b - i) := by omega
    rw [this, List.take_add, List.drop_drop]
    have e2 : a + (i - a) = i := by omega
    rw [e2]
  rw [h1, itemsN_cons p i b hib (by omega), List.append_assoc]

theorem itemsN_set_inside (p : List Cell) (a i b : Nat) (c : Cell) (hai : a ≤ i) (hib : i < b) (hb : b ≤ p.length) :
    itemsN (p.set i c) a b = itemsN p a i ++ (itemOf c).toList ++ itemsN p (i + 1) b := by
  rw [itemsN_split (p.set i c) a i b hai hib (by simpa using hb)]
  rw [itemsN_set_outside p a i i c (Or.inr (Nat.le_refl i)), itemsN_set_outside p (i + 1) b i c (Or.inl (by omega))]
  rw [getD_set_eq _ _ _ _ (by omega)]

end TbbVerif.C01.Deque
