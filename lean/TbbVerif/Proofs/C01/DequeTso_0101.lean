/-
C01 / DequeTso: kernel-checked closure of the reachable set for one Orders table (see DequeTsoCore.lean):
decRmw=false decFence=true incRmw=false incFence=true.
-/
import TbbVerif.Proofs.C01.DequeTsoCore

namespace TbbVerif.C01.DequeTso

theorem closed_0101 : closed ⟨false, true, false, true⟩ (reachSet ⟨false, true, false, true⟩) = true := by decide +kernel
theorem safe_0101 : safe (reachSet ⟨false, true, false, true⟩) = true := by decide +kernel

end TbbVerif.C01.DequeTso
