/-
C01 / DequeTso: kernel-checked closure of the reachable set for one Orders table (see DequeTsoCore.lean):
decRmw=true decFence=false incRmw=false incFence=true.
-/
import TbbVerif.Proofs.C01.DequeTsoCore

namespace TbbVerif.C01.DequeTso

theorem closed_1001 : closed ⟨true, false, false, true⟩ (reachSet ⟨true, false, false, true⟩) = true := by decide +kernel
theorem safe_1001 : safe (reachSet ⟨true, false, false, true⟩) = true := by decide +kernel

end TbbVerif.C01.DequeTso
