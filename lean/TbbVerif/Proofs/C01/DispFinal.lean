/-
C01 / Dispatch: a closed group is final — no action adds a unit to a group whose wait has returned.
-/
import TbbVerif.Proofs.C01.DispAny

namespace TbbVerif.C01.Dispatch

/-- the unit table after a `set` that keeps the group -/
theorem units_set_grp {l : List UnitR} {u : Nat} {x x' : UnitR} (hu : l[u]? = some x) (hg : x'.grp = x.grp)
    {v : Nat} {y : UnitR} (hy : (l.set u x')[v]? = some y) : ∃ z, l[v]? = some z ∧ z.grp = y.grp := by
  rw [units_set_get hu] at hy
  by_cases hv : u = v
  · subst hv
    simp at hy
    subst hy
    exact ⟨x, hu, hg.symm⟩
  · simp only [hv, if_false] at hy
    exact ⟨y, hy, rfl⟩

theorem units_startExec_grp {s : St} {t : Tid} {stk : List Frame} {u : Nat} {x : UnitR} (hu : s.units[u]? = some x)
    {v : Nat} {y : UnitR} (hy : (startExec s t stk u x).units[v]? = some y) : ∃ z, s.units[v]? = some z ∧ z.grp = y.grp := by
  rw [units_startExec s t stk u x v hu] at hy
  by_cases hv : u = v
  · subst hv
    simp at hy
    subst hy
    exact ⟨x, hu, rfl⟩
  · simp only [hv, if_false] at hy
    exact ⟨y, hy, rfl⟩

/-- every unit after a step either existed before (same group) or was just submitted — and then its group is not closed -/
theorem step_units {s s' : St} (h : Inv s) {a : Act} (he : step s a = some s') {v : Nat} {y : UnitR}
    (hy : s'.units[v]? = some y) :
    (∃ z, s.units[v]? = some z ∧ z.grp = y.grp) ∨ (∃ G, s.groups[y.grp]? = some G ∧ G.closed = false) := by
  have same : ∀ {s1 : St}, s1 = s' → s1.units = s.units → (∃ z, s.units[v]? = some z ∧ z.grp = y.grp) := by
    intro s1 h2 h1
    subst h2
    rw [h1] at hy
    exact ⟨y, hy, rfl⟩
  cases a with
  | newGroup t =>
    simp only [step, actNewGroup] at he
    split at he
    · simp only [Option.some.injEq] at he; exact Or.inl (same he rfl)
    · simp at he
  | newCtx => simp only [step, Option.some.injEq] at he; exact Or.inl (same he rfl)
  | cancel c =>
    simp only [step, actCancel] at he
    split at he
    · simp only [Option.some.injEq] at he; exact Or.inl (same he rfl)
    · simp at he
  | enter t k =>
    simp only [step, actEnter] at he
    split at he
    · simp at he
    · split at he
      · simp only [Option.some.injEq] at he; exact Or.inl (same he rfl)
      · simp at he
  | leave t =>
    simp only [step, actLeave] at he
    split at he
    · split at he
      · simp only [Option.some.injEq] at he; exact Or.inl (same he rfl)
      · simp at he
    · simp at he
  | beginWait t g iso =>
    simp only [step, actBeginWait] at he
    split at he
    · simp at he
    · split at he
      · simp at he
      · split at he
        · simp only [Option.some.injEq] at he; exact Or.inl (same he rfl)
        · split at he
          · simp at he
          · split at he
            · simp only [Option.some.injEq] at he; exact Or.inl (same he rfl)
            · simp at he
  | waitReturn t =>
    simp only [step, actWaitReturn] at he
    split at he
    · split at he
      · simp only [Option.some.injEq] at he; exact Or.inl (same he rfl)
      · simp at he
    · split at he
      · simp at he
      · split at he
        · simp only [Option.some.injEq] at he; exact Or.inl (same he rfl)
        · simp at he
    · simp at he
  | submit t g c iso tg =>
    simp only [step, actSubmit] at he
    split at he
    · rename_i stk G hst hG
      split at he
      · rename_i hc
        obtain ⟨_, hperm⟩ := hc
        have hnc : G.closed = false := by
          rcases hperm with ⟨_, h2⟩ | h2
          · exact h2
          · exact not_closed_of_holds h h2 hG
        have key : s'.units = s.units ++ [({ grp := g, ctx := c, iso := iso } : UnitR)] := by
          split at he
          · split at he
            · simp at he
            · split at he
              · simp at he
              · simp only [Option.some.injEq] at he; subst he; rfl
          · split at he
            · simp at he
            · split at he
              · split at he
                · simp only [Option.some.injEq] at he; subst he; rfl
                · simp at he
              · simp at he
          · split at he
            · split at he
              · simp at he
              · simp only [Option.some.injEq] at he; subst he; rfl
            · simp at he
          · split at he
            · simp only [Option.some.injEq] at he; subst he; rfl
            · simp at he
        rw [key, getElem?_append_one] at hy
        by_cases h1 : v < s.units.length
        · simp only [h1, if_true] at hy
          exact Or.inl ⟨y, hy, rfl⟩
        · by_cases h2 : v = s.units.length
          · subst h2
            simp at hy
            subst hy
            exact Or.inr ⟨G, hG, hnc⟩
          · simp [h1, h2] at hy
      · simp at he
    · simp at he
  | respawn t =>
    simp only [step, actRespawn] at he
    split at he
    · split at he
      · simp at he
      · split at he
        · simp at he
        · simp only [Option.some.injEq] at he; exact Or.inl (same he rfl)
    · simp at he
  | miss t =>
    simp only [step, actMiss] at he
    split at he
    · split at he
      · simp at he
      · simp only [Option.some.injEq] at he; exact Or.inl (same he rfl)
    · simp at he
  | takeBypass t =>
    simp only [step, actTakeBypass] at he
    split at he
    · split at he
      · simp at he
      · rename_i x hu
        split at he
        · simp only [Option.some.injEq] at he
          subst he
          exact Or.inl (units_startExec_grp (s := { s with bypass := s.bypass.set t none }) hu hy)
        · simp at he
    · simp at he
  | takePool t v' i =>
    simp only [step, actTakePool] at he
    split at he
    · split at he
      · split at he
        · split at he
          · simp at he
          · split at he
            · simp at he
            · split at he
              · simp only [Option.some.injEq] at he; exact Or.inl (same he rfl)
              · simp at he
          · split at he
            · simp at he
            · split at he
              · split at he
                · simp at he
                · split at he
                  · simp only [Option.some.injEq] at he; exact Or.inl (same he rfl)
                  · simp at he
              · simp only [Option.some.injEq] at he; exact Or.inl (same he rfl)
              · simp at he
        · simp at he
      · simp at he
    · simp at he
  | takeBox t i =>
    simp only [step, actTakeBox] at he
    split at he
    · split at he
      · simp at he
      · split at he
        · simp at he
        · split at he
          · split at he
            · simp at he
            · split at he
              · simp at he
              · split at he
                · split at he
                  · simp at he
                  · split at he
                    · simp only [Option.some.injEq] at he; exact Or.inl (same he rfl)
                    · simp at he
                · simp only [Option.some.injEq] at he; exact Or.inl (same he rfl)
                · simp at he
          · simp at he
    · simp at he
  | takeStream t kind i =>
    simp only [step, actTakeStream] at he
    split at he
    · split at he
      · simp at he
      · split at he
        · simp at he
        · split at he
          · simp at he
          · split at he
            · simp at he
            · split at he
              · simp at he
              · split at he
                · simp only [Option.some.injEq] at he; exact Or.inl (same he rfl)
                · simp at he
    · simp at he
  | drainBox k i =>
    simp only [step, actDrainBox] at he
    split at he
    · simp at he
    · split at he
      · simp at he
      · split at he
        · simp at he
        · split at he
          · simp only [Option.some.injEq] at he; exact Or.inl (same he rfl)
          · simp at he
  | complete t =>
    simp only [step, actComplete] at he
    split at he
    · split at he
      · simp at he
      · rename_i x hu
        split at he
        · simp at he
        · split at he
          · simp only [Option.some.injEq] at he
            subst he
            exact Or.inl (units_set_grp (x' := { x with st := .released }) hu rfl hy)
          · simp at he
    · simp at he
  | ret t =>
    simp only [step, actRet] at he
    split at he
    · split at he
      · simp at he
      · rename_i x hu
        split at he
        · simp only [Option.some.injEq] at he
          subst he
          exact Or.inl (units_set_grp (x' := { x with st := .done }) hu rfl hy)
        · simp at he
    · simp at he

/-- no action adds a unit to a group whose wait has returned -/
theorem closed_group_final {s s' : St} (h : Inv s) {g : Nat} {G : Group} (hG : s.groups[g]? = some G)
    (hc : G.closed = true) (_hl : live s g = 0) {a : Act} (he : step s a = some s') {u : Nat} {x' : UnitR}
    (hu : s'.units[u]? = some x') (hg : x'.grp = g) : ∃ x, s.units[u]? = some x ∧ x.grp = g := by
  rcases step_units h he hu with ⟨z, hz, hzg⟩ | ⟨G2, hG2, hnc⟩
  · exact ⟨z, hz, by rw [hzg, hg]⟩
  · rw [hg, hG] at hG2
    cases hG2
    rw [hc] at hnc
    simp at hnc

end TbbVerif.C01.Dispatch
