/- C01 — task_proxy two-sided claim: inductive invariant of the Proxy model (Model/C01.lean). -/
import TbbVerif.Model.C01

namespace TbbVerif.C01.Proxy

/-- a side that has not finished: about to load, or about to CAS against the shared value 3 -/
def Pending (x : Side) : Prop :=
  x.got = false ∧ x.freed = false ∧ (x.pc = .load ∨ (x.pc = .cas ∧ x.tat = 3))

/-- `w` won the task (its CAS replaced 3 by the other side's bit); `l` is the other side: it is still on its way
to find out, or it has found out and freed the proxy -/
def Won (w l : Side) : Prop :=
  w.pc = .done ∧ w.got = true ∧ w.freed = false ∧ l.got = false ∧
  ((l.freed = false ∧ (l.pc = .load ∨ (l.pc = .cas ∧ l.tat = 3))) ∨ (l.pc = .done ∧ l.freed = true))

def Core (tat : Nat) (x y : Side) : Prop :=
  (tat = 3 ∧ Pending x ∧ Pending y) ∨ (tat = y.bit ∧ Won x y) ∨ (tat = x.bit ∧ Won y x)

theorem Core.symm {tat : Nat} {x y : Side} (h : Core tat x y) : Core tat y x := by
  rcases h with ⟨a, b, c⟩ | h | h
  · exact Or.inl ⟨a, c, b⟩
  · exact Or.inr (Or.inr h)
  · exact Or.inr (Or.inl h)

/-- one access of side `x` (the other side is `y`) preserves `Core`, and it never touches a freed proxy -/
theorem stepSide_core (tat : Nat) (x y : Side) (hb : x.bit + y.bit = 3) (hx : x.bit = 1 ∨ x.bit = 2)
    (h : Core tat x y) :
    Core (stepSide tat x).1 (stepSide tat x).2.1 y ∧ (stepSide tat x).2.1.bit = x.bit ∧
    ((stepSide tat x).2.2.isSome = true → y.freed = false) := by
  have hy : y.bit = 3 - x.bit := by omega
  rcases h with ⟨ht, ⟨xg, xf, xp⟩, py⟩ | ⟨ht, xw, xg, xf, yg, yl⟩ | ⟨ht, yw, yg, yf, xg, xl⟩
  · subst ht
    have hne : ¬ (3 = x.bit) := by omega
    rcases xp with xp | ⟨xp, xt⟩
    · have e : stepSide 3 x = (3, { x with tat := 3, pc := .cas }, Deque.ev "tat" "load" 3) := by
        simp [stepSide, xp, hne]
      rw [e]
      exact ⟨Or.inl ⟨rfl, ⟨xg, xf, Or.inr ⟨rfl, rfl⟩⟩, py⟩, rfl, fun _ => py.2.1⟩
    · have e : stepSide 3 x = (3 - x.bit, { x with pc := .done, got := true }, Deque.ev "tat" "cas" x.tat (3 - x.bit : Nat) true) := by
        simp [stepSide, xp, xt]
      rw [e]
      exact ⟨Or.inr (Or.inl ⟨hy.symm, rfl, rfl, xf, py.1, Or.inl ⟨py.2.1, py.2.2⟩⟩), rfl, fun _ => py.2.1⟩
  · have e : stepSide tat x = (tat, x, none) := by simp [stepSide, xw]
    rw [e]
    exact ⟨Or.inr (Or.inl ⟨ht, xw, xg, xf, yg, yl⟩), rfl, by simp⟩
  · rcases xl with ⟨xf, xl⟩ | ⟨xd, xf⟩
    · rcases xl with xp | ⟨xp, xt⟩
      · have e : stepSide tat x = (tat, { x with tat := tat, pc := .done, freed := true }, Deque.ev "tat" "load" tat) := by
          simp [stepSide, xp, ht]
        rw [e]
        exact ⟨Or.inr (Or.inr ⟨ht, yw, yg, yf, xg, Or.inr ⟨rfl, rfl⟩⟩), rfl, fun _ => yf⟩
      · have hne : ¬ (tat = x.tat) := by omega
        have e : stepSide tat x = (tat, { x with pc := .done, freed := true }, Deque.ev "tat" "cas" x.tat tat false) := by
          simp [stepSide, xp, hne]
        rw [e]
        exact ⟨Or.inr (Or.inr ⟨ht, yw, yg, yf, xg, Or.inr ⟨rfl, rfl⟩⟩), rfl, fun _ => yf⟩
    · have e : stepSide tat x = (tat, x, none) := by simp [stepSide, xd]
      rw [e]
      exact ⟨Or.inr (Or.inr ⟨ht, yw, yg, yf, xg, Or.inr ⟨xd, xf⟩⟩), rfl, by simp⟩

structure Inv (s : St) : Prop where
  ex : ∃ a b, s.sides = [a, b] ∧ a.bit = 1 ∧ b.bit = 2 ∧ Core s.tat a b
  nobad : s.bad = false

theorem inv_init : Inv sys.init := by
  refine ⟨⟨{ bit := 1 }, { bit := 2 }, rfl, rfl, rfl, Or.inl ⟨rfl, ?_, ?_⟩⟩, rfl⟩ <;> simp [Pending]

theorem step_zero (tat : Nat) (a b : Side) (bad : Bool) :
    sys.step { tat := tat, sides := [a, b], bad := bad } 0 =
      { tat := (stepSide tat a).1, sides := [(stepSide tat a).2.1, b],
        bad := bad || ((stepSide tat a).2.2.isSome && b.freed) } := by
  simp [sys, step, stepEv, List.zipIdx]

theorem step_one (tat : Nat) (a b : Side) (bad : Bool) :
    sys.step { tat := tat, sides := [a, b], bad := bad } 1 =
      { tat := (stepSide tat b).1, sides := [a, (stepSide tat b).2.1],
        bad := bad || ((stepSide tat b).2.2.isSome && a.freed) } := by
  simp [sys, step, stepEv, List.zipIdx]

theorem inv_step (s : St) (tid : Tid) (h : Inv s) : Inv (sys.step s tid) := by
  obtain ⟨⟨a, b, hs, ha, hb, hc⟩, hbad⟩ := h
  cases s with
  | mk tat sides bad =>
  simp only at hs hbad hc
  subst hs hbad
  match tid with
  | 0 =>
    rw [step_zero]
    obtain ⟨h1, h2, h3⟩ := stepSide_core tat a b (by omega) (Or.inl ha) hc
    refine ⟨⟨_, b, rfl, by rw [h2, ha], hb, h1⟩, ?_⟩
    cases he : (stepSide tat a).2.2.isSome
    · simp
    · simp [h3 he]
  | 1 =>
    rw [step_one]
    obtain ⟨h1, h2, h3⟩ := stepSide_core tat b a (by omega) (Or.inr hb) hc.symm
    refine ⟨⟨a, _, rfl, ha, by rw [h2, hb], h1.symm⟩, ?_⟩
    cases he : (stepSide tat b).2.2.isSome
    · simp
    · simp [h3 he]
  | n + 2 =>
    exact ⟨⟨a, b, by simp [sys, step, stepEv], ha, hb, by simpa [sys, step, stepEv] using hc⟩, by simp [sys, step, stepEv]⟩

theorem inv_reachable (sched : List Tid) : Inv (sys.run sched) :=
  Sys.inv_run sys Inv inv_init inv_step sched

/-- consequences of the invariant, in the vocabulary of the property -/
theorem inv_taken {s : St} (h : Inv s) : taken s ≤ 1 ∧ (allDone s = true → taken s = 1) := by
  obtain ⟨⟨a, b, hs, _, _, hc⟩, _⟩ := h
  simp only [taken, allDone, hs, List.countP_cons, List.countP_nil, List.all_cons, List.all_nil]
  rcases hc with ⟨_, ⟨ag, _, ap⟩, ⟨bg, _, _⟩⟩ | ⟨_, aw, ag, _, bg, _⟩ | ⟨_, bw, bg, _, ag, _⟩
  · simp [ag, bg]
    rcases ap with ap | ⟨ap, _⟩ <;> simp [ap]
  · simp [ag, bg]
  · simp [ag, bg]

theorem inv_freed {s : St} (h : Inv s) :
    freedN s ≤ 1 ∧ (allDone s = true → freedN s = 1) ∧ (∀ x ∈ s.sides, x.freed = true → x.got = false) ∧
    (∀ x ∈ s.sides, x.freed = true → ∀ y ∈ s.sides, y.pc = .done) := by
  obtain ⟨⟨a, b, hs, _, _, hc⟩, _⟩ := h
  simp only [freedN, allDone, hs, List.countP_cons, List.countP_nil, List.all_cons, List.all_nil, List.mem_cons,
    List.not_mem_nil, or_false, forall_eq_or_imp, forall_eq]
  rcases hc with ⟨_, ⟨ag, af, ap⟩, ⟨bg, bf, _⟩⟩ | ⟨_, aw, ag, af, bg, bl⟩ | ⟨_, bw, bg, bf, ag, al⟩
  · simp [af, bf]
    rcases ap with ap | ⟨ap, _⟩ <;> simp [ap]
  · rcases bl with ⟨bf, bl⟩ | ⟨bd, bf⟩
    · simp [af, bf]
      rcases bl with bp | ⟨bp, _⟩ <;> simp [bp]
    · simp [af, bf, aw, bd, bg]
  · rcases al with ⟨af, al⟩ | ⟨ad, af⟩
    · simp [af, bf]
      rcases al with ap | ⟨ap, _⟩ <;> simp [ap]
    · simp [af, bf, bw, ad, ag]

end TbbVerif.C01.Proxy
