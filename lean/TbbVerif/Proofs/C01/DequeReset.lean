/- C01 — Deque: the end of reset_task_pool_and_leave (`task_pool = EmptyTaskPool`), followed by get_task_impl on the last
task (`H0 == T`) or directly by the epilogue (`H0 > T`), preserves the invariant. -/
import TbbVerif.Proofs.C01.DequeInspect
import TbbVerif.Proofs.C01.DequeThiefTail

namespace TbbVerif.C01.Deque
open Lists

/-- the window part of the invariant for a state whose pool is reset and left (head = tail = 0, nobody inside) and whose
old window `[lo, hi)` held exactly the tasks `d`, now accounted for by returned / inflight -/
theorem WinOK_reset_fin (s s' : St) (d : List Item) (h : WinOK s) (h0 : csN s'.ths = 0) (hns : loSpecial s'.own.pc = false)
    (hhi : hi s' = 0) (hhd : s'.head = 0) (hsp : s'.spawned = s.spawned)
    (hit : ∀ x, (items s.pool (lo s) (hi s)).count x = d.count x)
    (hr : ∀ x, (returned s').count x + (inflight s').count x = (returned s).count x + (inflight s).count x + d.count x) :
    WinOK s' := by
  have hlo : lo s' = 0 := by rw [lo_noCS s' hns h0, hhd]
  refine ⟨by rw [hlo]; exact Int.le_refl 0, by rw [hlo, hhi]; exact Int.le_refl 0, by rw [hhi]; omega, ?_, ?_⟩
  · intro i h1 h2; rw [hlo] at h1; rw [hhi] at h2; omega
  · intro x
    have e := h.cnt x
    have := hit x
    have := hr x
    rw [hsp, hlo, hhi, items_empty _ _ _ (Int.le_refl 0)]
    simp only [List.count_nil]
    omega

theorem items_one (p : List Cell) (T : Int) (h0 : 0 ≤ T) (h1 : T < p.length) :
    items p T (T + 1) = (itemOf (cellAt p T)).toList := by
  rw [items_cons p T (T + 1) h0 (by omega) h1, items_empty p (T + 1) (T + 1) (Int.le_refl _), List.append_nil]

/-- assembling the invariant after `task_pool = EmptyTaskPool` -/
theorem reset_assemble (s s' : St) (h : DInv s) (he : ownerExcl s.own.pc = true)
    (hcfg : s'.cfg = s.cfg) (hbad : s'.bad = s.bad) (hhead : 0 ≤ s'.head) (hlw : s'.lw = .empty) (hths : s'.ths = s.ths)
    (he' : ownerExcl s'.own.pc = false) (hown : OwnerOK s') (hwin : WinOK s') : DInv s' := by
  have hex := excl_facts s h he
  exact ⟨by rw [hcfg]; exact h.cfgOK, by rw [hbad]; exact h.nobad, hhead, fun _ => hlw,
    LockOK_noCS s s' hex.1 hths (Or.inr hlw) (fun e => by rw [he'] at e; exact absurd e (by simp)),
    thOK_owner s s' h hths (Or.inr hex.1), hown, hwin⟩

theorem owner_rLeave (s : St) (b : Bool) (h : DInv s) (hpc : s.own.pc = .rLeave b) : DInv (stepOwner s).1 := by
  have ho := h.ownOK
  have hw := h.winOK
  have hex := excl_facts s h (by rw [hpc]; rfl)
  obtain ⟨cfg, head, tail, lw, pool, bad, spawned, own, ths⟩ := s
  obtain ⟨ops, pc, T0, T, H0, T1, res, omitted, poolEmpty, gen, out, freed⟩ := own
  simp only at hpc hex; subst hpc
  simp only [OwnerOK, GetLoop] at ho
  obtain ⟨⟨⟨iso, rest, hops⟩, hres, hpe, hlt, hom⟩, ht, hh, hH0, hb1, hb2⟩ := ho
  subst hops hres hpe ht hh
  have hlo : lo (⟨cfg, 0, 0, lw, pool, bad, spawned,
      ⟨OOp.get iso :: rest, .rLeave b, T0, T, H0, T1, none, omitted, false, gen, out, freed⟩, ths⟩ : St) = H0 := rfl
  have hhi : hi (⟨cfg, 0, 0, lw, pool, bad, spawned,
      ⟨OOp.get iso :: rest, .rLeave b, T0, T, H0, T1, none, omitted, false, gen, out, freed⟩, ths⟩ : St) = T0 := rfl
  have hlh := hw.loLeHi
  have hlen := hw.hiLe
  rw [hlo, hhi] at hlh
  rw [hhi] at hlen
  simp only at hlen
  have h0 : csN ths = 0 := hex.1
  simp only [stepOwner]
  -- the two kinds of outcome
  have finOK : ∀ (T0' : Int) (out' : List (Option Item)) (freed' : List Item) (d : List Item),
      (∀ x, (items pool H0 T0).count x = d.count x) →
      (∀ x, (out'.filterMap id).count x + freed'.count x =
            (out.filterMap id).count x + freed.count x + d.count x) →
      DInv (⟨cfg, 0, 0, .empty, pool, bad, spawned,
        ⟨rest, .start, T0', T, -1, T1, none, false, false, gen, out', freed'⟩, ths⟩ : St) := by
    intro T0' out' freed' d hit hcnt
    refine reset_assemble _ _ h rfl rfl rfl (Int.le_refl 0) rfl rfl rfl
      (by simp only [OwnerOK]; exact ⟨trivial, trivial, trivial, Int.le_refl 0⟩) ?_
    refine WinOK_reset_fin _ _ d hw h0 rfl rfl rfl rfl (by rw [hlo, hhi]; exact hit) ?_
    intro y
    refine counts_step _ _ d ?_ ?_ y
    · rfl
    · intro z; have := hcnt z; simp only [Option.toList, List.count_nil]; omega
  have pOK : ∀ (H0' : Int) (pool' : List Cell) (res' : Option Item) (freed' : List Item),
      0 ≤ H0' → H0' < T0 →
      WinOK (⟨cfg, 0, 0, .empty, pool', bad, spawned,
        ⟨OOp.get iso :: rest, .pHead, T0, T, H0', T1, res', true, true, gen, out, freed'⟩, ths⟩ : St) →
      DInv (⟨cfg, 0, 0, .empty, pool', bad, spawned,
        ⟨OOp.get iso :: rest, .pHead, T0, T, H0', T1, res', true, true, gen, out, freed'⟩, ths⟩ : St) := by
    intro H0' pool' res' freed' h1 h2 hwin
    exact reset_assemble _ _ h rfl rfl rfl (Int.le_refl 0) rfl rfl rfl
      (by simp only [OwnerOK]; exact ⟨⟨iso, rest, rfl⟩, trivial, trivial, h1, h2, trivial, trivial, trivial⟩) hwin
  cases b with
  | false =>
    -- the thief has not backed off: nothing to grab, only the epilogue
    have hTH : T < H0 := hb2 rfl
    simp only [Bool.false_eq_true, if_false, ownerPost, Owner.fin, Option.isSome_none]
    cases omitted with
    | false =>
      simp only [Bool.false_eq_true, if_false]
      have hT0e : T0 = T + 1 := hom rfl
      exact finOK T0 (none :: out) freed [] (fun x => by rw [items_empty _ _ _ (by omega)]) (fun x => by simp)
    | true =>
      simp only [if_true]
      by_cases hc : H0 < T0
      · simp only [hc, if_true]
        exact pOK H0 pool none freed hH0 hc (WinOK_own_same _ _ hw rfl rfl rfl rfl rfl rfl rfl rfl)
      · simp only [hc, if_false]
        exact finOK T0 (none :: out) freed [] (fun x => by rw [items_empty _ _ _ (by omega)]) (fun x => by simp)
  | true =>
    -- exactly one task left (H0 == T): get_task_impl on it after the reset
    have hHT : H0 = T := hb1 rfl
    subst hHT
    have hnj := hw.noJunk H0 (by rw [hlo]; exact Int.le_refl _) (by rw [hhi]; exact hlt)
    simp only at hnj
    have hone : T0 = H0 + 1 → ∀ x, (items pool H0 T0).count x = ((itemOf (cellAt pool H0)).toList).count x := by
      intro e x; rw [e, items_one pool H0 hH0 (by omega)]
    simp only [if_true, ownerInspect]
    split
    · rename_i hc; exact absurd hc hnj
    · -- a hole
      rename_i hc
      cases omitted with
      | true =>
        simp only [if_true, ownerLoop, ownerPost, Owner.fin, Option.isSome_none, Bool.false_eq_true, if_false, hlt]
        exact pOK H0 pool none freed hH0 hlt (WinOK_own_same _ _ hw rfl rfl rfl rfl rfl rfl rfl rfl)
      | false =>
        simp only [Bool.false_eq_true, if_false, ownerLoop, ownerPost, Owner.fin, if_true]
        have hT0e : T0 = H0 + 1 := hom rfl
        exact finOK H0 (none :: out) freed [] (fun x => by rw [hone hT0e x, hc]; rfl) (fun x => by simp)
    · -- a task
      rename_i x hc
      by_cases hom1 : ownerOmit iso x = true
      · simp only [hom1, if_true, ownerLoop, ownerPost, Owner.fin, Option.isSome_none, Bool.false_eq_true, if_false, hlt]
        exact pOK H0 pool none freed hH0 hlt (WinOK_own_same _ _ hw rfl rfl rfl rfl rfl rfl rfl rfl)
      · simp only [hom1, Bool.false_eq_true, if_false]
        by_cases hd : x.dead = true
        · simp only [hd, if_true]
          cases omitted with
          | true =>
            simp only [if_true, ownerLoop, ownerPost, Owner.fin, Option.isSome_none, Bool.false_eq_true, if_false, hlt]
            refine pOK H0 (setCell pool H0 .hole) none (x :: freed) hH0 hlt ?_
            refine WinOK_punch _ _ H0 x hw rfl rfl rfl (by rw [hlo]; exact Int.le_refl _) (by rw [hhi]; exact hlt) hc rfl ?_
            intro y
            refine counts_step _ _ [x] ?_ ?_ y
            · rfl
            · intro z; simp only [List.count_cons, List.count_nil]; omega
          | false =>
            simp only [Bool.false_eq_true, if_false, ownerLoop, ownerPost, Owner.fin, if_true]
            have hT0e : T0 = H0 + 1 := hom rfl
            exact finOK H0 (none :: out) (x :: freed) [x] (fun y => by rw [hone hT0e y, hc]; rfl)
              (fun y => by simp only [List.filterMap_cons, id, List.count_cons, List.count_nil]; omega)
        · simp only [hd, Bool.false_eq_true, if_false, ownerPost, Owner.fin, Option.isSome_some, if_true]
          cases omitted with
          | false =>
            simp only [Bool.false_eq_true, if_false]
            have hT0e : T0 = H0 + 1 := hom rfl
            exact finOK T0 (some x :: out) freed [x] (fun y => by rw [hone hT0e y, hc]; rfl)
              (fun y => by simp only [List.filterMap_cons, id, List.count_cons, List.count_nil, beq_iff_eq]; omega)
          | true =>
            simp only [if_true]
            by_cases hc2 : H0 + 1 < T0
            · simp only [hc2, if_true]
              refine pOK (H0 + 1) pool (some x) freed (by omega) hc2 ?_
              refine WinOK_shift _ _ (some x) hw rfl rfl ?_ (by rw [hlo, hhi]; exact hlt) (by rw [hlo, hc]; rfl) rfl ?_
              · rw [hlo]; rfl
              · intro y
                refine counts_step _ _ [x] ?_ ?_ y
                · rfl
                · intro z; simp only [Option.toList, List.count_cons, List.count_nil, beq_iff_eq]; omega
            · simp only [hc2, if_false]
              have hT0e : T0 = H0 + 1 := by omega
              exact finOK T0 (some x :: out) freed [x] (fun y => by rw [hone hT0e y, hc]; rfl)
                (fun y => by simp only [List.filterMap_cons, id, List.count_cons, List.count_nil, beq_iff_eq]; omega)

end TbbVerif.C01.Deque
