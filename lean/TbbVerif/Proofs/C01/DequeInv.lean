/- C01 — Deque: the inductive invariant (definition and frame lemmas). -/
import TbbVerif.Proofs.C01.DequeDefs

namespace TbbVerif.C01.Deque
open Lists

theorem lt_of_getElem?' {α} {l : List α} {k : Nat} {x : α} (h : l[k]? = some x) : k < l.length := by
  by_cases hl : k < l.length
  · exact hl
  · rw [List.getElem?_eq_none (by omega)] at h
    exact absurd h (by simp)

/-! ### Int-indexed window lemmas -/

theorem cellAt_nonneg (p : List Cell) (i : Int) (h : 0 ≤ i) : cellAt p i = p.getD i.toNat .junk := by
  simp [cellAt, show ¬ i < 0 by omega]

theorem setCell_nonneg (p : List Cell) (i : Int) (c : Cell) (h : 0 ≤ i) : setCell p i c = p.set i.toNat c := by
  simp [setCell, show ¬ i < 0 by omega]

theorem setCell_length (p : List Cell) (i : Int) (c : Cell) : (setCell p i c).length = p.length := by
  unfold setCell; split <;> simp

theorem items_empty (p : List Cell) (lo hi : Int) (h : hi ≤ lo) : items p lo hi = [] :=
  itemsN_empty p _ _ (by omega)

/-- the window grows by the cell `hi` -/
theorem items_snoc (p : List Cell) (lo hi : Int) (h0 : 0 ≤ lo) (h1 : lo ≤ hi) (h2 : hi < p.length) :
    items p lo (hi + 1) = items p lo hi ++ (itemOf (cellAt p hi)).toList := by
  unfold items
  have : (hi + 1).toNat = hi.toNat + 1 := by omega
  rw [this, itemsN_snoc p lo.toNat hi.toNat (by omega) (by omega), cellAt_nonneg p hi (by omega)]

/-- the window loses its bottom cell `lo` -/
theorem items_cons (p : List Cell) (lo hi : Int) (h0 : 0 ≤ lo) (h1 : lo < hi) (h2 : lo < p.length) :
    items p lo hi = (itemOf (cellAt p lo)).toList ++ items p (lo + 1) hi := by
  unfold items
  have : (lo + 1).toNat = lo.toNat + 1 := by omega
  rw [this, itemsN_cons p lo.toNat hi.toNat (by omega) (by omega), cellAt_nonneg p lo h0]

theorem items_set_outside (p : List Cell) (lo hi i : Int) (c : Cell) (h0 : 0 ≤ lo) (h : i < lo ∨ hi ≤ i) :
    items (setCell p i c) lo hi = items p lo hi := by
  unfold items
  by_cases hi0 : i < 0
  · simp [setCell, hi0]
  · rw [setCell_nonneg p i c (by omega)]
    exact itemsN_set_outside p _ _ _ c (by omega)

theorem items_set_inside (p : List Cell) (lo hi i : Int) (c : Cell) (h0 : 0 ≤ lo) (h1 : lo ≤ i) (h2 : i < hi)
    (h3 : hi ≤ p.length) :
    items (setCell p i c) lo hi = items p lo i ++ (itemOf c).toList ++ items p (i + 1) hi := by
  unfold items
  rw [setCell_nonneg p i c (by omega)]
  have : (i + 1).toNat = i.toNat + 1 := by omega
  rw [this]
  exact itemsN_set_inside p _ _ _ c (by omega) (by omega) (by omega)

theorem items_split (p : List Cell) (lo hi i : Int) (h0 : 0 ≤ lo) (h1 : lo ≤ i) (h2 : i < hi) (h3 : hi ≤ p.length) :
    items p lo hi = items p lo i ++ (itemOf (cellAt p i)).toList ++ items p (i + 1) hi := by
  unfold items
  have : (i + 1).toNat = i.toNat + 1 := by omega
  rw [this, cellAt_nonneg p i (by omega)]
  exact itemsN_split p _ _ _ (by omega) (by omega) (by omega)

theorem cellAt_setCell_same (p : List Cell) (i : Int) (c : Cell) (h0 : 0 ≤ i) (h1 : i < p.length) :
    cellAt (setCell p i c) i = c := by
  rw [setCell_nonneg p i c h0, cellAt_nonneg _ i h0, getD_set_eq _ _ _ _ (by omega)]

theorem cellAt_setCell_ne (p : List Cell) (i j : Int) (c : Cell) (h : i ≠ j) :
    cellAt (setCell p i c) j = cellAt p j := by
  unfold cellAt setCell
  by_cases hj : j < 0
  · simp [hj]
  · by_cases hi : i < 0
    · simp [hi]
    · simp only [hj, hi, if_false]
      exact getD_set_ne _ _ _ _ _ (by omega)

/-! ### the invariant -/

/-- inside the critical section of steal_task (holds the pool lock) -/
def inCS (t : Thief) : Bool := t.pc != .start && t.pc != .cas
/-- inside the steal loop: `head` was advanced beyond the thief's `H0`, the logical bottom of the pool is `H0` -/
def inWin (t : Thief) : Bool := t.pc == .inc || t.pc == .tail || t.pc == .rollback || t.pc == .restore

def csN (ths : List Thief) : Nat := ths.countP inCS

/-- owner pcs between a successful acquire_task_pool and the matching release / leave -/
def ownerExcl : OPc → Bool
  | .gH0 | .relLoad _ | .relStore _ | .rTail _ | .rHead _ | .rLeave _ | .grHead | .grTail | .crHead | .crTail => true
  | _ => false

def loT (ths : List Thief) : Option Int := (ths.find? inWin).map (·.H0)

/-- logical bottom of the pool -/
def lo (s : St) : Int :=
  match s.own.pc with
  | .rTail _ | .rHead _ | .rLeave _ | .pHead | .pTail | .pPub => s.own.H0
  | .grTail | .crHead => 0
  | _ => (loT s.ths).getD s.head

/-- logical top of the pool -/
def hi (s : St) : Int :=
  match s.own.pc with
  | .gDec | .gHead | .acqPub .get | .acqLoad .get | .acqCas .get | .gH0 | .relLoad .get | .relStore .get
  | .rTail _ | .rHead _ | .rLeave _ | .pHead | .pTail | .pPub | .hTail => s.own.T0
  | .grTail | .crHead | .crTail => s.own.T1
  | _ => s.tail

/-- tasks taken out of the pool by an operation that has not returned yet -/
def inflight (s : St) : List Item := s.own.res.toList ++ (s.ths.map (fun t => t.res.toList)).flatten

def ThiefOK (s : St) (t : Thief) : Prop :=
  match t.pc with
  | .start | .cas => t.res = none
  | .head => t.res = none ∧ t.omitted = false ∧ t.g = s.own.gen
  | .inc => s.head = t.H ∧ 0 ≤ t.H0 ∧ t.H0 ≤ t.H ∧ (t.omitted = false → t.H0 = t.H) ∧ t.res = none ∧ t.g = s.own.gen
  | .tail => s.head = t.H ∧ 0 ≤ t.H0 ∧ t.H0 < t.H ∧ (t.omitted = false → t.H0 = t.H - 1) ∧ t.res = none ∧ t.g = s.own.gen
  | .rollback => s.head = t.H ∧ 0 ≤ t.H0 ∧ t.H0 < t.H ∧ t.res = none ∧ t.g = s.own.gen
  | .restore => s.head = t.H ∧ 0 ≤ t.H0 ∧ t.H0 < t.H ∧ t.res.isSome = true ∧ t.omitted = true ∧ t.g = s.own.gen
  | .unlock => t.g = s.own.gen

def isSpawn (ops : List OOp) : Prop := ∃ x rest, ops = .spawn x :: rest
def isGet (ops : List OOp) : Prop := ∃ iso rest, ops = .get iso :: rest

/-- common facts of the owner inside the get_task loop after `--tail` -/
def GetLoop (s : St) : Prop :=
  isGet s.own.ops ∧ s.own.res = none ∧ s.own.poolEmpty = false ∧ s.own.T < s.own.T0 ∧
  (s.own.omitted = false → s.own.T0 = s.own.T + 1)

def OwnerOK (s : St) : Prop :=
  let o := s.own
  match o.pc with
  | .start => o.res = none ∧ o.omitted = false ∧ o.poolEmpty = false ∧ 0 ≤ s.tail
  | .spStore => (∃ x rest, o.ops = .spawn x :: rest ∧ cellAt s.pool o.T = .item x) ∧ o.T = s.tail ∧ 0 ≤ o.T ∧
                o.T < s.pool.length ∧ o.res = none
  | .spPubLoad => isSpawn o.ops ∧ o.res = none ∧ 0 ≤ s.tail ∧ 0 < s.pool.length
  | .spPub => isSpawn o.ops ∧ o.res = none ∧ 0 ≤ s.tail ∧ 0 < s.pool.length ∧ s.lw = .empty
  | .acqPub .grow | .acqLoad .grow | .acqCas .grow | .grHead => isSpawn o.ops ∧ o.res = none ∧ o.T = s.tail
  | .grTail | .crHead => isSpawn o.ops ∧ o.res = none ∧ (o.T1 : Int) < s.pool.length
  | .crTail => isSpawn o.ops ∧ o.res = none ∧ (o.T1 : Int) < s.pool.length ∧ s.head = 0
  | .relLoad .grow =>
      isSpawn o.ops ∧ o.res = none ∧ (o.T1 : Int) < s.pool.length ∧ s.head = 0 ∧ s.tail = o.T1
  | .relStore .grow =>
      isSpawn o.ops ∧ o.res = none ∧ (o.T1 : Int) < s.pool.length ∧ s.head = 0 ∧ s.tail = o.T1 ∧ s.lw = .locked
  | .gT0 => isGet o.ops ∧ o.res = none ∧ o.omitted = false ∧ o.poolEmpty = false
  | .gDec => isGet o.ops ∧ o.res = none ∧ o.poolEmpty = false ∧ s.tail = o.T ∧ o.T ≤ o.T0 ∧
             (o.omitted = false → o.T0 = o.T)
  | .gHead | .acqPub .get | .acqLoad .get | .acqCas .get | .gH0 => GetLoop s ∧ s.tail = o.T
  | .relLoad .get => GetLoop s ∧ s.tail = o.T ∧ o.H0 = s.head ∧ o.H0 < o.T
  | .relStore .get => GetLoop s ∧ s.tail = o.T ∧ o.H0 = s.head ∧ o.H0 < o.T ∧ s.lw = .locked
  | .rTail b => GetLoop s ∧ s.tail = o.T ∧ o.H0 = s.head ∧ (b = true → o.H0 = o.T) ∧ (b = false → o.T < o.H0)
  | .rHead b => GetLoop s ∧ s.tail = 0 ∧ o.H0 = s.head ∧ (b = true → o.H0 = o.T) ∧ (b = false → o.T < o.H0)
  | .rLeave b => GetLoop s ∧ s.tail = 0 ∧ s.head = 0 ∧ 0 ≤ o.H0 ∧ (b = true → o.H0 = o.T) ∧ (b = false → o.T < o.H0)
  | .pHead => isGet o.ops ∧ o.omitted = true ∧ o.poolEmpty = true ∧ 0 ≤ o.H0 ∧ o.H0 < o.T0 ∧ s.lw = .empty ∧
              s.head = 0 ∧ s.tail = 0
  | .pTail => isGet o.ops ∧ o.omitted = true ∧ o.poolEmpty = true ∧ 0 ≤ o.H0 ∧ o.H0 < o.T0 ∧ s.lw = .empty ∧
              s.head = o.H0 ∧ s.tail = 0
  | .pPub => isGet o.ops ∧ o.omitted = true ∧ o.poolEmpty = true ∧ 0 ≤ o.H0 ∧ o.H0 < o.T0 ∧ s.lw = .empty ∧
             s.head = o.H0 ∧ s.tail = o.T0 ∧ 0 < s.pool.length
  | .hTail => isGet o.ops ∧ o.res.isSome = true ∧ o.omitted = true ∧ o.poolEmpty = false ∧ s.tail = o.T ∧ o.T < o.T0 ∧ 0 ≤ o.T

/-- the lock discipline of the pool word -/
structure LockOK (s : St) : Prop where
  csLe : csN s.ths ≤ 1
  excl : ownerExcl s.own.pc = true → csN s.ths = 0 ∧ (s.lw = .locked ∨ s.lw = .empty)
  lock : ownerExcl s.own.pc = false → (s.lw = .locked ↔ csN s.ths = 1)
  gen : ∀ g, s.lw = .pub g → g = s.own.gen

/-- the logical window `[lo, hi)` lies inside the array, contains no junk, and accounts for every spawned task -/
structure WinOK (s : St) : Prop where
  loNN : 0 ≤ lo s
  loLeHi : lo s ≤ hi s
  hiLe : hi s ≤ s.pool.length
  noJunk : ∀ i, lo s ≤ i → i < hi s → cellAt s.pool i ≠ .junk
  cnt : ∀ x, s.spawned.count x = (returned s).count x + (inflight s).count x + (items s.pool (lo s) (hi s)).count x

structure DInv (s : St) : Prop where
  cfgOK : 0 < s.cfg.granule ∧ 0 < s.cfg.minSize
  nobad : s.bad = false
  headNN : 0 ≤ s.head
  unalloc : s.pool.length = 0 → s.lw = .empty
  lockOK : LockOK s
  thOK : ∀ (k : Nat) (t : Thief), s.ths[k]? = some t → ThiefOK s t
  ownOK : OwnerOK s
  winOK : WinOK s

theorem WinOK_congr {s s' : St} (h : WinOK s) (hp : s'.pool = s.pool) (hlo : lo s' = lo s) (hhi : hi s' = hi s)
    (hsp : s'.spawned = s.spawned) (hr : returned s' = returned s) (hi' : inflight s' = inflight s) : WinOK s' := by
  refine ⟨by rw [hlo]; exact h.loNN, by rw [hlo, hhi]; exact h.loLeHi, by rw [hhi, hp]; exact h.hiLe, ?_, ?_⟩
  · intro i h1 h2
    rw [hp]; rw [hlo] at h1; rw [hhi] at h2
    exact h.noJunk i h1 h2
  · rw [hsp, hr, hi', hp, hlo, hhi]; exact h.cnt

/-! ### counting over the thieves -/

/-- results handed out by thieves -/
def tOut (ths : List Thief) : List Item := (ths.map (fun t => t.out.filterMap id)).flatten
/-- tasks held by thieves whose steal_task has not returned yet -/
def tRes (ths : List Thief) : List Item := (ths.map (fun t => t.res.toList)).flatten

theorem count_flatten_map (ths : List Thief) (f : Thief → List Item) (x : Item) :
    ((ths.map f).flatten).count x = (ths.map (fun t => (f t).count x)).sum := by
  rw [List.count_flatten, List.map_map]
  rfl

theorem count_flatten_set (ths : List Thief) (f : Thief → List Item) (k : Nat) (t t' : Thief) (x : Item)
    (h : ths[k]? = some t) :
    (((ths.set k t').map f).flatten).count x + (f t).count x = ((ths.map f).flatten).count x + (f t').count x := by
  rw [count_flatten_map, count_flatten_map]
  exact sum_map_set (fun t => (f t).count x) ths k t t' h

theorem returned_count (s : St) (x : Item) :
    (returned s).count x = (s.own.out.filterMap id).count x + s.own.freed.count x + (tOut s.ths).count x := by
  simp only [returned, tOut, List.count_append]

theorem inflight_count (s : St) (x : Item) :
    (inflight s).count x = s.own.res.toList.count x + (tRes s.ths).count x := by
  simp only [inflight, tRes, List.count_append]

/-! ### at most one thief in the critical section -/

theorem inWin_inCS (t : Thief) (h : inWin t = true) : inCS t = true := by
  unfold inWin at h; unfold inCS
  cases hp : t.pc <;> simp [hp] at h ⊢

theorem csN_set (ths : List Thief) (k : Nat) (t t' : Thief) (h : ths[k]? = some t) :
    csN (ths.set k t') + (if inCS t then 1 else 0) = csN ths + (if inCS t' then 1 else 0) :=
  countP_set_add inCS ths k t t' h

theorem others_out (ths : List Thief) (k : Nat) (t : Thief) (hle : csN ths ≤ 1) (hk : ths[k]? = some t)
    (hcs : inCS t = true) : ∀ (j : Nat) (t' : Thief), j ≠ k → ths[j]? = some t' → inCS t' = false := by
  intro j t' hj hjt
  have e := csN_set ths k t {} hk
  simp only [hcs, if_true, show inCS ({} : Thief) = false by rfl] at e
  have hz : csN (ths.set k {}) = 0 := by simp at e; omega
  have hm : t' ∈ ths.set k {} := by
    apply List.mem_of_getElem? (i := j)
    rw [List.getElem?_set_ne (fun x => hj x.symm)]; exact hjt
  have := List.countP_eq_zero.mp hz t' hm
  simpa using this

theorem none_inCS (ths : List Thief) (h : csN ths = 0) : ∀ (j : Nat) (t : Thief), ths[j]? = some t → inCS t = false := by
  intro j t hj
  have := List.countP_eq_zero.mp h t (List.mem_of_getElem? hj)
  simpa using this

theorem find_none_of (ths : List Thief) (p : Thief → Bool) (h : ∀ (j : Nat) (t : Thief), ths[j]? = some t → p t = false) :
    ths.find? p = none := by
  apply List.find?_eq_none.mpr
  intro t ht
  obtain ⟨j, hj⟩ := List.getElem?_of_mem ht
  simp [h j t hj]

theorem find_set_unique (ths : List Thief) (p : Thief → Bool) (k : Nat) (t' : Thief) (hk : k < ths.length)
    (h : ∀ (j : Nat) (t : Thief), j ≠ k → ths[j]? = some t → p t = false) :
    (ths.set k t').find? p = if p t' then some t' else none := by
  induction ths generalizing k with
  | nil => simp at hk
  | cons a l ih =>
    cases k with
    | zero =>
      simp only [List.set_cons_zero, List.find?_cons]
      cases hp : p t' with
      | true => simp
      | false =>
        simp only [Bool.false_eq_true, if_false]
        apply find_none_of
        intro j t hj
        exact h (j + 1) t (by omega) (by simpa using hj)
    | succ k =>
      have ha : p a = false := h 0 a (by omega) (by simp)
      simp only [List.set_cons_succ, List.find?_cons, ha]
      apply ih k (by simpa using hk)
      intro j t hj hjt
      exact h (j + 1) t (by omega) (by simpa using hjt)

theorem loT_none (ths : List Thief) (h : csN ths = 0) : loT ths = none := by
  unfold loT
  rw [find_none_of ths inWin]
  · rfl
  · intro j t hj
    have := none_inCS ths h j t hj
    cases hw : inWin t with
    | false => rfl
    | true => rw [inWin_inCS t hw] at this; exact absurd this (by simp)

theorem loT_set (ths : List Thief) (k : Nat) (t t' : Thief) (hle : csN ths ≤ 1) (hk : ths[k]? = some t)
    (hcs : inCS t = true ∨ csN ths = 0) :
    loT (ths.set k t') = if inWin t' then some t'.H0 else none := by
  unfold loT
  rw [find_set_unique ths inWin k t' (lt_of_getElem?' hk)]
  · split <;> rfl
  · intro j t'' hj hjt
    have hout : inCS t'' = false := by
      rcases hcs with hcs | hz
      · exact others_out ths k t hle hk hcs j t'' hj hjt
      · exact none_inCS ths hz j t'' hjt
    cases hw : inWin t'' with
    | false => rfl
    | true => rw [inWin_inCS t'' hw] at hout; exact absurd hout (by simp)

end TbbVerif.C01.Deque
