/-
C01 / DequeTso: kernel-checked closure of the reachable set for one Orders table (see DequeTsoCore.lean):
decRmw=true decFence=true incRmw=true incFence=true.
-/
import TbbVerif.Proofs.C01.DequeTsoCore

namespace TbbVerif.C01.DequeTso

theorem closed_1111 : closed ⟨true, true, true, true⟩ (reachSet ⟨true, true, true, true⟩) = true := by decide +kernel
theorem safe_1111 : safe (reachSet ⟨true, true, true, true⟩) = true := by decide +kernel

end TbbVerif.C01.DequeTso
