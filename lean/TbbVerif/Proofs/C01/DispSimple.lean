/-
C01 / Dispatch: the remaining actions preserve the invariant — group / context creation, cancel, enter / leave,
beginWait / waitReturn, miss, complete, ret.
-/
import TbbVerif.Proofs.C01.DispSubmit

namespace TbbVerif.C01.Dispatch

/-- units, containers and contexts unchanged; frames of kind `attach` / `wait` pushed or popped; groups changed
without touching a reference count, and a group is closed only when no unit of it still holds a reference -/
theorem inv_frames {s s1 : St} (h : Inv s)
    (hunits : s1.units = s.units) (hpools : s1.pools = s.pools) (hboxes : s1.boxes = s.boxes)
    (hstreams : s1.streams = s.streams) (hbypass : s1.bypass = s.bypass) (hproxies : s1.proxies = s.proxies)
    (hctxs : s1.ctxs = s.ctxs)
    (hfc : ∀ v, frameCount s1 v = frameCount s v)
    (hrefs : ∀ g : Nat, expRefs s1.groups[g]? = expRefs s.groups[g]?)
    (hcl : ∀ (g : Nat) (G1 : Group), s1.groups[g]? = some G1 → G1.closed = true →
      (∃ G, s.groups[g]? = some G ∧ G.closed = true) ∨ live s g = 0) : Inv s1 := by
  refine ⟨?_, ?_, ?_, ?_, ?_, ?_, ?_, ?_⟩
  · intro v
    have : occ s1 v = occ s v := by
      simp only [occ, poolCount, streamCount, bypassCount, liveProxy, hpools, hstreams, hbypass, hproxies]
    rw [this, hunits]; exact h.iocc v
  · intro v; rw [hfc v, hunits]; exact h.ifc v
  · intro v y hy; rw [hunits] at hy; exact h.ictr v y hy
  · intro p
    have : poolCount s1 (.proxy p) = poolCount s (.proxy p) := by simp only [poolCount, hpools]
    rw [this, hproxies]; exact h.ipp p
  · intro p
    have : boxCount s1 p = boxCount s p := by simp only [boxCount, hboxes]
    rw [this, hproxies]; exact h.ipb p
  · intro g
    have : live s1 g = live s g := by simp only [live, hunits]
    rw [this, hrefs g]; exact h.irefs g
  · intro v y G1 hy hG1 hc
    rw [hunits] at hy
    rcases hcl y.grp G1 hG1 hc with ⟨G, hG, hGc⟩ | h0
    · exact h.iclosed v y G hy hG hGc
    · have := countP_eq_zero_all h0 hy
      simp only [beq_self_eq_true, Bool.true_and, Bool.or_eq_false_iff, beq_eq_false_iff_ne, ne_eq] at this
      cases hst : y.st <;> simp [hst] at this ⊢
  · intro v y hy hpos; rw [hunits] at hy; rw [hctxs]; exact h.icanc v y hy hpos

theorem groups_append_get (l : List Group) (G : Group) (q : Nat) :
    (l ++ [G])[q]? = if q < l.length then l[q]? else if q = l.length then some G else none :=
  getElem?_append_one l G q

theorem inv_actNewGroup {s s' : St} {t : Tid} (h : Inv s) (he : actNewGroup s t = some s') : Inv s' := by
  unfold actNewGroup at he
  split at he
  · simp only [Option.some.injEq] at he
    subst he
    refine inv_frames h rfl rfl rfl rfl rfl rfl rfl (fun _ => rfl) ?_ ?_
    · intro g
      simp only [groups_append_get]
      by_cases h1 : g < s.groups.length
      · simp [h1]
      · by_cases h2 : g = s.groups.length
        · subst h2; simp [expRefs]
        · have : s.groups[g]? = none := by simp; omega
          simp [h1, h2]
    · intro g G1 hG1 hc
      simp only [groups_append_get] at hG1
      by_cases h1 : g < s.groups.length
      · simp only [h1, if_true] at hG1
        exact Or.inl ⟨G1, hG1, hc⟩
      · by_cases h2 : g = s.groups.length
        · subst h2
          simp at hG1
          subst hG1
          simp at hc
        · simp [h1, h2] at hG1
  · simp at he

theorem frameCount_set_cons_other {s : St} {t : Tid} {stk : List Frame} (hst : s.stacks[t]? = some stk) (f : Frame)
    (hf : ∀ u, f ≠ .exec u) (v : Nat) :
    (s.stacks.set t (f :: stk)).flatten.count (Frame.exec v) = s.stacks.flatten.count (Frame.exec v) := by
  have e := count_flatten_set_cons hst f (Frame.exec v)
  have : (f == Frame.exec v) = false := by
    have := hf v
    simp [this]
  simp [this] at e
  exact e

theorem frameCount_set_tail_other {s : St} {t : Tid} {f : Frame} {rest : List Frame}
    (hst : s.stacks[t]? = some (f :: rest)) (hf : ∀ u, f ≠ .exec u) (v : Nat) :
    (s.stacks.set t rest).flatten.count (Frame.exec v) = s.stacks.flatten.count (Frame.exec v) := by
  have e := count_flatten_set_add hst rest (Frame.exec v)
  have : (f == Frame.exec v) = false := by
    have := hf v
    simp [this]
  rw [List.count_cons] at e
  simp [this] at e
  omega

theorem inv_actEnter {s s' : St} {t : Tid} {k : Nat} (h : Inv s) (he : actEnter s t k = some s') : Inv s' := by
  unfold actEnter at he
  split at he
  · simp at he
  · rename_i stk hst
    split at he
    · simp only [Option.some.injEq] at he
      subst he
      refine inv_frames h rfl rfl rfl rfl rfl rfl rfl ?_ (fun _ => rfl) (fun g G1 hG hc => Or.inl ⟨G1, hG, hc⟩)
      intro v
      exact frameCount_set_cons_other hst _ (by intro u; simp) v
    · simp at he

theorem inv_actLeave {s s' : St} {t : Tid} (h : Inv s) (he : actLeave s t = some s') : Inv s' := by
  unfold actLeave at he
  split at he
  · rename_i k rest hst
    split at he
    · simp only [Option.some.injEq] at he
      subst he
      refine inv_frames h rfl rfl rfl rfl rfl rfl rfl ?_ (fun _ => rfl) (fun g G1 hG hc => Or.inl ⟨G1, hG, hc⟩)
      intro v
      exact frameCount_set_tail_other hst (by intro u; simp) v
    · simp at he
  · simp at he

theorem inv_actMiss {s s' : St} {t : Tid} (h : Inv s) (he : actMiss s t = some s') : Inv s' := by
  unfold actMiss at he
  split at he
  · split at he
    · simp at he
    · simp only [Option.some.injEq] at he
      subst he
      exact inv_frames h rfl rfl rfl rfl rfl rfl rfl (fun _ => rfl) (fun _ => rfl) (fun g G1 hG hc => Or.inl ⟨G1, hG, hc⟩)
  · simp at he

theorem inv_actBeginWait {s s' : St} {t : Tid} {g : Option Nat} {iso : Nat} (h : Inv s)
    (he : actBeginWait s t g iso = some s') : Inv s' := by
  unfold actBeginWait at he
  split at he
  · simp at he
  · rename_i stk hst
    split at he
    · simp at he
    · split at he
      · simp only [Option.some.injEq] at he
        subst he
        refine inv_frames h rfl rfl rfl rfl rfl rfl rfl ?_ (fun _ => rfl) (fun g G1 hG hc => Or.inl ⟨G1, hG, hc⟩)
        intro v
        exact frameCount_set_cons_other hst _ (by intro u; simp) v
      · rename_i g
        split at he
        · simp at he
        · rename_i G hG
          split at he
          · simp only [Option.some.injEq] at he
            subst he
            refine inv_frames h rfl rfl rfl rfl rfl rfl rfl ?_ ?_ ?_
            · intro v
              exact frameCount_set_cons_other hst _ (by intro u; simp) v
            · intro q
              simp only [groups_set_get hG]
              by_cases hq : g = q
              · subst hq; simp [hG, expRefs]
              · simp [hq]
            · intro q G1 hG1 hc
              simp only [groups_set_get hG] at hG1
              by_cases hq : g = q
              · subst hq
                simp at hG1
                subst hG1
                exact Or.inl ⟨G, hG, hc⟩
              · simp only [hq, if_false] at hG1
                exact Or.inl ⟨G1, hG1, hc⟩
          · simp at he

theorem inv_actWaitReturn {s s' : St} {t : Tid} (h : Inv s) (he : actWaitReturn s t = some s') : Inv s' := by
  unfold actWaitReturn at he
  split at he
  · rename_i w rest hst
    split at he
    · simp only [Option.some.injEq] at he
      subst he
      refine inv_frames h rfl rfl rfl rfl rfl rfl rfl ?_ (fun _ => rfl) (fun g G1 hG hc => Or.inl ⟨G1, hG, hc⟩)
      intro v
      exact frameCount_set_tail_other hst (by intro u; simp) v
    · simp at he
  · rename_i g w rest hst
    split at he
    · simp at he
    · rename_i G hG
      split at he
      · rename_i hc
        obtain ⟨_, hz⟩ := hc
        simp only [Option.some.injEq] at he
        subst he
        refine inv_frames h rfl rfl rfl rfl rfl rfl rfl ?_ ?_ ?_
        · intro v
          exact frameCount_set_tail_other hst (by intro u; simp) v
        · intro q
          simp only [groups_set_get hG]
          by_cases hq : g = q
          · subst hq; simp [hG, expRefs]
          · simp [hq]
        · intro q G1 hG1 hc
          simp only [groups_set_get hG] at hG1
          by_cases hq : g = q
          · subst hq
            right
            have := h.irefs g
            rw [hG] at this
            simp only [expRefs] at this
            omega
          · simp only [hq, if_false] at hG1
            exact Or.inl ⟨G1, hG1, hc⟩
      · simp at he
  · simp at he

theorem inv_newCtx {s : St} (h : Inv s) : Inv { s with ctxs := s.ctxs ++ [false] } := by
  refine ⟨h.iocc, h.ifc, h.ictr, h.ipp, h.ipb, h.irefs, h.iclosed, ?_⟩
  intro v y hy hpos
  have := h.icanc v y hy hpos
  show (s.ctxs ++ [false])[y.ctx]?.getD false = true
  rw [getElem?_append_one]
  by_cases h1 : y.ctx < s.ctxs.length
  · simp only [h1, if_true]; exact this
  · have hn : s.ctxs[y.ctx]? = none := by simp; omega
    rw [hn] at this
    simp at this

theorem inv_actCancel {s s' : St} {c : Nat} (h : Inv s) (he : actCancel s c = some s') : Inv s' := by
  unfold actCancel at he
  split at he
  · simp only [Option.some.injEq] at he
    subst he
    refine ⟨h.iocc, h.ifc, h.ictr, h.ipp, h.ipb, h.irefs, h.iclosed, ?_⟩
    intro v y hy hpos
    have := h.icanc v y hy hpos
    show (s.ctxs.set c true)[y.ctx]?.getD false = true
    simp only [List.getElem?_set]
    by_cases hc : c = y.ctx
    · subst hc; simp [*]
    · simp only [hc, if_false]; exact this
  · simp at he

end TbbVerif.C01.Dispatch
