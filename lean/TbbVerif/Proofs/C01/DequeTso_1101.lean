/-
C01 / DequeTso: kernel-checked closure of the reachable set for one Orders table (see DequeTsoCore.lean):
decRmw=true decFence=true incRmw=false incFence=true.
-/
import TbbVerif.Proofs.C01.DequeTsoCore

namespace TbbVerif.C01.DequeTso

theorem closed_1101 : closed ⟨true, true, false, true⟩ (reachSet ⟨true, true, false, true⟩) = true := by decide +kernel
theorem safe_1101 : safe (reachSet ⟨true, true, false, true⟩) = true := by decide +kernel

end TbbVerif.C01.DequeTso
