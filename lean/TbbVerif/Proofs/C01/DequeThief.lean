/- C01 — Deque: steal_task steps preserve the invariant. -/
import TbbVerif.Proofs.C01.DequeInv

namespace TbbVerif.C01.Deque
open Lists

theorem set_self {α} (l : List α) (k : Nat) (x : α) (h : l[k]? = some x) : l.set k x = l := by
  apply List.ext_getElem?
  intro n
  by_cases e : k = n
  · subst e; rw [List.getElem?_set_self (lt_of_getElem?' h), h]
  · rw [List.getElem?_set_ne e]

theorem loT_of (ths : List Thief) (k : Nat) (t : Thief) (hle : csN ths ≤ 1) (hk : ths[k]? = some t)
    (hcs : inCS t = true) : loT ths = if inWin t then some t.H0 else none := by
  have := loT_set ths k t t hle hk (Or.inl hcs)
  rwa [set_self ths k t hk] at this

theorem csN_pos (ths : List Thief) (k : Nat) (t : Thief) (hk : ths[k]? = some t) (hcs : inCS t = true) : 0 < csN ths :=
  countP_pos_of_getElem? inCS ths k t hk hcs

/-- owner pcs at which the logical bottom is given by the owner's locals -/
def loSpecial : OPc → Bool
  | .rTail _ | .rHead _ | .rLeave _ | .pHead | .pTail | .pPub | .grTail | .crHead => true
  | _ => false

theorem lo_normal (s : St) (h : loSpecial s.own.pc = false) : lo s = (loT s.ths).getD s.head := by
  unfold lo
  cases hp : s.own.pc <;> simp [hp, loSpecial] at h ⊢

/-- facts available while thief `k` is inside the critical section -/
structure InCS (s : St) (t : Thief) : Prop where
  cs1 : csN s.ths = 1
  nexcl : ownerExcl s.own.pc = false
  locked : s.lw = .locked
  nspec : loSpecial s.own.pc = false
  loEq : lo s = if inWin t then t.H0 else s.head
  tailHi : s.tail ≤ hi s

theorem inCS_facts (s : St) (k : Nat) (t : Thief) (h : DInv s) (hk : s.ths[k]? = some t) (hcs : inCS t = true) :
    InCS s t := by
  have hpos := csN_pos s.ths k t hk hcs
  have hle := h.lockOK.csLe
  have h1 : csN s.ths = 1 := by omega
  have hne : ownerExcl s.own.pc = false := by
    cases he : ownerExcl s.own.pc with
    | false => rfl
    | true => have := (h.lockOK.excl he).1; omega
  have hl : s.lw = .locked := (h.lockOK.lock hne).mpr h1
  have hown := h.ownOK
  have hns : loSpecial s.own.pc = false := by
    cases hp : s.own.pc <;> simp [hp, loSpecial, ownerExcl] at hne ⊢
    all_goals (simp only [OwnerOK, hp] at hown; rw [hl] at hown; simp at hown)
  refine ⟨h1, hne, hl, hns, ?_, ?_⟩
  · rw [lo_normal s hns, loT_of s.ths k t hle hk hcs]
    split <;> rfl
  · cases hp : s.own.pc
    all_goals (try (rename_i c; cases c))
    all_goals (simp only [hi, hp]; simp only [OwnerOK, GetLoop, hp] at hown; first | omega | (simp [hp, ownerExcl] at hne))

theorem thOK_other (s s' : St) (k : Nat) (t t' : Thief) (h : DInv s) (hk : s.ths[k]? = some t)
    (hcs : inCS t = true ∨ csN s.ths = 0) (hths : s'.ths = s.ths.set k t') (hnew : ThiefOK s' t') :
    ∀ (j : Nat) (u : Thief), s'.ths[j]? = some u → ThiefOK s' u := by
  intro j u hj
  rw [hths] at hj
  by_cases e : k = j
  · subst e
    rw [List.getElem?_set_self (lt_of_getElem?' hk)] at hj
    cases hj; exact hnew
  · rw [List.getElem?_set_ne e] at hj
    have hout : inCS u = false := by
      rcases hcs with hcs | hz
      · exact others_out s.ths k t h.lockOK.csLe hk hcs j u (fun x => e x.symm) hj
      · exact none_inCS s.ths hz j u hj
    have hold := h.thOK j u hj
    unfold inCS at hout
    cases hp : u.pc <;> simp [hp] at hout <;> simp only [ThiefOK, hp] at hold ⊢ <;> exact hold

theorem hi_congr (s s' : St) (ho : s'.own = s.own) (ht : s'.tail = s.tail) : hi s' = hi s := by
  unfold hi; rw [ho, ht]

theorem lo_thief (s s' : St) (k : Nat) (t t' : Thief) (h : DInv s) (hk : s.ths[k]? = some t)
    (hcs : inCS t = true ∨ csN s.ths = 0) (hns : loSpecial s.own.pc = false)
    (ho : s'.own = s.own) (hths : s'.ths = s.ths.set k t') :
    lo s' = if inWin t' then t'.H0 else s'.head := by
  rw [lo_normal s' (by rw [ho]; exact hns), hths, loT_set s.ths k t t' h.lockOK.csLe hk hcs]
  split <;> rfl

/-- OwnerOK does not depend on head / lock word / thieves outside the exclusive and restore sections -/
theorem OwnerOK_frame (s s' : St) (hne : ownerExcl s.own.pc = false) (hns : loSpecial s.own.pc = false)
    (ho : s'.own = s.own) (ht : s'.tail = s.tail) (hl : s'.pool.length = s.pool.length)
    (hc : s.own.pc = .spStore → cellAt s'.pool s.own.T = cellAt s.pool s.own.T)
    (hun : s.lw = .empty → s'.lw = .empty) (h : OwnerOK s) : OwnerOK s' := by
  unfold OwnerOK at h ⊢
  rw [ho]
  cases hp : s.own.pc
  all_goals (try (rename_i c; cases c))
  all_goals (simp only [hp, GetLoop] at h ⊢)
  all_goals (try (simp [hp, ownerExcl, loSpecial] at hne hns; done))
  all_goals (try simp only [ht, hl, ho])
  all_goals (try exact h)
  · rw [hc hp]; exact h
  · exact ⟨h.1, h.2.1, h.2.2.1, h.2.2.2.1, hun h.2.2.2.2⟩

/-- assembling the invariant after a step of thief `k` -/
theorem thief_assemble (s s' : St) (k : Nat) (t t' : Thief) (h : DInv s) (hk : s.ths[k]? = some t)
    (hcs : inCS t = true ∨ csN s.ths = 0)
    (hne : ownerExcl s.own.pc = false) (hns : loSpecial s.own.pc = false)
    (hcfg : s'.cfg = s.cfg) (ho : s'.own = s.own) (htl : s'.tail = s.tail) (hths : s'.ths = s.ths.set k t')
    (hbad : s'.bad = false) (hhead : 0 ≤ s'.head) (hlock : LockOK s') (hth : ThiefOK s' t')
    (hl : s'.pool.length = s.pool.length)
    (hc : s.own.pc = .spStore → cellAt s'.pool s.own.T = cellAt s.pool s.own.T) (hwin : WinOK s')
    (hun : s.lw = .empty → s'.lw = .empty) : DInv s' :=
  ⟨by rw [hcfg]; exact h.cfgOK, hbad, hhead, fun h0 => hun (h.unalloc (by rw [← hl]; exact h0)), hlock,
   thOK_other s s' k t t' h hk hcs hths hth,
   OwnerOK_frame s s' hne hns ho htl hl hc hun h.ownOK, hwin⟩

/-- the lock discipline is untouched when the stepping thief stays on the same side of the critical section -/
theorem LockOK_stay (s s' : St) (k : Nat) (t t' : Thief) (h : LockOK s) (hk : s.ths[k]? = some t)
    (ho : s'.own = s.own) (hlw : s'.lw = s.lw) (hths : s'.ths = s.ths.set k t') (hcs : inCS t' = inCS t) : LockOK s' := by
  have e := csN_set s.ths k t t' hk
  rw [hcs] at e
  have e' : csN s'.ths = csN s.ths := by rw [hths]; omega
  exact ⟨by rw [e']; exact h.csLe, by rw [ho, e', hlw]; exact h.excl, by rw [ho, e', hlw]; exact h.lock,
         by rw [ho, hlw]; exact h.gen⟩

theorem find_set_of_false (l : List Thief) (p : Thief → Bool) (k : Nat) (t t' : Thief) (hk : l[k]? = some t)
    (h1 : p t = false) (h2 : p t' = false) : (l.set k t').find? p = l.find? p := by
  induction l generalizing k with
  | nil => simp at hk
  | cons a l ih =>
    cases k with
    | zero =>
      simp at hk; subst hk
      simp [List.find?_cons, h1, h2]
    | succ k =>
      simp at hk
      simp only [List.set_cons_succ, List.find?_cons]
      rw [ih k hk]

theorem WinOK_congr' {s s' : St} (h : WinOK s) (hp : s'.pool = s.pool) (hlo : lo s' = lo s) (hhi : hi s' = hi s)
    (hsp : s'.spawned = s.spawned) (hr : ∀ x, (returned s').count x = (returned s).count x)
    (hi' : ∀ x, (inflight s').count x = (inflight s).count x) : WinOK s' := by
  refine ⟨by rw [hlo]; exact h.loNN, by rw [hlo, hhi]; exact h.loLeHi, by rw [hhi, hp]; exact h.hiLe, ?_, ?_⟩
  · intro i h1 h2
    rw [hp]; rw [hlo] at h1; rw [hhi] at h2
    exact h.noJunk i h1 h2
  · intro x
    rw [hsp, hr, hi', hp, hlo, hhi]; exact h.cnt x

theorem OwnerOK_congr (s s' : St) (ho : s'.own = s.own) (hh : s'.head = s.head) (ht : s'.tail = s.tail)
    (hl : s'.lw = s.lw) (hp : s'.pool = s.pool) (h : OwnerOK s) : OwnerOK s' := by
  unfold OwnerOK GetLoop at h ⊢
  rw [ho, hh, ht, hl, hp]
  exact h

theorem ThiefOK_congr (s s' : St) (t : Thief) (ho : s'.own.gen = s.own.gen) (hh : s'.head = s.head)
    (h : ThiefOK s t) : ThiefOK s' t := by
  unfold ThiefOK at h ⊢
  rw [ho, hh]
  exact h

/-- a step of thief `k` outside the critical section that touches nothing but its own locals -/
theorem thief_local (s : St) (k : Nat) (t t' : Thief) (h : DInv s) (hk : s.ths[k]? = some t)
    (hc : inCS t = false) (hc' : inCS t' = false) (hres : t.res = none) (hres' : t'.res = none)
    (hout : t'.out.filterMap id = t.out.filterMap id) :
    DInv { s with ths := s.ths.set k t' } := by
  have hw : inWin t = false := by
    cases hh : inWin t with
    | false => rfl
    | true => rw [inWin_inCS t hh] at hc; exact absurd hc (by simp)
  have hw' : inWin t' = false := by
    cases hh : inWin t' with
    | false => rfl
    | true => rw [inWin_inCS t' hh] at hc'; exact absurd hc' (by simp)
  have hlo : lo { s with ths := s.ths.set k t' } = lo s := by
    unfold lo loT
    simp only [find_set_of_false s.ths inWin k t t' hk hw hw']
  refine ⟨h.cfgOK, h.nobad, h.headNN, h.unalloc, LockOK_stay s _ k t t' h.lockOK hk rfl rfl rfl (by rw [hc, hc']), ?_,
          OwnerOK_congr s _ rfl rfl rfl rfl rfl h.ownOK, ?_⟩
  · intro j u hj
    simp only at hj
    by_cases e : k = j
    · subst e
      rw [List.getElem?_set_self (lt_of_getElem?' hk)] at hj
      cases hj
      unfold inCS at hc'
      cases hp : t'.pc <;> simp [hp] at hc' <;> simp only [ThiefOK, hp] <;> exact hres'
    · rw [List.getElem?_set_ne e] at hj
      exact ThiefOK_congr s _ u rfl rfl (h.thOK j u hj)
  · refine WinOK_congr' h.winOK ?_ hlo ?_ ?_ ?_ ?_
    · rfl
    · exact hi_congr s _ rfl rfl
    · rfl
    · intro x
      rw [returned_count, returned_count]
      have := count_flatten_set s.ths (fun t => t.out.filterMap id) k t t' x hk
      simp only [hout] at this
      simp only [tOut]
      omega
    · intro x
      rw [inflight_count, inflight_count]
      have := count_flatten_set s.ths (fun t => t.res.toList) k t t' x hk
      simp only [hres, hres'] at this
      simp only [tRes]
      omega

theorem returned_thief (s s' : St) (k : Nat) (t t' : Thief) (hk : s.ths[k]? = some t) (ho : s'.own = s.own)
    (hths : s'.ths = s.ths.set k t') (x : Item) :
    (returned s').count x + (t.out.filterMap id).count x = (returned s).count x + (t'.out.filterMap id).count x := by
  rw [returned_count, returned_count, ho, hths]
  have := count_flatten_set s.ths (fun t => t.out.filterMap id) k t t' x hk
  simp only [tOut]
  omega

theorem inflight_thief (s s' : St) (k : Nat) (t t' : Thief) (hk : s.ths[k]? = some t) (ho : s'.own = s.own)
    (hths : s'.ths = s.ths.set k t') (x : Item) :
    (inflight s').count x + t.res.toList.count x = (inflight s).count x + t'.res.toList.count x := by
  rw [inflight_count, inflight_count, ho, hths]
  have := count_flatten_set s.ths (fun t => t.res.toList) k t t' x hk
  simp only [tRes]
  omega

/-- while the pool word holds a pointer nobody is inside a critical or exclusive section -/
theorem pub_facts (s : St) (g : Nat) (h : DInv s) (hlw : s.lw = .pub g) :
    csN s.ths = 0 ∧ ownerExcl s.own.pc = false ∧ loSpecial s.own.pc = false ∧ g = s.own.gen := by
  have hne : ownerExcl s.own.pc = false := by
    cases he : ownerExcl s.own.pc with
    | false => rfl
    | true => have := (h.lockOK.excl he).2; rw [hlw] at this; simp at this
  have h0 : csN s.ths = 0 := by
    have := h.lockOK.lock hne
    have hle := h.lockOK.csLe
    rw [hlw] at this
    simp at this
    omega
  have hown := h.ownOK
  have hns : loSpecial s.own.pc = false := by
    cases hp : s.own.pc <;> simp [hp, loSpecial, ownerExcl] at hne ⊢
    all_goals (simp only [OwnerOK, hp] at hown; rw [hlw] at hown; simp at hown)
  exact ⟨h0, hne, hns, h.lockOK.gen g hlw⟩

/-- a step of thief `k` that starts and ends inside the critical section (the pool word stays locked) -/
theorem thief_cs_step (s s' : St) (k : Nat) (t t' : Thief) (h : DInv s) (hk : s.ths[k]? = some t)
    (hcs : inCS t = true) (hcs' : inCS t' = true)
    (hcfg : s'.cfg = s.cfg) (ho : s'.own = s.own) (htl : s'.tail = s.tail) (hlw : s'.lw = s.lw)
    (hths : s'.ths = s.ths.set k t') (hbad : s'.bad = s.bad) (hhead : 0 ≤ s'.head) (hth : ThiefOK s' t')
    (hl : s'.pool.length = s.pool.length)
    (hc : s.own.pc = .spStore → cellAt s'.pool s.own.T = cellAt s.pool s.own.T) (hwin : WinOK s') : DInv s' := by
  have f := inCS_facts s k t h hk hcs
  exact thief_assemble s s' k t t' h hk (Or.inl hcs) f.nexcl f.nspec hcfg ho htl hths (by rw [hbad]; exact h.nobad) hhead
    (LockOK_stay s s' k t t' h.lockOK hk ho hlw hths (by rw [hcs, hcs'])) hth hl hc hwin (fun e => by rw [hlw]; exact e)

/-- the window part of the invariant when pool, spawned and the owner are untouched and the logical bottom stays -/
theorem WinOK_thief_same (s s' : St) (k : Nat) (t t' : Thief) (h : DInv s) (hk : s.ths[k]? = some t)
    (ho : s'.own = s.own) (htl : s'.tail = s.tail) (hths : s'.ths = s.ths.set k t') (hp : s'.pool = s.pool)
    (hsp : s'.spawned = s.spawned) (hlo : lo s' = lo s) (hout : t'.out = t.out) (hres : t'.res = t.res) : WinOK s' := by
  refine WinOK_congr' h.winOK hp hlo (hi_congr s s' ho htl) hsp ?_ ?_
  · intro x
    have := returned_thief s s' k t t' hk ho hths x
    rw [hout] at this; omega
  · intro x
    have := inflight_thief s s' k t t' hk ho hths x
    rw [hres] at this; omega

/-- the shape of every post-state of a steal_task step -/
@[reducible] def upd (s : St) (h' : Int) (w' : LW) (p' : List Cell) (b' : Bool) (k : Nat) (t' : Thief) : St :=
  { s with head := h', lw := w', pool := p', bad := b', ths := s.ths.set k t' }

theorem lo_upd (s : St) (h' : Int) (w' : LW) (p' : List Cell) (b' : Bool) (k : Nat) (t t' : Thief) (h : DInv s)
    (hk : s.ths[k]? = some t) (hcs : inCS t = true ∨ csN s.ths = 0) (hns : loSpecial s.own.pc = false) :
    lo (upd s h' w' p' b' k t') = if inWin t' then t'.H0 else h' :=
  lo_thief s (upd s h' w' p' b' k t') k t t' h hk hcs hns rfl rfl

theorem hi_upd (s : St) (h' : Int) (w' : LW) (p' : List Cell) (b' : Bool) (k : Nat) (t' : Thief) :
    hi (upd s h' w' p' b' k t') = hi s := hi_congr s _ rfl rfl

theorem returned_upd (s : St) (h' : Int) (w' : LW) (p' : List Cell) (b' : Bool) (k : Nat) (t t' : Thief)
    (hk : s.ths[k]? = some t) (x : Item) :
    (returned (upd s h' w' p' b' k t')).count x + (t.out.filterMap id).count x =
      (returned s).count x + (t'.out.filterMap id).count x :=
  returned_thief s (upd s h' w' p' b' k t') k t t' hk rfl rfl x

theorem inflight_upd (s : St) (h' : Int) (w' : LW) (p' : List Cell) (b' : Bool) (k : Nat) (t t' : Thief)
    (hk : s.ths[k]? = some t) (x : Item) :
    (inflight (upd s h' w' p' b' k t')).count x + t.res.toList.count x = (inflight s).count x + t'.res.toList.count x :=
  inflight_thief s (upd s h' w' p' b' k t') k t t' hk rfl rfl x

/-- inside the critical section, same pool, same out/res, logical bottom unchanged -/
theorem WinOK_upd_same (s : St) (h' : Int) (b' : Bool) (k : Nat) (t t' : Thief) (h : DInv s) (hk : s.ths[k]? = some t)
    (hcs : inCS t = true) (hout : t'.out = t.out) (hres : t'.res = t.res)
    (hlo : (if inWin t' then t'.H0 else h') = (if inWin t then t.H0 else s.head)) :
    WinOK (upd s h' s.lw s.pool b' k t') := by
  have f := inCS_facts s k t h hk hcs
  refine WinOK_thief_same s (upd s h' s.lw s.pool b' k t') k t t' h hk rfl rfl rfl rfl rfl ?_ hout hres
  rw [lo_upd s h' s.lw s.pool b' k t t' h hk (Or.inl hcs) f.nspec, f.loEq, hlo]

theorem WinOK_congr_sum {s s' : St} (h : WinOK s) (hp : s'.pool = s.pool) (hlo : lo s' = lo s) (hhi : hi s' = hi s)
    (hsp : s'.spawned = s.spawned)
    (hr : ∀ x, (returned s').count x + (inflight s').count x = (returned s).count x + (inflight s).count x) : WinOK s' := by
  refine ⟨by rw [hlo]; exact h.loNN, by rw [hlo, hhi]; exact h.loLeHi, by rw [hhi, hp]; exact h.hiLe, ?_, ?_⟩
  · intro i h1 h2
    rw [hp]; rw [hlo] at h1; rw [hhi] at h2
    exact h.noJunk i h1 h2
  · intro x
    have := h.cnt x
    have := hr x
    rw [hsp, hp, hlo, hhi]; omega

end TbbVerif.C01.Deque
