/- C01 — mail_outbox: the consumer's link-writing steps (cut, unlink, one-item CAS) preserve the invariant. -/
import TbbVerif.Proofs.C01.MailboxCons

namespace TbbVerif.C01.Mailbox
open Lists

/-- two splittings of the same list around different elements: one element lies before the other -/
theorem split_cases (pre post A B : List Nat) (c x : Nat) (hne : x ≠ c) (h : pre ++ c :: post = A ++ x :: B) :
    (∃ M, A = pre ++ c :: M ∧ post = M ++ x :: B) ∨ (∃ M, pre = A ++ x :: M ∧ B = M ++ c :: post) := by
  induction pre generalizing A with
  | nil =>
    cases A with
    | nil => simp at h; exact absurd h.1.symm hne
    | cons a A' =>
      simp at h
      obtain ⟨e, h⟩ := h
      subst e
      exact Or.inl ⟨A', rfl, h⟩
  | cons p pre' ih =>
    cases A with
    | nil =>
      simp at h
      obtain ⟨e, h⟩ := h
      subst e
      exact Or.inr ⟨pre', rfl, h.symm⟩
    | cons a A' =>
      simp at h
      obtain ⟨e, h⟩ := h
      subst e
      rcases ih A' h with ⟨M, e1, e2⟩ | ⟨M, e1, e2⟩
      · exact Or.inl ⟨M, by rw [e1]; rfl, e2⟩
      · exact Or.inr ⟨M, by rw [e1]; rfl, e2⟩

theorem tailLink_mid (pre M : List Nat) (c : Nat) (hM : M ≠ []) :
    tailLink .first (pre ++ c :: M) = tailLink .first (pre ++ M) := by
  rw [tailLink_append, tailLink_append]
  cases M with
  | nil => exact absurd rfl hM
  | cons m M' => rfl

/-- the logical queue after the consumer has popped `c` -/
theorem queue_remove (s s' : St) (pre post : List Nat) (c : Nat) (hnd : (queue s).Nodup) (hq : queue s = pre ++ c :: post)
    (eo : s'.order = s.order) (hpop : ∀ x, x ∈ popped s' ↔ (x ∈ popped s ∨ x = c)) : queue s' = pre ++ post := by
  have hf : queue s' = (queue s).filter (fun x => !(x == c)) := by
    simp only [queue, eo, List.filter_filter]
    apply List.filter_congr
    intro x _
    have a : (popped s').contains x = ((popped s).contains x || x == c) := by
      apply Bool.eq_iff_iff.mpr
      simp [hpop x]
    rw [a]
    cases (popped s).contains x <;> cases (x == c) <;> rfl
  rw [hf, hq]
  rw [hq] at hnd
  have hc1 : c ∉ pre := fun hm => (List.nodup_append.mp hnd).2.2 c hm c (by simp) rfl
  have hc2 : c ∉ post := (List.nodup_cons.mp (List.nodup_append.mp hnd).2.1).1
  simp only [List.filter_append, List.filter_cons, beq_self_eq_true, Bool.not_true, Bool.false_eq_true, if_false]
  congr 1 <;> (apply List.filter_eq_self.mpr; intro x hx; simp; intro e; subst e; first | exact hc1 hx | exact hc2 hx)

/-- the facts the consumer has about its position in all pcs other than `start` -/
theorem cons_pos (s : St) (h : ConsOK s) (hp : s.cons.pc ≠ .start) :
    s.cons.ops ≠ [] ∧ ∃ pre post, Pos s pre post := by
  unfold ConsOK at h
  cases hpc : s.cons.pc <;> simp only [hpc] at h
  · exact absurd hpc hp
  all_goals (obtain ⟨h0, pre, post, hP, _⟩ := h; exact ⟨h0, pre, post, hP⟩)

/-- `prev_ptr->store(nullptr)`: the consumer cuts the link to the only item it saw -/
theorem cons_cut (s s' : St) (h : MInv s) (hpc : s.cons.pc = .storeNull)
    (hgl : ∀ b, getLink s' b = if b = s.cons.prev then none else getLink s b)
    (en : s'.nexts.length = s.nexts.length) (ei : s'.isos = s.isos) (ep : s'.pushers = s.pushers)
    (el : s'.last = s.last) (eo : s'.order = s.order) (ec : s'.cons = { s.cons with pc := .cas }) : MInv s' := by
  have hc := h.cons
  simp only [ConsOK, hpc] at hc
  obtain ⟨hops, pre, post, ⟨hq, hprev, hmis⟩, hlk, hnm⟩ := hc
  have epop : popped s' = popped s := by simp only [popped, ec]
  have eq : queue s' = queue s := by simp only [queue, eo, epop]
  have hnd := queue_nodup s h.ordN
  rw [hq] at hnd
  have hne : ∀ b, b ≠ s.cons.prev → getLink s' b = getLink s b := by
    intro b hb; rw [hgl b]; simp [hb]
  have hnocut : ∀ b p, ¬ cutAt s b p := by
    intro b p ⟨hc', _, _⟩; rw [hpc] at hc'; simp at hc'
  have hconn : ∀ b p, b ≠ s.cons.prev → Conn s b p → Conn s' b p := by
    intro b p hb hcn
    rcases hcn with hl | ⟨hn, hpc'⟩
    · exact Or.inl (by rw [hne b hb]; exact hl)
    · refine Or.inr ⟨by rw [hne b hb]; exact hn, ?_⟩
      rcases hpc' with ⟨k, u, a1, a2, a3, a4⟩ | hc'
      · exact Or.inl ⟨k, u, by rw [ep]; exact a1, a2, a3, a4⟩
      · exact absurd hc' (hnocut b p)
  have hseg := h.seg
  rw [hq, chainSeg_append] at hseg
  obtain ⟨hs1, hs2, hs3⟩ := hseg
  have hpreN : pre.Nodup := (List.nodup_append.mp hnd).1
  have hncp := h.ncp
  refine ⟨by rw [ei, en]; exact h.lenI, by rw [eo]; exact h.ordN, by intro p hp; rw [eo] at hp; rw [en]; exact h.ordB p hp,
          by rw [epop]; exact h.popN, by rw [epop, eo]; exact h.popS, ?_, ?_, by rw [el, eq]; exact h.lastOK, ?_, ?_, ?_, ?_⟩
  · rw [eq, hq, chainSeg_append]
    refine ⟨chainSeg_congr s s' .first pre (fun b p hb => hconn b p (by
              rw [hprev]; exact connAddr_ne_tail .first pre b hpreN (first_ne_all pre) hb)) hs1, ?_, ?_⟩
    · refine Or.inr ⟨by rw [hgl, hprev]; simp, Or.inr ⟨by rw [ec]; simp, by rw [ec]; exact hprev, by rw [ec]⟩⟩
    · refine chainSeg_congr s s' (.next s.cons.curr) post (fun b p hb => hconn b p ?_) hs3
      rw [hprev]
      refine addr_ne_of_split pre post s.cons.curr hnd b ?_
      rcases connAddr_addrIn _ _ _ hb with e | e
      · exact Or.inl e
      · exact Or.inr e
  · rw [eq, hq, tailLink_append]
    have htl := h.tl
    rw [hq, tailLink_append] at htl
    simp only [tailLink] at htl ⊢
    rw [hne _ (by
      rw [hprev]
      refine addr_ne_of_split pre post s.cons.curr hnd _ ?_
      rcases tailLink_addr (.next s.cons.curr) post with e | e
      · exact Or.inl e
      · exact Or.inr e)]
    exact htl
  · intro k u hk
    rw [ep] at hk
    have hold := h.push k u hk
    unfold PushOK at hold ⊢
    cases hp : u.pc with
    | start => trivial
    | xchg =>
      simp only [hp] at hold ⊢
      refine ⟨hold.1, by omega, by rw [eo]; exact hold.2.2.1, ?_⟩
      rw [hne _ (by
        intro e2
        rcases tailLink_addr .first pre with ea | ⟨r, hr, ea⟩
        · rw [hprev, ea] at e2; exact absurd e2 (by simp)
        · rw [hprev, ea] at e2
          have : u.p = r := by injection e2
          exact hold.2.2.1 (queue_sub s _ (by rw [hq, this]; simp [hr])))]
      exact hold.2.2.2
    | link =>
      simp only [hp] at hold ⊢
      obtain ⟨h1, pre', post', h2, h3, h4⟩ := hold
      refine ⟨h1, pre', post', by rw [eq]; exact h2, h3, ?_⟩
      rw [hne _ (by
        intro e2
        have hu2 := incoming_unique (queue s) pre' post' pre post u.p s.cons.curr (queue_nodup s h.ordN) h2 hq (by rw [← h3, ← hprev, e2])
        exact hncp k u hk hp (by rw [hpc]; simp) hu2.1)]
      exact h4
  · intro k1 k2 u1 u2 hne' h1 h2 hp1 hp2
    rw [ep] at h1 h2
    exact h.dist k1 k2 u1 u2 hne' h1 h2 hp1 hp2
  · unfold ConsOK
    have hpc' : s'.cons.pc = .cas := by rw [ec]
    simp only [hpc']
    refine ⟨by rw [ec]; exact hops, pre, post, ⟨by rw [eq, ec]; exact hq, by rw [ec]; exact hprev, fun r hr => ?_⟩,
            by rw [hgl, ec]; simp, ?_⟩
    · have := hmis r hr
      simp only [Mismatch, curIso, isoOf] at this ⊢
      rw [ei, ec]; exact this
    · simp only [Mismatch, curIso, isoOf] at hnm ⊢
      rw [ei, ec]; exact hnm
  · intro k u hk hl _
    rw [ep] at hk
    rw [ec]
    exact hncp k u hk hl (by rw [hpc]; simp)

theorem popped_fin_some (c : Cons) (x : Nat) :
    ((c.fin (some x)).out.filterMap id).reverse = (c.out.filterMap id).reverse ++ [x] := by
  simp [Cons.fin]

/-- assembling the invariant after a pop of `curr` that is completed by this step: the new queue is `pre ++ post` -/
theorem pop_assemble (s s' : St) (h : MInv s) (pre post : List Nat) (hq : queue s = pre ++ s.cons.curr :: post)
    (hprev : s.cons.prev = tailLink .first pre) (hns : s.cons.pc ≠ .start)
    (hne : ∀ b, b ≠ s.cons.prev → getLink s' b = getLink s b)
    (en : s'.nexts.length = s.nexts.length) (ei : s'.isos = s.isos) (ep : s'.pushers = s.pushers)
    (eo : s'.order = s.order) (ec : s'.cons = s.cons.fin (some s.cons.curr))
    (hseg : ChainSeg s' .first (pre ++ post)) (htl : getLink s' (tailLink .first (pre ++ post)) = none)
    (hlast : s'.last = tailLink .first (pre ++ post))
    (hsucc : ∀ q post', post = q :: post' → getLink s (.next s.cons.curr) = some q) : MInv s' := by
  have epop : popped s' = popped s ++ [s.cons.curr] := by simp only [popped, ec]; exact popped_fin_some _ _
  have hcq : s.cons.curr ∈ queue s := by rw [hq]; simp
  have hcnp : s.cons.curr ∉ popped s := by
    intro hm
    have := (List.mem_filter.mp hcq).2
    simp at this
    exact this hm
  have hnd := queue_nodup s h.ordN
  have eq : queue s' = pre ++ post :=
    queue_remove s s' pre post s.cons.curr hnd hq eo (by intro x; rw [epop]; simp)
  rw [hq] at hnd
  refine ⟨by rw [ei, en]; exact h.lenI, by rw [eo]; exact h.ordN, by intro p hp; rw [eo] at hp; rw [en]; exact h.ordB p hp,
          ?_, ?_, by rw [eq]; exact hseg, by rw [eq]; exact htl, by rw [eq]; exact hlast, ?_, ?_, ?_, ?_⟩
  · rw [epop]
    exact List.nodup_append.mpr ⟨h.popN, by simp, by intro a ha b hb; simp at hb; subst hb; exact fun e => hcnp (e ▸ ha)⟩
  · intro p hp
    rw [epop] at hp; rw [eo]
    rcases List.mem_append.mp hp with hp | hp
    · exact h.popS p hp
    · simp at hp; subst hp; exact queue_sub s _ hcq
  · intro k u hk
    rw [ep] at hk
    have hold := h.push k u hk
    unfold PushOK at hold ⊢
    cases hp : u.pc with
    | start => trivial
    | xchg =>
      simp only [hp] at hold ⊢
      refine ⟨hold.1, by omega, by rw [eo]; exact hold.2.2.1, ?_⟩
      rw [hne _ (by
        intro e2
        rcases tailLink_addr .first pre with ea | ⟨r, hr, ea⟩
        · rw [hprev, ea] at e2; exact absurd e2 (by simp)
        · rw [hprev, ea] at e2
          have : u.p = r := by injection e2
          exact hold.2.2.1 (queue_sub s _ (by rw [hq, this]; simp [hr])))]
      exact hold.2.2.2
    | link =>
      simp only [hp] at hold ⊢
      obtain ⟨h1, pre', post', h2, h3, h4⟩ := hold
      have hpc' : u.p ≠ s.cons.curr := h.ncp k u hk hp hns
      have hlne : u.link ≠ s.cons.prev := by
        intro e2
        have hu2 := incoming_unique (queue s) pre' post' pre post u.p s.cons.curr (queue_nodup s h.ordN) h2 hq (by rw [← h3, ← hprev, e2])
        exact hpc' hu2.1
      rcases split_cases pre post pre' post' s.cons.curr u.p hpc' (by rw [← hq, ← h2]) with ⟨M, e1, e2⟩ | ⟨M, e1, e2⟩
      · -- the proxy of `u` lies after `curr`
        cases M with
        | nil =>
          exfalso
          have := hsucc u.p post' (by rw [e2]; rfl)
          rw [h3, e1, tailLink_append] at h4
          simp only [tailLink] at h4
          rw [this] at h4; exact absurd h4 (by simp)
        | cons m M' =>
          refine ⟨h1, pre ++ m :: M', post', by rw [eq, e2]; simp, ?_, by rw [hne _ hlne]; exact h4⟩
          rw [h3, e1]
          exact tailLink_mid pre (m :: M') s.cons.curr (by simp)
      · -- the proxy of `u` lies before `curr`
        refine ⟨h1, pre', M ++ post, by rw [eq, e1]; simp, h3, by rw [hne _ hlne]; exact h4⟩
  · intro k1 k2 u1 u2 hne' h1 h2 hp1 hp2
    rw [ep] at h1 h2
    exact h.dist k1 k2 u1 u2 hne' h1 h2 hp1 hp2
  · unfold ConsOK; rw [ec]; simp [Cons.fin]
  · intro k u _ _ hcs; rw [ec] at hcs; simp [Cons.fin] at hcs

/-- `prev_ptr->store(second)`: the popped proxy is unlinked (fast path with a known second item, or after the late link) -/
theorem cons_unlink (s s' : St) (h : MInv s) (hpc : s.cons.pc = .storeSecond ∨ s.cons.pc = .storeLate)
    (hgl : ∀ b, getLink s' b = if b = s.cons.prev then some s.cons.second else getLink s b)
    (en : s'.nexts.length = s.nexts.length) (ei : s'.isos = s.isos) (ep : s'.pushers = s.pushers)
    (el : s'.last = s.last) (eo : s'.order = s.order) (ec : s'.cons = s.cons.fin (some s.cons.curr)) : MInv s' := by
  have hc := h.cons
  have hfacts : ∃ pre post', Pos s pre (s.cons.second :: post') ∧ getLink s (.next s.cons.curr) = some s.cons.second := by
    unfold ConsOK at hc
    rcases hpc with e | e <;> simp only [e] at hc
    · obtain ⟨_, pre, post, hP, _, _, post', a3, a4⟩ := hc
      exact ⟨pre, post', by rw [← a3]; exact hP, a4⟩
    · obtain ⟨_, pre, post, hP, _, _, post', a3, a4⟩ := hc
      exact ⟨pre, post', by rw [← a3]; exact hP, a4⟩
  obtain ⟨pre, post', ⟨hq, hprev, _⟩, hsec⟩ := hfacts
  have hns : s.cons.pc ≠ .start := by rcases hpc with e | e <;> rw [e] <;> simp
  have hnd := queue_nodup s h.ordN
  rw [hq] at hnd
  have hne : ∀ b, b ≠ s.cons.prev → getLink s' b = getLink s b := by
    intro b hb; rw [hgl b]; simp [hb]
  have hseg := h.seg
  rw [hq, chainSeg_append] at hseg
  obtain ⟨hs1, _, hs3⟩ := hseg
  have hs4 : ChainSeg s (.next s.cons.second) post' := hs3.2
  have hpreN : pre.Nodup := (List.nodup_append.mp hnd).1
  have hconn : ∀ b p, b ≠ s.cons.prev → Conn s b p → Conn s' b p := by
    intro b p hb hcn
    rcases hcn with hl | ⟨hn, hpc'⟩
    · exact Or.inl (by rw [hne b hb]; exact hl)
    · refine Or.inr ⟨by rw [hne b hb]; exact hn, ?_⟩
      rcases hpc' with ⟨k, u, a1, a2, a3, a4⟩ | ⟨_, hc2, _⟩
      · exact Or.inl ⟨k, u, by rw [ep]; exact a1, a2, a3, a4⟩
      · exact absurd hc2.symm hb
  -- the part of the queue after `curr` keeps its addresses away from `prev`
  have hpost_ne : ∀ b, (b = .next s.cons.second ∨ ∃ q ∈ post', b = .next q) → b ≠ s.cons.prev := by
    intro b hb
    rw [hprev]
    refine addr_ne_of_split pre (s.cons.second :: post') s.cons.curr hnd b (Or.inr ?_)
    rcases hb with e | ⟨q, hq', e⟩
    · exact ⟨s.cons.second, by simp, e⟩
    · exact ⟨q, by simp [hq'], e⟩
  refine pop_assemble s s' h pre (s.cons.second :: post') hq hprev hns hne en ei ep eo ec ?_ ?_ ?_ ?_
  · rw [chainSeg_append]
    refine ⟨chainSeg_congr s s' .first pre (fun b p hb => hconn b p (by
              rw [hprev]; exact connAddr_ne_tail .first pre b hpreN (first_ne_all pre) hb)) hs1, ?_, ?_⟩
    · exact Or.inl (by rw [hgl, hprev]; simp)
    · refine chainSeg_congr s s' (.next s.cons.second) post' (fun b p hb => hconn b p (hpost_ne b ?_)) hs4
      rcases connAddr_addrIn _ _ _ hb with e | e
      · exact Or.inl e
      · exact Or.inr e
  · have htl := h.tl
    rw [hq, tailLink_append] at htl
    rw [tailLink_append]
    simp only [tailLink] at htl ⊢
    rw [hne _ (hpost_ne _ (by
      rcases tailLink_addr (.next s.cons.second) post' with e | e
      · exact Or.inl e
      · exact Or.inr e))]
    exact htl
  · rw [el, h.lastOK, hq, tailLink_append, tailLink_append]; rfl
  · intro q post'' e
    have : q = s.cons.second := by injection e with e1 _; exact e1.symm
    rw [this]; exact hsec

/-- the one-item CAS on `my_last` succeeds: the popped proxy was the last one, the queue now ends at `prev` -/
theorem cons_cas_win (s s' : St) (h : MInv s) (hpc : s.cons.pc = .cas) (hlast : s.last = .next s.cons.curr)
    (ef : s'.first = s.first) (en : s'.nexts = s.nexts) (ei : s'.isos = s.isos) (ep : s'.pushers = s.pushers)
    (el : s'.last = s.cons.prev) (eo : s'.order = s.order) (ec : s'.cons = s.cons.fin (some s.cons.curr)) : MInv s' := by
  have hc := h.cons
  simp only [ConsOK, hpc] at hc
  obtain ⟨_, pre, post, ⟨hq, hprev, _⟩, hcutl, _⟩ := hc
  have hnd := queue_nodup s h.ordN
  rw [hq] at hnd
  have hg : ∀ b, getLink s' b = getLink s b := by intro b; cases b <;> simp only [getLink, ef, en]
  -- `my_last` points at curr's link, so nothing follows curr
  have hpost : post = [] := by
    have := h.lastOK
    rw [hq, tailLink_append, hlast] at this
    simp only [tailLink] at this
    exact (tailLink_next_eq s.cons.curr post (List.nodup_append.mp hnd).2.1).mp this.symm
  subst hpost
  have hseg := h.seg
  rw [hq, chainSeg_append] at hseg
  obtain ⟨hs1, _, _⟩ := hseg
  have hpreN : pre.Nodup := (List.nodup_append.mp hnd).1
  refine pop_assemble s s' h pre [] hq hprev (by rw [hpc]; simp) (fun b _ => hg b) (by rw [en]) ei ep eo ec ?_ ?_ ?_ ?_
  · rw [List.append_nil]
    refine chainSeg_congr s s' .first pre (fun b p hb hcn => ?_) hs1
    have hb' : b ≠ s.cons.prev := by rw [hprev]; exact connAddr_ne_tail .first pre b hpreN (first_ne_all pre) hb
    rcases hcn with hl | ⟨hn, hpc'⟩
    · exact Or.inl (by rw [hg]; exact hl)
    · refine Or.inr ⟨by rw [hg]; exact hn, ?_⟩
      rcases hpc' with ⟨k, u, a1, a2, a3, a4⟩ | ⟨_, hc2, _⟩
      · exact Or.inl ⟨k, u, by rw [ep]; exact a1, a2, a3, a4⟩
      · exact absurd hc2.symm hb'
  · rw [List.append_nil, hg, ← hprev]; exact hcutl
  · rw [List.append_nil, el, hprev]
  · intro q post' e; exact absurd e (by simp)

end TbbVerif.C01.Mailbox
