/-
C01 / DequeTsoCore: the store-buffer model of the 1 owner × 1 thief last-task window is finite-state.  For every table
`o : Orders` with `fencesOK o` the set of reachable states is computed by `bfs` (inside the kernel), shown closed under
all four schedule actions and checked to contain no state in which the task was taken twice or lost; every schedule
therefore stays inside it.
-/
import TbbVerif.Model.C01Tso

namespace TbbVerif.C01.DequeTso

/-- breadth-first closure: `fr` = frontier, `seen` = all states found so far -/
def bfs (o : Orders) : Nat → List St → List St → List St
  | 0, _, seen => seen
  | _ + 1, [], seen => seen
  | n + 1, s :: fr, seen =>
      let r := [0, 1, 2, 3].foldl (fun (acc : List St × List St) a =>
        let s' := step o s a
        if acc.2.contains s' then acc else (acc.1 ++ [s'], acc.2 ++ [s'])) (fr, seen)
      bfs o n r.1 r.2

def reachSet (o : Orders) : List St := bfs o 600 [{}] [{}]

def closed (o : Orders) (R : List St) : Bool :=
  R.contains {} && R.all (fun s => [0, 1, 2, 3].all (fun a => R.contains (step o s a)))

def safe (R : List St) : Bool := R.all (fun s => !bad s)

/-- every schedule stays inside a closed set -/
theorem run_mem_of_closed (o : Orders) (R : List St) (hc : closed o R = true) (sched : List Tid) :
    (sys o).run sched ∈ R := by
  simp only [closed, Bool.and_eq_true, List.all_eq_true, List.contains_iff_mem] at hc
  obtain ⟨h0, hcl⟩ := hc
  refine Sys.inv_run (sys o) (fun s => s ∈ R) h0 ?_ sched
  intro s a hs
  show step o s a ∈ R
  match a with
  | 0 => exact hcl s hs 0 (by simp)
  | 1 => exact hcl s hs 1 (by simp)
  | 2 => exact hcl s hs 2 (by simp)
  | 3 => exact hcl s hs 3 (by simp)
  | a + 4 => exact hs

theorem not_bad_of_closed (o : Orders) (R : List St) (hc : closed o R = true) (hs : safe R = true) (sched : List Tid) :
    bad ((sys o).run sched) = false := by
  have hm := run_mem_of_closed o R hc sched
  simp only [safe, List.all_eq_true] at hs
  have := hs _ hm
  simpa using this

end TbbVerif.C01.DequeTso
