/-
C01 / Dispatch: `submit` (reserve + publish into a pool, a pool and a mailbox through a proxy, a stream, or the bypass
slot) and `respawn` preserve the invariant.
-/
import TbbVerif.Proofs.C01.DispTake

namespace TbbVerif.C01.Dispatch

theorem groups_set_get {l : List Group} {g : Nat} {G : Group} (hg : l[g]? = some G) (G' : Group) (q : Nat) :
    (l.set g G')[q]? = if g = q then some G' else l[q]? := by
  have hlt : g < l.length := (List.getElem?_eq_some_iff.mp hg).1
  simp only [List.getElem?_set]
  by_cases h : g = q
  · subst h; simp [hlt]
  · simp [h]

/-- a thread that holds a reference of `g` (rule (a) of `submit`) proves that `g` is not closed -/
theorem not_closed_of_holds {s : St} (h : Inv s) {stk : List Frame} {g : Nat} {G : Group}
    (hh : holds s stk g = true) (hG : s.groups[g]? = some G) : G.closed = false := by
  simp only [holds, List.any_eq_true] at hh
  obtain ⟨f, _, hf⟩ := hh
  cases f with
  | attach k => simp at hf
  | wait a b => simp at hf
  | exec u =>
    simp only at hf
    cases hu : s.units[u]? with
    | none => simp [hu] at hf
    | some x =>
      simp only [hu, Bool.and_eq_true, beq_iff_eq] at hf
      obtain ⟨hg, hst⟩ := hf
      cases hc : G.closed with
      | false => rfl
      | true =>
        have := h.iclosed u x G hu (by rw [hg]; exact hG) hc
        rw [hst] at this
        simp at this

/-- the generic submit lemma: a new pending unit of group `g` (not closed) appears in exactly one place -/
theorem inv_submit {s s2 : St} (h : Inv s) {g : Nat} {G : Group} (xn : UnitR)
    (hG : s.groups[g]? = some G) (hnc : G.closed = false)
    (hxg : xn.grp = g) (hxs : xn.st = .pending) (hxe : xn.nexec = 0) (hxc : xn.ncancel = 0)
    (hunits : s2.units = s.units ++ [xn]) (hstacks : s2.stacks = s.stacks)
    (hgroups : s2.groups = s.groups.set g { G with refs := G.refs + 1 }) (hctxs : s2.ctxs = s.ctxs)
    (hocc : ∀ v, occ s2 v = occ s v + (if v = s.units.length then 1 else 0))
    (hpp : ∀ p, poolCount s2 (.proxy p) = expPool s2.proxies[p]?)
    (hpb : ∀ p, boxCount s2 p = expBox s2.proxies[p]?) : Inv s2 := by
  have hnone : s.units[s.units.length]? = none := by simp
  refine ⟨?_, ?_, ?_, hpp, hpb, ?_, ?_, ?_⟩
  · intro v
    rw [hocc v, hunits, getElem?_append_one]
    have hi := h.iocc v
    by_cases h1 : v < s.units.length
    · have : v ≠ s.units.length := by omega
      simp only [h1, this, if_true, if_false]; omega
    · by_cases h2 : v = s.units.length
      · subst h2
        rw [hnone] at hi
        simp [expOcc, hxs] at hi ⊢
        omega
      · have hn : s.units[v]? = none := by simp; omega
        rw [hn] at hi
        simp only [h1, h2, if_false]
        simpa using hi
  · intro v
    have e : frameCount s2 v = frameCount s v := by simp only [frameCount, hstacks]
    rw [e, hunits, getElem?_append_one]
    have hi := h.ifc v
    by_cases h1 : v < s.units.length
    · simp only [h1, if_true]; exact hi
    · by_cases h2 : v = s.units.length
      · subst h2
        rw [hnone] at hi
        simp [expFc, hxs] at hi ⊢
        exact hi
      · have hn : s.units[v]? = none := by simp; omega
        rw [hn] at hi
        simp only [h1, h2, if_false]
        exact hi
  · intro v y hy
    rw [hunits, getElem?_append_one] at hy
    by_cases h1 : v < s.units.length
    · simp only [h1, if_true] at hy; exact h.ictr v y hy
    · by_cases h2 : v = s.units.length
      · subst h2
        simp at hy
        subst hy
        simp [hxs, hxe, hxc]
      · simp [h1, h2] at hy
  · intro q
    have e : live s2 q = live s q + (if g = q then 1 else 0) := by
      simp only [live, hunits, List.countP_append, List.countP_cons, List.countP_nil, hxg, hxs]
      by_cases hq : g = q <;> simp [hq]
    rw [e, hgroups, groups_set_get hG]
    have hi := h.irefs q
    by_cases hq : g = q
    · subst hq
      rw [hG] at hi
      simp [expRefs] at hi ⊢
      omega
    · simp only [hq, if_false]; omega
  · intro v y G2 hy hG2 hc
    rw [hgroups, groups_set_get hG] at hG2
    rw [hunits, getElem?_append_one] at hy
    by_cases h1 : v < s.units.length
    · simp only [h1, if_true] at hy
      by_cases hq : g = y.grp
      · simp only [hq, if_true, Option.some.injEq] at hG2
        subst hG2
        simp only at hc
        rw [hnc] at hc
        simp at hc
      · simp only [hq, if_false] at hG2
        exact h.iclosed v y G2 hy hG2 hc
    · by_cases h2 : v = s.units.length
      · subst h2
        simp at hy
        subst hy
        simp only [hxg, if_true, Option.some.injEq] at hG2
        subst hG2
        simp only at hc
        rw [hnc] at hc
        simp at hc
      · simp [h1, h2] at hy
  · intro v y hy hpos
    rw [hunits, getElem?_append_one] at hy
    rw [hctxs]
    by_cases h1 : v < s.units.length
    · simp only [h1, if_true] at hy; exact h.icanc v y hy hpos
    · by_cases h2 : v = s.units.length
      · subst h2
        simp at hy
        subst hy
        omega
      · simp [h1, h2] at hy

theorem proxies_append_get (l : List Proxy) (X : Proxy) (q : Nat) :
    (l ++ [X])[q]? = if q < l.length then l[q]? else if q = l.length then some X else none :=
  getElem?_append_one l X q

theorem inv_actSubmit {s s' : St} {t : Tid} {g c iso : Nat} {tg : Target} (h : Inv s)
    (he : actSubmit s t g c iso tg = some s') : Inv s' := by
  unfold actSubmit at he
  split at he
  · rename_i stk G hst hG
    split at he
    · rename_i hc
      obtain ⟨_, hperm⟩ := hc
      have hnc : G.closed = false := by
        rcases hperm with ⟨_, h2⟩ | h2
        · exact h2
        · exact not_closed_of_holds h h2 hG
      simp only at he
      split at he
      · -- spawn
        split at he
        · simp at he
        · rename_i k hk
          split at he
          · simp at he
          · rename_i P hP
            simp only [Option.some.injEq] at he
            subst he
            refine inv_submit h { grp := g, ctx := c, iso := iso } hG hnc rfl rfl rfl rfl rfl rfl rfl rfl ?_ ?_ (fun p => h.ipb p)
            · intro v
              have e := count_flatten_set_cons hP (Entry.task s.units.length) (Entry.task v)
              simp only [occ, poolCount, streamCount, bypassCount, liveProxy]
              by_cases hv : v = s.units.length
              · subst hv; simp at e ⊢; omega
              · have : ¬ s.units.length = v := fun x => hv x.symm
                simp [hv, this] at e ⊢; omega
            · intro p
              have e := count_flatten_set_cons hP (Entry.task s.units.length) (Entry.proxy p)
              have := h.ipp p
              simp only [poolCount] at this ⊢
              simp at e
              omega
      · -- mail
        rename_i dst
        split at he
        · simp at he
        · rename_i k hk
          split at he
          · rename_i P B hP hB
            split at he
            · simp only [Option.some.injEq] at he
              subst he
              refine inv_submit h { grp := g, ctx := c, iso := iso } hG hnc rfl rfl rfl rfl rfl rfl rfl rfl ?_ ?_ ?_
              · intro v
                have e := count_flatten_set_cons hP (Entry.proxy s.proxies.length) (Entry.task v)
                simp only [occ, poolCount, streamCount, bypassCount, liveProxy, List.countP_append, List.countP_cons,
                  List.countP_nil]
                simp at e
                by_cases hv : v = s.units.length
                · subst hv; simp; omega
                · have : ¬ s.units.length = v := fun x => hv x.symm
                  simp [hv, this]; omega
              · intro p
                have e := count_flatten_set_cons hP (Entry.proxy s.proxies.length) (Entry.proxy p)
                have hq := h.ipp p
                simp only [poolCount] at hq ⊢
                rw [proxies_append_get]
                by_cases h1 : p < s.proxies.length
                · have : ¬ s.proxies.length = p := by omega
                  simp [h1, this] at e hq ⊢; omega
                · by_cases h2 : p = s.proxies.length
                  · subst h2
                    have hn : s.proxies[s.proxies.length]? = none := by simp
                    rw [hn] at hq
                    simp [expPool] at e hq ⊢
                    omega
                  · have hn : s.proxies[p]? = none := by simp; omega
                    have : ¬ s.proxies.length = p := fun x => h2 x.symm
                    rw [hn] at hq
                    simp [h1, h2, this] at e ⊢
                    simp [expPool] at hq ⊢
                    omega
              · intro p
                have e := count_flatten_set_snoc hB s.proxies.length p
                have hq := h.ipb p
                simp only [boxCount] at hq ⊢
                rw [proxies_append_get]
                by_cases h1 : p < s.proxies.length
                · have : ¬ s.proxies.length = p := by omega
                  simp [h1, this] at e hq ⊢; omega
                · by_cases h2 : p = s.proxies.length
                  · subst h2
                    have hn : s.proxies[s.proxies.length]? = none := by simp
                    rw [hn] at hq
                    simp [expBox] at e hq ⊢
                    omega
                  · have hn : s.proxies[p]? = none := by simp; omega
                    have : ¬ s.proxies.length = p := fun x => h2 x.symm
                    rw [hn] at hq
                    simp [h1, h2, this] at e ⊢
                    simp [expBox] at hq ⊢
                    omega
            · simp at he
          · simp at he
      · -- stream
        rename_i a kind
        split at he
        · split at he
          · simp at he
          · rename_i S hS
            simp only [Option.some.injEq] at he
            subst he
            refine inv_submit h { grp := g, ctx := c, iso := iso } hG hnc rfl rfl rfl rfl rfl rfl rfl rfl ?_ (fun p => h.ipp p) (fun p => h.ipb p)
            intro v
            have e := count_flatten_set_snoc hS s.units.length v
            simp only [occ, poolCount, streamCount, bypassCount, liveProxy]
            by_cases hv : v = s.units.length
            · subst hv; simp at e ⊢; omega
            · have : ¬ s.units.length = v := fun x => hv x.symm
              simp [hv, this] at e ⊢; omega
        · simp at he
      · -- bypass
        split at he
        · rename_i hby
          simp only [Option.some.injEq] at he
          subst he
          refine inv_submit h { grp := g, ctx := c, iso := iso } hG hnc rfl rfl rfl rfl rfl rfl rfl rfl ?_ (fun p => h.ipp p) (fun p => h.ipb p)
          intro v
          have e := count_set_add hby (some s.units.length) (some v)
          simp only [occ, poolCount, streamCount, bypassCount, liveProxy]
          by_cases hv : v = s.units.length
          · subst hv; simp at e ⊢; omega
          · have : ¬ s.units.length = v := fun x => hv x.symm
            simp [hv, this] at e ⊢; omega
        · simp at he
    · simp at he
  · simp at he

theorem inv_actRespawn {s s' : St} {t : Tid} (h : Inv s) (he : actRespawn s t = some s') : Inv s' := by
  unfold actRespawn at he
  split at he
  · rename_i stk u hst hby
    split at he
    · simp at he
    · rename_i k hk
      split at he
      · simp at he
      · rename_i P hP
        simp only [Option.some.injEq] at he
        subst he
        refine inv_containers h rfl rfl rfl rfl ?_ ?_ (fun p => h.ipb p)
        · intro v
          have e1 := count_set_add hby none (some v)
          have e2 := count_flatten_set_cons hP (Entry.task u) (Entry.task v)
          simp only [occ, poolCount, streamCount, bypassCount, liveProxy]
          by_cases hv : u = v
          · subst hv; simp at e1 e2 ⊢; omega
          · simp [hv] at e1 e2 ⊢; omega
        · intro p
          have e := count_flatten_set_cons hP (Entry.task u) (Entry.proxy p)
          have := h.ipp p
          simp only [poolCount] at this ⊢
          simp at e
          omega
  · simp at he

end TbbVerif.C01.Dispatch
