/-
C01 / DequeTso: kernel-checked closure of the reachable set for one Orders table (see DequeTsoCore.lean):
decRmw=true decFence=true incRmw=true incFence=false.
-/
import TbbVerif.Proofs.C01.DequeTsoCore

namespace TbbVerif.C01.DequeTso

theorem closed_1110 : closed ⟨true, true, true, false⟩ (reachSet ⟨true, true, true, false⟩) = true := by decide +kernel
theorem safe_1110 : safe (reachSet ⟨true, true, true, false⟩) = true := by decide +kernel

end TbbVerif.C01.DequeTso
