/- C01 — wait_context + reference_vertex: the invariant is preserved by each class of transitions. -/
import TbbVerif.Proofs.C01.Vertex

namespace TbbVerif.C01.Vertex
open Lists

theorem live_other (vs vs' : List Nat) (ths : List Th) (k u : Nat) (t' : Th) (hk : k < ths.length) (hu : u ≠ k)
    (hv : vs'.getD u 0 = vs.getD u 0) : live vs' (ths.set k t') u = live vs ths u := by
  simp only [live, pcOf_set ths k u t' hk, hu, if_false, hv]

theorem live_self (vs vs' : List Nat) (ths : List Th) (k : Nat) (t t' : Th) (hk : ths[k]? = some t)
    (hpc : t.pc ≠ .resRoot) (hpc' : t'.pc ≠ .resRoot) (hv : vs'.getD k 0 = vs.getD k 0) :
    live vs' (ths.set k t') k = live vs ths k := by
  have a : (t'.pc != Pc.resRoot) = true := by simp [hpc']
  have b : (t.pc != Pc.resRoot) = true := by simp [hpc]
  simp only [live, pcOf_set ths k k t' (lt_of_getElem? _ _ _ hk), if_true, pcOf_of _ _ _ hk, a, b, hv]

/-- a thread-local step: no counter, no unit changes hands -/
theorem inv_local (s : St) (k : Nat) (t t' : Th) (h : VInv s) (hk : s.ths[k]? = some t)
    (hheld : t'.held = t.held) (hpc : t.pc ≠ .resRoot) (hpc' : t'.pc ≠ .resRoot)
    (hr : isRel t = false) (hr' : isRel t' = false) (hop : opOK t') :
    VInv { s with ths := s.ths.set k t' } := by
  have hkl := lt_of_getElem? _ _ _ hk
  have hpk := pcOf_of _ _ _ hk
  refine ⟨by simpa using h.lenV, ?_, ?_, ?_, by simpa using h.Jp, ?_, h.nobad⟩
  · have e1 : nLive s.vs (s.ths.set k t') = nLive s.vs s.ths := by
      apply nLive_same _ _ _ _ (by simp)
      intro u _
      by_cases e : u = k
      · subst e
        exact live_self _ _ _ _ _ _ hk hpc hpc' rfl
      · exact live_other _ _ _ _ _ _ hkl e rfl
    have e2 := nRel_set s.ths k t t' hk
    simp only [hr, hr'] at e2
    simp only
    rw [e1]
    have := h.J1
    omega
  · intro u hu
    simp only [List.length_set] at hu
    have e1 := heldCnt_set s.ths k t t' u hk
    rw [hheld] at e1
    have e2 : (pcOf (s.ths.set k t') u = Pc.resRoot) ↔ (pcOf s.ths u = Pc.resRoot) := by
      rw [pcOf_set _ _ _ _ hkl]
      by_cases e : u = k
      · subst e; simp [hpk, hpc, hpc']
      · simp [e]
    have := h.J2 u hu
    simp only [e2]
    omega
  · intro u hu hp
    simp only [List.length_set] at hu
    rw [pcOf_set _ _ _ _ hkl] at hp
    by_cases e : u = k
    · subst e; simp at hp; exact absurd hp hpc'
    · simp [e] at hp; exact h.J3 u hu hp
  · simp only [List.length_set]
    apply Jt_set _ _ _ _ h.Jt
    have := h.Jt k t hk
    exact ⟨fun hh => absurd hh hpc', by rw [hheld]; exact this.2.1, hop⟩

/-- a unit `v` moves from the pending list into the hands of thread `k` -/
theorem inv_take (s : St) (k v : Nat) (p' : List Nat) (t t' : Th) (h : VInv s) (hk : s.ths[k]? = some t)
    (hcnt : ∀ u, s.pending.count u = p'.count u + (if u = v then 1 else 0)) (hsub : ∀ x ∈ p', x ∈ s.pending)
    (hv : v ∈ s.pending)
    (hheld : t'.held = v :: t.held) (hpc : t.pc ≠ .resRoot) (hpc' : t'.pc ≠ .resRoot)
    (hr : isRel t = false) (hr' : isRel t' = false) (hop : opOK t') :
    VInv { s with pending := p', ths := s.ths.set k t' } := by
  have hkl := lt_of_getElem? _ _ _ hk
  have hpk := pcOf_of _ _ _ hk
  refine ⟨by simpa using h.lenV, ?_, ?_, ?_, ?_, ?_, h.nobad⟩
  · have e1 : nLive s.vs (s.ths.set k t') = nLive s.vs s.ths := by
      apply nLive_same _ _ _ _ (by simp)
      intro u _
      by_cases e : u = k
      · subst e
        exact live_self _ _ _ _ _ _ hk hpc hpc' rfl
      · exact live_other _ _ _ _ _ _ hkl e rfl
    have e2 := nRel_set s.ths k t t' hk
    simp only [hr, hr'] at e2
    simp only
    rw [e1]
    have := h.J1
    omega
  · intro u hu
    simp only [List.length_set] at hu
    have e1 := heldCnt_set s.ths k t t' u hk
    rw [hheld, List.count_cons] at e1
    have e2 : (pcOf (s.ths.set k t') u = Pc.resRoot) ↔ (pcOf s.ths u = Pc.resRoot) := by
      rw [pcOf_set _ _ _ _ hkl]
      by_cases e : u = k
      · subst e; simp [hpk, hpc, hpc']
      · simp [e]
    have := h.J2 u hu
    have hc := hcnt u
    simp only [e2]
    by_cases e : u = v
    · subst e; simp at e1 hc; omega
    · have : ¬ (v = u) := fun x => e x.symm
      simp [e, this] at e1 hc; omega
  · intro u hu hp
    simp only [List.length_set] at hu
    rw [pcOf_set _ _ _ _ hkl] at hp
    by_cases e : u = k
    · subst e; simp at hp; exact absurd hp hpc'
    · simp [e] at hp; exact h.J3 u hu hp
  · intro x hx
    simp only [List.length_set]
    exact h.Jp x (hsub x hx)
  · simp only [List.length_set]
    apply Jt_set _ _ _ _ h.Jt
    have := h.Jt k t hk
    refine ⟨fun hh => absurd hh hpc', ?_, hop⟩
    rw [hheld]
    intro x hx
    simp at hx
    rcases hx with rfl | hx
    · exact h.Jp _ hv
    · exact this.2.1 x hx

/-- thread `k` finishes the unit `v` it holds: reference_vertex::release on vertex `v` -/
theorem inv_dec (s : St) (k v : Nat) (t t' : Th) (h : VInv s) (hk : s.ths[k]? = some t)
    (hheld : t.held = v :: t'.held) (hpc : t.pc ≠ .resRoot) (hpc' : t'.pc ≠ .resRoot)
    (hr : isRel t = false) (hr' : isRel t' = decide (s.vs.getD v 0 - 1 = 0)) (hop : opOK t') :
    VInv { s with vs := s.vs.set v (s.vs.getD v 0 - 1), bad := s.bad || decide (s.vs.getD v 0 = 0),
                  ths := s.ths.set k t' } := by
  have hkl := lt_of_getElem? _ _ _ hk
  have hpk := pcOf_of _ _ _ hk
  have htk := h.Jt k t hk
  have hvN : v < s.ths.length := htk.2.1 v (by rw [hheld]; simp)
  have hvl : v < s.vs.length := by rw [h.lenV]; exact hvN
  have hcnt : 1 ≤ heldCnt s.ths v := by
    have := sum_map_pos_of_mem (fun t => t.held.count v) s.ths k t hk
    simp only [hheld, List.count_cons_self] at this
    unfold heldCnt; omega
  have hJ2 := h.J2 v hvN
  have hpv : pcOf s.ths v ≠ .resRoot := by
    intro hh
    have := h.J3 v hvN hh
    simp only [hh, if_true] at hJ2
    omega
  have hc : 1 ≤ s.vs.getD v 0 := by omega
  refine ⟨by simpa using h.lenV, ?_, ?_, ?_, by simpa using h.Jp, ?_, ?_⟩
  · have e1 := nLive_change s.vs (s.vs.set v (s.vs.getD v 0 - 1)) s.ths (s.ths.set k t') v (by simp) hvN (by
      intro u hu
      by_cases e : u = k
      · subst e
        exact live_self _ _ _ _ _ _ hk hpc hpc' (getD_set_ne _ _ _ _ _ (fun x => hu x.symm))
      · exact live_other _ _ _ _ _ _ hkl e (getD_set_ne _ _ _ _ _ (fun x => hu x.symm)))
    have hold : live s.vs s.ths v = true := by
      simp only [live, Bool.and_eq_true, decide_eq_true_eq, bne_iff_ne, ne_eq]
      exact ⟨by omega, hpv⟩
    have hnew : live (s.vs.set v (s.vs.getD v 0 - 1)) (s.ths.set k t') v = decide (0 < s.vs.getD v 0 - 1) := by
      simp only [live, getD_set_eq _ _ _ _ hvl, pcOf_set s.ths k v t' hkl]
      by_cases e : v = k
      · subst e; simp [hpc']
      · simp [e, hpv]
    rw [hold, hnew] at e1
    have e2 := nRel_set s.ths k t t' hk
    rw [hr, hr'] at e2
    have := h.J1
    simp only
    simp only [if_true, decide_eq_true_eq, Bool.false_eq_true, if_false] at e1 e2
    by_cases hz : s.vs.getD v 0 - 1 = 0
    · have hz' : ¬ (0 < s.vs.getD v 0 - 1) := by omega
      simp only [hz, Nat.lt_irrefl, if_true, if_false] at e1 e2 ⊢; omega
    · have hz' : 0 < s.vs.getD v 0 - 1 := by omega
      simp only [hz, hz', if_true, if_false] at e1 e2; omega
  · intro u hu
    simp only [List.length_set] at hu
    have e1 := heldCnt_set s.ths k t t' u hk
    rw [hheld, List.count_cons] at e1
    have e2 : (pcOf (s.ths.set k t') u = Pc.resRoot) ↔ (pcOf s.ths u = Pc.resRoot) := by
      rw [pcOf_set _ _ _ _ hkl]
      by_cases e : u = k
      · subst e; simp [hpk, hpc, hpc']
      · simp [e]
    have := h.J2 u hu
    simp only [e2]
    by_cases e : v = u
    · subst e
      rw [getD_set_eq _ _ _ _ hvl]
      simp at e1; omega
    · rw [getD_set_ne _ _ _ _ _ e]
      simp [e] at e1; omega
  · intro u hu hp
    simp only [List.length_set] at hu
    rw [pcOf_set _ _ _ _ hkl] at hp
    by_cases e : u = k
    · subst e; simp at hp; exact absurd hp hpc'
    · simp [e] at hp
      have hne : v ≠ u := fun x => hpv (x ▸ hp)
      simp only
      rw [getD_set_ne _ _ _ _ _ hne]
      exact h.J3 u hu hp
  · simp only [List.length_set]
    apply Jt_set _ _ _ _ h.Jt
    refine ⟨fun hh => absurd hh hpc', ?_, hop⟩
    intro x hx
    exact htk.2.1 x (by rw [hheld]; simp [hx])
  · have : decide (s.vs.getD v 0 = 0) = false := by apply decide_eq_false; omega
    simp only [h.nobad, this]; rfl

/-- the 1 → 0 transition of a vertex is forwarded to the root: wait_context::release -/
theorem inv_relroot (s : St) (k : Nat) (t t' : Th) (n' : Nat) (h : VInv s) (hk : s.ths[k]? = some t)
    (hheld : t'.held = t.held) (hr : isRel t = true) (hpc' : t'.pc ≠ .resRoot)
    (hr' : isRel t' = false) (hop : opOK t') :
    VInv { s with root := s.root - 1, bad := s.bad || decide (s.root = 0), notified := n', ths := s.ths.set k t' } := by
  have hkl := lt_of_getElem? _ _ _ hk
  have hpk := pcOf_of _ _ _ hk
  have hpc : t.pc ≠ .resRoot := by
    intro hh; simp [isRel, hh] at hr
  have e2 := nRel_set s.ths k t t' hk
  simp only [hr, hr', if_true] at e2
  have hJ1 := h.J1
  refine ⟨by simpa using h.lenV, ?_, ?_, ?_, by simpa using h.Jp, ?_, ?_⟩
  · have e1 : nLive s.vs (s.ths.set k t') = nLive s.vs s.ths := by
      apply nLive_same _ _ _ _ (by simp)
      intro u _
      by_cases e : u = k
      · subst e
        exact live_self _ _ _ _ _ _ hk hpc hpc' rfl
      · exact live_other _ _ _ _ _ _ hkl e rfl
    simp only
    rw [e1]
    simp at e2
    omega
  · intro u hu
    simp only [List.length_set] at hu
    have e1 := heldCnt_set s.ths k t t' u hk
    rw [hheld] at e1
    have e3 : (pcOf (s.ths.set k t') u = Pc.resRoot) ↔ (pcOf s.ths u = Pc.resRoot) := by
      rw [pcOf_set _ _ _ _ hkl]
      by_cases e : u = k
      · subst e; simp [hpk, hpc, hpc']
      · simp [e]
    have := h.J2 u hu
    simp only [e3]
    omega
  · intro u hu hp
    simp only [List.length_set] at hu
    rw [pcOf_set _ _ _ _ hkl] at hp
    by_cases e : u = k
    · subst e; simp at hp; exact absurd hp hpc'
    · simp [e] at hp; exact h.J3 u hu hp
  · simp only [List.length_set]
    apply Jt_set _ _ _ _ h.Jt
    have := h.Jt k t hk
    exact ⟨fun hh => absurd hh hpc', by rw [hheld]; exact this.2.1, hop⟩
  · have : decide (s.root = 0) = false := by apply decide_eq_false; simp at e2; omega
    simp only [h.nobad, this]; rfl

end TbbVerif.C01.Vertex
