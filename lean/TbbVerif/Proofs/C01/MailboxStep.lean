/- C01 — mail_outbox: every step preserves the invariant; no loss, no duplication, first-in-first-out per isolation. -/
import TbbVerif.Proofs.C01.MailboxPop

namespace TbbVerif.C01.Mailbox
open Lists

theorem getLink_setLink (s : St) (a b : Link) (v : Option Nat) (ha : ∀ p, a = .next p → p < s.nexts.length) :
    getLink (setLink s a v) b = if b = a then v else getLink s b := by
  by_cases e : b = a
  · subst e; simp only [if_true]; exact getLink_setLink_eq s b v ha
  · simp only [e, if_false]; exact getLink_setLink_ne s a b v (fun x => e x.symm)

theorem pusher_step (s : St) (k : Nat) (u : Pusher) (h : MInv s) (hk : s.pushers[k]? = some u) :
    MInv (stepPusher s k u).1 := by
  obtain ⟨ops, pc, p, link⟩ := u
  cases ops with
  | nil => exact h
  | cons iso rest =>
    cases pc with
    | start =>
      simp only [stepPusher]
      exact push_alloc s _ k _ iso h hk rfl (by simp) rfl rfl rfl rfl rfl rfl rfl
    | xchg =>
      simp only [stepPusher]
      exact push_xchg s _ k _ h hk rfl rfl rfl rfl rfl rfl rfl rfl
    | link =>
      have hu := h.push k _ hk
      simp only [PushOK] at hu
      obtain ⟨_, pre, post, hq, hlk, _⟩ := hu
      have hal : ∀ q, link = .next q → q < s.nexts.length :=
        addr_alloc s h link (by rw [hlk]; exact tailLink_pre_QAddr s pre _ post hq)
      obtain ⟨f1, f2, f3, f4, f5, f6⟩ := setLink_fields s link (some p)
      simp only [stepPusher]
      refine push_link s _ k _ h hk rfl (fun b => ?_) ?_ ?_ ?_ ?_ ?_ ?_
      · have := getLink_setLink s link b (some p) hal
        rw [← this]; cases b <;> rfl
      · exact f6
      · exact f5
      · simp only [List.tail_cons]; rw [f4]
      · exact f1
      · exact f2
      · exact f3

theorem cons_step (s : St) (h : MInv s) : MInv (stepCons s).1 := by
  have hc := h.cons
  obtain ⟨first, last, nexts, isos, cons, pushers, order⟩ := s
  obtain ⟨ops, pc, curr, prev, second, out⟩ := cons
  cases ops with
  | nil => exact h
  | cons iso rest =>
    have hops : (iso :: rest) ≠ [] := by simp
    cases pc with
    | start =>
      cases hf : first with
      | none =>
        subst hf
        simp only [stepCons]
        exact cons_fin_none _ _ h (Or.inl rfl) rfl rfl rfl rfl rfl rfl rfl
      | some p =>
        subst hf
        have hp : getLink (⟨some p, last, nexts, isos, ⟨iso :: rest, .start, curr, prev, second, out⟩, pushers, order⟩ : St)
            (tailLink .first []) = some p := rfl
        obtain ⟨post, hq⟩ := succ_of_link _ h [] _ rfl p hp
        simp only [stepCons]
        by_cases hm : (iso != 0 && isos.getD p 0 != iso) = true
        · simp only [hm, if_true]
          exact cons_arrive _ _ h [] post p (Or.inl rfl) hops hq hp (by simp) rfl rfl rfl rfl rfl rfl
            (by simp only [curIso, isoOf, List.headD_cons, hm, if_true] <;> rfl)
        · simp only [hm, if_false]
          exact cons_arrive _ _ h [] post p (Or.inl rfl) hops hq hp (by simp) rfl rfl rfl rfl rfl rfl
            (by simp only [curIso, isoOf, List.headD_cons, hm, if_false] <;> rfl)
    | walk =>
      simp only [ConsOK] at hc
      obtain ⟨_, pre, post, ⟨hq, hprev, hmis⟩, hlk, hm⟩ := hc
      simp only at hq hprev
      have htl : tailLink .first (pre ++ [curr]) = .next curr := tailLink_snoc _ _ _
      cases hg : nexts.getD curr none with
      | none =>
        simp only [stepCons, getLink, hg]
        exact cons_fin_none _ _ h (Or.inr rfl) rfl rfl rfl rfl rfl rfl rfl
      | some p =>
        have hp : getLink (⟨first, last, nexts, isos, ⟨iso :: rest, .walk, curr, prev, second, out⟩, pushers, order⟩ : St)
            (tailLink .first (pre ++ [curr])) = some p := by rw [htl]; exact hg
        obtain ⟨post', hq'⟩ := succ_of_link _ h (pre ++ [curr]) post (by rw [hq]; simp) p hp
        have hmis' : ∀ r ∈ pre ++ [curr], Mismatch (⟨first, last, nexts, isos, ⟨iso :: rest, .walk, curr, prev, second, out⟩, pushers, order⟩ : St) r := by
          intro r hr; rcases List.mem_append.mp hr with hr | hr
          · exact hmis r hr
          · simp at hr; subst hr; exact hm
        simp only [stepCons, getLink, hg]
        rw [← htl]
        by_cases hm2 : (iso != 0 && isos.getD p 0 != iso) = true
        · simp only [hm2, if_true]
          exact cons_arrive _ _ h (pre ++ [curr]) post' p (Or.inr rfl) hops (by rw [hq, hq']; simp) hp hmis' rfl rfl rfl rfl rfl rfl
            (by simp only [curIso, isoOf, List.headD_cons, hm2, if_true] <;> rfl)
        · simp only [hm2, if_false]
          exact cons_arrive _ _ h (pre ++ [curr]) post' p (Or.inr rfl) hops (by rw [hq, hq']; simp) hp hmis' rfl rfl rfl rfl rfl rfl
            (by simp only [curIso, isoOf, List.headD_cons, hm2, if_false] <;> rfl)
    | second =>
      simp only [ConsOK] at hc
      obtain ⟨_, pre, post, ⟨hq, hprev, hmis⟩, hlk, hm⟩ := hc
      simp only at hq hprev
      have htl : tailLink .first (pre ++ [curr]) = .next curr := tailLink_snoc _ _ _
      cases hg : nexts.getD curr none with
      | some q =>
        have hp : getLink (⟨first, last, nexts, isos, ⟨iso :: rest, .second, curr, prev, second, out⟩, pushers, order⟩ : St)
            (tailLink .first (pre ++ [curr])) = some q := by rw [htl]; exact hg
        obtain ⟨post', hq'⟩ := succ_of_link _ h (pre ++ [curr]) post (by rw [hq]; simp) q hp
        simp only [stepCons, getLink, hg]
        refine cons_local _ _ h rfl rfl rfl rfl rfl rfl rfl rfl rfl rfl (by intro e; simp at e) (by simp) ?_
        simp only [ConsOK]
        exact ⟨hops, pre, post, ⟨hq, hprev, hmis⟩, hlk, hm, post', hq', hg⟩
      | none =>
        simp only [stepCons, getLink, hg]
        refine cons_local _ _ h rfl rfl rfl rfl rfl rfl rfl rfl rfl rfl (by intro e; simp at e) (by simp) ?_
        simp only [ConsOK]
        exact ⟨hops, pre, post, ⟨hq, hprev, hmis⟩, hlk, hm⟩
    | storeSecond =>
      simp only [ConsOK] at hc
      obtain ⟨_, pre, post, ⟨hq, hprev, _⟩, _⟩ := hc
      simp only at hq hprev
      have hal : ∀ q, prev = .next q → q < nexts.length :=
        addr_alloc _ h prev (by rw [hprev]; exact tailLink_pre_QAddr _ pre _ post hq)
      obtain ⟨f1, f2, f3, f4, f5, f6⟩ := setLink_fields (⟨first, last, nexts, isos, ⟨iso :: rest, .storeSecond, curr, prev, second, out⟩, pushers, order⟩ : St) prev (some second)
      simp only [stepCons]
      refine cons_unlink _ _ h (Or.inl rfl) (fun b => ?_) f6 f5 f4 f1 f2 rfl
      have := getLink_setLink (⟨first, last, nexts, isos, ⟨iso :: rest, .storeSecond, curr, prev, second, out⟩, pushers, order⟩ : St) prev b (some second) hal
      rw [← this]; cases b <;> rfl
    | storeLate =>
      simp only [ConsOK] at hc
      obtain ⟨_, pre, post, ⟨hq, hprev, _⟩, _⟩ := hc
      simp only at hq hprev
      have hal : ∀ q, prev = .next q → q < nexts.length :=
        addr_alloc _ h prev (by rw [hprev]; exact tailLink_pre_QAddr _ pre _ post hq)
      obtain ⟨f1, f2, f3, f4, f5, f6⟩ := setLink_fields (⟨first, last, nexts, isos, ⟨iso :: rest, .storeLate, curr, prev, second, out⟩, pushers, order⟩ : St) prev (some second)
      simp only [stepCons]
      refine cons_unlink _ _ h (Or.inr rfl) (fun b => ?_) f6 f5 f4 f1 f2 rfl
      have := getLink_setLink (⟨first, last, nexts, isos, ⟨iso :: rest, .storeLate, curr, prev, second, out⟩, pushers, order⟩ : St) prev b (some second) hal
      rw [← this]; cases b <;> rfl
    | storeNull =>
      simp only [ConsOK] at hc
      obtain ⟨_, pre, post, ⟨hq, hprev, _⟩, _⟩ := hc
      simp only at hq hprev
      have hal : ∀ q, prev = .next q → q < nexts.length :=
        addr_alloc _ h prev (by rw [hprev]; exact tailLink_pre_QAddr _ pre _ post hq)
      obtain ⟨f1, f2, f3, f4, f5, f6⟩ := setLink_fields (⟨first, last, nexts, isos, ⟨iso :: rest, .storeNull, curr, prev, second, out⟩, pushers, order⟩ : St) prev none
      simp only [stepCons]
      refine cons_cut _ _ h rfl (fun b => ?_) f6 f5 f4 f1 f2 rfl
      have := getLink_setLink (⟨first, last, nexts, isos, ⟨iso :: rest, .storeNull, curr, prev, second, out⟩, pushers, order⟩ : St) prev b none hal
      rw [← this]; cases b <;> rfl
    | cas =>
      simp only [stepCons]
      by_cases hl : last = .next curr
      · simp only [hl, if_true]
        subst hl
        exact cons_cas_win _ _ h rfl rfl rfl rfl rfl rfl rfl rfl rfl
      · simp only [hl, if_false]
        simp only [ConsOK] at hc
        obtain ⟨_, pre, post, ⟨hq, hprev, hmis⟩, hlk, hm⟩ := hc
        simp only at hq hprev
        have hnd := queue_nodup _ h.ordN
        rw [hq] at hnd
        have hpne : post ≠ [] := by
          intro e
          subst e
          have := h.lastOK
          rw [hq, tailLink_append] at this
          simp only [tailLink] at this
          exact hl this
        refine cons_local _ _ h rfl rfl rfl rfl rfl rfl rfl rfl rfl rfl (fun _ => Or.inr (Or.inl rfl)) (by simp) ?_
        simp only [ConsOK]
        exact ⟨hops, pre, post, ⟨hq, hprev, hmis⟩, hlk, hm, hpne⟩
    | spin =>
      simp only [ConsOK] at hc
      obtain ⟨_, pre, post, ⟨hq, hprev, hmis⟩, hlk, hm, hpne⟩ := hc
      simp only at hq hprev
      have htl : tailLink .first (pre ++ [curr]) = .next curr := tailLink_snoc _ _ _
      cases hg : nexts.getD curr none with
      | some q =>
        have hp : getLink (⟨first, last, nexts, isos, ⟨iso :: rest, .spin, curr, prev, second, out⟩, pushers, order⟩ : St)
            (tailLink .first (pre ++ [curr])) = some q := by rw [htl]; exact hg
        obtain ⟨post', hq'⟩ := succ_of_link _ h (pre ++ [curr]) post (by rw [hq]; simp) q hp
        simp only [stepCons, getLink, hg]
        refine cons_local _ _ h rfl rfl rfl rfl rfl rfl rfl rfl rfl rfl (fun _ => Or.inr (Or.inr rfl)) (by simp) ?_
        simp only [ConsOK]
        exact ⟨hops, pre, post, ⟨hq, hprev, hmis⟩, hlk, hm, post', hq', hg⟩
      | none =>
        simp only [stepCons, getLink, hg]
        exact h

theorem inv_step (s : St) (tid : Tid) (h : MInv s) : MInv (step s tid) := by
  unfold step stepEv
  cases tid with
  | zero => exact cons_step s h
  | succ k =>
    simp only
    cases hk : s.pushers[k]? with
    | none => exact h
    | some u => exact pusher_step s k u h hk

theorem inv_init (cprog : List Nat) (pprogs : List (List Nat)) : MInv (init cprog pprogs) := by
  have hp : ∀ (k : Nat) (u : Pusher), (init cprog pprogs).pushers[k]? = some u → u.pc = .start := by
    intro k u hk
    simp only [init, List.getElem?_map] at hk
    cases hq : pprogs[k]? with
    | none => simp [hq] at hk
    | some q => simp [hq] at hk; subst hk; rfl
  refine ⟨rfl, by simp [init], by simp [init], by simp [init, popped, Cons.fin], by simp [init, popped],
          by simp [queue, init, ChainSeg], by simp [queue, init, tailLink, getLink], by simp [queue, init, tailLink], ?_, ?_,
          by simp [ConsOK, init], ?_⟩
  · intro k u hk; simp [PushOK, hp k u hk]
  · intro k k' u u' _ hk _ h1 _; exact absurd (hp k u hk) h1
  · intro k u hk hl _; rw [hp k u hk] at hl; exact absurd hl (by simp)

theorem inv_reachable (cprog : List Nat) (pprogs : List (List Nat)) (sched : List Tid) :
    MInv ((sys cprog pprogs).run sched) :=
  Sys.inv_run (sys cprog pprogs) MInv (inv_init cprog pprogs) inv_step sched

/-- exchanged = popped + still queued (as multisets), nothing twice -/
theorem perm_of_inv (s : St) (h : MInv s) :
    List.Perm s.order (popped s ++ queue s) ∧ (popped s).Nodup ∧ (queue s).Nodup := by
  refine ⟨?_, h.popN, queue_nodup s h.ordN⟩
  have h1 : List.Perm (s.order.filter (fun p => (popped s).contains p) ++ queue s) s.order := by
    have := List.filter_append_perm (fun p => (popped s).contains p) s.order
    simpa [queue] using this
  have h2 : List.Perm (s.order.filter (fun p => (popped s).contains p)) (popped s) := by
    apply (List.perm_ext_iff_of_nodup (h.ordN.filter _) h.popN).mpr
    intro a
    simp only [List.mem_filter, List.contains_iff_mem]
    exact ⟨fun x => x.2, fun x => ⟨h.popS a x, x⟩⟩
  exact (h1.symm).trans (h2.append_right _)

/-- the proxy the consumer has committed to is the first proxy of the logical queue that its isolation accepts -/
theorem fifo_of_inv (s : St) (h : MInv s)
    (hpc : s.cons.pc = .second ∨ s.cons.pc = .storeSecond ∨ s.cons.pc = .storeNull ∨ s.cons.pc = .cas ∨
           s.cons.pc = .spin ∨ s.cons.pc = .storeLate) :
    ∃ pre post, queue s = pre ++ s.cons.curr :: post ∧ (∀ q ∈ pre, Mismatch s q) ∧ ¬ Mismatch s s.cons.curr := by
  have hc := h.cons
  unfold ConsOK at hc
  rcases hpc with e | e | e | e | e | e <;> simp only [e] at hc
  · obtain ⟨_, pre, post, ⟨a1, _, a3⟩, _, a5⟩ := hc; exact ⟨pre, post, a1, a3, a5⟩
  · obtain ⟨_, pre, post, ⟨a1, _, a3⟩, _, a5, _⟩ := hc; exact ⟨pre, post, a1, a3, a5⟩
  · obtain ⟨_, pre, post, ⟨a1, _, a3⟩, _, a5⟩ := hc; exact ⟨pre, post, a1, a3, a5⟩
  · obtain ⟨_, pre, post, ⟨a1, _, a3⟩, _, a5⟩ := hc; exact ⟨pre, post, a1, a3, a5⟩
  · obtain ⟨_, pre, post, ⟨a1, _, a3⟩, _, a5, _⟩ := hc; exact ⟨pre, post, a1, a3, a5⟩
  · obtain ⟨_, pre, post, ⟨a1, _, a3⟩, _, a5, _⟩ := hc; exact ⟨pre, post, a1, a3, a5⟩

end TbbVerif.C01.Mailbox
