/- C01 — task_stream: the invariant is preserved by each class of transitions. -/
import TbbVerif.Proofs.C01.Stream

namespace TbbVerif.C01.Stream
open Lists

theorem no_holder (ths : List Th) (i : Nat) (h : holderN ths i = 0) :
    ∀ (j : Nat) (u : Th), ths[j]? = some u → holdsLane i u = false := by
  intro j u hj
  have := List.countP_eq_zero.mp h u (List.mem_of_getElem? hj)
  simpa using this

theorem other_holders (ths : List Th) (i k : Nat) (t : Th) (hle : holderN ths i ≤ 1) (hk : ths[k]? = some t)
    (ht : holdsLane i t = true) : ∀ (j : Nat) (u : Th), j ≠ k → ths[j]? = some u → holdsLane i u = false := by
  intro j u hj hju
  have e := holderN_set ths k i t {} hk
  simp only [ht, if_true, show holdsLane i ({} : Th) = false by rfl, Bool.false_eq_true, if_false] at e
  have hz : holderN (ths.set k {}) i = 0 := by omega
  have hm : (ths.set k {})[j]? = some u := by rw [List.getElem?_set_ne (fun x => hj x.symm)]; exact hju
  exact no_holder _ i hz j u hm

theorem laneQ_set_ne (s : St) (L' : List Lane) (i j : Nat) (l : Lane) (h : L' = s.lanes.set i l) (hij : i ≠ j) :
    (L'.getD j {}).q = laneQ s j := by
  rw [h, getD_set_ne _ _ _ _ _ hij]; rfl

/-- ThOK only looks at the lane / bit of the thread's own lane -/
theorem ThOK_congr (s s' : St) (u : Th) (hn : s'.n = s.n) (hq : holds u = true → laneQ s' u.lane = laneQ s u.lane)
    (hb : holds u = true → bit s' u.lane = bit s u.lane) (h : ThOK s u) : ThOK s' u := by
  obtain ⟨h1, h2, h3, h4, h5, h6, h7, h8⟩ := h
  refine ⟨by rw [hn]; exact h1, h2, h3, ?_, h5, ?_, ?_, h8⟩
  · intro hp; have := h4 hp; rw [hq (by simp [holds, hp])]; exact this
  · intro hp; rw [hq (by simp [holds, hp])]; exact h6 hp
  · intro hp; rw [hq (by simp [holds, hp]), hb (by simp [holds, hp])]; exact h7 hp

/-- a step that touches only the thread's own locals (nothing is held before or after) -/
theorem sinv_local (s : St) (k : Nat) (t t' : Th) (h : SInv s) (hk : s.ths[k]? = some t)
    (hh : holds t = false) (hh' : holds t' = false) (hok : ThOK s t')
    (hc : ∀ x, (t'.out.filterMap id).count x + t'.res.toList.count x = (t.out.filterMap id).count x + t.res.toList.count x) :
    SInv { s with ths := s.ths.set k t' } := by
  refine ⟨h.npos, h.lenP, h.lenL, h.nobad, ?_, ?_, h.L3, ?_⟩
  · intro i hi
    have hi' : i < s.n := hi
    have e := holderN_set s.ths k i t t' hk
    simp only [holdsLane, hh, hh', Bool.false_and, Bool.false_eq_true, if_false] at e
    have := h.L1 i hi'
    exact ⟨fun hf => by have := this.1 hf; show holderN (s.ths.set k t') i = 1; omega,
           fun hf => by have := this.2 hf; show holderN (s.ths.set k t') i = 0; omega⟩
  · intro j u hj
    simp only at hj
    by_cases e : k = j
    · subst e
      rw [List.getElem?_set_self (lt_of_getElem? hk)] at hj
      cases hj
      exact ThOK_congr s _ t' rfl (fun _ => rfl) (fun _ => rfl) hok
    · rw [List.getElem?_set_ne e] at hj
      exact ThOK_congr s _ u rfl (fun _ => rfl) (fun _ => rfl) (h.L2 j u hj)
  · intro x
    have e1 := count_flatten_set s.ths (fun t => t.out.filterMap id) k t t' x hk
    have e2 := count_flatten_set s.ths (fun t => t.res.toList) k t t' x hk
    have := h.C x
    have := hc x
    simp only [tOut, tRes] at *
    omega

/-- try_lock succeeded on lane `i`: the thread now holds it; the queue / the bookkeeping change by `dq` / `dp` -/
theorem sinv_acquire (s : St) (k i : Nat) (t t' : Th) (q' : List (Option Nat)) (P' : List Nat) (I' : List (Nat × Nat))
    (h : SInv s) (hk : s.ths[k]? = some t) (hi : i < s.n) (hf : laneFlag s i = false)
    (hh : holds t = false) (hh' : holds t' = true) (hl' : t'.lane = i)
    (hok : ThOK { s with lanes := s.lanes.set i { flag := true, q := q' }, isos := I', pushed := P' } t')
    (hc : ∀ x, P'.count x + (t.out.filterMap id).count x + t.res.toList.count x + ((laneQ s i).filterMap id).count x =
               s.pushed.count x + (t'.out.filterMap id).count x + t'.res.toList.count x + (q'.filterMap id).count x) :
    SInv { s with lanes := s.lanes.set i { flag := true, q := q' }, isos := I', pushed := P', ths := s.ths.set k t' } := by
  have hil : i < s.lanes.length := by rw [h.lenL]; exact hi
  have h0 : holderN s.ths i = 0 := (h.L1 i hi).2 hf
  refine ⟨h.npos, h.lenP, by simpa using h.lenL, h.nobad, ?_, ?_, ?_, ?_⟩
  · intro j hj
    have hj : j < s.n := hj
    have e := holderN_set s.ths k j t t' hk
    have e0 : holdsLane j t = false := by simp [holdsLane, hh]
    rw [e0] at e
    simp only [Bool.false_eq_true, if_false] at e
    by_cases hij : i = j
    · subst hij
      have : holdsLane i t' = true := by simp [holdsLane, hh', hl']
      rw [this] at e
      simp only [if_true] at e
      have hfl' : ((s.lanes.set i { flag := true, q := q' }).getD i {}).flag = true := by rw [getD_set_eq _ _ _ _ hil]
      exact ⟨fun _ => by show holderN (s.ths.set k t') i = 1; omega,
             fun hf' => by have hf2 : ((s.lanes.set i { flag := true, q := q' }).getD i {}).flag = false := hf'
                           rw [hfl'] at hf2; exact absurd hf2 (by simp)⟩
    · have : holdsLane j t' = false := by simp [holdsLane, hl', hij]
      rw [this] at e
      simp only [Bool.false_eq_true, if_false] at e
      have hL := h.L1 j hj
      have hfe : ((s.lanes.set i { flag := true, q := q' }).getD j {}).flag = laneFlag s j := by
        rw [getD_set_ne _ _ _ _ _ hij]; rfl
      exact ⟨fun hf' => by have hf2 : ((s.lanes.set i { flag := true, q := q' }).getD j {}).flag = true := hf'
                           rw [hfe] at hf2; have := hL.1 hf2; show holderN (s.ths.set k t') j = 1; omega,
             fun hf' => by have hf2 : ((s.lanes.set i { flag := true, q := q' }).getD j {}).flag = false := hf'
                           rw [hfe] at hf2; have := hL.2 hf2; show holderN (s.ths.set k t') j = 0; omega⟩
  · intro j u hj
    simp only at hj
    by_cases e : k = j
    · subst e
      rw [List.getElem?_set_self (lt_of_getElem? hk)] at hj
      cases hj
      exact ThOK_congr _ _ t' rfl (fun _ => rfl) (fun _ => rfl) hok
    · rw [List.getElem?_set_ne e] at hj
      have hnh := no_holder s.ths i h0 j u hj
      refine ThOK_congr s _ u rfl ?_ (fun _ => rfl) (h.L2 j u hj)
      intro hu
      have hne : i ≠ u.lane := by
        intro e2; simp [holdsLane, hu, e2] at hnh
      simp only [laneQ]
      rw [getD_set_ne _ _ _ _ _ hne]
  · intro j hj hfj
    have hj : j < s.n := hj
    by_cases hij : i = j
    · subst hij
      simp only [laneFlag, getD_set_eq _ _ _ _ hil] at hfj
      exact absurd hfj (by simp)
    · simp only [laneFlag, laneQ, bit, getD_set_ne _ _ _ _ _ hij] at hfj ⊢
      exact h.L3 j hj hfj
  · intro x
    have e1 := count_flatten_set s.ths (fun t => t.out.filterMap id) k t t' x hk
    have e2 := count_flatten_set s.ths (fun t => t.res.toList) k t t' x hk
    have hl : s.lanes[i]? = some (s.lanes.getD i {}) := by
      simp [List.getD_eq_getElem?_getD, hil]
    have e3 := count_flatten_set s.lanes (fun l => l.q.filterMap id) i _ { flag := true, q := q' } x hl
    have := h.C x
    have := hc x
    simp only [tOut, tRes, inLanes', laneQ] at *
    omega

/-- the holder of lane `i` sets / clears the population bit of that lane -/
theorem sinv_bit (s : St) (k : Nat) (t t' : Th) (b : Bool) (h : SInv s) (hk : s.ths[k]? = some t)
    (hh : holds t = true) (hh' : holds t' = true) (hl' : t'.lane = t.lane)
    (hok : ThOK { s with pop := s.pop.set t.lane b } t')
    (hc : ∀ x, (t'.out.filterMap id).count x + t'.res.toList.count x = (t.out.filterMap id).count x + t.res.toList.count x) :
    SInv { s with pop := s.pop.set t.lane b, ths := s.ths.set k t' } := by
  have hlt : t.lane < s.n := ((h.L2 k t hk).1 (by intro e; simp [holds, e] at hh)).1
  have hhl : holdsLane t.lane t = true := by simp [holdsLane, hh]
  have hp : 0 < holderN s.ths t.lane := countP_pos_of_getElem? _ _ k t hk hhl
  have hfl : laneFlag s t.lane = true := by
    cases hf : laneFlag s t.lane with
    | true => rfl
    | false => have := (h.L1 t.lane hlt).2 hf; omega
  have h1 : holderN s.ths t.lane = 1 := (h.L1 t.lane hlt).1 hfl
  refine ⟨h.npos, by simpa using h.lenP, h.lenL, h.nobad, ?_, ?_, ?_, ?_⟩
  · intro i hi
    have hi : i < s.n := hi
    have e := holderN_set s.ths k i t t' hk
    have : holdsLane i t' = holdsLane i t := by simp [holdsLane, hh, hh', hl']
    rw [this] at e
    have := h.L1 i hi
    exact ⟨fun hf => by have := this.1 hf; show holderN (s.ths.set k t') i = 1; omega,
           fun hf => by have := this.2 hf; show holderN (s.ths.set k t') i = 0; omega⟩
  · intro j u hj
    simp only at hj
    by_cases e : k = j
    · subst e
      rw [List.getElem?_set_self (lt_of_getElem? hk)] at hj
      cases hj
      exact ThOK_congr _ _ t' rfl (fun _ => rfl) (fun _ => rfl) hok
    · rw [List.getElem?_set_ne e] at hj
      have hnh := other_holders s.ths t.lane k t (by omega) hk hhl j u (fun x => e x.symm) hj
      refine ThOK_congr s _ u rfl (fun _ => rfl) ?_ (h.L2 j u hj)
      intro hu
      have hne : t.lane ≠ u.lane := by
        intro e2; simp [holdsLane, hu, e2] at hnh
      simp only [bit]
      rw [getD_set_ne _ _ _ _ _ hne]
  · intro i hi hfi
    have hi : i < s.n := hi
    by_cases hij : t.lane = i
    · subst hij
      simp only [laneFlag] at hfi hfl
      rw [hfl] at hfi; exact absurd hfi (by simp)
    · simp only [bit, getD_set_ne _ _ _ _ _ hij]
      exact h.L3 i hi hfi
  · intro x
    have e1 := count_flatten_set s.ths (fun t => t.out.filterMap id) k t t' x hk
    have e2 := count_flatten_set s.ths (fun t => t.res.toList) k t t' x hk
    have := h.C x
    have := hc x
    simp only [tOut, tRes] at *
    omega

/-- the holder of lane `i` releases the mutex -/
theorem sinv_unlock (s : St) (k : Nat) (t t' : Th) (h : SInv s) (hk : s.ths[k]? = some t)
    (hpc : t.pc = .unlock) (hh' : holds t' = false) (hok : ThOK s t')
    (hc : ∀ x, (t'.out.filterMap id).count x + t'.res.toList.count x = (t.out.filterMap id).count x + t.res.toList.count x) :
    SInv { s with lanes := s.lanes.set t.lane { (s.lanes.getD t.lane {}) with flag := false },
                  bad := s.bad || !(s.lanes.getD t.lane {}).flag, ths := s.ths.set k t' } := by
  have hh : holds t = true := by simp [holds, hpc]
  have htk := h.L2 k t hk
  have hlt : t.lane < s.n := (htk.1 (by rw [hpc]; simp)).1
  have hil : t.lane < s.lanes.length := by rw [h.lenL]; exact hlt
  have hhl : holdsLane t.lane t = true := by simp [holdsLane, hh]
  have hp : 0 < holderN s.ths t.lane := countP_pos_of_getElem? _ _ k t hk hhl
  have hfl : laneFlag s t.lane = true := by
    cases hf : laneFlag s t.lane with
    | true => rfl
    | false => have := (h.L1 t.lane hlt).2 hf; omega
  have h1 : holderN s.ths t.lane = 1 := (h.L1 t.lane hlt).1 hfl
  have hun := (htk.2.2.2.2.2.2.1 hpc).1
  refine ⟨h.npos, h.lenP, by simpa using h.lenL, ?_, ?_, ?_, ?_, ?_⟩
  · simp only [laneFlag] at hfl
    simp only [h.nobad, hfl]; rfl
  · intro i hi
    have hi : i < s.n := hi
    have e := holderN_set s.ths k i t t' hk
    have e0 : holdsLane i t' = false := by simp [holdsLane, hh']
    rw [e0] at e
    simp only [Bool.false_eq_true, if_false] at e
    by_cases hij : t.lane = i
    · subst hij
      rw [hhl] at e
      simp only [if_true] at e
      have hfl' : ((s.lanes.set t.lane { (s.lanes.getD t.lane {}) with flag := false }).getD t.lane {}).flag = false := by
        rw [getD_set_eq _ _ _ _ hil]
      exact ⟨fun hf' => by
               have hf2 : ((s.lanes.set t.lane { (s.lanes.getD t.lane {}) with flag := false }).getD t.lane {}).flag = true := hf'
               rw [hfl'] at hf2; exact absurd hf2 (by simp),
             fun _ => by show holderN (s.ths.set k t') t.lane = 0; omega⟩
    · have : holdsLane i t = false := by simp [holdsLane, hij]
      rw [this] at e
      simp only [Bool.false_eq_true, if_false] at e
      have hL := h.L1 i hi
      have hfe : ((s.lanes.set t.lane { (s.lanes.getD t.lane {}) with flag := false }).getD i {}).flag = laneFlag s i := by
        rw [getD_set_ne _ _ _ _ _ hij]; rfl
      exact ⟨fun hf' => by
               have hf2 : ((s.lanes.set t.lane { (s.lanes.getD t.lane {}) with flag := false }).getD i {}).flag = true := hf'
               rw [hfe] at hf2; have := hL.1 hf2; show holderN (s.ths.set k t') i = 1; omega,
             fun hf' => by
               have hf2 : ((s.lanes.set t.lane { (s.lanes.getD t.lane {}) with flag := false }).getD i {}).flag = false := hf'
               rw [hfe] at hf2; have := hL.2 hf2; show holderN (s.ths.set k t') i = 0; omega⟩
  · intro j u hj
    simp only at hj
    have hqs : ∀ (u : Th) (b : Bool), ((s.lanes.set t.lane { flag := b, q := (s.lanes.getD t.lane {}).q }).getD u.lane {}).q =
        laneQ s u.lane := by
      intro u b
      simp only [laneQ]
      by_cases e2 : t.lane = u.lane
      · rw [← e2, getD_set_eq _ _ _ _ hil]
      · rw [getD_set_ne _ _ _ _ _ e2]
    by_cases e : k = j
    · subst e
      rw [List.getElem?_set_self (lt_of_getElem? hk)] at hj
      cases hj
      exact ThOK_congr s _ t' rfl (fun _ => hqs t' false) (fun _ => rfl) hok
    · rw [List.getElem?_set_ne e] at hj
      exact ThOK_congr s _ u rfl (fun _ => hqs u false) (fun _ => rfl) (h.L2 j u hj)
  · intro i hi hfi
    have hi : i < s.n := hi
    by_cases hij : t.lane = i
    · subst hij
      simp only [laneQ, bit, getD_set_eq _ _ _ _ hil]
      exact hun
    · simp only [laneFlag, laneQ, bit, getD_set_ne _ _ _ _ _ hij] at hfi ⊢
      exact h.L3 i hi hfi
  · intro x
    have e1 := count_flatten_set s.ths (fun t => t.out.filterMap id) k t t' x hk
    have e2 := count_flatten_set s.ths (fun t => t.res.toList) k t t' x hk
    have hl : s.lanes[t.lane]? = some (s.lanes.getD t.lane {}) := by
      simp [List.getD_eq_getElem?_getD, hil]
    have e3 := count_flatten_set s.lanes (fun l => l.q.filterMap id) t.lane _ { (s.lanes.getD t.lane {}) with flag := false } x hl
    have := h.C x
    have := hc x
    simp only [tOut, tRes, inLanes'] at *
    omega

end TbbVerif.C01.Stream
