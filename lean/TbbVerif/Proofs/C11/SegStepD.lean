/- C11 segment-table protocol, failure-free runs: one step preserves the table invariants — the long table, once installed,
   agrees with every non-null embedded slot (no publication into the stale embedded table is lost); what the switching thread
   waited for; no failure tags; slots beyond the embedded table stay empty. -/
import TbbVerif.Proofs.C11.SegCross

namespace TbbVerif.C11.Seg
open TbbVerif.C11 (segIndex segBase segSize Op tiles)
open TbbVerif.Generated.C11

/-- what a changing write into the embedded table contradicts once the table is switched -/
theorem no_emb_change_after_switch (s : St) (D : DInv s) (j : Nat) (t : Th) (ht : s.ths[j]? = some t) (k : Nat)
    (hw : t.embWrite k) (hnull : slot s.sh 0 k = .null) (hsw : s.sh.tptr ≠ 0) : False := by
  have hB := D.g.locB j t ht
  have hD := D.d1 j t ht
  rcases D.switched hsw with ⟨hfb, h00⟩ | ⟨a, b, hab, ha8, hb8, hall⟩
  · rcases hw with ⟨hpc, hct, rfl⟩ | ⟨hpc, hct, rfl⟩ | ⟨hpc, hct, rfl⟩
    · exact h00 hnull
    · have hf3 := (hB.fill hpc).2.2 hct
      have hfbl : t.fbl = s.sh.fb := hD.fbl (Or.inl ⟨by rw [hpc]; rfl, by rw [hpc]; simp⟩)
      omega
    · obtain ⟨_, ho2⟩ := hD.owner (by rcases hpc with h | h; exact Or.inr h; exact Or.inl h)
      have hfbl : t.fbl = s.sh.fb := hD.fbl (Or.inl ⟨by rcases hpc with h | h <;> rw [h] <;> rfl, by rcases hpc with h | h <;> rw [h] <;> simp⟩)
      have hk3 := owner_emb_lt3 s D j t ht hpc hct
      omega
  · obtain ⟨h1, h2⟩ := embw s D j t ht k hw a b hab ha8 hb8
    exact hall k h2 h1 hnull

theorem copy_step (s : St) (D : DInv s) (tid : Nat) (t : Th) (ht : s.ths[tid]? = some t) (a : Acc) (ha : accOf t = some a) :
    (performS s.sh a).tptr ≠ 0 → ∀ k, slot (performS s.sh a) 0 k ≠ .null → slot (performS s.sh a) 1 k = slot (performS s.sh a) 0 k := by
  have hB := D.g.locB tid t ht
  have hD1 := D.d1 tid t ht
  have hD2 := D.d2 tid t ht
  intro htp k hk
  cases a with
  | casTptr d c0 c1 c2 =>
    by_cases hsw : s.sh.tptr = 0 ∧ d ≠ 0
    · have hcp := switch_copies s D tid t ht d c0 c1 c2 ha hsw.1 hsw.2 k
      have e0 : slot (performS s.sh (.casTptr d c0 c1 c2)) 0 k = slot s.sh 0 k := by simp [slot_performS]
      have e1 : slot (performS s.sh (.casTptr d c0 c1 c2)) 1 k = [c0, c1, c2].getD k .null := by
        simp [slot_performS, hsw.1, hsw.2]
      rw [e0, e1, hcp]
    · have e0 : slot (performS s.sh (.casTptr d c0 c1 c2)) 0 k = slot s.sh 0 k := by simp [slot_performS]
      have e1 : slot (performS s.sh (.casTptr d c0 c1 c2)) 1 k = slot s.sh 1 k := by
        rw [slot_performS]; simp only; rw [if_neg]; intro h; exact hsw ⟨h.1, h.2.1⟩
      have etp : (performS s.sh (.casTptr d c0 c1 c2)).tptr = s.sh.tptr := by
        rw [tptr_performS]; simp only; rw [if_neg hsw]
      rw [e0] at hk; rw [etp] at htp
      rw [e0, e1]; exact D.copy htp k hk
  | storeSlot T0 k0 v =>
    have etp : (performS s.sh (.storeSlot T0 k0 v)).tptr = s.sh.tptr := by rw [tptr_performS]
    rw [etp] at htp
    by_cases hk0 : k = k0
    · subst hk0
      by_cases hT0 : T0 = 0
      · subst hT0
        have e0 : slot (performS s.sh (.storeSlot 0 k v)) 0 k = v := by simp [slot_performS]
        have e1 : slot (performS s.sh (.storeSlot 0 k v)) 1 k = slot s.sh 1 k := by simp [slot_performS]
        rw [e0] at hk
        rw [e0, e1]
        -- a write into the embedded table while the long table is installed
        rcases store_once s D tid t ht 0 k v ha with hnull | hsame
        · rcases accOf_storeSlot t 0 k v ha with ⟨hp, hT, hkk, _⟩ | ⟨hp, _, hkk, hv⟩ | ⟨hp, hT, hkk, _⟩ | hp | hp
          · exact absurd (no_emb_change_after_switch s D tid t ht k (Or.inr (Or.inl ⟨hp, hT.symm, hkk⟩)) hnull htp) id
          · -- kMirror: the table the winner filled first already holds the pointer
            have hm := hD2.mir1 hp k (by have := hB.mirror hp; omega) (by have := hB.mirror hp; omega)
            by_cases hc : t.ctab = 0
            · rw [hc] at hm; rw [hm] at hnull; simp [ptrOf] at hnull
            · rw [slot_nz _ _ _ hc] at hm; rw [hm, hv]
          · exact absurd (no_emb_change_after_switch s D tid t ht k (Or.inr (Or.inr ⟨Or.inl hp, hT.symm, hkk⟩)) hnull htp) id
          · exact absurd hp hD1.nofail.2.2.1
          · exact absurd hp hD1.nofail.2.2.2
        · have hne : slot s.sh 0 k ≠ .null := by rw [hsame]; exact hk
          rw [D.copy htp k hne, hsame]
      · have e0 : slot (performS s.sh (.storeSlot T0 k v)) 0 k = slot s.sh 0 k := by simp [slot_performS, hT0]
        have e1 : slot (performS s.sh (.storeSlot T0 k v)) 1 k = v := by simp [slot_performS, hT0]
        rw [e0] at hk
        rw [e0, e1]
        have hc := D.copy htp k hk
        rcases store_once s D tid t ht T0 k v ha with hnull | hsame
        · rw [slot_nz _ _ _ hT0, hc] at hnull; exact absurd hnull hk
        · rw [slot_nz _ _ _ hT0, hc] at hsame; exact hsame.symm
    · have e0 : slot (performS s.sh (.storeSlot T0 k0 v)) 0 k = slot s.sh 0 k := by simp [slot_performS, hk0]
      have e1 : slot (performS s.sh (.storeSlot T0 k0 v)) 1 k = slot s.sh 1 k := by simp [slot_performS, hk0]
      rw [e0] at hk
      rw [e0, e1]; exact D.copy htp k hk
  | casSlot T0 k0 v =>
    have etp : (performS s.sh (.casSlot T0 k0 v)).tptr = s.sh.tptr := by rw [tptr_performS]
    rw [etp] at htp
    by_cases hw : slot s.sh T0 k0 = .null ∧ k = k0
    · obtain ⟨hnull, rfl⟩ := hw
      rcases accOf_casSlot t T0 k v ha with ⟨hp, hT, hkk, _⟩ | hp
      · subst hkk
        by_cases hT0 : T0 = 0
        · subst hT0
          exact absurd (no_emb_change_after_switch s D tid t ht 0 (Or.inl ⟨hp, hT.symm, rfl⟩) hnull htp) id
        · -- the CAS goes to the long table: the embedded slot 0 must be empty
          have e0 : slot (performS s.sh (.casSlot T0 0 v)) 0 0 = slot s.sh 0 0 := by simp [slot_performS, hT0]
          rw [e0] at hk
          have := D.copy htp 0 hk
          rw [slot_nz _ _ _ hT0] at hnull
          rw [this] at hnull; exact absurd hnull hk
      · exact absurd hp hD1.nofail.2.1
    · have e0 : slot (performS s.sh (.casSlot T0 k0 v)) 0 k = slot s.sh 0 k := by
        rw [slot_performS]; simp only; rw [if_neg]; intro h; exact hw ⟨h.1, h.2.2⟩
      have e1 : slot (performS s.sh (.casSlot T0 k0 v)) 1 k = slot s.sh 1 k := by
        rw [slot_performS]; simp only; rw [if_neg]; intro h; exact hw ⟨h.1, h.2.2⟩
      rw [e0] at hk
      rw [e0, e1]; exact D.copy htp k hk
  | _ =>
    rw [slot_performS] at hk ⊢
    rw [slot_performS]
    rw [tptr_performS] at htp
    exact D.copy htp k hk

end TbbVerif.C11.Seg
