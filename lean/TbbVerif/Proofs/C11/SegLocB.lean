/- C11 segment-table protocol, general invariants, group B (index/table bounds): the thread-local step. -/
import TbbVerif.Proofs.C11.SegLocB_a
import TbbVerif.Proofs.C11.SegLocB_b

namespace TbbVerif.C11.Seg
open TbbVerif.C11 (segIndex segBase segSize Op tiles)
open TbbVerif.Generated.C11

/-- the thread-local part of a step (shared words fixed) -/
theorem LocB_local (sh : Sh) (t : Th) (r : R)
    (hr : (t.pc = .rTab ∨ t.pc = .wTab ∨ t.pc = .wTab0 ∨ t.pc = .wSpinTab) → r.n = sh.tptr)
    (hx : t.pc = .xCas → r.n ≠ 0)
    (hA : LocA sh t) (h : LocB sh t) : LocB sh (cont t r) := by
  by_cases hS : t.pc.isX = true ∨ t.pc.isK = true
  · exact LocB_local_a sh t r hr hx hA h hS
  · exact LocB_local_b sh t r hr hx hA h hS

end TbbVerif.C11.Seg
