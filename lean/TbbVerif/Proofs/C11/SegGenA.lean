/- C11 segment-table protocol: general invariants (hold with any fault plan), part A:
   table snapshots, my_segment_table is never set to nullptr, monotonic shared state. -/
import TbbVerif.Proofs.C11.SegBasic

namespace TbbVerif.C11.Seg
open TbbVerif.C11 (segIndex segBase segSize Op)
open TbbVerif.Generated.C11

/-- `sh'` is a possible later value of the shared words: the table pointer, once long, is final; a slot of the embedded
table or of the installed long table, once non-null, stays non-null; my_first_block, once non-zero, is final. -/
structure Mono (sh sh' : Sh) : Prop where
  tptr : sh.tptr ≠ 0 → sh'.tptr = sh.tptr
  fb : sh.fb ≠ 0 → sh'.fb = sh.fb
  nn : ∀ T k, (T = 0 ∨ (T = sh.tptr ∧ sh.tptr ≠ 0)) → slot sh T k ≠ .null → slot sh' T k ≠ .null

theorem Mono.refl (sh : Sh) : Mono sh sh := ⟨fun _ => rfl, fun _ => rfl, fun _ _ _ h => h⟩

/-- a value a thread may write into a slot is never null -/
def Acc.writesNonNull : Acc → Prop
  | .storeSlot _ _ v => v ≠ .null
  | .casSlot _ _ v => v ≠ .null
  | _ => True

theorem accOf_writesNonNull (t : Th) (a : Acc) (h : accOf t = some a) : a.writesNonNull := by
  unfold accOf at h
  cases hpc : t.pc <;> simp only [hpc] at h
  all_goals first
    | (cases h; simp [Acc.writesNonNull, ptrOf])
    | (split at h <;> first | (cases h; done) | (cases h; simp [Acc.writesNonNull]; done) | (split at h <;> cases h <;> simp [Acc.writesNonNull]))

theorem perform_mono (sh : Sh) (a : Acc) (h : a.writesNonNull) : Mono sh (performS sh a) := by
  cases a <;> simp only [performS]
  case loadSize => exact Mono.refl _
  case faddSize => exact ⟨fun _ => rfl, fun _ => rfl, fun _ _ _ h => h⟩
  case casSize e d =>
    split
    · exact ⟨fun _ => rfl, fun _ => rfl, fun _ _ _ h => h⟩
    · exact Mono.refl _
  case loadFb => exact Mono.refl _
  case casFb d =>
    split
    · rename_i h0; exact ⟨fun _ => rfl, fun hne => absurd h0 hne, fun _ _ _ h => h⟩
    · exact Mono.refl _
  case loadTptr => exact Mono.refl _
  case casTptr d c0 c1 c2 =>
    split
    · rename_i h0
      split
      · exact ⟨fun _ => rfl, fun _ => rfl, fun _ _ _ h => h⟩
      · refine ⟨fun hne => absurd h0 hne, fun _ => rfl, ?_⟩
        intro T k hT hnn
        rcases hT with rfl | ⟨_, hne⟩
        · simpa [slot] using hnn
        · exact absurd h0 hne
    · exact Mono.refl _
  case loadFailed => exact Mono.refl _
  case storeFailed => exact ⟨fun _ => rfl, fun _ => rfl, fun _ _ _ h => h⟩
  case loadSlot T k o => exact ⟨by simp, by simp, by simp⟩
  case storeSlot T k v =>
    refine ⟨by simp, by simp, ?_⟩
    intro T' k' _ hnn
    rw [slot_pubS, slot_setSlot]
    split
    · exact h
    · simpa using hnn
  case casSlot T k v =>
    split
    · refine ⟨by simp, by simp, ?_⟩
      intro T' k' _ hnn
      rw [slot_pubS, slot_setSlot]
      split
      · exact h
      · simpa using hnn
    · exact ⟨by simp, by simp, by simp⟩
  case alloc n f sg =>
    split
    · exact ⟨fun _ => rfl, fun _ => rfl, fun _ _ _ h => h⟩
    · exact ⟨fun _ => rfl, fun _ => rfl, fun _ _ _ h => h⟩
  case free a => exact ⟨fun _ => rfl, fun _ => rfl, fun _ _ _ h => h⟩
  case talloc =>
    split
    · exact ⟨fun _ => rfl, fun _ => rfl, fun _ _ _ h => h⟩
    · exact ⟨fun _ => rfl, fun _ => rfl, fun _ _ _ h => h⟩
  case tfree => exact ⟨fun _ => rfl, fun _ => rfl, fun _ _ _ h => h⟩
  case ctor idx p =>
    split
    · exact ⟨fun _ => rfl, fun _ => rfl, fun _ _ _ h => h⟩
    · split <;> exact ⟨fun _ => rfl, fun _ => rfl, fun _ _ _ h => h⟩

end TbbVerif.C11.Seg
