/- C11 segment-table protocol: what one access does to each component of the shared state, and which program counters
   perform which writes (inversion lemmas for `accOf`). -/
import TbbVerif.Proofs.C11.SegGen
import TbbVerif.Proofs.C11.SegDeepLoc1
import TbbVerif.Proofs.C11.SegDeepLoc2

namespace TbbVerif.C11.Seg
open TbbVerif.C11 (segIndex segBase segSize Op tiles)
open TbbVerif.Generated.C11

/-! ### inversion of `accOf` -/

theorem accOf_storeSlot (t : Th) (T k : Nat) (v : Val) (h : accOf t = some (.storeSlot T k v)) :
    (t.pc = .kFill ∧ T = t.ctab ∧ k = t.i ∧ v = ptrOf t) ∨
    (t.pc = .kMirror ∧ T = 0 ∧ k = t.i ∧ v = ptrOf t) ∨
    (t.pc = .kStoreSeg ∧ T = t.ctab ∧ k = t.cseg ∧ v = .ptr t.newSeg (segBase t.cseg)) ∨
    (t.pc = .kTagStore) ∨ (t.pc = .kTagSeg) := by
  unfold accOf at h
  cases hpc : t.pc <;> simp only [hpc] at h
  all_goals first
    | (cases h; simp; done)
    | (cases h; done)
    | (split at h <;> first | (cases h; done) | (split at h <;> cases h))

theorem accOf_casSlot (t : Th) (T k : Nat) (v : Val) (h : accOf t = some (.casSlot T k v)) :
    (t.pc = .kCasZero ∧ T = t.ctab ∧ k = 0 ∧ v = ptrOf t) ∨ (t.pc = .kTagCas) := by
  unfold accOf at h
  cases hpc : t.pc <;> simp only [hpc] at h
  all_goals first
    | (cases h; simp; done)
    | (cases h; done)
    | (split at h <;> first | (cases h; done) | (split at h <;> cases h))

theorem accOf_alloc (t : Th) (n : Nat) (f : Bool) (sg : Nat) (h : accOf t = some (.alloc n f sg)) :
    (t.pc = .kAllocFb ∧ n = segSize t.fbl ∧ f = true ∧ sg = 0) ∨
    (t.pc = .kAllocSeg ∧ n = segSize t.cseg ∧ f = false ∧ sg = t.cseg) := by
  unfold accOf at h
  cases hpc : t.pc <;> simp only [hpc] at h
  all_goals first
    | (cases h; simp; done)
    | (cases h; done)
    | (split at h <;> first | (cases h; done) | (split at h <;> cases h))

theorem accOf_free (t : Th) (a : Nat) (h : accOf t = some (.free a)) : t.pc = .kFreeFb ∧ a = t.newSeg := by
  unfold accOf at h
  cases hpc : t.pc <;> simp only [hpc] at h
  all_goals first
    | (cases h; simp; done)
    | (cases h; done)
    | (split at h <;> first | (cases h; done) | (split at h <;> cases h))

theorem accOf_ctor (t : Th) (i : Nat) (p : Val) (h : accOf t = some (.ctor i p)) : t.pc = .construct ∧ i = t.idx ∧ p = t.segv := by
  unfold accOf at h
  cases hpc : t.pc <;> simp only [hpc] at h
  all_goals first
    | (cases h; simp; done)
    | (cases h; done)
    | (split at h <;> first | (cases h; done) | (split at h <;> cases h))

theorem accOf_casFb (t : Th) (d : Nat) (h : accOf t = some (.casFb d)) :
    (t.pc = .pAfbCas ∧ d = defaultFirstBlockSize) ∨ (t.pc = .gAfbCas ∧ d = t.segEnd + 1) := by
  unfold accOf at h
  cases hpc : t.pc <;> simp only [hpc] at h
  all_goals first
    | (cases h; simp; done)
    | (cases h; done)
    | (split at h <;> first | (cases h; done) | (split at h <;> cases h))

theorem accOf_casSize (t : Th) (e d : Nat) (h : accOf t = some (.casSize e d)) : t.pc = .tCas ∧ e = t.old ∧ d = t.target := by
  unfold accOf at h
  cases hpc : t.pc <;> simp only [hpc] at h
  all_goals first
    | (cases h; simp; done)
    | (cases h; done)
    | (split at h <;> first | (cases h; done) | (split at h <;> cases h))

theorem accOf_faddSize (t : Th) (d : Nat) (h : accOf t = some (.faddSize d)) :
    t.pc = .idle ∧ ((∃ rest, t.ops = .pushBack :: rest ∧ d = 1) ∨ (∃ rest, t.ops = .growBy d :: rest ∧ d ≠ 0)) := by
  unfold accOf at h
  cases hpc : t.pc <;> simp only [hpc] at h
  case idle =>
    refine ⟨rfl, ?_⟩
    split at h
    · cases h
    · cases h; exact Or.inl ⟨_, ‹_›, rfl⟩
    · rename_i d' rest hops
      split at h
      · cases h
      · rename_i hd; cases h; exact Or.inr ⟨_, hops, hd⟩
    · cases h
  all_goals first
    | (cases h; done)
    | (split at h <;> first | (cases h; done) | (split at h <;> cases h))

theorem accOf_storeFailed (t : Th) (h : accOf t = some .storeFailed) : t.pc = .xFailStore := by
  unfold accOf at h
  cases hpc : t.pc <;> simp only [hpc] at h
  all_goals first
    | rfl
    | (cases h; done)
    | (split at h <;> first | (cases h; done) | (split at h <;> cases h))

/-! ### the effect of an access on each component -/

theorem slot_performS (sh : Sh) (a : Acc) (T' k' : Nat) :
    slot (performS sh a) T' k' =
      match a with
      | .storeSlot T k v => if (T = 0 ↔ T' = 0) ∧ k' = k then v else slot sh T' k'
      | .casSlot T k v => if slot sh T k = .null ∧ (T = 0 ↔ T' = 0) ∧ k' = k then v else slot sh T' k'
      | .casTptr d c0 c1 c2 => if sh.tptr = 0 ∧ d ≠ 0 ∧ T' ≠ 0 then [c0, c1, c2].getD k' .null else slot sh T' k'
      | _ => slot sh T' k' := by
  cases a <;> simp only [performS]
  case casSize => split <;> rfl
  case casFb => split <;> rfl
  case casTptr d c0 c1 c2 =>
    by_cases h0 : sh.tptr = 0 <;> by_cases hd : d = 0 <;> by_cases hT : T' = 0 <;> simp [h0, hd, hT, slot]
  case loadSlot => simp
  case storeSlot => simp
  case casSlot T k v =>
    by_cases h0 : slot sh T k = .null
    · simp [h0]
    · simp [h0]
  case alloc => split <;> rfl
  case talloc => split <;> rfl
  case ctor idx p => split <;> (try split) <;> rfl
  all_goals rfl

theorem tptr_performS (sh : Sh) (a : Acc) :
    (performS sh a).tptr = match a with
      | .casTptr d _ _ _ => if sh.tptr = 0 ∧ d ≠ 0 then d else sh.tptr
      | _ => sh.tptr := by
  cases a <;> simp only [performS]
  case casSize => split <;> rfl
  case casFb => split <;> rfl
  case casTptr d c0 c1 c2 => by_cases h0 : sh.tptr = 0 <;> by_cases hd : d = 0 <;> simp [h0, hd]
  case loadSlot => simp
  case storeSlot => simp
  case casSlot => split <;> simp
  case alloc => split <;> rfl
  case talloc => split <;> rfl
  case ctor idx p => split <;> (try split) <;> rfl
  all_goals rfl

theorem fb_performS (sh : Sh) (a : Acc) :
    (performS sh a).fb = match a with
      | .casFb d => if sh.fb = 0 then d else sh.fb
      | _ => sh.fb := by
  cases a <;> simp only [performS]
  case casSize => split <;> rfl
  case casFb => split <;> simp_all
  case casTptr d c0 c1 c2 => split <;> (try split) <;> rfl
  case loadSlot => simp
  case storeSlot => simp
  case casSlot => split <;> simp
  case alloc => split <;> rfl
  case talloc => split <;> rfl
  case ctor idx p => split <;> (try split) <;> rfl
  all_goals rfl

theorem log_performS (sh : Sh) (a : Acc) :
    (performS sh a).log = match a with
      | .faddSize d => sh.log ++ [(sh.size, sh.size + d)]
      | .casSize e d => if sh.size = e then sh.log ++ [(e, d)] else sh.log
      | _ => sh.log := by
  cases a <;> simp only [performS]
  case casSize => split <;> rfl
  case casFb => split <;> rfl
  case casTptr d c0 c1 c2 => split <;> (try split) <;> rfl
  case loadSlot => simp
  case storeSlot => simp
  case casSlot => split <;> simp
  case alloc => split <;> rfl
  case talloc => split <;> rfl
  case ctor idx p => split <;> (try split) <;> rfl
  all_goals rfl

theorem size_performS (sh : Sh) (a : Acc) :
    (performS sh a).size = match a with
      | .faddSize d => sh.size + d
      | .casSize e d => if sh.size = e then d else sh.size
      | _ => sh.size := by
  cases a <;> simp only [performS]
  case casSize => split <;> rfl
  case casFb => split <;> rfl
  case casTptr d c0 c1 c2 => split <;> (try split) <;> rfl
  case loadSlot => simp
  case storeSlot => simp
  case casSlot => split <;> simp
  case alloc => split <;> rfl
  case talloc => split <;> rfl
  case ctor idx p => split <;> (try split) <;> rfl
  all_goals rfl

theorem cons_performS (sh : Sh) (a : Acc) :
    (performS sh a).cons = match a with
      | .ctor idx (.ptr al s) => if (sh.ctorCalls + 1) ∈ sh.fCtor then sh.cons else sh.cons ++ [(idx, al, idx - s)]
      | _ => sh.cons := by
  cases a <;> simp only [performS]
  case casSize => split <;> rfl
  case casFb => split <;> rfl
  case casTptr d c0 c1 c2 => split <;> (try split) <;> rfl
  case loadSlot => simp
  case storeSlot => simp
  case casSlot => split <;> simp
  case alloc => split <;> rfl
  case talloc => split <;> rfl
  case ctor idx p => cases p <;> simp <;> split <;> rfl
  all_goals rfl

theorem allocs_performS (sh : Sh) (a : Acc) :
    (performS sh a).allocs = match a with
      | .storeSlot _ _ v => publish sh.allocs v
      | .casSlot T k v => if slot sh T k = .null then publish sh.allocs v else sh.allocs
      | .alloc n f sg => if (sh.allocCalls + 1) ∈ sh.fAlloc then sh.allocs else sh.allocs ++ [{ n := n, first := f, seg := sg, st := .held }]
      | .free al => (match sh.allocs[al]? with
                     | some e => sh.allocs.set al { e with st := .freed }
                     | none => sh.allocs)
      | _ => sh.allocs := by
  cases a <;> simp only [performS]
  case casSize => split <;> rfl
  case casFb => split <;> rfl
  case casTptr d c0 c1 c2 => split <;> (try split) <;> rfl
  case loadSlot => simp
  case storeSlot => simp
  case casSlot => split <;> simp
  case alloc => split <;> rfl
  case talloc => split <;> rfl
  case ctor idx p => split <;> (try split) <;> rfl
  all_goals rfl

theorem nofault_performS (sh : Sh) (a : Acc) (h : NoFault sh) (hs : a ≠ .storeFailed) : NoFault (performS sh a) := by
  obtain ⟨h1, h2, h3, h4⟩ := h
  cases a <;> simp only [performS]
  case storeFailed => exact absurd rfl hs
  case casSize => split <;> exact ⟨h1, h2, h3, h4⟩
  case casFb => split <;> exact ⟨h1, h2, h3, h4⟩
  case casTptr d c0 c1 c2 => split <;> (try split) <;> exact ⟨h1, h2, h3, h4⟩
  case loadSlot => exact ⟨by simpa using h1, by simpa using h2, by simpa using h3, by simpa using h4⟩
  case storeSlot => exact ⟨by simpa using h1, by simpa using h2, by simpa using h3, by simpa using h4⟩
  case casSlot => split <;> exact ⟨by simpa using h1, by simpa using h2, by simpa using h3, by simpa using h4⟩
  case alloc => split <;> exact ⟨h1, h2, h3, h4⟩
  case talloc => split <;> exact ⟨h1, h2, h3, h4⟩
  case ctor idx p => split <;> (try split) <;> exact ⟨h1, h2, h3, h4⟩
  all_goals exact ⟨h1, h2, h3, h4⟩

end TbbVerif.C11.Seg
