/- C11 segment-table protocol, general invariants, group B (index/table bounds): the thread-local step. -/
import TbbVerif.Proofs.C11.SegDefs

namespace TbbVerif.C11.Seg
open TbbVerif.C11 (segIndex segBase segSize Op tiles)
open TbbVerif.Generated.C11

set_option maxHeartbeats 4000000 in
/-- the thread-local part of a step (shared words fixed) -/
theorem LocB_local_a (sh : Sh) (t : Th) (r : R)
    (hr : (t.pc = .rTab ∨ t.pc = .wTab ∨ t.pc = .wTab0 ∨ t.pc = .wSpinTab) → r.n = sh.tptr)
    (hx : t.pc = .xCas → r.n ≠ 0)
    (hA : LocA sh t) (h : LocB sh t)
    (hS : t.pc.isX = true ∨ t.pc.isK = true) : LocB sh (cont t r) := by
  obtain ⟨a1, a2, a3, a4, a5, a6, a7, a8⟩ := hA
  obtain ⟨b1, b2, b3, b4, b5, b6, b7, b8, b9, b10, b11, b12, b13, b14⟩ := h
  have e1 := segSize_le8 t.fbl
  have e2 := segBase_0
  have e3 := segBase_succ_lt8 t.i
  cases hpc : t.pc
  all_goals (try (exfalso; simp [hpc, Pc.isX, Pc.isK] at hS; done))
  all_goals (
    (try simp only [hpc, reduceCtorEq, false_implies, IsEmpty.forall_iff, false_or, or_false] at a6 a7 a8 b6 b7 b8 b9 b10 b11 b12 b13 b14)
    (try simp [hpc, Pc.claim] at b1)
    (try simp [hpc, Th.inSubPost, Th.inEn, Pc.isK, Pc.isX] at b2)
    (try simp [hpc, Th.inGrowPost, Pc.claim, Pc.isGpre, Pc.isX] at b3)
    (try simp [hpc, Th.inEn, Pc.isK, Pc.isX, Pc.isG] at b4)
    (try simp [hpc, Pc.isKpre] at b5))
  all_goals unfold_cont hpc
  all_goals (repeat' split)
  all_goals (refine ⟨?_, ?_, ?_, ?_, ?_, ?_, ?_, ?_, ?_, ?_, ?_, ?_, ?_, ?_⟩)
  all_goals loc_close

end TbbVerif.C11.Seg
