/- C11 segment-table protocol: the general invariant (any number of threads, any programs, any schedule, ANY fault plan):
   snapshots are the embedded or the installed long table, my_segment_table is never nullptr, embedded-table accesses stay
   in bounds, elements are constructed only through observed real segment pointers. -/
import TbbVerif.Proofs.C11.SegOob
import TbbVerif.Proofs.C11.SegLocC

namespace TbbVerif.C11.Seg
open TbbVerif.C11 (segIndex segBase segSize Op)
open TbbVerif.Generated.C11

theorem performR_loadSlot (sh : Sh) (T k : Nat) (o : Ord) : (performR sh (.loadSlot T k o)).v = slot (performS sh (.loadSlot T k o)) T k := by
  simp [performR, performS]

theorem LocC_own (sh : Sh) (t : Th) (a : Acc) (ha : accOf t = some a) (hA : LocA sh t) (hB : LocB sh t) (h : LocC sh t) :
    LocC (performS sh a) (cont t (performR sh a)) := by
  have m := perform_mono sh a (accOf_writesNonNull t a ha)
  apply LocC_local
  · intro T k o h2; rw [ha] at h2; cases h2; exact performR_loadSlot sh T k o
  · intro T k v h2; rw [ha] at h2; cases h2; simp [performS]
  · intro T k v h2 hok; rw [ha] at h2; cases h2
    simp only [performR] at hok
    simp only [performS]
    split
    · simp
    · rename_i hne; simp [hne] at hok
  · exact LocA_mono sh _ t m hA
  · exact LocB_mono sh _ t m hB
  · exact LocC_mono sh _ t m hA h

/-- an element is constructed only through a real segment pointer -/
theorem wild_own (sh : Sh) (t : Th) (a : Acc) (ha : accOf t = some a) (h : LocC sh t) (hw : sh.wild = false) :
    (performS sh a).wild = false := by
  cases a
  case ctor idx p =>
    have hpc : t.pc = .construct ∧ p = t.segv := by
      unfold accOf at ha
      cases hpc : t.pc <;> simp only [hpc] at ha
      all_goals first
        | (cases ha; exact ⟨rfl, rfl⟩)
        | (cases ha; done)
        | (split at ha <;> first | (cases ha; done) | (split at ha <;> cases ha))
    obtain ⟨a', s', hp⟩ := h.cons hpc.1
    simp only [performS]
    split
    · exact hw
    · rw [hpc.2, hp]; exact hw
  all_goals (try simp only [performS])
  all_goals first
    | exact hw
    | (simp only [touch_wild, setSlot_wild, pubS_wild]; exact hw)
    | (split <;> first | exact hw | (simp only [touch_wild, setSlot_wild, pubS_wild]; exact hw) | (split <;> exact hw))


structure GInv (s : St) : Prop where
  locA : ∀ (j : Nat) (u : Th), s.ths[j]? = some u → LocA s.sh u
  locB : ∀ (j : Nat) (u : Th), s.ths[j]? = some u → LocB s.sh u
  locC : ∀ (j : Nat) (u : Th), s.ths[j]? = some u → LocC s.sh u
  badTab : s.sh.badTab = false
  oobE : s.sh.oobE = false
  wild : s.sh.wild = false

theorem GInv_init (progs : List (List Op)) (fa ft fc : List Nat) : GInv (sysF progs fa ft fc).init := by
  refine ⟨?_, ?_, ?_, rfl, rfl, rfl⟩
  · intro j u hu
    simp [sysF, List.getElem?_map] at hu
    obtain ⟨p, _, rfl⟩ := hu
    exact LocA_init _ p rfl
  · intro j u hu
    simp [sysF, List.getElem?_map] at hu
    obtain ⟨p, _, rfl⟩ := hu
    exact LocB_init _ p
  · intro j u hu
    simp [sysF, List.getElem?_map] at hu
    obtain ⟨p, _, rfl⟩ := hu
    exact LocC_init _ p

theorem GInv_step (s : St) (tid : Tid) (h : GInv s) : GInv (step s tid) := by
  rcases step_eq s tid with he | ⟨t, a, ht, ha, he⟩
  · rw [he]; exact h
  · rw [he]
    have m := perform_mono s.sh a (accOf_writesNonNull t a ha)
    have hA := h.locA tid t ht
    have hB := h.locB tid t ht
    have hC := h.locC tid t ht
    refine ⟨?_, ?_, ?_, ?_, ?_, ?_⟩
    · intro j u hu
      rcases get_set _ _ _ _ _ hu with ⟨_, rfl⟩ | ⟨_, hu'⟩
      · exact LocA_own _ _ _ ha hA
      · exact LocA_mono _ _ _ m (h.locA j u hu')
    · intro j u hu
      rcases get_set _ _ _ _ _ hu with ⟨_, rfl⟩ | ⟨_, hu'⟩
      · exact LocB_own _ _ _ ha hA hB
      · exact LocB_mono _ _ _ m (h.locB j u hu')
    · intro j u hu
      rcases get_set _ _ _ _ _ hu with ⟨_, rfl⟩ | ⟨_, hu'⟩
      · exact LocC_own _ _ _ ha hA hB hC
      · exact LocC_mono _ _ _ m (h.locA j u hu') (h.locC j u hu')
    · exact badTab_own _ _ _ ha hA h.badTab
    · cases ho : (performS s.sh a).oobE with
      | false => rfl
      | true =>
        rcases performS_oobE _ _ ho with h1 | ⟨k, hk, hk3⟩
        · rw [h.oobE] at h1; cases h1
        · have := acc_in_bounds _ _ _ ha hA hB k hk; omega
    · exact wild_own _ _ _ ha hC h.wild

theorem GInv_reachable (progs : List (List Op)) (fa ft fc : List Nat) (sched : List Tid) :
    GInv ((sysF progs fa ft fc).run sched) :=
  Sys.inv_run _ GInv (GInv_init progs fa ft fc) (fun s t h => GInv_step s t h) sched

end TbbVerif.C11.Seg
