/- C11 segment-table protocol: no access through an embedded-table snapshot leaves the embedded table (with any fault plan). -/
import TbbVerif.Proofs.C11.SegLocA
import TbbVerif.Proofs.C11.SegLocB

namespace TbbVerif.C11.Seg
open TbbVerif.C11 (segIndex segBase segSize Op)
open TbbVerif.Generated.C11

theorem LocB_own (sh : Sh) (t : Th) (a : Acc) (ha : accOf t = some a) (hA : LocA sh t) (h : LocB sh t) :
    LocB (performS sh a) (cont t (performR sh a)) := by
  apply LocB_mono sh _ _ (perform_mono sh a (accOf_writesNonNull t a ha))
  apply LocB_local sh t _ _ _ hA h
  · intro hp
    unfold accOf at ha
    rcases hp with hp | hp | hp | hp <;> simp only [hp] at ha <;> cases ha <;> rfl
  · intro hp
    unfold accOf at ha
    simp only [hp] at ha
    cases ha
    simp only [performR]
    have := hA.casNull hp
    split
    · rename_i h0; exact fun hn => this hn h0
    · rename_i h0; exact h0

/-- the slot an access touches, if any -/
def Acc.slotOf : Acc → Option (Nat × Nat)
  | .loadSlot T k _ => some (T, k)
  | .storeSlot T k _ => some (T, k)
  | .casSlot T k _ => some (T, k)
  | _ => none

theorem performS_oobE (sh : Sh) (a : Acc) (h : (performS sh a).oobE = true) :
    sh.oobE = true ∨ ∃ k, a.slotOf = some (0, k) ∧ 3 ≤ k := by
  have key : ∀ T k, (touch sh T k).oobE = true → sh.oobE = true ∨ (T = 0 ∧ 3 ≤ k) := by
    intro T k ht
    unfold touch at ht
    split at ht
    · exact Or.inl ht
    · rename_i hk
      split at ht
      · rename_i hT; subst hT
        simp [nSlots, pointersPerEmbeddedTable] at hk
        exact Or.inr ⟨rfl, hk⟩
      · exact Or.inl ht
  cases a
  case loadSlot T k o =>
    simp only [performS] at h
    rcases key T k h with h1 | ⟨rfl, h2⟩
    · exact Or.inl h1
    · exact Or.inr ⟨k, rfl, h2⟩
  case storeSlot T k v =>
    simp only [performS, pubS_oobE, setSlot_oobE] at h
    rcases key T k h with h1 | ⟨rfl, h2⟩
    · exact Or.inl h1
    · exact Or.inr ⟨k, rfl, h2⟩
  case casSlot T k v =>
    simp only [performS] at h
    split at h
    · simp only [pubS_oobE, setSlot_oobE] at h
      rcases key T k h with h1 | ⟨rfl, h2⟩
      · exact Or.inl h1
      · exact Or.inr ⟨k, rfl, h2⟩
    · rcases key T k h with h1 | ⟨rfl, h2⟩
      · exact Or.inl h1
      · exact Or.inr ⟨k, rfl, h2⟩
  all_goals (try simp only [performS] at h)
  all_goals first
    | exact Or.inl h
    | (left; grind)

/-- every slot access through a snapshot of the embedded table stays inside its three slots -/
theorem acc_in_bounds (sh : Sh) (t : Th) (a : Acc) (ha : accOf t = some a) (hA : LocA sh t) (h : LocB sh t)
    (k : Nat) (hs : a.slotOf = some (0, k)) : k < 3 := by
  obtain ⟨b1, b2, b3, b4, b5, b6, b7, b8, b9, b10, b11, b12, b13, b14⟩ := h
  have l3 := segIndex_lt3
  unfold accOf at ha
  cases hpc : t.pc <;> simp only [hpc] at ha
  case idle => split at ha <;> first | (cases ha; done) | (cases ha; simp [Acc.slotOf] at hs; done) | (split at ha <;> cases ha <;> simp [Acc.slotOf] at hs)
  all_goals (cases ha; simp only [Acc.slotOf] at hs)
  all_goals (try cases hs)
  all_goals (try omega)
  all_goals (try simp only [Option.some.injEq, Prod.mk.injEq] at hs)
  all_goals first
    | grind


end TbbVerif.C11.Seg
