/- C11 segment-table protocol, failure-free runs: every unpublished allocation is held by exactly one thread, which either
   publishes it or gives it back (no leak of a losing first-block allocation) — preserved by a step. -/
import TbbVerif.Proofs.C11.SegStepL4

namespace TbbVerif.C11.Seg
open TbbVerif.C11 (segIndex segBase segSize Op tiles)
open TbbVerif.Generated.C11

/-- a thread only ever publishes or frees its own `new_segment` -/
theorem changes_own (s : St) (D : DInv s) (tid : Nat) (t : Th) (ht : s.ths[tid]? = some t) (a : Acc) (ha : accOf t = some a)
    (x : Nat) (h : (∃ T k sft, a = .storeSlot T k (.ptr x sft) ∨ a = .casSlot T k (.ptr x sft)) ∨ a = .free x) :
    x = t.newSeg ∧ (t.holds = true ∨ ∃ e, s.sh.allocs[x]? = some e ∧ e.st = .pub) := by
  rcases h with ⟨T, k, sft, rfl | rfl⟩ | rfl
  · rcases accOf_storeSlot t T k _ ha with ⟨hpc, _, _, hv⟩ | ⟨hpc, _, _, hv⟩ | ⟨hpc, _, _, hv⟩ | hpc | hpc
    · simp only [ptrOf, Val.ptr.injEq] at hv
      have hwon : slot s.sh t.etab 0 = ptrOf t := by apply (D.d2 tid t ht).won; simp [Th.fbWon, hpc]
      obtain ⟨e2, he2, hp2, _⟩ := D.sl t.etab 0 t.newSeg 0 hwon
      exact ⟨hv.1, Or.inr ⟨e2, by rw [hv.1]; exact he2, hp2⟩⟩
    · simp only [ptrOf, Val.ptr.injEq] at hv
      have hwon : slot s.sh t.etab 0 = ptrOf t := by apply (D.d2 tid t ht).won; simp [Th.fbWon, hpc]
      obtain ⟨e2, he2, hp2, _⟩ := D.sl t.etab 0 t.newSeg 0 hwon
      exact ⟨hv.1, Or.inr ⟨e2, by rw [hv.1]; exact he2, hp2⟩⟩
    · simp only [Val.ptr.injEq] at hv
      exact ⟨hv.1, Or.inl (by simp [Th.holds, hpc])⟩
    · exact absurd hpc (D.d1 tid t ht).nofail.2.2.1
    · exact absurd hpc (D.d1 tid t ht).nofail.2.2.2
  · rcases accOf_casSlot t T k _ ha with ⟨hpc, _, _, hv⟩ | hpc
    · simp only [ptrOf, Val.ptr.injEq] at hv
      exact ⟨hv.1, Or.inl (by simp [Th.holds, hpc])⟩
    · exact absurd hpc (D.d1 tid t ht).nofail.2.1
  · obtain ⟨hpc, rfl⟩ := accOf_free t x ha
    exact ⟨rfl, Or.inl (by simp [Th.holds, hpc])⟩

theorem held_step (s : St) (D : DInv s) (tid : Nat) (t : Th) (ht : s.ths[tid]? = some t) (a : Acc) (ha : accOf t = some a) :
    ∀ (x : Nat) (e : AInfo), (performS s.sh a).allocs[x]? = some e → e.st = .held →
      ∃ (j : Nat) (u : Th), (s.ths.set tid (cont t (performR s.sh a)))[j]? = some u ∧ u.newSeg = x ∧ u.holds = true := by
  intro x e hx hst
  have htl : tid < s.ths.length := (List.getElem?_eq_some_iff.mp ht).1
  have hself : (s.ths.set tid (cont t (performR s.sh a)))[tid]? = some (cont t (performR s.sh a)) := by simp [htl]
  rcases allocs_get_step s.sh a x e hx with ⟨e0, hx0, _, _, _, hs⟩ | ⟨hxl, n, f, sg, hae, hnf, hee⟩
  · rcases hs with h | ⟨h, _⟩ | ⟨h, _⟩
    · obtain ⟨j, u, hu, hn, hh⟩ := D.held x e0 hx0 (by rw [← h]; exact hst)
      by_cases hj : j = tid
      · subst hj; rw [ht] at hu; cases hu
        by_cases hh' : (cont t (performR s.sh a)).holds = true
        · rcases holds_step t (performR s.sh a) hh' with ⟨_, hn', _⟩ | ⟨hp, _⟩
          · exact ⟨j, _, hself, by rw [hn', hn], hh'⟩
          · exfalso; rcases hp with hp | hp <;> simp [Th.holds, hp] at hh
        · -- the holder published or released it in this step: then the entry is no longer `held`
          exfalso
          have hlost := holds_lost t (performR s.sh a) hh (by simpa using hh')
          rw [allocs_performS] at hx
          rcases hlost with ⟨hp, hok⟩ | hp | hp
          · have : a = .casSlot t.ctab 0 (ptrOf t) := by simp [accOf, hp] at ha; exact ha.symm
            subst this
            have hnull : slot s.sh t.ctab 0 = .null := by
              apply Classical.byContradiction; intro hc; simp [performR, hc] at hok
            simp only [hnull, if_true, ptrOf] at hx
            rw [← hn, publish_pub _ _ _ _ (by rw [hn]; exact hx0)] at hx
            cases hx; cases hst
          · have : a = .free t.newSeg := by simp [accOf, hp] at ha; exact ha.symm
            subst this
            simp only at hx
            rw [hn, hx0] at hx
            simp only [List.getElem?_set] at hx
            have : x < s.sh.allocs.length := (List.getElem?_eq_some_iff.mp hx0).1
            simp [this] at hx; subst hx; cases hst
          · have : a = .storeSlot t.ctab t.cseg (.ptr t.newSeg (segBase t.cseg)) := by simp [accOf, hp] at ha; exact ha.symm
            subst this
            simp only at hx
            rw [← hn, publish_pub _ _ _ _ (by rw [hn]; exact hx0)] at hx
            cases hx; cases hst
      · exact ⟨j, u, by simp [List.getElem?_set, Ne.symm hj, hu], hn, hh⟩
    · rw [hst] at h; cases h
    · rw [hst] at h; cases h
  · -- a fresh allocation: the stepping thread holds it
    subst hae
    have hok : (performR s.sh (.alloc n f sg)).ok = true ∧ (performR s.sh (.alloc n f sg)).n = s.sh.allocs.length := by
      simp [performR, hnf]
    refine ⟨tid, _, hself, ?_, ?_⟩
    · rcases accOf_alloc t n f sg ha with ⟨hp, _⟩ | ⟨hp, _⟩
      · simp [cont, hp, hok.1, hok.2, hxl]
      · simp [cont, hp, hok.1, hok.2, hxl]
    · rcases accOf_alloc t n f sg ha with ⟨hp, _⟩ | ⟨hp, _⟩
      · simp [cont, hp, hok.1, Th.holds]
      · simp [cont, hp, hok.1, Th.holds]

theorem holder_step (s : St) (D : DInv s) (tid : Nat) (t : Th) (ht : s.ths[tid]? = some t) (a : Acc) (ha : accOf t = some a) :
    ∀ (j : Nat) (u : Th), (s.ths.set tid (cont t (performR s.sh a)))[j]? = some u → u.holds = true →
      ∃ e : AInfo, (performS s.sh a).allocs[u.newSeg]? = some e ∧ e.st = .held ∧
        (u.pc = .kStoreSeg → e.first = false ∧ e.seg = u.cseg ∧ e.n = segSize u.cseg) ∧
        (u.pc ≠ .kStoreSeg → e.first = true ∧ e.n = segSize u.fbl) := by
  intro j u hu hh
  rcases get_set _ _ _ _ _ hu with ⟨rfl, rfl⟩ | ⟨hj, hu'⟩
  · rcases holds_step t (performR s.sh a) hh with ⟨hth, hn, hpc, hfbl, hcs, hp, hok⟩ | ⟨hp, hok, hn, hpc, hfbl, hcs⟩
    · -- a failed CAS on table[0]: nothing changes in the ledger
      obtain ⟨e, he, hst, h1, h2⟩ := D.holder j t ht hth
      have : a = .casSlot t.ctab 0 (ptrOf t) := by simp [accOf, hp] at ha; exact ha.symm
      subst this
      have hnn : slot s.sh t.ctab 0 ≠ .null := by
        intro hc; simp [performR, hc] at hok
      refine ⟨e, ?_, hst, ?_, ?_⟩
      · rw [allocs_performS]; simp only [hnn, if_false]; rw [hn]; exact he
      · intro h; rw [hpc] at h; rw [hcs]; exact h1 h
      · intro h; rw [hfbl]; exact h2 (fun h' => h (hpc.mpr h'))
    · -- a fresh allocation
      have hnf : (s.sh.allocCalls + 1) ∉ s.sh.fAlloc := by rw [D.nf.fa]; simp
      rcases hp with hp | hp
      · have : a = .alloc (segSize t.fbl) true 0 := by simp [accOf, hp] at ha; exact ha.symm
        subst this
        have hrn : (performR s.sh (.alloc (segSize t.fbl) true 0)).n = s.sh.allocs.length := by simp [performR, hnf]
        refine ⟨{ n := segSize t.fbl, first := true, seg := 0, st := .held }, ?_, rfl, ?_, ?_⟩
        · rw [allocs_performS]; simp only [hnf, if_false]; rw [hn, hrn]; simp
        · intro h; have := hpc.mp h; rw [hp] at this; cases this
        · intro _; rw [hfbl]; exact ⟨rfl, rfl⟩
      · have : a = .alloc (segSize t.cseg) false t.cseg := by simp [accOf, hp] at ha; exact ha.symm
        subst this
        have hrn : (performR s.sh (.alloc (segSize t.cseg) false t.cseg)).n = s.sh.allocs.length := by simp [performR, hnf]
        refine ⟨{ n := segSize t.cseg, first := false, seg := t.cseg, st := .held }, ?_, rfl, ?_, ?_⟩
        · rw [allocs_performS]; simp only [hnf, if_false]; rw [hn, hrn]; simp
        · intro _; rw [hcs]; exact ⟨rfl, rfl, rfl⟩
        · intro h; exact absurd (hpc.mpr hp) h
  · -- another thread: nobody else touches its entry
    obtain ⟨e, he, hst, h1, h2⟩ := D.holder j u hu' hh
    obtain ⟨e', he', g1, g2, g3⟩ := allocs_get_old s.sh a u.newSeg e he
    refine ⟨e', he', ?_, ?_, ?_⟩
    · rcases allocs_get_step s.sh a u.newSeg e' he' with ⟨e0, he0, _, _, _, hs⟩ | ⟨hl, _⟩
      · rw [he] at he0; cases he0
        rcases hs with h | ⟨_, T, k, sft, hw⟩ | ⟨_, hfree⟩
        · rw [h]; exact hst
        · exfalso
          have hw' : ∃ T k sft, a = .storeSlot T k (.ptr u.newSeg sft) ∨ a = .casSlot T k (.ptr u.newSeg sft) := by
            rcases hw with h | ⟨h, _⟩
            · exact ⟨T, k, sft, Or.inl h⟩
            · exact ⟨T, k, sft, Or.inr h⟩
          obtain ⟨hx, hor⟩ := changes_own s D tid t ht a ha u.newSeg (Or.inl hw')
          rcases hor with hth | ⟨e1, he1, hp1⟩
          · exact D.holders j tid u t hj hu' ht hh hth hx
          · rw [he] at he1; cases he1; rw [hst] at hp1; cases hp1
        · exfalso
          obtain ⟨hx, hor⟩ := changes_own s D tid t ht a ha u.newSeg (Or.inr hfree)
          rcases hor with hth | ⟨e1, he1, hp1⟩
          · exact D.holders j tid u t hj hu' ht hh hth hx
          · rw [he] at he1; cases he1; rw [hst] at hp1; cases hp1
      · have := (List.getElem?_eq_some_iff.mp he).1; omega
    · intro h; have := h1 h; rw [g2, g3, g1]; exact this
    · intro h; have := h2 h; rw [g2, g1]; exact this

theorem holders_step (s : St) (D : DInv s) (tid : Nat) (t : Th) (ht : s.ths[tid]? = some t) (a : Acc) (ha : accOf t = some a) :
    ∀ (i j : Nat) (u v : Th), i ≠ j → (s.ths.set tid (cont t (performR s.sh a)))[i]? = some u →
      (s.ths.set tid (cont t (performR s.sh a)))[j]? = some v → u.holds = true → v.holds = true → u.newSeg ≠ v.newSeg := by
  have hnf : (s.sh.allocCalls + 1) ∉ s.sh.fAlloc := by rw [D.nf.fa]; simp
  -- the stepping thread's new_segment against any other holder
  have key : ∀ (j : Nat) (v : Th), j ≠ tid → s.ths[j]? = some v → v.holds = true → (cont t (performR s.sh a)).holds = true →
      (cont t (performR s.sh a)).newSeg ≠ v.newSeg := by
    intro j v hj hv hvh hth'
    rcases holds_step t (performR s.sh a) hth' with ⟨hth, hn, _⟩ | ⟨hp, hok, hn, _⟩
    · rw [hn]; exact D.holders tid j t v (Ne.symm hj) ht hv hth hvh
    · obtain ⟨e, he, _⟩ := D.holder j v hv hvh
      have hlt := (List.getElem?_eq_some_iff.mp he).1
      have hrn : (performR s.sh a).n = s.sh.allocs.length := by
        rcases hp with hp | hp
        · have : a = .alloc (segSize t.fbl) true 0 := by simp [accOf, hp] at ha; exact ha.symm
          subst this; simp [performR, hnf]
        · have : a = .alloc (segSize t.cseg) false t.cseg := by simp [accOf, hp] at ha; exact ha.symm
          subst this; simp [performR, hnf]
      rw [hn, hrn]; omega
  intro i j u v hij hu hv huh hvh
  rcases get_set _ _ _ _ _ hu with ⟨rfl, rfl⟩ | ⟨hi, hu'⟩
  · rcases get_set _ _ _ _ _ hv with ⟨rfl, _⟩ | ⟨hj, hv'⟩
    · exact absurd rfl hij
    · exact key j v hj hv' hvh huh
  · rcases get_set _ _ _ _ _ hv with ⟨rfl, rfl⟩ | ⟨hj, hv'⟩
    · exact fun h => key i u hi hu' huh hvh h.symm
    · exact D.holders i j u v hij hu' hv' huh hvh

end TbbVerif.C11.Seg
