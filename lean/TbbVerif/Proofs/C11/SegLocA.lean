/- C11 segment-table protocol, general invariants, group A (table snapshots; my_segment_table never nullptr): own step. -/
import TbbVerif.Proofs.C11.SegDefs

namespace TbbVerif.C11.Seg
open TbbVerif.C11 (segIndex segBase segSize Op tiles)
open TbbVerif.Generated.C11

set_option maxHeartbeats 1000000 in
theorem LocA_own (sh : Sh) (t : Th) (a : Acc) (ha : accOf t = some a) (h : LocA sh t) :
    LocA (performS sh a) (cont t (performR sh a)) := by
  obtain ⟨h1, h2, h3, h4, h5, h6, h7, h8⟩ := h
  cases hpc : t.pc
  case idle =>
    rcases idle_step t hpc a ha (performR sh a) with ⟨rest, ho, rfl, hc⟩ | ⟨rest, ho, rfl, hc⟩ | ⟨d, rest, ho, hd, rfl, hc⟩ | ⟨n, rest, ho, rfl, htg, hc⟩
    all_goals (rw [hc]; simp only [performS, performR]; constructor <;> grind)
  all_goals (unfold accOf at ha; simp only [hpc] at ha; cases ha; simp only [cont, hpc, performS, performR])
  all_goals first
    | (constructor <;> grind)
    | (split <;> constructor <;> grind)

theorem performS_badTab (sh : Sh) (a : Acc) (h : (performS sh a).badTab = true) :
    sh.badTab = true ∨ (∃ c0 c1 c2, a = .casTptr 0 c0 c1 c2 ∧ sh.tptr = 0) := by
  cases a
  case casTptr d c0 c1 c2 =>
    simp only [performS] at h
    split at h
    · split at h
      · rename_i h0 h1; subst h1; exact Or.inr ⟨c0, c1, c2, rfl, h0⟩
      · exact Or.inl h
    · exact Or.inl h
  all_goals (try simp only [performS] at h)
  all_goals first
    | exact Or.inl h
    | (left; simp only [touch_badTab, setSlot_badTab, pubS_badTab] at h; exact h)
    | (left; grind [touch_badTab, setSlot_badTab, pubS_badTab])

theorem accOf_casTptr (t : Th) (d : Nat) (c0 c1 c2 : Val) (h : accOf t = some (.casTptr d c0 c1 c2)) :
    t.pc = .xCas ∧ d = t.newTab := by
  unfold accOf at h
  cases hpc : t.pc <;> simp only [hpc] at h
  all_goals first
    | (cases h; exact ⟨rfl, rfl⟩)
    | (cases h; done)
    | (split at h <;> first | (cases h; done) | (split at h <;> cases h))

/-- my_segment_table is never set to nullptr -/
theorem badTab_own (sh : Sh) (t : Th) (a : Acc) (ha : accOf t = some a) (h : LocA sh t) (hb : sh.badTab = false) :
    (performS sh a).badTab = false := by
  cases hb' : (performS sh a).badTab with
  | false => rfl
  | true =>
    rcases performS_badTab sh a hb' with h1 | ⟨c0, c1, c2, rfl, h0⟩
    · rw [hb] at h1; cases h1
    · obtain ⟨hpc, hd⟩ := accOf_casTptr t 0 c0 c1 c2 ha
      exact absurd h0 (h.casNull hpc hd.symm)

end TbbVerif.C11.Seg
