/- C11 segment-table protocol: definitions shared by the invariant proofs — the per-thread invariant structures (LocA … LocD2),
   the program-counter classes, the monotonic-evolution relations, the closing tactics.  The heavy "own step" lemmas live in
   separate files that import only this one, so that they build in parallel. -/
import TbbVerif.Proofs.C11.SegGenA
import TbbVerif.Proofs.C11.SegRanges

namespace TbbVerif.C11.Seg
open TbbVerif.C11 (segIndex segBase segSize Op tiles)
open TbbVerif.Generated.C11

/- the control-flow helpers and the projection lemmas of the shared-state operations are `grind` facts -/
attribute [grind] enterExtend leaveExtend fillStart mirrorStart leaveCreate enterEnable subDone loopStart growStart
  waitStart afterCasLoop opDone zStart Th.etab Th.cseg Th.cidx Th.xs Th.xe Th.segEnd Th.wEnd Th.target
attribute [grind =] touch_tptr setSlot_tptr pubS_tptr touch_fb setSlot_fb pubS_fb slot_touch slot_pubS slot_setSlot

/-- the four ways a call starts (the only program counter whose access depends on the program text) -/
theorem idle_step (t : Th) (hpc : t.pc = .idle) (a : Acc) (ha : accOf t = some a) (r : R) :
    (∃ rest, t.ops = .pushBack :: rest ∧ a = .faddSize 1 ∧
        cont t r = { t with start := r.n, stop := r.n + 1, idx := r.n, inGrow := false, pc := .pAfbLoad }) ∨
    (∃ rest, t.ops = .growBy 0 :: rest ∧ a = .loadTptr ∧ cont t r = zStart t r.n) ∨
    (∃ d rest, t.ops = .growBy d :: rest ∧ d ≠ 0 ∧ a = .faddSize d ∧ cont t r = growStart t r.n (r.n + d)) ∨
    (∃ n rest, t.ops = .growTo n :: rest ∧ a = .loadSize .rlx ∧ t.target = n ∧
        cont t r = (if n = 0 then opDone { t with old := r.n } .none
                    else if r.n < n then { t with old := r.n, pc := .tCas } else afterCasLoop t r.n n)) := by
  unfold accOf at ha
  simp only [hpc] at ha
  cases hops : t.ops with
  | nil => rw [hops] at ha; cases ha
  | cons op rest =>
    rw [hops] at ha
    cases op with
    | pushBack =>
      cases ha
      exact Or.inl ⟨rest, rfl, rfl, by simp only [cont, hpc, hops]⟩
    | growBy d =>
      by_cases hd : d = 0
      · subst hd
        simp only [if_true] at ha
        cases ha
        exact Or.inr (Or.inl ⟨rest, rfl, rfl, by simp only [cont, hpc, hops, if_true]⟩)
      · simp only [hd, if_false] at ha
        cases ha
        exact Or.inr (Or.inr (Or.inl ⟨d, rest, rfl, hd, rfl, by simp only [cont, hpc, hops, hd, if_false]⟩))
    | growTo n =>
      cases ha
      exact Or.inr (Or.inr (Or.inr ⟨n, rest, rfl, rfl, by simp [Th.target, hops], by simp only [cont, hpc, hops]⟩))

structure LocA (sh : Sh) (t : Th) : Prop where
  tab : t.tab = 0 ∨ t.tab = sh.tptr
  gtab : t.gtab = 0 ∨ t.gtab = sh.tptr
  ctab : t.ctab = 0 ∨ t.ctab = sh.tptr
  x : t.x = 0 ∨ t.x = sh.tptr
  wtab : t.wtab = 0 ∨ t.wtab = sh.tptr
  casNull : t.pc = .xCas → t.newTab = 0 → sh.tptr ≠ 0
  freeNZ : t.pc = .xFree → t.x ≠ 0
  copyNZ : t.pc = .xCopy → t.newTab ≠ 0

theorem LocA_mono (sh sh' : Sh) (t : Th) (m : Mono sh sh') (h : LocA sh t) : LocA sh' t := by
  have key : ∀ v : Nat, (v = 0 ∨ v = sh.tptr) → (v = 0 ∨ v = sh'.tptr) := by
    intro v hv
    rcases hv with h0 | h1
    · exact Or.inl h0
    · by_cases hz : sh.tptr = 0
      · exact Or.inl (h1.trans hz)
      · exact Or.inr (h1.trans (m.tptr hz).symm)
  exact ⟨key _ h.tab, key _ h.gtab, key _ h.ctab, key _ h.x, key _ h.wtab,
    fun h1 h2 => by have := h.casNull h1 h2; rw [m.tptr this]; exact this, h.freeNZ, h.copyNZ⟩

theorem LocA_init (sh : Sh) (p : List Op) (h : sh.tptr = 0) : LocA sh { ops := p } :=
  ⟨Or.inl rfl, Or.inl rfl, Or.inl rfl, Or.inl rfl, Or.inl rfl, by simp, by simp, by simp⟩

def Pc.isX : Pc → Bool
  | .xWait | .xGet | .xAlloc | .xFailStore | .xCopy | .xCas | .xFree | .xFlag | .xReload => true
  | _ => false

def Pc.isK : Pc → Bool
  | .kFb | .kZero | .kSpin | .kAllocFb | .kTagCas | .kTagStore | .kCasZero | .kFill | .kMirror | .kFreeFb
  | .kAllocSeg | .kTagSeg | .kStoreSeg => true
  | _ => false

/-- create_segment before the first-block winner's `extend_table_if_necessary` -/
def Pc.isKpre : Pc → Bool
  | .kFb | .kZero | .kSpin | .kAllocFb | .kTagCas | .kTagStore | .kCasZero | .kFreeFb
  | .kAllocSeg | .kTagSeg | .kStoreSeg => true
  | _ => false

def Pc.isG : Pc → Bool
  | .gAfbLoad | .gAfbCas | .gTab | .gFb | .gLast1 | .gLast2 | .rTab | .rSlot => true
  | _ => false

def Pc.isGpre : Pc → Bool
  | .gAfbLoad | .gAfbCas | .gTab => true
  | _ => false

/-- the thread is inside a call that owns a claimed index range -/
def Pc.claim : Pc → Bool
  | .idle | .tCas | .wTab0 | .wSpinTab | .wTab | .wSlot | .zTab | .zSlot | .zSize => false
  | _ => true

/-- inside enable_segment (create_segment, its nested table extension, or the final load) -/
def Th.inEn (t : Th) : Bool := t.pc.isK || t.pc == .enFinal || (t.pc.isX && t.extRet == .fb)

/-- inside internal_subscript after its extend_table_if_necessary returned -/
def Th.inSubPost (t : Th) : Bool := t.pc == .sSlot || t.pc == .construct || (t.inEn && t.enRet == .sub)

/-- inside internal_grow after its extend_table_if_necessary returned -/
def Th.inGrowPost (t : Th) : Bool :=
  t.inGrow && t.pc.claim && !t.pc.isGpre && !(t.pc.isX && t.extRet == .grow)

attribute [grind] Pc.isX Pc.isK Pc.isKpre Pc.isG Pc.isGpre Pc.claim Th.inEn Th.inSubPost Th.inGrowPost

structure LocB (sh : Sh) (t : Th) : Prop where
  range : t.pc.claim = true → t.start < t.stop
  sub : t.inSubPost = true → t.tab = 0 → t.idx < 8
  grow : t.inGrowPost = true → t.gtab = 0 → t.stop ≤ 8
  isGrow : (t.pc.isG = true ∨ (t.inEn = true ∧ t.enRet = .grow) ∨ (t.pc.isX = true ∧ t.extRet = .grow)) → t.inGrow = true
  kpre : t.pc.isKpre = true → t.ctab = t.etab
  fill : t.pc = .kFill → 1 ≤ t.i ∧ t.i < t.fbl ∧ (t.ctab = 0 → t.fbl ≤ 3)
  tagStore : t.pc = .kTagStore → 1 ≤ t.i ∧ t.i < csTagEnd (decide (t.ctab = 0)) t.fbl
  mirror : t.pc = .kMirror → 1 ≤ t.i ∧ t.i < t.fbl ∧ t.i < 3
  wait : t.pc = .xWait → t.i < 3 ∧ t.xs ≤ 8 ∧ segBase t.i < t.xs
  copy : t.pc = .xCopy → t.i < 3
  rslot : t.pc = .rSlot → t.tab = 0 → t.stop ≤ 8
  wloop : (t.pc = .wTab ∨ t.pc = .wSlot) → t.i ≤ t.wEnd ∧ (gtalLong t.wEnd = true → sh.tptr ≠ 0)
  wslot : t.pc = .wSlot → t.wtab = 0 → t.wEnd < 3
  zslot : t.pc = .zSlot → t.i < nSlots t.wtab

theorem LocB_mono (sh sh' : Sh) (t : Th) (m : Mono sh sh') (h : LocB sh t) : LocB sh' t :=
  { h with wloop := fun hp => ⟨(h.wloop hp).1, fun hl => by have := (h.wloop hp).2 hl; rw [m.tptr this]; exact this⟩ }

theorem LocB_init (sh : Sh) (p : List Op) : LocB sh { ops := p } := by
  constructor <;> simp [Pc.claim, Th.inSubPost, Th.inGrowPost, Th.inEn, Pc.isK, Pc.isX, Pc.isG, Pc.isKpre]

theorem segBase_succ_lt8 (i : Nat) (h : i < 3) (h2 : segBase (i + 1) < 8) : i + 1 < 3 := by
  have : i = 0 ∨ i = 1 ∨ i = 2 := by omega
  rcases this with rfl | rfl | rfl
  · omega
  · omega
  · simp [segBase_3] at h2

attribute [grind] xNeed xSelf altWait csFirst csOwner csTagEnd csFill csMirror growEager growOwns gtalLong gtalGuard nSlots
  pointersPerEmbeddedTable pointersPerLongTable defaultFirstBlockSize

/-- closes one field of a per-thread invariant at one leaf of the control flow -/
macro "loc_close" : tactic => `(tactic| first
    | (simp [Pc.claim, Pc.isX, Pc.isK, Pc.isKpre, Pc.isG, Pc.isGpre, Th.inEn, Th.inSubPost, Th.inGrowPost]; done)
    | grind
    | (simp_all [Pc.claim, Pc.isX, Pc.isK, Pc.isKpre, Pc.isG, Pc.isGpre, Th.inEn, Th.inSubPost, Th.inGrowPost, Th.etab, Th.xs, Th.xe,
        Th.cseg, Th.cidx, Th.segEnd, Th.wEnd, xNeed, xSelf, altWait, csFirst, csOwner, csTagEnd, csFill, csMirror, growEager, growOwns,
        gtalLong, gtalGuard, nSlots, pointersPerEmbeddedTable, pointersPerLongTable]; omega))

macro "unfold_cont" h:ident : tactic => `(tactic|
  simp only [cont, $h:ident, enterExtend, leaveExtend, fillStart, mirrorStart, leaveCreate, enterEnable, subDone, loopStart, growStart,
      waitStart, afterCasLoop, opDone, zStart])

/-- the first-block branch of create_segment (from the load of table[0] on) -/
def Th.fbPath (t : Th) : Bool :=
  (match t.pc with
   | .kZero | .kAllocFb | .kTagCas | .kTagStore | .kCasZero | .kFreeFb | .kFill | .kMirror => true
   | _ => false) || (t.pc.isX && t.extRet == .fb)

/-- the first-block winner after its CAS on table[0] -/
def Th.fbWon (t : Th) : Bool :=
  (match t.pc with
   | .kFill | .kMirror => true
   | _ => false) || (t.pc.isX && t.extRet == .fb)

structure LocC (sh : Sh) (t : Th) : Prop where
  cons : t.pc = .construct → ∃ a s, t.segv = .ptr a s
  enf : t.pc = .enFinal → slot sh t.etab t.cseg ≠ .null
  won0 : t.fbWon = true → slot sh t.etab 0 ≠ .null
  path : t.fbPath = true → t.cseg < t.fbl
  tabs : (t.pc = .kFill ∨ t.pc = .kMirror) → t.etab ≠ 0 → t.ctab = t.etab
  xfb : t.pc.isX = true → t.extRet = .fb → t.etab = 0
  fill : t.pc = .kFill → ∀ j, 1 ≤ j → j < t.i → slot sh t.ctab j ≠ .null
  mir1 : t.pc = .kMirror → ∀ j, 1 ≤ j → j < t.fbl → slot sh t.ctab j ≠ .null
  mir2 : t.pc = .kMirror → ∀ j, 1 ≤ j → j < t.i → slot sh 0 j ≠ .null

theorem LocC_init (sh : Sh) (p : List Op) : LocC sh { ops := p } := by
  constructor <;> simp [Th.fbPath, Th.fbWon, Pc.isX]

theorem LocC_mono (sh sh' : Sh) (t : Th) (m : Mono sh sh') (hA : LocA sh t) (h : LocC sh t) : LocC sh' t := by
  have nn : ∀ T k, (T = 0 ∨ T = sh.tptr) → slot sh T k ≠ .null → slot sh' T k ≠ .null := by
    intro T k hT hn
    rcases hT with rfl | rfl
    · exact m.nn 0 k (Or.inl rfl) hn
    · by_cases h0 : sh.tptr = 0
      · rw [h0] at hn ⊢; exact m.nn 0 k (Or.inl rfl) hn
      · exact m.nn _ k (Or.inr ⟨rfl, h0⟩) hn
  have he : t.etab = 0 ∨ t.etab = sh.tptr := by
    unfold Th.etab; split
    · exact hA.tab
    · exact hA.gtab
  exact ⟨h.cons, fun hp => nn _ _ he (h.enf hp), fun hp => nn _ _ he (h.won0 hp), h.path, h.tabs, h.xfb,
    fun hp j h1 h2 => nn _ _ hA.ctab (h.fill hp j h1 h2), fun hp j h1 h2 => nn _ _ hA.ctab (h.mir1 hp j h1 h2),
    fun hp j h1 h2 => nn _ _ (Or.inl rfl) (h.mir2 hp j h1 h2)⟩

macro "locc_close" vp:ident : tactic => `(tactic| first
    | (simp [Th.fbPath, Th.fbWon, Pc.isX]; done)
    | grind
    | (simp_all [Th.fbPath, Th.fbWon, Pc.isX, Pc.isKpre, Th.etab, Th.xs, Th.xe,
        Th.cseg, Th.cidx, Th.segEnd, Th.wEnd, xNeed, xSelf, altWait, csFirst, csOwner, csTagEnd, csFill, csMirror, growEager, growOwns,
        gtalLong, gtalGuard, nSlots, pointersPerEmbeddedTable, pointersPerLongTable]; omega)
    | (intro _; apply $vp <;> simp_all))

attribute [grind] Th.fbPath Th.fbWon ptrOf

/-- the fault plan is empty: no allocation and no element constructor throws -/
structure NoFault (sh : Sh) : Prop where
  fa : sh.fAlloc = []
  ft : sh.fTab = []
  fc : sh.fCtor = []
  failed : sh.failed = false

/-- failure-free evolution of the shared words: besides `Mono`, pointer-valued slots keep their value (also across the
table switch, as seen through the current table), and the ghost ledgers only grow -/
structure Mono2 (sh sh' : Sh) : Prop where
  m : Mono sh sh'
  log : ∀ x, x ∈ sh.log → x ∈ sh'.log
  cons : ∀ x, x ∈ sh.cons → x ∈ sh'.cons
  ptr : ∀ T k a s, (T = 0 ∨ (T = sh.tptr ∧ sh.tptr ≠ 0)) → slot sh T k = .ptr a s → slot sh' T k = .ptr a s
  vis : ∀ k a s, visible sh k = .ptr a s → visible sh' k = .ptr a s
  visnn : ∀ k, visible sh k ≠ .null → visible sh' k ≠ .null

def Pc.afb : Pc → Bool
  | .pAfbLoad | .pAfbCas | .gAfbLoad | .gAfbCas => true
  | _ => false

/-- allocate_long_table and the CAS that installs its result -/
def Pc.isAlt : Pc → Bool
  | .xWait | .xGet | .xAlloc | .xCopy | .xCas | .xFree => true
  | _ => false

/-- after the wait loop of allocate_long_table -/
def Pc.isCopy : Pc → Bool
  | .xGet | .xAlloc | .xCopy | .xCas => true
  | _ => false

/-- inside internal_subscript -/
def Th.inSub (t : Th) : Bool :=
  t.pc == .sTab || t.pc == .sSlot || t.pc == .construct || (t.pc.isX && t.extRet == .sub) || (t.inEn && t.enRet == .sub)

/-- inside internal_subscript after `table` was loaded -/
def Th.freshTab (t : Th) : Bool :=
  t.pc == .sSlot || t.pc == .construct || (t.pc.isX && t.extRet == .sub) || (t.inEn && t.enRet == .sub)

attribute [grind] Pc.afb Pc.isAlt Pc.isCopy Th.inSub Th.freshTab

/-- purely thread-local facts of failure-free runs (monotone in the shared words) -/
structure LocD1 (sh : Sh) (t : Th) : Prop where
  nofail : t.pc ≠ .xFailStore ∧ t.pc ≠ .kTagCas ∧ t.pc ≠ .kTagStore ∧ t.pc ≠ .kTagSeg
  fbnz : t.pc.claim = true → t.pc.afb = false → sh.fb ≠ 0
  fbl : ((t.pc.isK = true ∧ t.pc ≠ .kFb) ∨ (t.pc.isX = true ∧ t.extRet = .fb)) → t.fbl = sh.fb
  inlog : t.pc.claim = true → (t.start, t.stop) ∈ sh.log
  idx : t.pc.claim = true → t.start ≤ t.idx ∧ t.idx ≤ t.stop
  idxlt : t.inSub = true → t.idx < t.stop
  push : t.pc.claim = true → t.inGrow = false → t.stop = t.start + 1 ∧ t.idx = t.start
  cross : t.pc.isAlt = true → (t.extRet ≠ .fb → t.xs ≤ 8 ∧ 8 < t.xe) ∧ (t.extRet = .fb → 8 < segSize t.fbl)
  fresh : t.inGrow = true → t.freshTab = true → t.gtab ≠ 0 → t.tab ≠ 0
  owner : (t.pc = .kAllocSeg ∨ t.pc = .kStoreSeg) → t.cidx = segBase t.cseg ∧ t.fbl ≤ t.cseg
  gown : (t.pc = .gLast1 ∨ t.pc = .gLast2 ∨ (t.inEn = true ∧ t.enRet = .grow)) →
      sh.fb < t.segEnd ∧ (t.pc ≠ .gLast1 → t.start ≤ segBase t.segEnd ∧ segBase t.segEnd < t.stop)
  tcas : t.pc = .tCas → t.old < t.target
  pafb : (t.pc = .pAfbLoad ∨ t.pc = .pAfbCas) → t.inGrow = false
  gidx : ((t.pc.isG = true ∧ t.pc ≠ .rTab ∧ t.pc ≠ .rSlot) ∨ (t.pc.isX = true ∧ t.extRet = .grow) ∨ (t.inEn = true ∧ t.enRet = .grow)) →
      t.idx = t.start

theorem LocD1_init (sh : Sh) (p : List Op) : LocD1 sh { ops := p } := by
  constructor <;> simp [Pc.claim, Pc.isK, Pc.isX, Pc.isAlt, Pc.isG, Th.inSub, Th.freshTab, Th.inEn]

theorem LocD1_mono (sh sh' : Sh) (t : Th) (m : Mono2 sh sh') (h : LocD1 sh t) : LocD1 sh' t := by
  have hfb : sh.fb ≠ 0 → sh'.fb = sh.fb := m.m.fb
  refine ⟨h.nofail, ?_, ?_, ?_, h.idx, h.idxlt, h.push, h.cross, h.fresh, h.owner, ?_, h.tcas, h.pafb, h.gidx⟩
  · intro h1 h2; have := h.fbnz h1 h2; rw [hfb this]; exact this
  · intro h1
    have h2 := h.fbl h1
    have h3 : sh.fb ≠ 0 := by
      apply h.fbnz
      · rcases h1 with ⟨hk, _⟩ | ⟨hx, _⟩
        · revert hk; cases t.pc <;> simp [Pc.isK, Pc.claim]
        · revert hx; cases t.pc <;> simp [Pc.isX, Pc.claim]
      · rcases h1 with ⟨hk, _⟩ | ⟨hx, _⟩
        · revert hk; cases t.pc <;> simp [Pc.isK, Pc.afb]
        · revert hx; cases t.pc <;> simp [Pc.isX, Pc.afb]
    rw [hfb h3]; exact h2
  · intro h1; exact m.log _ (h.inlog h1)
  · intro h1
    have h2 := h.gown h1
    have h3 : sh.fb ≠ 0 := by
      apply h.fbnz
      · rcases h1 with hp | hp | ⟨he, _⟩
        · rw [hp]; rfl
        · rw [hp]; rfl
        · revert he; unfold Th.inEn; cases t.pc <;> simp [Pc.isK, Pc.isX, Pc.claim]
      · rcases h1 with hp | hp | ⟨he, _⟩
        · rw [hp]; rfl
        · rw [hp]; rfl
        · revert he; unfold Th.inEn; cases t.pc <;> simp [Pc.isK, Pc.isX, Pc.afb]
    rw [hfb h3]; exact h2

macro "locd_close" : tactic => `(tactic| first
    | (simp [Pc.claim, Pc.isX, Pc.isK, Pc.isG, Pc.afb, Pc.isAlt, Th.inSub, Th.freshTab, Th.inEn]; done)
    | grind
    | (simp_all [Pc.claim, Pc.isX, Pc.isK, Pc.isG, Pc.afb, Pc.isAlt, Th.inSub, Th.freshTab, Th.inEn, Th.etab, Th.xs, Th.xe,
        Th.cseg, Th.cidx, Th.segEnd, Th.wEnd, xNeed, xSelf, altWait, csFirst, csOwner, csTagEnd, csFill, csMirror, growEager, growOwns,
        gtalLong, gtalGuard, nSlots, pointersPerEmbeddedTable, pointersPerLongTable]; omega))

structure LocD2 (sh : Sh) (t : Th) : Prop where
  won : t.fbWon = true → slot sh t.etab 0 = ptrOf t
  fill : t.pc = .kFill → ∀ j, 1 ≤ j → j < t.i → slot sh t.ctab j = ptrOf t
  mir1 : t.pc = .kMirror → ∀ j, 1 ≤ j → j < t.fbl → slot sh t.ctab j = ptrOf t
  mir2 : t.pc = .kMirror → ∀ j, 1 ≤ j → j < t.i → slot sh 0 j = ptrOf t
  wait1 : t.pc = .xWait → t.extRet ≠ .fb → ∀ k, k < t.i → slot sh 0 k ≠ .null
  wait2 : t.pc.isCopy = true → t.extRet ≠ .fb → ∀ k, k < 3 → segBase k < t.xs → slot sh 0 k ≠ .null
  cur : t.pc.claim = true → ∀ j, t.start ≤ j → j < t.idx → ∃ a off, (j, a, off) ∈ sh.cons
  cons : t.pc = .construct → visible sh (segIndex t.idx) = t.segv
  wdone : (t.pc = .wTab ∨ t.pc = .wSlot) → ∀ k, k < t.i → visible sh k ≠ .null
  zdone : (t.pc = .zTab ∨ t.pc = .zSlot ∨ t.pc = .zSize) → t.target ≠ 0 → ∀ k, k ≤ t.wEnd → visible sh k ≠ .null
  rdone : (t.pc = .rTab ∨ t.pc = .rSlot) → t.idx = t.stop
  resok : ∀ a b, Res.range a b ∈ t.res → ∀ j, a ≤ j → j < b → ∃ al off, (j, al, off) ∈ sh.cons

theorem LocD2_init (sh : Sh) (p : List Op) : LocD2 sh { ops := p } := by
  constructor <;> simp [Pc.claim, Th.fbWon, Pc.isX, Pc.isCopy]

theorem LocD2_mono (sh sh' : Sh) (t : Th) (m : Mono2 sh sh') (hA : LocA sh t) (hC : LocC sh t) (h : LocD2 sh t) : LocD2 sh' t := by
  have tabOK : ∀ T : Nat, (T = 0 ∨ T = sh.tptr) → (T = 0 ∨ (T = sh.tptr ∧ sh.tptr ≠ 0)) := by
    intro T hT
    rcases hT with h0 | h1
    · exact Or.inl h0
    · by_cases hz : sh.tptr = 0
      · exact Or.inl (h1.trans hz)
      · exact Or.inr ⟨h1, hz⟩
  have he : t.etab = 0 ∨ t.etab = sh.tptr := by
    unfold Th.etab; split
    · exact hA.tab
    · exact hA.gtab
  have nn : ∀ k, slot sh 0 k ≠ .null → slot sh' 0 k ≠ .null := fun k hk => m.m.nn 0 k (Or.inl rfl) hk
  refine ⟨fun hp => m.ptr _ _ _ _ (tabOK _ he) (h.won hp),
    fun hp j h1 h2 => m.ptr _ _ _ _ (tabOK _ hA.ctab) (h.fill hp j h1 h2),
    fun hp j h1 h2 => m.ptr _ _ _ _ (tabOK _ hA.ctab) (h.mir1 hp j h1 h2),
    fun hp j h1 h2 => m.ptr _ _ _ _ (Or.inl rfl) (h.mir2 hp j h1 h2),
    fun hp he k hk => nn k (h.wait1 hp he k hk),
    fun hp he k hk hs => nn k (h.wait2 hp he k hk hs),
    ?_, ?_, fun hp k hk => m.visnn k (h.wdone hp k hk), fun hp ht k hk => m.visnn k (h.zdone hp ht k hk), h.rdone, ?_⟩
  · intro hp j h1 h2
    obtain ⟨a, off, hm⟩ := h.cur hp j h1 h2
    exact ⟨a, off, m.cons _ hm⟩
  · intro hp
    have := h.cons hp
    obtain ⟨a, s, hs⟩ := hC.cons hp
    rw [hs] at this ⊢
    exact m.vis _ _ _ this
  · intro a b hr j h1 h2
    obtain ⟨al, off, hm⟩ := h.resok a b hr j h1 h2
    exact ⟨al, off, m.cons _ hm⟩

theorem wait_exit (i k xs : Nat) (hi : i < 3) (hk : k < 3) (h1 : segBase k < xs) (h2 : ¬ segBase (i + 1) < xs) : k ≤ i := by
  have b0 := segBase_0; have b1 := segBase_1; have b2 := segBase_2; have b3 := segBase_3
  have : i = 0 ∨ i = 1 ∨ i = 2 := by omega
  have : k = 0 ∨ k = 1 ∨ k = 2 := by omega
  rcases ‹i = 0 ∨ i = 1 ∨ i = 2› with rfl | rfl | rfl <;> rcases ‹k = 0 ∨ k = 1 ∨ k = 2› with rfl | rfl | rfl <;> simp_all <;> omega

macro "locd2_close" : tactic => `(tactic| first
    | (simp [Pc.claim, Pc.isX, Pc.isCopy, Th.fbWon]; done)
    | grind
    | (simp_all [Pc.claim, Pc.isX, Pc.isK, Pc.isCopy, Th.fbWon, Th.inEn, Th.etab, Th.xs, Th.xe,
        Th.cseg, Th.cidx, Th.segEnd, Th.wEnd, xNeed, xSelf, altWait, csFirst, csOwner, csTagEnd, csFill, csMirror, growEager, growOwns,
        gtalLong, gtalGuard, nSlots, pointersPerEmbeddedTable, pointersPerLongTable]; omega))

/-- the thread holds an allocation that is not (yet) published -/
def Th.holds (t : Th) : Bool := t.pc == .kCasZero || t.pc == .kFreeFb || t.pc == .kStoreSeg

/-- the slot a segment owner is about to fill -/
def Th.oTab (t : Th) : Nat := if t.pc = .gLast2 then t.gtab else t.ctab
def Th.oSeg (t : Th) : Nat := if t.pc = .gLast2 then t.segEnd else t.cseg

/-- the thread is the allocator of segment `oSeg` (its claimed range contains the segment's first index, the segment is not
part of the first block) and is between having seen the slot empty and filling it -/
def Th.ownerPend (sh : Sh) (t : Th) : Prop :=
  t.pc = .gLast2 ∨ t.pc = .kAllocSeg ∨ t.pc = .kStoreSeg ∨ (t.pc = .kFb ∧ t.cidx = segBase t.cseg ∧ sh.fb ≤ t.cseg)

def Th.cK (t : Th) (k : Nat) : Val := if k = 0 then t.c0 else if k = 1 then t.c1 else t.c2

/-- entry `k` of the embedded table has been copied into the thread's new long table -/
def Th.copied (t : Th) (k : Nat) : Prop := t.pc = .xCas ∨ (t.pc = .xCopy ∧ k < t.i)

macro "tr_close" : tactic => `(tactic| first
    | (simp [Pc.claim, Th.holds, Th.ownerPend, Th.copied, Th.oTab, Th.oSeg]; done)
    | grind
    | (simp_all [Pc.claim, Th.holds, Th.ownerPend, Th.copied, Th.oTab, Th.oSeg, Th.cK, Th.etab, Th.xs, Th.xe,
        Th.cseg, Th.cidx, Th.segEnd, Th.wEnd, xNeed, xSelf, altWait, csFirst, csOwner, csTagEnd, csFill, csMirror, growEager, growOwns,
        gtalLong, gtalGuard, nSlots, pointersPerEmbeddedTable, pointersPerLongTable]; omega))

attribute [grind] Th.holds Th.ownerPend Th.copied Th.oTab Th.oSeg Th.cK

/-! Auxiliary matcher lemmas are generated on demand by `grind`/`split`; generating them here, in the common ancestor of the files
that are built in parallel, keeps two of those files from each generating (and exporting) their own copy. -/
theorem target_growTo (t : Th) (n : Nat) (rest : List Op) (h : t.ops = .growTo n :: rest) : t.target = n := by
  grind
theorem target_push (t : Th) (rest : List Op) (h : t.ops = .pushBack :: rest) : t.target = 0 := by
  grind
theorem etab_cases (t : Th) : t.etab = t.tab ∨ t.etab = t.gtab := by
  grind
theorem cseg_cases (t : Th) : t.cseg = segIndex t.idx ∨ t.cseg = t.segEnd := by
  grind
theorem cidx_cases (t : Th) : t.cidx = t.idx ∨ t.cidx = segBase t.segEnd := by
  grind
theorem xs_cases (t : Th) : t.xs = t.idx ∨ t.xs = t.start ∨ t.xs = 0 := by
  grind
theorem xe_cases (t : Th) : t.xe = t.idx + 1 ∨ t.xe = t.stop ∨ t.xe = segSize t.fbl := by
  grind
theorem leaveExtend_pc (t : Th) : (leaveExtend t).pc ≠ .idle := by
  grind
theorem fbWon_kFill (t : Th) (h : t.pc = .kFill) : t.fbWon = true := by grind
theorem fbWon_idle (t : Th) (h : t.pc = .idle) : t.fbWon = false := by grind
theorem fbPath_kZero (t : Th) (h : t.pc = .kZero) : t.fbPath = true := by grind
theorem fbPath_idle (t : Th) (h : t.pc = .idle) : t.fbPath = false := by grind
theorem pcpreds_idle (p : Pc) (h : p = .idle) :
    p.isX = false ∧ p.isK = false ∧ p.isKpre = false ∧ p.isG = false ∧ p.isGpre = false ∧ p.claim = false ∧ p.afb = false ∧
    p.isAlt = false ∧ p.isCopy = false := by
  subst h; grind
theorem pcpreds_xCopy (p : Pc) (h : p = .xCopy) : p.isX = true ∧ p.isAlt = true ∧ p.isCopy = true ∧ p.claim = true := by
  subst h; grind
theorem pcpreds_kFb (p : Pc) (h : p = .kFb) : p.isK = true ∧ p.isKpre = true ∧ p.isG = false := by
  subst h; grind
theorem pcpreds_gTab (p : Pc) (h : p = .gTab) : p.isG = true ∧ p.isGpre = true ∧ p.afb = false := by
  subst h; grind
theorem pcpreds_var (p : Pc) : p.isX = true → p.isK = false := by
  cases p <;> grind
theorem inpreds (t : Th) (h : t.pc = .sSlot) : t.inSubPost = true ∧ t.inSub = true ∧ t.freshTab = true ∧ t.inEn = false := by
  grind
theorem holds_defs (t : Th) (h : t.pc = .kFreeFb) : t.holds = true ∧ t.oTab = t.ctab ∧ t.oSeg = t.cseg := by
  grind

end TbbVerif.C11.Seg
