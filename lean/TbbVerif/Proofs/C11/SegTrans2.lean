/- C11 segment-table protocol: how one step changes "owner-pending slot" and "copied table entries". -/
import TbbVerif.Proofs.C11.SegTrans

namespace TbbVerif.C11.Seg
open TbbVerif.C11 (segIndex segBase segSize Op tiles)
open TbbVerif.Generated.C11

set_option maxHeartbeats 4000000 in
theorem owner_step (sh sh' : Sh) (t : Th) (r : R) (hfb : sh.fb ≠ 0 → sh'.fb = sh.fb) (hfbnz : t.pc = .kFb → sh.fb ≠ 0)
    (hkfb : t.pc = .kFb → r.n = sh.fb) (ho : (cont t r).ownerPend sh') :
    (t.ownerPend sh ∧ t.pc ≠ .kStoreSeg ∧ (cont t r).oTab = t.oTab ∧ (cont t r).oSeg = t.oSeg) ∨
    (t.pc = .sSlot ∧ r.v = .null ∧ (cont t r).oTab = t.tab ∧ (cont t r).oSeg = segIndex t.idx) ∨
    (t.pc = .gLast1 ∧ r.v = .null ∧ (cont t r).oTab = t.gtab ∧ (cont t r).oSeg = t.segEnd) := by
  cases hpc : t.pc
  case idle =>
    cases hops : t.ops with
    | nil => simp [cont, hpc, hops, Th.ownerPend] at ho
    | cons op rest =>
      exfalso
      cases op
      all_goals (simp only [cont, hpc, hops, opDone, afterCasLoop, growStart, waitStart, zStart] at ho; revert ho)
      all_goals (repeat' split)
      all_goals tr_close
  all_goals (
    (try simp only [hpc, reduceCtorEq, false_implies, forall_const] at hkfb hfbnz)
    revert ho; unfold_cont hpc)
  all_goals (repeat' split)
  all_goals tr_close

set_option maxHeartbeats 4000000 in
theorem copied_step (t : Th) (r : R) (k : Nat) (hk : k < 3) (hc : (cont t r).copied k) (hn : (cont t r).newTab ≠ 0)
    (hi : t.pc = .xCopy → t.i < 3) :
    (t.copied k ∧ (cont t r).cK k = t.cK k ∧ (cont t r).newTab = t.newTab) ∨
    (t.pc = .xCopy ∧ k = t.i ∧ (cont t r).cK k = r.v ∧ (cont t r).newTab = t.newTab) := by
  cases hpc : t.pc
  case idle =>
    cases hops : t.ops with
    | nil => simp [cont, hpc, hops, Th.copied] at hc
    | cons op rest =>
      exfalso
      cases op
      all_goals (simp only [cont, hpc, hops, opDone, afterCasLoop, growStart, waitStart, zStart] at hc; revert hc)
      all_goals (repeat' split)
      all_goals tr_close
  all_goals (
    (try simp only [hpc, reduceCtorEq, false_implies, forall_const] at hi)
    revert hc hn; unfold_cont hpc)
  all_goals (repeat' split)
  all_goals tr_close

end TbbVerif.C11.Seg
