/- C11 segment-table protocol: the failure flag of the table switch (my_segment_table_allocation_failed).
   A failing long-table allocation sets the flag before the thread leaves; the flag and the long table are never taken back;
   a thread waiting for the table switch in extend_table_if_necessary re-reads the flag in every iteration of its loop, so once
   the table is switched OR the flag is set it leaves the loop after at most two of its own steps, whatever the other
   threads do (any programs, any schedule, any fault plan). -/
import TbbVerif.Proofs.C11.SegBasic

namespace TbbVerif.C11.Seg
open TbbVerif.C11 (segIndex segBase segSize Op)
open TbbVerif.Generated.C11

/-- the thread is in the waiting branch of extend_table_if_necessary -/
def Th.tableWaiter (t : Th) : Prop := t.pc = .xFlag ∨ t.pc = .xReload

/-- how many of its own steps a table-switch waiter still needs before it leaves its loop (0 = not waiting, 3 = nothing released it yet) -/
def wrank (sh : Sh) (t : Th) : Nat :=
  if t.pc = .xFlag then (if sh.failed then 1 else if sh.tptr ≠ 0 then 2 else 3)
  else if t.pc = .xReload then (if sh.tptr ≠ 0 then 1 else if sh.failed then 2 else 3)
  else 0

theorem wrank_zero_iff (sh : Sh) (t : Th) : wrank sh t = 0 ↔ ¬ t.tableWaiter := by
  unfold wrank Th.tableWaiter
  by_cases h1 : t.pc = .xFlag
  · simp [h1]; split <;> (try split) <;> omega
  · by_cases h2 : t.pc = .xReload
    · simp [h2]; split <;> (try split) <;> omega
    · simp [h1, h2]

theorem failed_performS (sh : Sh) (a : Acc) (h : sh.failed = true) : (performS sh a).failed = true := by
  cases a <;> simp only [performS]
  case casSize => split <;> exact h
  case casFb => split <;> exact h
  case casTptr d c0 c1 c2 => split <;> (try split) <;> exact h
  case loadSlot => simpa using h
  case storeSlot => simpa using h
  case casSlot => split <;> simpa using h
  case alloc => split <;> exact h
  case talloc => split <;> exact h
  case ctor idx p => split <;> (try split) <;> exact h
  all_goals first | exact h | rfl

theorem tptr_performS_nz (sh : Sh) (a : Acc) (h : sh.tptr ≠ 0) : (performS sh a).tptr = sh.tptr := by
  cases a <;> simp only [performS]
  case casSize => split <;> rfl
  case casFb => split <;> rfl
  case casTptr d c0 c1 c2 => simp [h]
  case loadSlot => simp
  case storeSlot => simp
  case casSlot => split <;> simp
  case alloc => split <;> rfl
  case talloc => split <;> rfl
  case ctor idx p => split <;> (try split) <;> rfl
  all_goals rfl

/-- the thread whose long-table allocation threw sets my_segment_table_allocation_failed with its next access -/
theorem table_alloc_failure_sets_flag (s : St) (tid : Nat) (t : Th) (ht : s.ths[tid]? = some t) (hpc : t.pc = .xFailStore) :
    (step s tid).sh.failed = true := by
  have : accOf t = some .storeFailed := by simp [accOf, hpc]
  unfold step
  simp only [ht, stepTh, this]
  simp [performS]

/-- a failing long-table allocation leads to the store of the flag -/
theorem table_alloc_failure_goes_to_store (sh : Sh) (t : Th) (hpc : t.pc = .xAlloc) (hf : (sh.tabCalls + 1) ∈ sh.fTab) :
    (cont t (performR sh .talloc)).pc = .xFailStore := by
  simp [cont, hpc, performR, hf]

/-- once set, the flag stays set; once switched, the table stays switched -/
theorem released_monotone (s : St) (tid : Nat) :
    (s.sh.failed = true → (step s tid).sh.failed = true) ∧ (s.sh.tptr ≠ 0 → (step s tid).sh.tptr = s.sh.tptr) := by
  rcases step_eq s tid with he | ⟨t, a, ht, ha, he⟩
  · rw [he]; exact ⟨id, fun _ => rfl⟩
  · rw [he]; exact ⟨failed_performS _ _, tptr_performS_nz _ _⟩

theorem wrank_le (sh sh' : Sh) (t : Th) (hf : sh.failed = true → sh'.failed = true) (ht : sh.tptr ≠ 0 → sh'.tptr ≠ 0) :
    wrank sh' t ≤ wrank sh t := by
  unfold wrank
  repeat' split
  all_goals first
    | omega
    | (exfalso; simp_all; done)

theorem wrank_eq_zero (sh : Sh) (t : Th) (h1 : t.pc ≠ .xFlag) (h2 : t.pc ≠ .xReload) : wrank sh t = 0 := by
  simp [wrank, h1, h2]

/-- other threads' steps never make a waiter wait longer -/
theorem wrank_other (s : St) (tid : Nat) (t : Th) : wrank (step s tid).sh t ≤ wrank s.sh t := by
  have hm := released_monotone s tid
  exact wrank_le _ _ _ hm.1 (fun h => by rw [hm.2 h]; exact h)

theorem leaveExtend_not_waiting (u : Th) : (leaveExtend u).pc ≠ .xFlag ∧ (leaveExtend u).pc ≠ .xReload := by
  unfold leaveExtend fillStart mirrorStart leaveCreate
  split <;> (try split) <;> (try split) <;> simp

/-- a released waiter's own step brings it strictly closer to leaving the loop -/
theorem wrank_own (sh : Sh) (t : Th) (a : Acc) (ha : accOf t = some a) (h0 : 0 < wrank sh t) (h3 : wrank sh t < 3) :
    wrank (performS sh a) (cont t (performR sh a)) < wrank sh t := by
  by_cases h1 : t.pc = .xFlag
  · have : a = .loadFailed := by simp [accOf, h1] at ha; exact ha.symm
    subst this
    by_cases hf : sh.failed = true
    · have hz : wrank (performS sh .loadFailed) (cont t (performR sh .loadFailed)) = 0 := by
        apply wrank_eq_zero <;> simp [cont, h1, performR, hf, opDone]
      omega
    · have ht : sh.tptr ≠ 0 := by
        apply Classical.byContradiction; intro hc
        simp [wrank, h1, hf] at h3; simp at hc; simp [hc] at h3
      have hr : wrank sh t = 2 := by simp [wrank, h1, hf, ht]
      have hn : wrank (performS sh .loadFailed) (cont t (performR sh .loadFailed)) = 1 := by
        simp [wrank, cont, h1, performR, performS, hf, ht]
      omega
  · by_cases h2 : t.pc = .xReload
    · have : a = .loadTptr := by simp [accOf, h2] at ha; exact ha.symm
      subst this
      by_cases ht : sh.tptr ≠ 0
      · have hl := leaveExtend_not_waiting { t with x := sh.tptr }
        have hz : wrank (performS sh .loadTptr) (cont t (performR sh .loadTptr)) = 0 := by
          apply wrank_eq_zero
          · simp only [cont, h2, performR]; simp only [ht, if_false]; exact hl.1
          · simp only [cont, h2, performR]; simp only [ht, if_false]; exact hl.2
        omega
      · have h0' : sh.tptr = 0 := by simpa using ht
        have hf : sh.failed = true := by
          apply Classical.byContradiction; intro hc
          simp [wrank, h1, h2, h0', hc] at h3
        have hr : wrank sh t = 2 := by simp [wrank, h1, h2, h0', hf]
        have hn : wrank (performS sh .loadTptr) (cont t (performR sh .loadTptr)) = 1 := by
          simp [wrank, cont, h2, performR, performS, h0', hf]
        omega
    · simp [wrank, h1, h2] at h0

/-- **every waiter of the table switch eventually leaves its loop, by seeing the new table or the failure flag**: if the table
has been switched or the allocation-failed flag is set (`wrank < 3`), then after any schedule fragment in which the waiter
itself runs at least twice there was a moment at which it was no longer in the waiting loop — whatever the other threads did. -/
theorem table_switch_waiters_released (tid : Nat) :
    ∀ (sched : List Tid) (s : St) (t : Th), s.ths[tid]? = some t → wrank s.sh t < 3 → wrank s.sh t ≤ sched.count tid →
      ∃ p t', p <+: sched ∧ ((sys []).runFrom s p).ths[tid]? = some t' ∧ ¬ t'.tableWaiter := by
  intro sched
  induction sched with
  | nil =>
    intro s t ht h3 hc
    simp at hc
    exact ⟨[], t, List.prefix_refl _, by simpa using ht, (wrank_zero_iff _ _).mp hc⟩
  | cons x xs ih =>
    intro s t ht h3 hc
    by_cases h0 : wrank s.sh t = 0
    · exact ⟨[], t, List.nil_prefix, by simpa using ht, (wrank_zero_iff _ _).mp h0⟩
    · have hstep : (sys []).runFrom s (x :: xs) = (sys []).runFrom (step s x) xs := rfl
      by_cases hx : x = tid
      · subst hx
        have hw : t.tableWaiter := Classical.byContradiction fun hc' => h0 ((wrank_zero_iff _ _).mpr hc')
        obtain ⟨a, ha⟩ : ∃ a, accOf t = some a := by
          rcases hw with hw | hw <;> simp [accOf, hw]
        have he : step s x = { sh := performS s.sh a, ths := s.ths.set x (cont t (performR s.sh a)) } := by
          unfold step; simp [ht, stepTh, ha]
        have hlt := wrank_own s.sh t a ha (by omega) h3
        have hlt' : x < s.ths.length := (List.getElem?_eq_some_iff.mp ht).1
        have ht' : (step s x).ths[x]? = some (cont t (performR s.sh a)) := by
          rw [he]; simp [hlt']
        have hsh : (step s x).sh = performS s.sh a := by rw [he]
        have hc2 : wrank s.sh t ≤ xs.count x + 1 := by rw [List.count_cons_self] at hc; exact hc
        obtain ⟨p, t', hp, hget, hnw⟩ := ih (step s x) _ ht' (by rw [hsh]; omega) (by rw [hsh]; omega)
        exact ⟨x :: p, t', List.cons_prefix_cons.mpr ⟨rfl, hp⟩, hget, hnw⟩
      · have ht' : (step s x).ths[tid]? = some t := by
          rcases step_eq s x with he | ⟨t0, a, ht0, ha, he⟩
          · rw [he]; exact ht
          · rw [he]; simp only [List.getElem?_set]; simp [hx, ht]
        have hle := wrank_other s x t
        have hc' : wrank (step s x).sh t ≤ xs.count tid := by
          rw [List.count_cons_of_ne (fun h => hx h)] at hc; omega
        obtain ⟨p, t', hp, hget, hnw⟩ := ih (step s x) t ht' (by omega) hc'
        exact ⟨x :: p, t', List.cons_prefix_cons.mpr ⟨rfl, hp⟩, hget, hnw⟩

end TbbVerif.C11.Seg
