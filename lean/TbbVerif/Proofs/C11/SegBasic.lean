/- C11 segment-table protocol: basic lemmas (padded list writes, slot reads/writes, step shape, small arithmetic). -/
import TbbVerif.Model.C11Seg
import TbbVerif.Proofs.C11

namespace TbbVerif.C11.Seg
open TbbVerif.C11 (segIndex segBase segSize Op)
open TbbVerif.Generated.C11

/-! ### setPad -/

theorem getD_setPad' {α : Type} (d : α) (l : List α) (k k' : Nat) (v : α) :
    (setPad d l k v).getD k' d = if k' = k then v else l.getD k' d := by
  induction l generalizing k k' with
  | nil =>
    induction k generalizing k' with
    | zero => cases k' <;> simp [setPad]
    | succ k ih =>
      cases k' with
      | zero => simp [setPad]
      | succ k' => simpa [setPad] using ih k'
  | cons a l ih =>
    cases k with
    | zero => cases k' <;> simp [setPad]
    | succ k =>
      cases k' with
      | zero => simp [setPad]
      | succ k' => simpa [setPad] using ih k k'

theorem getD_setPad {α : Type} (d : α) (l : List α) (k k' : Nat) (v : α) :
    (setPad d l k v)[k']?.getD d = if k' = k then v else l[k']?.getD d := by
  have := getD_setPad' d l k k' v
  simpa [List.getD_eq_getElem?_getD] using this

/-! ### slots -/

@[simp] theorem slot_setSlot (sh : Sh) (T k T' k' : Nat) (v : Val) :
    slot (setSlot sh T k v) T' k' =
      if (T = 0 ↔ T' = 0) ∧ k' = k then v else slot sh T' k' := by
  unfold slot setSlot
  by_cases hT : T = 0 <;> by_cases hT' : T' = 0 <;> simp [hT, hT', getD_setPad]

@[simp] theorem slot_touch (sh : Sh) (T k T' k' : Nat) : slot (touch sh T k) T' k' = slot sh T' k' := by
  unfold touch; split
  · rfl
  · split <;> simp [slot]

@[simp] theorem touch_tptr (sh : Sh) (T k : Nat) : (touch sh T k).tptr = sh.tptr := by
  unfold touch; split
  · rfl
  · split <;> rfl
@[simp] theorem touch_fb (sh : Sh) (T k : Nat) : (touch sh T k).fb = sh.fb := by
  unfold touch; split
  · rfl
  · split <;> rfl
@[simp] theorem touch_size (sh : Sh) (T k : Nat) : (touch sh T k).size = sh.size := by
  unfold touch; split
  · rfl
  · split <;> rfl
@[simp] theorem touch_log (sh : Sh) (T k : Nat) : (touch sh T k).log = sh.log := by
  unfold touch; split
  · rfl
  · split <;> rfl
@[simp] theorem touch_allocs (sh : Sh) (T k : Nat) : (touch sh T k).allocs = sh.allocs := by
  unfold touch; split
  · rfl
  · split <;> rfl
@[simp] theorem touch_cons (sh : Sh) (T k : Nat) : (touch sh T k).cons = sh.cons := by
  unfold touch; split
  · rfl
  · split <;> rfl
@[simp] theorem touch_failed (sh : Sh) (T k : Nat) : (touch sh T k).failed = sh.failed := by
  unfold touch; split
  · rfl
  · split <;> rfl
@[simp] theorem touch_wild (sh : Sh) (T k : Nat) : (touch sh T k).wild = sh.wild := by
  unfold touch; split
  · rfl
  · split <;> rfl
@[simp] theorem touch_badTab (sh : Sh) (T k : Nat) : (touch sh T k).badTab = sh.badTab := by
  unfold touch; split
  · rfl
  · split <;> rfl
@[simp] theorem touch_fAlloc (sh : Sh) (T k : Nat) : (touch sh T k).fAlloc = sh.fAlloc := by
  unfold touch; split
  · rfl
  · split <;> rfl
@[simp] theorem touch_fTab (sh : Sh) (T k : Nat) : (touch sh T k).fTab = sh.fTab := by
  unfold touch; split
  · rfl
  · split <;> rfl
@[simp] theorem touch_fCtor (sh : Sh) (T k : Nat) : (touch sh T k).fCtor = sh.fCtor := by
  unfold touch; split
  · rfl
  · split <;> rfl

@[simp] theorem setSlot_tptr (sh : Sh) (T k : Nat) (v : Val) : (setSlot sh T k v).tptr = sh.tptr := by
  unfold setSlot; split <;> rfl
@[simp] theorem setSlot_fb (sh : Sh) (T k : Nat) (v : Val) : (setSlot sh T k v).fb = sh.fb := by
  unfold setSlot; split <;> rfl
@[simp] theorem setSlot_size (sh : Sh) (T k : Nat) (v : Val) : (setSlot sh T k v).size = sh.size := by
  unfold setSlot; split <;> rfl
@[simp] theorem setSlot_log (sh : Sh) (T k : Nat) (v : Val) : (setSlot sh T k v).log = sh.log := by
  unfold setSlot; split <;> rfl
@[simp] theorem setSlot_allocs (sh : Sh) (T k : Nat) (v : Val) : (setSlot sh T k v).allocs = sh.allocs := by
  unfold setSlot; split <;> rfl
@[simp] theorem setSlot_cons (sh : Sh) (T k : Nat) (v : Val) : (setSlot sh T k v).cons = sh.cons := by
  unfold setSlot; split <;> rfl
@[simp] theorem setSlot_failed (sh : Sh) (T k : Nat) (v : Val) : (setSlot sh T k v).failed = sh.failed := by
  unfold setSlot; split <;> rfl
@[simp] theorem setSlot_wild (sh : Sh) (T k : Nat) (v : Val) : (setSlot sh T k v).wild = sh.wild := by
  unfold setSlot; split <;> rfl
@[simp] theorem setSlot_badTab (sh : Sh) (T k : Nat) (v : Val) : (setSlot sh T k v).badTab = sh.badTab := by
  unfold setSlot; split <;> rfl
@[simp] theorem setSlot_oobE (sh : Sh) (T k : Nat) (v : Val) : (setSlot sh T k v).oobE = sh.oobE := by
  unfold setSlot; split <;> rfl
@[simp] theorem setSlot_fAlloc (sh : Sh) (T k : Nat) (v : Val) : (setSlot sh T k v).fAlloc = sh.fAlloc := by
  unfold setSlot; split <;> rfl
@[simp] theorem setSlot_fTab (sh : Sh) (T k : Nat) (v : Val) : (setSlot sh T k v).fTab = sh.fTab := by
  unfold setSlot; split <;> rfl
@[simp] theorem setSlot_fCtor (sh : Sh) (T k : Nat) (v : Val) : (setSlot sh T k v).fCtor = sh.fCtor := by
  unfold setSlot; split <;> rfl

@[simp] theorem slot_pubS (sh : Sh) (v : Val) (T k : Nat) : slot (pubS sh v) T k = slot sh T k := rfl
@[simp] theorem pubS_tptr (sh : Sh) (v : Val) : (pubS sh v).tptr = sh.tptr := rfl
@[simp] theorem pubS_fb (sh : Sh) (v : Val) : (pubS sh v).fb = sh.fb := rfl
@[simp] theorem pubS_size (sh : Sh) (v : Val) : (pubS sh v).size = sh.size := rfl
@[simp] theorem pubS_log (sh : Sh) (v : Val) : (pubS sh v).log = sh.log := rfl
@[simp] theorem pubS_cons (sh : Sh) (v : Val) : (pubS sh v).cons = sh.cons := rfl
@[simp] theorem pubS_failed (sh : Sh) (v : Val) : (pubS sh v).failed = sh.failed := rfl
@[simp] theorem pubS_wild (sh : Sh) (v : Val) : (pubS sh v).wild = sh.wild := rfl
@[simp] theorem pubS_badTab (sh : Sh) (v : Val) : (pubS sh v).badTab = sh.badTab := rfl
@[simp] theorem pubS_oobE (sh : Sh) (v : Val) : (pubS sh v).oobE = sh.oobE := rfl
@[simp] theorem pubS_fAlloc (sh : Sh) (v : Val) : (pubS sh v).fAlloc = sh.fAlloc := rfl
@[simp] theorem pubS_fTab (sh : Sh) (v : Val) : (pubS sh v).fTab = sh.fTab := rfl
@[simp] theorem pubS_fCtor (sh : Sh) (v : Val) : (pubS sh v).fCtor = sh.fCtor := rfl
@[simp] theorem pubS_allocs (sh : Sh) (v : Val) : (pubS sh v).allocs = publish sh.allocs v := rfl
@[simp] theorem pubS_emb (sh : Sh) (v : Val) : (pubS sh v).emb = sh.emb := rfl
@[simp] theorem pubS_long (sh : Sh) (v : Val) : (pubS sh v).long = sh.long := rfl

/-! ### the shape of a step -/

theorem step_eq (s : St) (tid : Tid) :
    step s tid = s ∨
    ∃ t a, s.ths[tid]? = some t ∧ accOf t = some a ∧
      step s tid = { sh := performS s.sh a, ths := s.ths.set tid (cont t (performR s.sh a)) } := by
  unfold step
  cases ht : s.ths[tid]? with
  | none => exact Or.inl rfl
  | some t =>
    simp only [stepTh]
    cases ha : accOf t with
    | none =>
      left
      simp only
      have : s.ths.set tid t = s.ths := by
        apply List.ext_getElem?
        intro i
        rw [List.getElem?_set]
        split
        · rename_i h; subst h
          split
          · exact ht.symm
          · rename_i h2; simp at h2; rw [List.getElem?_eq_none (by omega)] at ht; cases ht
        · rfl
      rw [this]
    | some a => exact Or.inr ⟨t, a, rfl, ha, rfl⟩

/-- reading back a thread after `set` -/
theorem get_set (ths : List Th) (tid : Nat) (t' : Th) (j : Nat) (u : Th)
    (h : (ths.set tid t')[j]? = some u) : (j = tid ∧ u = t') ∨ (j ≠ tid ∧ ths[j]? = some u) := by
  rw [List.getElem?_set] at h
  split at h
  · rename_i e
    split at h
    · simp at h; exact Or.inl ⟨e.symm, h.symm⟩
    · simp at h
  · rename_i e; exact Or.inr ⟨fun c => e c.symm, h⟩

/-! ### small arithmetic about segments -/

theorem segIndex_lt3 (i : Nat) (h : i < 8) : segIndex i < 3 := by
  have : i = 0 ∨ i = 1 ∨ i = 2 ∨ i = 3 ∨ i = 4 ∨ i = 5 ∨ i = 6 ∨ i = 7 := by omega
  rcases this with rfl | rfl | rfl | rfl | rfl | rfl | rfl | rfl <;> decide

theorem segBase_0 : segBase 0 = 0 := by decide
theorem segBase_1 : segBase 1 = 2 := by decide
theorem segBase_2 : segBase 2 = 4 := by decide
theorem segBase_3 : segBase 3 = 8 := by decide
theorem segSize_le8 (k : Nat) (h : segSize k ≤ 8) : k ≤ 3 := by
  rw [TbbVerif.C11.segSize_eq] at h
  split at h
  · omega
  · apply Classical.byContradiction
    intro hc
    have : 2 ^ 4 ≤ 2 ^ k := Nat.pow_le_pow_right (by omega) (by omega)
    omega

end TbbVerif.C11.Seg
