/- C11 segment-table protocol, failure-free runs: ranges tile and in-flight ranges are disjoint; my_first_block comes from a
   handed-out range; the per-thread facts; the construction ledger (each index constructed once, at the address the table maps)
   — preserved by a step. -/
import TbbVerif.Proofs.C11.SegStepL5

namespace TbbVerif.C11.Seg
open TbbVerif.C11 (segIndex segBase segSize Op tiles)
open TbbVerif.Generated.C11

theorem tile_step (s : St) (D : DInv s) (tid : Nat) (t : Th) (ht : s.ths[tid]? = some t) (a : Acc) (ha : accOf t = some a) :
    tiles 0 (performS s.sh a).log (performS s.sh a).size := by
  rw [log_performS, size_performS]
  cases a with
  | faddSize d =>
    simp only
    obtain ⟨_, h⟩ := accOf_faddSize t d ha
    have hd : 0 < d := by rcases h with ⟨_, _, rfl⟩ | ⟨_, _, h⟩ <;> omega
    exact TbbVerif.C11.tiles_append 0 s.sh.size _ s.sh.log _ _ D.tile rfl (by omega) rfl
  | casSize e d =>
    simp only
    split
    · rename_i hs
      obtain ⟨hpc, rfl, rfl⟩ := accOf_casSize t e d ha
      have := (D.d1 tid t ht).tcas hpc
      exact TbbVerif.C11.tiles_append 0 s.sh.size _ s.sh.log _ _ D.tile hs.symm this rfl
    · exact D.tile
  | _ => exact D.tile

theorem size_mono_step (sh : Sh) (a : Acc) (t : Th) (ha : accOf t = some a) (htc : t.pc = .tCas → t.old < t.target) :
    sh.size ≤ (performS sh a).size := by
  rw [size_performS]
  cases a with
  | faddSize d => simp only; omega
  | casSize e d =>
    simp only; split
    · rename_i hs
      obtain ⟨hpc, rfl, rfl⟩ := accOf_casSize t e d ha
      have := htc hpc; omega
    · omega
  | _ => exact Nat.le_refl _

/-- a freshly claimed range starts at the old size -/
theorem new_claim_start (s : St) (D : DInv s) (tid : Nat) (t : Th) (ht : s.ths[tid]? = some t) (a : Acc) (ha : accOf t = some a)
    (hnew : (t.pc = .idle ∧ ∃ d, accOf t = some (.faddSize d) ∧ (cont t (performR s.sh a)).start = (performR s.sh a).n) ∨
            (t.pc = .tCas ∧ (performR s.sh a).ok = true ∧ (cont t (performR s.sh a)).start = t.old)) :
    (cont t (performR s.sh a)).start = s.sh.size := by
  rcases hnew with ⟨_, d, had, hst⟩ | ⟨hpc, hok, hst⟩
  · rw [ha] at had; cases had
    rw [hst]; rfl
  · have : a = .casSize t.old t.target := by simp [accOf, hpc] at ha; exact ha.symm
    subst this
    rw [hst]
    simp only [performR] at hok
    split at hok
    · rename_i h; exact h.symm
    · cases hok

theorem disj_step (s : St) (D : DInv s) (tid : Nat) (t : Th) (ht : s.ths[tid]? = some t) (a : Acc) (ha : accOf t = some a) :
    ∀ (i j : Nat) (u v : Th), i ≠ j → (s.ths.set tid (cont t (performR s.sh a)))[i]? = some u →
      (s.ths.set tid (cont t (performR s.sh a)))[j]? = some v → u.pc.claim = true → v.pc.claim = true →
      u.stop ≤ v.start ∨ v.stop ≤ u.start := by
  -- the stepping thread against another one
  have key : ∀ (j : Nat) (v : Th), j ≠ tid → s.ths[j]? = some v → v.pc.claim = true → (cont t (performR s.sh a)).pc.claim = true →
      (cont t (performR s.sh a)).stop ≤ v.start ∨ v.stop ≤ (cont t (performR s.sh a)).start := by
    intro j v hj hv hvc htc
    have hvlog := (D.d1 j v hv).inlog hvc
    have hvb := tiles_nonempty 0 _ _ D.tile _ hvlog
    rcases claim_step t (performR s.sh a) htc with ⟨hc, h1, h2, _⟩ | ⟨hp, d, had, h1, _⟩ | ⟨hp, hok, h1, _⟩
    · rw [h1, h2]; exact D.disj tid j t v (Ne.symm hj) ht hv hc hvc
    · right
      rw [new_claim_start s D tid t ht a ha (Or.inl ⟨hp, d, had, h1⟩)]
      exact hvb.2
    · right
      rw [new_claim_start s D tid t ht a ha (Or.inr ⟨hp, hok, h1⟩)]
      exact hvb.2
  intro i j u v hij hu hv huc hvc
  rcases get_set _ _ _ _ _ hu with ⟨rfl, rfl⟩ | ⟨hi, hu'⟩
  · rcases get_set _ _ _ _ _ hv with ⟨rfl, _⟩ | ⟨hj, hv'⟩
    · exact absurd rfl hij
    · exact key j v hj hv' hvc huc
  · rcases get_set _ _ _ _ _ hv with ⟨rfl, rfl⟩ | ⟨hj, hv'⟩
    · rcases key i u hi hu' huc hvc with h | h
      · exact Or.inr h
      · exact Or.inl h
    · exact D.disj i j u v hij hu' hv' huc hvc

theorem fblog_step (s : St) (D : DInv s) (tid : Nat) (t : Th) (ht : s.ths[tid]? = some t) (a : Acc) (ha : accOf t = some a) :
    (performS s.sh a).fb ≠ 0 → (performS s.sh a).fb = 1 ∨
      ∃ x y, (x, y) ∈ (performS s.sh a).log ∧ (performS s.sh a).fb = segIndex (y - 1) + 1 := by
  have m := step_mono2 s D tid t ht a ha
  intro hfb
  by_cases h0 : s.sh.fb = 0
  · rw [fb_performS] at hfb ⊢
    cases a with
    | casFb d =>
      simp only [h0, if_true] at hfb ⊢
      rcases accOf_casFb t d ha with ⟨_, rfl⟩ | ⟨hpc, rfl⟩
      · left; rfl
      · right
        have hc : t.pc.claim = true := by rw [hpc]; rfl
        exact ⟨t.start, t.stop, m.log _ ((D.d1 tid t ht).inlog hc), rfl⟩
    | _ => exact absurd h0 hfb
  · rw [m.m.fb h0]
    rcases D.fblog h0 with h | ⟨x, y, hxy, h⟩
    · exact Or.inl h
    · exact Or.inr ⟨x, y, m.log _ hxy, h⟩

end TbbVerif.C11.Seg
