/- C11 segment-table protocol: the inductive invariant of failure-free runs (`DInv`). -/
import TbbVerif.Proofs.C11.SegEffects

namespace TbbVerif.C11.Seg
open TbbVerif.C11 (segIndex segBase segSize Op tiles)
open TbbVerif.Generated.C11

structure DInv (s : St) : Prop where
  g : GInv s
  nf : NoFault s.sh
  tile : tiles 0 s.sh.log s.sh.size
  disj : ∀ (i j : Nat) (t u : Th), i ≠ j → s.ths[i]? = some t → s.ths[j]? = some u → t.pc.claim = true → u.pc.claim = true →
      t.stop ≤ u.start ∨ u.stop ≤ t.start
  d1 : ∀ (j : Nat) (u : Th), s.ths[j]? = some u → LocD1 s.sh u
  d2 : ∀ (j : Nat) (u : Th), s.ths[j]? = some u → LocD2 s.sh u
  fblog : s.sh.fb ≠ 0 → s.sh.fb = 1 ∨ ∃ a b, (a, b) ∈ s.sh.log ∧ s.sh.fb = segIndex (b - 1) + 1
  long0 : s.sh.tptr = 0 → ∀ k, slot s.sh 1 k = .null
  fb0 : s.sh.fb = 0 → ∀ T k, slot s.sh T k = .null
  embnull : ∀ k, 3 ≤ k → slot s.sh 0 k = .null
  copy : s.sh.tptr ≠ 0 → ∀ k, slot s.sh 0 k ≠ .null → slot s.sh 1 k = slot s.sh 0 k
  switched : s.sh.tptr ≠ 0 →
      (3 < s.sh.fb ∧ slot s.sh 0 0 ≠ .null) ∨
      (∃ a b, (a, b) ∈ s.sh.log ∧ a ≤ 8 ∧ 8 < b ∧ ∀ k, k < 3 → segBase k < a → slot s.sh 0 k ≠ .null)
  notag : ∀ T k, slot s.sh T k ≠ .tag
  sl : ∀ (T k a sft : Nat), slot s.sh T k = .ptr a sft → ∃ e : AInfo, s.sh.allocs[a]? = some e ∧ e.st = .pub ∧
      ((e.first = true ∧ sft = 0 ∧ k < s.sh.fb ∧ e.n = segSize s.sh.fb) ∨
       (e.first = false ∧ sft = segBase k ∧ e.seg = k ∧ s.sh.fb ≤ k ∧ e.n = segSize k))
  uniq : ∀ (a b : Nat) (e e' : AInfo), s.sh.allocs[a]? = some e → s.sh.allocs[b]? = some e' → e.first = false → e'.first = false →
      e.seg = e'.seg → a = b
  onefirst : ∀ (a b : Nat) (e e' : AInfo), s.sh.allocs[a]? = some e → s.sh.allocs[b]? = some e' → e.first = true → e'.first = true →
      e.st = .pub → e'.st = .pub → a = b
  pubslot : ∀ (a : Nat) (e : AInfo), s.sh.allocs[a]? = some e → e.st = .pub →
      (e.first = true → (slot s.sh 0 0 = .ptr a 0 ∨ slot s.sh 1 0 = .ptr a 0)) ∧
      (e.first = false → (slot s.sh 0 e.seg = .ptr a (segBase e.seg) ∨ slot s.sh 1 e.seg = .ptr a (segBase e.seg)))
  freedfirst : ∀ (a : Nat) (e : AInfo), s.sh.allocs[a]? = some e → e.st = .freed → e.first = true
  held : ∀ (a : Nat) (e : AInfo), s.sh.allocs[a]? = some e → e.st = .held → ∃ (j : Nat) (u : Th), s.ths[j]? = some u ∧ u.newSeg = a ∧ u.holds = true
  holder : ∀ (j : Nat) (u : Th), s.ths[j]? = some u → u.holds = true → ∃ e : AInfo, s.sh.allocs[u.newSeg]? = some e ∧ e.st = .held ∧
      (u.pc = .kStoreSeg → e.first = false ∧ e.seg = u.cseg ∧ e.n = segSize u.cseg) ∧
      (u.pc ≠ .kStoreSeg → e.first = true ∧ e.n = segSize u.fbl)
  holders : ∀ (i j : Nat) (t u : Th), i ≠ j → s.ths[i]? = some t → s.ths[j]? = some u → t.holds = true → u.holds = true →
      t.newSeg ≠ u.newSeg
  ownull : ∀ (j : Nat) (u : Th), s.ths[j]? = some u → u.ownerPend s.sh → slot s.sh u.oTab u.oSeg = .null
  pend : ∀ (j : Nat) (u : Th), s.ths[j]? = some u → s.sh.tptr = 0 → u.newTab ≠ 0 → ∀ k, k < 3 → u.copied k →
      u.cK k = slot s.sh 0 k
  consok : ∀ i a off, (i, a, off) ∈ s.sh.cons → ∃ sft, visible s.sh (segIndex i) = .ptr a sft ∧ off = i - sft
  consnodup : (s.sh.cons.map (·.1)).Nodup
  consbound : ∀ i a off, (i, a, off) ∈ s.sh.cons → i < s.sh.size
  conscur : ∀ i a off, (i, a, off) ∈ s.sh.cons → ∀ (j : Nat) (u : Th), s.ths[j]? = some u → u.pc.claim = true →
      u.start ≤ i → i < u.stop → i < u.idx

theorem DInv_init (progs : List (List Op)) : DInv (sys progs).init := by
  have hth : ∀ (j : Nat) (u : Th), (sys progs).init.ths[j]? = some u → ∃ p, u = { ops := p } := by
    intro j u hu
    simp [sys, sysF, List.getElem?_map] at hu
    obtain ⟨p, _, rfl⟩ := hu
    exact ⟨p, rfl⟩
  refine { g := GInv_init progs [] [] [], nf := ⟨rfl, rfl, rfl, rfl⟩, tile := by simp [sys, sysF, tiles], disj := ?_, d1 := ?_, d2 := ?_,
           fblog := by simp [sys, sysF], long0 := by simp [sys, sysF, slot], fb0 := ?_, embnull := ?_, copy := by simp [sys, sysF],
           switched := by simp [sys, sysF], notag := ?_, sl := ?_, uniq := by simp [sys, sysF], onefirst := by simp [sys, sysF],
           pubslot := by simp [sys, sysF], freedfirst := by simp [sys, sysF], held := by simp [sys, sysF], holder := ?_, holders := ?_, ownull := ?_, pend := ?_,
           consok := by simp [sys, sysF], consnodup := by simp [sys, sysF], consbound := by simp [sys, sysF],
           conscur := by simp [sys, sysF] }
  · intro i j t u _ ht hu hc
    obtain ⟨p, rfl⟩ := hth i t ht
    simp [Pc.claim] at hc
  · intro j u hu; obtain ⟨p, rfl⟩ := hth j u hu; exact LocD1_init _ p
  · intro j u hu; obtain ⟨p, rfl⟩ := hth j u hu; exact LocD2_init _ p
  · intro _ T k
    simp only [sys, sysF, slot]
    split
    · match k with
      | 0 => simp
      | 1 => simp
      | 2 => simp
      | k + 3 => simp
    · simp
  · intro k hk
    have : k = 3 + (k - 3) := by omega
    simp [sys, sysF, slot]
    rw [this]; simp
  · intro T k
    simp only [sys, sysF, slot]
    split
    · match k with
      | 0 => simp
      | 1 => simp
      | 2 => simp
      | k + 3 => simp
    · simp
  · intro T k a sft h
    exfalso
    simp only [sys, sysF, slot] at h
    split at h
    · match k with
      | 0 => simp at h
      | 1 => simp at h
      | 2 => simp at h
      | k + 3 => simp at h
    · simp at h
  · intro j u hu hh; obtain ⟨p, rfl⟩ := hth j u hu; simp [Th.holds] at hh
  · intro i j t u _ ht _ hh; obtain ⟨p, rfl⟩ := hth i t ht; simp [Th.holds] at hh
  · intro j u hu ho; obtain ⟨p, rfl⟩ := hth j u hu; simp [Th.ownerPend] at ho
  · intro j u hu _ hn; obtain ⟨p, rfl⟩ := hth j u hu; simp at hn

end TbbVerif.C11.Seg
