/- C11 segment-table protocol: how one step of a thread changes the locals that the cross-thread invariants talk about
   (claimed range, construction cursor, held allocation). -/
import TbbVerif.Proofs.C11.SegDefs

namespace TbbVerif.C11.Seg
open TbbVerif.C11 (segIndex segBase segSize Op tiles)
open TbbVerif.Generated.C11

set_option maxHeartbeats 4000000 in
/-- the claimed range and the construction cursor -/
theorem claim_step (t : Th) (r : R) (hc : (cont t r).pc.claim = true) :
    (t.pc.claim = true ∧ (cont t r).start = t.start ∧ (cont t r).stop = t.stop ∧ t.idx ≤ (cont t r).idx ∧
        ((cont t r).idx = t.idx ∨ (t.pc = .construct ∧ r.ok = true ∧ (cont t r).idx = t.idx + 1))) ∨
    (t.pc = .idle ∧ ∃ d, accOf t = some (.faddSize d) ∧ (cont t r).start = r.n ∧ (cont t r).stop = r.n + d ∧ (cont t r).idx = r.n) ∨
    (t.pc = .tCas ∧ r.ok = true ∧ (cont t r).start = t.old ∧ (cont t r).stop = t.target ∧ (cont t r).idx = t.old) := by
  cases hpc : t.pc
  case idle =>
    cases hops : t.ops with
    | nil => simp [cont, hpc, hops, Pc.claim] at hc
    | cons op rest =>
      cases op
      case pushBack => right; left; refine ⟨rfl, 1, by simp [accOf, hpc, hops], ?_, ?_, ?_⟩ <;> simp [cont, hpc, hops]
      case growBy d =>
        by_cases hd : d = 0
        · subst hd; simp [cont, hpc, hops, zStart, Pc.claim] at hc
        · right; left; refine ⟨rfl, d, by simp [accOf, hpc, hops, hd], ?_, ?_, ?_⟩ <;> simp [cont, hpc, hops, hd, growStart]
      case growTo n =>
        exfalso
        simp only [cont, hpc, hops, opDone, afterCasLoop, growStart, waitStart] at hc
        revert hc
        repeat' split
        all_goals tr_close
  all_goals (revert hc; unfold_cont hpc)
  all_goals (repeat' split)
  all_goals tr_close

set_option maxHeartbeats 4000000 in
/-- the allocation a thread holds unpublished -/
theorem holds_step (t : Th) (r : R) (hh : (cont t r).holds = true) :
    (t.holds = true ∧ (cont t r).newSeg = t.newSeg ∧ ((cont t r).pc = .kStoreSeg ↔ t.pc = .kStoreSeg) ∧ (cont t r).fbl = t.fbl ∧
        (cont t r).cseg = t.cseg ∧ t.pc = .kCasZero ∧ r.ok = false) ∨
    ((t.pc = .kAllocFb ∨ t.pc = .kAllocSeg) ∧ r.ok = true ∧ (cont t r).newSeg = r.n ∧
        ((cont t r).pc = .kStoreSeg ↔ t.pc = .kAllocSeg) ∧ (cont t r).fbl = t.fbl ∧ (cont t r).cseg = t.cseg) := by
  cases hpc : t.pc
  case idle =>
    cases hops : t.ops with
    | nil => simp [cont, hpc, hops, Th.holds] at hh
    | cons op rest =>
      exfalso
      cases op
      all_goals (simp only [cont, hpc, hops, opDone, afterCasLoop, growStart, waitStart, zStart] at hh; revert hh)
      all_goals (repeat' split)
      all_goals tr_close
  all_goals (revert hh; unfold_cont hpc)
  all_goals (repeat' split)
  all_goals tr_close

/-- a thread that does not hold anything after its step either held nothing or released / published it in this step -/
theorem holds_lost (t : Th) (r : R) (hh : t.holds = true) (hn : (cont t r).holds = false) :
    (t.pc = .kCasZero ∧ r.ok = true) ∨ t.pc = .kFreeFb ∨ t.pc = .kStoreSeg := by
  cases hpc : t.pc <;> simp [Th.holds, hpc] at hh
  · -- kCasZero
    left
    refine ⟨rfl, ?_⟩
    cases hok : r.ok with
    | true => rfl
    | false => simp [cont, hpc, hok, Th.holds] at hn
  · right; left; rfl
  · right; right; rfl

end TbbVerif.C11.Seg
