/- C11 segment-table protocol, failure-free runs: the per-thread facts about slots and the construction ledger (`LocD2`) are
   preserved by the thread's own step. -/
import TbbVerif.Proofs.C11.SegDeepLoc2_a
import TbbVerif.Proofs.C11.SegDeepLoc2_b

namespace TbbVerif.C11.Seg
open TbbVerif.C11 (segIndex segBase segSize Op tiles)
open TbbVerif.Generated.C11

theorem LocD2_local (sh' : Sh) (t : Th) (r : R)
    (hload : ∀ T k o, accOf t = some (.loadSlot T k o) → r.v = slot sh' T k)
    (hstore : ∀ T k v, accOf t = some (.storeSlot T k v) → slot sh' T k = v)
    (hcas : ∀ T k v, accOf t = some (.casSlot T k v) → r.ok = true → slot sh' T k = v)
    (hvis : ∀ T k, (T = 0 ∨ T = sh'.tptr) → slot sh' T k ≠ .null → visible sh' k = slot sh' T k)
    (hctor : t.pc = .construct → ∃ a off, (t.idx, a, off) ∈ sh'.cons)
    (hok : t.pc = .construct → r.ok = true)
    (htptr : (t.pc = .wTab) → r.n = sh'.tptr)
    (hA : LocA sh' t) (hB : LocB sh' t) (hC : LocC sh' t) (hD : LocD1 sh' t) (h : LocD2 sh' t) : LocD2 sh' (cont t r) := by
  by_cases hS : t.pc.isX = true ∨ t.pc.isK = true
  · exact LocD2_local_a sh' t r hload hstore hcas hvis hctor hok htptr hA hB hC hD h hS
  · exact LocD2_local_b sh' t r hload hstore hcas hvis hctor hok htptr hA hB hC hD h hS

end TbbVerif.C11.Seg
