/- C11 segment-table protocol, failure-free runs: every published allocation sits in a slot; every unpublished allocation is
   held by exactly one thread (no leak of a losing first-block allocation) — preserved by a step. -/
import TbbVerif.Proofs.C11.SegStepL3

namespace TbbVerif.C11.Seg
open TbbVerif.C11 (segIndex segBase segSize Op tiles)
open TbbVerif.Generated.C11

/-- a pointer in a slot of the embedded / long table is still there after the step -/
theorem slot01_stays (s : St) (D : DInv s) (tid : Nat) (t : Th) (ht : s.ths[tid]? = some t) (a : Acc) (ha : accOf t = some a)
    (k al sft : Nat) (h : slot s.sh 0 k = .ptr al sft ∨ slot s.sh 1 k = .ptr al sft) :
    slot (performS s.sh a) 0 k = .ptr al sft ∨ slot (performS s.sh a) 1 k = .ptr al sft := by
  have m := step_mono2 s D tid t ht a ha
  rcases h with h | h
  · exact Or.inl (m.ptr 0 k al sft (Or.inl rfl) h)
  · right
    have htp : s.sh.tptr ≠ 0 := fun h0 => by have := D.long0 h0 k; rw [this] at h; cases h
    have := m.ptr s.sh.tptr k al sft (Or.inr ⟨rfl, htp⟩) (by rw [slot_nz _ _ _ htp]; exact h)
    rw [slot_nz _ _ _ htp] at this; exact this

/-- the slot a write hits, seen as "embedded or long" -/
theorem written_slot (sh : Sh) (a : Acc) (T k : Nat) (v : Val)
    (hw : a = .storeSlot T k v ∨ (a = .casSlot T k v ∧ slot sh T k = .null)) :
    slot (performS sh a) 0 k = v ∨ slot (performS sh a) 1 k = v := by
  by_cases hT : T = 0
  · left
    rcases hw with rfl | ⟨rfl, hn⟩
    · simp [slot_performS, hT]
    · simp [slot_performS, hT, hn]; intro h; subst hT; exact absurd hn h
  · right
    rcases hw with rfl | ⟨rfl, hn⟩
    · simp [slot_performS, hT]
    · simp [slot_performS, hT, hn]

theorem pubslot_step (s : St) (D : DInv s) (tid : Nat) (t : Th) (ht : s.ths[tid]? = some t) (a : Acc) (ha : accOf t = some a) :
    ∀ (x : Nat) (e : AInfo), (performS s.sh a).allocs[x]? = some e → e.st = .pub →
      (e.first = true → (slot (performS s.sh a) 0 0 = .ptr x 0 ∨ slot (performS s.sh a) 1 0 = .ptr x 0)) ∧
      (e.first = false → (slot (performS s.sh a) 0 e.seg = .ptr x (segBase e.seg) ∨ slot (performS s.sh a) 1 e.seg = .ptr x (segBase e.seg))) := by
  intro x e hx hp
  have old_case : ∀ e0 : AInfo, s.sh.allocs[x]? = some e0 → e0.st = .pub → e.first = e0.first → e.seg = e0.seg →
      (e.first = true → (slot (performS s.sh a) 0 0 = .ptr x 0 ∨ slot (performS s.sh a) 1 0 = .ptr x 0)) ∧
      (e.first = false → (slot (performS s.sh a) 0 e.seg = .ptr x (segBase e.seg) ∨ slot (performS s.sh a) 1 e.seg = .ptr x (segBase e.seg))) := by
    intro e0 hx0 hp0 g2 g3
    have := D.pubslot x e0 hx0 hp0
    rw [g2, g3]
    exact ⟨fun hf => slot01_stays s D tid t ht a ha _ _ _ (this.1 hf), fun hf => slot01_stays s D tid t ht a ha _ _ _ (this.2 hf)⟩
  rcases allocs_get_step s.sh a x e hx with ⟨e0, hx0, _, g2, g3, hs⟩ | ⟨_, n, f, sg, _, _, hee⟩
  · rcases hs with h | ⟨_, T, k, sft, hw⟩ | ⟨h, _⟩
    · exact old_case e0 hx0 (by rw [← h]; exact hp) g2 g3
    · by_cases hp0 : e0.st = .pub
      · exact old_case e0 hx0 hp0 g2 g3
      · -- newly published by this write
        obtain ⟨e1, he1, hk, _⟩ := written_entry s D tid t ht a ha T k x sft hw
        rw [hx0] at he1; cases he1
        have hsl := written_slot s.sh a T k (.ptr x sft) hw
        rw [g2, g3]
        rcases hk with ⟨hf, rfl, _, _⟩ | ⟨hf, rfl, hseg, _, _⟩
        · refine ⟨fun _ => ?_, fun h => by rw [hf] at h; cases h⟩
          -- a first block is newly published only by the CAS on table[0]
          have hk0 : k = 0 := by
            rcases hw with rfl | ⟨rfl, _⟩
            · exfalso
              rcases accOf_storeSlot t T k _ ha with ⟨hpc, _, _, hv⟩ | ⟨hpc, _, _, hv⟩ | ⟨hpc, _, _, hv⟩ | hpc | hpc
              · simp only [ptrOf, Val.ptr.injEq] at hv
                have hwon : slot s.sh t.etab 0 = ptrOf t := by apply (D.d2 tid t ht).won; simp [Th.fbWon, hpc]
                obtain ⟨e2, he2, hp2, _⟩ := D.sl t.etab 0 t.newSeg 0 hwon
                rw [← hv.1, hx0] at he2; cases he2; exact hp0 hp2
              · simp only [ptrOf, Val.ptr.injEq] at hv
                have hwon : slot s.sh t.etab 0 = ptrOf t := by apply (D.d2 tid t ht).won; simp [Th.fbWon, hpc]
                obtain ⟨e2, he2, hp2, _⟩ := D.sl t.etab 0 t.newSeg 0 hwon
                rw [← hv.1, hx0] at he2; cases he2; exact hp0 hp2
              · simp only [Val.ptr.injEq] at hv
                obtain ⟨e2, he2, _, h1, _⟩ := D.holder tid t ht (by simp [Th.holds, hpc])
                rw [← hv.1, hx0] at he2; cases he2
                have := (h1 hpc).1; rw [hf] at this; cases this
              · exact (D.d1 tid t ht).nofail.2.2.1 hpc
              · exact (D.d1 tid t ht).nofail.2.2.2 hpc
            · rcases accOf_casSlot t T k _ ha with ⟨_, _, rfl, _⟩ | hpc
              · rfl
              · exact absurd hpc (D.d1 tid t ht).nofail.2.1
          subst hk0; exact hsl
        · refine ⟨fun h => (by rw [hf] at h; cases h), fun _ => ?_⟩
          rw [hseg]; exact hsl
    · rw [hp] at h; cases h
  · subst hee; cases hp

end TbbVerif.C11.Seg
