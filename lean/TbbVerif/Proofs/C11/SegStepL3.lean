/- C11 segment-table protocol, failure-free runs: exactly one allocation per regular segment, at most one published first block,
   every published allocation sits in a slot — preserved by a step. -/
import TbbVerif.Proofs.C11.SegStepL2

namespace TbbVerif.C11.Seg
open TbbVerif.C11 (segIndex segBase segSize Op tiles)
open TbbVerif.Generated.C11

/-- **no second allocation of a regular segment**: when the owner allocates segment `cseg` the ledger has no entry for it yet -/
theorem no_entry_for_owned (s : St) (D : DInv s) (tid : Nat) (t : Th) (ht : s.ths[tid]? = some t) (hpc : t.pc = .kAllocSeg)
    (b : Nat) (e : AInfo) (he : s.sh.allocs[b]? = some e) (hf : e.first = false) (hs : e.seg = t.cseg) : False := by
  have hot : t.ownerPend s.sh := Or.inr (Or.inl hpc)
  have hnull := D.ownull tid t ht hot
  have hos : t.oSeg = t.cseg := by simp [Th.oSeg, hpc]
  have hotab : t.oTab = t.ctab := by simp [Th.oTab, hpc]
  rw [hos, hotab] at hnull
  obtain ⟨htc, h1, h2, _, _⟩ := owner_range s D tid t ht hot
  rw [hos] at h1 h2
  cases hst : e.st with
  | held =>
    obtain ⟨j, u, hu, hn, hh⟩ := D.held b e he hst
    obtain ⟨e1, he1, _, hk, hnk⟩ := D.holder j u hu hh
    rw [hn, he] at he1; cases he1
    by_cases hup : u.pc = .kStoreSeg
    · obtain ⟨_, hseg, _⟩ := hk hup
      have hou : u.ownerPend s.sh := Or.inr (Or.inr (Or.inl hup))
      obtain ⟨huc, g1, g2, _, _⟩ := owner_range s D j u hu hou
      have : u.oSeg = u.cseg := by simp [Th.oSeg, hup]
      rw [this, ← hseg, hs] at g1 g2
      have hne : j ≠ tid := by
        intro h; subst h; rw [ht] at hu; cases hu; rw [hpc] at hup; cases hup
      rcases D.disj j tid u t hne hu ht huc htc with h | h <;> omega
    · have := (hnk hup).1; rw [hf] at this; cases this
  | pub =>
    have hps := (D.pubslot b e he hst).2 hf
    rw [hs] at hps
    by_cases hct : t.ctab = 0
    · rw [hct] at hnull
      rcases hps with h | h
      · rw [hnull] at h; cases h
      · have htp : s.sh.tptr ≠ 0 := fun h0 => by have := D.long0 h0 t.cseg; rw [this] at h; cases h
        exact no_emb_change_after_switch s D tid t ht t.cseg (Or.inr (Or.inr ⟨Or.inr hpc, hct, rfl⟩)) hnull htp
    · rw [slot_nz _ _ _ hct] at hnull
      rcases hps with h | h
      · have htp : s.sh.tptr ≠ 0 := by
          rcases (D.g.locA tid t ht).ctab with h' | h'
          · exact absurd h' hct
          · rw [← h']; exact hct
        have := D.copy htp t.cseg (by rw [h]; simp)
        rw [hnull, h] at this; cases this
      · rw [hnull] at h; cases h
  | freed => have := D.freedfirst b e he hst; rw [hf] at this; cases this

theorem uniq_step (s : St) (D : DInv s) (tid : Nat) (t : Th) (ht : s.ths[tid]? = some t) (a : Acc) (ha : accOf t = some a) :
    ∀ (x y : Nat) (e e' : AInfo), (performS s.sh a).allocs[x]? = some e → (performS s.sh a).allocs[y]? = some e' →
      e.first = false → e'.first = false → e.seg = e'.seg → x = y := by
  intro x y e e' hx hy hf hf' hseg
  rcases allocs_get_step s.sh a x e hx with ⟨e0, hx0, _, g2, g3, _⟩ | ⟨hxl, n, f, sg, hae, _, hee⟩
  · rcases allocs_get_step s.sh a y e' hy with ⟨e1, hy1, _, k2, k3, _⟩ | ⟨hyl, n, f, sg, hae, _, hee⟩
    · exact D.uniq x y e0 e1 hx0 hy1 (by rw [← g2]; exact hf) (by rw [← k2]; exact hf') (by rw [← g3, ← k3]; exact hseg)
    · exfalso
      subst hae; subst hee
      rcases accOf_alloc t n f sg ha with ⟨_, _, rfl, _⟩ | ⟨hpc, _, _, rfl⟩
      · cases hf'
      · exact no_entry_for_owned s D tid t ht hpc x e0 hx0 (by rw [← g2]; exact hf) (by rw [← g3]; exact hseg)
  · rcases allocs_get_step s.sh a y e' hy with ⟨e1, hy1, _, k2, k3, _⟩ | ⟨hyl, _⟩
    · exfalso
      subst hae; subst hee
      rcases accOf_alloc t n f sg ha with ⟨_, _, rfl, _⟩ | ⟨hpc, _, _, rfl⟩
      · cases hf
      · exact no_entry_for_owned s D tid t ht hpc y e1 hy1 (by rw [← k2]; exact hf') (by rw [← k3]; exact hseg.symm)
    · omega

theorem freedfirst_step (s : St) (D : DInv s) (tid : Nat) (t : Th) (ht : s.ths[tid]? = some t) (a : Acc) (ha : accOf t = some a) :
    ∀ (x : Nat) (e : AInfo), (performS s.sh a).allocs[x]? = some e → e.st = .freed → e.first = true := by
  intro x e hx hst
  rcases allocs_get_step s.sh a x e hx with ⟨e0, hx0, _, g2, _, hs⟩ | ⟨_, n, f, sg, _, _, hee⟩
  · rw [g2]
    rcases hs with h | ⟨h, _⟩ | ⟨_, hfree⟩
    · exact D.freedfirst x e0 hx0 (by rw [← h]; exact hst)
    · rw [hst] at h; cases h
    · subst hfree
      obtain ⟨hpc, rfl⟩ := accOf_free t x ha
      obtain ⟨e1, he1, _, _, h2⟩ := D.holder tid t ht (by simp [Th.holds, hpc])
      rw [hx0] at he1; cases he1
      exact (h2 (by rw [hpc]; simp)).1
  · subst hee; cases hst

/-- the first block is published at most once: a winning CAS on `table[0]` finds no other first block published -/
theorem onefirst_step (s : St) (D : DInv s) (tid : Nat) (t : Th) (ht : s.ths[tid]? = some t) (a : Acc) (ha : accOf t = some a) :
    ∀ (x y : Nat) (e e' : AInfo), (performS s.sh a).allocs[x]? = some e → (performS s.sh a).allocs[y]? = some e' →
      e.first = true → e'.first = true → e.st = .pub → e'.st = .pub → x = y := by
  -- an entry that is published after the step was published before, or is the stepping thread's own block whose CAS on table[0]
  -- succeeds now
  have key : ∀ (x : Nat) (e : AInfo), (performS s.sh a).allocs[x]? = some e → e.first = true → e.st = .pub →
      (∃ e0, s.sh.allocs[x]? = some e0 ∧ e0.first = true ∧ e0.st = .pub) ∨
      (t.pc = .kCasZero ∧ x = t.newSeg ∧ slot s.sh t.ctab 0 = .null) := by
    intro x e hx hf hp
    rcases allocs_get_step s.sh a x e hx with ⟨e0, hx0, _, g2, _, hs⟩ | ⟨_, n, f, sg, _, _, hee⟩
    · rcases hs with h | ⟨_, T, k, sft, hw⟩ | ⟨h, _⟩
      · exact Or.inl ⟨e0, hx0, by rw [← g2]; exact hf, by rw [← h]; exact hp⟩
      · by_cases hp0 : e0.st = .pub
        · exact Or.inl ⟨e0, hx0, by rw [← g2]; exact hf, hp0⟩
        · right
          rcases hw with rfl | ⟨rfl, hnull⟩
          · exfalso
            rcases accOf_storeSlot t T k _ ha with ⟨hpc, _, _, hv⟩ | ⟨hpc, _, _, hv⟩ | ⟨hpc, _, _, hv⟩ | hpc | hpc
            · -- kFill publishes an already published block
              simp only [ptrOf, Val.ptr.injEq] at hv
              have hwon : slot s.sh t.etab 0 = ptrOf t := by apply (D.d2 tid t ht).won; simp [Th.fbWon, hpc]
              obtain ⟨e1, he1, hp1, _⟩ := D.sl t.etab 0 t.newSeg 0 hwon
              rw [← hv.1, hx0] at he1; cases he1; exact hp0 hp1
            · simp only [ptrOf, Val.ptr.injEq] at hv
              have hwon : slot s.sh t.etab 0 = ptrOf t := by apply (D.d2 tid t ht).won; simp [Th.fbWon, hpc]
              obtain ⟨e1, he1, hp1, _⟩ := D.sl t.etab 0 t.newSeg 0 hwon
              rw [← hv.1, hx0] at he1; cases he1; exact hp0 hp1
            · simp only [Val.ptr.injEq] at hv
              obtain ⟨e1, he1, _, h1, _⟩ := D.holder tid t ht (by simp [Th.holds, hpc])
              rw [← hv.1, hx0] at he1; cases he1
              have := (h1 hpc).1; rw [← g2, hf] at this; cases this
            · exact (D.d1 tid t ht).nofail.2.2.1 hpc
            · exact (D.d1 tid t ht).nofail.2.2.2 hpc
          · rcases accOf_casSlot t T k _ ha with ⟨hpc, rfl, rfl, hv⟩ | hpc
            · simp only [ptrOf, Val.ptr.injEq] at hv
              exact ⟨hpc, hv.1, hnull⟩
            · exact absurd hpc (D.d1 tid t ht).nofail.2.1
      · rw [hp] at h; cases h
    · subst hee; cases hp
  intro x y e e' hx hy hf hf' hp hp'
  rcases key x e hx hf hp with ⟨e0, hx0, f0, p0⟩ | ⟨hpc, rfl, hnull⟩
  · rcases key y e' hy hf' hp' with ⟨e1, hy1, f1, p1⟩ | ⟨hpc, rfl, hnull⟩
    · exact D.onefirst x y e0 e1 hx0 hy1 f0 f1 p0 p1
    · exfalso
      -- another first block is published although this thread's CAS on table[0] succeeds
      have hps := (D.pubslot x e0 hx0 p0).1 f0
      by_cases hct : t.ctab = 0
      · rw [hct] at hnull
        rcases hps with h | h
        · rw [hnull] at h; cases h
        · have htp : s.sh.tptr ≠ 0 := fun h0 => by have := D.long0 h0 0; rw [this] at h; cases h
          exact no_emb_change_after_switch s D tid t ht 0 (Or.inl ⟨hpc, hct, rfl⟩) hnull htp
      · rw [slot_nz _ _ _ hct] at hnull
        rcases hps with h | h
        · have htp : s.sh.tptr ≠ 0 := by
            rcases (D.g.locA tid t ht).ctab with h' | h'
            · exact absurd h' hct
            · rw [← h']; exact hct
          have := D.copy htp 0 (by rw [h]; simp)
          rw [hnull, h] at this; cases this
        · rw [hnull] at h; cases h
  · rcases key y e' hy hf' hp' with ⟨e1, hy1, f1, p1⟩ | ⟨_, rfl, _⟩
    · exfalso
      have hps := (D.pubslot y e1 hy1 p1).1 f1
      by_cases hct : t.ctab = 0
      · rw [hct] at hnull
        rcases hps with h | h
        · rw [hnull] at h; cases h
        · have htp : s.sh.tptr ≠ 0 := fun h0 => by have := D.long0 h0 0; rw [this] at h; cases h
          exact no_emb_change_after_switch s D tid t ht 0 (Or.inl ⟨hpc, hct, rfl⟩) hnull htp
      · rw [slot_nz _ _ _ hct] at hnull
        rcases hps with h | h
        · have htp : s.sh.tptr ≠ 0 := by
            rcases (D.g.locA tid t ht).ctab with h' | h'
            · exact absurd h' hct
            · rw [← h']; exact hct
          have := D.copy htp 0 (by rw [h]; simp)
          rw [hnull, h] at this; cases this
        · rw [hnull] at h; cases h
    · rfl

end TbbVerif.C11.Seg
