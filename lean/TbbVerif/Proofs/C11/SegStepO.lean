/- C11 segment-table protocol, failure-free runs: one step preserves
   * `ownull`: between seeing its segment slot empty and filling it, nobody else writes the owner's slot (exactly one allocator per segment),
   * `pend`: while a thread copies the embedded table into its new long table, the entries it already copied do not change. -/
import TbbVerif.Proofs.C11.SegStepD2
import TbbVerif.Proofs.C11.SegTrans2

namespace TbbVerif.C11.Seg
open TbbVerif.C11 (segIndex segBase segSize Op tiles)
open TbbVerif.Generated.C11

/-- the owner-pending thread's claimed range contains the first index of its segment, which is not part of the first block -/
theorem owner_range (s : St) (D : DInv s) (j : Nat) (u : Th) (hu : s.ths[j]? = some u) (ho : u.ownerPend s.sh) :
    u.pc.claim = true ∧ u.start ≤ segBase u.oSeg ∧ segBase u.oSeg < u.stop ∧ s.sh.fb ≤ u.oSeg ∧ s.sh.fb ≠ 0 := by
  have hD := D.d1 j u hu
  have key : ∀ (hen : u.inEn = true) (hp2 : u.pc ≠ .gLast2) (hcx : u.cidx = segBase u.cseg) (hfb : s.sh.fb ≤ u.cseg),
      u.pc.claim = true ∧ u.start ≤ segBase u.oSeg ∧ segBase u.oSeg < u.stop ∧ s.sh.fb ≤ u.oSeg ∧ s.sh.fb ≠ 0 := by
    intro hen hp2 hcx hfb
    have hc := inEn_claim u hen
    have hnz : s.sh.fb ≠ 0 := hD.fbnz hc (by revert hen; unfold Th.inEn; cases u.pc <;> simp [Pc.isK, Pc.isX, Pc.afb])
    have hos : u.oSeg = u.cseg := by simp [Th.oSeg, hp2]
    rw [hos, ← hcx]
    cases her : u.enRet with
    | sub =>
      have hsub : u.inSub = true := by simp [Th.inSub, hen, her]
      have h1 := hD.idxlt hsub
      have h2 := (hD.idx hc).1
      simp only [Th.cidx, her]
      exact ⟨hc, h2, h1, hfb, hnz⟩
    | grow =>
      have := hD.gown (Or.inr (Or.inr ⟨hen, her⟩))
      have h3 := this.2 (by intro h; revert hen; unfold Th.inEn; rw [h]; simp [Pc.isK, Pc.isX])
      simp only [Th.cidx, her]
      exact ⟨hc, h3.1, h3.2, hfb, hnz⟩
  rcases ho with hp | hp | hp | ⟨hp, hcx, hfb⟩
  · have hc : u.pc.claim = true := by rw [hp]; rfl
    have hnz : s.sh.fb ≠ 0 := hD.fbnz hc (by rw [hp]; rfl)
    have := hD.gown (Or.inr (Or.inl hp))
    have h3 := this.2 (by rw [hp]; simp)
    have hos : u.oSeg = u.segEnd := by simp [Th.oSeg, hp]
    rw [hos]
    exact ⟨hc, h3.1, h3.2, by omega, hnz⟩
  · have hen : u.inEn = true := by simp [Th.inEn, hp, Pc.isK]
    have ho := hD.owner (Or.inl hp)
    have hfbl : u.fbl = s.sh.fb := hD.fbl (Or.inl ⟨by rw [hp]; rfl, by rw [hp]; simp⟩)
    exact key hen (by rw [hp]; simp) ho.1 (by omega)
  · have hen : u.inEn = true := by simp [Th.inEn, hp, Pc.isK]
    have ho := hD.owner (Or.inr hp)
    have hfbl : u.fbl = s.sh.fb := hD.fbl (Or.inl ⟨by rw [hp]; rfl, by rw [hp]; simp⟩)
    exact key hen (by rw [hp]; simp) ho.1 (by omega)
  · have hen : u.inEn = true := by simp [Th.inEn, hp, Pc.isK]
    exact key hen (by rw [hp]; simp) hcx hfb

theorem owner_tab (s : St) (D : DInv s) (j : Nat) (u : Th) (hu : s.ths[j]? = some u) : u.oTab = 0 ∨ u.oTab = s.sh.tptr := by
  have hA := D.g.locA j u hu
  unfold Th.oTab; split
  · exact hA.gtab
  · exact hA.ctab

/-- **exactly one allocator per segment**: another thread's write never hits the slot of an owner-pending thread -/
theorem ownull_other (s : St) (D : DInv s) (tid : Nat) (t : Th) (ht : s.ths[tid]? = some t) (a : Acc) (ha : accOf t = some a)
    (j : Nat) (u : Th) (hu : s.ths[j]? = some u) (hj : j ≠ tid) (ho : u.ownerPend s.sh) :
    slot (performS s.sh a) u.oTab u.oSeg = .null := by
  have hnull := D.ownull j u hu ho
  obtain ⟨huc, hr1, hr2, hfbk, hfbnz⟩ := owner_range s D j u hu ho
  have hB := D.g.locB tid t ht
  have hD1 := D.d1 tid t ht
  have hfbl : ∀ (hk : t.pc.isK = true) (hn : t.pc ≠ .kFb), t.fbl = s.sh.fb := fun hk hn => hD1.fbl (Or.inl ⟨hk, hn⟩)
  rw [slot_performS]
  cases a with
  | storeSlot T0 k0 v =>
    simp only; split
    · rename_i hc
      exfalso
      obtain ⟨_, hk⟩ := hc
      rcases accOf_storeSlot t T0 k0 v ha with ⟨hp, _, rfl, _⟩ | ⟨hp, _, rfl, _⟩ | ⟨hp, _, rfl, _⟩ | hp | hp
      · have := hB.fill hp; have := hfbl (by rw [hp]; rfl) (by rw [hp]; simp); omega
      · have := hB.mirror hp; have := hfbl (by rw [hp]; rfl) (by rw [hp]; simp); omega
      · -- two owners of the same segment
        have hot : t.ownerPend s.sh := Or.inr (Or.inr (Or.inl hp))
        obtain ⟨htc, h1, h2, _, _⟩ := owner_range s D tid t ht hot
        have hos : t.oSeg = t.cseg := by simp [Th.oSeg, hp]
        rw [hos, ← hk] at h1 h2
        rcases D.disj j tid u t hj hu ht huc htc with h | h <;> omega
      · exact hD1.nofail.2.2.1 hp
      · exact hD1.nofail.2.2.2 hp
    · exact hnull
  | casSlot T0 k0 v =>
    simp only; split
    · rename_i hc
      exfalso
      rcases accOf_casSlot t T0 k0 v ha with ⟨hp, _, rfl, _⟩ | hp
      · have := hc.2.2; omega
      · exact hD1.nofail.2.1 hp
    · exact hnull
  | casTptr d c0 c1 c2 =>
    simp only; split
    · rename_i hc
      exfalso
      rcases owner_tab s D j u hu with h | h
      · exact hc.2.2 h
      · rw [hc.1] at h; exact hc.2.2 h
    · exact hnull
  | _ => exact hnull

theorem ownull_step (s : St) (D : DInv s) (tid : Nat) (t : Th) (ht : s.ths[tid]? = some t) (a : Acc) (ha : accOf t = some a) :
    ∀ (j : Nat) (u : Th), (s.ths.set tid (cont t (performR s.sh a)))[j]? = some u → u.ownerPend (performS s.sh a) →
      slot (performS s.sh a) u.oTab u.oSeg = .null := by
  intro j u hu ho
  have m := step_mono2 s D tid t ht a ha
  rcases get_set _ _ _ _ _ hu with ⟨rfl, rfl⟩ | ⟨hj, hu'⟩
  · -- the stepping thread
    have hD1 := D.d1 j t ht
    have hkfb : t.pc = .kFb → (performR s.sh a).n = s.sh.fb := by
      intro hp; have : a = .loadFb := by simp [accOf, hp] at ha; exact ha.symm
      subst this; rfl
    have hfbnz : t.pc = .kFb → s.sh.fb ≠ 0 := fun hp => hD1.fbnz (by rw [hp]; rfl) (by rw [hp]; rfl)
    rcases owner_step s.sh (performS s.sh a) t (performR s.sh a) m.m.fb hfbnz hkfb ho with ⟨hot, hns, e1, e2⟩ | ⟨hp, hv, e1, e2⟩ | ⟨hp, hv, e1, e2⟩
    · rw [e1, e2]
      have hnull := D.ownull j t ht hot
      -- the own access of an owner-pending thread that stays owner-pending is a load or an allocation
      rw [slot_performS]
      cases a with
      | storeSlot T0 k0 v =>
        exfalso
        rcases accOf_storeSlot t T0 k0 v ha with ⟨hp, _⟩ | ⟨hp, _⟩ | ⟨hp, _⟩ | hp | hp
        · rcases hot with h | h | h | ⟨h, _⟩ <;> rw [hp] at h <;> cases h
        · rcases hot with h | h | h | ⟨h, _⟩ <;> rw [hp] at h <;> cases h
        · exact hns hp
        · exact hD1.nofail.2.2.1 hp
        · exact hD1.nofail.2.2.2 hp
      | casSlot T0 k0 v =>
        exfalso
        rcases accOf_casSlot t T0 k0 v ha with ⟨hp, _⟩ | hp
        · rcases hot with h | h | h | ⟨h, _⟩ <;> rw [hp] at h <;> cases h
        · exact hD1.nofail.2.1 hp
      | casTptr d c0 c1 c2 =>
        exfalso
        obtain ⟨hp, _⟩ := accOf_casTptr t d c0 c1 c2 ha
        rcases hot with h | h | h | ⟨h, _⟩ <;> rw [hp] at h <;> cases h
      | _ => exact hnull
    · rw [e1, e2]
      have : a = .loadSlot t.tab (segIndex t.idx) .acq := by simp [accOf, hp] at ha; exact ha.symm
      subst this
      simp only [performR] at hv
      rw [slot_performS]; exact hv
    · rw [e1, e2]
      have : a = .loadSlot t.gtab t.segEnd .rlx := by simp [accOf, hp] at ha; exact ha.symm
      subst this
      simp only [performR] at hv
      rw [slot_performS]; exact hv
  · -- another thread: its owner-pending status does not depend on this step
    have hD1u := D.d1 j u hu'
    have hou : u.ownerPend s.sh := by
      rcases ho with h | h | h | ⟨h, hc, hf⟩
      · exact Or.inl h
      · exact Or.inr (Or.inl h)
      · exact Or.inr (Or.inr (Or.inl h))
      · have hnz : s.sh.fb ≠ 0 := hD1u.fbnz (by rw [h]; rfl) (by rw [h]; rfl)
        rw [m.m.fb hnz] at hf
        exact Or.inr (Or.inr (Or.inr ⟨h, hc, hf⟩))
    exact ownull_other s D tid t ht a ha j u hu' hj hou

end TbbVerif.C11.Seg
