/- C11 segment-table protocol, failure-free runs: the per-thread facts and the construction ledger are preserved by a step;
   the inductive invariant `DInv` holds in every reachable state of the failure-free system. -/
import TbbVerif.Proofs.C11.SegStepC

namespace TbbVerif.C11.Seg
open TbbVerif.C11 (segIndex segBase segSize Op tiles)
open TbbVerif.Generated.C11

theorem not_mem_nil_succ (l : List Nat) (h : l = []) (n : Nat) : n ∉ l := by rw [h]; simp

theorem LocD1_own (s : St) (D : DInv s) (tid : Nat) (t : Th) (ht : s.ths[tid]? = some t) (a : Acc) (ha : accOf t = some a) :
    LocD1 (performS s.sh a) (cont t (performR s.sh a)) := by
  have m := step_mono2 s D tid t ht a ha
  have hA := D.g.locA tid t ht
  have hnfa := not_mem_nil_succ _ D.nf.fa (s.sh.allocCalls + 1)
  have hnft := not_mem_nil_succ _ D.nf.ft (s.sh.tabCalls + 1)
  have hnfc := not_mem_nil_succ _ D.nf.fc (s.sh.ctorCalls + 1)
  apply LocD1_local
  · intro hp
    rcases hp with hp | hp | hp | hp
    · have : a = .talloc := by simp [accOf, hp] at ha; exact ha.symm
      subst this; simp [performR, hnft]
    · have : a = .alloc (segSize t.fbl) true 0 := by simp [accOf, hp] at ha; exact ha.symm
      subst this; simp [performR, hnfa]
    · have : a = .alloc (segSize t.cseg) false t.cseg := by simp [accOf, hp] at ha; exact ha.symm
      subst this; simp [performR, hnfa]
    · have : a = .ctor t.idx t.segv := by simp [accOf, hp] at ha; exact ha.symm
      subst this; simp [performR, hnfc]
  · intro hp
    have : a = .loadFailed := by simp [accOf, hp] at ha; exact ha.symm
    subst this; simp [performR, D.nf.failed]
  · intro hp
    rw [fb_performS]
    rcases hp with hp | hp
    · have : a = .casFb defaultFirstBlockSize := by simp [accOf, hp] at ha; exact ha.symm
      subst this; simp only; split <;> simp_all [defaultFirstBlockSize]
    · have : a = .casFb (t.segEnd + 1) := by simp [accOf, hp] at ha; exact ha.symm
      subst this; simp only; split <;> simp_all
  · intro hp
    have : a = .loadFb := by rcases hp with hp | hp | hp | hp <;> (simp [accOf, hp] at ha; exact ha.symm)
    subst this; rfl
  · intro hp
    have : a = .loadTptr := by simp [accOf, hp] at ha; exact ha.symm
    subst this; rfl
  · intro hp
    have : a = .casTptr t.newTab t.c0 t.c1 t.c2 := by simp [accOf, hp] at ha; exact ha.symm
    subst this
    simp only [performR]
    have := hA.casNull hp
    split
    · rename_i h0; exact fun hn => this hn h0
    · rename_i h0; exact h0
  · intro rest hp hops
    have : a = .faddSize 1 := by simp [accOf, hp, hops] at ha; exact ha.symm
    subst this; simp [performR, log_performS]
  · intro d rest hp hops hd
    have : a = .faddSize d := by simp [accOf, hp, hops, hd] at ha; exact ha.symm
    subst this; simp [performR, log_performS]
  · intro hp hok
    have : a = .casSize t.old t.target := by simp [accOf, hp] at ha; exact ha.symm
    subst this
    simp only [performR] at hok
    rw [log_performS]; simp only
    split at hok
    · rename_i h; simp [h]
    · cases hok
  · exact LocA_mono _ _ _ m.m hA
  · exact LocB_mono _ _ _ m.m (D.g.locB tid t ht)
  · exact LocD1_mono _ _ _ m (D.d1 tid t ht)

theorem LocD2_own (s : St) (D : DInv s) (tid : Nat) (t : Th) (ht : s.ths[tid]? = some t) (a : Acc) (ha : accOf t = some a) :
    LocD2 (performS s.sh a) (cont t (performR s.sh a)) := by
  have m := step_mono2 s D tid t ht a ha
  have hA := D.g.locA tid t ht
  have hC := D.g.locC tid t ht
  have hnfc := not_mem_nil_succ _ D.nf.fc (s.sh.ctorCalls + 1)
  have hcopy := copy_step s D tid t ht a ha
  apply LocD2_local
  · intro T k o h2; rw [ha] at h2; cases h2; exact performR_loadSlot s.sh T k o
  · intro T k v h2; rw [ha] at h2; cases h2; simp [performS]
  · intro T k v h2 hok; rw [ha] at h2; cases h2
    simp only [performR] at hok
    simp only [performS]
    split
    · simp
    · rename_i hne; simp [hne] at hok
  · -- what a non-null slot of a snapshot shows is what the current table shows
    intro T k hT hn
    unfold visible
    rcases hT with rfl | rfl
    · by_cases h0 : (performS s.sh a).tptr = 0
      · rw [h0]
      · rw [slot_nz _ _ _ h0]; exact hcopy h0 k hn
    · rfl
  · intro hp
    have : a = .ctor t.idx t.segv := by simp [accOf, hp] at ha; exact ha.symm
    subst this
    obtain ⟨al, sft, hs⟩ := hC.cons hp
    rw [cons_performS, hs]
    simp only [hnfc, if_false]
    exact ⟨al, t.idx - sft, by simp⟩
  · intro hp
    have : a = .ctor t.idx t.segv := by simp [accOf, hp] at ha; exact ha.symm
    subst this; simp [performR, hnfc]
  · intro hp
    have : a = .loadTptr := by simp [accOf, hp] at ha; exact ha.symm
    subst this; rfl
  · exact LocA_mono _ _ _ m.m hA
  · exact LocB_mono _ _ _ m.m (D.g.locB tid t ht)
  · exact LocC_mono _ _ _ m.m hA hC
  · exact LocD1_mono _ _ _ m (D.d1 tid t ht)
  · exact LocD2_mono _ _ _ m hA hC (D.d2 tid t ht)

/-! ### the construction ledger -/

theorem cons_step_mem (s : St) (D : DInv s) (tid : Nat) (t : Th) (ht : s.ths[tid]? = some t) (a : Acc) (ha : accOf t = some a)
    (c : Nat × Nat × Nat) (hc : c ∈ (performS s.sh a).cons) :
    c ∈ s.sh.cons ∨ (t.pc = .construct ∧ ∃ al sft, t.segv = .ptr al sft ∧ c = (t.idx, al, t.idx - sft) ∧
      (performS s.sh a).cons = s.sh.cons ++ [c]) := by
  rw [cons_performS] at hc
  cases a with
  | ctor idx p =>
    obtain ⟨hpc, rfl, rfl⟩ := accOf_ctor t idx p ha
    cases hs : t.segv with
    | ptr al sft =>
      rw [hs] at hc
      simp only at hc
      split at hc
      · exact Or.inl hc
      · rename_i hnf
        rcases List.mem_append.mp hc with h | h
        · exact Or.inl h
        · right
          simp only [List.mem_singleton] at h
          refine ⟨hpc, al, sft, rfl, h, ?_⟩
          rw [cons_performS]; simp only [hnf, if_false]; rw [h]
    | null => rw [hs] at hc; exact Or.inl hc
    | tag => rw [hs] at hc; exact Or.inl hc
  | _ => exact Or.inl hc

theorem construct_facts (s : St) (D : DInv s) (tid : Nat) (t : Th) (ht : s.ths[tid]? = some t) (hpc : t.pc = .construct) :
    t.pc.claim = true ∧ t.start ≤ t.idx ∧ t.idx < t.stop ∧ t.stop ≤ s.sh.size := by
  have hD := D.d1 tid t ht
  have hc : t.pc.claim = true := by rw [hpc]; rfl
  have hsub : t.inSub = true := by simp [Th.inSub, hpc]
  have := tiles_nonempty 0 _ _ D.tile _ (hD.inlog hc)
  exact ⟨hc, (hD.idx hc).1, hD.idxlt hsub, this.2⟩

theorem consok_step (s : St) (D : DInv s) (tid : Nat) (t : Th) (ht : s.ths[tid]? = some t) (a : Acc) (ha : accOf t = some a) :
    ∀ i al off, (i, al, off) ∈ (performS s.sh a).cons → ∃ sft, visible (performS s.sh a) (segIndex i) = .ptr al sft ∧ off = i - sft := by
  have m := step_mono2 s D tid t ht a ha
  intro i al off hc
  rcases cons_step_mem s D tid t ht a ha _ hc with h | ⟨hpc, al', sft, hs, he, _⟩
  · obtain ⟨sft, hv, ho⟩ := D.consok i al off h
    exact ⟨sft, m.vis _ _ _ hv, ho⟩
  · simp only [Prod.mk.injEq] at he
    obtain ⟨rfl, rfl, rfl⟩ := he
    have hv := (D.d2 tid t ht).cons hpc
    rw [hs] at hv
    exact ⟨sft, m.vis _ _ _ hv, rfl⟩

theorem consbound_step (s : St) (D : DInv s) (tid : Nat) (t : Th) (ht : s.ths[tid]? = some t) (a : Acc) (ha : accOf t = some a) :
    ∀ i al off, (i, al, off) ∈ (performS s.sh a).cons → i < (performS s.sh a).size := by
  have hsz := size_mono_step s.sh a t ha (D.d1 tid t ht).tcas
  intro i al off hc
  rcases cons_step_mem s D tid t ht a ha _ hc with h | ⟨hpc, al', sft, hs, he, _⟩
  · have := D.consbound i al off h; omega
  · simp only [Prod.mk.injEq] at he
    obtain ⟨rfl, _, _⟩ := he
    have := construct_facts s D tid t ht hpc; omega

theorem consnodup_step (s : St) (D : DInv s) (tid : Nat) (t : Th) (ht : s.ths[tid]? = some t) (a : Acc) (ha : accOf t = some a) :
    ((performS s.sh a).cons.map (·.1)).Nodup := by
  by_cases hnew : ∃ c, c ∈ (performS s.sh a).cons ∧ c ∉ s.sh.cons
  · obtain ⟨c, hc, hnc⟩ := hnew
    rcases cons_step_mem s D tid t ht a ha c hc with h | ⟨hpc, al, sft, hs, he, heq⟩
    · exact absurd h hnc
    · rw [heq, List.map_append, List.nodup_append]
      refine ⟨D.consnodup, by simp, ?_⟩
      intro x hx y hy
      simp only [List.map_cons, List.map_nil, List.mem_singleton] at hy
      subst hy
      intro hxy; subst hxy
      obtain ⟨c', hc', hc1⟩ := List.mem_map.mp hx
      obtain ⟨i', al', off'⟩ := c'
      simp only at hc1; subst hc1
      have hf := construct_facts s D tid t ht hpc
      have := D.conscur _ al' off' hc' tid t ht hf.1 (by rw [he]; exact hf.2.1) (by rw [he]; exact hf.2.2.1)
      rw [he] at this; simp at this
  · have : (performS s.sh a).cons = s.sh.cons := by
      rw [cons_performS]
      cases a with
      | ctor idx p =>
        cases p with
        | ptr al sft =>
          simp only
          split
          · rfl
          · exfalso
            apply hnew
            refine ⟨(idx, al, idx - sft), ?_, ?_⟩
            · rw [cons_performS]; simp only; rw [if_neg ‹_›]; simp
            · intro hm
              obtain ⟨hpc, rfl, hsv⟩ := accOf_ctor t idx _ ha
              have hf := construct_facts s D tid t ht hpc
              have := D.conscur _ _ _ hm tid t ht hf.1 hf.2.1 hf.2.2.1
              omega
        | null => rfl
        | tag => rfl
      | _ => rfl
    rw [this]; exact D.consnodup

theorem construct_advances (t : Th) (r : R) (hpc : t.pc = .construct) (hc : (cont t r).pc.claim = true) :
    (cont t r).idx = t.idx + 1 := by
  revert hc
  simp only [cont, hpc, opDone]
  repeat' split
  all_goals simp [Pc.claim]

theorem conscur_step (s : St) (D : DInv s) (tid : Nat) (t : Th) (ht : s.ths[tid]? = some t) (a : Acc) (ha : accOf t = some a) :
    ∀ i al off, (i, al, off) ∈ (performS s.sh a).cons → ∀ (j : Nat) (u : Th),
      (s.ths.set tid (cont t (performR s.sh a)))[j]? = some u → u.pc.claim = true → u.start ≤ i → i < u.stop → i < u.idx := by
  intro i al off hc j u hu huc h1 h2
  rcases cons_step_mem s D tid t ht a ha _ hc with hold | ⟨hpc, al', sft, hs, he, _⟩
  · rcases get_set _ _ _ _ _ hu with ⟨rfl, rfl⟩ | ⟨hj, hu'⟩
    · rcases claim_step t (performR s.sh a) huc with ⟨hcl, e1, e2, hle, _⟩ | ⟨hp, d, had, e1, _⟩ | ⟨hp, hok, e1, _⟩
      · rw [e1] at h1; rw [e2] at h2
        have := D.conscur i al off hold j t ht hcl h1 h2; omega
      · exfalso
        rw [new_claim_start s D j t ht a ha (Or.inl ⟨hp, d, had, e1⟩)] at h1
        have := D.consbound i al off hold; omega
      · exfalso
        rw [new_claim_start s D j t ht a ha (Or.inr ⟨hp, hok, e1⟩)] at h1
        have := D.consbound i al off hold; omega
    · exact D.conscur i al off hold j u hu' huc h1 h2
  · simp only [Prod.mk.injEq] at he
    obtain ⟨rfl, _, _⟩ := he
    have hf := construct_facts s D tid t ht hpc
    rcases get_set _ _ _ _ _ hu with ⟨rfl, rfl⟩ | ⟨hj, hu'⟩
    · rw [construct_advances t _ hpc huc]; omega
    · exfalso
      rcases D.disj j tid u t hj hu' ht huc hf.1 with h | h <;> omega

/-! ### assembly -/

theorem DInv_step (s : St) (tid : Tid) (D : DInv s) : DInv (step s tid) := by
  rcases step_eq s tid with he | ⟨t, a, ht, ha, he⟩
  · rw [he]; exact D
  · have hg := GInv_step s tid D.g
    rw [he] at hg ⊢
    have m := step_mono2 s D tid t ht a ha
    have hnsf : a ≠ .storeFailed := fun h => by
      subst h; exact (D.d1 tid t ht).nofail.1 (accOf_storeFailed t ha)
    exact {
      g := hg
      nf := nofault_performS _ _ D.nf hnsf
      tile := tile_step s D tid t ht a ha
      disj := disj_step s D tid t ht a ha
      d1 := by
        intro j u hu
        rcases get_set _ _ _ _ _ hu with ⟨_, rfl⟩ | ⟨_, hu'⟩
        · exact LocD1_own s D tid t ht a ha
        · exact LocD1_mono _ _ _ m (D.d1 j u hu')
      d2 := by
        intro j u hu
        rcases get_set _ _ _ _ _ hu with ⟨_, rfl⟩ | ⟨_, hu'⟩
        · exact LocD2_own s D tid t ht a ha
        · exact LocD2_mono _ _ _ m (D.g.locA j u hu') (D.g.locC j u hu') (D.d2 j u hu')
      fblog := fblog_step s D tid t ht a ha
      long0 := long0_step s D tid t ht a ha
      fb0 := fb0_step s D tid t ht a ha
      embnull := embnull_step s D tid t ht a ha
      copy := copy_step s D tid t ht a ha
      switched := switched_step s D tid t ht a ha
      notag := notag_step s D tid t ht a ha
      sl := sl_step s D tid t ht a ha
      uniq := uniq_step s D tid t ht a ha
      onefirst := onefirst_step s D tid t ht a ha
      pubslot := pubslot_step s D tid t ht a ha
      freedfirst := freedfirst_step s D tid t ht a ha
      held := held_step s D tid t ht a ha
      holder := holder_step s D tid t ht a ha
      holders := holders_step s D tid t ht a ha
      ownull := ownull_step s D tid t ht a ha
      pend := pend_step s D tid t ht a ha
      consok := consok_step s D tid t ht a ha
      consnodup := consnodup_step s D tid t ht a ha
      consbound := consbound_step s D tid t ht a ha
      conscur := conscur_step s D tid t ht a ha }

/-- `DInv` holds in every reachable state of the failure-free system: any number of threads, any programs, any schedule -/
theorem DInv_reachable (progs : List (List Op)) (sched : List Tid) : DInv ((sys progs).run sched) :=
  Sys.inv_run _ DInv (DInv_init progs) (fun s t h => DInv_step s t h) sched

end TbbVerif.C11.Seg
