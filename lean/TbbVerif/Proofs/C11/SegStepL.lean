/- C11 segment-table protocol, failure-free runs: one step preserves the allocation ledger invariants —
   every pointer in a slot is a published allocation of the right kind and size; exactly one allocation per regular segment;
   at most one published first block; every unpublished allocation is held by exactly one thread (which will publish or free it). -/
import TbbVerif.Proofs.C11.SegStepP

namespace TbbVerif.C11.Seg
open TbbVerif.C11 (segIndex segBase segSize Op tiles)
open TbbVerif.Generated.C11

theorem publish_get (l : List AInfo) (v : Val) (b : Nat) :
    (publish l v)[b]? = match v with
      | .ptr al _ => if b = al then (l[al]?).map (fun e => { e with st := ASt.pub }) else l[b]?
      | _ => l[b]? := by
  cases v with
  | null => rfl
  | tag => rfl
  | ptr al sft =>
    simp only [publish]
    cases hl : l[al]? with
    | none =>
      simp only [Option.map_none]
      split
      · rename_i h; subst h; exact hl
      · rfl
    | some e =>
      simp only [Option.map_some, List.getElem?_set]
      by_cases hb : b = al
      · subst hb
        have : b < l.length := (List.getElem?_eq_some_iff.mp hl).1
        simp [this]
      · have : ¬ al = b := fun h => hb h.symm
        simp [hb, this]

/-- how a ledger entry of the post-state relates to the pre-state -/
theorem allocs_get_step (sh : Sh) (a : Acc) (b : Nat) (e' : AInfo) (h : (performS sh a).allocs[b]? = some e') :
    (∃ e, sh.allocs[b]? = some e ∧ e'.n = e.n ∧ e'.first = e.first ∧ e'.seg = e.seg ∧
        (e'.st = e.st ∨
         (e'.st = .pub ∧ ∃ T k sft, (a = .storeSlot T k (.ptr b sft) ∨ (a = .casSlot T k (.ptr b sft) ∧ slot sh T k = .null))) ∨
         (e'.st = .freed ∧ a = .free b))) ∨
    (b = sh.allocs.length ∧ ∃ n f sg, a = .alloc n f sg ∧ (sh.allocCalls + 1) ∉ sh.fAlloc ∧ e' = { n := n, first := f, seg := sg, st := .held }) := by
  rw [allocs_performS] at h
  cases a with
  | storeSlot T k v =>
    simp only at h
    rw [publish_get] at h
    cases v with
    | ptr al sft =>
      simp only at h
      split at h
      · rename_i hb; subst hb
        cases hl : sh.allocs[b]? with
        | none => rw [hl] at h; simp at h
        | some e =>
          rw [hl] at h; simp at h; subst h
          exact Or.inl ⟨e, rfl, rfl, rfl, rfl, Or.inr (Or.inl ⟨rfl, T, k, sft, Or.inl rfl⟩)⟩
      · exact Or.inl ⟨e', h, rfl, rfl, rfl, Or.inl rfl⟩
    | null => exact Or.inl ⟨e', h, rfl, rfl, rfl, Or.inl rfl⟩
    | tag => exact Or.inl ⟨e', h, rfl, rfl, rfl, Or.inl rfl⟩
  | casSlot T k v =>
    simp only at h
    split at h
    · rename_i hnull
      rw [publish_get] at h
      cases v with
      | ptr al sft =>
        simp only at h
        split at h
        · rename_i hb; subst hb
          cases hl : sh.allocs[b]? with
          | none => rw [hl] at h; simp at h
          | some e =>
            rw [hl] at h; simp at h; subst h
            exact Or.inl ⟨e, rfl, rfl, rfl, rfl, Or.inr (Or.inl ⟨rfl, T, k, sft, Or.inr ⟨rfl, hnull⟩⟩)⟩
        · exact Or.inl ⟨e', h, rfl, rfl, rfl, Or.inl rfl⟩
      | null => exact Or.inl ⟨e', h, rfl, rfl, rfl, Or.inl rfl⟩
      | tag => exact Or.inl ⟨e', h, rfl, rfl, rfl, Or.inl rfl⟩
    · exact Or.inl ⟨e', h, rfl, rfl, rfl, Or.inl rfl⟩
  | alloc n f sg =>
    simp only at h
    split at h
    · exact Or.inl ⟨e', h, rfl, rfl, rfl, Or.inl rfl⟩
    · rename_i hnf
      by_cases hb : b < sh.allocs.length
      · rw [List.getElem?_append_left hb] at h
        exact Or.inl ⟨e', h, rfl, rfl, rfl, Or.inl rfl⟩
      · rw [List.getElem?_append_right (by omega)] at h
        have hb0 : b - sh.allocs.length = 0 := by
          cases hbb : b - sh.allocs.length with
          | zero => rfl
          | succ m => rw [hbb] at h; simp at h
        rw [hb0] at h; simp at h
        exact Or.inr ⟨by omega, n, f, sg, rfl, hnf, h.symm⟩
  | free al =>
    simp only at h
    cases hl : sh.allocs[al]? with
    | none => rw [hl] at h; exact Or.inl ⟨e', h, rfl, rfl, rfl, Or.inl rfl⟩
    | some e =>
      rw [hl] at h
      simp only [List.getElem?_set] at h
      by_cases hb : al = b
      · subst hb
        have : al < sh.allocs.length := (List.getElem?_eq_some_iff.mp hl).1
        simp [this] at h; subst h
        exact Or.inl ⟨e, hl, rfl, rfl, rfl, Or.inr (Or.inr ⟨rfl, rfl⟩)⟩
      · simp [hb] at h
        exact Or.inl ⟨e', h, rfl, rfl, rfl, Or.inl rfl⟩
  | _ => exact Or.inl ⟨e', h, rfl, rfl, rfl, Or.inl rfl⟩

/-- conversely: an old entry is still there, with at most its state changed -/
theorem allocs_get_old (sh : Sh) (a : Acc) (b : Nat) (e : AInfo) (h : sh.allocs[b]? = some e) :
    ∃ e', (performS sh a).allocs[b]? = some e' ∧ e'.n = e.n ∧ e'.first = e.first ∧ e'.seg = e.seg := by
  rw [allocs_performS]
  cases a with
  | storeSlot T k v =>
    simp only; rw [publish_get]
    cases v with
    | ptr al sft =>
      simp only; split
      · rename_i hb; subst hb; rw [h]; exact ⟨_, rfl, rfl, rfl, rfl⟩
      · exact ⟨e, h, rfl, rfl, rfl⟩
    | null => exact ⟨e, h, rfl, rfl, rfl⟩
    | tag => exact ⟨e, h, rfl, rfl, rfl⟩
  | casSlot T k v =>
    simp only; split
    · rw [publish_get]
      cases v with
      | ptr al sft =>
        simp only; split
        · rename_i hb; subst hb; rw [h]; exact ⟨_, rfl, rfl, rfl, rfl⟩
        · exact ⟨e, h, rfl, rfl, rfl⟩
      | null => exact ⟨e, h, rfl, rfl, rfl⟩
      | tag => exact ⟨e, h, rfl, rfl, rfl⟩
    · exact ⟨e, h, rfl, rfl, rfl⟩
  | alloc n f sg =>
    simp only; split
    · exact ⟨e, h, rfl, rfl, rfl⟩
    · have hb : b < sh.allocs.length := (List.getElem?_eq_some_iff.mp h).1
      rw [List.getElem?_append_left hb]; exact ⟨e, h, rfl, rfl, rfl⟩
  | free al =>
    simp only
    cases hl : sh.allocs[al]? with
    | none => exact ⟨e, h, rfl, rfl, rfl⟩
    | some e0 =>
      simp only [List.getElem?_set]
      by_cases hb : al = b
      · subst hb
        have : al < sh.allocs.length := (List.getElem?_eq_some_iff.mp hl).1
        rw [hl] at h; cases h
        simp [this]
      · simp [hb]; exact ⟨e, h, rfl, rfl, rfl⟩
  | _ => exact ⟨e, h, rfl, rfl, rfl⟩

end TbbVerif.C11.Seg
