/- C11 segment-table protocol, failure-free runs: `sl` (every pointer in a slot is a published allocation of the right kind) is
   preserved by a step. -/
import TbbVerif.Proofs.C11.SegStepL

namespace TbbVerif.C11.Seg
open TbbVerif.C11 (segIndex segBase segSize Op tiles)
open TbbVerif.Generated.C11

theorem publish_pub (l : List AInfo) (al sft : Nat) (e : AInfo) (h : l[al]? = some e) :
    (publish l (.ptr al sft))[al]? = some { e with st := .pub } := by
  rw [publish_get]; simp [h]

/-- the kind facts `sl` records about a pointer in slot `k` -/
def slKind (fb k sft : Nat) (e : AInfo) : Prop :=
  (e.first = true ∧ sft = 0 ∧ k < fb ∧ e.n = segSize fb) ∨
  (e.first = false ∧ sft = segBase k ∧ e.seg = k ∧ fb ≤ k ∧ e.n = segSize k)

/-- what a thread writes into a slot is its own allocation, which the write publishes -/
theorem written_entry (s : St) (D : DInv s) (tid : Nat) (t : Th) (ht : s.ths[tid]? = some t) (a : Acc) (ha : accOf t = some a)
    (T k al sft : Nat) (hw : a = .storeSlot T k (.ptr al sft) ∨ (a = .casSlot T k (.ptr al sft) ∧ slot s.sh T k = .null)) :
    ∃ e, s.sh.allocs[al]? = some e ∧ slKind s.sh.fb k sft e ∧ (performS s.sh a).allocs[al]? = some { e with st := .pub } := by
  have hB := D.g.locB tid t ht
  have hD1 := D.d1 tid t ht
  have hD2 := D.d2 tid t ht
  have hfbl : ∀ (hk : t.pc.isK = true) (hn : t.pc ≠ .kFb), t.fbl = s.sh.fb := fun hk hn => hD1.fbl (Or.inl ⟨hk, hn⟩)
  have won_entry : (t.pc = .kFill ∨ t.pc = .kMirror) → ∃ e, s.sh.allocs[t.newSeg]? = some e ∧ e.first = true ∧ e.n = segSize s.sh.fb := by
    intro hp
    have hfbnz : s.sh.fb ≠ 0 := by apply hD1.fbnz <;> rcases hp with hp | hp <;> rw [hp] <;> rfl
    have hwon : slot s.sh t.etab 0 = ptrOf t := by
      apply hD2.won; unfold Th.fbWon; rcases hp with hp | hp <;> rw [hp] <;> rfl
    obtain ⟨e, he, _, hc⟩ := D.sl t.etab 0 t.newSeg 0 hwon
    rcases hc with ⟨h1, _, _, h4⟩ | ⟨_, _, _, h4, _⟩
    · exact ⟨e, he, h1, h4⟩
    · omega
  rcases hw with rfl | ⟨rfl, hnull⟩
  · rw [allocs_performS]; simp only
    rcases accOf_storeSlot t T k _ ha with ⟨hp, _, rfl, hv⟩ | ⟨hp, _, rfl, hv⟩ | ⟨hp, _, rfl, hv⟩ | hp | hp
    · simp only [ptrOf, Val.ptr.injEq] at hv; obtain ⟨rfl, rfl⟩ := hv
      obtain ⟨e, he, hf, hn⟩ := won_entry (Or.inl hp)
      have := hB.fill hp; have := hfbl (by rw [hp]; rfl) (by rw [hp]; simp)
      exact ⟨e, he, Or.inl ⟨hf, rfl, by omega, hn⟩, publish_pub _ _ _ _ he⟩
    · simp only [ptrOf, Val.ptr.injEq] at hv; obtain ⟨rfl, rfl⟩ := hv
      obtain ⟨e, he, hf, hn⟩ := won_entry (Or.inr hp)
      have := hB.mirror hp; have := hfbl (by rw [hp]; rfl) (by rw [hp]; simp)
      exact ⟨e, he, Or.inl ⟨hf, rfl, by omega, hn⟩, publish_pub _ _ _ _ he⟩
    · simp only [Val.ptr.injEq] at hv; obtain ⟨rfl, rfl⟩ := hv
      obtain ⟨e, he, _, h1, _⟩ := D.holder tid t ht (by simp [Th.holds, hp])
      obtain ⟨hf, hs, hn⟩ := h1 hp
      have := (hD1.owner (Or.inr hp)).2; have := hfbl (by rw [hp]; rfl) (by rw [hp]; simp)
      exact ⟨e, he, Or.inr ⟨hf, rfl, hs, by omega, hn⟩, publish_pub _ _ _ _ he⟩
    · exact absurd hp hD1.nofail.2.2.1
    · exact absurd hp hD1.nofail.2.2.2
  · rw [allocs_performS]; simp only [hnull, if_true]
    rcases accOf_casSlot t T k _ ha with ⟨hp, _, rfl, hv⟩ | hp
    · simp only [ptrOf, Val.ptr.injEq] at hv; obtain ⟨rfl, rfl⟩ := hv
      obtain ⟨e, he, _, _, h2⟩ := D.holder tid t ht (by simp [Th.holds, hp])
      obtain ⟨hf, hn⟩ := h2 (by rw [hp]; simp)
      have hfbnz : s.sh.fb ≠ 0 := hD1.fbnz (by rw [hp]; rfl) (by rw [hp]; rfl)
      have := hfbl (by rw [hp]; rfl) (by rw [hp]; simp)
      exact ⟨e, he, Or.inl ⟨hf, rfl, by omega, by rw [← this]; exact hn⟩, publish_pub _ _ _ _ he⟩
    · exact absurd hp hD1.nofail.2.1

/-- a published entry stays published -/
theorem pub_stays (s : St) (D : DInv s) (tid : Nat) (t : Th) (ht : s.ths[tid]? = some t) (a : Acc) (ha : accOf t = some a)
    (al : Nat) (e : AInfo) (he : s.sh.allocs[al]? = some e) (hp : e.st = .pub) :
    ∃ e', (performS s.sh a).allocs[al]? = some e' ∧ e'.st = .pub ∧ e'.n = e.n ∧ e'.first = e.first ∧ e'.seg = e.seg := by
  obtain ⟨e', he', h1, h2, h3⟩ := allocs_get_old s.sh a al e he
  refine ⟨e', he', ?_, h1, h2, h3⟩
  rcases allocs_get_step s.sh a al e' he' with ⟨e0, he0, _, _, _, hst⟩ | ⟨hb, _⟩
  · rw [he] at he0; cases he0
    rcases hst with h | ⟨h, _⟩ | ⟨_, hfree⟩
    · rw [h]; exact hp
    · exact h
    · exfalso
      subst hfree
      obtain ⟨hpc, rfl⟩ := accOf_free t al ha
      obtain ⟨e1, he1, hh, _⟩ := D.holder tid t ht (by simp [Th.holds, hpc])
      rw [he] at he1; cases he1
      rw [hp] at hh; cases hh
  · have := (List.getElem?_eq_some_iff.mp he).1; omega

theorem sl_step (s : St) (D : DInv s) (tid : Nat) (t : Th) (ht : s.ths[tid]? = some t) (a : Acc) (ha : accOf t = some a) :
    ∀ (T k al sft : Nat), slot (performS s.sh a) T k = .ptr al sft →
      ∃ e : AInfo, (performS s.sh a).allocs[al]? = some e ∧ e.st = .pub ∧ slKind (performS s.sh a).fb k sft e := by
  intro T k al sft hs
  have m := step_mono2 s D tid t ht a ha
  -- the pointer was already in some slot `k` before the step, or it is written now
  have hold : ∀ Tx, slot s.sh Tx k = .ptr al sft →
      ∃ e : AInfo, (performS s.sh a).allocs[al]? = some e ∧ e.st = .pub ∧ slKind (performS s.sh a).fb k sft e := by
    intro Tx hx
    obtain ⟨e, he, hp, hk⟩ := D.sl Tx k al sft hx
    have hfbnz : s.sh.fb ≠ 0 := fun h0 => by have := D.fb0 h0 Tx k; rw [hx] at this; cases this
    obtain ⟨e', he', hp', h1, h2, h3⟩ := pub_stays s D tid t ht a ha al e he hp
    refine ⟨e', he', hp', ?_⟩
    rw [m.m.fb hfbnz]
    unfold slKind; rw [h1, h2, h3]; exact hk
  have hnew : ∀ T0, (a = .storeSlot T0 k (.ptr al sft) ∨ (a = .casSlot T0 k (.ptr al sft) ∧ slot s.sh T0 k = .null)) →
      ∃ e : AInfo, (performS s.sh a).allocs[al]? = some e ∧ e.st = .pub ∧ slKind (performS s.sh a).fb k sft e := by
    intro T0 hw
    obtain ⟨e, he, hk, he'⟩ := written_entry s D tid t ht a ha T0 k al sft hw
    have hfbnz : s.sh.fb ≠ 0 := by
      rcases hw with rfl | ⟨rfl, _⟩
      · exact (write_tab s D tid t ht _ ha T0 k _ (Or.inl rfl)).2.2.1
      · exact (write_tab s D tid t ht _ ha T0 k _ (Or.inr rfl)).2.2.1
    refine ⟨_, he', rfl, ?_⟩
    rw [m.m.fb hfbnz]; exact hk
  rw [slot_performS] at hs
  cases a with
  | storeSlot T0 k0 v =>
    simp only at hs
    split at hs
    · rename_i hc; obtain ⟨_, rfl⟩ := hc; subst hs
      exact hnew T0 (Or.inl rfl)
    · exact hold T hs
  | casSlot T0 k0 v =>
    simp only at hs
    split at hs
    · rename_i hc; obtain ⟨hn, _, rfl⟩ := hc; subst hs
      exact hnew T0 (Or.inr ⟨rfl, hn⟩)
    · exact hold T hs
  | casTptr d c0 c1 c2 =>
    simp only at hs
    split at hs
    · rename_i hc
      rw [switch_copies s D tid t ht d c0 c1 c2 ha hc.1 hc.2.1 k] at hs
      exact hold 0 hs
    · exact hold T hs
  | _ => exact hold T hs

end TbbVerif.C11.Seg
-- touch
