/- C11 segment-table protocol, failure-free runs: one step preserves `pend` — while a thread copies the embedded table into its
   new long table (and the table is not switched yet), the entries it has already copied do not change: every thread that could
   still fill an embedded slot fills one that the copying thread waited for. -/
import TbbVerif.Proofs.C11.SegStepO

namespace TbbVerif.C11.Seg
open TbbVerif.C11 (segIndex segBase segSize Op tiles)
open TbbVerif.Generated.C11

/-- a thread in the copy phase of allocate_long_table has waited for the embedded slot any other thread may still fill -/
theorem copier_waited (s : St) (D : DInv s) (tid : Nat) (t : Th) (ht : s.ths[tid]? = some t)
    (j : Nat) (u : Th) (hu : s.ths[j]? = some u) (hj : j ≠ tid) (h0 : s.sh.tptr = 0)
    (hcp : u.pc = .xCopy ∨ u.pc = .xCas) (k : Nat) (hw : t.embWrite k ∨ (t.pc = .kMirror ∧ k = t.i)) :
    slot s.sh 0 k ≠ .null := by
  have hBu := D.g.locB j u hu
  have hCu := D.g.locC j u hu
  have hD1u := D.d1 j u hu
  have hD2u := D.d2 j u hu
  have hB := D.g.locB tid t ht
  have hD1 := D.d1 tid t ht
  have hD2 := D.d2 tid t ht
  have halt : u.pc.isAlt = true := by rcases hcp with h | h <;> rw [h] <;> rfl
  have hcopy : u.pc.isCopy = true := by rcases hcp with h | h <;> rw [h] <;> rfl
  have huc : u.pc.claim = true := by rcases hcp with h | h <;> rw [h] <;> rfl
  rcases hw with hw | ⟨hp, rfl⟩
  · cases hx : u.extRet with
    | fb =>
      -- the copier is the first-block winner of a first block larger than the embedded table
      have h8 := (hD1u.cross halt).2 hx
      have h3 := segSize_gt8 u.fbl h8
      have hfblu : u.fbl = s.sh.fb := hD1u.fbl (Or.inr ⟨by rcases hcp with h | h <;> rw [h] <;> rfl, hx⟩)
      have hwon : u.fbWon = true := by
        unfold Th.fbWon; rcases hcp with h | h <;> simp [h, Pc.isX, hx]
      have he0 : u.etab = 0 := hCu.xfb (by rcases hcp with h | h <;> rw [h] <;> rfl) hx
      have h00 := hCu.won0 hwon
      rw [he0] at h00
      rcases hw with ⟨hpc, hct, rfl⟩ | ⟨hpc, hct, rfl⟩ | ⟨hpc, hct, rfl⟩
      · exact h00
      · exfalso
        have hf3 := (hB.fill hpc).2.2 hct
        have hfbl : t.fbl = s.sh.fb := hD1.fbl (Or.inl ⟨by rw [hpc]; rfl, by rw [hpc]; simp⟩)
        omega
      · exfalso
        obtain ⟨_, ho2⟩ := hD1.owner (by rcases hpc with h | h; exact Or.inr h; exact Or.inl h)
        have hfbl : t.fbl = s.sh.fb := hD1.fbl (Or.inl ⟨by rcases hpc with h | h <;> rw [h] <;> rfl, by rcases hpc with h | h <;> rw [h] <;> simp⟩)
        have hk3 := owner_emb_lt3 s D tid t ht hpc hct
        omega
    | sub =>
      have hx8 := (hD1u.cross halt).1 (by rw [hx]; simp)
      have hsub : u.inSub = true := by
        unfold Th.inSub; rcases hcp with h | h <;> simp [h, Pc.isX, hx]
      have hlt := hD1u.idxlt hsub
      have hle := (hD1u.idx huc).1
      simp only [Th.xs, Th.xe, hx] at hx8
      obtain ⟨h1, h2⟩ := embw s D tid t ht k hw u.start u.stop (hD1u.inlog huc) (by omega) (by omega)
      exact hD2u.wait2 hcopy (by rw [hx]; simp) k h2 (by simp only [Th.xs, hx]; omega)
    | grow =>
      have hx8 := (hD1u.cross halt).1 (by rw [hx]; simp)
      simp only [Th.xs, Th.xe, hx] at hx8
      obtain ⟨h1, h2⟩ := embw s D tid t ht k hw u.start u.stop (hD1u.inlog huc) (by omega) (by omega)
      exact hD2u.wait2 hcopy (by rw [hx]; simp) k h2 (by simp only [Th.xs, hx]; omega)
  · -- kMirror: the winner's own table already holds the pointer, and that table is the embedded one while nothing is switched
    have hm := hD2.mir1 hp t.i (by have := hB.mirror hp; omega) (by have := hB.mirror hp; omega)
    have hct : t.ctab = 0 := by
      rcases (D.g.locA tid t ht).ctab with h | h
      · exact h
      · rw [h0] at h; exact h
    rw [hct] at hm; rw [hm]; simp [ptrOf]

theorem pend_step (s : St) (D : DInv s) (tid : Nat) (t : Th) (ht : s.ths[tid]? = some t) (a : Acc) (ha : accOf t = some a) :
    ∀ (j : Nat) (u : Th), (s.ths.set tid (cont t (performR s.sh a)))[j]? = some u → (performS s.sh a).tptr = 0 → u.newTab ≠ 0 →
      ∀ k, k < 3 → u.copied k → u.cK k = slot (performS s.sh a) 0 k := by
  intro j u hu htp hn k hk hc
  have m := step_mono2 s D tid t ht a ha
  have h0 : s.sh.tptr = 0 := by
    apply Classical.byContradiction; intro hne
    have := m.m.tptr hne; omega
  have hD1 := D.d1 tid t ht
  rcases get_set _ _ _ _ _ hu with ⟨rfl, rfl⟩ | ⟨hj, hu'⟩
  · -- the stepping thread
    have hi : t.pc = .xCopy → t.i < 3 := (D.g.locB j t ht).copy
    rcases copied_step t (performR s.sh a) k hk hc hn hi with ⟨hco, e1, e2⟩ | ⟨hp, rfl, e1, e2⟩
    · rw [e1]
      have hold := D.pend j t ht h0 (by rw [← e2]; exact hn) k hk hco
      rw [hold, slot_performS]
      -- the access of a thread in the copy phase is a load or the CAS on my_segment_table
      rcases hco with hp | ⟨hp, _⟩
      · have : ∃ d c0 c1 c2, a = .casTptr d c0 c1 c2 := by simp [accOf, hp] at ha; exact ⟨_, _, _, _, ha.symm⟩
        obtain ⟨d, c0, c1, c2, rfl⟩ := this
        simp
      · have : a = .loadSlot 0 t.i .rlx := by simp [accOf, hp] at ha; exact ha.symm
        subst this; rfl
    · rw [e1]
      have : a = .loadSlot 0 t.i .rlx := by simp [accOf, hp] at ha; exact ha.symm
      subst this
      simp [performR, slot_performS]
  · have hold := D.pend j u hu' h0 hn k hk hc
    rw [hold]
    have hcp : u.pc = .xCopy ∨ u.pc = .xCas := by
      rcases hc with h | ⟨h, _⟩
      · exact Or.inr h
      · exact Or.inl h
    -- another thread's write into embedded slot k finds it already filled
    rw [slot_performS]
    cases a with
    | storeSlot T0 k0 v =>
      simp only; split
      · rename_i hcc
        obtain ⟨hT, rfl⟩ := hcc
        have hT0 : T0 = 0 := by simpa using hT
        subst hT0
        have hnn : slot s.sh 0 k ≠ .null := by
          rcases accOf_storeSlot t 0 k v ha with ⟨hp, hct, hkk, _⟩ | ⟨hp, _, hkk, _⟩ | ⟨hp, hct, hkk, _⟩ | hp | hp
          · exact copier_waited s D tid t ht j u hu' hj h0 hcp k (Or.inl (Or.inr (Or.inl ⟨hp, hct.symm, hkk⟩)))
          · exact copier_waited s D tid t ht j u hu' hj h0 hcp k (Or.inr ⟨hp, hkk⟩)
          · exact copier_waited s D tid t ht j u hu' hj h0 hcp k (Or.inl (Or.inr (Or.inr ⟨Or.inl hp, hct.symm, hkk⟩)))
          · exact absurd hp hD1.nofail.2.2.1
          · exact absurd hp hD1.nofail.2.2.2
        rcases store_once s D tid t ht 0 k v ha with h | h
        · exact absurd h hnn
        · exact h
      · rfl
    | casSlot T0 k0 v =>
      simp only; split
      · rename_i hcc
        obtain ⟨hnull, hT, rfl⟩ := hcc
        have hT0 : T0 = 0 := by simpa using hT
        subst hT0
        exfalso
        rcases accOf_casSlot t 0 k v ha with ⟨hp, hct, hkk, _⟩ | hp
        · exact copier_waited s D tid t ht j u hu' hj h0 hcp k (Or.inl (Or.inl ⟨hp, hct.symm, hkk⟩)) hnull
        · exact hD1.nofail.2.1 hp
      · rfl
    | casTptr d c0 c1 c2 => simp
    | _ => rfl

end TbbVerif.C11.Seg
