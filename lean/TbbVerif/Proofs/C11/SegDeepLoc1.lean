/- C11 segment-table protocol, failure-free runs: the thread-local facts `LocD1` are preserved by the thread's own step. -/
import TbbVerif.Proofs.C11.SegDeepLoc1_a
import TbbVerif.Proofs.C11.SegDeepLoc1_b

namespace TbbVerif.C11.Seg
open TbbVerif.C11 (segIndex segBase segSize Op tiles)
open TbbVerif.Generated.C11

theorem LocD1_local (sh' : Sh) (t : Th) (r : R)
    (hok : (t.pc = .xAlloc ∨ t.pc = .kAllocFb ∨ t.pc = .kAllocSeg ∨ t.pc = .construct) → r.ok = true)
    (hflag : t.pc = .xFlag → r.ok = false)
    (hfbcas : (t.pc = .pAfbCas ∨ t.pc = .gAfbCas) → sh'.fb ≠ 0)
    (hfbload : (t.pc = .pAfbLoad ∨ t.pc = .gAfbLoad ∨ t.pc = .kFb ∨ t.pc = .gFb) → r.n = sh'.fb)
    (htptr : t.pc = .sTab → r.n = sh'.tptr)
    (hx : t.pc = .xCas → r.n ≠ 0)
    (hpush : ∀ rest, t.pc = .idle → t.ops = .pushBack :: rest → (r.n, r.n + 1) ∈ sh'.log)
    (hby : ∀ d rest, t.pc = .idle → t.ops = .growBy d :: rest → d ≠ 0 → (r.n, r.n + d) ∈ sh'.log)
    (htcas : t.pc = .tCas → r.ok = true → (t.old, t.target) ∈ sh'.log)
    (hA : LocA sh' t) (hB : LocB sh' t) (h : LocD1 sh' t) : LocD1 sh' (cont t r) := by
  by_cases hS : t.pc.isX = true ∨ t.pc.isK = true
  · exact LocD1_local_a sh' t r hok hflag hfbcas hfbload htptr hx hpush hby htcas hA hB h hS
  · exact LocD1_local_b sh' t r hok hflag hfbcas hfbload htptr hx hpush hby htcas hA hB h hS

end TbbVerif.C11.Seg
