/- C11 segment-table protocol, general invariants, group C (construct only through an observed pointer): the thread-local step. -/
import TbbVerif.Proofs.C11.SegDefs

namespace TbbVerif.C11.Seg
open TbbVerif.C11 (segIndex segBase segSize Op tiles)
open TbbVerif.Generated.C11

set_option maxHeartbeats 4000000 in
/-- the thread-local part of a step: `sh'` is the shared state after the access, `r` what it returned -/
theorem LocC_local (sh' : Sh) (t : Th) (r : R)
    (hload : ∀ T k o, accOf t = some (.loadSlot T k o) → r.v = slot sh' T k)
    (hstore : ∀ T k v, accOf t = some (.storeSlot T k v) → slot sh' T k = v)
    (hcas : ∀ T k v, accOf t = some (.casSlot T k v) → r.ok = true → slot sh' T k = v)
    (hA : LocA sh' t) (hB : LocB sh' t) (h : LocC sh' t) : LocC sh' (cont t r) := by
  obtain ⟨c1, c2, c3, c4, c5, c6, c7, c8, c9⟩ := h
  have kpre := hB.kpre
  have bsub := hB.sub
  have bgrow := hB.grow
  have bfill := hB.fill
  have bmir := hB.mirror
  have bisg := hB.isGrow
  have l3 := segIndex_lt3
  have vp : ∀ v : Val, v ≠ .null → v ≠ .tag → ∃ a s, v = .ptr a s := by intro v; cases v <;> simp
  cases hpc : t.pc
  case idle =>
    cases hops : t.ops with
    | nil => simp only [cont, hpc, hops]; exact ⟨c1, c2, c3, c4, c5, c6, c7, c8, c9⟩
    | cons op rest =>
      cases op
      all_goals (simp only [cont, hpc, hops, enterExtend, leaveExtend, fillStart, mirrorStart, leaveCreate, enterEnable, subDone, loopStart, growStart,
        waitStart, afterCasLoop, opDone, zStart])
      all_goals (repeat' split)
      all_goals (refine ⟨?_, ?_, ?_, ?_, ?_, ?_, ?_, ?_, ?_⟩)
      all_goals locc_close vp
  all_goals (
    (try simp [accOf, hpc, ptrOf] at hload)
    (try simp [accOf, hpc, ptrOf] at hstore)
    (try simp [accOf, hpc, ptrOf] at hcas)
    (try simp only [hpc, reduceCtorEq, false_implies, IsEmpty.forall_iff, false_or, or_false] at c1 c2 c5 c7 c8 c9 bfill bmir)
    (try simp [hpc, Th.fbWon, Pc.isX] at c3)
    (try simp [hpc, Th.fbPath, Pc.isX] at c4)
    (try simp [hpc, Pc.isX] at c6)
    (try simp [hpc, Pc.isKpre] at kpre)
    (try simp [hpc, Th.inSubPost, Th.inEn, Pc.isK, Pc.isX] at bsub)
    (try simp [hpc, Th.inGrowPost, Pc.claim, Pc.isGpre, Pc.isX] at bgrow)
    (try simp [hpc, Th.inEn, Pc.isK, Pc.isX, Pc.isG] at bisg))
  all_goals unfold_cont hpc
  all_goals (repeat' split)
  all_goals (refine ⟨?_, ?_, ?_, ?_, ?_, ?_, ?_, ?_, ?_⟩)
  all_goals locc_close vp

end TbbVerif.C11.Seg
