/- C11 segment-table protocol: consequences of the inductive invariants used by the property theorems
   (multi-step stability, element addresses, quiescence). -/
import TbbVerif.Proofs.C11.SegStepE
import TbbVerif.Proofs.C11.SegWaiters

namespace TbbVerif.C11.Seg
open TbbVerif.C11 (segIndex segBase segSize Op tiles addrOf)
open TbbVerif.Generated.C11

theorem run_append (progs : List (List Op)) (a b : List Tid) :
    (sys progs).runFrom ((sys progs).run a) b = (sys progs).run (a ++ b) := by
  simp [Sys.run, Sys.runFrom_append]

theorem step_mono2' (s : St) (D : DInv s) (tid : Tid) : Mono2 s.sh (step s tid).sh := by
  rcases step_eq s tid with he | ⟨t, a, ht, ha, he⟩
  · rw [he]
    exact ⟨Mono.refl _, fun _ h => h, fun _ h => h, fun _ _ _ _ _ h => h, fun _ _ _ h => h, fun _ h => h⟩
  · rw [he]; exact step_mono2 s D (tid := tid) t ht a ha

/-- pointer-valued slots and the current table's view are stable along any continuation of a failure-free run -/
theorem stable_run (progs : List (List Op)) (sched : List Tid) :
    ∀ (ext : List Tid),
      let s := (sys progs).run sched
      let s' := (sys progs).runFrom s ext
      (∀ T k al sft, (T = 0 ∨ (T = s.sh.tptr ∧ s.sh.tptr ≠ 0)) → slot s.sh T k = .ptr al sft → slot s'.sh T k = .ptr al sft) ∧
      (∀ k al sft, visible s.sh k = .ptr al sft → visible s'.sh k = .ptr al sft) ∧
      (∀ k, visible s.sh k ≠ .null → visible s'.sh k ≠ .null) ∧
      (∀ c, c ∈ s.sh.cons → c ∈ s'.sh.cons) := by
  intro ext
  induction ext generalizing sched with
  | nil => intro s s'; exact ⟨fun _ _ _ _ _ h => h, fun _ _ _ h => h, fun _ h => h, fun _ h => h⟩
  | cons x xs ih =>
    intro s s'
    have D := DInv_reachable progs sched
    have m := step_mono2' s D x
    have hs1 : (sys progs).step s x = (sys progs).run (sched ++ [x]) := by
      show (sys progs).step ((sys progs).run sched) x = (sys progs).run (sched ++ [x])
      simp only [Sys.run, Sys.runFrom_append, Sys.runFrom_cons, Sys.runFrom_nil]
    have ih' := ih (sched ++ [x])
    simp only at ih'
    rw [← hs1] at ih'
    have hs' : s' = (sys progs).runFrom ((sys progs).step s x) xs := rfl
    rw [hs']
    refine ⟨?_, ?_, ?_, ?_⟩
    · intro T k al sft hT h
      have h1 := m.ptr T k al sft hT h
      apply ih'.1 T k al sft _ h1
      rcases hT with h0 | ⟨h0, h2⟩
      · exact Or.inl h0
      · have := m.m.tptr h2
        exact Or.inr ⟨by rw [h0]; exact this.symm, by rw [show ((sys progs).step s x).sh.tptr = s.sh.tptr from this]; exact h2⟩
    · intro k al sft h; exact ih'.2.1 k al sft (m.vis k al sft h)
    · intro k h; exact ih'.2.2.1 k (m.visnn k h)
    · intro c h; exact ih'.2.2.2 c (m.cons c h)

/-- where an element was constructed: the allocation the table maps its segment to, at the offset `addrOf` computes, inside the
allocation -/
theorem cons_addr (s : St) (D : DInv s) (i al off : Nat) (hc : (i, al, off) ∈ s.sh.cons) (hsz : s.sh.size < 2 ^ 64) :
    ∃ (sft : Nat) (e : AInfo), visible s.sh (segIndex i) = .ptr al sft ∧ s.sh.allocs[al]? = some e ∧ e.st = .pub ∧
      off = (addrOf s.sh.fb i).2 ∧ off < e.n ∧ (e.first = true ↔ (addrOf s.sh.fb i).1 = 0 ∧ segIndex i < s.sh.fb) ∧
      (e.first = false → e.seg = segIndex i ∧ (addrOf s.sh.fb i).1 = segIndex i) := by
  obtain ⟨sft, hv, ho⟩ := D.consok i al off hc
  obtain ⟨e, he, hp, hk⟩ := D.sl s.sh.tptr (segIndex i) al sft hv
  have hi : i < 2 ^ 64 := by have := D.consbound i al off hc; omega
  have hlt := TbbVerif.C11.segIndex_lt64 i hi
  have hb := segBase_le_of_segIndex i hi
  have hfbnz : s.sh.fb ≠ 0 := fun h0 => by have := D.fb0 h0 s.sh.tptr (segIndex i); unfold visible at hv; rw [hv] at this; cases this
  refine ⟨sft, e, hv, he, hp, ?_⟩
  rcases hk with ⟨hf, rfl, hkf, hn⟩ | ⟨hf, rfl, hsg, hkf, hn⟩
  · have haddr : addrOf s.sh.fb i = (0, i) := by simp [addrOf, hkf]
    refine ⟨by rw [haddr, ho]; simp, ?_, ?_, ?_⟩
    · -- i < 2^(k+1) ≤ 2^fb
      rw [hn, ho, TbbVerif.C11.segSize_eq]
      simp only [hfbnz, if_false, Nat.sub_zero]
      rcases Nat.lt_or_ge i 2 with h2 | h2
      · have : 2 ^ 1 ≤ 2 ^ s.sh.fb := Nat.pow_le_pow_right (by omega) (by omega)
        omega
      · have hs := (TbbVerif.C11.segIndex_spec i h2).2
        have : 2 ^ (segIndex i + 1) ≤ 2 ^ s.sh.fb := Nat.pow_le_pow_right (by omega) (by omega)
        omega
    · rw [haddr]; simp [hf, hkf]
    · intro h; rw [hf] at h; cases h
  · have hnk : ¬ segIndex i < s.sh.fb := by omega
    have haddr : addrOf s.sh.fb i = (segIndex i, i - segBase (segIndex i)) := by simp [addrOf, hnk]
    refine ⟨by rw [haddr, ho], ?_, ?_, ?_⟩
    · rw [hn, ho]
      have hc := (TbbVerif.C11.segIndex_lt64 i hi)
      rw [TbbVerif.C11.segBase_eq _ hc, TbbVerif.C11.segSize_eq]
      rcases Nat.lt_or_ge i 2 with h2 | h2
      · rw [TbbVerif.C11.segIndex_small i h2]; simp; omega
      · have hp1 := TbbVerif.C11.segIndex_pos i h2
        have hs := TbbVerif.C11.segIndex_spec i h2
        have hne : segIndex i ≠ 0 := by omega
        simp only [hne, if_false]
        rw [Nat.pow_succ] at hs; omega
    · rw [hf]; simp; intro _; omega
    · intro _; exact ⟨hsg, by rw [haddr]⟩

/-- no thread holds an unpublished allocation in a state in which every call has returned -/
theorem quiescent_ledger (s : St) (D : DInv s) (hf : ∀ (j : Nat) (u : Th), s.ths[j]? = some u → u.ops = [] ∧ u.pc = .idle) :
    ∀ (al : Nat) (e : AInfo), s.sh.allocs[al]? = some e →
      (e.st = .freed ∧ e.first = true) ∨ (e.st = .pub ∧ ∃ k sft, visible s.sh k = .ptr al sft) := by
  intro al e he
  cases hst : e.st with
  | held =>
    obtain ⟨j, u, hu, _, hh⟩ := D.held al e he hst
    have := (hf j u hu).2
    simp [Th.holds, this] at hh
  | freed => exact Or.inl ⟨rfl, D.freedfirst al e he hst⟩
  | pub =>
    right
    refine ⟨rfl, ?_⟩
    have hps := D.pubslot al e he hst
    have tovis : ∀ k sft, (slot s.sh 0 k = .ptr al sft ∨ slot s.sh 1 k = .ptr al sft) → visible s.sh k = .ptr al sft := by
      intro k sft h
      unfold visible
      by_cases h0 : s.sh.tptr = 0
      · rw [h0]
        rcases h with h | h
        · exact h
        · have := D.long0 h0 k; rw [this] at h; cases h
      · rw [slot_nz _ _ _ h0]
        rcases h with h | h
        · rw [D.copy h0 k (by rw [h]; simp)]; exact h
        · exact h
    cases hfi : e.first with
    | true => exact ⟨0, 0, tovis 0 0 (hps.1 hfi)⟩
    | false => exact ⟨e.seg, segBase e.seg, tovis _ _ (hps.2 hfi)⟩

/-! ### deadlocked states -/

/-- the thread has finished, or it spins in a loop whose exit condition is false (re-reading the same word changes nothing) -/
def Th.parked (sh : Sh) (t : Th) : Bool :=
  (t.ops.isEmpty && t.pc == .idle) ||
  (t.pc == .kSpin && slot sh t.ctab t.cseg == .null && decide (t.cseg < nSlots t.ctab)) ||
  (t.pc == .xWait && slot sh 0 t.i == .null && decide (t.i < nSlots 0)) ||
  (t.pc == .wSpinTab && sh.tptr == 0)

theorem set_self (ths : List Th) (tid : Nat) (t : Th) (ht : ths[tid]? = some t) : ths.set tid t = ths := by
  apply List.ext_getElem?
  intro i
  rw [List.getElem?_set]
  split
  · rename_i h; subst h
    obtain ⟨hlt, hget⟩ := List.getElem?_eq_some_iff.mp ht
    simp [hlt, ht]
    exact hget.symm
  · rfl

theorem parked_step (s : St) (tid : Nat) (t : Th) (ht : s.ths[tid]? = some t) (hp : t.parked s.sh = true) : step s tid = s := by
  unfold Th.parked at hp
  simp only [Bool.or_eq_true, Bool.and_eq_true, beq_iff_eq, decide_eq_true_eq, List.isEmpty_iff] at hp
  unfold step
  simp only [ht, stepTh]
  rcases hp with ((⟨h1, h2⟩ | ⟨⟨h1, h2⟩, h3⟩) | ⟨⟨h1, h2⟩, h3⟩) | ⟨h1, h2⟩
  · simp [accOf, h2, h1]
    cases s; simp [set_self _ _ _ ht]
  · have : accOf t = some (.loadSlot t.ctab t.cseg .acq) := by simp [accOf, h1]
    simp only [this, performS, performR, touch, h3, if_true, cont, h1, h2]
    cases s; simp [set_self _ _ _ ht]
  · have : accOf t = some (.loadSlot 0 t.i .acq) := by simp [accOf, h1]
    simp only [this, performS, performR, touch, h3, if_true, cont, h1, h2]
    cases s; simp [set_self _ _ _ ht]
  · have : accOf t = some .loadTptr := by simp [accOf, h1]
    simp only [this, performS, performR, cont, h1, h2]
    cases s; simp [set_self _ _ _ ht]

/-- a state in which every thread is parked never changes again -/
theorem all_parked_stuck (s : St) (h : s.ths.all (fun t => t.parked s.sh) = true) : ∀ tid, step s tid = s := by
  intro tid
  cases ht : s.ths[tid]? with
  | none => unfold step; rw [ht]
  | some t =>
    have hm : t ∈ s.ths := List.mem_of_getElem? ht
    exact parked_step s tid t ht (List.all_eq_true.mp h t hm)

end TbbVerif.C11.Seg
