/- C11 segment-table protocol, failure-free runs: the thread-local facts `LocD1` are preserved by the thread's own step. -/
import TbbVerif.Proofs.C11.SegDefs

namespace TbbVerif.C11.Seg
open TbbVerif.C11 (segIndex segBase segSize Op tiles)
open TbbVerif.Generated.C11

set_option maxHeartbeats 4000000 in
theorem LocD1_local_a (sh' : Sh) (t : Th) (r : R)
    (hok : (t.pc = .xAlloc ∨ t.pc = .kAllocFb ∨ t.pc = .kAllocSeg ∨ t.pc = .construct) → r.ok = true)
    (hflag : t.pc = .xFlag → r.ok = false)
    (hfbcas : (t.pc = .pAfbCas ∨ t.pc = .gAfbCas) → sh'.fb ≠ 0)
    (hfbload : (t.pc = .pAfbLoad ∨ t.pc = .gAfbLoad ∨ t.pc = .kFb ∨ t.pc = .gFb) → r.n = sh'.fb)
    (htptr : t.pc = .sTab → r.n = sh'.tptr)
    (hx : t.pc = .xCas → r.n ≠ 0)
    (hpush : ∀ rest, t.pc = .idle → t.ops = .pushBack :: rest → (r.n, r.n + 1) ∈ sh'.log)
    (hby : ∀ d rest, t.pc = .idle → t.ops = .growBy d :: rest → d ≠ 0 → (r.n, r.n + d) ∈ sh'.log)
    (htcas : t.pc = .tCas → r.ok = true → (t.old, t.target) ∈ sh'.log)
    (hA : LocA sh' t) (hB : LocB sh' t) (h : LocD1 sh' t)
    (hS : t.pc.isX = true ∨ t.pc.isK = true) : LocD1 sh' (cont t r) := by
  obtain ⟨d1, d2, d3, d4, d5, d6, d7, d8, d9, d10, d11, d12, d13, d14⟩ := h
  have brange := hB.range
  have agtab := hA.gtab
  have afree := hA.freeNZ
  have e8 := segSize_gt8 t.fbl
  cases hpc : t.pc
  all_goals (try (exfalso; simp [hpc, Pc.isX, Pc.isK] at hS; done))
  all_goals (
    (try simp only [hpc, reduceCtorEq, false_implies, IsEmpty.forall_iff, false_or, or_false, true_or, or_true, forall_const, not_true_eq_false, not_false_eq_true, ne_eq, and_true, true_and, and_self] at hok hflag hfbcas hfbload htptr hx htcas d1 d10 d12 d13)
    (try simp [hpc, Pc.claim, Pc.afb] at d2)
    (try simp [hpc, Pc.isK, Pc.isX] at d3)
    (try simp [hpc, Pc.claim] at d4)
    (try simp [hpc, Pc.claim] at d5)
    (try simp [hpc, Th.inSub, Th.inEn, Pc.isK, Pc.isX] at d6)
    (try simp [hpc, Pc.claim] at d7)
    (try simp [hpc, Pc.isAlt] at d8)
    (try simp [hpc, Th.freshTab, Th.inEn, Pc.isK, Pc.isX] at d9)
    (try simp [hpc, Th.inEn, Pc.isK, Pc.isX] at d11)
    (try simp [hpc, Pc.claim] at brange)
    (try simp [hpc, Th.inEn, Pc.isK, Pc.isX, Pc.isG] at d14))
  all_goals unfold_cont hpc
  all_goals (repeat' split)
  all_goals (refine ⟨?_, ?_, ?_, ?_, ?_, ?_, ?_, ?_, ?_, ?_, ?_, ?_, ?_, ?_⟩)
  all_goals locd_close

end TbbVerif.C11.Seg
