/- C11 segment-table protocol, failure-free runs: one step preserves "what the switching thread waited for", "no failure tags",
   "slots beyond the embedded table stay empty", "no slot is filled before my_first_block is set". -/
import TbbVerif.Proofs.C11.SegStepD

namespace TbbVerif.C11.Seg
open TbbVerif.C11 (segIndex segBase segSize Op tiles)
open TbbVerif.Generated.C11

/-- a thread writes only into a table it has a valid snapshot of -/
theorem write_tab (s : St) (D : DInv s) (tid : Nat) (t : Th) (ht : s.ths[tid]? = some t) (a : Acc) (ha : accOf t = some a)
    (T k : Nat) (v : Val) (hw : a = .storeSlot T k v ∨ a = .casSlot T k v) :
    (T = 0 ∨ T = s.sh.tptr) ∧ (∃ al sft, v = .ptr al sft) ∧ s.sh.fb ≠ 0 ∧ (T = 0 → k < 3) := by
  have hA := D.g.locA tid t ht
  have hB := D.g.locB tid t ht
  have hD1 := D.d1 tid t ht
  have hk3 : T = 0 → k < 3 := by
    intro hT; subst hT
    exact acc_in_bounds s.sh t a ha hA hB k (by rcases hw with rfl | rfl <;> rfl)
  rcases hw with rfl | rfl
  · rcases accOf_storeSlot t T k v ha with ⟨hp, rfl, _, rfl⟩ | ⟨hp, rfl, _, rfl⟩ | ⟨hp, rfl, _, rfl⟩ | hp | hp
    · exact ⟨hA.ctab, ⟨_, _, rfl⟩, hD1.fbnz (by rw [hp]; rfl) (by rw [hp]; rfl), hk3⟩
    · exact ⟨Or.inl rfl, ⟨_, _, rfl⟩, hD1.fbnz (by rw [hp]; rfl) (by rw [hp]; rfl), hk3⟩
    · exact ⟨hA.ctab, ⟨_, _, rfl⟩, hD1.fbnz (by rw [hp]; rfl) (by rw [hp]; rfl), hk3⟩
    · exact absurd hp hD1.nofail.2.2.1
    · exact absurd hp hD1.nofail.2.2.2
  · rcases accOf_casSlot t T k v ha with ⟨hp, rfl, _, rfl⟩ | hp
    · exact ⟨hA.ctab, ⟨_, _, rfl⟩, hD1.fbnz (by rw [hp]; rfl) (by rw [hp]; rfl), hk3⟩
    · exact absurd hp hD1.nofail.2.1

theorem switched_step (s : St) (D : DInv s) (tid : Nat) (t : Th) (ht : s.ths[tid]? = some t) (a : Acc) (ha : accOf t = some a) :
    (performS s.sh a).tptr ≠ 0 →
      (3 < (performS s.sh a).fb ∧ slot (performS s.sh a) 0 0 ≠ .null) ∨
      (∃ x y, (x, y) ∈ (performS s.sh a).log ∧ x ≤ 8 ∧ 8 < y ∧ ∀ k, k < 3 → segBase k < x → slot (performS s.sh a) 0 k ≠ .null) := by
  have m := step_mono2 s D tid t ht a ha
  have nn : ∀ k, slot s.sh 0 k ≠ .null → slot (performS s.sh a) 0 k ≠ .null := fun k h => m.m.nn 0 k (Or.inl rfl) h
  intro htp
  by_cases h0 : s.sh.tptr = 0
  · -- this step is the switch
    have hcas : ∃ d c0 c1 c2, a = .casTptr d c0 c1 c2 := by
      rw [tptr_performS] at htp
      cases a <;> simp only at htp <;> first | exact absurd h0 htp | exact ⟨_, _, _, _, rfl⟩
    obtain ⟨d, c0, c1, c2, rfl⟩ := hcas
    obtain ⟨hpc, _⟩ := accOf_casTptr t d c0 c1 c2 ha
    have hB := D.g.locB tid t ht
    have hC := D.g.locC tid t ht
    have hD1 := D.d1 tid t ht
    have hD2 := D.d2 tid t ht
    have hcross := hD1.cross (by rw [hpc]; rfl)
    have hfb' : (performS s.sh (.casTptr d c0 c1 c2)).fb = s.sh.fb := by rw [fb_performS]
    cases hx : t.extRet with
    | fb =>
      left
      have h8 := hcross.2 hx
      have hfbl : t.fbl = s.sh.fb := hD1.fbl (Or.inr ⟨by rw [hpc]; rfl, hx⟩)
      have h3 := segSize_gt8 t.fbl h8
      have hwon : t.fbWon = true := by simp [Th.fbWon, hpc, Pc.isX, hx]
      have he0 : t.etab = 0 := hC.xfb (by rw [hpc]; rfl) hx
      have := hC.won0 hwon
      rw [he0] at this
      exact ⟨by rw [hfb']; omega, nn 0 this⟩
    | sub =>
      right
      have hc : t.pc.claim = true := by rw [hpc]; rfl
      have hx8 := hcross.1 (by rw [hx]; simp)
      have hsub : t.inSub = true := by simp [Th.inSub, hpc, Pc.isX, hx]
      have hlt := hD1.idxlt hsub
      have hle := (hD1.idx hc).1
      simp only [Th.xs, Th.xe, hx] at hx8
      refine ⟨t.start, t.stop, m.log _ (hD1.inlog hc), by omega, by omega, ?_⟩
      intro k hk hs
      exact nn k (hD2.wait2 (by rw [hpc]; rfl) (by rw [hx]; simp) k hk (by simp only [Th.xs, hx]; omega))
    | grow =>
      right
      have hc : t.pc.claim = true := by rw [hpc]; rfl
      have hx8 := hcross.1 (by rw [hx]; simp)
      simp only [Th.xs, Th.xe, hx] at hx8
      refine ⟨t.start, t.stop, m.log _ (hD1.inlog hc), by omega, by omega, ?_⟩
      intro k hk hs
      exact nn k (hD2.wait2 (by rw [hpc]; rfl) (by rw [hx]; simp) k hk (by simp only [Th.xs, hx]; omega))
  · rcases D.switched h0 with ⟨hf, h00⟩ | ⟨x, y, hxy, hx8, hy8, hall⟩
    · left
      have : (performS s.sh a).fb = s.sh.fb := m.m.fb (by omega)
      exact ⟨by rw [this]; exact hf, nn 0 h00⟩
    · right
      exact ⟨x, y, m.log _ hxy, hx8, hy8, fun k hk hs => nn k (hall k hk hs)⟩

theorem notag_step (s : St) (D : DInv s) (tid : Nat) (t : Th) (ht : s.ths[tid]? = some t) (a : Acc) (ha : accOf t = some a) :
    ∀ T k, slot (performS s.sh a) T k ≠ .tag := by
  intro T k
  rw [slot_performS]
  cases a with
  | storeSlot T0 k0 v =>
    simp only; split
    · obtain ⟨_, ⟨al, sft, rfl⟩, _⟩ := write_tab s D tid t ht _ ha T0 k0 v (Or.inl rfl); simp
    · exact D.notag T k
  | casSlot T0 k0 v =>
    simp only; split
    · obtain ⟨_, ⟨al, sft, rfl⟩, _⟩ := write_tab s D tid t ht _ ha T0 k0 v (Or.inr rfl); simp
    · exact D.notag T k
  | casTptr d c0 c1 c2 =>
    simp only; split
    · rename_i hc
      rw [switch_copies s D tid t ht d c0 c1 c2 ha hc.1 hc.2.1 k]
      exact D.notag 0 k
    · exact D.notag T k
  | _ => exact D.notag T k

theorem embnull_step (s : St) (D : DInv s) (tid : Nat) (t : Th) (ht : s.ths[tid]? = some t) (a : Acc) (ha : accOf t = some a) :
    ∀ k, 3 ≤ k → slot (performS s.sh a) 0 k = .null := by
  intro k hk
  rw [slot_performS]
  cases a with
  | storeSlot T0 k0 v =>
    simp only; split
    · rename_i hc
      have := (write_tab s D tid t ht _ ha T0 k0 v (Or.inl rfl)).2.2.2 (by have := hc.1; simpa using this)
      omega
    · exact D.embnull k hk
  | casSlot T0 k0 v =>
    simp only; split
    · rename_i hc
      have := (write_tab s D tid t ht _ ha T0 k0 v (Or.inr rfl)).2.2.2 (by have := hc.2.1; simpa using this)
      omega
    · exact D.embnull k hk
  | casTptr d c0 c1 c2 => simp only; simp; exact D.embnull k hk
  | _ => exact D.embnull k hk

theorem long0_step (s : St) (D : DInv s) (tid : Nat) (t : Th) (ht : s.ths[tid]? = some t) (a : Acc) (ha : accOf t = some a) :
    (performS s.sh a).tptr = 0 → ∀ k, slot (performS s.sh a) 1 k = .null := by
  intro htp k
  have h0 : s.sh.tptr = 0 := by
    apply Classical.byContradiction; intro hne
    have := (step_mono2 s D tid t ht a ha).m.tptr hne
    omega
  rw [slot_performS]
  rw [tptr_performS] at htp
  cases a with
  | storeSlot T0 k0 v =>
    simp only; split
    · rename_i hc
      have hT := (write_tab s D tid t ht _ ha T0 k0 v (Or.inl rfl)).1
      have : T0 ≠ 0 := fun h => by have := hc.1.mp h; omega
      rcases hT with h | h <;> omega
    · exact D.long0 h0 k
  | casSlot T0 k0 v =>
    simp only; split
    · rename_i hc
      have hT := (write_tab s D tid t ht _ ha T0 k0 v (Or.inr rfl)).1
      have : T0 ≠ 0 := fun h => by have := hc.2.1.mp h; omega
      rcases hT with h | h <;> omega
    · exact D.long0 h0 k
  | casTptr d c0 c1 c2 =>
    simp only at htp ⊢
    split
    · rename_i hc; rw [if_pos ⟨hc.1, hc.2.1⟩] at htp; exact absurd htp hc.2.1
    · exact D.long0 h0 k
  | _ => exact D.long0 h0 k

theorem fb0_step (s : St) (D : DInv s) (tid : Nat) (t : Th) (ht : s.ths[tid]? = some t) (a : Acc) (ha : accOf t = some a) :
    (performS s.sh a).fb = 0 → ∀ T k, slot (performS s.sh a) T k = .null := by
  intro hfb T k
  have h0 : s.sh.fb = 0 := by
    apply Classical.byContradiction; intro hne
    have := (step_mono2 s D tid t ht a ha).m.fb hne
    omega
  rw [slot_performS]
  cases a with
  | storeSlot T0 k0 v => exact absurd h0 (write_tab s D tid t ht _ ha T0 k0 v (Or.inl rfl)).2.2.1
  | casSlot T0 k0 v => exact absurd h0 (write_tab s D tid t ht _ ha T0 k0 v (Or.inr rfl)).2.2.1
  | casTptr d c0 c1 c2 =>
    simp only; split
    · rename_i hc
      rw [switch_copies s D tid t ht d c0 c1 c2 ha hc.1 hc.2.1 k]
      exact D.fb0 h0 0 k
    · exact D.fb0 h0 T k
  | _ => exact D.fb0 h0 T k

end TbbVerif.C11.Seg
