/- C11 segment-table protocol, failure-free runs: the range argument behind the table switch.
   A thread that still addresses the embedded table inside enable_segment lies completely below the range that crosses the end of
   the embedded table; hence every slot it may fill is one the switching thread waits for. -/
import TbbVerif.Proofs.C11.SegStepA
import TbbVerif.Proofs.C11.SegTrans

namespace TbbVerif.C11.Seg
open TbbVerif.C11 (segIndex segBase segSize Op tiles)
open TbbVerif.Generated.C11

theorem inEn_claim (t : Th) (h : t.inEn = true) : t.pc.claim = true := by
  revert h; unfold Th.inEn; cases t.pc <;> simp [Pc.isK, Pc.isX, Pc.claim]

/-- a thread inside enable_segment whose table snapshot is the embedded table has its whole claimed range below any range
that crosses index 8 -/
theorem below_cross (s : St) (D : DInv s) (j : Nat) (t : Th) (ht : s.ths[j]? = some t) (hen : t.inEn = true)
    (he : t.etab = 0) (a b : Nat) (hab : (a, b) ∈ s.sh.log) (ha8 : a ≤ 8) (hb8 : 8 < b) : t.stop ≤ a := by
  have hB := D.g.locB j t ht
  have hD := D.d1 j t ht
  have hc := inEn_claim t hen
  have hlog := hD.inlog hc
  have hr := hB.range hc
  have hdis : (t.start, t.stop) ≠ (a, b) → t.stop ≤ a ∨ b ≤ t.start := fun hne =>
    tiles_disjoint 0 _ _ D.tile (t.start, t.stop) (a, b) hlog hab hne
  cases her : t.enRet with
  | sub =>
    have htab : t.tab = 0 := by simpa [Th.etab, her] using he
    have hsp : t.inSubPost = true := by simp [Th.inSubPost, hen, her]
    have hidx := hB.sub hsp htab
    have hsub : t.inSub = true := by simp [Th.inSub, hen, her]
    have hlt := hD.idxlt hsub
    have hle := (hD.idx hc).1
    have hne : (t.start, t.stop) ≠ (a, b) := by
      intro heq
      have h1 : t.start = a := congrArg Prod.fst heq
      have h2 : t.stop = b := congrArg Prod.snd heq
      cases hg : t.inGrow with
      | true =>
        have hgp : t.inGrowPost = true := by
          unfold Th.inGrowPost
          simp only [hg, hc, Bool.true_and]
          revert hen; unfold Th.inEn
          cases hx : t.extRet <;> cases t.pc <;> simp [Pc.isK, Pc.isX, Pc.isGpre]
        have hfresh : t.freshTab = true := by simp [Th.freshTab, hen, her]
        have : t.gtab ≠ 0 := fun h0 => by have := hB.grow hgp h0; omega
        exact hD.fresh hg hfresh this htab
      | false =>
        have := hD.push hc hg
        omega
    rcases hdis hne with h | h
    · exact h
    · omega
  | grow =>
    have hgt : t.gtab = 0 := by simpa [Th.etab, her] using he
    have hg : t.inGrow = true := hB.isGrow (Or.inr (Or.inl ⟨hen, her⟩))
    have hgp : t.inGrowPost = true := by
      unfold Th.inGrowPost
      simp only [hg, hc, Bool.true_and]
      revert hen; unfold Th.inEn
      cases hx : t.extRet <;> cases t.pc <;> simp [Pc.isK, Pc.isX, Pc.isGpre]
    have h8 := hB.grow hgp hgt
    have hne : (t.start, t.stop) ≠ (a, b) := by
      intro heq
      have h2 : t.stop = b := congrArg Prod.snd heq
      omega
    rcases hdis hne with h | h
    · exact h
    · omega

/-- an owner that addresses the embedded table owns one of its three segments -/
theorem owner_emb_lt3 (s : St) (D : DInv s) (j : Nat) (t : Th) (ht : s.ths[j]? = some t)
    (hpc : t.pc = .kStoreSeg ∨ t.pc = .kAllocSeg) (hct : t.ctab = 0) : t.cseg < 3 := by
  have hB := D.g.locB j t ht
  have hen : t.inEn = true := by rcases hpc with h | h <;> simp [Th.inEn, h, Pc.isK]
  have hkp : t.ctab = t.etab := hB.kpre (by rcases hpc with h | h <;> rw [h] <;> rfl)
  have het : t.etab = 0 := by rw [← hkp]; exact hct
  have hc := inEn_claim t hen
  cases her : t.enRet with
  | sub =>
    have hsp : t.inSubPost = true := by simp [Th.inSubPost, hen, her]
    have htab : t.tab = 0 := by simpa [Th.etab, her] using het
    have h8 := hB.sub hsp htab
    simpa [Th.cseg, her] using segIndex_lt3 t.idx h8
  | grow =>
    have hgt : t.gtab = 0 := by simpa [Th.etab, her] using het
    have hg : t.inGrow = true := hB.isGrow (Or.inr (Or.inl ⟨hen, her⟩))
    have hgp : t.inGrowPost = true := by
      unfold Th.inGrowPost
      simp only [hg, hc, Bool.true_and]
      rcases hpc with h | h <;> simp [h, Pc.isX, Pc.isGpre]
    have h8 := hB.grow hgp hgt
    have hr := hB.range hc
    simpa [Th.cseg, her, Th.segEnd] using segIndex_lt3 (t.stop - 1) (by omega)

/-- the thread is about to put a (possibly new) value into slot `k` of the embedded table -/
def Th.embWrite (t : Th) (k : Nat) : Prop :=
  (t.pc = .kCasZero ∧ t.ctab = 0 ∧ k = 0) ∨ (t.pc = .kFill ∧ t.ctab = 0 ∧ k = t.i) ∨
  ((t.pc = .kStoreSeg ∨ t.pc = .kAllocSeg) ∧ t.ctab = 0 ∧ k = t.cseg)

/-- such a slot lies below the range that crosses the end of the embedded table: the switching thread waits for it -/
theorem embw (s : St) (D : DInv s) (j : Nat) (t : Th) (ht : s.ths[j]? = some t) (k : Nat) (hw : t.embWrite k)
    (a b : Nat) (hab : (a, b) ∈ s.sh.log) (ha8 : a ≤ 8) (hb8 : 8 < b) : segBase k < a ∧ k < 3 := by
  have hB := D.g.locB j t ht
  have hC := D.g.locC j t ht
  have hD := D.d1 j t ht
  rcases hw with ⟨hpc, hct, rfl⟩ | ⟨hpc, hct, rfl⟩ | ⟨hpc, hct, rfl⟩
  · -- kCasZero
    have hen : t.inEn = true := by simp [Th.inEn, hpc, Pc.isK]
    have hkp : t.ctab = t.etab := hB.kpre (by rw [hpc]; rfl)
    have hb := below_cross s D j t ht hen (by rw [← hkp]; exact hct) a b hab ha8 hb8
    have hr := hB.range (inEn_claim t hen)
    rw [segBase_0]; exact ⟨by omega, by omega⟩
  · -- kFill
    have hen : t.inEn = true := by simp [Th.inEn, hpc, Pc.isK]
    have het : t.etab = 0 := by
      apply Classical.byContradiction; intro hne
      have := hC.tabs (Or.inl hpc) hne
      rw [hct] at this; exact hne this.symm
    have hb := below_cross s D j t ht hen het a b hab ha8 hb8
    obtain ⟨hi1, hi2, hf3⟩ := hB.fill hpc
    have hf3 := hf3 hct
    have hfbl : t.fbl = s.sh.fb := hD.fbl (Or.inl ⟨by rw [hpc]; rfl, by rw [hpc]; simp⟩)
    have hfbnz : s.sh.fb ≠ 0 := by omega
    rcases D.fblog hfbnz with h1 | ⟨a', b', hab', hfb⟩
    · omega
    · have hne' := tiles_nonempty 0 _ _ D.tile (a', b') hab'
      have hlt := segBase_lt_of_fb t.i s.sh.fb b' hfb (by omega) (by have := hne'.1; simp at this; omega) (by omega)
      have hb'8 : b' ≤ 8 := by
        have h2 : segIndex (b' - 1) ≤ 2 := by omega
        have := segIndex_le2_lt8 (b' - 1) h2
        have := hne'.1; simp at this; omega
      have hne : (a', b') ≠ (a, b) := by
        intro heq; have : b' = b := congrArg Prod.snd heq; omega
      rcases tiles_disjoint 0 _ _ D.tile (a', b') (a, b) hab' hab hne with h | h
      · simp at h; exact ⟨by omega, by omega⟩
      · simp at h; have := hne'.1; simp at this; omega
  · -- kStoreSeg / kAllocSeg
    have hen : t.inEn = true := by rcases hpc with h | h <;> simp [Th.inEn, h, Pc.isK]
    have hkp : t.ctab = t.etab := hB.kpre (by rcases hpc with h | h <;> rw [h] <;> rfl)
    have het : t.etab = 0 := by rw [← hkp]; exact hct
    have hb := below_cross s D j t ht hen het a b hab ha8 hb8
    obtain ⟨ho1, ho2⟩ := hD.owner (by rcases hpc with h | h; exact Or.inr h; exact Or.inl h)
    have hc := inEn_claim t hen
    have hcs : t.cidx < t.stop ∧ t.cseg < 3 := by
      cases her : t.enRet with
      | sub =>
        have hsub : t.inSub = true := by simp [Th.inSub, hen, her]
        have hsp : t.inSubPost = true := by simp [Th.inSubPost, hen, her]
        have htab : t.tab = 0 := by simpa [Th.etab, her] using het
        have h8 := hB.sub hsp htab
        exact ⟨by simpa [Th.cidx, her] using hD.idxlt hsub, by simpa [Th.cseg, her] using segIndex_lt3 t.idx h8⟩
      | grow =>
        have := (hD.gown (Or.inr (Or.inr ⟨hen, her⟩))).2 (by rcases hpc with h | h <;> rw [h] <;> simp)
        have hgt : t.gtab = 0 := by simpa [Th.etab, her] using het
        have hg : t.inGrow = true := hB.isGrow (Or.inr (Or.inl ⟨hen, her⟩))
        have hgp : t.inGrowPost = true := by
          unfold Th.inGrowPost
          simp only [hg, hc, Bool.true_and]
          rcases hpc with h | h <;> simp [h, Pc.isX, Pc.isGpre]
        have h8 := hB.grow hgp hgt
        have hr := hB.range hc
        exact ⟨by simpa [Th.cidx, her] using this.2, by simpa [Th.cseg, her, Th.segEnd] using segIndex_lt3 (t.stop - 1) (by omega)⟩
    exact ⟨by omega, hcs.2⟩

end TbbVerif.C11.Seg
