/- C11 segment-table protocol, failure-free runs: the per-thread facts about slots and the construction ledger (`LocD2`) are
   preserved by the thread's own step. -/
import TbbVerif.Proofs.C11.SegDefs

namespace TbbVerif.C11.Seg
open TbbVerif.C11 (segIndex segBase segSize Op tiles)
open TbbVerif.Generated.C11

set_option maxHeartbeats 4000000 in
theorem LocD2_local_a (sh' : Sh) (t : Th) (r : R)
    (hload : ∀ T k o, accOf t = some (.loadSlot T k o) → r.v = slot sh' T k)
    (hstore : ∀ T k v, accOf t = some (.storeSlot T k v) → slot sh' T k = v)
    (hcas : ∀ T k v, accOf t = some (.casSlot T k v) → r.ok = true → slot sh' T k = v)
    (hvis : ∀ T k, (T = 0 ∨ T = sh'.tptr) → slot sh' T k ≠ .null → visible sh' k = slot sh' T k)
    (hctor : t.pc = .construct → ∃ a off, (t.idx, a, off) ∈ sh'.cons)
    (hok : t.pc = .construct → r.ok = true)
    (htptr : (t.pc = .wTab) → r.n = sh'.tptr)
    (hA : LocA sh' t) (hB : LocB sh' t) (hC : LocC sh' t) (hD : LocD1 sh' t) (h : LocD2 sh' t)
    (hS : t.pc.isX = true ∨ t.pc.isK = true) : LocD2 sh' (cont t r) := by
  obtain ⟨e1, e2, e3, e4, e5, e6, e7, e8, e9, e10, e11, e12⟩ := h
  have kpre := hB.kpre
  have bwait := hB.wait
  have bfill := hB.fill
  have bmir := hB.mirror
  have atab := hA.tab
  have awtab := hA.wtab
  have cxfb := hC.xfb
  have ctabs := hC.tabs
  have dpush := hD.push
  have didx := hD.idx
  have dlt := hD.idxlt
  have cenf := hC.enf
  have wx := wait_exit t.i
  have s0 := segBase_0
  cases hpc : t.pc
  all_goals (try (exfalso; simp [hpc, Pc.isX, Pc.isK] at hS; done))
  all_goals (
    (try simp [accOf, hpc, ptrOf] at hload)
    (try simp [accOf, hpc, ptrOf] at hstore)
    (try simp [accOf, hpc, ptrOf] at hcas)
    (try simp only [hpc, reduceCtorEq, false_implies, IsEmpty.forall_iff, false_or, or_false, true_or, or_true, forall_const, not_true_eq_false, not_false_eq_true, ne_eq, and_true, true_and, and_self] at hctor hok htptr e2 e3 e4 e5 e8 e9 e10 e11 bwait bfill bmir ctabs)
    (try simp [hpc, Th.fbWon, Pc.isX] at e1)
    (try simp [hpc, Pc.isCopy] at e6)
    (try simp [hpc, Pc.claim] at e7)
    (try simp [hpc, Pc.isKpre] at kpre)
    (try simp [hpc, Pc.isX] at cxfb)
    (try simp [hpc, Pc.claim] at dpush)
    (try simp [hpc, Pc.claim] at didx)
    (try simp [hpc, Th.inSub, Th.inEn, Pc.isK, Pc.isX] at dlt)
    (try simp only [hpc, reduceCtorEq, false_implies, forall_const] at cenf))
  all_goals unfold_cont hpc
  all_goals (repeat' split)
  all_goals (refine ⟨?_, ?_, ?_, ?_, ?_, ?_, ?_, ?_, ?_, ?_, ?_, ?_⟩)
  all_goals locd2_close

end TbbVerif.C11.Seg
