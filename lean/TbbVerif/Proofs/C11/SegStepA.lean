/- C11 segment-table protocol, failure-free runs: consequences of `DInv` in one state, the write-once property of one step,
   and the monotone evolution (`Mono2`) of the shared words it implies. -/
import TbbVerif.Proofs.C11.SegDInv

namespace TbbVerif.C11.Seg
open TbbVerif.C11 (segIndex segBase segSize Op tiles)
open TbbVerif.Generated.C11

/-- slot reads depend only on whether the table is the embedded one -/
theorem slot_nz (sh : Sh) (T k : Nat) (h : T ≠ 0) : slot sh T k = slot sh 1 k := by
  simp [slot, h]

/-- a non-null slot of any snapshot is what the current table shows -/
theorem vis_of_slot (s : St) (D : DInv s) (T k : Nat) (hT : T = 0 ∨ T = s.sh.tptr) (hn : slot s.sh T k ≠ .null) :
    visible s.sh k = slot s.sh T k := by
  unfold visible
  rcases hT with rfl | rfl
  · by_cases h0 : s.sh.tptr = 0
    · rw [h0]
    · rw [slot_nz _ _ _ h0]; exact D.copy h0 k hn
  · rfl

theorem fb_ne_zero_of_slot (s : St) (D : DInv s) (T k a sft : Nat) (h : slot s.sh T k = .ptr a sft) (hfb : s.sh.fb ≠ 0)
    (hk : k < s.sh.fb) : ∃ e : AInfo, s.sh.allocs[a]? = some e ∧ e.st = .pub ∧ e.first = true ∧ sft = 0 := by
  obtain ⟨e, he, hp, hc⟩ := D.sl T k a sft h
  rcases hc with ⟨h1, h2, _, _⟩ | ⟨_, _, _, h4, _⟩
  · exact ⟨e, he, hp, h1, h2⟩
  · omega

/-- **write once**: a store into a segment slot finds it empty or already holding the value it writes -/
theorem store_once (s : St) (D : DInv s) (tid : Nat) (t : Th) (ht : s.ths[tid]? = some t) (T k : Nat) (v : Val)
    (ha : accOf t = some (.storeSlot T k v)) : slot s.sh T k = .null ∨ slot s.sh T k = v := by
  have hB := D.g.locB tid t ht
  have hD1 := D.d1 tid t ht
  have hD2 := D.d2 tid t ht
  have first_case : ∀ (T' i : Nat), (t.pc = .kFill ∨ t.pc = .kMirror) → i < t.fbl → 
      slot s.sh T' i = .null ∨ slot s.sh T' i = ptrOf t := by
    intro T' i hp hi
    have hfbl : t.fbl = s.sh.fb := by
      apply hD1.fbl; left
      rcases hp with hp | hp <;> rw [hp] <;> exact ⟨rfl, by simp⟩
    have hfbnz : s.sh.fb ≠ 0 := by
      apply hD1.fbnz <;> rcases hp with hp | hp <;> rw [hp] <;> rfl
    have hwon : slot s.sh t.etab 0 = ptrOf t := by
      apply hD2.won; unfold Th.fbWon; rcases hp with hp | hp <;> rw [hp] <;> rfl
    cases hv : slot s.sh T' i with
    | null => exact Or.inl rfl
    | tag => exact absurd hv (D.notag T' i)
    | ptr a' s' =>
      right
      obtain ⟨e, he, hpub, hf, hs⟩ := fb_ne_zero_of_slot s D T' i a' s' hv hfbnz (by omega)
      obtain ⟨e2, he2, hpub2, hf2, _⟩ := fb_ne_zero_of_slot s D t.etab 0 t.newSeg 0 hwon hfbnz (by omega)
      have := D.onefirst a' t.newSeg e e2 he he2 hf hf2 hpub hpub2
      subst hs; rw [this]; rfl
  rcases accOf_storeSlot t T k v ha with ⟨hp, rfl, rfl, rfl⟩ | ⟨hp, rfl, rfl, rfl⟩ | ⟨hp, rfl, rfl, rfl⟩ | hp | hp
  · exact first_case _ _ (Or.inl hp) (hB.fill hp).2.1
  · exact first_case _ _ (Or.inr hp) (hB.mirror hp).2.1
  · left
    have := D.ownull tid t ht (Or.inr (Or.inr (Or.inl hp)))
    simpa [Th.oTab, Th.oSeg, hp] using this
  · exact absurd hp hD1.nofail.2.2.1
  · exact absurd hp hD1.nofail.2.2.2

/-- the CAS that installs the long table installs an exact copy of the embedded table -/
theorem switch_copies (s : St) (D : DInv s) (tid : Nat) (t : Th) (ht : s.ths[tid]? = some t) (d : Nat) (c0 c1 c2 : Val)
    (ha : accOf t = some (.casTptr d c0 c1 c2)) (h0 : s.sh.tptr = 0) (hd : d ≠ 0) :
    ∀ k, [c0, c1, c2].getD k .null = slot s.sh 0 k := by
  obtain ⟨hpc, rfl⟩ := accOf_casTptr t d c0 c1 c2 ha
  have hc : c0 = t.c0 ∧ c1 = t.c1 ∧ c2 = t.c2 := by
    unfold accOf at ha; simp only [hpc] at ha; cases ha; exact ⟨rfl, rfl, rfl⟩
  obtain ⟨rfl, rfl, rfl⟩ := hc
  have hp := D.pend tid t ht h0 hd
  intro k
  match k with
  | 0 => simpa [Th.cK] using hp 0 (by omega) (Or.inl hpc)
  | 1 => simpa [Th.cK] using hp 1 (by omega) (Or.inl hpc)
  | 2 => simpa [Th.cK] using hp 2 (by omega) (Or.inl hpc)
  | k + 3 => simpa using (D.embnull (k + 3) (by omega)).symm

/-- one failure-free step evolves the shared words monotonically -/
theorem step_mono2 (s : St) (D : DInv s) (tid : Nat) (t : Th) (ht : s.ths[tid]? = some t) (a : Acc) (ha : accOf t = some a) :
    Mono2 s.sh (performS s.sh a) := by
  have m := perform_mono s.sh a (accOf_writesNonNull t a ha)
  have hptr : ∀ T k al sft, (T = 0 ∨ (T = s.sh.tptr ∧ s.sh.tptr ≠ 0)) → slot s.sh T k = .ptr al sft →
      slot (performS s.sh a) T k = .ptr al sft := by
    intro T k al sft hT hs
    rw [slot_performS]
    cases a with
    | storeSlot T0 k0 v =>
      simp only
      split
      · rename_i hc
        have h1 := store_once s D tid t ht T0 k0 v ha
        have : slot s.sh T0 k0 = slot s.sh T k := by
          obtain ⟨hc1, rfl⟩ := hc
          unfold slot
          by_cases hT0 : T0 = 0
          · simp [hT0, hc1.mp hT0]
          · have : T ≠ 0 := fun h => hT0 (hc1.mpr h)
            simp [hT0, this]
        rw [this, hs] at h1
        rcases h1 with h1 | h1
        · cases h1
        · exact h1.symm
      · exact hs
    | casSlot T0 k0 v =>
      simp only
      split
      · rename_i hc
        obtain ⟨hn, hc1, rfl⟩ := hc
        have : slot s.sh T0 k = slot s.sh T k := by
          unfold slot
          by_cases hT0 : T0 = 0
          · simp [hT0, hc1.mp hT0]
          · have : T ≠ 0 := fun h => hT0 (hc1.mpr h)
            simp [hT0, this]
        rw [this, hs] at hn; cases hn
      · exact hs
    | casTptr d c0 c1 c2 =>
      simp only
      rcases hT with rfl | ⟨_, h2⟩
      · simpa using hs
      · simp [h2, hs]
    | _ => exact hs
  have hvis : ∀ k, visible (performS s.sh a) k = visible s.sh k ∨ visible s.sh k = .null := by
    intro k
    by_cases hsw : ∃ d c0 c1 c2, a = .casTptr d c0 c1 c2 ∧ s.sh.tptr = 0 ∧ d ≠ 0
    · obtain ⟨d, c0, c1, c2, rfl, h0, hd⟩ := hsw
      left
      unfold visible
      rw [slot_performS, tptr_performS]
      simp only [h0, hd, ne_eq, not_false_eq_true, and_self, if_true, true_and]
      rw [switch_copies s D tid t ht d c0 c1 c2 ha h0 hd k]
    · have htp : (performS s.sh a).tptr = s.sh.tptr := by
        rw [tptr_performS]
        cases a <;> simp only
        rename_i d c0 c1 c2
        split
        · rename_i hc; exact absurd ⟨d, c0, c1, c2, rfl, hc.1, hc.2⟩ hsw
        · rfl
      unfold visible
      rw [htp]
      cases hv : slot s.sh s.sh.tptr k with
      | null => right; rfl
      | tag => exact absurd hv (D.notag _ _)
      | ptr al sft =>
        left
        have hT : (s.sh.tptr = 0 ∨ (s.sh.tptr = s.sh.tptr ∧ s.sh.tptr ≠ 0)) := by
          by_cases h0 : s.sh.tptr = 0
          · exact Or.inl h0
          · exact Or.inr ⟨rfl, h0⟩
        exact hptr _ _ _ _ hT hv
  refine ⟨m, ?_, ?_, hptr, ?_, ?_⟩
  · intro x hx
    rw [log_performS]
    cases a <;> simp only <;> first | exact hx | (simp [hx]; done) | (split <;> simp [hx])
  · intro x hx
    rw [cons_performS]
    cases a with
    | ctor idx p => cases p <;> simp only <;> first | exact hx | (split <;> simp [hx])
    | _ => exact hx
  · intro k al sft hv
    rcases hvis k with h | h
    · rw [h]; exact hv
    · rw [h] at hv; cases hv
  · intro k hn
    rcases hvis k with h | h
    · rw [h]; exact hn
    · exact absurd h hn

end TbbVerif.C11.Seg
