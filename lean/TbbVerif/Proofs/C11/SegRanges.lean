/- C11 segment-table protocol: facts about the hand-out log (ranges tile, distinct ranges are disjoint) and the segment
   arithmetic needed by the table-switch argument. -/
import TbbVerif.Proofs.C11.SegBasic

namespace TbbVerif.C11.Seg
open TbbVerif.C11 (segIndex segBase segSize Op tiles)
open TbbVerif.Generated.C11

theorem pairwise_mem {α : Type} (R : α → α → Prop) (l : List α) (hp : l.Pairwise R) (x y : α)
    (hx : x ∈ l) (hy : y ∈ l) (hne : x ≠ y) : R x y ∨ R y x := by
  induction hp with
  | nil => cases hx
  | cons hhead _ ih =>
    simp only [List.mem_cons] at hx hy
    rcases hx with rfl | hx <;> rcases hy with rfl | hy
    · exact absurd rfl hne
    · exact Or.inl (hhead y hy)
    · exact Or.inr (hhead x hx)
    · exact ih hx hy

/-- two different ranges of a tiling are disjoint -/
theorem tiles_disjoint (lo hi : Nat) (rs : List (Nat × Nat)) (h : tiles lo rs hi) (x y : Nat × Nat)
    (hx : x ∈ rs) (hy : y ∈ rs) (hne : x ≠ y) : x.2 ≤ y.1 ∨ y.2 ≤ x.1 :=
  pairwise_mem _ rs (TbbVerif.C11.tiles_pairwise lo hi rs h) x y hx hy hne

theorem tiles_nonempty (lo hi : Nat) (rs : List (Nat × Nat)) (h : tiles lo rs hi) (x : Nat × Nat) (hx : x ∈ rs) :
    x.1 < x.2 ∧ x.2 ≤ hi :=
  let b := (TbbVerif.C11.tiles_mem_bounds lo hi rs h).2 x hx
  ⟨b.2.1, b.2.2⟩

/-- a range that contains an index of another range of the tiling is that range -/
theorem tiles_same (lo hi : Nat) (rs : List (Nat × Nat)) (h : tiles lo rs hi) (x y : Nat × Nat)
    (hx : x ∈ rs) (hy : y ∈ rs) (i : Nat) (h1 : x.1 ≤ i) (h2 : i < x.2) (h3 : y.1 ≤ i) (h4 : i < y.2) : x = y := by
  apply Classical.byContradiction
  intro hne
  rcases tiles_disjoint lo hi rs h x y hx hy hne with h5 | h5 <;> omega

/-! ### segment arithmetic -/

theorem segBase_mono (j k : Nat) (hjk : j ≤ k) (hk : k < 64) : segBase j ≤ segBase k := by
  rw [TbbVerif.C11.segBase_eq j (by omega), TbbVerif.C11.segBase_eq k hk]
  split <;> split
  · omega
  · exact Nat.zero_le _
  · omega
  · exact Nat.pow_le_pow_right (by omega) hjk

theorem segBase_le_of_segIndex (b : Nat) (hb : b < 2 ^ 64) : segBase (segIndex b) ≤ b := by
  have hlt := TbbVerif.C11.segIndex_lt64 b hb
  rw [TbbVerif.C11.segBase_eq _ hlt]
  split
  · omega
  · rcases Nat.lt_or_ge b 2 with h2 | h2
    · rename_i hne; exact absurd (TbbVerif.C11.segIndex_small b h2) hne
    · exact (TbbVerif.C11.segIndex_spec b h2).1

theorem segIndex_le2_lt8 (b : Nat) (h : segIndex b ≤ 2) : b < 8 := by
  apply Classical.byContradiction
  intro hc
  have h8 : 8 ≤ b := by omega
  have := (TbbVerif.C11.segIndex_spec b (by omega)).2
  have h2 : 2 ^ (segIndex b + 1) ≤ 2 ^ 3 := Nat.pow_le_pow_right (by omega) (by omega)
  omega

theorem segIndex_ge3 (b : Nat) (h : 8 ≤ b) : 3 ≤ segIndex b := by
  apply Classical.byContradiction
  intro hc
  have := segIndex_le2_lt8 b (by omega)
  omega

theorem segSize_gt8 (k : Nat) (h : 8 < segSize k) : 3 < k := by
  apply Classical.byContradiction
  intro hc
  have : k = 0 ∨ k = 1 ∨ k = 2 ∨ k = 3 := by omega
  rcases this with rfl | rfl | rfl | rfl <;> simp [segSize] at h

/-- slots below the first block whose size fits the embedded table have bases below the end of the range that fixed it -/
theorem segBase_lt_of_fb (i fb b : Nat) (hfb : fb = segIndex (b - 1) + 1) (hi : i < fb) (hb : 0 < b) (hfb3 : fb ≤ 3) :
    segBase i < b := by
  have h1 : segIndex (b - 1) ≤ 2 := by omega
  have h8 := segIndex_le2_lt8 (b - 1) h1
  have hlt : b - 1 < 2 ^ 64 := by omega
  have h2 := segBase_le_of_segIndex (b - 1) hlt
  have h3 := segBase_mono i (segIndex (b - 1)) (by omega) (by omega)
  omega

end TbbVerif.C11.Seg
