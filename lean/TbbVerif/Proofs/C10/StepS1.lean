/- C10: steps idle, rdMask, elect1, elect2, alloc, pubMask. -/
import TbbVerif.Proofs.C10.StepHelp

namespace TbbVerif.C10

/-! ### helpers -/

/-- the thread after its operation completed -/
theorem thinv_finish {hash : Nat → Nat} {sh : Sh} {tid : Tid} (t0 : Th) (v : Nat) (hm : t0.m ≤ sh.lvl) :
    ThInv hash sh tid (t0.finish v) := by
  refine ⟨?_, ?_, ?_, ?_, ?_⟩
  · intro f hf; cases hf
  · intro h; exact absurd rfl h
  · intro h; cases h
  · show CAt sh tid _ Pc.idle
    simp only [CAt]
    rfl
  · exact ⟨hm, fun h => absurd rfl h, fun h => (by cases h), fun h => (by cases h)⟩

/-- reading the mask (first step of an operation, or its restart) -/
theorem stepOK_doRdMask {hash : Nat → Nat} {sh : Sh} {tid : Tid} {t : Th} (t0 : Th) (hS : ShInv hash sh)
    (hh : t0.op.k ≠ .exclude → t0.h = hash t0.op.key) (hrs : t0.rs = false) (hg : t0.grow = 0) :
    StepOK hash sh tid t (doRdMask sh t0).1 (doRdMask sh t0).2.1 := by
  unfold doRdMask
  refine ⟨hS, ⟨?_, ?_, ?_, ?_, ?_⟩, frame_refl sh tid, fun h => absurd rfl h, fun h => absurd hg h⟩
  · intro f hf; cases hf
  · intro _ hk; exact hh hk
  · intro h
    have h' : t0.rs = true := h
    rw [hrs] at h'; cases h'
  · show CAt sh tid _ Pc.peek
    simp only [CAt]
    trivial
  · exact ⟨Nat.le_refl _, fun h => absurd hg h, fun h => (by cases h), fun h => (by cases h)⟩

theorem afterLink_grow (t1 : Th) : (afterLink t1).grow = t1.grow := by
  unfold afterLink afterNode
  split <;> rfl

/-- after the node is linked (and the election is over): element lock or release of the bucket -/
theorem thinv_afterLink {hash : Nat → Nat} {sh : Sh} {tid : Tid} {t1 : Th} (hheld : ∀ f ∈ t1.stk, HoldsB sh tid f)
    (hOk : t1.op.k ≠ .exclude → t1.h = hash t1.op.key) (hrs : t1.rs = false)
    (hs : t1.stk = [(t1.b0, true)]) (hof : OpFrame sh t1 t1.b0) (hf : Found sh t1 t1.b0) (hm : t1.m ≤ sh.lvl)
    (hgr : t1.grow ≠ 0 → t1.grow = sh.lvl ∧ sh.seg sh.lvl ≠ .none ∧ t1.ret = true ∧ t1.op.k = .ins) :
    ThInv hash sh tid (afterLink t1) := by
  have hw0 : t1.w0 = true := (b0_cons t1 hs).2
  have hs' : t1.stk = [(t1.b0, t1.w0)] := by rw [hw0]; exact hs
  unfold afterLink afterNode
  split
  · refine ⟨hheld, fun _ hk => hOk hk, ?_, ?_, ?_⟩
    · intro h
      have h' : t1.rs = true := h
      rw [hrs] at h'; cases h'
    · show CAt sh tid _ (Pc.relB After.fin)
      simp only [CAt]
      exact ⟨hs', hof⟩
    · refine ⟨hm, ?_, fun h => (by cases h), fun h => (by cases h)⟩
      intro h
      obtain ⟨a, b, c, d⟩ := hgr h
      exact ⟨a, b, Or.inr (Or.inl rfl), c, d⟩
  · refine ⟨hheld, fun _ hk => hOk hk, ?_, ?_, ?_⟩
    · intro h
      have h' : t1.rs = true := h
      rw [hrs] at h'; cases h'
    · show CAt sh tid _ Pc.elemTry
      simp only [CAt]
      exact ⟨hs', hof, hf⟩
    · refine ⟨hm, ?_, fun h => (by cases h), fun h => (by cases h)⟩
      intro h
      obtain ⟨a, b, c, d⟩ := hgr h
      exact ⟨a, b, Or.inl rfl, c, d⟩

/-! ### rdMask -/

theorem stepOK_rdMask {hash : Nat → Nat} {sh : Sh} {tid : Tid} {t : Th} (alt : Nat) (hS : ShInv hash sh) (hT : ThInv hash sh tid t)
    (hpc : t.pc = .rdMask) : StepOK hash sh tid t (stepTh hash sh tid t alt).1 (stepTh hash sh tid t alt).2.1 := by
  have hg0 := grow_zero_of_pc hT.g (by rw [hpc]; simp) (by rw [hpc]; simp) (by rw [hpc]; simp) (by rw [hpc]; simp)
  have hrs0 := rs_false_of_pc hT (by rw [hpc]; simp) (by rw [hpc]; simp) (by rw [hpc]; simp)
  have hpci : t.pc ≠ .idle := by rw [hpc]; simp
  have hstep : stepTh hash sh tid t alt = doRdMask sh t := by
    unfold stepTh
    rw [hpc]
  rw [hstep]
  exact stepOK_doRdMask t hS (hT.hOk hpci) hrs0 hg0

/-! ### elect1 -/

theorem stepOK_elect1 {hash : Nat → Nat} {sh : Sh} {tid : Tid} {t : Th} (alt : Nat) (hS : ShInv hash sh) (hT : ThInv hash sh tid t)
    (hpc : t.pc = .elect1) : StepOK hash sh tid t (stepTh hash sh tid t alt).1 (stepTh hash sh tid t alt).2.1 := by
  have hc := hT.c
  rw [hpc] at hc
  simp only [CAt] at hc
  obtain ⟨hs, hof, hf, hret, hins⟩ := hc
  have hg0 := grow_zero_of_pc hT.g (by rw [hpc]; simp) (by rw [hpc]; simp) (by rw [hpc]; simp) (by rw [hpc]; simp)
  have hrs0 := rs_false_of_pc hT (by rw [hpc]; simp) (by rw [hpc]; simp) (by rw [hpc]; simp)
  have hpci : t.pc ≠ .idle := by rw [hpc]; simp
  have hstep : stepTh hash sh tid t alt =
      (if sh.seg t.m = .none then (sh, { t with pc := .elect2 }, .ldt t.m false)
       else (sh, afterLink { t with grow := 0 }, .ldt t.m true)) := by
    unfold stepTh
    rw [hpc]
  rw [hstep]
  split
  · refine ⟨hS, ?_, frame_refl sh tid, fun h => absurd rfl h, fun h => Or.inl h⟩
    refine thinv_same_sh hT rfl rfl rfl rfl rfl rfl hpci hrs0 hg0 ⟨by simp, by simp⟩ ?_
    show CAt sh tid _ Pc.elect2
    simp only [CAt]
    exact ⟨hs, hof, hf, hret, hins⟩
  · refine ⟨hS, ?_, frame_refl sh tid, fun h => absurd rfl h, ?_⟩
    · exact thinv_afterLink (t1 := { t with grow := 0 }) hT.heldB (hT.hOk hpci) hrs0 hs hof hf hT.g.1 (fun h => absurd rfl h)
    · intro h
      rw [afterLink_grow] at h
      exact absurd rfl h

/-! ### elect2 -/

theorem stepOK_elect2 {hash : Nat → Nat} {sh : Sh} {tid : Tid} {t : Th} (alt : Nat) (hS : ShInv hash sh) (hT : ThInv hash sh tid t)
    (hpc : t.pc = .elect2) : StepOK hash sh tid t (stepTh hash sh tid t alt).1 (stepTh hash sh tid t alt).2.1 := by
  have hc := hT.c
  rw [hpc] at hc
  simp only [CAt] at hc
  obtain ⟨hs, hof, hf, hret, hins⟩ := hc
  have hg0 := grow_zero_of_pc hT.g (by rw [hpc]; simp) (by rw [hpc]; simp) (by rw [hpc]; simp) (by rw [hpc]; simp)
  have hrs0 := rs_false_of_pc hT (by rw [hpc]; simp) (by rw [hpc]; simp) (by rw [hpc]; simp)
  have hpci : t.pc ≠ .idle := by rw [hpc]; simp
  have hstep : stepTh hash sh tid t alt =
      (if sh.seg t.m = .none then ({ sh with seg := upd sh.seg t.m .allocating }, afterLink { t with grow := t.m }, .tcas t.m true)
       else (sh, afterLink { t with grow := 0 }, .tcas t.m false)) := by
    unfold stepTh
    rw [hpc]
  rw [hstep]
  split
  · rename_i hnone
    have hkl : t.m ≠ 0 → t.m = sh.lvl := by
      intro h0
      apply Classical.byContradiction
      intro hne
      have hle := hT.g.1
      exact hS.seg_lo t.m (by omega) (by omega) hnone
    have hmono : ∀ k, sh.seg k ≠ .none → upd sh.seg t.m .allocating k ≠ .none := by
      intro k hk
      rw [upd_apply]
      split
      · intro h; cases h
      · exact hk
    have hS1 : ShInv hash { sh with seg := upd sh.seg t.m .allocating } :=
      ⟨hS.lvl_pos, hS.emb, hS.top, hS.closed, hS.home, hS.nodup, hS.bwf, hS.pend, fun k h1 h2 => hmono k (hS.seg_lo k h1 h2)⟩
    refine ⟨hS1, ?_, Frame.mk' (LockFrame.refl _ _) (BktFrame.refl _ _ _) (Nat.le_refl _) hmono, fun h => absurd rfl h, ?_⟩
    · refine thinv_afterLink (t1 := { t with grow := t.m }) (fun f hf => hT.heldB f hf) (hT.hOk hpci) hrs0 hs hof hf hT.g.1 ?_
      intro h0
      have hm : t.m = sh.lvl := hkl h0
      refine ⟨hm, ?_, hret, hins⟩
      show upd sh.seg t.m .allocating sh.lvl ≠ .none
      rw [← hm, upd_same]
      intro h; cases h
    · intro h
      rw [afterLink_grow] at h
      have hm : t.m = sh.lvl := hkl h
      right
      rw [← hm]; exact hnone
  · refine ⟨hS, ?_, frame_refl sh tid, fun h => absurd rfl h, ?_⟩
    · exact thinv_afterLink (t1 := { t with grow := 0 }) hT.heldB (hT.hOk hpci) hrs0 hs hof hf hT.g.1 (fun h => absurd rfl h)
    · intro h
      rw [afterLink_grow] at h
      exact absurd rfl h

/-! ### alloc -/

/-- the segment table after `enable_segment(k)` stored its pointers -/
def allocSeg (sh : Sh) (k : Nat) : Nat → Seg :=
  if k < Generated.C10.firstBlock then (fun j => if 1 ≤ j ∧ j < Generated.C10.firstBlock then Seg.enabled else sh.seg j)
  else upd sh.seg k .enabled

theorem allocSeg_mono (sh : Sh) (k j : Nat) (h : sh.seg j ≠ .none) : allocSeg sh k j ≠ .none := by
  unfold allocSeg
  split
  · show (if 1 ≤ j ∧ j < Generated.C10.firstBlock then Seg.enabled else sh.seg j) ≠ .none
    split
    · intro h'; cases h'
    · exact h
  · rw [upd_apply]
    split
    · intro h'; cases h'
    · exact h

theorem allocSeg_lo (sh : Sh) (k : Nat) (hlo : ∀ j, 1 ≤ j → j < k → sh.seg j ≠ .none) :
    ∀ j, 1 ≤ j → j < lvlAfterEnable k → allocSeg sh k j ≠ .none := by
  intro j h1 h2
  unfold lvlAfterEnable at h2
  unfold allocSeg
  split
  · rename_i hk
    rw [if_pos hk] at h2
    show (if 1 ≤ j ∧ j < Generated.C10.firstBlock then Seg.enabled else sh.seg j) ≠ .none
    rw [if_pos ⟨h1, h2⟩]
    intro h'; cases h'
  · rename_i hk
    rw [if_neg hk] at h2
    rw [upd_apply]
    split
    · intro h'; cases h'
    · rename_i hjk
      exact hlo j h1 (by omega)

theorem stepOK_alloc {hash : Nat → Nat} {sh : Sh} {tid : Tid} {t : Th} (alt : Nat) (hS : ShInv hash sh) (hT : ThInv hash sh tid t)
    (hpc : t.pc = .alloc) : StepOK hash sh tid t (stepTh hash sh tid t alt).1 (stepTh hash sh tid t alt).2.1 := by
  have hc := hT.c
  rw [hpc] at hc
  simp only [CAt] at hc
  have hrs0 := rs_false_of_pc hT (by rw [hpc]; simp) (by rw [hpc]; simp) (by rw [hpc]; simp)
  have hpci : t.pc ≠ .idle := by rw [hpc]; simp
  obtain ⟨g1, g2, g3, _⟩ := hT.g
  have hgne : t.grow ≠ 0 := g3 hpc
  obtain ⟨hgl, hsl, _, hret, hins⟩ := g2 hgne
  have hstep : stepTh hash sh tid t alt =
      ({ sh with seg := allocSeg sh t.grow }, { t with pc := .pubMask }, .tst t.grow) := by
    unfold stepTh allocSeg
    rw [hpc]
  rw [hstep]
  have hS1 : ShInv hash { sh with seg := allocSeg sh t.grow } :=
    ⟨hS.lvl_pos, hS.emb, hS.top, hS.closed, hS.home, hS.nodup, hS.bwf, hS.pend,
      fun k h1 h2 => allocSeg_mono sh _ k (hS.seg_lo k h1 h2)⟩
  refine ⟨hS1, ?_, Frame.mk' (LockFrame.refl _ _) (BktFrame.refl _ _ _) (Nat.le_refl _) (allocSeg_mono sh _),
    fun h => absurd rfl h, fun _ => Or.inl hgne⟩
  refine ⟨fun f hf => hT.heldB f hf, fun _ hk => hT.hOk hpci hk, ?_, ?_, ?_⟩
  · intro h
    have h' : t.rs = true := h
    rw [hrs0] at h'; cases h'
  · show CAt _ tid _ Pc.pubMask
    simp only [CAt]
    exact hc
  · refine ⟨g1, fun _ => ⟨hgl, allocSeg_mono sh _ _ hsl, Or.inr (Or.inr (Or.inr rfl)), hret, hins⟩, fun _ => hgne, fun _ => ⟨hgne, ?_⟩⟩
    apply allocSeg_lo
    intro j h1 h2
    exact hS.seg_lo j h1 (by rw [← hgl]; exact h2)

/-! ### pubMask -/

theorem le_lvlAfterEnable (k : Nat) : k ≤ lvlAfterEnable k := by
  unfold lvlAfterEnable
  split <;> omega

theorem stepOK_pubMask {hash : Nat → Nat} {sh : Sh} {tid : Tid} {t : Th} (alt : Nat) (hS : ShInv hash sh) (hT : ThInv hash sh tid t)
    (hpc : t.pc = .pubMask) : StepOK hash sh tid t (stepTh hash sh tid t alt).1 (stepTh hash sh tid t alt).2.1 := by
  obtain ⟨g1, g2, _, g4⟩ := hT.g
  obtain ⟨hgne, hlo⟩ := g4 hpc
  obtain ⟨hgl, _, _, _, _⟩ := g2 hgne
  have hle : sh.lvl ≤ lvlAfterEnable t.grow := by
    have := le_lvlAfterEnable t.grow
    omega
  have hstep : stepTh hash sh tid t alt =
      ({ sh with lvl := lvlAfterEnable t.grow }, t.finish t.resVal, .stmask (2 ^ lvlAfterEnable t.grow - 1)) := by
    unfold stepTh
    rw [hpc]
  rw [hstep]
  have hS1 : ShInv hash { sh with lvl := lvlAfterEnable t.grow } := by
    refine ⟨Nat.le_trans hS.lvl_pos hle, hS.emb, ?_, hS.closed, ?_, hS.nodup, hS.bwf, hS.pend, hlo⟩
    · intro b hb
      exact hS.top b (Nat.le_trans (Nat.pow_le_pow_right (by decide) hle) hb)
    · intro b n hn
      exact homeIs_congr (sh := sh) (fun _ => rfl) hle (hS.home b n hn)
  refine ⟨hS1, thinv_finish t t.resVal (Nat.le_trans g1 hle),
    Frame.mk' (LockFrame.refl _ _) (BktFrame.refl _ _ _) hle (fun _ h => h), fun _ => hgne, fun h => absurd rfl h⟩

/-! ### idle -/

/-- an operation that cannot start (misuse of the accessor slot) is dropped -/
theorem stepOK_drop {hash : Nat → Nat} {sh : Sh} {tid : Tid} {t : Th} (hS : ShInv hash sh) (hT : ThInv hash sh tid t)
    (hpc : t.pc = .idle) : StepOK hash sh tid t sh t.drop := by
  have hc := hT.c
  rw [hpc] at hc
  simp only [CAt] at hc
  have hg0 := grow_zero_of_pc hT.g (by rw [hpc]; simp) (by rw [hpc]; simp) (by rw [hpc]; simp) (by rw [hpc]; simp)
  have hpc' : t.drop.pc = .idle := hpc
  refine ⟨hS, ⟨fun f hf => hT.heldB f hf, fun h => absurd hpc' h, fun h => hT.rsOk h, ?_, ?_⟩, frame_refl sh tid,
    fun h => absurd rfl h, fun h => Or.inl h⟩
  · rw [hpc']
    simp only [CAt]
    exact hc
  · exact growAt_zero hT.g.1 hg0 (by rw [hpc']; simp) (by rw [hpc']; simp)

theorem stepOK_idle {hash : Nat → Nat} {sh : Sh} {tid : Tid} {t : Th} (alt : Nat) (hS : ShInv hash sh) (hT : ThInv hash sh tid t)
    (hpc : t.pc = .idle) : StepOK hash sh tid t (stepTh hash sh tid t alt).1 (stepTh hash sh tid t alt).2.1 := by
  have hstep : stepTh hash sh tid t alt =
      (match t.ops with
      | [] => (sh, t, .none)
      | op :: _ =>
        match op.k with
        | .release =>
            match t.acc with
            | none => (sh, t.drop, .none)
            | some (n, w) =>
                if w then (sh.setEL n (sh.elk n).clrW, ({ t with acc := none, ret := true } : Th).finish, .euw n.id)
                else (sh.setEL n ((sh.elk n).delR tid), ({ t with acc := none, ret := true } : Th).finish, .eur n.id)
        | .exclude =>
            match t.acc with
            | none => (sh, t.drop, .none)
            | some (n, _) => doRdMask sh { t with h := hash n.key, n := some n, ret := false, grow := 0, rs := false }
        | _ =>
            if needsSlot op && t.acc.isSome then (sh, t.drop, .none)
            else doRdMask sh { t with h := hash op.key, n := none, ret := false, grow := 0, rs := false }) := by
    unfold stepTh
    rw [hpc]
    rfl
  rw [hstep]
  split
  · exact stepOK_refl hS hT
  · rename_i op rest hops
    have hop : t.op = op := by unfold Th.op; rw [hops]; rfl
    split
    · -- release
      split
      · exact stepOK_drop hS hT hpc
      · rename_i n w hacc
        split
        · exact stepOK_same hS rfl rfl rfl rfl (thinv_finish _ _ hT.g.1) (fun h => absurd rfl h)
        · exact stepOK_same hS rfl rfl rfl rfl (thinv_finish _ _ hT.g.1) (fun h => absurd rfl h)
    · -- exclude
      rename_i hk
      split
      · exact stepOK_drop hS hT hpc
      · rename_i n w hacc
        refine stepOK_doRdMask _ hS ?_ rfl rfl
        show t.op.k ≠ .exclude → _
        rw [hop]
        intro h; exact absurd hk h
    · split
      · exact stepOK_drop hS hT hpc
      · refine stepOK_doRdMask _ hS ?_ rfl rfl
        show t.op.k ≠ .exclude → hash op.key = hash t.op.key
        rw [hop]
        intro _; rfl

end TbbVerif.C10
