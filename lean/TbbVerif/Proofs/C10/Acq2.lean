/- C10: second invariant across `afterAcq` and `chkPass`. -/
import TbbVerif.Proofs.C10.Step2Help

namespace TbbVerif.C10

/-- what a thread in the middle of a bucket-level operation carries about its accessor and node -/
structure Carry (hash : Nat → Nat) (sh : Sh) (tid : Tid) (t : Th) : Prop where
  heldE : ∀ n w, t.acc = some (n, w) → HoldsE sh tid (n, w) ∧ sh.freed n = false ∧ n.id < sh.nextId
  nOk : ∀ n, t.n = some n → n.id < sh.nextId
  ex : t.op.k = .exclude → ∃ n w, t.n = some n ∧ t.acc = some (n, w) ∧ t.h = hash n.key
  acc : needsSlot t.op = true → t.acc = none

/-- pcs at which `ExAt` has its generic form and `DAt` is trivial -/
def Pc.plain : Pc → Bool
  | .idle | .xRelock | .free | .relB _ | .xUpg | .eRel | .eLock | .alloc | .pubMask => false
  | _ => true

theorem carry_of {hash : Nat → Nat} {sh : Sh} {tid : Tid} {t : Th} (hT : ThInv2 hash sh tid t) (hp : t.pc.plain = true) : Carry hash sh tid t := by
  refine ⟨hT.heldE, hT.nOk, ?_, ?_⟩
  · intro hk
    have := hT.ex hk
    cases hpc : t.pc <;> rw [hpc] at hp this <;> simp only [Pc.plain] at hp <;> simp only [ExAt] at this <;> first | exact this | cases hp
  · intro hn
    apply hT.accNone hn <;> (intro hpc; rw [hpc] at hp; simp [Pc.plain] at hp)

/-- back from the carried facts to the invariant, at a plain pc or `relB fin` -/
theorem thinv2_of_carry {hash : Nat → Nat} {sh : Sh} {tid : Tid} {t : Th} (c : Carry hash sh tid t)
    (hp : t.pc.plain = true ∨ (t.pc = .relB .fin ∧ t.op.k ≠ .exclude) ∨ t.pc = .relB .restart) : ThInv2 hash sh tid t := by
  refine ⟨c.heldE, c.nOk, ?_, fun hn _ _ _ _ => c.acc hn, ?_⟩
  · intro hk
    have := c.ex hk
    rcases hp with hp | ⟨hp, hne⟩ | hp
    · cases hpc : t.pc <;> rw [hpc] at hp <;> simp only [Pc.plain] at hp <;> simp only [ExAt] <;> first | exact this | cases hp
    · exact absurd hk hne
    · rw [hp]; simp only [ExAt]; exact this
  · rcases hp with hp | ⟨hp, _⟩ | hp
    · cases hpc : t.pc <;> rw [hpc] at hp <;> simp only [Pc.plain] at hp <;> simp only [DAt] <;> first | trivial | cases hp
    · rw [hp]; simp only [DAt]
    · rw [hp]; simp only [DAt]

/-- the carried facts survive changes of thread-local fields other than `acc`, `n`, `ops`, `h` -/
theorem carry_local {hash : Nat → Nat} {sh : Sh} {tid : Tid} {t t' : Th} (c : Carry hash sh tid t)
    (hacc : t'.acc = t.acc) (hn : t'.n = t.n) (hops : t'.ops = t.ops) (hh : t'.h = t.h) : Carry hash sh tid t' := by
  have hop : t'.op = t.op := by unfold Th.op; rw [hops]
  exact ⟨by rw [hacc]; exact c.heldE, by rw [hn]; exact c.nOk, by rw [hop, hn, hacc, hh]; exact c.ex, by rw [hop, hacc]; exact c.acc⟩

/-- … and setting `n` to a linked node (the result of a search) -/
theorem carry_found {hash : Nat → Nat} {sh : Sh} {tid : Tid} {t t' : Th} (h2 : ShInv2 sh) (c : Carry hash sh tid t)
    (hacc : t'.acc = t.acc) (hops : t'.ops = t.ops) (hh : t'.h = t.h) (hk : t.op.k ≠ .exclude) {n : Node} (hn : t'.n = some n) (hl : IsLinked sh n) :
    Carry hash sh tid t' := by
  have hop : t'.op = t.op := by unfold Th.op; rw [hops]
  refine ⟨by rw [hacc]; exact c.heldE, ?_, ?_, by rw [hop, hacc]; exact c.acc⟩
  · intro n' hn'; rw [hn] at hn'; cases hn'; exact h2.fresh n hl
  · intro hk'; rw [hop] at hk'; exact absurd hk' hk

theorem carry_sh {hash : Nat → Nat} {sh sh' : Sh} {tid : Tid} {t : Th} (c : Carry hash sh tid t)
    (he : sh'.elk = sh.elk) (hf : sh'.freed = sh.freed) (hn : sh.nextId ≤ sh'.nextId) : Carry hash sh' tid t := by
  refine ⟨?_, fun n h => Nat.lt_of_lt_of_le (c.nOk n h) hn, c.ex, c.acc⟩
  intro n w h
  obtain ⟨h1, h2, h3⟩ := c.heldE n w h
  refine ⟨?_, by rw [hf]; exact h2, Nat.lt_of_lt_of_le h3 hn⟩
  unfold HoldsE at *; rw [he]; exact h1

structure AcqOK2 (hash : Nat → Nat) (sh : Sh) (tid : Tid) (sh2 : Sh) (t2 : Th) : Prop where
  shinv : ShInv2 sh2
  thinv : ThInv2 hash sh2 tid t2
  frame : Frame2 sh tid sh2

/-- the move of rehash_bucket does not change which nodes are linked -/
theorem linked_split {sh sh2 : Sh} {b c : Nat} {stay mv : List Node} (hbc : b ≠ c) (hcn : sh.chainOf c = [])
    (hb : sh2.chainOf b = stay) (hc : sh2.chainOf c = mv) (hother : ∀ x, x ≠ b → x ≠ c → sh2.chainOf x = sh.chainOf x)
    (hsplit : ∀ n, n ∈ sh.chainOf b ↔ n ∈ stay ∨ n ∈ mv) : ∀ n, IsLinked sh2 n ↔ IsLinked sh n := by
  intro n
  constructor
  · intro ⟨x, hx⟩
    by_cases hxb : x = b
    · rw [hxb, hb] at hx; exact ⟨b, (hsplit n).2 (Or.inl hx)⟩
    · by_cases hxc : x = c
      · rw [hxc, hc] at hx; exact ⟨b, (hsplit n).2 (Or.inr hx)⟩
      · rw [hother x hxb hxc] at hx; exact ⟨x, hx⟩
  · intro ⟨x, hx⟩
    by_cases hxb : x = b
    · rw [hxb] at hx
      rcases (hsplit n).1 hx with h | h
      · exact ⟨b, by rw [hb]; exact h⟩
      · exact ⟨c, by rw [hc]; exact h⟩
    · by_cases hxc : x = c
      · rw [hxc, hcn] at hx; cases hx
      · exact ⟨x, by rw [hother x hxb hxc]; exact hx⟩

theorem afterAcq2_rehash {hash : Nat → Nat} {sh : Sh} {tid : Tid} {t : Th} {b c : Nat} {w wc : Bool} {r : List (Nat × Bool)}
    (hs : t.stk = (b, w) :: (c, wc) :: r) (hbc : b ≠ c) (hcn : sh.chainOf c = []) (h2 : ShInv2 sh) (hc : Carry hash sh tid t) :
    AcqOK2 hash sh tid (afterAcq hash sh tid t).1 (afterAcq hash sh tid t).2 := by
  rw [afterAcq_rehash_eq hash sh tid t hs]
  split
  · rename_i hmv
    have hmv' : ∀ n ∈ sh.chainOf b, movesTo c (hash n.key) = false := by
      intro n hn
      have := List.filter_eq_nil_iff.1 (List.isEmpty_iff.1 hmv) n hn
      simpa using this
    have hl : ∀ n, IsLinked (sh.setB c (.chain [])) n ↔ IsLinked sh n := by
      apply linked_split (b := b) (c := c) (stay := sh.chainOf b) (mv := []) hbc hcn
      · rw [chainOf_setB, if_neg hbc]
      · rw [chainOf_setB, if_pos rfl]; rfl
      · intro x _ hxc; rw [chainOf_setB, if_neg hxc]
      · intro n; simp
    exact ⟨shinv2_same h2 rfl rfl rfl rfl rfl hl,
      thinv2_of_carry (carry_sh (carry_local hc rfl rfl rfl rfl) rfl rfl (Nat.le_refl _)) (Or.inl rfl),
      frame2_same rfl rfl rfl (Nat.le_refl _) (fun n h => Or.inl ((hl n).1 h))⟩
  · split
    · have hl : ∀ n, IsLinked ((sh.setB b (.chain ((sh.chainOf b).filter (fun n => !movesTo c (hash n.key))))).setB c
          (.chain ((sh.chainOf b).filter (fun n => movesTo c (hash n.key))).reverse)) n ↔ IsLinked sh n := by
        apply linked_split (b := b) (c := c) (stay := (sh.chainOf b).filter (fun n => !movesTo c (hash n.key)))
          (mv := ((sh.chainOf b).filter (fun n => movesTo c (hash n.key))).reverse) hbc hcn
        · rw [chainOf_setB, if_neg hbc, chainOf_setB, if_pos rfl]; rfl
        · rw [chainOf_setB, if_pos rfl]; rfl
        · intro x hxb hxc; rw [chainOf_setB, if_neg hxc, chainOf_setB, if_neg hxb]
        · intro n
          simp only [List.mem_filter, List.mem_reverse]
          cases movesTo c (hash n.key) <;> simp
      exact ⟨shinv2_same h2 rfl rfl rfl rfl rfl hl,
        thinv2_of_carry (carry_sh (carry_local hc rfl rfl rfl rfl) rfl rfl (Nat.le_refl _)) (Or.inl rfl),
        frame2_same rfl rfl rfl (Nat.le_refl _) (fun n h => Or.inl ((hl n).1 h))⟩
    · exact ⟨h2, thinv2_of_carry (carry_local hc rfl rfl rfl rfl) (Or.inl rfl), frame2_refl _ _⟩

theorem afterAcq2_top {hash : Nat → Nat} {sh : Sh} {tid : Tid} {t : Th} {b : Nat} {w : Bool}
    (hs : t.stk = [(b, w)]) (h2 : ShInv2 sh) (hc : Carry hash sh tid t) :
    AcqOK2 hash sh tid (afterAcq hash sh tid t).1 (afterAcq hash sh tid t).2 := by
  have mkLog : ∀ (e : HEv) (t2 : Th), ShInv2 (sh.log e) → Carry hash sh tid t2 →
      (t2.pc.plain = true ∨ (t2.pc = .relB .fin ∧ t2.op.k ≠ .exclude) ∨ t2.pc = .relB .restart) → AcqOK2 hash sh tid (sh.log e) t2 :=
    fun e t2 hsl c2 hp => ⟨hsl, thinv2_of_carry (carry_sh c2 rfl rfl (Nat.le_refl _)) hp,
      frame2_same rfl rfl rfl (Nat.le_refl _) (fun n h => Or.inl h)⟩
  have mk : ∀ (t2 : Th), Carry hash sh tid t2 →
      (t2.pc.plain = true ∨ (t2.pc = .relB .fin ∧ t2.op.k ≠ .exclude) ∨ t2.pc = .relB .restart) → AcqOK2 hash sh tid sh t2 :=
    fun t2 c2 hp => ⟨h2, thinv2_of_carry c2 hp, frame2_refl _ _⟩
  rw [afterAcq_top_eq hash sh tid t hs]
  cases hk : t.op.k <;> simp only []
  · -- ins
    have hkne : t.op.k ≠ .exclude := by rw [hk]; simp
    cases hf : findKey (sh.chainOf b) t.op.key with
    | some n =>
      simp only []
      obtain ⟨hn, hnk⟩ := findKey_some hf
      have hln : IsLinked sh n := ⟨b, hn⟩
      split
      · refine mkLog _ _ ?_ (carry_found h2 hc rfl rfl rfl hkne (n := n) rfl hln) (Or.inr (Or.inl ⟨rfl, hkne⟩))
        apply lin_log h2
        intro s _ h3 _
        have hkey : (({ t with n := some n, ret := false } : Th).ev tid false (some n)).key = t.op.key :=
          ev_key_ne_excl (t := { t with n := some n, ret := false }) hkne
        apply specStep_found (n := n) (Or.inl hk)
        · rw [hkey, ← hnk]; exact (h3 n).2 hln
        · show false = (if t.op.k = OpK.ins then false else true); simp [hk]
        · rfl
      · exact mk _ (carry_found h2 hc rfl rfl rfl hkne (n := n) rfl hln) (Or.inl rfl)
    | none =>
      simp only []
      split
      · exact mk _ (carry_local hc rfl rfl rfl rfl) (Or.inl rfl)
      · exact mk _ (carry_local hc rfl rfl rfl rfl) (Or.inl rfl)
  · -- find
    have hkne : t.op.k ≠ .exclude := by rw [hk]; simp
    cases hf : findKey (sh.chainOf b) t.op.key with
    | some n =>
      simp only []
      obtain ⟨hn, hnk⟩ := findKey_some hf
      exact mk _ (carry_found h2 hc rfl rfl rfl hkne (n := n) rfl ⟨b, hn⟩) (Or.inl rfl)
    | none => simp only []; exact mk _ (carry_local hc rfl rfl rfl rfl) (Or.inl rfl)
  · -- count
    have hkne : t.op.k ≠ .exclude := by rw [hk]; simp
    cases hf : findKey (sh.chainOf b) t.op.key with
    | some n =>
      simp only []
      obtain ⟨hn, hnk⟩ := findKey_some hf
      have hln : IsLinked sh n := ⟨b, hn⟩
      refine mkLog _ _ ?_ (carry_local hc rfl rfl rfl rfl) (Or.inr (Or.inl ⟨rfl, hkne⟩))
      apply lin_log h2
      intro s _ h3 _
      have hkey : (t.ev tid true (some n)).key = t.op.key := ev_key_ne_excl hkne
      apply specStep_found (n := n) (Or.inr (Or.inr hk))
      · rw [hkey, ← hnk]; exact (h3 n).2 hln
      · show true = (if t.op.k = OpK.ins then false else true); simp [hk]
      · rfl
    | none => simp only []; exact mk _ (carry_local hc rfl rfl rfl rfl) (Or.inl rfl)
  · -- erase
    have hkne : t.op.k ≠ .exclude := by rw [hk]; simp
    cases hf : findKey (sh.chainOf b) t.op.key with
    | some n =>
      simp only []
      obtain ⟨hn, hnk⟩ := findKey_some hf
      refine mk _ (carry_found h2 hc rfl rfl rfl hkne (n := n) rfl ⟨b, hn⟩) (Or.inl ?_)
      cases w <;> rfl
    | none => simp only []; exact mk _ (carry_local hc rfl rfl rfl rfl) (Or.inl rfl)
  · -- exclude
    split
    · split
      · exact mk _ (carry_local hc rfl rfl rfl rfl) (Or.inl rfl)
      · exact mk _ (carry_local hc rfl rfl rfl rfl) (Or.inl rfl)
    · exact mk _ (carry_local hc rfl rfl rfl rfl) (Or.inl rfl)
  · -- release (unreachable)
    exact mk _ (carry_local hc rfl rfl rfl rfl) (Or.inr (Or.inl ⟨rfl, by show t.op.k ≠ .exclude; rw [hk]; simp⟩))

end TbbVerif.C10
