/- C10: one more thread-local invariant of `HMap`: an operation that is acquiring an element lock (`elemTry`) is one that
owns the thread's accessor slot (a find, or an insert that was given an accessor), hence the slot is empty. -/
import TbbVerif.Model.C10R
import TbbVerif.Proofs.C10.Reach

namespace TbbVerif.C10R

open TbbVerif.C10

def ESlot (t : Th) : Prop := t.pc = .elemTry → needsSlot t.op = true

theorem needsSlot_ins {o : Op} (hk : o.k = .ins) (ha : ¬ o.acc = 0) : needsSlot o = true := by
  unfold needsSlot; rw [hk]; simp [ha]

theorem afterAcq_eslot (hash : Nat → Nat) (sh : Sh) (tid : Tid) (t : Th) (hE : ESlot t) : ESlot (afterAcq hash sh tid t).2 := by
  unfold afterAcq
  split
  · exact hE
  · dsimp only
    split
    · simp [ESlot]
    · split <;> simp [ESlot]
  · dsimp only
    cases hk : t.op.k <;> simp only [] <;> (repeat' split) <;> simp [ESlot, Th.op] <;>
      (simp only [Th.op] at hk; first | (rename_i h; exact needsSlot_ins hk h) | (unfold needsSlot; rw [hk]))

theorem chkPass_eslot (sh : Sh) (tid : Tid) (u : Th) (hE : ESlot u) (hpc : u.pc ≠ .elemTry) : ESlot (chkPass sh tid u).2 := by
  unfold chkPass
  cases hk : u.op.k <;> simp only [] <;> (repeat' split) <;> first | (simp [ESlot]; done) | (intro h; exact absurd h hpc)

theorem afterLink_eslot (t : Th) (hk : t.op.k = .ins) : ESlot (afterLink t) := by
  unfold afterLink afterNode
  split
  · simp [ESlot]
  · rename_i h
    intro _
    exact needsSlot_ins hk h

theorem eslot_step {hash : Nat → Nat} {sh : Sh} {tid : Tid} {t : Th} (alt : Nat) (hT : ThInv hash sh tid t) (hE : ESlot t) :
    ESlot (stepTh hash sh tid t alt).2.1 := by
  have hc := hT.c
  cases hpc : t.pc <;> rw [hpc] at hc <;> simp only [CAt] at hc <;> unfold stepTh <;> rw [hpc] <;> simp only
  case lockTry =>
    (repeat' split) <;> first | exact afterAcq_eslot _ _ _ _ (by simp [ESlot]) | (simp [ESlot, hpc]; done) | exact hE
  case lockBlk =>
    (repeat' split) <;> first | exact afterAcq_eslot _ _ _ _ (by simp [ESlot]) | (simp [ESlot, hpc]; done) | exact hE
  case rhUpg =>
    (repeat' split) <;> first | exact afterAcq_eslot _ _ _ _ (by simp [ESlot]) | (simp [ESlot, hpc]; done) | exact hE
  case rhRelock =>
    (repeat' split) <;> first | exact afterAcq_eslot _ _ _ _ (by simp [ESlot]) | (simp [ESlot, hpc]; done) | exact hE
  case rhRel =>
    (repeat' split) <;> first | exact afterAcq_eslot _ _ _ _ (by simp [ESlot]) | (simp [ESlot, hpc]; done) | exact hE
  case chk1 =>
    (repeat' split) <;> first | exact chkPass_eslot _ _ _ (by simp [ESlot, hpc]) (by simp [hpc]) | (simp [ESlot, hpc]; done) | exact hE
  case chk2 =>
    (repeat' split) <;> first | exact chkPass_eslot _ _ _ (by simp [ESlot, hpc]) (by simp [hpc]) | (simp [ESlot, hpc]; done) | exact hE
  case link =>
    obtain ⟨_, _, _, _, hk⟩ := hc
    (repeat' split) <;> first | exact afterLink_eslot _ (by simpa [Th.op] using hk) | (simp [ESlot, hpc]; done) | exact hE
  case elect1 =>
    obtain ⟨_, _, _, _, hk⟩ := hc
    (repeat' split) <;> first | exact afterLink_eslot _ (by simpa [Th.op] using hk) | (simp [ESlot, hpc]; done) | exact hE
  case elect2 =>
    obtain ⟨_, _, _, _, hk⟩ := hc
    (repeat' split) <;> first | exact afterLink_eslot _ (by simpa [Th.op] using hk) | (simp [ESlot, hpc]; done) | exact hE
  case dng =>
    obtain ⟨_, _, _, hk⟩ := hc
    split
    · split
      · simp [ESlot]
      · rename_i h
        intro _
        exact needsSlot_ins hk h
    · exact hE
  case elemTry =>
    have := hE hpc
    (repeat' split) <;> first | (simp [ESlot]; done) | exact hE | (intro _; simpa [Th.op] using this)
  all_goals ((repeat' split) <;> first | (simp [ESlot, Th.finish, Th.drop, doRdMask, hpc]; done) | exact hE)

theorem eslot_init (p : List Op) : ESlot ({ ops := p } : Th) := by simp [ESlot]

/-- all `HMap` invariants, including `ESlot` -/
structure AbsInv (hash : Nat → Nat) (st : St) : Prop where
  all : InvAll hash st
  es : ∀ (tid : Nat) (t : Th), st.ths[tid]? = some t → ESlot t

theorem absInv_step (hash : Nat → Nat) (st : St) (a : Act) (h : AbsInv hash st) : AbsInv hash (step hash st a) := by
  refine ⟨invAll_step hash st a h.all, ?_⟩
  unfold step
  cases hget : st.ths[a.tid]? with
  | none => simpa [hget] using h.es
  | some t =>
    intro j tj hj
    simp only at hj
    by_cases hja : j = a.tid
    · rw [hja] at hj
      rw [(getElem?_set_self' _ _ _ _ hj).1]
      exact eslot_step a.alt (h.all.i1.th a.tid t hget) (h.es a.tid t hget)
    · rw [List.getElem?_set_ne (Ne.symm hja)] at hj
      exact h.es j tj hj

theorem absInv_runFrom (hash : Nat → Nat) (acts : List Act) : ∀ st, AbsInv hash st → AbsInv hash (runFrom hash st acts) := by
  induction acts with
  | nil => intro st h; exact h
  | cons a rest ih => intro st h; exact ih _ (absInv_step hash st a h)

theorem absInv_init (hash : Nat → Nat) (progs : List (List Op)) : AbsInv hash (initSt progs) := by
  refine ⟨invAll_init hash progs, ?_⟩
  intro tid t ht
  simp only [initSt, List.getElem?_map] at ht
  cases hp : progs[tid]? with
  | none => rw [hp] at ht; cases ht
  | some p => rw [hp] at ht; cases ht; exact eslot_init p

end TbbVerif.C10R
