/- C10 (refined model): an access to a lock word preserves `Coupled` — `upgrade_to_writer()`: the wait loops, the in-place
upgrade, the release of the slow path (after which the code re-searches) and its re-acquisition. -/
import TbbVerif.Proofs.C10.RStepG

namespace TbbVerif.C10R

open TbbVerif.C10

theorem trOf_rr {a b : C08.Phase} (ha : phaseR a) (hb : phaseR b) : trOf a b = .none := by
  rcases ha with rfl | rfl | rfl <;> rcases hb with rfl | rfl | rfl <;> rfl

theorem not_holdW_r {a : C08.Phase} (ha : phaseR a) : ¬ a = .holdW := by
  rcases ha with rfl | rfl | rfl <;> simp

theorem preOK_of_pc {th : C08.Th} (h : th.pc ≠ .start) : PreOK th := fun _ _ _ hp => absurd hp h

section
variable {hash : Nat → Nat} {s : RSt} {tid : Tid} {t : Th} {r : RTh} {L : LId} {th : C08.Th}

/-- where `upgrade()` is called while the lock is still held shared -/
def UpgAt (t : Th) (L : LId) : Prop :=
  ((t.pc = .rhUpg ∨ t.pc = .upg ∨ t.pc = .eUpg) ∧ t.stk ≠ [] ∧ L = .b t.b0) ∨ (t.pc = .xUpg ∧ t.n.map LId.e = some L)

/-- where its slow path re-acquires -/
def RelockAt (t : Th) (L : LId) : Prop :=
  ((t.pc = .rhRelock ∨ t.pc = .relock ∨ t.pc = .eRelock) ∧ L = .b t.tgt) ∨ (t.pc = .xRelock ∧ t.n.map LId.e = some L)

theorem upgAt_notflag (hC : Coupled hash s) (ht : s.a.ths[tid]? = some t) (h : UpgAt t L ∨ RelockAt t L) :
    ∀ b, L = .b b → (s.a.sh.bkt b).isFlagged = false := by
  intro b hb
  have hc := (hC.abs.i1.th tid t ht).c
  rcases h with (⟨hpc, _, hL⟩ | ⟨_, hL⟩) | (⟨hpc, hL⟩ | ⟨_, hL⟩)
  · rw [hL] at hb; cases hb
    rcases hpc with hpc | hpc | hpc <;> rw [hpc] at hc <;> simp only [CAt] at hc
    · exact notflag_of_chain hc.2.2.1
    · exact notflag_of_chain hc.2.1.1
    · exact notflag_of_chain hc.2.1.1
  · cases hn : t.n with
    | none => rw [hn] at hL; cases hL
    | some n => rw [hn] at hL; simp at hL; rw [← hL] at hb; cases hb
  · rw [hL] at hb; cases hb
    rcases hpc with hpc | hpc | hpc <;> rw [hpc] at hc <;> simp only [CAt] at hc
    · exact notflag_of_chain hc.2.2
    · rw [tgt_nil hc.1]; exact notflag_of_chain hc.2.1
    · rw [tgt_nil hc.1]; exact notflag_of_chain hc.2.1
  · cases hn : t.n with
    | none => rw [hn] at hL; cases hL
    | some n => rw [hn] at hL; simp at hL; rw [← hL] at hb; cases hb

theorem upgrade_coupled (hC : Coupled hash s) (ht : s.a.ths[tid]? = some t) (hr : s.rt[tid]? = some r) (hcur : r.cur = some L)
    (hs : slot s L tid = some th) (hops : th.ops = [.upgrade]) (hpre : PreOK th)
    (hcok : (phaseR th.phase ∧ UpgAt t L) ∨ (th.phase = .idle ∧ th.pc ≠ .start ∧ RelockAt t L)) :
    Coupled hash (lockAccess hash s tid t r L) := by
  have hwf := (hC.lk L).inv.hwf tid th hs
  have hv := view_of hC hs
  have hT := hC.abs.i1.th tid t ht
  have hpcl : t.pc ≠ .lockTry := by
    rcases hcok with ⟨_, (⟨h, _⟩ | ⟨h, _⟩)⟩ | ⟨_, _, (⟨h, _⟩ | ⟨h, _⟩)⟩
    · rcases h with h | h | h <;> rw [h] <;> simp
    · rw [h]; simp
    · rcases h with h | h | h <;> rw [h] <;> simp
    · rw [h]; simp
  have hlag := lag_false_of_pc hC ht hr hpcl
  have hpcb : (t.pc == Pc.lockTry) = false := by simpa using hpcl
  have hnfl : ∀ b, L = .b b → (s.a.sh.bkt b).isFlagged = false :=
    upgAt_notflag hC ht (by rcases hcok with ⟨_, h⟩ | ⟨_, _, h⟩; exact Or.inl h; exact Or.inr h)
  have hflS : (lockAccess hash s tid t r L).a = s.a → ∀ b, L = .b b → FlagC (lockAccess hash s tid t r L) b :=
    fun ha b hb => flagC_vacuous (by rw [ha]; exact hnfl b hb)
  cases upgrade_out (getL s L).word th hops hpre hwf with
  | contR ho h0 h1 hpc' =>
    have hU : UpgAt t L := by
      rcases hcok with ⟨_, h⟩ | ⟨h, _⟩
      · exact h
      · rw [h] at h0; rcases h0 with h | h | h <;> cases h
    have htrn := trOf_rr h0 h1
    have hnt : ((acT (getL s L).word th).ops.isEmpty && (th.ops.head?.map isTry).getD false && t.pc == .lockTry) = false := by rw [ho]; rfl
    have hs' := step_slot_self (getL s L) tid th hs
    have ha : (lockAccess hash s tid t r L).a = s.a := by
      have := (lockAccess_out hash s tid t r L th _ hs hs').1
      rw [effect_none _ _ _ _ _ _ htrn hnt] at this; exact this
    exact silent_coupled hC ht hr hcur hs hpre htrn hnt
      ⟨fun h => absurd h (not_holdW_r h0), fun h => absurd h (not_holdW_r h1)⟩ ⟨fun _ => h1, fun _ => h0⟩
      (Or.inr ⟨_, ho, preOK_of_pc hpc', Or.inl ⟨h1, hU⟩⟩) (hflS ha)
  | contI ho h0 h1 hpc' =>
    have hR : RelockAt t L := by
      rcases hcok with ⟨h, _⟩ | ⟨_, _, h⟩
      · rw [h0] at h; rcases h with h | h | h <;> cases h
      · exact h
    exact silent_ir hC ht hr hcur hs hpre (Or.inl h0) (Or.inl h1) (by rw [ho]; rfl)
      (Or.inr ⟨_, ho, preOK_of_pc hpc', Or.inr ⟨h1, hpc', hR⟩⟩) hflS
  | inplace ho h0 h1 =>
    have hU : UpgAt t L := by
      rcases hcok with ⟨_, h⟩ | ⟨h, _⟩
      · exact h
      · rw [h0] at h; cases h
    have hnrl : relockPc t.pc = false := by
      rcases hU with ⟨hpc, _⟩ | ⟨hpc, _⟩
      · rcases hpc with hpc | hpc | hpc <;> rw [hpc] <;> rfl
      · rw [hpc]; rfl
    have htr : trOf th.phase (acT (getL s L).word th).phase = .upg := by rw [h0, h1]; rfl
    have hsole := sole_of_upgReady hv h0 (mem_of_phaseR hC ht hs (Or.inr (Or.inr h0)))
    have halt : altOf t.pc .upg = 0 := by cases t.pc <;> rfl
    have heff : effect s.a.sh tid t r th (acT (getL s L).word th) = ([{ tid := tid, alt := 0 }], false) := by
      rw [effect_tr _ _ _ _ _ _ (by rw [htr]; simp), htr, hlag, halt]; rfl
    obtain ⟨ro, hsh⟩ := runOut_one (hash := hash) 0 ht hs heff ho
    have hEff : LockEff s.a.sh t (stepTh hash s.a.sh tid t 0).1 (stepTh hash s.a.sh tid t 0).2.1 L (fun l => l.setW tid) ∧
        HW (stepTh hash s.a.sh tid t 0).2.1 L := by
      have hc := hT.c
      rcases hU with ⟨hpc, _, rfl⟩ | ⟨hpc, hL⟩
      · rcases hpc with hpc | hpc | hpc <;> rw [hpc] at hc <;> simp only [CAt] at hc
        · exact rhUpg_inplace_eff hash s.a.sh tid t _ _ _ hpc hc.1 hsole
        · exact upg_inplace_eff hash s.a.sh tid t _ _ (Or.inl hpc) hc.1 hsole
        · exact upg_inplace_eff hash s.a.sh tid t _ _ (Or.inr hpc) hc.1 hsole
      · cases hn : t.n with
        | none => rw [hn] at hL; cases hL
        | some n =>
          rw [hn] at hL; simp only [Option.map_some, Option.some.injEq] at hL; subst hL
          have hk := hC.abs.k tid t ht
          unfold KInv at hk; rw [hpc] at hk; simp only [KAt] at hk
          have hex := (hC.abs.i2.th tid t ht).ex hk
          rw [hpc] at hex; simp only [ExAt] at hex
          obtain ⟨n', hn', ha, _⟩ := hex
          rw [hn] at hn'; cases hn'
          exact xUpg_inplace_eff hash s.a.sh tid t n hpc hn ha hsole
    obtain ⟨he, hH⟩ := hEff
    have hnf' : ∀ b, L = .b b → ((lockAccess hash s tid t r L).a.sh.bkt b).isFlagged = false := fun b hb => notflag_after hC ro (hnfl b hb)
    refine access_coupled hC ht hr hs hpre (out_eff hC ht hr hcur hs ro (by rw [hsh]; exact he) (spec_setW hv h1) ?_
      (fun b hb => Or.inl (hnf' b hb)) (fun b hb => flagC_vacuous (hnf' b hb)) (slotOut_done ho (not_relock_after0 hash s.a.sh tid t hnrl)))
    rw [h1]; exact ⟨fun _ => hH, (fun h => by rcases h with h | h | h <;> cases h)⟩
  | release ho h0 h1 hpc' =>
    have hU : UpgAt t L := by
      rcases hcok with ⟨_, h⟩ | ⟨h, _⟩
      · exact h
      · rw [h0] at h; cases h
    have htr : trOf th.phase (acT (getL s L).word th).phase = .rel := by rw [h0, h1]; rfl
    have halt : altOf t.pc .rel = 1 := by
      rcases hU with ⟨hpc, _⟩ | ⟨hpc, _⟩
      · rcases hpc with hpc | hpc | hpc <;> rw [hpc] <;> rfl
      · rw [hpc]; rfl
    have heff : effect s.a.sh tid t r th (acT (getL s L).word th) = ([{ tid := tid, alt := 1 }], false) := by
      rw [effect_tr _ _ _ _ _ _ (by rw [htr]; simp), htr, hlag, halt]; rfl
    obtain ⟨hself, hsh0⟩ := step_self hash s.a tid 1 t ht
    obtain ⟨ro, ha⟩ := runOut_gen (hash := hash) [{ tid := tid, alt := 1 }] false _ hs heff
      (by intro x hx; simp at hx; rw [hx]) (by exact hself)
    simp only [ho, List.isEmpty_cons, Bool.false_eq_true, if_false] at ro
    have hsh : (lockAccess hash s tid t r L).a.sh = (stepTh hash s.a.sh tid t 1).1 := by rw [ha]; exact hsh0
    -- the `HMap` step: the lock is dropped, the pc moves to the re-acquisition
    have hEff : LockEff s.a.sh t (stepTh hash s.a.sh tid t 1).1 (stepTh hash s.a.sh tid t 1).2.1 L (fun l => l.delR tid) ∧
        RelockAt (stepTh hash s.a.sh tid t 1).2.1 L := by
      have hc := hT.c
      rcases hU with ⟨hpc, _, rfl⟩ | ⟨hpc, hL⟩
      · rcases hpc with hpc | hpc | hpc <;> rw [hpc] at hc <;> simp only [CAt] at hc
        · obtain ⟨h1', h2'⟩ := rhUpg_release_eff hash s.a.sh tid t _ _ _ hpc hc.1
          refine ⟨h1', ?_⟩
          rw [h2']
          refine Or.inl ⟨Or.inl rfl, ?_⟩
          obtain ⟨_, hne, _, hlink, _⟩ := hc
          cases htl : t.stk.tail with
          | nil => exact absurd htl hne
          | cons g rest =>
            obtain ⟨d, wd⟩ := g
            rw [htl] at hlink
            simp only [LinkedTo] at hlink
            simp only [Th.tgt, htl]
            rw [hlink]
        · obtain ⟨h1', h2'⟩ := upg_release_eff hash s.a.sh tid t _ _ (Or.inl hpc) hc.1
          refine ⟨h1', ?_⟩
          rw [h2', hpc]
          refine Or.inl ⟨Or.inr (Or.inl rfl), ?_⟩
          simp only [Th.tgt]
          rw [hc.2.2.1]
        · obtain ⟨h1', h2'⟩ := upg_release_eff hash s.a.sh tid t _ _ (Or.inr hpc) hc.1
          refine ⟨h1', ?_⟩
          rw [h2', hpc]
          refine Or.inl ⟨Or.inr (Or.inr rfl), ?_⟩
          simp only [Th.tgt]
          rw [hc.2.2.1]
      · cases hn : t.n with
        | none => rw [hn] at hL; cases hL
        | some n =>
          rw [hn] at hL; simp only [Option.map_some, Option.some.injEq] at hL; subst hL
          have hk := hC.abs.k tid t ht
          unfold KInv at hk; rw [hpc] at hk; simp only [KAt] at hk
          have hex := (hC.abs.i2.th tid t ht).ex hk
          rw [hpc] at hex; simp only [ExAt] at hex
          obtain ⟨n', hn', hacc, _⟩ := hex
          rw [hn] at hn'; cases hn'
          obtain ⟨h1', h2'⟩ := xUpg_release_eff hash s.a.sh tid t n hpc hn hacc
          refine ⟨h1', ?_⟩
          rw [h2']
          exact Or.inr ⟨rfl, by simp [hn]⟩
    obtain ⟨he, hRel⟩ := hEff
    have hnf' : ∀ b, L = .b b → ((lockAccess hash s tid t r L).a.sh.bkt b).isFlagged = false := fun b hb => notflag_after hC ro (hnfl b hb)
    refine access_coupled hC ht hr hs hpre (out_eff hC ht hr hcur hs ro (by rw [hsh]; exact he) (spec_delR hv (Or.inl h0)) ?_
      (fun b hb => Or.inl (hnf' b hb)) (fun b hb => flagC_vacuous (hnf' b hb))
      ⟨Or.inr ⟨_, ho, rfl, preOK_of_pc hpc', Or.inr ⟨h1, hpc', hRel⟩⟩, (fun h => by cases h), (fun _ h => by cases h), (fun h => by cases h)⟩)
    rw [h1]; exact ⟨(fun h => by cases h), (fun h => by rcases h with h | h | h <;> cases h)⟩
  | okW ho h0 h1 hw0 hr0 =>
    have hR : RelockAt t L := by
      rcases hcok with ⟨h, _⟩ | ⟨_, _, h⟩
      · rw [h0] at h; rcases h with h | h | h <;> cases h
      · exact h
    have htr : trOf th.phase (acT (getL s L).word th).phase = .acq := by rw [h0, h1]; rfl
    have halt : altOf t.pc .acq = 0 := by cases t.pc <;> rfl
    have heff : effect s.a.sh tid t r th (acT (getL s L).word th) = ([{ tid := tid, alt := 0 }], false) := by
      rw [effect_tr _ _ _ _ _ _ (by rw [htr]; simp), htr, hlag, halt]; rfl
    obtain ⟨ro, hsh⟩ := runOut_one (hash := hash) 0 ht hs heff ho
    have hfree := free_of_word hv hw0 hr0
    have hEff : LockEff s.a.sh t (stepTh hash s.a.sh tid t 0).1 (stepTh hash s.a.sh tid t 0).2.1 L (fun l => l.setW tid) ∧
        HW (stepTh hash s.a.sh tid t 0).2.1 L := by
      have hc := hT.c
      rcases hR with ⟨hpc, rfl⟩ | ⟨hpc, hL⟩
      · rcases hpc with hpc | hpc | hpc <;> rw [hpc] at hc <;> simp only [CAt] at hc
        · exact rhRelock_eff hash s.a.sh tid t 0 hpc hfree
        · exact relock_eff hash s.a.sh tid t 0 (Or.inl hpc) hc.1 hfree
        · exact relock_eff hash s.a.sh tid t 0 (Or.inr hpc) hc.1 hfree
      · cases hn : t.n with
        | none => rw [hn] at hL; cases hL
        | some n =>
          rw [hn] at hL; simp only [Option.map_some, Option.some.injEq] at hL; subst hL
          have hk := hC.abs.k tid t ht
          unfold KInv at hk; rw [hpc] at hk; simp only [KAt] at hk
          have hex := (hC.abs.i2.th tid t ht).ex hk
          rw [hpc] at hex; simp only [ExAt] at hex
          exact xRelock_eff hash s.a.sh tid t 0 n hpc hn hex hfree
    obtain ⟨he, hH⟩ := hEff
    have hnf' : ∀ b, L = .b b → ((lockAccess hash s tid t r L).a.sh.bkt b).isFlagged = false := fun b hb => notflag_after hC ro (hnfl b hb)
    -- the step leaves the re-acquisition pc: otherwise the thread's state would be unchanged, but it now accounts for holding `L`
    have hnotH : ¬ HW t L := by
      have hc := hT.c
      rcases hR with ⟨hpc, rfl⟩ | ⟨hpc, hL⟩
      · rcases hpc with hpc | hpc | hpc <;> rw [hpc] at hc <;> simp only [CAt] at hc
        · exact (tgt_not_held hc.2.1).1
        · intro h; simp only [HW] at h; rw [hc.1] at h; cases h
        · intro h; simp only [HW] at h; rw [hc.1] at h; cases h
      · cases hn : t.n with
        | none => rw [hn] at hL; cases hL
        | some n =>
          rw [hn] at hL; simp only [Option.map_some, Option.some.injEq] at hL; subst hL
          have hk := hC.abs.k tid t ht
          unfold KInv at hk; rw [hpc] at hk; simp only [KAt] at hk
          have hex := (hC.abs.i2.th tid t ht).ex hk
          rw [hpc] at hex; simp only [ExAt] at hex
          intro h
          rcases h with h | ⟨_, h, _⟩
          · rw [hex] at h; cases h
          · rw [hpc] at h; cases h
    have hrl : relockPc t.pc = true := by
      rcases hR with ⟨hpc, _⟩ | ⟨hpc, _⟩
      · rcases hpc with hpc | hpc | hpc <;> rw [hpc] <;> rfl
      · rw [hpc]; rfl
    have hexit : relockPc (stepTh hash s.a.sh tid t 0).2.1.pc = false := by
      cases hx : relockPc (stepTh hash s.a.sh tid t 0).2.1.pc with
      | false => rfl
      | true =>
        have := relock_stay hash s.a.sh tid t 0 hrl hx
        rw [this] at hH
        exact absurd hH hnotH
    refine access_coupled hC ht hr hs hpre (out_eff hC ht hr hcur hs ro (by rw [hsh]; exact he) (spec_setW hv h1) ?_
      (fun b hb => Or.inl (hnf' b hb)) (fun b hb => flagC_vacuous (hnf' b hb)) (slotOut_done ho hexit))
    rw [h1]; exact ⟨fun _ => hH, (fun h => by rcases h with h | h | h <;> cases h)⟩

end

end TbbVerif.C10R
