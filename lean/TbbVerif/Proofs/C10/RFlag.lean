/- C10 (refined model): accesses to the word of a bucket that is still flagged (`bucket_accessor::acquire` between its
first look at `node_list` and the "rehashed" mark): on an untouched word a `try_lock` cannot fail; on a word held by the
rehashing writer nobody gets in, and the only traces left are failed tries and the WRITER_PENDING bit. -/
import TbbVerif.Proofs.C10.RStepD

namespace TbbVerif.C10R

open TbbVerif.C10

theorem enc_zero : ({} : C08.Word).enc = 0 := by decide

theorem enc_pos_of_w {s : C08.Word} (h : s.w = true) : s.enc ≠ 0 := by
  simp [C08.Word.enc, h]

/-- `try_lock` on a zero word: the load goes on to the CAS (remembering 0), the CAS succeeds -/
theorem trylock_free (th : C08.Th) (hops : th.ops = [.tryLock]) (hp : PreOK th) (hwf : C08.Wf th) (hsv : th.pc = .lockCas → th.sv = 0) :
    (acW {} th = {} ∧ (acT {} th).ops = [.tryLock] ∧ (acT {} th).phase = th.phase ∧ (acT {} th).pc = .lockCas ∧ (acT {} th).sv = 0) ∨
    ((acT {} th).ops = [] ∧ (acT {} th).phase = .holdW) := by
  have hw4 := hwf.2.2.2
  rw [hops] at hw4
  simp only [C08.WfOp] at hw4
  have e := stepTh_cons {} th _ _ hops (preOK_single hops hp)
  rcases hw4 with hpc | ⟨hpc, _, _⟩
  · left
    refine ⟨?_, ?_, ?_, ?_, ?_⟩ <;> simp [acW, acT, e, C08.stepOp, C08.stepTryLock, hpc, C08.busy, hops, enc_zero]
  · right
    have h0 := hsv hpc
    refine ⟨?_, ?_⟩ <;> simp [acT, e, C08.stepOp, C08.stepTryLock, hpc, h0, enc_zero, C08.Th.done, hops]

/-- an access of a thread that does not hold the lock while WRITER is set: no grant, no reader unit, at most PENDING -/
theorem busy_access (s : C08.Word) (th : C08.Th) (op : C08.Op) (hop : op = .tryLock ∨ op = .lock ∨ op = .lockShared)
    (hops : th.ops = [op]) (hp : PreOK th) (hwf : C08.Wf th) (hph : th.phase = .idle) (hw : s.w = true)
    (hna : th.pc ≠ .sharedAdd) (hsv : th.pc = .lockCas → th.sv = 0) :
    (acT s th).phase = .idle ∧ (acT s th).pc ≠ .sharedAdd ∧ (acT s th).pc ≠ .lockCas ∧ (acW s th).w = true ∧
    (((acT s th).ops = [] ∧ op = .tryLock) ∨ ((acT s th).ops = [op] ∧ PreOK (acT s th))) := by
  have hw4 := hwf.2.2.2
  rw [hops] at hw4
  have e := stepTh_cons s th _ _ hops (preOK_single hops hp)
  have hb : C08.busy s = true := by simp [C08.busy, hw]
  have hne : ∀ sv, sv = 0 → ¬ s.enc = sv := fun sv h0 h => enc_pos_of_w hw (by rw [h, h0])
  rcases hop with rfl | rfl | rfl
  · simp only [C08.WfOp] at hw4
    rcases hw4 with hpc | ⟨hpc, _, _⟩
    · refine ⟨?_, ?_, ?_, ?_, Or.inl ⟨?_, rfl⟩⟩ <;>
        simp [acW, acT, e, C08.stepOp, C08.stepTryLock, hpc, hb, C08.Th.done, hops, hph, hw]
    · have := hne _ (hsv hpc)
      refine ⟨?_, ?_, ?_, ?_, Or.inl ⟨?_, rfl⟩⟩ <;>
        simp [acW, acT, e, C08.stepOp, C08.stepTryLock, hpc, this, C08.Th.done, hops, hph, hw]
  · simp only [C08.WfOp] at hw4
    rcases hw4 with hpc | ⟨hpc, _, _⟩ | ⟨hpc, _⟩
    · by_cases hpp : s.p = true
      · refine ⟨?_, ?_, ?_, ?_, Or.inr ⟨?_, ?_⟩⟩ <;>
          simp [acW, acT, e, C08.stepOp, C08.stepLock, C08.lockBody, hpc, hb, hpp, hops, hph, hw, PreOK, C08.Op.pre]
      · have hpp' : s.p = false := by simpa using hpp
        refine ⟨?_, ?_, ?_, ?_, Or.inr ⟨?_, ?_⟩⟩ <;>
          simp [acW, acT, e, C08.stepOp, C08.stepLock, C08.lockBody, hpc, hb, hpp', hops, hph, hw, PreOK]
    · have := hne _ (hsv hpc)
      refine ⟨?_, ?_, ?_, ?_, Or.inr ⟨?_, ?_⟩⟩ <;>
        simp [acW, acT, e, C08.stepOp, C08.stepLock, C08.lockBody, hpc, this, hops, hph, hw, PreOK, C08.Op.pre]
    · refine ⟨?_, ?_, ?_, ?_, Or.inr ⟨?_, ?_⟩⟩ <;>
        simp [acW, acT, e, C08.stepOp, C08.stepLock, C08.lockBody, hpc, hops, hph, hw, PreOK, C08.Op.pre]
  · simp only [C08.WfOp] at hw4
    rcases hw4 with hpc | ⟨hpc, _⟩ | ⟨hpc, hrt⟩
    · refine ⟨?_, ?_, ?_, ?_, Or.inr ⟨?_, ?_⟩⟩ <;>
        simp [acW, acT, e, C08.stepOp, C08.stepShared, hpc, hw, hops, hph, PreOK, C08.Op.pre]
    · exact absurd hpc hna
    · rw [hph] at hrt; cases hrt

end TbbVerif.C10R
