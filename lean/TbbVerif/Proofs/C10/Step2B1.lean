/- C10: second invariant across the steps of bucket acquisition, lazy rehash and bucket lock upgrade
(peek, mark, lockTry, lockBlk, rhUpg, rhRelock, rhRel, rdMask, upg, eUpg, eRelock, relock). -/
import TbbVerif.Proofs.C10.Pass2

namespace TbbVerif.C10

/-! ### helpers -/

/-- a step that leaves the node-level shared state alone and keeps `acc`, `n`, `ops`, `h` of the thread, ending at a plain pc -/
theorem stepOK2_inert {hash : Nat → Nat} {sh sh' : Sh} {tid : Tid} {t t' : Th} (h2 : ShInv2 sh) (hc2 : Carry hash sh tid t)
    (he : sh'.elk = sh.elk) (hf : sh'.freed = sh.freed) (hu : sh'.unlinker = sh.unlinker) (hn : sh'.nextId = sh.nextId)
    (hh : sh'.hist = sh.hist) (hl : ∀ n, IsLinked sh' n ↔ IsLinked sh n)
    (hacc : t'.acc = t.acc) (hnn : t'.n = t.n) (hops : t'.ops = t.ops) (hth : t'.h = t.h) (hp : t'.pc.plain = true) :
    StepOK2 hash sh tid t sh' t' :=
  ⟨shinv2_same h2 he hf hu hn hh hl,
    thinv2_of_carry (carry_sh (carry_local hc2 hacc hnn hops hth) he hf (by rw [hn]; exact Nat.le_refl _)) (Or.inl hp),
    frame2_same he hf hu (by rw [hn]; exact Nat.le_refl _) (fun n h => Or.inl ((hl n).1 h))⟩

theorem stepOK2_refl {hash : Nat → Nat} {sh : Sh} {tid : Tid} {t : Th} (h2 : ShInv2 sh) (hT2 : ThInv2 hash sh tid t) :
    StepOK2 hash sh tid t sh t :=
  ⟨h2, hT2, frame2_refl _ _⟩

theorem isLinked_of_bkt {sh sh1 : Sh} (hbk : sh1.bkt = sh.bkt) : ∀ n, IsLinked sh1 n ↔ IsLinked sh n := by
  intro n
  unfold IsLinked Sh.chainOf
  rw [hbk]

/-- a frame condition relative to a state that differs only in bucket lock words -/
theorem frame2_congr {sh sh1 sh2 : Sh} {tid : Tid} (he : sh1.elk = sh.elk) (hf : sh1.freed = sh.freed) (hu : sh1.unlinker = sh.unlinker)
    (hn : sh1.nextId = sh.nextId) (hl : ∀ n, IsLinked sh1 n ↔ IsLinked sh n) (f : Frame2 sh1 tid sh2) : Frame2 sh tid sh2 := by
  obtain ⟨f1, f2, f3, f4, f5, f6, f7⟩ := f
  refine ⟨?_, ?_, ?_, ?_, ?_, ?_, ?_⟩
  · intro n t' h; rw [← he]; exact f1 n t' h
  · intro n t' h; rw [← he]; exact f2 n t' h
  · intro n h
    rw [← he] at h
    have := f3 n h
    rw [he, hu, hl] at this
    exact this
  · intro n h
    rw [← hf] at h
    have := f4 n h
    rw [he, hu] at this
    exact this
  · intro n h
    rw [← hu] at h
    exact (hl n).1 (f5 n h)
  · intro n h
    have := f6 n h
    rw [hl, hn] at this
    exact this
  · rw [← hn]; exact f7

/-- the frames below the bucket being acquired: either none (the operation's bucket) or a pending child -/
theorem acq_rest_ok {sh : Sh} {tid : Tid} {h m b : Nat} (rest : List (Nat × Bool)) (hl : LinkedTo h m b rest)
    (hr : RhStack sh tid h m rest) : rest = [] ∨ ∃ c wc r, rest = (c, wc) :: r ∧ b ≠ c ∧ sh.chainOf c = [] := by
  cases rest with
  | nil => exact Or.inl rfl
  | cons f r =>
    obtain ⟨c, wc⟩ := f
    obtain ⟨_, hp, h2c, _, _⟩ := hr
    have hb : b = parentOf c := hl
    have := parentOf_lt (b := c) (by omega)
    refine Or.inr ⟨c, wc, r, rfl, by omega, ?_⟩
    simp [Sh.chainOf, hp]

/-- Acquisition of bucket `b` completes (only a bucket lock word has changed into `sh1`) and the code under the lock runs. -/
theorem stepOK2_acquire {hash : Nat → Nat} {sh : Sh} {tid : Tid} {t : Th} (sh1 : Sh) (b : Nat) (w : Bool) (rest : List (Nat × Bool))
    (he : sh1.elk = sh.elk) (hf : sh1.freed = sh.freed) (hu : sh1.unlinker = sh.unlinker)
    (hn : sh1.nextId = sh.nextId) (hh : sh1.hist = sh.hist) (hbk : sh1.bkt = sh.bkt) (h2 : ShInv2 sh) (hc2 : Carry hash sh tid t)
    (hrest : rest = [] ∨ ∃ c wc r, rest = (c, wc) :: r ∧ b ≠ c ∧ sh.chainOf c = []) :
    StepOK2 hash sh tid t (afterAcq hash sh1 tid { t with stk := (b, w) :: rest }).1
      (afterAcq hash sh1 tid { t with stk := (b, w) :: rest }).2 := by
  have hl := isLinked_of_bkt hbk
  have h21 : ShInv2 sh1 := shinv2_same h2 he hf hu hn hh hl
  have hc1 : Carry hash sh1 tid { t with stk := (b, w) :: rest } :=
    carry_sh (carry_local hc2 rfl rfl rfl rfl) he hf (by rw [hn]; exact Nat.le_refl _)
  have hA : AcqOK2 hash sh1 tid (afterAcq hash sh1 tid { t with stk := (b, w) :: rest }).1
      (afterAcq hash sh1 tid { t with stk := (b, w) :: rest }).2 := by
    rcases hrest with hnil | ⟨c, wc, r, hcons, hbc, hcn⟩
    · subst hnil
      exact afterAcq2_top (hs := rfl) h21 hc1
    · subst hcons
      refine afterAcq2_rehash (hs := rfl) hbc ?_ h21 hc1
      unfold Sh.chainOf at hcn ⊢
      rw [hbk]; exact hcn
  exact ⟨hA.shinv, hA.thinv, frame2_congr he hf hu hn hl hA.frame⟩

/-! ### the individual pcs -/

theorem stepOK2_peek {hash : Nat → Nat} {sh : Sh} {tid : Tid} {t : Th} (alt : Nat) (hS : ShInv hash sh) (hT : ThInv hash sh tid t)
    (h2 : ShInv2 sh) (hT2 : ThInv2 hash sh tid t) (hpc : t.pc = .peek) :
    StepOK2 hash sh tid t (stepTh hash sh tid t alt).1 (stepTh hash sh tid t alt).2.1 := by
  have hc2 := carry_of hT2 (by rw [hpc]; rfl)
  unfold stepTh
  rw [hpc]
  simp only
  refine stepOK2_inert h2 hc2 rfl rfl rfl rfl rfl (fun _ => Iff.rfl) rfl rfl rfl rfl ?_
  cases (sh.bkt t.tgt).isFlagged <;> rfl

theorem stepOK2_rdMask {hash : Nat → Nat} {sh : Sh} {tid : Tid} {t : Th} (alt : Nat) (hS : ShInv hash sh) (hT : ThInv hash sh tid t)
    (h2 : ShInv2 sh) (hT2 : ThInv2 hash sh tid t) (hpc : t.pc = .rdMask) :
    StepOK2 hash sh tid t (stepTh hash sh tid t alt).1 (stepTh hash sh tid t alt).2.1 := by
  have hc2 := carry_of hT2 (by rw [hpc]; rfl)
  have hstep : stepTh hash sh tid t alt = doRdMask sh t := by
    unfold stepTh
    rw [hpc]
  rw [hstep]
  unfold doRdMask
  exact stepOK2_inert h2 hc2 rfl rfl rfl rfl rfl (fun _ => Iff.rfl) rfl rfl rfl rfl rfl

theorem stepOK2_mark {hash : Nat → Nat} {sh : Sh} {tid : Tid} {t : Th} (alt : Nat) (hS : ShInv hash sh) (hT : ThInv hash sh tid t)
    (h2 : ShInv2 sh) (hT2 : ThInv2 hash sh tid t) (hpc : t.pc = .mark) :
    StepOK2 hash sh tid t (stepTh hash sh tid t alt).1 (stepTh hash sh tid t alt).2.1 := by
  have hc2 := carry_of hT2 (by rw [hpc]; rfl)
  have hc := hT.c
  rw [hpc] at hc
  simp only [CAt] at hc
  obtain ⟨hs, hflag, hb2, hlink, hrest⟩ := hc
  have hstep : stepTh hash sh tid t alt = (sh.setB t.b0 (.pending tid), { t with pc := .peek }, .stl t.b0) := by
    unfold stepTh
    rw [hpc]
    simp only
    rw [hs]
  rw [hstep]
  have hl : ∀ n, IsLinked (sh.setB t.b0 (.pending tid)) n ↔ IsLinked sh n := by
    intro n
    unfold IsLinked
    constructor
    · intro ⟨x, hx⟩
      rw [chainOf_setB] at hx
      split at hx
      · cases hx
      · exact ⟨x, hx⟩
    · intro ⟨x, hx⟩
      refine ⟨x, ?_⟩
      rw [chainOf_setB]
      split
      · rename_i hxb
        rw [hxb] at hx
        unfold Sh.chainOf at hx
        rw [hflag] at hx
        cases hx
      · exact hx
  exact stepOK2_inert h2 hc2 rfl rfl rfl rfl rfl hl rfl rfl rfl rfl rfl

theorem stepOK2_lockTry {hash : Nat → Nat} {sh : Sh} {tid : Tid} {t : Th} (alt : Nat) (hS : ShInv hash sh) (hT : ThInv hash sh tid t)
    (h2 : ShInv2 sh) (hT2 : ThInv2 hash sh tid t) (hpc : t.pc = .lockTry) :
    StepOK2 hash sh tid t (stepTh hash sh tid t alt).1 (stepTh hash sh tid t alt).2.1 := by
  have hc2 := carry_of hT2 (by rw [hpc]; rfl)
  have hc := hT.c
  rw [hpc] at hc
  simp only [CAt] at hc
  have hstep : stepTh hash sh tid t alt =
      (if (sh.bkt t.tgt).isFlagged = true then
        if (sh.blk t.tgt).isFree = true then
          (sh.setBL t.tgt ((sh.blk t.tgt).setW tid), { t with stk := (t.tgt, true) :: t.stk, pc := .mark }, .bl t.tgt true)
        else (sh, t, .blocked)
      else if alt = 0 then
        if (sh.blk t.tgt).isFree = true then
          ((afterAcq hash (sh.setBL t.tgt ((sh.blk t.tgt).setW tid)) tid { t with stk := (t.tgt, true) :: t.stk }).1,
           (afterAcq hash (sh.setBL t.tgt ((sh.blk t.tgt).setW tid)) tid { t with stk := (t.tgt, true) :: t.stk }).2, .bl t.tgt true)
        else (sh, t, .blocked)
      else (sh, { t with pc := .lockBlk }, .none)) := by
    unfold stepTh
    rw [hpc]
  rw [hstep]
  split
  · split
    · exact stepOK2_inert h2 hc2 rfl rfl rfl rfl rfl (fun _ => Iff.rfl) rfl rfl rfl rfl rfl
    · exact stepOK2_refl h2 hT2
  · split
    · split
      · exact stepOK2_acquire _ t.tgt true t.stk rfl rfl rfl rfl rfl rfl h2 hc2 (acq_rest_ok t.stk (linkedTo_tgt t) hc)
      · exact stepOK2_refl h2 hT2
    · exact stepOK2_inert h2 hc2 rfl rfl rfl rfl rfl (fun _ => Iff.rfl) rfl rfl rfl rfl rfl

theorem stepOK2_lockBlk {hash : Nat → Nat} {sh : Sh} {tid : Tid} {t : Th} (alt : Nat) (hS : ShInv hash sh) (hT : ThInv hash sh tid t)
    (h2 : ShInv2 sh) (hT2 : ThInv2 hash sh tid t) (hpc : t.pc = .lockBlk) :
    StepOK2 hash sh tid t (stepTh hash sh tid t alt).1 (stepTh hash sh tid t alt).2.1 := by
  have hc2 := carry_of hT2 (by rw [hpc]; rfl)
  have hc := hT.c
  rw [hpc] at hc
  simp only [CAt] at hc
  obtain ⟨hr, hfl⟩ := hc
  have hstep : stepTh hash sh tid t alt =
      (if (t.stk.isEmpty && t.op.k == .exclude) = true then
        if (sh.blk t.tgt).isFree = true then
          ((afterAcq hash (sh.setBL t.tgt ((sh.blk t.tgt).setW tid)) tid { t with stk := (t.tgt, true) :: t.stk }).1,
           (afterAcq hash (sh.setBL t.tgt ((sh.blk t.tgt).setW tid)) tid { t with stk := (t.tgt, true) :: t.stk }).2, .bl t.tgt true)
        else (sh, t, .blocked)
      else
        if (sh.blk t.tgt).canRead = true then
          ((afterAcq hash (sh.setBL t.tgt ((sh.blk t.tgt).addR tid)) tid { t with stk := (t.tgt, false) :: t.stk }).1,
           (afterAcq hash (sh.setBL t.tgt ((sh.blk t.tgt).addR tid)) tid { t with stk := (t.tgt, false) :: t.stk }).2, .bl t.tgt false)
        else (sh, t, .blocked)) := by
    unfold stepTh
    rw [hpc]
  rw [hstep]
  split
  · split
    · exact stepOK2_acquire _ t.tgt true t.stk rfl rfl rfl rfl rfl rfl h2 hc2 (acq_rest_ok t.stk (linkedTo_tgt t) hr)
    · exact stepOK2_refl h2 hT2
  · split
    · exact stepOK2_acquire _ t.tgt false t.stk rfl rfl rfl rfl rfl rfl h2 hc2 (acq_rest_ok t.stk (linkedTo_tgt t) hr)
    · exact stepOK2_refl h2 hT2

theorem stepOK2_rhRelock {hash : Nat → Nat} {sh : Sh} {tid : Tid} {t : Th} (alt : Nat) (hS : ShInv hash sh) (hT : ThInv hash sh tid t)
    (h2 : ShInv2 sh) (hT2 : ThInv2 hash sh tid t) (hpc : t.pc = .rhRelock) :
    StepOK2 hash sh tid t (stepTh hash sh tid t alt).1 (stepTh hash sh tid t alt).2.1 := by
  have hc2 := carry_of hT2 (by rw [hpc]; rfl)
  have hc := hT.c
  rw [hpc] at hc
  simp only [CAt] at hc
  obtain ⟨hne0, hr, hch⟩ := hc
  have hstep : stepTh hash sh tid t alt =
      (if (sh.blk t.tgt).isFree = true then
          ((afterAcq hash (sh.setBL t.tgt ((sh.blk t.tgt).setW tid)) tid { t with stk := (t.tgt, true) :: t.stk }).1,
           (afterAcq hash (sh.setBL t.tgt ((sh.blk t.tgt).setW tid)) tid { t with stk := (t.tgt, true) :: t.stk }).2, .bl t.tgt true)
        else (sh, t, .blocked)) := by
    unfold stepTh
    rw [hpc]
  rw [hstep]
  split
  · exact stepOK2_acquire _ t.tgt true t.stk rfl rfl rfl rfl rfl rfl h2 hc2 (acq_rest_ok t.stk (linkedTo_tgt t) hr)
  · exact stepOK2_refl h2 hT2

theorem stepOK2_rhUpg {hash : Nat → Nat} {sh : Sh} {tid : Tid} {t : Th} (alt : Nat) (hS : ShInv hash sh) (hT : ThInv hash sh tid t)
    (h2 : ShInv2 sh) (hT2 : ThInv2 hash sh tid t) (hpc : t.pc = .rhUpg) :
    StepOK2 hash sh tid t (stepTh hash sh tid t alt).1 (stepTh hash sh tid t alt).2.1 := by
  have hc2 := carry_of hT2 (by rw [hpc]; rfl)
  have hc := hT.c
  rw [hpc] at hc
  simp only [CAt] at hc
  obtain ⟨hs, htne, hch, hlink, hrest⟩ := hc
  have hstep : stepTh hash sh tid t alt =
      (if alt = 0 then
        if (sh.blk t.b0).soleReader tid = true then
          ((afterAcq hash (sh.setBL t.b0 ((sh.blk t.b0).setW tid)) tid { t with stk := (t.b0, true) :: t.stk.tail }).1,
           (afterAcq hash (sh.setBL t.b0 ((sh.blk t.b0).setW tid)) tid { t with stk := (t.b0, true) :: t.stk.tail }).2, .bup t.b0)
        else (sh, t, .blocked)
      else (sh.setBL t.b0 ((sh.blk t.b0).delR tid), { t with stk := t.stk.tail, pc := .rhRelock }, .bur t.b0)) := by
    generalize t.b0 = b0 at hs
    generalize t.stk.tail = tl at hs
    unfold stepTh
    rw [hpc]
    simp only
    rw [hs]
  rw [hstep]
  split
  · split
    · exact stepOK2_acquire _ t.b0 true t.stk.tail rfl rfl rfl rfl rfl rfl h2 hc2 (acq_rest_ok t.stk.tail hlink hrest)
    · exact stepOK2_refl h2 hT2
  · exact stepOK2_inert h2 hc2 rfl rfl rfl rfl rfl (fun _ => Iff.rfl) rfl rfl rfl rfl rfl

theorem stepOK2_rhRel {hash : Nat → Nat} {sh : Sh} {tid : Tid} {t : Th} (alt : Nat) (hS : ShInv hash sh) (hT : ThInv hash sh tid t)
    (h2 : ShInv2 sh) (hT2 : ThInv2 hash sh tid t) (hpc : t.pc = .rhRel) :
    StepOK2 hash sh tid t (stepTh hash sh tid t alt).1 (stepTh hash sh tid t alt).2.1 := by
  have hc2 := carry_of hT2 (by rw [hpc]; rfl)
  have hc := hT.c
  rw [hpc] at hc
  simp only [CAt] at hc
  obtain ⟨hs, hch0, hch1, hb12, hpar, hlink, hrest⟩ := hc
  have hstep : stepTh hash sh tid t alt =
      ((afterAcq hash (if t.w0 = true then sh.setBL t.b0 (sh.blk t.b0).clrW else sh.setBL t.b0 ((sh.blk t.b0).delR tid)) tid
          { t with stk := (t.b1, true) :: t.stk.drop 2 }).1,
       (afterAcq hash (if t.w0 = true then sh.setBL t.b0 (sh.blk t.b0).clrW else sh.setBL t.b0 ((sh.blk t.b0).delR tid)) tid
          { t with stk := (t.b1, true) :: t.stk.drop 2 }).2,
       if t.w0 = true then .buw t.b0 else .bur t.b0) := by
    generalize t.b0 = b0 at hs
    generalize t.w0 = w0 at hs
    generalize t.b1 = b1 at hs
    generalize t.stk.drop 2 = tl at hs
    unfold stepTh
    rw [hpc]
    simp only
    rw [hs]
  rw [hstep]
  cases hw0 : t.w0 with
  | true =>
    simp only [if_true]
    exact stepOK2_acquire _ t.b1 true (t.stk.drop 2) rfl rfl rfl rfl rfl rfl h2 hc2 (acq_rest_ok (t.stk.drop 2) hlink hrest)
  | false =>
    simp only [Bool.false_eq_true, if_false]
    exact stepOK2_acquire _ t.b1 true (t.stk.drop 2) rfl rfl rfl rfl rfl rfl h2 hc2 (acq_rest_ok (t.stk.drop 2) hlink hrest)

theorem stepOK2_upg {hash : Nat → Nat} {sh : Sh} {tid : Tid} {t : Th} (alt : Nat) (hS : ShInv hash sh) (hT : ThInv hash sh tid t)
    (h2 : ShInv2 sh) (hT2 : ThInv2 hash sh tid t) (hpc : t.pc = .upg) :
    StepOK2 hash sh tid t (stepTh hash sh tid t alt).1 (stepTh hash sh tid t alt).2.1 := by
  have hc2 := carry_of hT2 (by rw [hpc]; rfl)
  have hc := hT.c
  rw [hpc] at hc
  simp only [CAt] at hc
  obtain ⟨hs, hop, hb, hnf, hk⟩ := hc
  have hstep : stepTh hash sh tid t alt =
      (if alt = 0 then
        if (sh.blk t.b0).soleReader tid then (sh.setBL t.b0 ((sh.blk t.b0).setW tid), { t with stk := [(t.b0, true)], pc := Pc.chk1 }, Lab.bup t.b0)
        else (sh, t, .blocked)
      else (sh.setBL t.b0 ((sh.blk t.b0).delR tid), { t with stk := [], pc := Pc.relock }, Lab.bur t.b0)) := by
    generalize t.b0 = b0 at hs
    unfold stepTh
    rw [hpc]
    simp only
    rw [hs]
  rw [hstep]
  split
  · split
    · exact stepOK2_inert h2 hc2 rfl rfl rfl rfl rfl (fun _ => Iff.rfl) rfl rfl rfl rfl rfl
    · exact stepOK2_refl h2 hT2
  · exact stepOK2_inert h2 hc2 rfl rfl rfl rfl rfl (fun _ => Iff.rfl) rfl rfl rfl rfl rfl

theorem stepOK2_eUpg {hash : Nat → Nat} {sh : Sh} {tid : Tid} {t : Th} (alt : Nat) (hS : ShInv hash sh) (hT : ThInv hash sh tid t)
    (h2 : ShInv2 sh) (hT2 : ThInv2 hash sh tid t) (hpc : t.pc = .eUpg) :
    StepOK2 hash sh tid t (stepTh hash sh tid t alt).1 (stepTh hash sh tid t alt).2.1 := by
  have hc2 := carry_of hT2 (by rw [hpc]; rfl)
  have hc := hT.c
  rw [hpc] at hc
  simp only [CAt] at hc
  obtain ⟨hs, hop, hb, hfd, hk⟩ := hc
  have hstep : stepTh hash sh tid t alt =
      (if alt = 0 then
        if (sh.blk t.b0).soleReader tid then (sh.setBL t.b0 ((sh.blk t.b0).setW tid), { t with stk := [(t.b0, true)], pc := Pc.unlink }, Lab.bup t.b0)
        else (sh, t, .blocked)
      else (sh.setBL t.b0 ((sh.blk t.b0).delR tid), { t with stk := [], pc := Pc.eRelock }, Lab.bur t.b0)) := by
    generalize t.b0 = b0 at hs
    unfold stepTh
    rw [hpc]
    simp only
    rw [hs]
  rw [hstep]
  split
  · split
    · exact stepOK2_inert h2 hc2 rfl rfl rfl rfl rfl (fun _ => Iff.rfl) rfl rfl rfl rfl rfl
    · exact stepOK2_refl h2 hT2
  · exact stepOK2_inert h2 hc2 rfl rfl rfl rfl rfl (fun _ => Iff.rfl) rfl rfl rfl rfl rfl

theorem stepOK2_eRelock {hash : Nat → Nat} {sh : Sh} {tid : Tid} {t : Th} (alt : Nat) (hS : ShInv hash sh) (hT : ThInv hash sh tid t)
    (h2 : ShInv2 sh) (hT2 : ThInv2 hash sh tid t) (hpc : t.pc = .eRelock) :
    StepOK2 hash sh tid t (stepTh hash sh tid t alt).1 (stepTh hash sh tid t alt).2.1 := by
  have hc2 := carry_of hT2 (by rw [hpc]; rfl)
  have hstep : stepTh hash sh tid t alt =
      (if (sh.blk t.tgt).isFree then
        (sh.setBL t.tgt ((sh.blk t.tgt).setW tid), { t with stk := [(t.tgt, true)], rs := true, pc := Pc.chk1 }, Lab.bl t.tgt true)
      else (sh, t, .blocked)) := by
    unfold stepTh
    rw [hpc]
  rw [hstep]
  split
  · exact stepOK2_inert h2 hc2 rfl rfl rfl rfl rfl (fun _ => Iff.rfl) rfl rfl rfl rfl rfl
  · exact stepOK2_refl h2 hT2

theorem stepOK2_relock {hash : Nat → Nat} {sh : Sh} {tid : Tid} {t : Th} (alt : Nat) (hS : ShInv hash sh) (hT : ThInv hash sh tid t)
    (h2 : ShInv2 sh) (hT2 : ThInv2 hash sh tid t) (hpc : t.pc = .relock) :
    StepOK2 hash sh tid t (stepTh hash sh tid t alt).1 (stepTh hash sh tid t alt).2.1 := by
  have hc2 := carry_of hT2 (by rw [hpc]; rfl)
  have hc := hT.c
  rw [hpc] at hc
  simp only [CAt] at hc
  obtain ⟨hs, hch, hk⟩ := hc
  have hstep : stepTh hash sh tid t alt =
      (if (sh.blk t.tgt).isFree then
        match findKey (sh.chainOf t.tgt) t.op.key with
        | some n => (sh.setBL t.tgt ((sh.blk t.tgt).setW tid), { t with stk := [(t.tgt, true)], n := some n, pc := Pc.dng }, Lab.bl t.tgt true)
        | none => (sh.setBL t.tgt ((sh.blk t.tgt).setW tid), { t with stk := [(t.tgt, true)], pc := Pc.chk1 }, Lab.bl t.tgt true)
      else (sh, t, .blocked)) := by
    unfold stepTh
    rw [hpc]
    simp only
    split
    · split <;> simp_all
    · rfl
  rw [hstep]
  have hkne : t.op.k ≠ .exclude := by rw [hk]; simp
  split
  · split
    · rename_i n hf
      obtain ⟨hn, _⟩ := findKey_some hf
      have hln : IsLinked sh n := ⟨t.tgt, hn⟩
      have hc3 : Carry hash sh tid { t with stk := [(t.tgt, true)], n := some n, pc := Pc.dng } :=
        carry_found h2 hc2 rfl rfl rfl hkne (n := n) rfl hln
      exact ⟨shinv2_same h2 rfl rfl rfl rfl rfl (fun _ => Iff.rfl),
        thinv2_of_carry (carry_sh hc3 rfl rfl (Nat.le_refl _)) (Or.inl rfl),
        frame2_same rfl rfl rfl (Nat.le_refl _) (fun n h => Or.inl h)⟩
    · exact stepOK2_inert h2 hc2 rfl rfl rfl rfl rfl (fun _ => Iff.rfl) rfl rfl rfl rfl rfl
  · exact stepOK2_refl h2 hT2

end TbbVerif.C10
