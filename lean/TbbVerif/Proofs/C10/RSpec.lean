/- C10 (refined model): the specification lock follows the word.  From C08's invariant of the word (instantiated) and the
coupling: when the word grants, the specification lock is free / readable / has a sole reader (so the `HMap` step is the
enabled one); and the updated specification lock again names only real holders. -/
import TbbVerif.Proofs.C10.RAsm

namespace TbbVerif.C10R

open TbbVerif.C10

/-- what is known about one lock before an access of thread `tid` -/
structure LockView (N : Nat) (l : Lock) (c : C08.St) (tid : Tid) (th : C08.Th) : Prop where
  ok : LockOK N c
  slot : c.ths[tid]? = some th
  spec : ∀ (i : Nat) (x : C08.Th), c.ths[i]? = some x → (l.w = some i → x.phase = .holdW) ∧ (i ∈ l.r → phaseR x.phase)
  nodup : l.r.Nodup
  wlt : ∀ i, l.w = some i → i < N
  rlt : ∀ i, i ∈ l.r → i < N

theorem slot_exists {N : Nat} {c : C08.St} (h : LockOK N c) {i : Nat} (hi : i < N) : ∃ x, c.ths[i]? = some x := by
  have : i < c.ths.length := by rw [h.len]; exact hi
  exact ⟨c.ths[i], List.getElem?_eq_getElem this⟩

section
variable {N : Nat} {l : Lock} {c : C08.St} {tid : Tid} {th : C08.Th} (v : LockView N l c tid th)
include v

/-- WRITER clear and no readers: the specification lock is free -/
theorem free_of_word (hw : c.word.w = false) (hr : c.word.r = 0) : l.isFree = true := by
  rw [Lock.isFree_iff]
  constructor
  · cases hl : l.w with
    | none => rfl
    | some i =>
      obtain ⟨x, hx⟩ := slot_exists v.ok (v.wlt i hl)
      exact absurd ((v.spec i x hx).1 hl) (no_writer_of_w v.ok.inv hw hx).1
  · apply List.eq_nil_iff_forall_not_mem.2
    intro i hi
    obtain ⟨x, hx⟩ := slot_exists v.ok (v.rlt i hi)
    have := (v.spec i x hx).2 hi
    obtain ⟨_, h2, h3, h4⟩ := no_reader_of_r v.ok.inv hr hx
    rcases this with h | h | h
    · exact h2 h
    · exact h3 h
    · exact h4 h

/-- WRITER clear: no writer in the specification lock -/
theorem canRead_of_word (hw : c.word.w = false) : l.canRead = true := by
  rw [Lock.canRead_iff]
  cases hl : l.w with
  | none => rfl
  | some i =>
    obtain ⟨x, hx⟩ := slot_exists v.ok (v.wlt i hl)
    exact absurd ((v.spec i x hx).1 hl) (no_writer_of_w v.ok.inv hw hx).1

/-- the upgrader that has seen the other readers leave is the sole reader of the specification lock -/
theorem sole_of_upgReady (hp : th.phase = .upgReady) (hmem : tid ∈ l.r) : l.soleReader tid = true := by
  rw [Lock.soleReader_iff]
  have others : ∀ i x, c.ths[i]? = some x → i ≠ tid → x.phase = .idle ∨ x.phase = .rt :=
    fun i x hx hi => alone_of_writer v.ok.inv v.slot hx (Ne.symm hi) (Or.inr hp)
  constructor
  · cases hl : l.w with
    | none => rfl
    | some i =>
      obtain ⟨x, hx⟩ := slot_exists v.ok (v.wlt i hl)
      have hW := (v.spec i x hx).1 hl
      by_cases hi : i = tid
      · subst hi; rw [v.slot] at hx; cases hx; rw [hp] at hW; cases hW
      · rcases others i x hx hi with h | h <;> rw [h] at hW <;> cases hW
  · have hall : ∀ i ∈ l.r, i = tid := by
      intro i hi
      apply Classical.byContradiction
      intro hne
      obtain ⟨x, hx⟩ := slot_exists v.ok (v.rlt i hi)
      have hR := (v.spec i x hx).2 hi
      rcases others i x hx hne with h | h <;> rw [h] at hR <;> rcases hR with h' | h' | h' <;> cases h'
    have hnd := v.nodup
    match hlr : l.r with
    | [] => rw [hlr] at hmem; cases hmem
    | [a] => rw [hall a (by rw [hlr]; exact List.mem_cons_self ..)]
    | a :: b :: rest =>
      rw [hlr] at hnd hall
      have ha := hall a (List.mem_cons_self ..)
      have hb := hall b (List.mem_cons_of_mem _ (List.mem_cons_self ..))
      rw [ha, hb] at hnd
      simp at hnd

end

/-- The updated specification lock `l'` after an access that moved thread `tid` from phase `th.phase` to `th'.phase`
names only real holders. -/
structure SpecOut (N : Nat) (l l' : Lock) (tid : Tid) (th' : C08.Th) : Prop where
  fother : ∀ i, i ≠ tid → (l'.w = some i → l.w = some i) ∧ (i ∈ l'.r → i ∈ l.r)
  selfSpec : (l'.w = some tid → th'.phase = .holdW) ∧ (tid ∈ l'.r → phaseR th'.phase)
  specN : l'.r.Nodup ∧ (∀ i, l'.w = some i → i < N) ∧ (∀ i, i ∈ l'.r → i < N)

section
variable {N : Nat} {l : Lock} {c : C08.St} {tid : Tid} {th : C08.Th} (v : LockView N l c tid th) {th' : C08.Th}
include v

theorem tid_lt : tid < N := by
  have := lt_of_get v.slot
  rw [v.ok.len] at this; exact this

theorem spec_same (hW : th.phase = .holdW → th'.phase = .holdW) (hR : phaseR th.phase → phaseR th'.phase) : SpecOut N l l tid th' :=
  ⟨fun _ _ => ⟨id, id⟩, ⟨fun h => hW ((v.spec tid th v.slot).1 h), fun h => hR ((v.spec tid th v.slot).2 h)⟩, v.nodup, v.wlt, v.rlt⟩

theorem spec_setW (hp : th'.phase = .holdW) : SpecOut N l (l.setW tid) tid th' := by
  refine ⟨?_, ?_, ?_⟩
  · intro i hi
    simp only [Lock.setW]
    exact ⟨(fun h => absurd (Option.some.inj h).symm hi), (fun h => by cases h)⟩
  · exact ⟨(fun _ => hp), (fun h => by simp [Lock.setW] at h)⟩
  · refine ⟨by simp [Lock.setW], ?_, (fun i h => by simp [Lock.setW] at h)⟩
    intro i h
    simp only [Lock.setW] at h
    rw [← Option.some.inj h]; exact tid_lt v

theorem spec_addR (hp0 : th.phase = .idle) (hp : th'.phase = .holdR) : SpecOut N l (l.addR tid) tid th' := by
  have hnr : tid ∉ l.r := by
    intro h
    have := (v.spec tid th v.slot).2 h
    rw [hp0] at this; rcases this with h | h | h <;> cases h
  refine ⟨?_, ?_, ?_⟩
  · intro i hi
    simp only [Lock.addR]
    exact ⟨id, (fun h => by rcases List.mem_cons.1 h with h | h; exact absurd h hi; exact h)⟩
  · refine ⟨?_, fun _ => Or.inl hp⟩
    intro h
    have := (v.spec tid th v.slot).1 h
    rw [hp0] at this; cases this
  · refine ⟨?_, v.wlt, ?_⟩
    · simp only [Lock.addR]; exact List.nodup_cons.2 ⟨hnr, v.nodup⟩
    · intro i h
      simp only [Lock.addR] at h
      rcases List.mem_cons.1 h with h | h
      · rw [h]; exact tid_lt v
      · exact v.rlt i h

theorem spec_clrW (hp0 : th.phase = .holdW) : SpecOut N l l.clrW tid th' := by
  refine ⟨?_, ?_, ?_⟩
  · intro i hi
    simp only [Lock.clrW]
    exact ⟨(fun h => by cases h), id⟩
  · refine ⟨(fun h => by simp [Lock.clrW] at h), ?_⟩
    intro h
    have := (v.spec tid th v.slot).2 h
    rw [hp0] at this; rcases this with h | h | h <;> cases h
  · exact ⟨v.nodup, (fun i h => by simp [Lock.clrW] at h), v.rlt⟩

theorem spec_delR (hp0 : phaseR th.phase) : SpecOut N l (l.delR tid) tid th' := by
  refine ⟨?_, ?_, ?_⟩
  · intro i hi
    simp only [Lock.delR]
    exact ⟨id, fun h => List.mem_of_mem_erase h⟩
  · refine ⟨?_, ?_⟩
    · intro h
      have := (v.spec tid th v.slot).1 h
      rw [this] at hp0; rcases hp0 with h | h | h <;> cases h
    · intro h
      simp only [Lock.delR] at h
      exact absurd h (fun h => ((List.Nodup.mem_erase_iff v.nodup).1 h).1 rfl)
  · refine ⟨?_, v.wlt, fun i h => v.rlt i (List.mem_of_mem_erase h)⟩
    simp only [Lock.delR]; exact List.Nodup.erase _ v.nodup

theorem spec_dng (hp : th'.phase = .holdR) : SpecOut N l { w := none, r := [tid] } tid th' := by
  refine ⟨?_, ?_, ?_⟩
  · intro i hi
    exact ⟨(fun h => by cases h), (fun h => by simp at h; exact absurd h hi)⟩
  · exact ⟨(fun h => by cases h), fun _ => Or.inl hp⟩
  · refine ⟨by simp, (fun i h => by cases h), ?_⟩
    intro i h
    simp at h; rw [h]; exact tid_lt v

end

end TbbVerif.C10R
