/- C10: step unlink, and the dispatch over all pcs. -/
import TbbVerif.Proofs.C10.StepOps2
import TbbVerif.Proofs.C10.StepS1
import TbbVerif.Proofs.C10.StepS2
import TbbVerif.Proofs.C10.Assemble

namespace TbbVerif.C10

theorem stepOK_unlink {hash : Nat → Nat} {sh : Sh} {tid : Tid} {t : Th} (alt : Nat) (hS : ShInv hash sh) (hT : ThInv hash sh tid t)
    (hpc : t.pc = .unlink) : StepOK hash sh tid t (stepTh hash sh tid t alt).1 (stepTh hash sh tid t alt).2.1 := by
  have hc := hT.c
  rw [hpc] at hc
  simp only [CAt] at hc
  obtain ⟨hs, hop, n, hn, hmem, _⟩ := hc
  have hg0 := grow_zero_of_pc hT.g (by rw [hpc]; simp) (by rw [hpc]; simp) (by rw [hpc]; simp) (by rw [hpc]; simp)
  have hrs0 := rs_false_of_pc hT (by rw [hpc]; simp) (by rw [hpc]; simp) (by rw [hpc]; simp)
  have hpci : t.pc ≠ .idle := by rw [hpc]; simp
  have hW := holdsW_of hT (b := t.b0) (by rw [hs]; exact List.mem_cons_self ..)
  have hstep : stepTh hash sh tid t alt =
      (({ sh with size := sh.size - 1, unlinker := updN sh.unlinker n (some tid) }.setB t.b0 (.chain ((sh.chainOf t.b0).erase n))).log (t.ev tid true (some n)),
        { t with ret := true, pc := Pc.relB (if t.op.k == .exclude then After.xUpg else After.eLock) }, Lab.szdec (sh.size - 1)) := by
    generalize t.b0 = b0 at hs
    unfold stepTh
    rw [hpc]
    simp only
    rw [hn, hs]
  rw [hstep]
  have hbk : ∀ x, (({ sh with size := sh.size - 1, unlinker := updN sh.unlinker n (some tid) }.setB t.b0 (.chain ((sh.chainOf t.b0).erase n))).log (t.ev tid true (some n))).bkt x =
      if x = t.b0 then .chain ((sh.chainOf t.b0).erase n) else sh.bkt x := fun x => rfl
  have hS1 := shinv_setChain (c' := (sh.chainOf t.b0).erase n) hS hop.1 hbk rfl rfl rfl
    (fun n' hn' => hS.home _ n' (List.mem_of_mem_erase hn')) (nodup_keys_erase n (hS.nodup _))
  refine ⟨hS1, ?_, Frame.mk' (LockFrame.refl _ _) (bktFrame_setChain hop.1 hbk hW) (Nat.le_refl _) (fun _ h => h),
    fun h => absurd rfl h, fun h => absurd hg0 h⟩
  refine ⟨fun f hf => hT.heldB f hf, fun _ hk' => hT.hOk hpci hk', (fun h => by have : t.rs = true := h; rw [hrs0] at this; cases this), ?_,
    growAt_zero hT.g.1 hg0 (by simp) (by simp)⟩
  simp only [CAt]
  obtain ⟨e1, e2⟩ := b0_cons ({ t with ret := true, pc := Pc.relB (if t.op.k == .exclude then After.xUpg else After.eLock) }) (b := t.b0) (w := true) (rest := []) hs
  rw [e1, e2]
  obtain ⟨_, l, h2, h3⟩ := hop
  exact ⟨hs, by rw [hbk, if_pos rfl]; rfl, l, h2, h3⟩

/-- Every step of every thread meets its obligations. -/
theorem stepOK_all {hash : Nat → Nat} {sh : Sh} {tid : Tid} {t : Th} (alt : Nat) (hS : ShInv hash sh) (hT : ThInv hash sh tid t) :
    StepOK hash sh tid t (stepTh hash sh tid t alt).1 (stepTh hash sh tid t alt).2.1 := by
  cases hpc : t.pc with
  | idle => exact stepOK_idle alt hS hT hpc
  | rdMask => exact stepOK_rdMask alt hS hT hpc
  | peek => exact stepOK_peek alt hS hT hpc
  | lockTry => exact stepOK_lockTry alt hS hT hpc
  | mark => exact stepOK_mark alt hS hT hpc
  | lockBlk => exact stepOK_lockBlk alt hS hT hpc
  | rhUpg => exact stepOK_rhUpg alt hS hT hpc
  | rhRelock => exact stepOK_rhRelock alt hS hT hpc
  | rhRel => exact stepOK_rhRel alt hS hT hpc
  | upg => exact stepOK_upg alt hS hT hpc
  | relock => exact stepOK_relock alt hS hT hpc
  | dng => exact stepOK_dng alt hS hT hpc
  | chk1 => exact stepOK_chk1 alt hS hT hpc
  | chk2 => exact stepOK_chk2 alt hS hT hpc
  | link => exact stepOK_link alt hS hT hpc
  | elect1 => exact stepOK_elect1 alt hS hT hpc
  | elect2 => exact stepOK_elect2 alt hS hT hpc
  | elemTry => exact stepOK_elemTry alt hS hT hpc
  | relB a => exact stepOK_relB alt a hS hT hpc
  | alloc => exact stepOK_alloc alt hS hT hpc
  | pubMask => exact stepOK_pubMask alt hS hT hpc
  | eUpg => exact stepOK_eUpg alt hS hT hpc
  | eRelock => exact stepOK_eRelock alt hS hT hpc
  | unlink => exact stepOK_unlink alt hS hT hpc
  | eLock => exact stepOK_eLock alt hS hT hpc
  | eRel => exact stepOK_eRel alt hS hT hpc
  | free => exact stepOK_free alt hS hT hpc
  | xUpg => exact stepOK_xUpg alt hS hT hpc
  | xRelock => exact stepOK_xRelock alt hS hT hpc
  | xRelAcc => exact stepOK_xRelAcc alt hS hT hpc

theorem inv_step (hash : Nat → Nat) (st : St) (a : Act) (hI : Inv hash st) : Inv hash (step hash st a) :=
  inv_step_of hash st a hI (fun t ht => stepOK_all a.alt hI.sh (hI.th a.tid t ht))

theorem inv_init (hash : Nat → Nat) (progs : List (List Op)) : Inv hash (initSt progs) := by
  refine ⟨?_, ?_, ?_⟩
  · refine ⟨(by show 1 ≤ Generated.C10.embeddedBlock; decide), ?_, ?_, ?_, ?_, ?_, ?_, ?_, ?_⟩
    · intro b hb
      show (if b < Generated.C10.embeddedBuckets then Bucket.chain [] else Bucket.flagged).isChain = true
      rw [if_pos (by simp [Generated.C10.embeddedBuckets]; omega)]; rfl
    · intro b hb
      show (if b < Generated.C10.embeddedBuckets then Bucket.chain [] else Bucket.flagged) = Bucket.flagged
      have : (2 : Nat) ^ (Generated.C10.embeddedBlock) = 2 := by decide
      have hb' : 2 ≤ b := by simpa [initSt, this] using hb
      rw [if_neg (by simp [Generated.C10.embeddedBuckets]; omega)]
    · intro b hb hc
      exfalso
      have : (if b < Generated.C10.embeddedBuckets then Bucket.chain [] else Bucket.flagged).isChain = true := hc
      rw [if_neg (by simp [Generated.C10.embeddedBuckets]; omega)] at this
      cases this
    · intro b n hn
      exfalso
      have : n ∈ (if b < Generated.C10.embeddedBuckets then Bucket.chain [] else Bucket.flagged).nodes := hn
      split at this <;> cases this
    · intro b
      show (((if b < Generated.C10.embeddedBuckets then Bucket.chain [] else Bucket.flagged).nodes).map (·.key)).Nodup
      split <;> simp
    · intro b t ht; cases ht
    · intro b t hb
      exfalso
      have : (if b < Generated.C10.embeddedBuckets then Bucket.chain [] else Bucket.flagged) = Bucket.pending t := hb
      split at this <;> cases this
    · intro k h1 h2
      exfalso
      have : k < Generated.C10.embeddedBlock := h2
      simp [Generated.C10.embeddedBlock] at this
      omega
  · intro tid t ht
    simp only [initSt, List.getElem?_map] at ht
    cases hp : progs[tid]? with
    | none => rw [hp] at ht; cases ht
    | some p =>
      rw [hp] at ht
      simp only [Option.map_some, Option.some.injEq] at ht
      subst ht
      exact ⟨fun f hf => (by cases hf), fun h => absurd rfl h, fun h => (by cases h), rfl, ⟨Nat.zero_le _, fun h => absurd rfl h, fun h => (by cases h), fun h => (by cases h)⟩⟩
  · intro i j ti tj hi hj _ hg
    exfalso
    simp only [initSt, List.getElem?_map] at hi
    cases hp : progs[i]? with
    | none => rw [hp] at hi; cases hi
    | some p =>
      rw [hp] at hi
      simp only [Option.map_some, Option.some.injEq] at hi
      subst hi
      exact hg rfl

theorem inv_runFrom (hash : Nat → Nat) (sched : List Act) : ∀ st, Inv hash st → Inv hash (runFrom hash st sched) := by
  induction sched with
  | nil => intro st h; exact h
  | cons a rest ih => intro st h; exact ih _ (inv_step hash st a h)

/-- The invariant holds in every reachable state: any number of threads, any programs, any schedule, any hash function. -/
theorem inv_reachable (hash : Nat → Nat) (progs : List (List Op)) (sched : List Act) : Inv hash (run hash progs sched) :=
  inv_runFrom hash sched _ (inv_init hash progs)

end TbbVerif.C10
