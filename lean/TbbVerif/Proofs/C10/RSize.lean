/- C10: `my_size` is exact — in every reachable state of `HMap` it is the number of linked nodes (the model increments it in
the step that links the node and decrements it in the step that unlinks it; rehashing moves nodes between two chains,
growth adds flagged — hence empty — buckets). -/
import TbbVerif.Proofs.C10.RThm2

namespace TbbVerif.C10R

open TbbVerif.C10

/-- total length of the chains of buckets `0 .. n-1` -/
def sumLen (f : Nat → List Node) : Nat → Nat
  | 0 => 0
  | n + 1 => sumLen f n + (f n).length

def SizeInv (sh : Sh) : Prop := sh.size = sumLen sh.chainOf (2 ^ sh.lvl)

theorem sumLen_congr {f g : Nat → List Node} : ∀ n, (∀ b, b < n → (g b).length = (f b).length) → sumLen g n = sumLen f n := by
  intro n
  induction n with
  | zero => intro _; rfl
  | succ n ih =>
    intro h
    simp only [sumLen]
    rw [ih (fun b hb => h b (by omega)), h n (by omega)]

theorem sumLen_upd {f g : Nat → List Node} (b : Nat) : ∀ n, b < n → (∀ j, j ≠ b → (g j).length = (f j).length) →
    sumLen g n + (f b).length = sumLen f n + (g b).length := by
  intro n
  induction n with
  | zero => intro h; omega
  | succ n ih =>
    intro hb h
    simp only [sumLen]
    by_cases hbn : b = n
    · subst hbn
      have := sumLen_congr (f := f) (g := g) b (fun j hj => h j (by omega))
      omega
    · have := ih (by omega) h
      have := h n (fun hh => hbn hh.symm)
      omega

theorem sumLen_ge (f : Nat → List Node) (b : Nat) : ∀ n, b < n → (f b).length ≤ sumLen f n := by
  intro n
  induction n with
  | zero => intro h; omega
  | succ n ih =>
    intro hb
    simp only [sumLen]
    by_cases hbn : b = n
    · subst hbn; omega
    · have := ih (by omega); omega

theorem sumLen_ext (f : Nat → List Node) (n : Nat) : ∀ m, n ≤ m → (∀ b, n ≤ b → b < m → f b = []) → sumLen f m = sumLen f n := by
  intro m
  induction m with
  | zero => intro h _; have : n = 0 := by omega
            subst this; rfl
  | succ m ih =>
    intro hnm h
    by_cases he : n = m + 1
    · subst he; rfl
    · simp only [sumLen]
      rw [ih (by omega) (fun b h1 h2 => h b h1 (by omega)), h m (by omega) (by omega)]
      rfl

theorem pow_lvl_mono {a b : Nat} (h : a ≤ b) : 2 ^ a ≤ 2 ^ b := Nat.pow_le_pow_right (by omega) h

theorem not_top_lt {hash : Nat → Nat} {sh : Sh} (hS : ShInv hash sh) {c : Nat} (h : sh.bkt c ≠ .flagged) : c < 2 ^ sh.lvl := by
  apply Classical.byContradiction
  intro hc
  exact h (hS.top c (by omega))

theorem chainOf_nil_of_not_chain {sh : Sh} {b : Nat} (h : (sh.bkt b).isChain = false) : sh.chainOf b = [] := by
  unfold Sh.chainOf
  cases hb : sh.bkt b <;> simp_all [Bucket.nodes, Bucket.isChain]

/-- replacing the chain of one bucket below the mask -/
theorem sizeInv_setChain {sh : Sh} {b : Nat} {c' : List Node} {k : Nat} (hb : b < 2 ^ sh.lvl) (hZ : SizeInv sh)
    (hk : k + (sh.chainOf b).length = sh.size + c'.length) :
    SizeInv ({ sh with size := k }.setB b (.chain c')) := by
  unfold SizeInv at *
  have := sumLen_upd (f := sh.chainOf) (g := ({ sh with size := k }.setB b (.chain c')).chainOf) b (2 ^ sh.lvl) hb
    (by intro j hj; rw [chainOf_setB, if_neg hj]; rfl)
  rw [chainOf_setB, if_pos rfl] at this
  simp only [nodes_chain] at this
  show k = sumLen _ (2 ^ sh.lvl)
  omega

theorem sizeInv_same {sh sh' : Sh} (hZ : SizeInv sh) (h1 : sh'.size = sh.size) (h2 : sh'.lvl = sh.lvl)
    (h3 : ∀ b, (sh'.chainOf b).length = (sh.chainOf b).length) : SizeInv sh' := by
  unfold SizeInv at *
  rw [h1, h2, hZ]
  exact (sumLen_congr _ (fun b _ => h3 b)).symm

theorem length_filter_split (l : List Node) (p : Node → Bool) :
    (l.filter p).length + (l.filter (fun n => !p n)).length = l.length := by
  induction l with
  | nil => rfl
  | cons a l ih =>
    simp only [List.filter_cons]
    cases p a <;> simp <;> omega

/-- the code under a freshly acquired bucket lock keeps `my_size` exact (the split moves nodes between two chains) -/
theorem afterAcq_size {hash : Nat → Nat} {sh : Sh} (htop : ∀ b, 2 ^ sh.lvl ≤ b → sh.bkt b = .flagged) (tid : Tid) (t : Th) (hZ : SizeInv sh)
    (hfr : ∀ b w c wc rest, t.stk = (b, w) :: (c, wc) :: rest → sh.bkt c = .pending tid ∧ 2 ≤ c ∧ b = parentOf c) :
    SizeInv (afterAcq hash sh tid t).1 := by
  unfold afterAcq
  split
  · exact hZ
  · rename_i b w c wc rest hs
    obtain ⟨hpend, h2, hbp⟩ := hfr b w c wc rest hs
    have hcl : c < 2 ^ sh.lvl := by
      apply Classical.byContradiction; intro hc
      have := htop c (by omega); rw [hpend] at this; cases this
    have hbc : b < c := by rw [hbp]; exact parentOf_lt' h2
    have hcnil : sh.chainOf c = [] := chainOf_nil_of_not_chain (by rw [hpend]; rfl)
    dsimp only
    split
    · -- nothing to move
      have := sizeInv_setChain (sh := sh) (b := c) (c' := []) (k := sh.size) hcl hZ (by rw [hcnil])
      exact this
    · split
      · -- the split
        have hsplit := length_filter_split (sh.chainOf b) (fun n : Node => movesTo c (hash n.key))
        have h1 := sizeInv_setChain (sh := sh) (b := b) (c' := (sh.chainOf b).filter (fun n : Node => !movesTo c (hash n.key)))
          (k := sh.size - ((sh.chainOf b).filter (fun n : Node => movesTo c (hash n.key))).length) (by omega) hZ ?_
        · have hc2 : ({ sh with size := sh.size - ((sh.chainOf b).filter (fun n : Node => movesTo c (hash n.key))).length }.setB b
              (.chain ((sh.chainOf b).filter (fun n : Node => !movesTo c (hash n.key))))).chainOf c = [] := by
            rw [chainOf_setB, if_neg (by omega)]; exact hcnil
          have h2' := sizeInv_setChain (b := c) (c' := ((sh.chainOf b).filter (fun n : Node => movesTo c (hash n.key))).reverse)
            (k := sh.size) (by exact hcl) h1 (by rw [hc2]; simp; have := sumLen_ge sh.chainOf b (2 ^ sh.lvl) (by omega); unfold SizeInv at hZ; omega)
          refine sizeInv_same h2' rfl rfl ?_
          intro j
          simp [Sh.chainOf, Sh.setB, upd]
        · have := sumLen_ge sh.chainOf b (2 ^ sh.lvl) (by omega)
          unfold SizeInv at hZ
          omega
      · exact hZ
  · dsimp only
    cases hk : t.op.k <;> simp only [] <;> (repeat' split) <;> first | exact hZ | exact sizeInv_same hZ rfl rfl (fun _ => rfl)

/-- the frame of a rehash stack `(tgt, w) :: stk` -/
theorem frame_of_rhStack {sh : Sh} {tid : Tid} {h m : Nat} {stk : List (Nat × Bool)} (hr : RhStack sh tid h m stk) (x : Nat) (w : Bool)
    (hx : ∀ c wc rest, stk = (c, wc) :: rest → x = parentOf c) :
    ∀ b w' c wc rest, (x, w) :: stk = (b, w') :: (c, wc) :: rest → sh.bkt c = .pending tid ∧ 2 ≤ c ∧ b = parentOf c := by
  intro b w' c wc rest h
  simp only [List.cons.injEq, Prod.mk.injEq] at h
  obtain ⟨⟨rfl, _⟩, hstk⟩ := h
  rw [hstk] at hr
  exact ⟨hr.2.1, hr.2.2.1, hx c wc rest hstk⟩

theorem tgt_parent {t : Th} (c : Nat) (wc : Bool) (rest : List (Nat × Bool)) (h : t.stk = (c, wc) :: rest) : t.tgt = parentOf c := by
  unfold Th.tgt; rw [h]

theorem size_step {hash : Nat → Nat} {sh : Sh} {tid : Tid} {t : Th} (alt : Nat) (hS : ShInv hash sh) (hT : ThInv hash sh tid t)
    (hZ : SizeInv sh) : SizeInv (stepTh hash sh tid t alt).1 := by
  have hc := hT.c
  have acq : ∀ (b : Nat) (l' : Lock) (t1 : Th),
      (∀ b' w' c wc rest, t1.stk = (b', w') :: (c, wc) :: rest → sh.bkt c = .pending tid ∧ 2 ≤ c ∧ b' = parentOf c) →
      SizeInv (afterAcq hash (sh.setBL b l') tid t1).1 :=
    fun b l' t1 h => afterAcq_size (hash := hash) (sh := sh.setBL b l') hS.top tid t1 (sizeInv_same hZ rfl rfl (fun _ => rfl)) h
  cases hpc : t.pc <;> rw [hpc] at hc <;> simp only [CAt] at hc <;> unfold stepTh <;> rw [hpc] <;> simp only
  case lockTry =>
    (repeat' split) <;> first
      | exact acq _ _ _ (frame_of_rhStack hc _ _ (fun c wc rest h => tgt_parent c wc rest h))
      | exact sizeInv_same hZ rfl rfl (fun _ => rfl)
      | exact hZ
  case lockBlk =>
    (repeat' split) <;> first
      | exact acq _ _ _ (frame_of_rhStack hc.1 _ _ (fun c wc rest h => tgt_parent c wc rest h))
      | exact hZ
  case rhRelock =>
    (repeat' split) <;> first
      | exact acq _ _ _ (frame_of_rhStack hc.2.1 _ _ (fun c wc rest h => tgt_parent c wc rest h))
      | exact hZ
  case rhUpg =>
    obtain ⟨hstk, _, _, hlink, hrs⟩ := hc
    rw [hstk]
    simp only
    (repeat' split) <;> first
      | exact acq _ _ _ (frame_of_rhStack hrs _ _ (fun c wc rest h => by rw [h] at hlink; exact hlink))
      | exact sizeInv_same hZ rfl rfl (fun _ => rfl)
      | exact hZ
  case rhRel =>
    obtain ⟨hstk, _, _, _, _, hlink, hrs⟩ := hc
    rw [hstk]
    simp only
    have hfr := frame_of_rhStack hrs t.b1 true (fun c wc rest h => by rw [h] at hlink; exact hlink)
    have key : ∀ (sh1 : Sh) (t1 : Th), sh1.lvl = sh.lvl → sh1.bkt = sh.bkt → sh1.size = sh.size →
        t1.stk = (t.b1, true) :: List.drop 2 t.stk → SizeInv (afterAcq hash sh1 tid t1).1 := by
      intro sh1 t1 h1 h2 h3 h4
      refine afterAcq_size (hash := hash) (sh := sh1) (by rw [h1, h2]; exact hS.top) tid _
        (sizeInv_same hZ h3 h1 (fun b => by simp [Sh.chainOf, h2])) ?_
      rw [h2, h4]; exact hfr
    split <;> exact key _ _ rfl rfl rfl rfl
  case mark =>
    split
    · rename_i b w rest hs
      obtain ⟨e1, _⟩ := b0_cons t hs
      refine sizeInv_same hZ rfl rfl ?_
      intro j
      rw [chainOf_setB]
      split
      · rename_i hj
        subst hj
        have : sh.chainOf j = [] := chainOf_nil_of_not_chain (by rw [← e1, hc.2.1]; rfl)
        rw [this]; rfl
      · rfl
    · exact hZ
  case link =>
    obtain ⟨hstk, hop, _⟩ := hc
    rw [hstk]
    simp only
    have hb : t.b0 < 2 ^ sh.lvl := onPath_lt hop.2
    have h1 := sizeInv_setChain (sh := sh) (b := t.b0) (c' := { id := sh.nextId, key := t.op.key, val := t.op.val } :: sh.chainOf t.b0)
      (k := sh.size + 1) hb hZ (by simp; omega)
    split <;> exact sizeInv_same h1 rfl rfl (fun j => by simp [Sh.chainOf, Sh.setB, Sh.log, upd])
  case unlink =>
    obtain ⟨hstk, hop, n, hn, hmem, _⟩ := hc
    rw [hstk, hn]
    simp only
    have hb : t.b0 < 2 ^ sh.lvl := onPath_lt hop.2
    have hlen : ((sh.chainOf t.b0).erase n).length = (sh.chainOf t.b0).length - 1 := List.length_erase_of_mem hmem
    have hpos : 1 ≤ (sh.chainOf t.b0).length := List.length_pos_of_mem hmem
    have hge := sumLen_ge sh.chainOf t.b0 (2 ^ sh.lvl) hb
    have hZ' := hZ
    unfold SizeInv at hZ'
    have h1 := sizeInv_setChain (sh := sh) (b := t.b0) (c' := (sh.chainOf t.b0).erase n) (k := sh.size - 1) hb hZ (by rw [hlen]; omega)
    exact sizeInv_same h1 rfl rfl (fun j => by simp [Sh.chainOf, Sh.setB, Sh.log, upd])
  case pubMask =>
    have hle : sh.lvl ≤ lvlAfterEnable t.grow := by
      have := (stepOK_all alt hS hT).frame.lvl
      unfold stepTh at this; rw [hpc] at this; exact this
    unfold SizeInv at *
    show sh.size = sumLen sh.chainOf (2 ^ lvlAfterEnable t.grow)
    rw [sumLen_ext sh.chainOf (2 ^ sh.lvl) _ (pow_lvl_mono hle) (fun b h1 _ => by
      have := hS.top b h1
      unfold Sh.chainOf; rw [this]; rfl)]
    exact hZ
  case chk1 =>
    (repeat' split) <;> (first | exact hZ | (unfold chkPass; cases hk : t.op.k <;> simp only [] <;> (repeat' split) <;>
      first | exact hZ | exact sizeInv_same hZ rfl rfl (fun _ => rfl)))
  case chk2 =>
    (repeat' split) <;> (first | exact hZ | (unfold chkPass; cases hk : t.op.k <;> simp only [] <;> (repeat' split) <;>
      first | exact hZ | exact sizeInv_same hZ rfl rfl (fun _ => rfl)))
  all_goals ((repeat' split) <;> first | exact hZ | exact sizeInv_same hZ rfl rfl (fun _ => rfl))

/-- **`my_size` is exact in every reachable state of `HMap`.** -/
theorem size_reachable (hash : Nat → Nat) (progs : List (List Op)) (sched : List Act) : SizeInv (run hash progs sched).sh := by
  have key : ∀ (sched : List Act) (st : St), InvAll hash st → SizeInv st.sh → SizeInv (runFrom hash st sched).sh := by
    intro sched
    induction sched with
    | nil => intro st _ h; exact h
    | cons a as ih =>
      intro st hI hZ
      rw [runFrom_cons]
      refine ih _ (invAll_step hash st a hI) ?_
      unfold step
      cases hg : st.ths[a.tid]? with
      | none => exact hZ
      | some t => exact size_step a.alt hI.i1.sh (hI.i1.th a.tid t hg) hZ
  refine key sched _ (invAll_init hash progs) ?_
  have : (initSt progs).sh = ({} : Sh) := rfl
  rw [this]
  unfold SizeInv
  decide

end TbbVerif.C10R
