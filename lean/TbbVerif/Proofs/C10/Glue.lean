/- C10: control-flow facts read off the model: `delete_node` is only reached through the release of the element lock. -/
import TbbVerif.Proofs.C10.Reach

namespace TbbVerif.C10

theorem afterAcq_pc_ne_free (hash : Nat → Nat) (sh : Sh) (tid : Tid) (t : Th) (h : t.pc ≠ .free) : (afterAcq hash sh tid t).2.pc ≠ .free := by
  unfold afterAcq
  split
  · exact h
  · dsimp only
    split
    · simp
    · split <;> simp
  · dsimp only
    cases hk : t.op.k <;> simp only [] <;> (repeat' split) <;> simp

theorem chkPass_pc_ne_free (sh : Sh) (tid : Tid) (u : Th) (h : u.pc ≠ .free) : (chkPass sh tid u).2.pc ≠ .free := by
  unfold chkPass
  cases hk : u.op.k <;> simp only [] <;> (repeat' split) <;> first | exact h | simp

theorem afterLink_pc_ne_free (t : Th) : (afterLink t).pc ≠ .free := by
  unfold afterLink afterNode
  split <;> simp

/-- the only step that leads to `delete_node` (pc `free`) is the release of the element lock held as writer (pc `eRel`) -/
theorem free_only_after_eRel (hash : Nat → Nat) (sh : Sh) (tid : Tid) (t : Th) (alt : Nat)
    (h : (stepTh hash sh tid t alt).2.1.pc = .free) (hne : t.pc ≠ .free) : t.pc = .eRel := by
  apply Classical.byContradiction
  intro hne2
  revert h
  cases hpc : t.pc <;> unfold stepTh <;> rw [hpc] <;> simp only
  case free => exact absurd hpc hne
  case eRel => exact absurd hpc hne2
  case lockTry =>
    (repeat' split) <;> first | (intro h; exact afterAcq_pc_ne_free _ _ _ _ (by simp [hpc]) h) | (intro h; rw [hpc] at h; cases h) | simp
  case lockBlk =>
    (repeat' split) <;> first | (intro h; exact afterAcq_pc_ne_free _ _ _ _ (by simp [hpc]) h) | (intro h; rw [hpc] at h; cases h) | simp
  case rhUpg =>
    (repeat' split) <;> first | (intro h; exact afterAcq_pc_ne_free _ _ _ _ (by simp [hpc]) h) | (intro h; rw [hpc] at h; cases h) | simp
  case rhRelock =>
    (repeat' split) <;> first | (intro h; exact afterAcq_pc_ne_free _ _ _ _ (by simp [hpc]) h) | (intro h; rw [hpc] at h; cases h) | simp
  case rhRel =>
    (repeat' split) <;> first | (intro h; exact afterAcq_pc_ne_free _ _ _ _ (by simp [hpc]) h) | (intro h; rw [hpc] at h; cases h) | simp
  case chk1 =>
    (repeat' split) <;> first | (intro h; exact chkPass_pc_ne_free _ _ _ (by simp [hpc]) h) | simp
  case chk2 =>
    (repeat' split) <;> first | (intro h; exact chkPass_pc_ne_free _ _ _ (by simp [hpc]) h) | simp
  case link =>
    (repeat' split) <;> first | (intro h; exact afterLink_pc_ne_free _ h) | (intro h; rw [hpc] at h; cases h) | simp
  case elect1 =>
    (repeat' split) <;> first | (intro h; exact afterLink_pc_ne_free _ h) | simp
  case elect2 =>
    (repeat' split) <;> first | (intro h; exact afterLink_pc_ne_free _ h) | simp
  all_goals ((repeat' split) <;> first | (intro h; rw [hpc] at h; cases h) | (simp [Th.finish, Th.drop, doRdMask]; done) | (simp [Th.finish, Th.drop, doRdMask]; exact hne) | (simp [Th.finish, Th.drop, doRdMask, hpc]))

/-- what a step does to the ghost history: nothing, or one entry of the stepping thread whose recorded result is the
return value the thread carries from then on (`ret`) -/
def HistStep (sh : Sh) (tid : Tid) (t : Th) (sh' : Sh) (t' : Th) : Prop :=
  sh'.hist = sh.hist ∨ ∃ e, sh'.hist = e :: sh.hist ∧ e.tid = tid ∧ e.ok = t'.ret ∧ e.k = t.op.k

theorem afterAcq_hist (hash : Nat → Nat) (sh : Sh) (tid : Tid) (t : Th) :
    HistStep sh tid t (afterAcq hash sh tid t).1 (afterAcq hash sh tid t).2 := by
  unfold afterAcq
  split
  · exact Or.inl rfl
  · dsimp only
    split
    · exact Or.inl rfl
    · split <;> exact Or.inl rfl
  · dsimp only
    cases hk : t.op.k <;> simp only [] <;> (repeat' split) <;>
      first | exact Or.inl rfl | exact Or.inr ⟨_, rfl, rfl, rfl, rfl⟩

theorem chkPass_hist (sh : Sh) (tid : Tid) (u : Th) : HistStep sh tid u (chkPass sh tid u).1 (chkPass sh tid u).2 := by
  unfold chkPass
  cases hk : u.op.k <;> simp only [] <;> (repeat' split) <;>
    first | exact Or.inl rfl | exact Or.inr ⟨_, rfl, rfl, rfl, rfl⟩

theorem histStep_congr {sh sh1 : Sh} {tid : Tid} {t t1 : Th} {sh' : Sh} {t' : Th} (hh : sh1.hist = sh.hist) (ho : t1.op = t.op)
    (h : HistStep sh1 tid t1 sh' t') : HistStep sh tid t sh' t' := by
  unfold HistStep at *
  rw [hh, ho] at h; exact h

/-- **Every step appends at most one history entry, belonging to the stepping thread and recording the result the thread
returns** (`ret` is not changed by later steps of the operation; `Th.finish` reports it). -/
theorem hist_step (hash : Nat → Nat) (sh : Sh) (tid : Tid) (t : Th) (alt : Nat) :
    HistStep sh tid t (stepTh hash sh tid t alt).1 (stepTh hash sh tid t alt).2.1 := by
  cases hpc : t.pc <;> unfold stepTh <;> rw [hpc] <;> simp only
  case lockTry =>
    (repeat' split) <;> first | exact Or.inl rfl | exact histStep_congr rfl rfl (afterAcq_hist _ _ _ _)
  case lockBlk =>
    (repeat' split) <;> first | exact Or.inl rfl | exact histStep_congr rfl rfl (afterAcq_hist _ _ _ _)
  case rhUpg =>
    (repeat' split) <;> first | exact Or.inl rfl | exact histStep_congr rfl rfl (afterAcq_hist _ _ _ _)
  case rhRelock =>
    (repeat' split) <;> first | exact Or.inl rfl | exact histStep_congr rfl rfl (afterAcq_hist _ _ _ _)
  case rhRel =>
    split
    · rename_i b w rest _
      cases w <;> exact histStep_congr rfl rfl (afterAcq_hist _ _ _ _)
    · exact Or.inl rfl
  case chk1 =>
    (repeat' split) <;> first | exact Or.inl rfl | exact chkPass_hist _ _ _ | exact histStep_congr rfl rfl (chkPass_hist _ _ _)
  case chk2 =>
    (repeat' split) <;> first | exact Or.inl rfl | exact chkPass_hist _ _ _
  all_goals ((repeat' split) <;> first | exact Or.inl rfl | exact Or.inr ⟨_, rfl, rfl, rfl, rfl⟩ | exact Or.inr ⟨_, rfl, rfl, (by unfold afterLink afterNode; split <;> rfl), rfl⟩)

end TbbVerif.C10
