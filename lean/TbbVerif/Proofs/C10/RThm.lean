/- C10 (refined model): consequences of the coupling invariant used by the property theorems of Props/C10.lean. -/
import TbbVerif.Proofs.C10.RMain

namespace TbbVerif.C10R

open TbbVerif.C10

/-- the ghost specification lock is exactly what the C08 phases on the word say -/
theorem spec_exact {hash : Nat → Nat} {s : RSt} (hC : Coupled hash s) (L : LId) (i : Nat) (t : Th) (th : C08.Th)
    (ht : s.a.ths[i]? = some t) (hs : slot s L i = some th) :
    ((lockOf s.a.sh L).w = some i ↔ th.phase = .holdW) ∧ (i ∈ (lockOf s.a.sh L).r ↔ phaseR th.phase) :=
  ⟨⟨(hC.spec L i th hs).1, fun h => lock_of_HW hC ht ((hC.ph L i t th ht hs).1 h)⟩,
   ⟨(hC.spec L i th hs).2, fun h => lock_of_HR hC ht ((hC.ph L i t th ht hs).2 h)⟩⟩

/-- an accessor is a real lock on the element's word -/
theorem acc_phase {hash : Nat → Nat} {s : RSt} (hC : Coupled hash s) {i : Nat} {t : Th} {n : Node} {w : Bool}
    (ht : s.a.ths[i]? = some t) (ha : t.acc = some (n, w)) :
    ∃ th, slot s (.e n) i = some th ∧ (if w = true then th.phase = .holdW else phaseR th.phase) := by
  obtain ⟨th, hs⟩ := slot_of hC ht (.e n)
  refine ⟨th, hs, ?_⟩
  cases w
  · simp only [Bool.false_eq_true, if_false]
    exact phaseR_of_HR hC ht hs (by simp [HR, ha])
  · simp only [if_true]
    exact phase_of_HW hC ht hs (Or.inl ha)

/-- a thread in the middle of a BLOCKING operation on an element lock holds no bucket lock (element locks are only
try-acquired under a bucket lock) -/
theorem blocking_elem_no_bucket {hash : Nat → Nat} {s : RSt} (hC : Coupled hash s) {tid : Nat} {t : Th} {r : RTh} {n : Node}
    (ht : s.a.ths[tid]? = some t) (hr : s.rt[tid]? = some r) (hcur : r.cur = some (.e n)) :
    ∃ th op, slot s (.e n) tid = some th ∧ th.ops = [op] ∧
      ((op = .tryLock ∨ op = .tryLockShared ∨ op = .unlock ∨ op = .unlockShared) ∨ t.stk = []) := by
  obtain ⟨th, op, hs, hops, _, hcok⟩ := (hC.th tid t r ht hr).cur _ hcur
  refine ⟨th, op, hs, hops, ?_⟩
  have hc := (hC.abs.i1.th tid t ht).c
  cases op with
  | tryLock => exact Or.inl (Or.inl rfl)
  | tryLockShared => exact Or.inl (Or.inr (Or.inl rfl))
  | unlock => exact Or.inl (Or.inr (Or.inr (Or.inl rfl)))
  | unlockShared => exact Or.inl (Or.inr (Or.inr (Or.inr rfl)))
  | lock =>
    right
    rcases hcok.2 with ⟨_, _, h⟩ | ⟨hpc, _⟩
    · cases h
    · rw [hpc] at hc; simpa [CAt] using hc
  | lockShared => exact absurd hcok.2.2.2 (by simp)
  | downgrade => exact absurd hcok.2.2.2 (by simp)
  | upgrade =>
    right
    rcases hcok with ⟨_, (⟨_, _, h⟩ | ⟨hpc, _⟩)⟩ | ⟨_, _, (⟨_, h⟩ | ⟨hpc, _⟩)⟩
    · cases h
    · rw [hpc] at hc; simpa [CAt] using hc
    · cases h
    · rw [hpc] at hc; simpa [CAt] using hc

/-- the order in which locks are taken: buckets by decreasing index (a child before its parent), element locks last -/
def LId.le : LId → LId → Prop
  | .b i, .b j => i ≤ j
  | .b _, .e _ => True
  | .e x, .e y => x = y
  | .e _, .b _ => False

/-- **Lock order.** Whatever a thread holds (C08 phase on the word) while an operation of its own is in progress on lock
`L` is not below `L`: buckets it holds have a larger or equal index (equal only for the lock it is upgrading / releasing),
and while it works on an element lock with a blocking operation it holds no bucket. -/
theorem lock_order {hash : Nat → Nat} {s : RSt} (hC : Coupled hash s) {tid : Nat} {t : Th} {r : RTh} {L L' : LId} {th' : C08.Th}
    (ht : s.a.ths[tid]? = some t) (hr : s.rt[tid]? = some r) (hcur : r.cur = some L)
    (hblk : ∃ th op, slot s L tid = some th ∧ th.ops = [op] ∧ (op = .lock ∨ op = .lockShared ∨ op = .upgrade))
    (hs' : slot s L' tid = some th') (hheld : th'.phase = .holdW ∨ phaseR th'.phase) : LId.le L L' := by
  obtain ⟨th, op, hs, hops, hop⟩ := hblk
  obtain ⟨th0, op0, hs0, hops0, _, hcok⟩ := (hC.th tid t r ht hr).cur _ hcur
  rw [hs] at hs0; cases hs0
  rw [hops] at hops0; cases hops0
  have hT := hC.abs.i1.th tid t ht
  have hc := hT.c
  have hH : HW t L' ∨ HR t L' := by
    rcases hheld with h | h
    · exact Or.inl ((hC.ph L' tid t th' ht hs').1 h)
    · exact Or.inr ((hC.ph L' tid t th' ht hs').2 h)
  -- the bucket case: everything on the stack is above `tgt` / at or above `b0`
  have stk_tgt : RhStack s.a.sh tid t.h t.m t.stk → L = .b t.tgt → LId.le L L' := by
    intro hrs hL
    subst hL
    cases L' with
    | e n => trivial
    | b b' =>
      have := tgt_lt_stack hrs
      rcases hH with h | h
      · exact Nat.le_of_lt (this _ h)
      · exact Nat.le_of_lt (this _ h)
  have elemCase : t.stk = [] → ∀ n, L = .e n → LId.le L L' := by
    intro hstk n hL
    subst hL
    cases L' with
    | b b' => rcases hH with h | h <;> (simp only [HW, HR] at h; rw [hstk] at h; cases h)
    | e n' =>
      show n = n'
      -- the only element a thread working on element `n` can hold is `n`
      rcases hop with rfl | rfl | rfl
      · rcases hcok.2 with ⟨_, _, h⟩ | ⟨hpc, hL⟩
        · cases h
        · have hacc := acc_none_eLock hC ht hpc
          rcases hH with h | h
          · rcases h with h | ⟨_, h, _⟩
            · rw [hacc] at h; cases h
            · rw [hpc] at h; cases h
          · simp only [HR] at h; rw [hacc] at h; cases h
      · exact absurd hcok.2.2.2 (by simp)
      · have hx : (t.pc = .xUpg ∨ t.pc = .xRelock) ∧ t.n.map LId.e = some (.e n) := by
          rcases hcok with ⟨_, (⟨_, _, h⟩ | ⟨hpc, h⟩)⟩ | ⟨_, _, (⟨_, h⟩ | ⟨hpc, h⟩)⟩
          · cases h
          · exact ⟨Or.inl hpc, h⟩
          · cases h
          · exact ⟨Or.inr hpc, h⟩
        obtain ⟨hpc, hn⟩ := hx
        have hk := hC.abs.k tid t ht
        have hn' : t.n = some n := by
          cases hnn : t.n with
          | none => rw [hnn] at hn; cases hn
          | some m => rw [hnn] at hn; simp at hn; rw [hn]
        rcases hpc with hpc | hpc
        · unfold KInv at hk; rw [hpc] at hk; simp only [KAt] at hk
          have hex := (hC.abs.i2.th tid t ht).ex hk
          rw [hpc] at hex; simp only [ExAt] at hex
          obtain ⟨m, hm, ha, _⟩ := hex
          rw [hn'] at hm; cases hm
          rcases hH with h | h
          · rcases h with h | ⟨h, _⟩
            · rw [ha] at h; cases h
            · rw [ha] at h; cases h
          · simp only [HR] at h; rw [ha] at h; cases h; rfl
        · unfold KInv at hk; rw [hpc] at hk; simp only [KAt] at hk
          have hex := (hC.abs.i2.th tid t ht).ex hk
          rw [hpc] at hex; simp only [ExAt] at hex
          rcases hH with h | h
          · rcases h with h | ⟨_, h, _⟩
            · rw [hex] at h; cases h
            · rw [hpc] at h; cases h
          · simp only [HR] at h; rw [hex] at h; cases h
  rcases hop with rfl | rfl | rfl
  · -- lock()
    rcases hcok.2 with ⟨hpcs, _, hL⟩ | ⟨hpc, hL⟩
    · rcases hpcs with hpc | ⟨hpc, _⟩ <;> rw [hpc] at hc <;> simp only [CAt] at hc
      · exact stk_tgt hc.1 hL
      · exact stk_tgt hc hL
    · rw [hpc] at hc; simp only [CAt] at hc
      cases hn : t.n with
      | none => rw [hn] at hL; cases hL
      | some n => rw [hn] at hL; simp at hL; exact elemCase hc n hL.symm
  · -- lock_shared()
    obtain ⟨_, hpcs, _, hL⟩ := hcok
    rcases hpcs with hpc | ⟨hpc, _⟩ <;> rw [hpc] at hc <;> simp only [CAt] at hc
    · exact stk_tgt hc.1 hL
    · exact stk_tgt hc hL
  · -- upgrade()
    have key : (UpgAt t L ∨ RelockAt t L) := by
      rcases hcok with ⟨_, h⟩ | ⟨_, _, h⟩
      · exact Or.inl h
      · exact Or.inr h
    rcases key with (⟨hpc, _, hL⟩ | ⟨hpc, hL⟩) | (⟨hpc, hL⟩ | ⟨hpc, hL⟩)
    · -- holding b0 shared, waiting to upgrade it: everything else on the stack is above b0
      subst hL
      cases L' with
      | e n => trivial
      | b b' =>
        show t.b0 ≤ b'
        have hmem : (b', true) ∈ t.stk ∨ (b', false) ∈ t.stk := hH
        rcases hpc with hpc | hpc | hpc <;> rw [hpc] at hc <;> simp only [CAt] at hc
        · obtain ⟨hstk, hne, _, hlink, hrs⟩ := hc
          rw [hstk] at hmem
          have hgt : ∀ f ∈ t.stk.tail, t.b0 < f.1 := by
            apply rhStack_gt t.stk.tail t.b0 hrs
            cases htl : t.stk.tail with
            | nil => trivial
            | cons g rest =>
              obtain ⟨d, wd⟩ := g
              rw [htl] at hlink hrs
              simp only [LinkedTo] at hlink
              simp only
              rw [hlink]; exact parentOf_lt' hrs.2.2.1
          rcases hmem with h | h <;> rcases List.mem_cons.1 h with h | h
          · cases h
          · exact Nat.le_of_lt (hgt _ h)
          · cases h; exact Nat.le_refl _
          · exact Nat.le_of_lt (hgt _ h)
        · rw [hc.1] at hmem
          rcases hmem with h | h <;> simp at h
          exact Nat.le_of_eq h.symm
        · rw [hc.1] at hmem
          rcases hmem with h | h <;> simp at h
          exact Nat.le_of_eq h.symm
    · rw [hpc] at hc; simp only [CAt] at hc
      cases hn : t.n with
      | none => rw [hn] at hL; cases hL
      | some n => rw [hn] at hL; simp at hL; exact elemCase hc n hL.symm
    · rcases hpc with hpc | hpc | hpc <;> rw [hpc] at hc <;> simp only [CAt] at hc
      · exact stk_tgt hc.2.1 hL
      · refine stk_tgt ?_ hL; rw [hc.1]; trivial
      · refine stk_tgt ?_ hL; rw [hc.1]; trivial
    · rw [hpc] at hc; simp only [CAt] at hc
      cases hn : t.n with
      | none => rw [hn] at hL; cases hL
      | some n => rw [hn] at hL; simp at hL; exact elemCase hc n hL.symm

end TbbVerif.C10R
