/- C10 helper lemmas: bucket / segment index arithmetic, the path of a hash through the levels, parent relation. -/
import TbbVerif.Model.C10

namespace TbbVerif.C10

/-- bucket of hash `h` at level `l` -/
abbrev pb (h l : Nat) : Nat := h % 2 ^ l

/-! ### the path of a hash -/

theorem pb_lt (h l : Nat) : pb h l < 2 ^ l := Nat.mod_lt _ (Nat.two_pow_pos l)

theorem pb_pb (h : Nat) {l l' : Nat} (hl : l ≤ l') : pb (pb h l') l = pb h l :=
  Nat.mod_mod_of_dvd h (Nat.pow_dvd_pow 2 hl)

theorem pb_mono (h : Nat) {l l' : Nat} (hl : l ≤ l') : pb h l ≤ pb h l' := by
  rw [← pb_pb h hl]; exact Nat.mod_le _ _

/-- going up one level keeps the bucket or sets the new top bit -/
theorem pb_succ (h l : Nat) : pb h (l + 1) = pb h l ∨ pb h (l + 1) = pb h l + 2 ^ l := by
  unfold pb
  rw [Nat.mod_pow_succ]
  rcases Nat.mod_two_eq_zero_or_one (h / 2 ^ l) with h0 | h0 <;> rw [h0] <;> simp

/-- two buckets of the same path are comparable, and the smaller is the bucket of the larger at the lower level -/
theorem pb_of_lt (h : Nat) {l l' : Nat} (hlt : pb h l < pb h l') : l < l' := by
  apply Classical.byContradiction
  intro hc
  have := pb_mono h (Nat.le_of_not_lt hc)
  omega

/-- a bucket of the path that is below `2^j` is the level-`j` bucket (or a lower one) -/
theorem pb_eq_of_lt_pow (h : Nat) {l j : Nat} (hj : pb h l < 2 ^ j) (hl : j ≤ l) : pb h l = pb h j := by
  rw [← pb_pb h hl]
  exact (Nat.mod_eq_of_lt hj).symm

/-! ### parent relation -/

theorem parentOf_lt {b : Nat} (hb : 1 ≤ b) : parentOf b < b := by
  unfold parentOf
  have h1 := Nat.log2_self_le (n := b) (by omega)
  have h2 := Nat.mod_lt b (Nat.two_pow_pos (Nat.log2 b))
  omega

/-- `pb h (l+1)` when it differs from `pb h l` -/
theorem pb_succ_of_ne (h l : Nat) (hne : pb h (l + 1) ≠ pb h l) : pb h (l + 1) = pb h l + 2 ^ l := by
  rcases pb_succ h l with h0 | h0
  · exact absurd h0 hne
  · exact h0

theorem log2_pb_succ (h l : Nat) (hne : pb h (l + 1) ≠ pb h l) : Nat.log2 (pb h (l + 1)) = l := by
  have h1 := pb_succ_of_ne h l hne
  have h2 := pb_lt h (l + 1)
  have h3 := Nat.two_pow_pos l
  rw [Nat.log2_eq_iff (by omega)]
  omega

/-- for `c ≥ 1` on the path at level `l`, `log2 c < l` -/
theorem log2_lt_of_pb {h c l : Nat} (hc : 1 ≤ c) (hcl : c = pb h l) : Nat.log2 c < l := by
  rw [Nat.log2_lt (by omega), hcl]; exact pb_lt h l

/-- a bucket `c ≥ 2` on the path of `h` is the bucket of its own level `log2 c + 1`, and its parent is the bucket one level below -/
theorem pb_level {h c l : Nat} (hc : 1 ≤ c) (hcl : c = pb h l) : c = pb h (Nat.log2 c + 1) ∧ parentOf c = pb h (Nat.log2 c) := by
  have hlog := log2_lt_of_pb hc hcl
  constructor
  · have : pb h l < 2 ^ (Nat.log2 c + 1) := by rw [← hcl]; exact Nat.lt_log2_self
    have := pb_eq_of_lt_pow h this hlog
    rw [← hcl] at this; exact this
  · unfold parentOf
    have := pb_pb h (l := Nat.log2 c) (l' := l) (by omega)
    rw [← hcl] at this; exact this

/-- the parent of the bucket at level `l+1`, when that differs from the bucket at level `l`, is the bucket at level `l` -/
theorem parentOf_pb_succ (h l : Nat) (hne : pb h (l + 1) ≠ pb h l) : parentOf (pb h (l + 1)) = pb h l := by
  unfold parentOf
  rw [log2_pb_succ h l hne]
  exact pb_pb h (Nat.le_succ l)

/-- no bucket of the path lies strictly between a bucket and its parent -/
theorem pb_le_parent {h c b l j : Nat} (hc : 1 ≤ c) (hcl : c = pb h l) (hb : b = pb h j) (hlt : b < c) : b ≤ parentOf c := by
  obtain ⟨h1, h2⟩ := pb_level hc hcl
  rw [h2, hb]
  rcases Nat.lt_or_ge (Nat.log2 c) j with hj | hj
  · have := pb_mono h (l := Nat.log2 c + 1) (l' := j) hj
    omega
  · exact pb_mono h hj

theorem movesTo_iff (c nh : Nat) : movesTo c nh = true ↔ pb nh (Nat.log2 c + 1) = c := by
  unfold movesTo; simp

/-- a node moves into child `c` of `parentOf c` iff `c` is on its hash's path -/
theorem movesTo_iff_onPath {c nh : Nat} (hc : 1 ≤ c) : movesTo c nh = true ↔ ∃ l, c = pb nh l := by
  rw [movesTo_iff]
  constructor
  · intro h; exact ⟨_, h.symm⟩
  · rintro ⟨l, hl⟩; exact (pb_level hc hl).1.symm

/-! ### `nextLvl`: the level probed by check_rehashing_collision -/

theorem nextLvl_spec_aux (h m : Nat) : ∀ f mo, m - mo = f → mo < m → pb h mo ≠ pb h m →
    mo < nextLvl h mo f ∧ nextLvl h mo f ≤ m ∧ pb h (nextLvl h mo f) ≠ pb h mo ∧
      ∀ l, mo ≤ l → l < nextLvl h mo f → pb h l = pb h mo := by
  intro f
  induction f with
  | zero => intro mo hf hlt; omega
  | succ f ih =>
    intro mo hf hlt hne
    unfold nextLvl
    split
    · next hd =>
      refine ⟨by omega, by omega, hd, ?_⟩
      intro l h1 h2
      have : l = mo := by omega
      rw [this]
    · next hd =>
      have heq : pb h (mo + 1) = pb h mo := Classical.not_not.mp hd
      have hne' : pb h (mo + 1) ≠ pb h m := by rw [heq]; exact hne
      have hlt' : mo + 1 < m := by
        rcases Nat.lt_or_ge (mo + 1) m with h1 | h1
        · exact h1
        · have : mo + 1 = m := by omega
          rw [this] at hne'; exact absurd rfl hne'
      obtain ⟨a, b, c, d⟩ := ih (mo + 1) (by omega) hlt' hne'
      refine ⟨by omega, b, by rw [← heq]; exact c, ?_⟩
      intro l h1 h2
      rcases Nat.eq_or_lt_of_le h1 with h3 | h3
      · rw [← h3]
      · rw [← heq]; exact d l h3 h2

theorem nextLvl_spec (h mo m : Nat) (hlt : mo < m) (hne : pb h mo ≠ pb h m) :
    let l' := nextLvl h mo (m - mo)
    mo < l' ∧ l' ≤ m ∧ pb h l' ≠ pb h mo ∧ ∀ l, mo ≤ l → l < l' → pb h l = pb h mo :=
  nextLvl_spec_aux h m (m - mo) mo rfl hlt hne

/-! ### code-shaped definitions agree with the level-shaped ones -/

theorem parentCode_eq (b : Nat) : parentCode b = parentOf b := by
  unfold parentCode parentOf
  rw [Nat.one_shiftLeft, Nat.and_two_pow_sub_one_eq_mod]

theorem or_one (i : Nat) : i ||| 1 = 2 * (i / 2) + 1 := by
  have h1 : (i ||| 1) / 2 = i / 2 := by rw [Nat.or_div_two]; simp
  have h2 : (i ||| 1) % 2 = 1 := by
    have := @Nat.or_mod_two_pow i 1 1
    simp at this
    rcases Nat.mod_two_eq_zero_or_one i with h | h <;> rw [h] at this <;> simp [this]
  omega

theorem shl_or_one (k : Nat) : ((2 ^ k - 1) <<< 1) ||| 1 = 2 ^ (k + 1) - 1 := by
  rw [or_one, Nat.shiftLeft_eq, Nat.pow_succ]
  have := Nat.two_pow_pos k
  omega

theorem movesCode_eq (b nh : Nat) : movesCode b nh = movesTo b nh := by
  unfold movesCode movesTo
  rw [Nat.one_shiftLeft, shl_or_one, Nat.and_two_pow_sub_one_eq_mod]

theorem segBase_eq (k : Nat) (hk : k < 64) : segBase k = if k = 0 then 0 else 2 ^ k := by
  revert k; decide

theorem segSize_eq (k : Nat) : segSize k = 2 ^ k := by
  unfold segSize; exact Nat.one_shiftLeft k

theorem segIndexOf_small (i : Nat) (h : i < 2) : segIndexOf i = 0 := by
  have : i = 0 ∨ i = 1 := by omega
  rcases this with rfl | rfl <;> decide

theorem segIndexOf_spec (i : Nat) (h : 2 ≤ i) : 2 ^ segIndexOf i ≤ i ∧ i < 2 ^ (segIndexOf i + 1) := by
  unfold segIndexOf
  rw [or_one]
  have hne : 2 * (i/2) + 1 ≠ 0 := by omega
  have h1 := Nat.log2_self_le hne
  have h2 := @Nat.lt_log2_self (2 * (i/2) + 1)
  constructor
  · rcases Nat.eq_zero_or_pos (Nat.log2 (2 * (i / 2) + 1)) with h0 | h0
    · rw [h0]; omega
    · obtain ⟨l, hl⟩ : ∃ l, Nat.log2 (2 * (i / 2) + 1) = l + 1 := ⟨_, (Nat.succ_pred_eq_of_pos h0).symm⟩
      rw [hl] at h1 ⊢
      rw [Nat.pow_succ] at h1 ⊢
      omega
  · omega

theorem segIndexOf_pos (i : Nat) (h : 2 ≤ i) : 1 ≤ segIndexOf i := by
  have := (segIndexOf_spec i h).2
  rcases Nat.eq_zero_or_pos (segIndexOf i) with h0 | h0
  · rw [h0] at this; omega
  · exact h0

theorem segIndexOf_lt64 (i : Nat) (h : i < 2 ^ 64) : segIndexOf i < 64 := by
  rcases Nat.lt_or_ge i 2 with h2 | h2
  · rw [segIndexOf_small i h2]; omega
  · have := (segIndexOf_spec i h2).1
    apply Classical.byContradiction
    intro hc
    have : 2 ^ 64 ≤ 2 ^ segIndexOf i := Nat.pow_le_pow_right (by omega) (by omega)
    omega

/-- uniqueness of the power-of-two bracket -/
theorem pow_bracket_unique (i a b : Nat) (ha : 2 ^ a ≤ i) (ha' : i < 2 ^ (a + 1))
    (hb : 2 ^ b ≤ i) (hb' : i < 2 ^ (b + 1)) : a = b := by
  apply Classical.byContradiction
  intro hne
  rcases Nat.lt_or_gt_of_ne hne with h | h
  · have : 2 ^ (a + 1) ≤ 2 ^ b := Nat.pow_le_pow_right (by omega) (by omega)
    omega
  · have : 2 ^ (b + 1) ≤ 2 ^ a := Nat.pow_le_pow_right (by omega) (by omega)
    omega

/-- the segment of an index inside the bracket `[2^s, 2^(s+1))`, `s ≥ 1` -/
theorem segIndexOf_eq_of_bracket (i s : Nat) (hs : 1 ≤ s) (h1 : 2 ^ s ≤ i) (h2 : i < 2 ^ (s + 1)) :
    segIndexOf i = s := by
  have : 2 ^ 1 ≤ 2 ^ s := Nat.pow_le_pow_right (by omega) hs
  have hi : 2 ≤ i := by omega
  obtain ⟨a, b⟩ := segIndexOf_spec i hi
  exact pow_bracket_unique i _ _ a b h1 h2

/-- bit `j` of `h` is set iff the path of `h` changes bucket between levels `j` and `j+1` -/
theorem and_two_pow_ne_zero_iff (h j : Nat) : h &&& 2 ^ j ≠ 0 ↔ pb h (j + 1) ≠ pb h j := by
  have hd : (h &&& 2 ^ j) / 2 ^ j = h / 2 ^ j % 2 := by
    rw [Nat.and_div_two_pow, Nat.div_self (Nat.two_pow_pos j), Nat.and_one_is_mod]
  have hm : (h &&& 2 ^ j) % 2 ^ j = 0 := by
    rw [Nat.and_mod_two_pow, Nat.mod_self, Nat.and_zero]
  have hx := Nat.div_add_mod (h &&& 2 ^ j) (2 ^ j)
  rw [hd, hm] at hx
  unfold pb
  rw [Nat.mod_pow_succ, ← hx]
  have := Nat.two_pow_pos j
  rcases Nat.mod_two_eq_zero_or_one (h / 2 ^ j) with h0 | h0 <;> rw [h0] <;> simp <;> omega

theorem nextBitCode_eq (h l' : Nat) : ∀ fuel lo, lo < l' → l' - lo ≤ fuel →
    (∀ l, lo ≤ l → l < l' → pb h l = pb h lo) → pb h l' ≠ pb h lo →
    nextBitCode h (2 ^ lo) fuel = 2 ^ (l' - 1) := by
  intro fuel
  induction fuel with
  | zero => intro lo h1 h2; omega
  | succ f ih =>
    intro lo h1 h2 h3 h4
    unfold nextBitCode
    split
    · next hb =>
      rw [and_two_pow_ne_zero_iff] at hb
      have : l' = lo + 1 := by
        apply Classical.byContradiction
        intro hc
        exact hb (h3 (lo + 1) (by omega) (by omega))
      rw [this]; simp
    · next hb =>
      have heq : pb h (lo + 1) = pb h lo := by
        apply Classical.byContradiction
        intro hc
        exact hb ((and_two_pow_ne_zero_iff h lo).mpr hc)
      have hne : l' ≠ lo + 1 := by
        intro hc; rw [hc] at h4; exact h4 heq
      have : 2 ^ lo <<< 1 = 2 ^ (lo + 1) := by rw [Nat.shiftLeft_eq, Nat.pow_one, Nat.pow_succ]
      rw [this]
      apply ih (lo + 1) (by omega) (by omega)
      · intro l a b
        rw [heq]; exact h3 l (by omega) b
      · rw [heq]; exact h4

/-- `check_rehashing_collision` (bit-twiddling form on mask values) = the level form used by the machine -/
theorem chkCollCode_eq (flagged : Nat → Bool) (h lo lm : Nat) (hlt : lo < lm) (hlm : lm ≤ 64) :
    chkCollCode flagged h (2 ^ lo - 1) (2 ^ lm - 1) =
      (decide (pb h lo ≠ pb h lm) && !flagged (pb h (nextLvl h lo (lm - lo)))) := by
  unfold chkCollCode
  rw [Nat.and_two_pow_sub_one_eq_mod, Nat.and_two_pow_sub_one_eq_mod]
  by_cases hne : pb h lo ≠ pb h lm
  · obtain ⟨a, b, c, d⟩ := nextLvl_spec h lo lm hlt hne
    have h1 : 2 ^ lo - 1 + 1 = 2 ^ lo := by have := Nat.two_pow_pos lo; omega
    have h2 := nextBitCode_eq h (nextLvl h lo (lm - lo)) 64 lo a (by omega) d c
    have h3 : (2 ^ (nextLvl h lo (lm - lo) - 1)) <<< 1 = 2 ^ (nextLvl h lo (lm - lo)) := by
      rw [Nat.shiftLeft_eq, ← Nat.pow_succ]
      congr 1; omega
    simp only [h1, h2, h3, Nat.and_two_pow_sub_one_eq_mod]
    simp [hne]
  · simp [hne]

/-! ### bucket index ↔ (segment, offset) and ↔ (allocation, offset) -/

/-- `get_bucket`: the offset is inside the segment -/
theorem bucketAddr_bound (i : Nat) (hi : i < 2 ^ 64) : (bucketAddr i).1 < 64 ∧ (bucketAddr i).2 < segCap (bucketAddr i).1 := by
  unfold bucketAddr
  refine ⟨segIndexOf_lt64 i hi, ?_⟩
  simp only
  rcases Nat.lt_or_ge i 2 with h2 | h2
  · rw [segIndexOf_small i h2]
    simp [segCap, Generated.C10.embeddedBuckets]; omega
  · have hp := segIndexOf_pos i h2
    obtain ⟨a, b⟩ := segIndexOf_spec i h2
    rw [segBase_eq _ (segIndexOf_lt64 i hi)]
    unfold segCap
    rw [if_neg (by omega), if_neg (by omega), segSize_eq]
    rw [Nat.pow_succ] at b
    omega

/-- … and index ↦ (segment, offset) is injective, with inverse `segBase s + off` -/
theorem bucketAddr_inv (i : Nat) (hi : i < 2 ^ 64) : segBase (bucketAddr i).1 + (bucketAddr i).2 = i := by
  unfold bucketAddr
  simp only
  rcases Nat.lt_or_ge i 2 with h2 | h2
  · rw [segIndexOf_small i h2, segBase_eq 0 (by omega)]; simp
  · have hp := segIndexOf_pos i h2
    obtain ⟨a, b⟩ := segIndexOf_spec i h2
    rw [segBase_eq _ (segIndexOf_lt64 i hi), if_neg (by omega)]
    omega

/-- every (segment, offset) pair inside a segment is the address of exactly the bucket `segBase s + off` -/
theorem bucketAddr_surj (s off : Nat) (hs : s < 64) (ho : off < segCap s) : bucketAddr (segBase s + off) = (s, off) := by
  unfold bucketAddr
  rw [segBase_eq s hs]
  unfold segCap at ho
  by_cases h0 : s = 0
  · subst h0
    simp [Generated.C10.embeddedBuckets] at ho
    simp only [if_true, Nat.zero_add]
    rw [segIndexOf_small off ho, segBase_eq 0 (by omega)]; simp
  · rw [if_neg h0, segSize_eq] at ho
    rw [if_neg h0]
    have hk : segIndexOf (2 ^ s + off) = s :=
      segIndexOf_eq_of_bracket _ s (by omega) (by omega) (by rw [Nat.pow_succ]; omega)
    rw [hk, segBase_eq s hs, if_neg h0]
    simp

theorem allocOf_bound (i : Nat) (hi : i < 2 ^ 64) : (allocOf i).2 < allocSize (allocOf i).1 := by
  unfold allocOf
  simp only [Generated.C10.embeddedBuckets, Generated.C10.firstBlock]
  by_cases i2 : i < 2
  · simp [i2, allocSize, Generated.C10.embeddedBuckets]
  · have h2 : 2 ≤ i := by omega
    have hp := segIndexOf_pos i h2
    obtain ⟨a, b⟩ := segIndexOf_spec i h2
    by_cases h8 : segIndexOf i < 8
    · have : 2 ^ (segIndexOf i + 1) ≤ 2 ^ 8 := Nat.pow_le_pow_right (by omega) (by omega)
      simp [i2, h8, allocSize, Generated.C10.embeddedBuckets, Generated.C10.firstBlock, segSize_eq]
      omega
    · simp only [i2, h8, if_false, allocSize, Generated.C10.firstBlock]
      rw [if_neg (by omega), if_neg (by omega), segSize_eq, segBase_eq _ (segIndexOf_lt64 i hi), if_neg (by omega)]
      have : segIndexOf i - 8 + 2 + 8 - 2 = segIndexOf i := by omega
      rw [this]
      rw [Nat.pow_succ] at b
      omega

theorem allocOf_inj (i j : Nat) (hi : i < 2 ^ 64) (hj : j < 2 ^ 64) (h : allocOf i = allocOf j) : i = j := by
  unfold allocOf at h
  simp only [Generated.C10.embeddedBuckets, Generated.C10.firstBlock] at h
  have key : ∀ x, x < 2 ^ 64 → 2 ≤ x → 8 ≤ segIndexOf x →
      segBase (segIndexOf x) = 2 ^ segIndexOf x ∧ 2 ^ segIndexOf x ≤ x := by
    intro x hx h2 h8
    rw [segBase_eq _ (segIndexOf_lt64 x hx), if_neg (by omega)]
    exact ⟨rfl, (segIndexOf_spec x h2).1⟩
  by_cases i2 : i < 2 <;> by_cases j2 : j < 2 <;>
    by_cases i8 : segIndexOf i < 8 <;> by_cases j8 : segIndexOf j < 8 <;>
    simp only [i2, j2, i8, j8, if_true, if_false, Prod.mk.injEq] at h <;> try omega
  obtain ⟨h1, h2⟩ := h
  have hij : segIndexOf i = segIndexOf j := by omega
  obtain ⟨a, b⟩ := key i hi (by omega) (by omega)
  obtain ⟨c, d⟩ := key j hj (by omega) (by omega)
  rw [a, hij] at h2
  rw [c] at h2
  rw [hij] at b
  omega

end TbbVerif.C10
