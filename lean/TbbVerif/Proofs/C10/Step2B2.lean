/- C10: second invariant across the steps dng, chk1, chk2, elect1, elect2, alloc, pubMask, relB, idle. -/
import TbbVerif.Proofs.C10.Pass2

namespace TbbVerif.C10

set_option linter.unusedVariables false

/-! ### helpers -/

/-- a step that leaves element locks, freed / unlinker flags, nextId and the linked nodes alone; the new thread state is
justified against the old shared state -/
theorem b2_step' {hash : Nat → Nat} {sh sh' : Sh} {tid : Tid} {t t' : Th} (hwf : ∀ n, (sh.elk n).Wf) (hsh : ShInv2 sh')
    (he : sh'.elk = sh.elk) (hf : sh'.freed = sh.freed) (hu : sh'.unlinker = sh.unlinker) (hn : sh'.nextId = sh.nextId)
    (hl : ∀ n, IsLinked sh' n → IsLinked sh n) (hT' : ThInv2 hash sh tid t') : StepOK2 hash sh tid t sh' t' :=
  ⟨hsh, thinv2_same hwf hT' he hf hu (by rw [hn]; exact Nat.le_refl _) (fun n h => Or.inl (hl n h)),
    frame2_same he hf hu (by rw [hn]; exact Nat.le_refl _) (fun n h => Or.inl (hl n h))⟩

theorem b2_step {hash : Nat → Nat} {sh sh' : Sh} {tid : Tid} {t t' : Th} (h2 : ShInv2 sh)
    (he : sh'.elk = sh.elk) (hf : sh'.freed = sh.freed) (hu : sh'.unlinker = sh.unlinker) (hn : sh'.nextId = sh.nextId)
    (hh : sh'.hist = sh.hist) (hl : ∀ n, IsLinked sh' n ↔ IsLinked sh n) (hT' : ThInv2 hash sh tid t') :
    StepOK2 hash sh tid t sh' t' :=
  b2_step' h2.ewf (shinv2_same h2 he hf hu hn hh hl) he hf hu hn (fun n h => (hl n).1 h) hT'

/-- release of the operation's bucket lock -/
theorem b2_relStep {hash : Nat → Nat} {sh : Sh} {tid : Tid} {t t' : Th} (h2 : ShInv2 sh) (b : Nat) (w : Bool)
    (hT' : ThInv2 hash sh tid t') :
    StepOK2 hash sh tid t (if w = true then sh.setBL b (sh.blk b).clrW else sh.setBL b ((sh.blk b).delR tid)) t' := by
  cases w with
  | true => exact b2_step h2 rfl rfl rfl rfl rfl (fun _ => Iff.rfl) hT'
  | false => exact b2_step h2 rfl rfl rfl rfl rfl (fun _ => Iff.rfl) hT'

/-- the thread after its operation completed -/
theorem thinv2_finish {hash : Nat → Nat} {sh : Sh} {tid : Tid} (t0 : Th) (v : Nat)
    (hheld : ∀ n w, t0.acc = some (n, w) → HoldsE sh tid (n, w) ∧ sh.freed n = false ∧ n.id < sh.nextId) :
    ThInv2 hash sh tid (t0.finish v) := by
  refine ⟨hheld, ?_, ?_, ?_, ?_⟩
  · intro n h; cases h
  · intro _; show ExAt hash _ Pc.idle; simp only [ExAt]
  · intro _ h; exact absurd rfl h
  · show DAt sh tid _ Pc.idle; simp only [DAt]

/-- from a thread at a plain pc to a thread at `afterLink` (op kind is `ins`) -/
theorem thinv2_afterLink {hash : Nat → Nat} {sh : Sh} {tid : Tid} {t1 : Th} (c : Carry hash sh tid t1) (hk : t1.op.k = .ins) :
    ThInv2 hash sh tid (afterLink t1) := by
  have hkne : t1.op.k ≠ .exclude := by rw [hk]; simp
  unfold afterLink afterNode
  split
  · exact thinv2_of_carry (carry_local c rfl rfl rfl rfl) (Or.inr (Or.inl ⟨rfl, hkne⟩))
  · exact thinv2_of_carry (carry_local c rfl rfl rfl rfl) (Or.inl rfl)

/-! ### dng -/

theorem stepOK2_dng {hash : Nat → Nat} {sh : Sh} {tid : Tid} {t : Th} (alt : Nat) (hS : ShInv hash sh) (hT : ThInv hash sh tid t)
    (h2 : ShInv2 sh) (hT2 : ThInv2 hash sh tid t) (hpc : t.pc = .dng) :
    StepOK2 hash sh tid t (stepTh hash sh tid t alt).1 (stepTh hash sh tid t alt).2.1 := by
  have hc := hT.c
  rw [hpc] at hc
  simp only [CAt] at hc
  obtain ⟨hs, hop, hfd, hk⟩ := hc
  have hc2 := carry_of hT2 (by rw [hpc]; rfl)
  have hkne : t.op.k ≠ .exclude := by rw [hk]; simp
  have hstep : stepTh hash sh tid t alt =
      (if t.op.acc = 0 then
        ((sh.setBL t.b0 { w := none, r := [tid] }).log (t.ev tid false t.n),
          { t with stk := [(t.b0, false)], ret := false, pc := Pc.relB After.fin }, Lab.bdn t.b0)
      else (sh.setBL t.b0 { w := none, r := [tid] }, { t with stk := [(t.b0, false)], ret := false, pc := Pc.elemTry }, Lab.bdn t.b0)) := by
    generalize t.b0 = b0 at hs
    unfold stepTh
    rw [hpc]
    simp only
    rw [hs]
  rw [hstep]
  have h2' : ShInv2 (sh.setBL t.b0 { w := none, r := [tid] }) := shinv2_same h2 rfl rfl rfl rfl rfl (fun _ => Iff.rfl)
  split
  · refine b2_step' h2.ewf ?_ rfl rfl rfl rfl (fun _ h => h)
      (thinv2_of_carry (carry_local hc2 rfl rfl rfl rfl) (Or.inr (Or.inl ⟨rfl, hkne⟩)))
    obtain ⟨n, hn, hmem, hnk⟩ := hfd
    apply lin_log h2'
    intro s _ h3 _
    have hkey : (t.ev tid false t.n).key = t.op.key := ev_key_ne_excl hkne
    apply specStep_found (n := n) (Or.inl hk)
    · rw [hkey, ← hnk hkne]; exact (h3 n).2 ⟨t.b0, hmem⟩
    · show false = (if t.op.k = OpK.ins then false else true); simp [hk]
    · exact hn
  · exact b2_step h2 rfl rfl rfl rfl rfl (fun _ => Iff.rfl)
      (thinv2_of_carry (carry_local hc2 rfl rfl rfl rfl) (Or.inl rfl))

/-! ### chk1, chk2 -/

theorem stepOK2_chk1 {hash : Nat → Nat} {sh : Sh} {tid : Tid} {t : Th} (alt : Nat) (hS : ShInv hash sh) (hT : ThInv hash sh tid t)
    (h2 : ShInv2 sh) (hT2 : ThInv2 hash sh tid t) (hpc : t.pc = .chk1) :
    StepOK2 hash sh tid t (stepTh hash sh tid t alt).1 (stepTh hash sh tid t alt).2.1 := by
  have hc := hT.c
  rw [hpc] at hc
  simp only [CAt] at hc
  obtain ⟨hs, hop, hdis, hcf⟩ := hc
  have hc2 := carry_of hT2 (by rw [hpc]; rfl)
  have hh : t.op.k ≠ .exclude → t.h = hash t.op.key := fun hk => hT.hOk (by rw [hpc]; simp) hk
  have hstep : stepTh hash sh tid t alt =
      (if sh.lvl = t.m then
        ((chkPass sh tid t).1, (chkPass sh tid t).2, Lab.ldmask (2 ^ sh.lvl - 1))
      else if t.h % 2 ^ t.m ≠ t.h % 2 ^ sh.lvl then (sh, { t with mo := t.m, m := sh.lvl, pc := Pc.chk2 }, Lab.ldmask (2 ^ sh.lvl - 1))
      else ((chkPass sh tid { t with mo := t.m, m := sh.lvl }).1, (chkPass sh tid { t with mo := t.m, m := sh.lvl }).2, Lab.ldmask (2 ^ sh.lvl - 1))) := by
    unfold stepTh
    rw [hpc]
  rw [hstep]
  split
  · rename_i hmn
    have habove : AboveNC sh t.h t.b0 := by
      rcases hdis with h | ⟨_, h⟩
      · rw [h, ← hmn]; exact aboveNC_top hS t.h
      · exact h
    have r := chkPass2 hS h2 hc2 hs hop hcf habove hh
    exact ⟨r.shinv, r.thinv, r.frame⟩
  · rename_i hmn
    split
    · exact b2_step h2 rfl rfl rfl rfl rfl (fun _ => Iff.rfl)
        (thinv2_of_carry (carry_local hc2 rfl rfl rfl rfl) (Or.inl rfl))
    · rename_i heq
      have heq' : t.h % 2 ^ t.m = t.h % 2 ^ sh.lvl := by
        apply Classical.byContradiction; intro h; exact heq h
      have habove : AboveNC sh t.h t.b0 := by
        rcases hdis with h | ⟨_, h⟩
        · rw [h]; show AboveNC sh t.h (t.h % 2 ^ t.m); rw [heq']; exact aboveNC_top hS t.h
        · exact h
      have r := chkPass2 (u := { t with mo := t.m, m := sh.lvl }) hS h2 (carry_local hc2 rfl rfl rfl rfl) hs hop hcf habove hh
      exact ⟨r.shinv, r.thinv, r.frame⟩

theorem stepOK2_chk2 {hash : Nat → Nat} {sh : Sh} {tid : Tid} {t : Th} (alt : Nat) (hS : ShInv hash sh) (hT : ThInv hash sh tid t)
    (h2 : ShInv2 sh) (hT2 : ThInv2 hash sh tid t) (hpc : t.pc = .chk2) :
    StepOK2 hash sh tid t (stepTh hash sh tid t alt).1 (stepTh hash sh tid t alt).2.1 := by
  have hc := hT.c
  rw [hpc] at hc
  simp only [CAt] at hc
  obtain ⟨hs, hop, hdis, hlt, hne, hcf⟩ := hc
  have hc2 := carry_of hT2 (by rw [hpc]; rfl)
  have hh : t.op.k ≠ .exclude → t.h = hash t.op.key := fun hk => hT.hOk (by rw [hpc]; simp) hk
  have hstep : stepTh hash sh tid t alt =
      (if (sh.bkt (t.h % 2 ^ nextLvl t.h t.mo (t.m - t.mo))).isFlagged = true then
        ((chkPass sh tid t).1, (chkPass sh tid t).2, Lab.ldl (t.h % 2 ^ nextLvl t.h t.mo (t.m - t.mo)) true)
      else (sh, { t with pc := Pc.relB After.restart }, Lab.ldl (t.h % 2 ^ nextLvl t.h t.mo (t.m - t.mo)) false)) := by
    unfold stepTh
    rw [hpc]
  rw [hstep]
  split
  · rename_i hfl
    have habove : AboveNC sh t.h t.b0 := by
      rcases hdis with h | ⟨_, h⟩
      · rw [h]; exact aboveNC_of_flagged hS hlt hne hfl
      · exact h
    have r := chkPass2 hS h2 hc2 hs hop hcf habove hh
    exact ⟨r.shinv, r.thinv, r.frame⟩
  · exact b2_step h2 rfl rfl rfl rfl rfl (fun _ => Iff.rfl)
      (thinv2_of_carry (carry_local hc2 rfl rfl rfl rfl) (Or.inr (Or.inr rfl)))

/-! ### elect1, elect2 -/

theorem stepOK2_elect1 {hash : Nat → Nat} {sh : Sh} {tid : Tid} {t : Th} (alt : Nat) (hS : ShInv hash sh) (hT : ThInv hash sh tid t)
    (h2 : ShInv2 sh) (hT2 : ThInv2 hash sh tid t) (hpc : t.pc = .elect1) :
    StepOK2 hash sh tid t (stepTh hash sh tid t alt).1 (stepTh hash sh tid t alt).2.1 := by
  have hc := hT.c
  rw [hpc] at hc
  simp only [CAt] at hc
  obtain ⟨hs, hof, hf, hret, hins⟩ := hc
  have hc2 := carry_of hT2 (by rw [hpc]; rfl)
  have hstep : stepTh hash sh tid t alt =
      (if sh.seg t.m = .none then (sh, { t with pc := .elect2 }, .ldt t.m false)
       else (sh, afterLink { t with grow := 0 }, .ldt t.m true)) := by
    unfold stepTh
    rw [hpc]
  rw [hstep]
  split
  · exact b2_step h2 rfl rfl rfl rfl rfl (fun _ => Iff.rfl)
      (thinv2_of_carry (carry_local hc2 rfl rfl rfl rfl) (Or.inl rfl))
  · exact b2_step h2 rfl rfl rfl rfl rfl (fun _ => Iff.rfl)
      (thinv2_afterLink (t1 := { t with grow := 0 }) (carry_local hc2 rfl rfl rfl rfl) hins)

theorem stepOK2_elect2 {hash : Nat → Nat} {sh : Sh} {tid : Tid} {t : Th} (alt : Nat) (hS : ShInv hash sh) (hT : ThInv hash sh tid t)
    (h2 : ShInv2 sh) (hT2 : ThInv2 hash sh tid t) (hpc : t.pc = .elect2) :
    StepOK2 hash sh tid t (stepTh hash sh tid t alt).1 (stepTh hash sh tid t alt).2.1 := by
  have hc := hT.c
  rw [hpc] at hc
  simp only [CAt] at hc
  obtain ⟨hs, hof, hf, hret, hins⟩ := hc
  have hc2 := carry_of hT2 (by rw [hpc]; rfl)
  have hstep : stepTh hash sh tid t alt =
      (if sh.seg t.m = .none then ({ sh with seg := upd sh.seg t.m .allocating }, afterLink { t with grow := t.m }, .tcas t.m true)
       else (sh, afterLink { t with grow := 0 }, .tcas t.m false)) := by
    unfold stepTh
    rw [hpc]
  rw [hstep]
  split
  · exact b2_step h2 rfl rfl rfl rfl rfl (fun _ => Iff.rfl)
      (thinv2_afterLink (t1 := { t with grow := t.m }) (carry_local hc2 rfl rfl rfl rfl) hins)
  · exact b2_step h2 rfl rfl rfl rfl rfl (fun _ => Iff.rfl)
      (thinv2_afterLink (t1 := { t with grow := 0 }) (carry_local hc2 rfl rfl rfl rfl) hins)

/-! ### alloc, pubMask -/

theorem stepOK2_alloc {hash : Nat → Nat} {sh : Sh} {tid : Tid} {t : Th} (alt : Nat) (hS : ShInv hash sh) (hT : ThInv hash sh tid t)
    (h2 : ShInv2 sh) (hT2 : ThInv2 hash sh tid t) (hpc : t.pc = .alloc) :
    StepOK2 hash sh tid t (stepTh hash sh tid t alt).1 (stepTh hash sh tid t alt).2.1 := by
  obtain ⟨g1, g2, g3, _⟩ := hT.g
  have hgne : t.grow ≠ 0 := g3 hpc
  obtain ⟨hgl, hsl, _, hret, hins⟩ := g2 hgne
  have hstep : stepTh hash sh tid t alt =
      ({ sh with seg := allocSeg sh t.grow }, { t with pc := .pubMask }, .tst t.grow) := by
    unfold stepTh allocSeg
    rw [hpc]
  rw [hstep]
  refine b2_step h2 rfl rfl rfl rfl rfl (fun _ => Iff.rfl) ⟨hT2.heldE, hT2.nOk, ?_, ?_, ?_⟩
  · intro hk
    have hk' : t.op.k = .exclude := hk
    rw [hins] at hk'; cases hk'
  · intro _ _ _ _ h; exact absurd rfl h
  · show DAt sh tid _ Pc.pubMask; simp only [DAt]

theorem stepOK2_pubMask {hash : Nat → Nat} {sh : Sh} {tid : Tid} {t : Th} (alt : Nat) (hS : ShInv hash sh) (hT : ThInv hash sh tid t)
    (h2 : ShInv2 sh) (hT2 : ThInv2 hash sh tid t) (hpc : t.pc = .pubMask) :
    StepOK2 hash sh tid t (stepTh hash sh tid t alt).1 (stepTh hash sh tid t alt).2.1 := by
  have hstep : stepTh hash sh tid t alt =
      ({ sh with lvl := lvlAfterEnable t.grow }, t.finish t.resVal, .stmask (2 ^ lvlAfterEnable t.grow - 1)) := by
    unfold stepTh
    rw [hpc]
  rw [hstep]
  exact b2_step h2 rfl rfl rfl rfl rfl (fun _ => Iff.rfl) (thinv2_finish t t.resVal hT2.heldE)

/-! ### relB -/

theorem unlinked_local {sh : Sh} {tid : Tid} {t t' : Th} (h : Unlinked sh tid t) (hn : t'.n = t.n) : Unlinked sh tid t' := by
  obtain ⟨n, h1, h⟩ := h
  exact ⟨n, by rw [hn]; exact h1, h⟩

/-- `relB a` needs the kind of the operation at `a = xUpg` (erase by accessor): hypothesis `hkx`. -/
theorem stepOK2_relB {hash : Nat → Nat} {sh : Sh} {tid : Tid} {t : Th} (alt : Nat) (a : After) (hS : ShInv hash sh) (hT : ThInv hash sh tid t)
    (h2 : ShInv2 sh) (hT2 : ThInv2 hash sh tid t) (hpc : t.pc = .relB a) (hkx : a = .xUpg → t.op.k = .exclude) :
    StepOK2 hash sh tid t (stepTh hash sh tid t alt).1 (stepTh hash sh tid t alt).2.1 := by
  have hc := hT.c
  rw [hpc] at hc
  simp only [CAt] at hc
  obtain ⟨hs, hop⟩ := hc
  have hpci : t.pc ≠ .idle := by rw [hpc]; simp
  have hd := hT2.d
  rw [hpc] at hd
  have hex := hT2.ex
  rw [hpc] at hex
  have haccN := hT2.accNone
  rw [hpc] at haccN
  cases a with
  | fin =>
    have hstep : stepTh hash sh tid t alt =
        (if t.grow ≠ 0 then
          ((if t.w0 = true then sh.setBL t.b0 (sh.blk t.b0).clrW else sh.setBL t.b0 ((sh.blk t.b0).delR tid)),
            { t with stk := [], pc := .alloc }, if t.w0 = true then Lab.buw t.b0 else Lab.bur t.b0)
        else
          ((if t.w0 = true then sh.setBL t.b0 (sh.blk t.b0).clrW else sh.setBL t.b0 ((sh.blk t.b0).delR tid)),
            ({ t with stk := [] } : Th).finish t.resVal, if t.w0 = true then Lab.buw t.b0 else Lab.bur t.b0)) := by
      generalize t.b0 = b0 at hs
      generalize t.w0 = w0 at hs
      unfold stepTh
      rw [hpc]
      simp only
      rw [hs]
    rw [hstep]
    by_cases hgr : t.grow ≠ 0
    · rw [if_pos hgr]
      obtain ⟨_, _, _, _, hins⟩ := hT.g.2.1 hgr
      refine b2_relStep h2 _ _ ⟨hT2.heldE, hT2.nOk, ?_, ?_, ?_⟩
      · intro hk
        have hk' : t.op.k = .exclude := hk
        rw [hins] at hk'; cases hk'
      · intro _ _ _ h _; exact absurd rfl h
      · show DAt sh tid _ Pc.alloc; simp only [DAt]
    · rw [if_neg hgr]
      exact b2_relStep h2 _ _ (thinv2_finish _ _ hT2.heldE)
  | restart =>
    have hstep : stepTh hash sh tid t alt =
        ((if t.w0 = true then sh.setBL t.b0 (sh.blk t.b0).clrW else sh.setBL t.b0 ((sh.blk t.b0).delR tid)),
          { t with stk := [], pc := .peek, rs := false }, if t.w0 = true then Lab.buw t.b0 else Lab.bur t.b0) := by
      generalize t.b0 = b0 at hs
      generalize t.w0 = w0 at hs
      unfold stepTh
      rw [hpc]
      simp only
      rw [hs]
    rw [hstep]
    simp only [ExAt] at hex
    have c : Carry hash sh tid t := ⟨hT2.heldE, hT2.nOk, hex,
      (fun hn => haccN hn (by simp) (by simp) (by simp) (by simp))⟩
    exact b2_relStep h2 _ _ (thinv2_of_carry (carry_local c rfl rfl rfl rfl) (Or.inl rfl))
  | eLock =>
    have hstep : stepTh hash sh tid t alt =
        ((if t.w0 = true then sh.setBL t.b0 (sh.blk t.b0).clrW else sh.setBL t.b0 ((sh.blk t.b0).delR tid)),
          { t with stk := [], pc := .eLock }, if t.w0 = true then Lab.buw t.b0 else Lab.bur t.b0) := by
      generalize t.b0 = b0 at hs
      generalize t.w0 = w0 at hs
      unfold stepTh
      rw [hpc]
      simp only
      rw [hs]
    rw [hstep]
    simp only [ExAt] at hex
    simp only [DAt] at hd
    refine b2_relStep h2 _ _ ⟨hT2.heldE, hT2.nOk, ?_, ?_, ?_⟩
    · intro hk
      show ExAt hash _ Pc.eLock
      simp only [ExAt]
      exact hex hk
    · intro hn _ _ _ _
      exact haccN hn (by simp) (by simp) (by simp) (by simp)
    · show DAt sh tid _ Pc.eLock
      simp only [DAt]
      exact unlinked_local hd rfl
  | xUpg =>
    have hkex : t.op.k = .exclude := hkx rfl
    have hstep : stepTh hash sh tid t alt =
        (match t.acc with
        | some (_, true) =>
          ((if t.w0 = true then sh.setBL t.b0 (sh.blk t.b0).clrW else sh.setBL t.b0 ((sh.blk t.b0).delR tid)),
            { t with stk := [], pc := .eRel }, if t.w0 = true then Lab.buw t.b0 else Lab.bur t.b0)
        | _ =>
          ((if t.w0 = true then sh.setBL t.b0 (sh.blk t.b0).clrW else sh.setBL t.b0 ((sh.blk t.b0).delR tid)),
            { t with stk := [], pc := .xUpg }, if t.w0 = true then Lab.buw t.b0 else Lab.bur t.b0)) := by
      generalize t.b0 = b0 at hs
      generalize t.w0 = w0 at hs
      unfold stepTh
      rw [hpc]
      simp only
      rw [hs]
      rfl
    rw [hstep]
    simp only [ExAt] at hex
    simp only [DAt] at hd
    obtain ⟨n, w, hn, hacc, hhn⟩ := hex hkex
    have haccN' : needsSlot t.op = true → t.acc = none :=
      fun hns => haccN hns (by simp) (by simp) (by simp) (by simp)
    split
    · rename_i x hax
      rw [hacc] at hax
      cases hax
      refine b2_relStep h2 _ _ ⟨hT2.heldE, hT2.nOk, ?_, ?_, ?_⟩
      · intro _
        show ExAt hash _ Pc.eRel
        simp only [ExAt]
        exact ⟨n, hn, hacc⟩
      · intro hns _ _ _ _
        exact haccN' hns
      · show DAt sh tid _ Pc.eRel
        simp only [DAt]
        refine ⟨unlinked_local hd rfl, n, hn, ?_⟩
        have := (hT2.heldE n true hacc).1
        simpa [HoldsE] using this
    · rename_i hnot
      have hw : w = false := by
        cases w with
        | false => rfl
        | true => exact absurd hacc (hnot n)
      subst hw
      refine b2_relStep h2 _ _ ⟨hT2.heldE, hT2.nOk, ?_, ?_, ?_⟩
      · intro _
        show ExAt hash _ Pc.xUpg
        simp only [ExAt]
        exact ⟨n, hn, hacc, hhn⟩
      · intro hns _ _ _ _
        exact haccN' hns
      · show DAt sh tid _ Pc.xUpg
        simp only [DAt]
        exact unlinked_local hd rfl

/-! ### idle -/

/-- an operation that cannot start is dropped -/
theorem thinv2_drop {hash : Nat → Nat} {sh : Sh} {tid : Tid} {t : Th} (hT2 : ThInv2 hash sh tid t) (hpc : t.pc = .idle) :
    ThInv2 hash sh tid t.drop := by
  have hpc' : t.drop.pc = .idle := hpc
  refine ⟨hT2.heldE, hT2.nOk, ?_, ?_, ?_⟩
  · intro _; rw [hpc']; simp only [ExAt]
  · intro _ h; exact absurd hpc' h
  · rw [hpc']; simp only [DAt]

/-- the word of an element lock that `tid` holds is replaced by `l'` (release) -/
theorem b2_elkRelease {sh : Sh} {tid : Tid} {n : Node} {l' : Lock} (h2 : ShInv2 sh) (hwf : l'.Wf)
    (hW : ∀ t', t' ≠ tid → (l'.w = some t' ↔ (sh.elk n).w = some t'))
    (hR : ∀ t', t' ≠ tid → (t' ∈ l'.r ↔ t' ∈ (sh.elk n).r))
    (hheld : tid ∈ (sh.elk n).r ∨ (sh.elk n).w = some tid) :
    ShInv2 (sh.setEL n l') ∧ Frame2 sh tid (sh.setEL n l') := by
  refine ⟨⟨?_, h2.fresh, h2.linkedOk, h2.lin⟩, ⟨?_, ?_, ?_, ?_, ?_, ?_, ?_⟩⟩
  · intro j
    rw [setEL_elk]
    split
    · exact hwf
    · exact h2.ewf j
  · intro j t' hne
    rw [setEL_elk]
    split
    · rename_i hj; rw [hj]; exact hW t' hne
    · exact Iff.rfl
  · intro j t' hne
    rw [setEL_elk]
    split
    · rename_i hj; rw [hj]; exact hR t' hne
    · exact Iff.rfl
  · intro j hj
    rw [setEL_elk] at hj
    split at hj
    · rename_i hjn
      rw [hjn]
      exact Or.inr (Or.inr hheld)
    · exact absurd rfl hj
  · intro j hj; exact absurd rfl hj
  · intro j hj; exact absurd rfl hj
  · intro j hj; exact Or.inl hj
  · exact Nat.le_refl _

theorem stepOK2_idle {hash : Nat → Nat} {sh : Sh} {tid : Tid} {t : Th} (alt : Nat) (hS : ShInv hash sh) (hT : ThInv hash sh tid t)
    (h2 : ShInv2 sh) (hT2 : ThInv2 hash sh tid t) (hpc : t.pc = .idle) :
    StepOK2 hash sh tid t (stepTh hash sh tid t alt).1 (stepTh hash sh tid t alt).2.1 := by
  have hstep : stepTh hash sh tid t alt =
      (match t.ops with
      | [] => (sh, t, .none)
      | op :: _ =>
        match op.k with
        | .release =>
            match t.acc with
            | none => (sh, t.drop, .none)
            | some (n, w) =>
                if w then (sh.setEL n (sh.elk n).clrW, ({ t with acc := none, ret := true } : Th).finish, .euw n.id)
                else (sh.setEL n ((sh.elk n).delR tid), ({ t with acc := none, ret := true } : Th).finish, .eur n.id)
        | .exclude =>
            match t.acc with
            | none => (sh, t.drop, .none)
            | some (n, _) => doRdMask sh { t with h := hash n.key, n := some n, ret := false, grow := 0, rs := false }
        | _ =>
            if needsSlot op && t.acc.isSome then (sh, t.drop, .none)
            else doRdMask sh { t with h := hash op.key, n := none, ret := false, grow := 0, rs := false }) := by
    unfold stepTh
    rw [hpc]
    rfl
  rw [hstep]
  have hdrop : StepOK2 hash sh tid t sh t.drop := ⟨h2, thinv2_drop hT2 hpc, frame2_refl _ _⟩
  split
  · exact ⟨h2, hT2, frame2_refl _ _⟩
  · rename_i op rest hops
    have hop : t.op = op := by unfold Th.op; rw [hops]; rfl
    split
    · -- release
      split
      · exact hdrop
      · rename_i n w hacc
        obtain ⟨hhold, _, _⟩ := hT2.heldE n w hacc
        have hfin : ∀ sh', ThInv2 hash sh' tid (({ t with acc := none, ret := true } : Th).finish) :=
          fun sh' => thinv2_finish _ _ (fun _ _ h => by cases h)
        cases w with
        | true =>
          have hw : (sh.elk n).w = some tid := by simpa [HoldsE] using hhold
          simp only [if_true]
          obtain ⟨r1, r2⟩ := b2_elkRelease (l' := (sh.elk n).clrW) h2 (Lock.wf_clrW _)
            (fun t' hne => by
              rw [Lock.clrW_w, hw]
              constructor
              · intro h; cases h
              · intro h; exact absurd (Option.some.inj h).symm hne)
            (fun t' _ => Iff.rfl) (Or.inr hw)
          exact ⟨r1, hfin _, r2⟩
        | false =>
          have hr : tid ∈ (sh.elk n).r := by simpa [HoldsE] using hhold
          simp only [Bool.false_eq_true, if_false]
          obtain ⟨r1, r2⟩ := b2_elkRelease (l' := (sh.elk n).delR tid) h2 (Lock.wf_delR _ (h2.ewf n))
            (fun t' _ => Iff.rfl)
            (fun t' hne => by rw [Lock.delR_r]; exact List.mem_erase_of_ne hne) (Or.inl hr)
          exact ⟨r1, hfin _, r2⟩
    · -- exclude
      rename_i hk
      split
      · exact hdrop
      · rename_i n w hacc
        unfold doRdMask
        have c : Carry hash sh tid { t with h := hash n.key, n := some n, ret := false, grow := 0, rs := false, m := sh.lvl, pc := .peek, stk := [] } := by
          refine ⟨hT2.heldE, ?_, ?_, ?_⟩
          · intro n' hn'
            have : some n = some n' := hn'
            cases this
            exact (hT2.heldE n w hacc).2.2
          · intro _; exact ⟨n, w, rfl, hacc, rfl⟩
          · intro hns
            have hns' : needsSlot t.op = true := hns
            rw [hop] at hns'
            unfold needsSlot at hns'
            rw [hk] at hns'
            cases hns'
        exact ⟨h2, thinv2_of_carry c (Or.inl rfl), frame2_refl _ _⟩
    · rename_i hnrel hnex
      split
      · exact hdrop
      · rename_i hcond
        unfold doRdMask
        have c : Carry hash sh tid { t with h := hash op.key, n := none, ret := false, grow := 0, rs := false, m := sh.lvl, pc := .peek, stk := [] } := by
          refine ⟨hT2.heldE, ?_, ?_, ?_⟩
          · intro n' hn'; cases hn'
          · intro hk
            have hk' : t.op.k = .exclude := hk
            rw [hop] at hk'
            exact absurd hk' hnex
          · intro hns
            have hns' : needsSlot t.op = true := hns
            rw [hop] at hns'
            show t.acc = none
            cases hacc : t.acc with
            | none => rfl
            | some x => exfalso; apply hcond; simp [hns', hacc]
        exact ⟨h2, thinv2_of_carry c (Or.inl rfl), frame2_refl _ _⟩

end TbbVerif.C10
