/-
C10: the core inductive invariant of `HMap` (definitions; preservation proofs in the sibling files).

`ShInv`  shared state: lock words well-formed (C08's specification), bucket structure (embedded buckets are chains,
         nothing beyond the mask is touched, chains closed under `parentOf`), key_home, growth bookkeeping.
`ThInv`  per thread: the frames on its stack are really held, the rehash stack is a chain of pending buckets linked by
         `parentOf` down to the operation's bucket, and per-pc facts (what is known about the searched chain, where the
         operation's bucket sits on the hash's path, who elected the growth).
-/
import TbbVerif.Model.C10
import TbbVerif.Proofs.C10.Arith

namespace TbbVerif.C10

/-- C08's specification of a reader-writer lock: a writer excludes readers -/
def Lock.Wf (l : Lock) : Prop := ∀ t, l.w = some t → l.r = []

def HoldsB (sh : Sh) (tid : Tid) (f : Nat × Bool) : Prop :=
  if f.2 = true then (sh.blk f.1).w = some tid else tid ∈ (sh.blk f.1).r

def IsLinked (sh : Sh) (n : Node) : Prop := ∃ b, n ∈ sh.chainOf b

/-- every bucket of `h`'s path above `b` is not (yet) a chain -/
def AboveNC (sh : Sh) (h b : Nat) : Prop := ∀ l, b < pb h l → (sh.bkt (pb h l)).isChain = false

/-- `b` is on the path of `h` below the mask -/
def OnPath (sh : Sh) (h b : Nat) : Prop := ∃ l, l ≤ sh.lvl ∧ b = pb h l

/-- `b` is where a key with hash `h` lives: on `h`'s path, a chain, nothing rehashed above it -/
def HomeIs (sh : Sh) (h b : Nat) : Prop := OnPath sh h b ∧ (sh.bkt b).isChain = true ∧ AboveNC sh h b

/-- Shared-state invariant. -/
structure ShInv (hash : Nat → Nat) (sh : Sh) : Prop where
  lvl_pos : 1 ≤ sh.lvl
  emb : ∀ b, b < 2 → (sh.bkt b).isChain = true
  top : ∀ b, 2 ^ sh.lvl ≤ b → sh.bkt b = .flagged
  closed : ∀ b, 2 ≤ b → (sh.bkt b).isChain = true → (sh.bkt (parentOf b)).isChain = true
  home : ∀ b n, n ∈ sh.chainOf b → HomeIs sh (hash n.key) b
  nodup : ∀ b, ((sh.chainOf b).map (·.key)).Nodup
  bwf : ∀ b, (sh.blk b).Wf
  pend : ∀ b t, sh.bkt b = .pending t → (sh.blk b).w = some t
  seg_lo : ∀ k, 1 ≤ k → k < sh.lvl → sh.seg k ≠ .none

/-- how a frame hangs below the rest of the rehash stack: the bottom frame is the operation's bucket, any other is the
parent of the frame acquired before it -/
def LinkedTo (h m c : Nat) : List (Nat × Bool) → Prop
  | [] => c = pb h m
  | (d, _) :: _ => c = parentOf d

/-- the buckets a thread is in the middle of rehashing: write-locked, marked (`pending`), innermost first -/
def RhStack (sh : Sh) (tid : Tid) (h m : Nat) : List (Nat × Bool) → Prop
  | [] => True
  | (c, w) :: rest => w = true ∧ sh.bkt c = .pending tid ∧ 2 ≤ c ∧ LinkedTo h m c rest ∧ RhStack sh tid h m rest

/-- search result known under the bucket lock -/
def NotFound (sh : Sh) (t : Th) (b : Nat) : Prop :=
  if t.op.k = .exclude then ∀ n, t.n = some n → n ∉ sh.chainOf b
  else findKey (sh.chainOf b) t.op.key = none

def Found (sh : Sh) (t : Th) (b : Nat) : Prop :=
  ∃ n, t.n = some n ∧ n ∈ sh.chainOf b ∧ (t.op.k ≠ .exclude → n.key = t.op.key)

/-- the single frame of an operation: a chain on the hash's path -/
def OpFrame (sh : Sh) (t : Th) (b : Nat) : Prop := (sh.bkt b).isChain = true ∧ OnPath sh t.h b

/-- innermost frame and the one below it -/
def Th.b0 (t : Th) : Nat := match t.stk with | (b, _) :: _ => b | [] => 0
def Th.w0 (t : Th) : Bool := match t.stk with | (_, w) :: _ => w | [] => false
def Th.b1 (t : Th) : Nat := match t.stk with | _ :: (b, _) :: _ => b | _ => 0

/-- facts at the pcs of check_mask_race -/
def ChkFacts (sh : Sh) (t : Th) : Prop :=
  (t.rs = false → NotFound sh t t.b0) ∧ (t.rs = true → t.w0 = true ∧ t.op.k = .erase) ∧ (t.op.k = .ins → t.w0 = true)

/-- Per-pc facts (stack shape and what is known about the shared state). -/
def CAt (sh : Sh) (tid : Tid) (t : Th) : Pc → Prop
  | .idle | .rdMask | .alloc | .pubMask | .eLock | .eRel | .free | .xUpg | .xRelock => t.stk = []
  | .peek | .lockTry => RhStack sh tid t.h t.m t.stk
  | .lockBlk => RhStack sh tid t.h t.m t.stk ∧ (sh.bkt t.tgt).isFlagged = false
  | .mark => t.stk = (t.b0, true) :: t.stk.tail ∧ sh.bkt t.b0 = .flagged ∧ 2 ≤ t.b0 ∧ LinkedTo t.h t.m t.b0 t.stk.tail ∧
      RhStack sh tid t.h t.m t.stk.tail
  | .rhUpg => t.stk = (t.b0, false) :: t.stk.tail ∧ t.stk.tail ≠ [] ∧ (sh.bkt t.b0).isChain = true ∧
      LinkedTo t.h t.m t.b0 t.stk.tail ∧ RhStack sh tid t.h t.m t.stk.tail
  | .rhRelock => t.stk ≠ [] ∧ RhStack sh tid t.h t.m t.stk ∧ (sh.bkt t.tgt).isChain = true
  | .rhRel => t.stk = (t.b0, t.w0) :: (t.b1, true) :: t.stk.drop 2 ∧ (sh.bkt t.b0).isChain = true ∧ (sh.bkt t.b1).isChain = true ∧
      2 ≤ t.b1 ∧ t.b0 = parentOf t.b1 ∧ LinkedTo t.h t.m t.b1 (t.stk.drop 2) ∧ RhStack sh tid t.h t.m (t.stk.drop 2)
  | .upg => t.stk = [(t.b0, false)] ∧ OpFrame sh t t.b0 ∧ t.b0 = pb t.h t.m ∧ NotFound sh t t.b0 ∧ t.op.k = .ins
  | .relock => t.stk = [] ∧ (sh.bkt (pb t.h t.m)).isChain = true ∧ t.op.k = .ins
  | .eRelock => t.stk = [] ∧ (sh.bkt (pb t.h t.m)).isChain = true ∧ t.op.k = .erase
  | .chk1 => t.stk = [(t.b0, t.w0)] ∧ OpFrame sh t t.b0 ∧ (t.b0 = pb t.h t.m ∨ (t.w0 = true ∧ AboveNC sh t.h t.b0)) ∧ ChkFacts sh t
  | .chk2 => t.stk = [(t.b0, t.w0)] ∧ OpFrame sh t t.b0 ∧ (t.b0 = pb t.h t.mo ∨ (t.w0 = true ∧ AboveNC sh t.h t.b0)) ∧ t.mo < t.m ∧
      pb t.h t.mo ≠ pb t.h t.m ∧ ChkFacts sh t
  | .link => t.stk = [(t.b0, true)] ∧ OpFrame sh t t.b0 ∧ NotFound sh t t.b0 ∧ AboveNC sh t.h t.b0 ∧ t.op.k = .ins
  | .unlink => t.stk = [(t.b0, true)] ∧ OpFrame sh t t.b0 ∧ Found sh t t.b0
  | .dng => t.stk = [(t.b0, true)] ∧ OpFrame sh t t.b0 ∧ Found sh t t.b0 ∧ t.op.k = .ins
  | .elect1 | .elect2 => t.stk = [(t.b0, true)] ∧ OpFrame sh t t.b0 ∧ Found sh t t.b0 ∧ t.ret = true ∧ t.op.k = .ins
  | .elemTry => t.stk = [(t.b0, t.w0)] ∧ OpFrame sh t t.b0 ∧ Found sh t t.b0
  | .relB _ | .xRelAcc => t.stk = [(t.b0, t.w0)] ∧ OpFrame sh t t.b0
  | .eUpg => t.stk = [(t.b0, false)] ∧ OpFrame sh t t.b0 ∧ t.b0 = pb t.h t.m ∧ Found sh t t.b0 ∧ t.op.k = .erase

/-- growth election: the thread that won `my_table[k]` is the only one, and `k` is the current level -/
def GrowAt (sh : Sh) (t : Th) : Prop :=
  t.m ≤ sh.lvl ∧
  (t.grow ≠ 0 → t.grow = sh.lvl ∧ sh.seg sh.lvl ≠ .none ∧ (t.pc = .elemTry ∨ t.pc = .relB .fin ∨ t.pc = .alloc ∨ t.pc = .pubMask) ∧
    t.ret = true ∧ t.op.k = .ins) ∧
  (t.pc = .alloc → t.grow ≠ 0) ∧
  (t.pc = .pubMask → t.grow ≠ 0 ∧ ∀ k, 1 ≤ k → k < lvlAfterEnable t.grow → sh.seg k ≠ .none)

/-- Per-thread invariant. -/
structure ThInv (hash : Nat → Nat) (sh : Sh) (tid : Tid) (t : Th) : Prop where
  heldB : ∀ f ∈ t.stk, HoldsB sh tid f
  hOk : t.pc ≠ .idle → t.op.k ≠ .exclude → t.h = hash t.op.key
  rsOk : t.rs = true → t.pc = .chk1 ∨ t.pc = .chk2 ∨ t.pc = .relB .restart
  c : CAt sh tid t t.pc
  g : GrowAt sh t

/-- The core invariant. -/
structure Inv (hash : Nat → Nat) (st : St) : Prop where
  sh : ShInv hash st.sh
  th : ∀ tid t, st.ths[tid]? = some t → ThInv hash st.sh tid t
  grow1 : ∀ (i j : Nat) (ti tj : Th), st.ths[i]? = some ti → st.ths[j]? = some tj → i ≠ j → ti.grow ≠ 0 → tj.grow = 0

end TbbVerif.C10
