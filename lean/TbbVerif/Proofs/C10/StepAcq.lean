/- C10: steps of bucket acquisition and lazy rehash (peek, lockTry, mark, lockBlk, rhUpg, rhRelock, rhRel). -/
import TbbVerif.Proofs.C10.AfterAcq

namespace TbbVerif.C10

theorem stepOK_refl {hash : Nat → Nat} {sh : Sh} {tid : Tid} {t : Th} (hS : ShInv hash sh) (hT : ThInv hash sh tid t) :
    StepOK hash sh tid t sh t :=
  ⟨hS, hT, frame_refl sh tid, fun h => absurd rfl h, fun h => Or.inl h⟩

theorem grow_zero_of_pc {sh : Sh} {t : Th} (hg : GrowAt sh t) (h1 : t.pc ≠ .elemTry) (h2 : t.pc ≠ .relB .fin) (h3 : t.pc ≠ .alloc)
    (h4 : t.pc ≠ .pubMask) : t.grow = 0 := by
  apply Classical.byContradiction
  intro hne
  rcases (hg.2.1 hne).2.2.1 with h | h | h | h
  · exact h1 h
  · exact h2 h
  · exact h3 h
  · exact h4 h

theorem rs_false_of_pc {hash : Nat → Nat} {sh : Sh} {tid : Tid} {t : Th} (hT : ThInv hash sh tid t) (h1 : t.pc ≠ .chk1) (h2 : t.pc ≠ .chk2)
    (h3 : t.pc ≠ .relB .restart) : t.rs = false := by
  cases hr : t.rs with
  | false => rfl
  | true =>
    rcases hT.rsOk hr with h | h | h
    · exact absurd h h1
    · exact absurd h h2
    · exact absurd h h3

theorem linkedTo_tgt (t : Th) : LinkedTo t.h t.m t.tgt t.stk := by
  unfold Th.tgt LinkedTo
  split <;> simp_all

theorem rhStack_pending {sh : Sh} {tid : Tid} {h m : Nat} : ∀ (s : List (Nat × Bool)), RhStack sh tid h m s →
    ∀ f ∈ s, sh.bkt f.1 = .pending tid ∧ f.2 = true := by
  intro s
  induction s with
  | nil => intro _ f hf; cases hf
  | cons x rest ih =>
    obtain ⟨c, w⟩ := x
    intro hr f hf
    obtain ⟨h1, h2, _, _, h5⟩ := hr
    rcases List.mem_cons.1 hf with rfl | hf
    · exact ⟨h2, h1⟩
    · exact ih h5 f hf

/-- a bucket whose flag is cleared and whose lock nobody write-holds is a chain -/
theorem chain_of_unflagged {hash : Nat → Nat} {sh : Sh} (hS : ShInv hash sh) {b : Nat} (hf : (sh.bkt b).isFlagged = false)
    (hw : (sh.blk b).w = none) : (sh.bkt b).isChain = true := by
  cases hb : sh.bkt b with
  | flagged => rw [hb] at hf; cases hf
  | pending o => have := hS.pend b o hb; rw [hw] at this; cases this
  | chain c => rfl

theorem op_eq_of_ops {t t2 : Th} (h : t2.ops = t.ops) : t2.op = t.op := by
  unfold Th.op; rw [h]

/-- Acquisition of bucket `b` completes (the lock word of some bucket has just been changed into `sh1`) and the code under
the lock runs. -/
theorem stepOK_acquire {hash : Nat → Nat} {sh : Sh} {tid : Tid} {t : Th} (sh1 : Sh) (b : Nat) (w : Bool) (rest : List (Nat × Bool))
    (hS1 : ShInv hash sh1) (hT : ThInv hash sh tid t)
    (hL : LockFrame sh.blk sh1.blk tid) (hbk : sh1.bkt = sh.bkt) (hlv : sh1.lvl = sh.lvl) (hsg : sh1.seg = sh.seg)
    (hheld1 : ∀ f ∈ (b, w) :: rest, HoldsB sh1 tid f)
    (hch : (sh.bkt b).isChain = true) (hl : LinkedTo t.h t.m b rest) (hr : RhStack sh tid t.h t.m rest)
    (hx : rest = [] → t.op.k = .exclude → w = true)
    (hpc : t.pc ≠ .idle) (hg0 : t.grow = 0) (hrs0 : t.rs = false) :
    StepOK hash sh tid t (afterAcq hash sh1 tid { t with stk := (b, w) :: rest }).1
      (afterAcq hash sh1 tid { t with stk := (b, w) :: rest }).2 := by
  have hm : t.m ≤ sh1.lvl := by rw [hlv]; exact hT.g.1
  have hch1 : (sh1.bkt b).isChain = true := by rw [hbk]; exact hch
  have hr1 : RhStack sh1 tid t.h t.m rest := rhStack_congr rest (fun f _ => by rw [hbk]) hr
  have hA : AcqOK hash sh1 tid { t with stk := (b, w) :: rest } (afterAcq hash sh1 tid { t with stk := (b, w) :: rest }).1
      (afterAcq hash sh1 tid { t with stk := (b, w) :: rest }).2 := by
    cases rest with
    | nil => exact afterAcq_top hS1 rfl hch1 hl hm (hx rfl) hrs0
    | cons f r =>
      obtain ⟨c, wc⟩ := f
      exact afterAcq_rehash hS1 rfl hheld1 hch1 hl hr1 hm
  generalize (afterAcq hash sh1 tid { t with stk := (b, w) :: rest }).1 = sh2 at hA
  generalize (afterAcq hash sh1 tid { t with stk := (b, w) :: rest }).2 = t2 at hA
  have hop : t2.op = t.op := op_eq_of_ops hA.loc.ops
  refine ⟨hA.shinv, ⟨?_, ?_, ?_, hA.c, ?_⟩, ?_, ?_, ?_⟩
  · intro f hf
    rw [hA.loc.stk] at hf
    have := hheld1 f hf
    unfold HoldsB at *
    rw [hA.blk]; exact this
  · intro _ hk
    rw [hA.loc.h, hop]
    rw [hop] at hk
    exact hT.hOk hpc hk
  · intro h; rw [hA.loc.rs] at h; rw [hrs0] at h; cases h
  · refine ⟨?_, ?_, ?_, ?_⟩
    · rw [hA.loc.m, hA.lvl]; exact hm
    · intro h; rw [hA.loc.grow] at h; exact absurd hg0 h
    · intro h; exact absurd h hA.pc.1
    · intro h; exact absurd h hA.pc.2
  · apply Frame.mk'
    · rw [hA.blk]; exact hL
    · rw [hA.blk, ← hbk]; exact hA.bktF
    · rw [hA.lvl, hlv]; exact Nat.le_refl _
    · intro k hk; rw [hA.seg, hsg]; exact hk
  · intro h; rw [hA.lvl, hlv] at h; exact absurd rfl h
  · intro h; rw [hA.loc.grow] at h; exact absurd hg0 h

theorem thinv_same_sh {hash : Nat → Nat} {sh : Sh} {tid : Tid} {t t' : Th} (hT : ThInv hash sh tid t)
    (hstk : t'.stk = t.stk) (hops : t'.ops = t.ops) (hh : t'.h = t.h) (hm : t'.m = t.m) (hgr : t'.grow = t.grow) (hrs : t'.rs = t.rs)
    (hpc : t.pc ≠ .idle) (hrs0 : t.rs = false) (hg0 : t.grow = 0) (hpc' : t'.pc ≠ .alloc ∧ t'.pc ≠ .pubMask)
    (hc : CAt sh tid t' t'.pc) : ThInv hash sh tid t' := by
  refine ⟨by rw [hstk]; exact hT.heldB, ?_, ?_, hc, ?_⟩
  · intro _ hk
    rw [hh, op_eq_of_ops hops]
    rw [op_eq_of_ops hops] at hk
    exact hT.hOk hpc hk
  · intro h; rw [hrs, hrs0] at h; cases h
  · refine ⟨by rw [hm]; exact hT.g.1, ?_, fun h => absurd h hpc'.1, fun h => absurd h hpc'.2⟩
    intro h; rw [hgr] at h; exact absurd hg0 h

/-! ### the individual pcs -/

theorem stepOK_peek {hash : Nat → Nat} {sh : Sh} {tid : Tid} {t : Th} (alt : Nat) (hS : ShInv hash sh) (hT : ThInv hash sh tid t)
    (hpc : t.pc = .peek) : StepOK hash sh tid t (stepTh hash sh tid t alt).1 (stepTh hash sh tid t alt).2.1 := by
  have hc := hT.c
  rw [hpc] at hc
  simp only [CAt] at hc
  have hg0 := grow_zero_of_pc hT.g (by rw [hpc]; simp) (by rw [hpc]; simp) (by rw [hpc]; simp) (by rw [hpc]; simp)
  have hrs0 := rs_false_of_pc hT (by rw [hpc]; simp) (by rw [hpc]; simp) (by rw [hpc]; simp)
  unfold stepTh
  rw [hpc]
  simp only
  refine ⟨hS, ?_, frame_refl sh tid, fun h => absurd rfl h, fun h => Or.inl h⟩
  refine thinv_same_sh hT rfl rfl rfl rfl rfl rfl (by rw [hpc]; simp) hrs0 hg0 ?_ ?_
  · cases (sh.bkt t.tgt).isFlagged <;> simp
  · cases hf : (sh.bkt t.tgt).isFlagged
    · simp only [CAt, Bool.false_eq_true, if_false]
      exact ⟨hc, hf⟩
    · simp only [CAt, if_true]
      exact hc

/-- facts shared by the pcs that are about to take the lock of `t.tgt` -/
theorem acq_common {hash : Nat → Nat} {sh : Sh} {tid : Tid} {t : Th} (hT : ThInv hash sh tid t) (hr : RhStack sh tid t.h t.m t.stk)
    (hnp : ∀ o, sh.bkt t.tgt ≠ .pending o) : ∀ f ∈ t.stk, f.1 ≠ t.tgt := by
  intro f hf heq
  have := (rhStack_pending t.stk hr f hf).1
  rw [heq] at this
  exact hnp tid this

theorem holdsB_after_set {sh : Sh} {tid : Tid} {b : Nat} {l' : Lock} {w : Bool} {rest : List (Nat × Bool)}
    (hnew : if w = true then l'.w = some tid else tid ∈ l'.r) (hold : ∀ f ∈ rest, HoldsB sh tid f) (hne : ∀ f ∈ rest, f.1 ≠ b) :
    ∀ f ∈ (b, w) :: rest, HoldsB (sh.setBL b l') tid f := by
  intro f hf
  rcases List.mem_cons.1 hf with rfl | hf
  · unfold HoldsB; simp only [setBL_blk, if_true]; exact hnew
  · exact holdsB_setBL_other (hne f hf) (hold f hf)

theorem stepOK_lockTry {hash : Nat → Nat} {sh : Sh} {tid : Tid} {t : Th} (alt : Nat) (hS : ShInv hash sh) (hT : ThInv hash sh tid t)
    (hpc : t.pc = .lockTry) : StepOK hash sh tid t (stepTh hash sh tid t alt).1 (stepTh hash sh tid t alt).2.1 := by
  have hc := hT.c
  rw [hpc] at hc
  simp only [CAt] at hc
  have hg0 := grow_zero_of_pc hT.g (by rw [hpc]; simp) (by rw [hpc]; simp) (by rw [hpc]; simp) (by rw [hpc]; simp)
  have hrs0 := rs_false_of_pc hT (by rw [hpc]; simp) (by rw [hpc]; simp) (by rw [hpc]; simp)
  have hpci : t.pc ≠ .idle := by rw [hpc]; simp
  have hstep : stepTh hash sh tid t alt =
      (if (sh.bkt t.tgt).isFlagged = true then
        if (sh.blk t.tgt).isFree = true then
          (sh.setBL t.tgt ((sh.blk t.tgt).setW tid), { t with stk := (t.tgt, true) :: t.stk, pc := .mark }, .bl t.tgt true)
        else (sh, t, .blocked)
      else if alt = 0 then
        if (sh.blk t.tgt).isFree = true then
          ((afterAcq hash (sh.setBL t.tgt ((sh.blk t.tgt).setW tid)) tid { t with stk := (t.tgt, true) :: t.stk }).1,
           (afterAcq hash (sh.setBL t.tgt ((sh.blk t.tgt).setW tid)) tid { t with stk := (t.tgt, true) :: t.stk }).2, .bl t.tgt true)
        else (sh, t, .blocked)
      else (sh, { t with pc := .lockBlk }, .none)) := by
    unfold stepTh
    rw [hpc]
  rw [hstep]
  split
  · -- still flagged
    rename_i hfl
    have hflag : sh.bkt t.tgt = .flagged := (isFlagged_iff _).1 hfl
    split
    · rename_i hfree
      obtain ⟨hw, hrr⟩ := (Lock.isFree_iff _).1 hfree
      have hne : ∀ f ∈ t.stk, f.1 ≠ t.tgt := acq_common hT hc (fun o h => by rw [hflag] at h; cases h)
      have hS1 : ShInv hash (sh.setBL t.tgt ((sh.blk t.tgt).setW tid)) :=
        shinv_setBL hS _ _ (Lock.wf_setW _ _) (fun o h => by rw [hflag] at h; cases h)
      refine ⟨hS1, ?_, Frame.mk' (lf_setW_free _ hw hrr) (BktFrame.refl _ _ _) (Nat.le_refl _) (fun _ h => h),
        fun h => absurd rfl h, fun h => absurd hg0 h⟩
      refine ⟨holdsB_after_set (by simp) hT.heldB hne, fun _ hk => hT.hOk hpci hk, (fun h => by rw [hrs0] at h; cases h), ?_,
        ⟨hT.g.1, fun h => absurd hg0 h, by simp, by simp⟩⟩
      simp only [CAt]
      have e := b0_cons ({ t with stk := (t.tgt, true) :: t.stk, pc := Pc.mark }) (b := t.tgt) (w := true) (rest := t.stk) rfl
      rw [e.1]
      refine ⟨rfl, hflag, ?_, linkedTo_tgt t, rhStack_congr (sh := sh) t.stk (fun _ _ => rfl) hc⟩
      apply Classical.byContradiction
      intro h2
      have := hS.emb t.tgt (by omega)
      rw [hflag] at this; cases this
    · exact stepOK_refl hS hT
  · rename_i hfl
    have hfl' : (sh.bkt t.tgt).isFlagged = false := by simpa using hfl
    split
    · split
      · rename_i hfree
        obtain ⟨hw, hrr⟩ := (Lock.isFree_iff _).1 hfree
        have hch := chain_of_unflagged hS hfl' hw
        have hne : ∀ f ∈ t.stk, f.1 ≠ t.tgt :=
          acq_common hT hc (fun o h => by rw [h] at hch; cases hch)
        have hS1 : ShInv hash (sh.setBL t.tgt ((sh.blk t.tgt).setW tid)) :=
          shinv_setBL hS _ _ (Lock.wf_setW _ _) (fun o h => by rw [h] at hch; cases hch)
        exact stepOK_acquire _ t.tgt true t.stk hS1 hT (lf_setW_free _ hw hrr) rfl rfl rfl
          (holdsB_after_set (by simp) hT.heldB hne) hch (linkedTo_tgt t) hc (fun _ _ => rfl) hpci hg0 hrs0
      · exact stepOK_refl hS hT
    · -- the try failed: blocking acquisition next
      refine ⟨hS, ?_, frame_refl sh tid, fun h => absurd rfl h, fun h => Or.inl h⟩
      refine thinv_same_sh hT rfl rfl rfl rfl rfl rfl hpci hrs0 hg0 ⟨by simp, by simp⟩ ?_
      simp only [CAt]
      exact ⟨hc, hfl'⟩

theorem stepOK_mark {hash : Nat → Nat} {sh : Sh} {tid : Tid} {t : Th} (alt : Nat) (hS : ShInv hash sh) (hT : ThInv hash sh tid t)
    (hpc : t.pc = .mark) : StepOK hash sh tid t (stepTh hash sh tid t alt).1 (stepTh hash sh tid t alt).2.1 := by
  have hc := hT.c
  rw [hpc] at hc
  simp only [CAt] at hc
  obtain ⟨hs, hflag, hb2, hlink, hrest⟩ := hc
  have hg0 := grow_zero_of_pc hT.g (by rw [hpc]; simp) (by rw [hpc]; simp) (by rw [hpc]; simp) (by rw [hpc]; simp)
  have hrs0 := rs_false_of_pc hT (by rw [hpc]; simp) (by rw [hpc]; simp) (by rw [hpc]; simp)
  have hpci : t.pc ≠ .idle := by rw [hpc]; simp
  have hW : (sh.blk t.b0).w = some tid := by
    have := hT.heldB (t.b0, true) (by rw [hs]; exact List.mem_cons_self ..)
    simpa [HoldsB] using this
  have hbounds := rhStack_bounds t.stk.tail t.b0 hlink hrest
  have hne : ∀ f ∈ t.stk.tail, f.1 ≠ t.b0 := fun f hf => by have := hbounds.2 f hf; omega
  have hstep : stepTh hash sh tid t alt = (sh.setB t.b0 (.pending tid), { t with pc := .peek }, .stl t.b0) := by
    unfold stepTh
    rw [hpc]
    simp only
    rw [hs]
  rw [hstep]
  have hS1 : ShInv hash (sh.setB t.b0 (.pending tid)) := by
    refine ⟨hS.lvl_pos, ?_, ?_, ?_, ?_, ?_, hS.bwf, ?_, hS.seg_lo⟩
    · intro x hx; simp only [setB_bkt]; rw [if_neg (by omega)]; exact hS.emb x hx
    · intro x hx
      simp only [setB_bkt, setB_lvl] at hx ⊢
      split
      · rename_i hxb
        have := hS.top x hx
        rw [hxb] at hx
        have h1 := hbounds.1
        have h2 := pb_lt t.h t.m
        have h3 : 2 ^ t.m ≤ 2 ^ sh.lvl := Nat.pow_le_pow_right (by omega) hT.g.1
        omega
      · exact hS.top x hx
    · intro x hx2 hx
      simp only [setB_bkt] at hx ⊢
      split at hx
      · cases hx
      · have := hS.closed x hx2 hx
        split
        · rename_i hp; rw [hp, hflag] at this; cases this
        · exact this
    · intro x n hn
      have hnx : n ∈ sh.chainOf x := by
        rw [chainOf_setB] at hn
        split at hn
        · cases hn
        · exact hn
      obtain ⟨h1, h2, h3⟩ := hS.home x n hnx
      have hxb : x ≠ t.b0 := by intro h; rw [h, hflag] at h2; cases h2
      refine ⟨h1, by simp only [setB_bkt, if_neg hxb]; exact h2, ?_⟩
      intro l hl
      simp only [setB_bkt]
      split
      · rfl
      · exact h3 l hl
    · intro x
      rw [chainOf_setB]
      split
      · simp
      · exact hS.nodup x
    · intro x o hx
      simp only [setB_bkt, setB_blk] at hx ⊢
      split at hx
      · rename_i hxb; cases hx; rw [hxb]; exact hW
      · exact hS.pend x o hx
  refine ⟨hS1, ?_, ?_, fun h => absurd rfl h, fun h => absurd hg0 h⟩
  · refine ⟨?_, fun _ hk => hT.hOk hpci hk, (fun h => by rw [hrs0] at h; cases h), ?_, ⟨hT.g.1, fun h => absurd hg0 h, by simp, by simp⟩⟩
    · intro f hf
      exact hT.heldB f hf
    · simp only [CAt]
      show RhStack (sh.setB t.b0 (.pending tid)) tid t.h t.m t.stk
      rw [hs]
      refine ⟨rfl, by simp, hb2, hlink, ?_⟩
      apply rhStack_congr _ _ hrest
      intro f hf
      simp only [setB_bkt, if_neg (hne f hf)]
  · refine Frame.mk' (LockFrame.refl _ _) ⟨?_, ?_, ?_, ?_⟩ (Nat.le_refl _) (fun _ h => h)
    · intro x hx
      simp only [setB_bkt] at hx
      split at hx
      · rename_i hxb; rw [hxb]; exact hW
      · exact absurd rfl hx
    · intro x hx
      simp only [setB_bkt]
      split
      · rename_i hxb; rw [hxb, hflag] at hx; cases hx
      · exact hx
    · intro x hx
      simp only [setB_bkt]
      split
      · rfl
      · exact hx
    · intro x h1 h2
      simp only [setB_bkt] at h2
      split at h2
      · cases h2
      · rw [h1] at h2; cases h2

end TbbVerif.C10
