/- C10: the move of `rehash_bucket` preserves the shared invariant (key_home in particular). -/
import TbbVerif.Proofs.C10.LockOps

namespace TbbVerif.C10

/-- Splitting parent `b` into itself and its child `c`: `b` keeps exactly the nodes whose hash does not have `c` on its
path, `c` (not a chain before) receives the others. -/
theorem shinv_split {hash : Nat → Nat} {sh sh2 : Sh} {b c : Nat} {stay mv : List Node}
    (hS : ShInv hash sh) (hc2 : 2 ≤ c) (hbc : b = parentOf c) (hclt : c < 2 ^ sh.lvl)
    (hchb : (sh.bkt b).isChain = true) (hnc : (sh.bkt c).isChain = false)
    (hblk : sh2.blk = sh.blk) (hlvl : sh2.lvl = sh.lvl) (hseg : sh2.seg = sh.seg)
    (hb : sh2.bkt b = .chain stay) (hc : sh2.bkt c = .chain mv)
    (hother : ∀ x, x ≠ b → x ≠ c → sh2.bkt x = sh.bkt x)
    (hstay : ∀ n, n ∈ stay ↔ n ∈ sh.chainOf b ∧ movesTo c (hash n.key) = false)
    (hmv : ∀ n, n ∈ mv ↔ n ∈ sh.chainOf b ∧ movesTo c (hash n.key) = true)
    (hnds : (stay.map (·.key)).Nodup) (hndm : (mv.map (·.key)).Nodup) : ShInv hash sh2 := by
  have hblt : b < c := by rw [hbc]; exact parentOf_lt (by omega)
  have hbne : b ≠ c := by omega
  have mono : ∀ x, (sh.bkt x).isChain = true → (sh2.bkt x).isChain = true := by
    intro x hx
    by_cases hxb : x = b
    · rw [hxb, hb]; rfl
    · by_cases hxc : x = c
      · rw [hxc, hc]; rfl
      · rw [hother x hxb hxc]; exact hx
  -- an old resident (not moving) keeps its home
  have keep : ∀ x hk, x ≠ c → HomeIs sh hk x → (movesTo c hk = false ∨ x ≠ b) → HomeIs sh2 hk x := by
    intro x hk hxc hH hcond
    obtain ⟨⟨l, hl, hxl⟩, hch, ha⟩ := hH
    refine ⟨⟨l, by rw [hlvl]; exact hl, hxl⟩, mono x hch, ?_⟩
    intro l' hlt
    by_cases hyc : pb hk l' = c
    · exfalso
      have hmoves : movesTo c hk = true := (movesTo_iff_onPath (by omega)).2 ⟨l', hyc.symm⟩
      have hxb : x ≠ b := by
        rcases hcond with h | h
        · rw [h] at hmoves; cases hmoves
        · exact h
      have hle : x ≤ parentOf c := pb_le_parent (by omega) hyc.symm hxl (by rw [← hyc]; exact hlt)
      have hlt' : x < b := by rw [← hbc] at hle; omega
      have hbp : b = pb hk (Nat.log2 c) := by rw [hbc]; exact (pb_level (by omega) hyc.symm).2
      have := ha (Nat.log2 c) (by rw [← hbp]; exact hlt')
      rw [← hbp, hchb] at this; cases this
    · by_cases hyb : pb hk l' = b
      · exfalso
        have := ha l' hlt
        rw [hyb, hchb] at this; cases this
      · rw [hother _ hyb hyc]; exact ha l' hlt
  refine ⟨by rw [hlvl]; exact hS.lvl_pos, ?_, ?_, ?_, ?_, ?_, ?_, ?_, ?_⟩
  · intro x hx; exact mono x (hS.emb x hx)
  · intro x hx
    rw [hlvl] at hx
    have hxc : x ≠ c := by omega
    have hxb : x ≠ b := by omega
    rw [hother x hxb hxc]; exact hS.top x hx
  · intro x hx2 hx
    by_cases hxc : x = c
    · rw [hxc, ← hbc, hb]; rfl
    · by_cases hxb : x = b
      · apply mono; apply hS.closed x hx2; rw [hxb]; exact hchb
      · apply mono; apply hS.closed x hx2; rw [← hother x hxb hxc]; exact hx
  · intro x n hn
    unfold Sh.chainOf at hn
    by_cases hxc : x = c
    · subst hxc
      rw [hc] at hn
      obtain ⟨hsrc, hm⟩ := (hmv n).1 hn
      obtain ⟨_, _, ha⟩ := hS.home b n hsrc
      have hcp := (movesTo_iff _ _).1 hm
      have hlog : Nat.log2 x + 1 ≤ sh.lvl := by
        have := (Nat.log2_lt (by omega : x ≠ 0)).2 hclt
        omega
      refine ⟨⟨Nat.log2 x + 1, by rw [hlvl]; exact hlog, hcp.symm⟩, by rw [hc]; rfl, ?_⟩
      intro l' hlt
      have hyc : pb (hash n.key) l' ≠ x := by omega
      have hyb : pb (hash n.key) l' ≠ b := by omega
      rw [hother _ hyb hyc]
      exact ha l' (by omega)
    · by_cases hxb : x = b
      · subst hxb
        rw [hb] at hn
        obtain ⟨hsrc, hm⟩ := (hstay n).1 hn
        exact keep x _ hxc (hS.home x n hsrc) (Or.inl hm)
      · rw [hother x hxb hxc] at hn
        exact keep x _ hxc (hS.home x n hn) (Or.inr hxb)
  · intro x
    unfold Sh.chainOf
    by_cases hxc : x = c
    · rw [hxc, hc]; exact hndm
    · by_cases hxb : x = b
      · rw [hxb, hb]; exact hnds
      · rw [hother x hxb hxc]; exact hS.nodup x
  · intro x; rw [hblk]; exact hS.bwf x
  · intro x t hx
    rw [hblk]
    by_cases hxc : x = c
    · rw [hxc, hc] at hx; cases hx
    · by_cases hxb : x = b
      · rw [hxb, hb] at hx; cases hx
      · rw [hother x hxb hxc] at hx; exact hS.pend x t hx
  · intro k h1 h2; rw [hseg]; rw [hlvl] at h2; exact hS.seg_lo k h1 h2

end TbbVerif.C10
