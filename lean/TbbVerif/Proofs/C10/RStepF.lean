/- C10 (refined model): an access to a lock word preserves `Coupled` — `bucket_accessor::acquire`'s try-lock (goes on,
fails on a flagged / an already rehashed bucket, succeeds) and the wait loops of the blocking bucket acquisition. -/
import TbbVerif.Proofs.C10.RStepE

namespace TbbVerif.C10R

open TbbVerif.C10

section
variable {hash : Nat → Nat} {s : RSt} {tid : Tid} {t : Th} {r : RTh} {th : C08.Th}

/-- the word of a bucket whose specification lock names a writer has WRITER set -/
theorem word_w_of_spec (hC : Coupled hash s) {L : LId} {A : Nat} (hA : (lockOf s.a.sh L).w = some A) : (getL s L).word.w = true := by
  obtain ⟨x, hx⟩ := slot_exists (hC.lk L) ((hC.specN L).2.1 A hA)
  exact w_of_holdW (hC.lk L).inv hx ((hC.spec L A x hx).1 hA)

/-- `FlagC` of bucket `b` after an access of a non-holder that did not get the lock and left the `HMap` state alone -/
theorem flagC_silent (hC : Coupled hash s) {b : Nat} {op : C08.Op} (hs : slot s (.b b) tid = some th) (hops : th.ops = [op])
    (hop : op = .tryLock ∨ op = .lock ∨ op = .lockShared) (hpre : PreOK th) (hph0 : th.phase = .idle ∨ th.phase = .rt)
    (hK : op ≠ .tryLock → (s.a.sh.bkt b).isFlagged = true → ∃ A, (s.a.sh.blk b).w = some A)
    (s' : RSt) (ha : s'.a = s.a) (hgl : getL s' (.b b) = C08.step (getL s (.b b)) tid)
    (hng : op = .tryLock → (acT (getL s (.b b)).word th).phase = .idle) : FlagC s' b := by
  have hwf := (hC.lk (.b b)).inv.hwf tid th hs
  have hslot' := step_slot_self (getL s (.b b)) tid th hs
  have hword' : (C08.step (getL s (.b b)) tid).word = acW (getL s (.b b)).word th := by rw [step_eq _ _ _ hs]
  by_cases hf : (s.a.sh.bkt b).isFlagged = true
  · obtain ⟨h1, h2⟩ := hC.flag b hf
    obtain ⟨hiw, hna, hsv⟩ := h1 tid th hs
    have hph : th.phase = .idle := by
      rcases hph0 with h | h
      · exact h
      · rcases hiw with h' | h' <;> rw [h] at h' <;> cases h'
    cases hw : (s.a.sh.blk b).w with
    | none =>
      have hopt : op = .tryLock := by
        apply Classical.byContradiction; intro hne
        obtain ⟨A, hA⟩ := hK hne hf
        rw [hw] at hA; cases hA
      subst hopt
      have hz : (getL s (.b b)).word = {} := h2 hw
      rcases trylock_free th hops hpre hwf hsv with ⟨e1, e2, e3, e4, e5⟩ | ⟨_, e2⟩
      · refine flagC_build hC hgl hslot' (fun h => by rw [ha] at h; exact h) ?_ ?_
        · rw [hz]; exact ⟨Or.inl (by rw [e3]; exact hph), by rw [e4]; simp, fun _ => e5⟩
        · intro _; rw [hword', hz]; exact e1
      · have := hng rfl; rw [hz, e2] at this; cases this
    | some A =>
      have hww : (getL s (.b b)).word.w = true := word_w_of_spec hC (L := .b b) hw
      obtain ⟨b1, b2, b3, b4, _⟩ := busy_access _ th op hop hops hpre hwf hph hww hna hsv
      refine flagC_build hC hgl hslot' (fun h => by rw [ha] at h; exact h) ⟨Or.inl b1, b2, fun h => absurd h b3⟩ ?_
      intro h; rw [ha, hw] at h; cases h
  · exact flagC_vacuous (by rw [ha]; simpa using hf)

/-- `bucket_accessor::acquire`: an access of the `try_lock` on the bucket's mutex -/
theorem tryLock_bucket_coupled (hC : Coupled hash s) (ht : s.a.ths[tid]? = some t) (hr : s.rt[tid]? = some r)
    (hcur : r.cur = some (.b t.tgt)) (hs : slot s (.b t.tgt) tid = some th) (hops : th.ops = [.tryLock]) (hpre : PreOK th)
    (hph : th.phase = .idle) (hpc : t.pc = .lockTry) (hlag : r.lag = false) :
    Coupled hash (lockAccess hash s tid t r (.b t.tgt)) := by
  have hwf := (hC.lk (.b t.tgt)).inv.hwf tid th hs
  have hv := view_of hC hs
  have hs' := step_slot_self (getL s (.b t.tgt)) tid th hs
  have hT := hC.th tid t r ht hr
  have hgl0 : getL (lockAccess hash s tid t r (.b t.tgt)) (.b t.tgt) = C08.step (getL s (.b t.tgt)) tid := by
    have := (lockAccess_out hash s tid t r (.b t.tgt) th _ hs hs').2.2 (.b t.tgt)
    rw [if_pos rfl] at this; exact this
  cases tryLock_out (getL s (.b t.tgt)).word th hops hpre hwf hph with
  | cont ho hp' hpre' hrt =>
    have hp'' : (acT (getL s (.b t.tgt)).word th).phase = .idle := by
      rcases hp' with h | h
      · exact h
      · rcases hrt h with h' | h' <;> cases h'
    have htrn : trOf th.phase (acT (getL s (.b t.tgt)).word th).phase = .none := by rw [hph, hp'']; rfl
    have hnt : ((acT (getL s (.b t.tgt)).word th).ops.isEmpty && (th.ops.head?.map isTry).getD false && t.pc == .lockTry) = false := by
      rw [ho]; rfl
    have ha : (lockAccess hash s tid t r (.b t.tgt)).a = s.a := by
      have := (lockAccess_out hash s tid t r (.b t.tgt) th _ hs hs').1
      rw [effect_none _ _ _ _ _ _ htrn hnt] at this; exact this
    refine silent_coupled hC ht hr hcur hs hpre htrn hnt (by rw [hph, hp'']) (by rw [hph, hp''])
      (Or.inr ⟨_, ho, hpre', ⟨hp'', Or.inl ⟨hpc, hlag, rfl⟩⟩⟩) ?_
    intro b hb
    cases hb
    exact flagC_silent hC hs hops (Or.inl rfl) hpre (Or.inl hph) (fun h => absurd rfl h) _ ha hgl0 (fun _ => hp'')
  | fail ho hp' _ =>
    have htrn : trOf th.phase (acT (getL s (.b t.tgt)).word th).phase = .none := by rw [hph, hp']; rfl
    have hnt : ((acT (getL s (.b t.tgt)).word th).ops.isEmpty && (th.ops.head?.map isTry).getD false && t.pc == .lockTry) = true := by
      rw [ho, hops, hpc]; rfl
    have heff0 := effect_tryfail s.a.sh tid t r th _ htrn hnt
    by_cases hf : (s.a.sh.bkt t.tgt).isFlagged = true
    · -- still flagged: the thread goes on to the blocking acquisition; its `HMap` image stays at `lockTry` (`lag`)
      rw [hf] at heff0
      simp only [if_true] at heff0
      obtain ⟨ro, ha⟩ := runOut_gen (hash := hash) [] true t hs heff0 (by simp) ht
      simp only [ho, List.isEmpty_nil, if_true] at ro
      have ha' : (lockAccess hash s tid t r (.b t.tgt)).a = s.a := ha
      -- a writer is inside: on an untouched word the try-lock could not have failed
      have hK : ∃ A, (s.a.sh.blk t.tgt).w = some A := by
        cases hw : (s.a.sh.blk t.tgt).w with
        | some A => exact ⟨A, rfl⟩
        | none =>
          obtain ⟨h1, h2⟩ := hC.flag t.tgt hf
          have hz : (getL s (.b t.tgt)).word = {} := h2 hw
          rcases trylock_free th hops hpre hwf (h1 tid th hs).2.2 with ⟨_, e2, _⟩ | ⟨_, e2⟩
          · rw [hz, e2] at ho; cases ho
          · rw [hz, e2] at hp'; cases hp'
      refine access_coupled hC ht hr hs hpre (out_noeff hC ht hr hcur hs ro (by rw [ha']; exact noeff_refl _ _)
        (by rw [hph, hp']) (by rw [hph, hp']) ?_ ⟨Or.inl ⟨ho, rfl⟩, fun _ => hpc, (fun h => by rw [hpc] at h; cases h), fun _ _ => by rw [ha']; exact hK⟩)
      intro b hb
      cases hb
      exact flagC_silent hC hs hops (Or.inl rfl) hpre (Or.inl hph) (fun h => absurd rfl h) _ ha' hgl0 (fun _ => hp')
    · -- already rehashed by somebody else: `acquire(mutex, writer)` follows (`HMap`: lockTry, alt 1)
      have hf' : (s.a.sh.bkt t.tgt).isFlagged = false := by simpa using hf
      rw [hf'] at heff0
      simp only [Bool.false_eq_true, if_false] at heff0
      obtain ⟨hf1, hf2⟩ := lockTry_fail_eff hash s.a.sh tid t hpc hf'
      obtain ⟨hself1, hsh1⟩ := step_self hash s.a tid 1 t ht
      rw [hf2] at hself1
      rw [hf1] at hsh1
      obtain ⟨ro, ha⟩ := runOut_gen (hash := hash) [{ tid := tid, alt := 1 }] false _ hs heff0
        (by intro x hx; simp at hx; rw [hx]) (by exact hself1)
      simp only [ho, List.isEmpty_nil, if_true] at ro
      have hsh : (lockAccess hash s tid t r (.b t.tgt)).a.sh = s.a.sh := by rw [ha]; exact hsh1
      have hnf := notflag_after hC ro hf'
      refine access_coupled hC ht hr hs hpre (out_noeff hC ht hr hcur hs ro ?_
        (by rw [hph, hp']) (by rw [hph, hp']) (fun b hb => by cases hb; exact flagC_vacuous hnf) (slotOut_done ho rfl))
      rw [hsh]
      exact ⟨fun _ => rfl, fun L' h => (holds_pc_change t .lockBlk (by rw [hpc]; simp) L').1 h,
        fun L' h => (holds_pc_change t .lockBlk (by rw [hpc]; simp) L').2 h⟩
  | okW ho h0 hp' hw0 hr0 _ =>
    have hfree := free_of_word hv hw0 hr0
    have htr : trOf th.phase (acT (getL s (.b t.tgt)).word th).phase = .acq := by rw [h0, hp']; rfl
    have heff : effect s.a.sh tid t r th (acT (getL s (.b t.tgt)).word th) = ([{ tid := tid, alt := 0 }], false) := by
      rw [effect_tr _ _ _ _ _ _ (by rw [htr]; simp), htr, hlag, hpc]; rfl
    obtain ⟨ro, hsh⟩ := runOut_one (hash := hash) 0 ht hs heff ho
    have hwf' := (step_ok (hC.lk (.b t.tgt)) hs hpre).inv.hwf tid _ hs'
    have hpc' : (acT (getL s (.b t.tgt)).word th).pc = .start := by
      have := hwf'.2.2.2; rw [ho] at this; exact this
    have hEff : LockEff s.a.sh t (stepTh hash s.a.sh tid t 0).1 (stepTh hash s.a.sh tid t 0).2.1 (.b t.tgt) (fun l => l.setW tid) ∧
        HW (stepTh hash s.a.sh tid t 0).2.1 (.b t.tgt) := by
      by_cases hf : (s.a.sh.bkt t.tgt).isFlagged = true
      · have := lockTry_flagged_eff hash s.a.sh tid t 0 hpc hf hfree
        exact ⟨this.1, this.2.1⟩
      · exact lockTry_acq_eff hash s.a.sh tid t hpc (by simpa using hf) hfree
    obtain ⟨he, hH⟩ := hEff
    have hwsome : ((lockAccess hash s tid t r (.b t.tgt)).a.sh.blk t.tgt).w = some tid := by
      have := he.lock0
      rw [← hsh] at this
      simp only [lockOf] at this
      rw [this]; rfl
    refine access_coupled hC ht hr hs hpre (out_eff hC ht hr hcur hs ro (by rw [hsh]; exact he) (spec_setW hv hp') ?_
      (fun b hb => by cases hb; exact Or.inr ⟨tid, hwsome⟩) ?_ (slotOut_done ho (not_relock_after hash s.a.sh tid t 0 (by rw [hpc]; rfl) (by rw [hpc]; rfl))))
    · rw [hp']; exact ⟨fun _ => hH, (fun h => by rcases h with h | h | h <;> cases h)⟩
    · intro b hb
      cases hb
      refine flagC_build hC hgl0 hs' (fun h => ?_) ⟨Or.inr hp', by rw [hpc']; simp, fun h => by rw [hpc'] at h; cases h⟩ ?_
      · obtain ⟨acts, ha, _⟩ := ro.a
        exact flag_mono_run hash acts s.a hC.abs _ (by rw [← ha]; exact h)
      · intro h; rw [hwsome] at h; cases h
  | okR _ _ _ _ hop => rcases hop with h | h <;> cases h

end

end TbbVerif.C10R
