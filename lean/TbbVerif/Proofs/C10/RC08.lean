/- C10 (refined model): what one access of each `spin_rw_mutex` operation does (C08's step functions, by cases on the
operation's pc), in the form the coupling proof uses: the operation continues without effect / fails / takes effect. -/
import TbbVerif.Proofs.C10.RStepA

namespace TbbVerif.C10R

open TbbVerif.C10

abbrev acW (s : C08.Word) (th : C08.Th) : C08.Word := (C08.stepTh s th).1
abbrev acT (s : C08.Word) (th : C08.Th) : C08.Th := (C08.stepTh s th).2.2.1

theorem stepTh_cons (s : C08.Word) (th : C08.Th) (op : C08.Op) (rest : List C08.Op) (hops : th.ops = op :: rest)
    (hpre : th.pc = .start → th.phase = op.pre) : C08.stepTh s th = C08.stepOp op s th := by
  unfold C08.stepTh
  rw [hops]
  simp only
  rw [if_neg]
  intro h
  exact h.2 (hpre h.1)

theorem preOK_single {th : C08.Th} {op : C08.Op} (hops : th.ops = [op]) (hp : PreOK th) : th.pc = .start → th.phase = op.pre :=
  hp op [] hops

/-- single-access operations -/
theorem unlock_out (s : C08.Word) (th : C08.Th) (hops : th.ops = [.unlock]) (hp : PreOK th) (hpc : th.pc = .start) :
    (acT s th).ops = [] ∧ (acT s th).phase = .idle := by
  refine ⟨?_, ?_⟩ <;>
    simp [acT, stepTh_cons s th _ _ hops (preOK_single hops hp), C08.stepOp, C08.stepUnlock, hpc, C08.Th.done, hops]

theorem unlockShared_out (s : C08.Word) (th : C08.Th) (hops : th.ops = [.unlockShared]) (hp : PreOK th) (hpc : th.pc = .start) :
    (acT s th).ops = [] ∧ (acT s th).phase = .idle := by
  refine ⟨?_, ?_⟩ <;>
    simp [acT, stepTh_cons s th _ _ hops (preOK_single hops hp), C08.stepOp, C08.stepUnlockShared, hpc, C08.Th.done, hops]

theorem downgrade_out (s : C08.Word) (th : C08.Th) (hops : th.ops = [.downgrade]) (hp : PreOK th) (hpc : th.pc = .start) :
    (acT s th).ops = [] ∧ (acT s th).phase = .holdR := by
  refine ⟨?_, ?_⟩ <;>
    simp [acT, stepTh_cons s th _ _ hops (preOK_single hops hp), C08.stepOp, C08.stepDowngrade, hpc, C08.Th.done, hops]

/-- outcome of one access of a try / blocking acquisition -/
inductive AcqOut (s : C08.Word) (th : C08.Th) (op : C08.Op) : Prop
  /-- the operation goes on; nothing the lock's users can see has happened (the word may have got a pending bit or a
  transient reader unit) -/
  | cont (hops : (acT s th).ops = [op]) (hph : (acT s th).phase = .idle ∨ (acT s th).phase = .rt) (hpre : PreOK (acT s th))
      (hrt : (acT s th).phase = .rt → op = .lockShared ∨ op = .tryLockShared)
  /-- a try operation returns false -/
  | fail (hops : (acT s th).ops = []) (hph : (acT s th).phase = .idle) (htry : op = .tryLock ∨ op = .tryLockShared)
  /-- the lock is granted exclusively: the word had no writer and no reader -/
  | okW (hops : (acT s th).ops = []) (h0 : th.phase = .idle) (hph : (acT s th).phase = .holdW) (hw : s.w = false) (hr : s.r = 0) (hop : op = .tryLock ∨ op = .lock)
  /-- the lock is granted shared: the word had no writer -/
  | okR (hops : (acT s th).ops = []) (h0 : th.phase = .idle) (hph : (acT s th).phase = .holdR) (hw : s.w = false) (hop : op = .tryLockShared ∨ op = .lockShared)

theorem tryLock_out (s : C08.Word) (th : C08.Th) (hops : th.ops = [.tryLock]) (hp : PreOK th) (hwf : C08.Wf th) (hph : th.phase = .idle) :
    AcqOut s th .tryLock := by
  have hw4 := hwf.2.2.2
  rw [hops] at hw4
  simp only [C08.WfOp] at hw4
  have e := stepTh_cons s th _ _ hops (preOK_single hops hp)
  rcases hw4 with hpc | ⟨hpc, _, hsv⟩
  · by_cases hb : C08.busy s = true
    · refine .fail ?_ ?_ (Or.inl rfl) <;>
        simp [acT, e, C08.stepOp, C08.stepTryLock, hpc, hb, C08.Th.done, hops, hph]
    · have hb' : C08.busy s = false := by simpa using hb
      refine .cont ?_ ?_ ?_ ?_ <;>
        simp [acT, e, C08.stepOp, C08.stepTryLock, hpc, hb', hops, hph, PreOK]
  · by_cases he : s.enc = th.sv
    · obtain ⟨h1, h2⟩ := C08.sv0_word s th hsv he
      refine .okW ?_ hph ?_ h1 h2 (Or.inl rfl) <;>
        simp [acT, e, C08.stepOp, C08.stepTryLock, hpc, he, C08.Th.done, hops]
    · refine .fail ?_ ?_ (Or.inl rfl) <;>
        simp [acT, e, C08.stepOp, C08.stepTryLock, hpc, he, C08.Th.done, hops, hph]

theorem shared_out (bl : Bool) (s : C08.Word) (th : C08.Th) (op : C08.Op) (hop : op = if bl then .lockShared else .tryLockShared)
    (hops : th.ops = [op]) (hp : PreOK th) (hwf : C08.Wf th) (hph : th.phase = .idle ∨ th.phase = .rt) : AcqOut s th op := by
  have hw4 := hwf.2.2.2
  rw [hops] at hw4
  have e := stepTh_cons s th _ _ hops (preOK_single hops hp)
  have hw4' : th.pc = .start ∨ (th.pc = .sharedAdd ∧ th.phase = .idle) ∨ (th.pc = .sharedUndo ∧ th.phase = .rt) := by
    cases bl <;> simp only [Bool.false_eq_true, if_false, if_true] at hop <;> subst hop <;> exact hw4
  have hso : C08.stepOp op s th = C08.stepShared bl s th := by
    cases bl <;> simp only [Bool.false_eq_true, if_false, if_true] at hop <;> subst hop <;> rfl
  have hpre0 : th.pc = .start → th.phase = .idle := by
    intro h; have := preOK_single hops hp h
    cases bl <;> simp only [Bool.false_eq_true, if_false, if_true] at hop <;> subst hop <;> exact this
  have hsh : op = .lockShared ∨ op = .tryLockShared := by
    cases bl <;> simp only [Bool.false_eq_true, if_false, if_true] at hop <;> subst hop <;> simp
  rcases hw4' with hpc | ⟨hpc, hi⟩ | ⟨hpc, hrt⟩
  · have hi := hpre0 hpc
    by_cases hwp : (s.w || s.p) = true
    · cases bl
      · refine .fail ?_ ?_ (Or.inr (by simpa using hop)) <;>
          simp [acT, e, hso, C08.stepShared, hpc, hwp, C08.Th.done, hops, hi]
      · refine .cont ?_ (Or.inl ?_) ?_ ?_ <;>
          simp [acT, e, hso, C08.stepShared, hpc, hwp, hops, hi, PreOK]
        simp [hop, C08.Op.pre]
    · have hwp' : (s.w || s.p) = false := by simpa using hwp
      refine .cont ?_ (Or.inl ?_) ?_ ?_ <;>
        simp [acT, e, hso, C08.stepShared, hpc, hwp', hops, hi, PreOK]
  · by_cases hw : s.w = true
    · refine .cont ?_ (Or.inr ?_) ?_ (fun _ => hsh) <;>
        simp [acT, e, hso, C08.stepShared, hpc, hw, hops, PreOK]
    · have hw' : s.w = false := by simpa using hw
      refine .okR ?_ hi ?_ hw' (Or.symm hsh) <;>
        simp [acT, e, hso, C08.stepShared, hpc, hw', C08.Th.done, hops]
  · cases bl
    · refine .fail ?_ ?_ (Or.inr (by simpa using hop)) <;>
        simp [acT, e, hso, C08.stepShared, hpc, C08.Th.done, hops]
    · refine .cont ?_ (Or.inl ?_) ?_ ?_ <;>
        simp [acT, e, hso, C08.stepShared, hpc, hops, PreOK]
      simp [hop, C08.Op.pre]

theorem lock_out (s : C08.Word) (th : C08.Th) (hops : th.ops = [.lock]) (hp : PreOK th) (hwf : C08.Wf th) (hph : th.phase = .idle) :
    AcqOut s th .lock := by
  have hw4 := hwf.2.2.2
  rw [hops] at hw4
  simp only [C08.WfOp] at hw4
  have e := stepTh_cons s th _ _ hops (preOK_single hops hp)
  rcases hw4 with hpc | ⟨hpc, _, hsv⟩ | ⟨hpc, _⟩
  · by_cases hb : C08.busy s = true
    · by_cases hpp : s.p = true
      · refine .cont ?_ (Or.inl ?_) ?_ (fun h => ?_) <;>
          simp [acT, e, C08.stepOp, C08.stepLock, C08.lockBody, hpc, hb, hpp, hops, hph, PreOK, C08.Op.pre] at *
      · have hpp' : s.p = false := by simpa using hpp
        refine .cont ?_ (Or.inl ?_) ?_ (fun h => ?_) <;>
          simp [acT, e, C08.stepOp, C08.stepLock, C08.lockBody, hpc, hb, hpp', hops, hph, PreOK] at *
    · have hb' : C08.busy s = false := by simpa using hb
      refine .cont ?_ (Or.inl ?_) ?_ (fun h => ?_) <;>
        simp [acT, e, C08.stepOp, C08.stepLock, C08.lockBody, hpc, hb', hops, hph, PreOK] at *
  · by_cases he : s.enc = th.sv
    · obtain ⟨h1, h2⟩ := C08.sv0_word s th hsv he
      refine .okW ?_ hph ?_ h1 h2 (Or.inr rfl) <;>
        simp [acT, e, C08.stepOp, C08.stepLock, C08.lockBody, hpc, he, C08.Th.done, hops]
    · refine .cont ?_ (Or.inl ?_) ?_ (fun h => ?_) <;>
        simp [acT, e, C08.stepOp, C08.stepLock, C08.lockBody, hpc, he, hops, hph, PreOK, C08.Op.pre] at *
  · refine .cont ?_ (Or.inl ?_) ?_ (fun h => ?_) <;>
      simp [acT, e, C08.stepOp, C08.stepLock, C08.lockBody, hpc, hops, hph, PreOK, C08.Op.pre] at *

/-- outcome of one access of `upgrade()` -/
inductive UpgOut (s : C08.Word) (th : C08.Th) : Prop
  /-- goes on; the thread still holds the lock in shared mode (before and after) -/
  | contR (hops : (acT s th).ops = [.upgrade]) (h0 : phaseR th.phase) (h1 : phaseR (acT s th).phase) (hpc : (acT s th).pc ≠ .start)
  /-- goes on in the slow path (`lock()` after the lock was dropped) -/
  | contI (hops : (acT s th).ops = [.upgrade]) (h0 : th.phase = .idle) (h1 : (acT s th).phase = .idle) (hpc : (acT s th).pc ≠ .start)
  /-- the in-place upgrade completes -/
  | inplace (hops : (acT s th).ops = []) (h0 : th.phase = .upgReady) (h1 : (acT s th).phase = .holdW)
  /-- the slow path drops the shared lock; the operation goes on -/
  | release (hops : (acT s th).ops = [.upgrade]) (h0 : th.phase = .holdR) (h1 : (acT s th).phase = .idle) (hpc : (acT s th).pc ≠ .start)
  /-- the slow path re-acquires exclusively -/
  | okW (hops : (acT s th).ops = []) (h0 : th.phase = .idle) (h1 : (acT s th).phase = .holdW) (hw : s.w = false) (hr : s.r = 0)

theorem upgrade_out (s : C08.Word) (th : C08.Th) (hops : th.ops = [.upgrade]) (hp : PreOK th) (hwf : C08.Wf th) : UpgOut s th := by
  have hw4 := hwf.2.2.2
  rw [hops] at hw4
  simp only [C08.WfOp] at hw4
  have e := stepTh_cons s th _ _ hops (preOK_single hops hp)
  rcases hw4 with hpc | ⟨hpc, hph, _, _, _⟩ | ⟨hpc, hph, _⟩ | ⟨hpc, hph, _⟩ | ⟨hpc, hph, _⟩ | ⟨hpc, hph, _⟩ | ⟨hpc, hph, _⟩ | ⟨hpc, hph, _, hsv⟩
  · have hph : th.phase = .holdR := preOK_single hops hp hpc
    by_cases hc : (decide (s.r = 1) || !s.p) = true
    · refine .contR ?_ (Or.inl hph) (Or.inl ?_) ?_ <;>
        simp [acT, e, C08.stepOp, C08.stepUpgrade, hpc, hc, hops, hph]
    · have hc' : (decide (s.r = 1) || !s.p) = false := by simpa using hc
      refine .contR ?_ (Or.inl hph) (Or.inl ?_) ?_ <;>
        simp [acT, e, C08.stepOp, C08.stepUpgrade, hpc, hc', hops, hph]
  · by_cases he : s.enc = th.sv
    · refine .contR ?_ (Or.inl hph) (Or.inr (Or.inl ?_)) ?_ <;>
        simp [acT, e, C08.stepOp, C08.stepUpgrade, hpc, he, hops]
    · by_cases hc : (decide (s.r = 1) || !s.p) = true
      · refine .contR ?_ (Or.inl hph) (Or.inl ?_) ?_ <;>
          simp [acT, e, C08.stepOp, C08.stepUpgrade, hpc, he, hc, hops, hph]
      · have hc' : (decide (s.r = 1) || !s.p) = false := by simpa using hc
        refine .contR ?_ (Or.inl hph) (Or.inl ?_) ?_ <;>
          simp [acT, e, C08.stepOp, C08.stepUpgrade, hpc, he, hc', hops, hph]
  · by_cases hr : s.r = 1
    · refine .contR ?_ (Or.inr (Or.inl hph)) (Or.inr (Or.inr ?_)) ?_ <;>
        simp [acT, e, C08.stepOp, C08.stepUpgrade, hpc, hr, hops]
    · refine .contR ?_ (Or.inr (Or.inl hph)) (Or.inr (Or.inl ?_)) ?_ <;>
        simp [acT, e, C08.stepOp, C08.stepUpgrade, hpc, hr, hops, hph]
  · refine .inplace ?_ hph ?_ <;>
      simp [acT, e, C08.stepOp, C08.stepUpgrade, hpc, C08.Th.done, hops]
  · refine .release ?_ hph ?_ ?_ <;>
      simp [acT, e, C08.stepOp, C08.stepUpgrade, hpc, hops]
  · -- upgSlowLock: the load of lock()
    by_cases hb : C08.busy s = true
    · by_cases hpp : s.p = true
      · refine .contI ?_ hph ?_ ?_ <;>
          simp [acT, e, C08.stepOp, C08.stepUpgrade, C08.lockBody, hpc, hb, hpp, hops, hph]
      · have hpp' : s.p = false := by simpa using hpp
        refine .contI ?_ hph ?_ ?_ <;>
          simp [acT, e, C08.stepOp, C08.stepUpgrade, C08.lockBody, hpc, hb, hpp', hops, hph]
    · have hb' : C08.busy s = false := by simpa using hb
      refine .contI ?_ hph ?_ ?_ <;>
        simp [acT, e, C08.stepOp, C08.stepUpgrade, C08.lockBody, hpc, hb', hops, hph]
  · refine .contI ?_ hph ?_ ?_ <;>
      simp [acT, e, C08.stepOp, C08.stepUpgrade, C08.lockBody, hpc, hops, hph]
  · by_cases he : s.enc = th.sv
    · obtain ⟨h1, h2⟩ := C08.sv0_word s th hsv he
      refine .okW ?_ hph ?_ h1 h2 <;>
        simp [acT, e, C08.stepOp, C08.stepUpgrade, C08.lockBody, hpc, he, C08.Th.done, hops]
    · refine .contI ?_ hph ?_ ?_ <;>
        simp [acT, e, C08.stepOp, C08.stepUpgrade, C08.lockBody, hpc, he, hops, hph]

end TbbVerif.C10R
