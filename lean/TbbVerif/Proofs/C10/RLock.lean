/- C10 (refined model): the facts about one `spin_rw_mutex` that the hash map relies on, imported from C08's word-level
model (`C08.Inv`, `C08.inv_step`, `C08.stepTh_good` are INSTANTIATED for every bucket / element lock, nothing is assumed):
what the state word says about who holds the lock, and what one access does to that. -/
import TbbVerif.Proofs.C08
import TbbVerif.Proofs.C10.RBasic
import TbbVerif.Proofs.C10.RESlot

namespace TbbVerif.C10R

open TbbVerif.C10

/-- holds the lock in shared mode as far as other threads are concerned (an in-place upgrader still counts as a reader) -/
def phaseR (ph : C08.Phase) : Prop := ph = .holdR ∨ ph = .upgWait ∨ ph = .upgReady

/-- a lock's C08 machine, dimensioned for `N` threads, in a reachable state, never misused -/
structure LockOK (N : Nat) (c : C08.St) : Prop where
  len : c.ths.length = N
  inv : C08.Inv c
  clean : ∀ (i : Nat) (th : C08.Th), c.ths[i]? = some th → th.misuse = false ∧ (th.ops = [] ∨ ∃ op, th.ops = [op])

theorem lt_of_get {α : Type} {l : List α} {i : Nat} {x : α} (h : l[i]? = some x) : i < l.length :=
  (List.getElem?_eq_some_iff.mp h).1

theorem idleLock_eq (N : Nat) : idleLock N = (C08.sys (List.replicate N [])).init := by
  simp [idleLock, C08.sys, List.map_replicate]

theorem idleLock_slot {N i : Nat} {th : C08.Th} (h : (idleLock N).ths[i]? = some th) : th = { ops := [] } := by
  simp only [idleLock, List.getElem?_replicate] at h
  split at h
  · exact (Option.some.inj h).symm
  · cases h

theorem idleLock_ok (N : Nat) : LockOK N (idleLock N) := by
  refine ⟨by simp [idleLock], ?_, ?_⟩
  · rw [idleLock_eq]; exact C08.inv_init _
  · intro i th h
    rw [idleLock_slot h]
    exact ⟨rfl, Or.inl rfl⟩

/-! ### counting -/

theorem cnt_zero_ne {ph : C08.Phase} {l : List C08.Th} (h : C08.cnt ph l = 0) {i : Nat} {th : C08.Th} (hs : l[i]? = some th) :
    th.phase ≠ ph := by
  intro he
  have := C08.cnt_pos_of_mem ph l i th hs he
  omega

theorem two_le_countP {α : Type} (p : α → Bool) : ∀ (l : List α) (i j : Nat) (x y : α), l[i]? = some x → l[j]? = some y → i ≠ j →
    p x = true → p y = true → 2 ≤ l.countP p := by
  intro l
  induction l with
  | nil => intro i j x y hi; simp at hi
  | cons a l ih =>
    intro i j x y hi hj hij hx hy
    cases i with
    | zero =>
      cases j with
      | zero => exact absurd rfl hij
      | succ j =>
        simp at hi hj
        subst hi
        have : 0 < l.countP p := List.countP_pos_iff.mpr ⟨y, List.mem_of_getElem? hj, hy⟩
        rw [List.countP_cons_of_pos hx]; omega
    | succ i =>
      cases j with
      | zero =>
        simp at hi hj
        subst hj
        have : 0 < l.countP p := List.countP_pos_iff.mpr ⟨x, List.mem_of_getElem? hi, hx⟩
        rw [List.countP_cons_of_pos hy]; omega
      | succ j =>
        simp at hi hj
        have := ih i j x y hi hj (by omega) hx hy
        simp [List.countP_cons]; omega

theorem two_le_cnt {ph : C08.Phase} {l : List C08.Th} {i j : Nat} {x y : C08.Th} (hi : l[i]? = some x) (hj : l[j]? = some y)
    (hij : i ≠ j) (hx : x.phase = ph) (hy : y.phase = ph) : 2 ≤ C08.cnt ph l :=
  two_le_countP _ l i j x y hi hj hij (by simp [hx]) (by simp [hy])

/-! ### what the word says about the holders -/

section word
variable {c : C08.St} (hI : C08.Inv c)
include hI

/-- WRITER clear: nobody holds exclusively, nobody is upgrading in place -/
theorem no_writer_of_w {i : Nat} {th : C08.Th} (hw : c.word.w = false) (hs : c.ths[i]? = some th) :
    th.phase ≠ .holdW ∧ th.phase ≠ .upgWait ∧ th.phase ≠ .upgReady := by
  have h := hI.hw
  rw [hw] at h
  simp at h
  exact ⟨cnt_zero_ne h.1.1 hs, cnt_zero_ne h.1.2 hs, cnt_zero_ne h.2 hs⟩

/-- reader count 0: nobody holds shared (nor transiently) -/
theorem no_reader_of_r {i : Nat} {th : C08.Th} (hr : c.word.r = 0) (hs : c.ths[i]? = some th) :
    th.phase ≠ .rt ∧ th.phase ≠ .holdR ∧ th.phase ≠ .upgWait ∧ th.phase ≠ .upgReady := by
  have h := hI.hr
  rw [hr] at h
  have h1 : C08.cnt .rt c.ths = 0 := by omega
  have h2 : C08.cnt .holdR c.ths = 0 := by omega
  have h3 : C08.cnt .upgWait c.ths = 0 := by omega
  have h4 : C08.cnt .upgReady c.ths = 0 := by omega
  exact ⟨cnt_zero_ne h1 hs, cnt_zero_ne h2 hs, cnt_zero_ne h3 hs, cnt_zero_ne h4 hs⟩

/-- somebody holds exclusively: WRITER is set -/
theorem w_of_holdW {i : Nat} {th : C08.Th} (hs : c.ths[i]? = some th) (hp : th.phase = .holdW) : c.word.w = true := by
  have h := hI.hw
  have := C08.cnt_pos_of_mem .holdW c.ths i th hs hp
  cases hw : c.word.w with
  | true => rfl
  | false => rw [hw] at h; simp at h; omega

/-- an exclusive holder (or an upgrader about to become one) is alone: every other thread is idle or a transient reader -/
theorem alone_of_writer {i j : Nat} {x y : C08.Th} (hi : c.ths[i]? = some x) (hj : c.ths[j]? = some y) (hij : i ≠ j)
    (hx : x.phase = .holdW ∨ x.phase = .upgReady) : y.phase = .idle ∨ y.phase = .rt := by
  have hw := hI.hw
  have hx0 := hI.hx
  have hle : C08.cnt .holdW c.ths + C08.cnt .upgWait c.ths + C08.cnt .upgReady c.ths ≤ 1 := by
    rw [hw]; split <;> omega
  have hpos : 0 < C08.cnt .holdW c.ths + C08.cnt .upgReady c.ths := by
    rcases hx with h | h
    · have := C08.cnt_pos_of_mem _ c.ths i x hi h; omega
    · have := C08.cnt_pos_of_mem _ c.ths i x hi h; omega
  have hR := hx0 hpos
  cases hy : y.phase with
  | idle => exact Or.inl rfl
  | rt => exact Or.inr rfl
  | holdR => have := C08.cnt_pos_of_mem _ c.ths j y hj hy; omega
  | upgWait =>
    have := C08.cnt_pos_of_mem _ c.ths j y hj hy
    omega
  | upgReady =>
    rcases hx with h | h
    · have := C08.cnt_pos_of_mem _ c.ths j y hj hy
      have := C08.cnt_pos_of_mem _ c.ths i x hi h
      omega
    · have := two_le_cnt hi hj hij h hy; omega
  | holdW =>
    rcases hx with h | h
    · have := two_le_cnt hi hj hij h hy; omega
    · have := C08.cnt_pos_of_mem _ c.ths j y hj hy
      have := C08.cnt_pos_of_mem _ c.ths i x hi h
      omega

end word

/-! ### one access -/

theorem step_eq (c : C08.St) (tid : Tid) (th : C08.Th) (hs : c.ths[tid]? = some th) :
    C08.step c tid = { word := (C08.stepTh c.word th).1, bad := c.bad || (C08.stepTh c.word th).2.1,
                       ths := c.ths.set tid (C08.stepTh c.word th).2.2.1 } := by
  unfold C08.step; rw [hs]

theorem step_slot_self (c : C08.St) (tid : Tid) (th : C08.Th) (hs : c.ths[tid]? = some th) :
    (C08.step c tid).ths[tid]? = some (C08.stepTh c.word th).2.2.1 := by
  rw [step_eq c tid th hs]
  exact List.getElem?_set_self (lt_of_get hs)

theorem step_slot_other (c : C08.St) (tid i : Tid) (hne : i ≠ tid) : (C08.step c tid).ths[i]? = c.ths[i]? := by
  unfold C08.step
  cases hs : c.ths[tid]? with
  | none => rfl
  | some th => simp only; rw [List.getElem?_set_ne (Ne.symm hne)]

theorem step_len (c : C08.St) (tid : Tid) : (C08.step c tid).ths.length = c.ths.length := by
  unfold C08.step
  cases hs : c.ths[tid]? with
  | none => rfl
  | some th => simp

theorem issue_eq (c : C08.St) (tid : Tid) (op : C08.Op) (th : C08.Th) (hs : c.ths[tid]? = some th) :
    issue c tid op = { c with ths := c.ths.set tid { th with ops := [op], results := [] } } := by
  unfold issue; rw [hs]

theorem issue_slot_self (c : C08.St) (tid : Tid) (op : C08.Op) (th : C08.Th) (hs : c.ths[tid]? = some th) :
    (issue c tid op).ths[tid]? = some { th with ops := [op], results := [] } := by
  rw [issue_eq c tid op th hs]
  exact List.getElem?_set_self (lt_of_get hs)

theorem issue_slot_other (c : C08.St) (tid i : Tid) (op : C08.Op) (hne : i ≠ tid) : (issue c tid op).ths[i]? = c.ths[i]? := by
  unfold issue
  cases hs : c.ths[tid]? with
  | none => rfl
  | some th => simp only; rw [List.getElem?_set_ne (Ne.symm hne)]

theorem issue_word (c : C08.St) (tid : Tid) (op : C08.Op) : (issue c tid op).word = c.word := by
  unfold issue; split <;> rfl

/-- the call itself (no access yet) keeps the lock's machine in order -/
theorem issue_ok {N : Nat} {c : C08.St} {tid : Tid} {th : C08.Th} (op : C08.Op) (h : LockOK N c) (hs : c.ths[tid]? = some th)
    (ho : th.ops = []) : LockOK N (issue c tid op) := by
  have hwf := h.inv.hwf tid th hs
  have hpc : th.pc = .start := by
    have := hwf.2.2.2
    rw [ho] at this; exact this
  have hlk : C08.isLocker th = false := by unfold C08.isLocker; rw [ho]
  have hwf' : C08.Wf ({ th with ops := [op], results := [] } : C08.Th) :=
    ⟨hwf.1, hwf.2.1, hwf.2.2.1, C08.wfOp_start op _ hpc⟩
  have := C08.inv_trans c tid th { th with ops := [op], results := [] } hs h.inv c.word c.word false th.phase th.phase
    (C08.isLocker th) (C08.isLocker ({ th with ops := [op], results := [] } : C08.Th)) rfl rfl rfl rfl rfl
    (C08.Trans.silent _ _ _ _ (fun hh => by rw [hlk] at hh; cases hh)) hwf'
  refine ⟨?_, ?_, ?_⟩
  · rw [issue_eq c tid op th hs]; simp [h.len]
  · rw [issue_eq c tid op th hs]
    simpa using this
  · intro i x hx
    by_cases hi : i = tid
    · subst hi
      rw [issue_slot_self c i op th hs] at hx
      cases hx
      exact ⟨(h.clean i th hs).1, Or.inr ⟨op, rfl⟩⟩
    · rw [issue_slot_other c tid i op hi] at hx
      exact h.clean i x hx

/-- `ops` only shrinks, by its head -/
theorem stepTh_ops (s : C08.Word) (t : C08.Th) :
    (C08.stepTh s t).2.2.1.ops = t.ops ∨ (C08.stepTh s t).2.2.1.ops = t.ops.tail := by
  unfold C08.stepTh
  cases hops : t.ops with
  | nil => exact Or.inl hops
  | cons op rest =>
    simp only
    split
    · exact Or.inr rfl
    · cases op <;>
        simp only [C08.stepOp, C08.stepLock, C08.stepTryLock, C08.stepUnlock, C08.stepShared, C08.stepUnlockShared,
          C08.stepUpgrade, C08.stepDowngrade, C08.lockBody] <;>
        (repeat' split) <;> simp [C08.Th.done, hops]

/-- the API precondition, as far as the thread's slot can tell: at the entry of the call (or of an iteration of its
wait loop) the thread is in the phase the operation requires -/
def PreOK (th : C08.Th) : Prop := ∀ op rest, th.ops = op :: rest → th.pc = .start → th.phase = op.pre

theorem stepTh_misuse (s : C08.Word) (t : C08.Th) (hp : PreOK t) : (C08.stepTh s t).2.2.1.misuse = t.misuse := by
  unfold C08.stepTh
  cases hops : t.ops with
  | nil => rfl
  | cons op rest =>
    simp only
    split
    · rename_i hg
      exact absurd (hp op rest hops hg.1) hg.2
    · cases op <;>
        simp only [C08.stepOp, C08.stepLock, C08.stepTryLock, C08.stepUnlock, C08.stepShared, C08.stepUnlockShared,
          C08.stepUpgrade, C08.stepDowngrade, C08.lockBody] <;>
        (repeat' split) <;> simp [C08.Th.done]

/-- an access keeps the lock's machine in order (C08's invariant is inductive; no misuse when the precondition holds) -/
theorem step_ok {N : Nat} {c : C08.St} {tid : Tid} {th : C08.Th} (h : LockOK N c) (hs : c.ths[tid]? = some th) (hp : PreOK th) :
    LockOK N (C08.step c tid) := by
  refine ⟨by rw [step_len]; exact h.len, C08.inv_step c tid h.inv, ?_⟩
  intro i x hx
  by_cases hi : i = tid
  · subst hi
    rw [step_slot_self c i th hs] at hx
    cases hx
    obtain ⟨hm, ho⟩ := h.clean i th hs
    refine ⟨by rw [stepTh_misuse _ _ hp]; exact hm, ?_⟩
    rcases stepTh_ops c.word th with h1 | h1
    · rw [h1]; exact ho
    · rw [h1]
      rcases ho with ho | ⟨op, ho⟩
      · rw [ho]; exact Or.inl rfl
      · rw [ho]; exact Or.inl rfl
  · rw [step_slot_other c tid i hi] at hx
    exact h.clean i x hx

end TbbVerif.C10R
