/- C10 (refined model): the call of a lock operation (`issue`).  The operation a pc calls for finds the thread in the
phase its API precondition requires (a release / upgrade / downgrade of a lock the thread holds in the right mode, an
acquisition of a lock it does not hold), so C08's `misuse` flag is never raised; `Coupled` is preserved. -/
import TbbVerif.Proofs.C10.RFacts

namespace TbbVerif.C10R

open TbbVerif.C10

theorem acc_none_elemTry {hash : Nat → Nat} {s : RSt} (hC : Coupled hash s) {tid : Tid} {t : Th} (ht : s.a.ths[tid]? = some t)
    (hpc : t.pc = .elemTry) : t.acc = none :=
  (hC.abs.i2.th tid t ht).accNone (hC.es tid t ht hpc) (by rw [hpc]; simp) (by rw [hpc]; simp) (by rw [hpc]; simp) (by rw [hpc]; simp)

theorem acc_none_eLock {hash : Nat → Nat} {s : RSt} (hC : Coupled hash s) {tid : Tid} {t : Th} (ht : s.a.ths[tid]? = some t)
    (hpc : t.pc = .eLock) : t.acc = none := by
  have hk := hC.abs.k tid t ht
  unfold KInv at hk; rw [hpc] at hk; simp only [KAt] at hk
  exact (hC.abs.i2.th tid t ht).accNone (by unfold needsSlot; rw [hk]) (by rw [hpc]; simp) (by rw [hpc]; simp) (by rw [hpc]; simp) (by rw [hpc]; simp)

/-- at `eRel` the thread's state says it holds the element exclusively -/
theorem hw_eRel {hash : Nat → Nat} {s : RSt} (hC : Coupled hash s) {tid : Tid} {t : Th} (ht : s.a.ths[tid]? = some t)
    (hpc : t.pc = .eRel) {n : Node} (hn : t.n = some n) : HW t (.e n) ∧ (t.acc = none ∨ t.acc = some (n, true)) := by
  have hk := hC.abs.k tid t ht
  unfold KInv at hk; rw [hpc] at hk; simp only [KAt] at hk
  rcases hk with hk | hk
  · have := (hC.abs.i2.th tid t ht).accNone (by unfold needsSlot; rw [hk]) (by rw [hpc]; simp) (by rw [hpc]; simp) (by rw [hpc]; simp) (by rw [hpc]; simp)
    exact ⟨Or.inr ⟨this, hpc, hn⟩, Or.inl this⟩
  · have := (hC.abs.i2.th tid t ht).ex hk
    rw [hpc] at this
    simp only [ExAt] at this
    obtain ⟨n', hn', ha⟩ := this
    rw [hn] at hn'; cases hn'
    exact ⟨Or.inl ha, Or.inr ha⟩

theorem request_ok {hash : Nat → Nat} {s : RSt} (hC : Coupled hash s) {tid : Tid} {t : Th} {r : RTh} {alt : Nat} {L : LId} {op : C08.Op}
    {th : C08.Th} (ht : s.a.ths[tid]? = some t) (hreq : request t r alt = some (L, op)) (hs : slot s L tid = some th)
    (hops : th.ops = []) : th.phase = op.pre ∧ ∀ th' : C08.Th, th'.phase = th.phase → CurOK t r L op th' := by
  have hT := hC.abs.i1.th tid t ht
  have hT2 := hC.abs.i2.th tid t ht
  have hc := hT.c
  have idleOf : ¬ HW t L → ¬ HR t L → th.phase = .idle := idle_of_not_held hC ht hs hops
  have relCase : ∀ (w : Bool), (if w = true then HW t L else HR t L) → RelAt t L w → op = relOp w →
      th.phase = op.pre ∧ ∀ th' : C08.Th, th'.phase = th.phase → CurOK t r L op th' := by
    intro w hh hrel hop
    subst hop
    cases w
    · have hp := holdR_of_HR hC ht hs hops (by simpa using hh)
      exact ⟨hp, fun th' h' => ⟨by rw [h', hp], hrel⟩⟩
    · have hp := phase_of_HW hC ht hs (by simpa using hh)
      exact ⟨hp, fun th' h' => ⟨by rw [h', hp], hrel⟩⟩
  cases hpc : t.pc <;> simp only [request, hpc] at hreq <;> rw [hpc] at hc <;> simp only [CAt] at hc
  case idle =>
    cases hops' : t.ops with
    | nil => rw [hops'] at hreq; cases hreq
    | cons o rest =>
      rw [hops'] at hreq
      simp only at hreq
      split at hreq
      · rename_i hk
        cases hacc : t.acc with
        | none => rw [hacc] at hreq; cases hreq
        | some a =>
          obtain ⟨n, w⟩ := a
          rw [hacc] at hreq
          simp only [Option.some.injEq, Prod.mk.injEq] at hreq
          obtain ⟨rfl, rfl⟩ := hreq
          refine relCase w ?_ (Or.inr (Or.inr (Or.inr (Or.inr (Or.inr ⟨hpc, ⟨o, rest, hops', by simpa using hk⟩, n, hacc, rfl⟩))))) rfl
          cases w <;> simp [HW, HR, hacc]
      · cases hreq
  case lockTry =>
    simp only [Option.some.injEq, Prod.mk.injEq] at hreq
    obtain ⟨rfl, rfl⟩ := hreq
    obtain ⟨h1, h2⟩ := tgt_not_held hc
    have hp := idleOf h1 h2
    cases hl : r.lag with
    | false => exact ⟨hp, fun th' h' => ⟨by rw [h', hp], Or.inl ⟨hpc, hl, rfl⟩⟩⟩
    | true =>
      cases hw : wantW t with
      | true => simp only [if_true]; exact ⟨hp, fun th' h' => ⟨by rw [h', hp], Or.inl ⟨Or.inr ⟨hpc, hl⟩, hw, rfl⟩⟩⟩
      | false => simp only [Bool.false_eq_true, if_false, if_true]; exact ⟨hp, fun th' h' => ⟨Or.inl (by rw [h', hp]), Or.inr ⟨hpc, hl⟩, hw, rfl⟩⟩
  case lockBlk =>
    simp only [Option.some.injEq, Prod.mk.injEq] at hreq
    obtain ⟨rfl, rfl⟩ := hreq
    obtain ⟨h1, h2⟩ := tgt_not_held hc.1
    have hp := idleOf h1 h2
    cases hw : wantW t with
    | true => simp only [if_true]; exact ⟨hp, fun th' h' => ⟨by rw [h', hp], Or.inl ⟨Or.inl hpc, hw, rfl⟩⟩⟩
    | false => simp only [Bool.false_eq_true, if_false]; exact ⟨hp, fun th' h' => ⟨Or.inl (by rw [h', hp]), Or.inl hpc, hw, rfl⟩⟩
  case rhUpg =>
    obtain ⟨hs', hne, _⟩ := hc
    rw [hs'] at hreq
    simp only [Option.some.injEq, Prod.mk.injEq] at hreq
    obtain ⟨rfl, rfl⟩ := hreq
    have hHR : HR t (.b t.b0) := by simp only [HR]; rw [hs']; exact List.mem_cons_self ..
    have hp := holdR_of_HR hC ht hs hops hHR
    exact ⟨hp, fun th' h' => Or.inl ⟨Or.inl (by rw [h', hp]), Or.inl ⟨Or.inl hpc, by rw [hs']; simp, rfl⟩⟩⟩
  case upg =>
    obtain ⟨hs', _⟩ := hc
    rw [hs'] at hreq
    simp only [Option.some.injEq, Prod.mk.injEq] at hreq
    obtain ⟨rfl, rfl⟩ := hreq
    have hHR : HR t (.b t.b0) := by simp only [HR]; rw [hs']; exact List.mem_cons_self ..
    have hp := holdR_of_HR hC ht hs hops hHR
    exact ⟨hp, fun th' h' => Or.inl ⟨Or.inl (by rw [h', hp]), Or.inl ⟨Or.inr (Or.inl hpc), by rw [hs']; simp, rfl⟩⟩⟩
  case eUpg =>
    obtain ⟨hs', _⟩ := hc
    rw [hs'] at hreq
    simp only [Option.some.injEq, Prod.mk.injEq] at hreq
    obtain ⟨rfl, rfl⟩ := hreq
    have hHR : HR t (.b t.b0) := by simp only [HR]; rw [hs']; exact List.mem_cons_self ..
    have hp := holdR_of_HR hC ht hs hops hHR
    exact ⟨hp, fun th' h' => Or.inl ⟨Or.inl (by rw [h', hp]), Or.inl ⟨Or.inr (Or.inr hpc), by rw [hs']; simp, rfl⟩⟩⟩
  case rhRel =>
    obtain ⟨hs', _⟩ := hc
    rw [hs'] at hreq
    simp only [Option.some.injEq, Prod.mk.injEq] at hreq
    obtain ⟨rfl, rfl⟩ := hreq
    refine relCase t.w0 ?_ (Or.inl ⟨hpc, ⟨_, hs'⟩, rfl⟩) rfl
    cases hw : t.w0 <;> simp only [HW, HR, Bool.false_eq_true, if_false, if_true] <;> rw [hs', hw] <;> exact List.mem_cons_self ..
  case relB a =>
    obtain ⟨hs', _⟩ := hc
    rw [hs'] at hreq
    simp only [Option.some.injEq, Prod.mk.injEq] at hreq
    obtain ⟨rfl, rfl⟩ := hreq
    refine relCase t.w0 ?_ (Or.inr (Or.inl ⟨⟨a, hpc⟩, hs', rfl⟩)) rfl
    cases hw : t.w0 <;> simp only [HW, HR, Bool.false_eq_true, if_false, if_true] <;> rw [hs', hw] <;> exact List.mem_cons_self ..
  case dng =>
    obtain ⟨hs', _⟩ := hc
    rw [hs'] at hreq
    simp only [Option.some.injEq, Prod.mk.injEq] at hreq
    obtain ⟨rfl, rfl⟩ := hreq
    have hHW : HW t (.b t.b0) := by simp only [HW]; rw [hs']; exact List.mem_cons_self ..
    have hp := phase_of_HW hC ht hs hHW
    exact ⟨hp, fun th' h' => ⟨by rw [h', hp], hpc, ⟨_, hs'⟩, rfl⟩⟩
  case elemTry =>
    obtain ⟨hs', _, n, hn, _⟩ := hc
    have hacc := acc_none_elemTry hC ht hpc
    rw [hs', hn] at hreq
    simp only at hreq
    split at hreq
    · simp only [Option.some.injEq, Prod.mk.injEq] at hreq
      obtain ⟨rfl, rfl⟩ := hreq
      have hp := idleOf (by simp [HW, hacc, hpc]) (by simp [HR, hacc])
      by_cases h2 : t.op.acc = 2
      · simp only [h2, if_true]
        exact ⟨hp, fun th' h' => ⟨by rw [h', hp], Or.inr ⟨hpc, by simp [hn], h2⟩⟩⟩
      · simp only [h2, if_false]
        exact ⟨hp, fun th' h' => ⟨Or.inl (by rw [h', hp]), hpc, by simp [hn], h2⟩⟩
    · rename_i hgive
      simp only [Option.some.injEq, Prod.mk.injEq] at hreq
      obtain ⟨rfl, rfl⟩ := hreq
      have hfresh : (t.ret && t.op.k == .ins) = false := by
        cases hf : (t.ret && t.op.k == .ins) with
        | false => rfl
        | true => exact absurd (by simp [hf]) hgive
      refine relCase t.w0 ?_ (Or.inr (Or.inr (Or.inl ⟨hpc, hs', rfl, hfresh, by simp [hn]⟩))) rfl
      cases hw : t.w0 <;> simp only [HW, HR, Bool.false_eq_true, if_false, if_true] <;> rw [hs', hw] <;> exact List.mem_cons_self ..
  case eLock =>
    cases hn : t.n with
    | none => rw [hn] at hreq; cases hreq
    | some n =>
      rw [hn] at hreq
      simp only [Option.map_some, Option.some.injEq, Prod.mk.injEq] at hreq
      obtain ⟨rfl, rfl⟩ := hreq
      have hacc := acc_none_eLock hC ht hpc
      have hp := idleOf (by simp [HW, hacc, hpc]) (by simp [HR, hacc])
      exact ⟨hp, fun th' h' => ⟨by rw [h', hp], Or.inr ⟨hpc, by simp [hn]⟩⟩⟩
  case eRel =>
    cases hn : t.n with
    | none => rw [hn] at hreq; cases hreq
    | some n =>
      rw [hn] at hreq
      simp only [Option.map_some, Option.some.injEq, Prod.mk.injEq] at hreq
      obtain ⟨rfl, rfl⟩ := hreq
      have hp := phase_of_HW hC ht hs (hw_eRel hC ht hpc hn).1
      exact ⟨hp, fun th' h' => ⟨by rw [h', hp], Or.inr (Or.inr (Or.inr (Or.inl ⟨hpc, by simp [hn], rfl⟩)))⟩⟩
  case xUpg =>
    cases hn : t.n with
    | none => rw [hn] at hreq; cases hreq
    | some n =>
      rw [hn] at hreq
      simp only [Option.map_some, Option.some.injEq, Prod.mk.injEq] at hreq
      obtain ⟨rfl, rfl⟩ := hreq
      have hk := hC.abs.k tid t ht
      unfold KInv at hk; rw [hpc] at hk; simp only [KAt] at hk
      have hex := hT2.ex hk
      rw [hpc] at hex
      simp only [ExAt] at hex
      obtain ⟨n', hn', ha, _⟩ := hex
      rw [hn] at hn'; cases hn'
      have hp := holdR_of_HR hC ht hs hops (by simp [HR, ha])
      exact ⟨hp, fun th' h' => Or.inl ⟨Or.inl (by rw [h', hp]), Or.inr ⟨hpc, by simp [hn]⟩⟩⟩
  case xRelAcc =>
    cases hacc : t.acc with
    | none => rw [hacc] at hreq; cases hreq
    | some a =>
      obtain ⟨n, w⟩ := a
      rw [hacc] at hreq
      simp only [Option.some.injEq, Prod.mk.injEq] at hreq
      obtain ⟨rfl, rfl⟩ := hreq
      refine relCase w ?_ (Or.inr (Or.inr (Or.inr (Or.inr (Or.inl ⟨hpc, n, hacc, rfl⟩))))) rfl
      cases w <;> simp [HW, HR, hacc]
  all_goals (cases hreq)

end TbbVerif.C10R
