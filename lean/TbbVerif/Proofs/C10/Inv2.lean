/-
C10: second invariant, on top of the core invariant `Inv`: element locks and accessors, unlinked nodes and freeing, and the
ghost history (linearization) — definitions, frame conditions and assembly.
-/
import TbbVerif.Proofs.C10.Home
import TbbVerif.Proofs.C10.Hist

namespace TbbVerif.C10

def HoldsE (sh : Sh) (tid : Tid) (a : Node × Bool) : Prop :=
  if a.2 = true then (sh.elk a.1).w = some tid else tid ∈ (sh.elk a.1).r

/-- Shared part. -/
structure ShInv2 (sh : Sh) : Prop where
  ewf : ∀ n, (sh.elk n).Wf
  fresh : ∀ n, IsLinked sh n → n.id < sh.nextId
  linkedOk : ∀ n, IsLinked sh n → sh.freed n = false ∧ sh.unlinker n = none
  /-- the ghost history is a legal sequential history and its final map is the set of linked nodes -/
  lin : ∃ s, specOf sh.hist = some s ∧ (∀ n, s n.key = some n ↔ IsLinked sh n) ∧ (∀ k n, s k = some n → n.key = k)

/-- the node a thread has unlinked and is about to delete -/
def Unlinked (sh : Sh) (tid : Tid) (t : Th) : Prop :=
  ∃ n, t.n = some n ∧ sh.unlinker n = some tid ∧ ¬ IsLinked sh n ∧ sh.freed n = false ∧ n.id < sh.nextId

/-- facts at the pcs after the unlinking -/
def DAt (sh : Sh) (tid : Tid) (t : Th) : Pc → Prop
  | .relB .eLock | .relB .xUpg | .eLock | .xUpg | .xRelock => Unlinked sh tid t
  | .eRel => Unlinked sh tid t ∧ ∃ n, t.n = some n ∧ (sh.elk n).w = some tid
  | .free => Unlinked sh tid t ∧ ∃ n, t.n = some n ∧ (sh.elk n).w = none ∧ (sh.elk n).r = []
  | _ => True

/-- erase by accessor: the accessor and the node it points to -/
def ExAt (hash : Nat → Nat) (t : Th) : Pc → Prop
  | .idle => True
  | .xRelock | .free | .relB .fin => t.acc = none
  | .xUpg => ∃ n, t.n = some n ∧ t.acc = some (n, false) ∧ t.h = hash n.key
  | .eRel => ∃ n, t.n = some n ∧ t.acc = some (n, true)
  | _ => ∃ n w, t.n = some n ∧ t.acc = some (n, w) ∧ t.h = hash n.key

/-- Per-thread part. -/
structure ThInv2 (hash : Nat → Nat) (sh : Sh) (tid : Tid) (t : Th) : Prop where
  heldE : ∀ n w, t.acc = some (n, w) → HoldsE sh tid (n, w) ∧ sh.freed n = false ∧ n.id < sh.nextId
  nOk : ∀ n, t.n = some n → n.id < sh.nextId
  ex : t.op.k = .exclude → ExAt hash t t.pc
  accNone : needsSlot t.op = true → t.pc ≠ .idle → t.pc ≠ .relB .fin → t.pc ≠ .alloc → t.pc ≠ .pubMask → t.acc = none
  d : DAt sh tid t t.pc

structure Inv2 (hash : Nat → Nat) (st : St) : Prop where
  sh : ShInv2 st.sh
  th : ∀ tid t, st.ths[tid]? = some t → ThInv2 hash st.sh tid t

/-- Effect of a step of `tid` on the node-level shared state, as far as other threads can tell. -/
structure Frame2 (sh : Sh) (tid : Tid) (sh' : Sh) : Prop where
  elkW : ∀ n t', t' ≠ tid → ((sh'.elk n).w = some t' ↔ (sh.elk n).w = some t')
  elkR : ∀ n t', t' ≠ tid → (t' ∈ (sh'.elk n).r ↔ t' ∈ (sh.elk n).r)
  /-- an element lock is only touched by a thread with a claim on the node -/
  elk : ∀ n, sh'.elk n ≠ sh.elk n → IsLinked sh n ∨ sh.unlinker n = some tid ∨ tid ∈ (sh.elk n).r ∨ (sh.elk n).w = some tid
  freed : ∀ n, sh'.freed n ≠ sh.freed n → sh.unlinker n = some tid ∧ (sh.elk n).w = none ∧ (sh.elk n).r = []
  unlinker : ∀ n, sh'.unlinker n ≠ sh.unlinker n → IsLinked sh n
  linked : ∀ n, IsLinked sh' n → IsLinked sh n ∨ sh.nextId ≤ n.id
  nextId : sh.nextId ≤ sh'.nextId

/-- What has to be shown about one step for the second invariant. -/
structure StepOK2 (hash : Nat → Nat) (sh : Sh) (tid : Tid) (t : Th) (sh' : Sh) (t' : Th) : Prop where
  shinv : ShInv2 sh'
  thinv : ThInv2 hash sh' tid t'
  frame : Frame2 sh tid sh'

theorem holdsE_frame {sh sh' : Sh} {tid t' : Tid} (hF : Frame2 sh tid sh') (hne : t' ≠ tid) (a : Node × Bool)
    (h : HoldsE sh t' a) : HoldsE sh' t' a := by
  unfold HoldsE at *
  split
  · rename_i hw; rw [if_pos hw] at h; exact (hF.elkW a.1 t' hne).2 h
  · rename_i hw; rw [if_neg hw] at h; exact (hF.elkR a.1 t' hne).2 h

theorem unlinked_frame {sh sh' : Sh} {tid t' : Tid} {th : Th} (hF : Frame2 sh tid sh') (hne : t' ≠ tid)
    (h : Unlinked sh t' th) : Unlinked sh' t' th := by
  obtain ⟨n, h1, h2, h3, h4, h5⟩ := h
  refine ⟨n, h1, ?_, ?_, ?_, Nat.lt_of_lt_of_le h5 hF.nextId⟩
  · apply Classical.byContradiction
    intro hc
    have : sh'.unlinker n ≠ sh.unlinker n := by rw [h2]; exact hc
    exact h3 (hF.unlinker n this)
  · intro hl
    rcases hF.linked n hl with h | h
    · exact h3 h
    · omega
  · apply Classical.byContradiction
    intro hc
    have : sh'.freed n ≠ sh.freed n := by rw [h4]; exact hc
    have := (hF.freed n this).1
    rw [h2] at this
    exact hne (Option.some.inj this)

/-- The second invariant of another thread survives the step. -/
theorem others_ok2 {hash : Nat → Nat} {sh sh' : Sh} {tid t' : Tid} {th : Th} (hF : Frame2 sh tid sh') (hne : t' ≠ tid)
    (hwf : ∀ n, (sh.elk n).Wf) (hT : ThInv2 hash sh t' th) : ThInv2 hash sh' t' th := by
  refine ⟨?_, fun n hn => Nat.lt_of_lt_of_le (hT.nOk n hn) hF.nextId, hT.ex, hT.accNone, ?_⟩
  · intro n w ha
    obtain ⟨h1, h2, h3⟩ := hT.heldE n w ha
    refine ⟨holdsE_frame hF hne (n, w) h1, ?_, Nat.lt_of_lt_of_le h3 hF.nextId⟩
    apply Classical.byContradiction
    intro hc
    have hch : sh'.freed n ≠ sh.freed n := by rw [h2]; exact hc
    obtain ⟨_, hw0, hr0⟩ := hF.freed n hch
    unfold HoldsE at h1
    split at h1
    · rw [hw0] at h1; cases h1
    · rw [hr0] at h1; cases h1
  · have hd := hT.d
    -- an element lock word that another thread's facts mention is not touched
    have elk_same : ∀ n, sh.unlinker n = some t' → ¬ IsLinked sh n → (sh.elk n).r = [] ∨ (sh.elk n).w = some t' →
        (sh.elk n).w ≠ some tid → sh'.elk n = sh.elk n := by
      intro n hu hl hr hw
      apply Classical.byContradiction
      intro hc
      rcases hF.elk n hc with h | h | h | h
      · exact hl h
      · rw [hu] at h; exact hne (Option.some.inj h)
      · rcases hr with hr | hr
        · rw [hr] at h; cases h
        · have := hwf n t' hr; rw [this] at h; cases h
      · exact hw h
    cases hpc : th.pc <;> rw [hpc] at hd <;> simp only [DAt] at hd ⊢
    case relB a => cases a <;> simp only [DAt] at hd ⊢ <;> first | trivial | exact unlinked_frame hF hne hd
    case eLock => exact unlinked_frame hF hne hd
    case xUpg => exact unlinked_frame hF hne hd
    case xRelock => exact unlinked_frame hF hne hd
    case eRel =>
      obtain ⟨hu, n, hn, hw⟩ := hd
      exact ⟨unlinked_frame hF hne hu, n, hn, (hF.elkW n t' hne).2 hw⟩
    case free =>
      obtain ⟨hu, n, hn, hw, hr⟩ := hd
      refine ⟨unlinked_frame hF hne hu, n, hn, ?_⟩
      obtain ⟨n', hn', hu', hl', _, _⟩ := hu
      rw [hn] at hn'; cases hn'
      have := elk_same n hu' hl' (Or.inl hr) (by rw [hw]; simp)
      rw [this]; exact ⟨hw, hr⟩

theorem inv2_step_of (hash : Nat → Nat) (st : St) (a : Act) (hI2 : Inv2 hash st)
    (hok : ∀ t, st.ths[a.tid]? = some t →
      StepOK2 hash st.sh a.tid t (stepTh hash st.sh a.tid t a.alt).1 (stepTh hash st.sh a.tid t a.alt).2.1) :
    Inv2 hash (step hash st a) := by
  unfold step
  cases hget : st.ths[a.tid]? with
  | none => simpa using hI2
  | some t =>
    have ok := hok t hget
    simp only
    generalize (stepTh hash st.sh a.tid t a.alt).1 = sh' at ok
    generalize (stepTh hash st.sh a.tid t a.alt).2.1 = t' at ok
    refine ⟨ok.shinv, ?_⟩
    intro j tj hj
    by_cases hja : j = a.tid
    · subst hja
      rw [(getElem?_set_self' _ _ _ _ hj).1]
      exact ok.thinv
    · rw [List.getElem?_set_ne (Ne.symm hja)] at hj
      exact others_ok2 ok.frame hja hI2.sh.ewf (hI2.th j tj hj)

end TbbVerif.C10
