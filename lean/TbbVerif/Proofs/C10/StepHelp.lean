/- C10: helpers for the step proofs of the operation pcs. -/
import TbbVerif.Proofs.C10.StepAcq2

namespace TbbVerif.C10

/-- a step that leaves buckets, bucket locks, mask and segment table alone -/
theorem stepOK_same {hash : Nat → Nat} {sh sh' : Sh} {tid : Tid} {t t' : Th} (hS : ShInv hash sh)
    (hb : sh'.bkt = sh.bkt) (hl : sh'.blk = sh.blk) (hv : sh'.lvl = sh.lvl) (hs : sh'.seg = sh.seg)
    (hT' : ThInv hash sh tid t') (hg : t'.grow ≠ 0 → t.grow ≠ 0) : StepOK hash sh tid t sh' t' := by
  refine ⟨shinv_congr hS hb hl hv hs, thinv_congr hT' hb hl hv hs, ?_, fun h => absurd hv h, fun h => Or.inl (hg h)⟩
  apply Frame.mk'
  · rw [hl]; exact LockFrame.refl _ _
  · rw [hb]; exact BktFrame.refl _ _ _
  · rw [hv]; exact Nat.le_refl _
  · intro k hk; rw [hs]; exact hk

/-- building the invariant of the stepping thread from the old one -/
theorem thinv_mk' {hash : Nat → Nat} {sh : Sh} {tid : Tid} {t t' : Th} (hT : ThInv hash sh tid t)
    (hheld : ∀ f ∈ t'.stk, HoldsB sh tid f) (hops : t'.ops = t.ops) (hh : t'.h = t.h) (hpc : t.pc ≠ .idle)
    (hrs : t'.rs = true → t'.pc = .chk1 ∨ t'.pc = .chk2 ∨ t'.pc = .relB .restart)
    (hc : CAt sh tid t' t'.pc) (hg : GrowAt sh t') : ThInv hash sh tid t' := by
  refine ⟨hheld, ?_, hrs, hc, hg⟩
  intro _ hk
  rw [hh, op_eq_of_ops hops]
  rw [op_eq_of_ops hops] at hk
  exact hT.hOk hpc hk

/-- GrowAt when only the pc moves among pcs that do not take part in the growth protocol and `grow = 0` -/
theorem growAt_zero {sh : Sh} {t' : Th} (hm : t'.m ≤ sh.lvl) (hg : t'.grow = 0) (h1 : t'.pc ≠ .alloc) (h2 : t'.pc ≠ .pubMask) : GrowAt sh t' :=
  ⟨hm, fun h => absurd hg h, fun h => absurd h h1, fun h => absurd h h2⟩

theorem opFrame_setBL {sh : Sh} {t t' : Th} {b x : Nat} {l : Lock} (hh : t'.h = t.h) (h : OpFrame sh t b) : OpFrame (sh.setBL x l) t' b :=
  opFrame_same rfl rfl hh h

theorem notFound_same {sh sh' : Sh} {t t' : Th} {b : Nat} (hc : sh'.chainOf b = sh.chainOf b) (hops : t'.ops = t.ops) (hn : t'.n = t.n)
    (h : NotFound sh t b) : NotFound sh' t' b := by
  unfold NotFound at *
  rw [hc, op_eq_of_ops hops, hn]; exact h

theorem found_same {sh sh' : Sh} {t t' : Th} {b : Nat} (hc : sh'.chainOf b = sh.chainOf b) (hops : t'.ops = t.ops) (hn : t'.n = t.n)
    (h : Found sh t b) : Found sh' t' b := by
  unfold Found at *
  rw [hc, op_eq_of_ops hops, hn]; exact h

/-- HomeIs only depends on which buckets are chains, and on the mask -/
theorem homeIs_congr {sh sh' : Sh} {h b : Nat} (hc : ∀ x, (sh'.bkt x).isChain = (sh.bkt x).isChain) (hv : sh.lvl ≤ sh'.lvl)
    (hH : HomeIs sh h b) : HomeIs sh' h b := by
  obtain ⟨⟨l, h1, h2⟩, h3, h4⟩ := hH
  exact ⟨⟨l, Nat.le_trans h1 hv, h2⟩, by rw [hc]; exact h3, fun l' hl' => by rw [hc]; exact h4 l' hl'⟩

/-- Replacing the chain of bucket `b` (which is and stays a chain) by `c'`, every node of which has its home there. -/
theorem shinv_setChain {hash : Nat → Nat} {sh sh1 : Sh} {b : Nat} {c' : List Node} (hS : ShInv hash sh)
    (hch : (sh.bkt b).isChain = true) (hbk : ∀ x, sh1.bkt x = if x = b then .chain c' else sh.bkt x)
    (hblk : sh1.blk = sh.blk) (hlvl : sh1.lvl = sh.lvl) (hseg : sh1.seg = sh.seg)
    (hhome : ∀ n ∈ c', HomeIs sh (hash n.key) b) (hnd : (c'.map (·.key)).Nodup) : ShInv hash sh1 := by
  have hic : ∀ x, (sh1.bkt x).isChain = (sh.bkt x).isChain := by
    intro x; rw [hbk]; split
    · rename_i h; rw [h, hch]; rfl
    · rfl
  have hco : ∀ x, sh1.chainOf x = if x = b then c' else sh.chainOf x := by
    intro x; unfold Sh.chainOf; rw [hbk]; split <;> rfl
  refine ⟨by rw [hlvl]; exact hS.lvl_pos, fun x hx => by rw [hic]; exact hS.emb x hx, ?_, fun x h2 hx => by rw [hic] at hx ⊢; exact hS.closed x h2 hx,
    ?_, ?_, by rw [hblk]; exact hS.bwf, ?_, by rw [hlvl, hseg]; exact hS.seg_lo⟩
  · intro x hx
    rw [hlvl] at hx
    rw [hbk]; split
    · rename_i h; have := hS.top x hx; rw [h] at this; rw [this] at hch; cases hch
    · exact hS.top x hx
  · intro x n hn
    rw [hco] at hn
    apply homeIs_congr hic (by rw [hlvl]; exact Nat.le_refl _)
    split at hn
    · rename_i h; rw [h]; exact hhome n hn
    · exact hS.home x n hn
  · intro x; rw [hco]; split
    · exact hnd
    · exact hS.nodup x
  · intro x o hx
    rw [hblk]
    rw [hbk] at hx
    split at hx
    · cases hx
    · exact hS.pend x o hx

theorem bktFrame_setChain {sh sh1 : Sh} {tid : Tid} {b : Nat} {c' : List Node} (hch : (sh.bkt b).isChain = true)
    (hbk : ∀ x, sh1.bkt x = if x = b then .chain c' else sh.bkt x) (hW : (sh1.blk b).w = some tid) :
    BktFrame sh.bkt sh1.bkt sh1.blk tid := by
  refine ⟨?_, ?_, ?_, ?_⟩
  · intro x hx; rw [hbk] at hx; split at hx
    · rename_i h; rw [h]; exact hW
    · exact absurd rfl hx
  · intro x hx; rw [hbk]; split
    · rfl
    · exact hx
  · intro x hx; rw [hbk]; split
    · rfl
    · exact hx
  · intro x h1 h2; rw [hbk] at h2; split at h2
    · rename_i h; rw [h, hch] at h1; cases h1
    · rw [h1] at h2; cases h2

end TbbVerif.C10
