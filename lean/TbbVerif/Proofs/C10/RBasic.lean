/- C10 (refined model): structural lemmas about `HMapR`; the refined run projects onto an `HMap` run by construction. -/
import TbbVerif.Model.C10R
import TbbVerif.Proofs.C10.Reach

namespace TbbVerif.C10R

open TbbVerif.C10

@[simp] theorem setL_a (s : RSt) (L : LId) (c : C08.St) : (setL s L c).a = s.a := by cases L <;> rfl
@[simp] theorem setL_rt (s : RSt) (L : LId) (c : C08.St) : (setL s L c).rt = s.rt := by cases L <;> rfl

theorem getL_setL_same (s : RSt) (L : LId) (c : C08.St) : getL (setL s L c) L = c := by
  cases L <;> simp [getL, setL, upd, updN]

theorem getL_setL_other (s : RSt) {L L' : LId} (c : C08.St) (h : L' ≠ L) : getL (setL s L c) L' = getL s L' := by
  cases L <;> cases L' <;> simp [getL, setL, upd, updN] <;> intro h' <;> subst h' <;> exact absurd rfl h

theorem getL_setL (s : RSt) (L L' : LId) (c : C08.St) : getL (setL s L c) L' = if L' = L then c else getL s L' := by
  by_cases h : L' = L
  · subst h; rw [if_pos rfl]; exact getL_setL_same s _ c
  · rw [if_neg h]; exact getL_setL_other s c h

theorem runFrom_nil (hash : Nat → Nat) (st : St) : runFrom hash st [] = st := rfl
theorem runFrom_cons (hash : Nat → Nat) (st : St) (a : Act) (as : List Act) :
    runFrom hash st (a :: as) = runFrom hash (step hash st a) as := rfl
theorem runFrom_append (hash : Nat → Nat) (st : St) (as bs : List Act) :
    runFrom hash st (as ++ bs) = runFrom hash (runFrom hash st as) bs := by
  simp [runFrom, List.foldl_append]

theorem lockAccess_a (hash : Nat → Nat) (s : RSt) (tid : Tid) (t : Th) (r : RTh) (L : LId) :
    (lockAccess hash s tid t r L).a = runFrom hash s.a (accActs s.a.sh tid t r (getL s L)) := by
  cases h1 : (getL s L).ths[tid]? with
  | none => simp only [lockAccess, accActs, h1]; rfl
  | some th =>
    cases h2 : (C08.step (getL s L) tid).ths[tid]? with
    | none => simp only [lockAccess, accActs, h1, h2]; rfl
    | some th' => simp only [lockAccess, accActs, h1, h2, setL_a]

/-- **Refinement by construction (one step).** The `HMap` component of the refined state after a step is the `HMap` state
after the steps `actsOf s x` (none for a word access without effect, one for an access that takes effect, two when a
lagging `bucket_accessor::acquire` catches up). -/
theorem rstep_a (hash : Nat → Nat) (s : RSt) (x : Act) : (rstep hash s x).a = runFrom hash s.a (actsOf s x) := by
  cases h1 : s.a.ths[x.tid]? with
  | none => simp only [rstep, actsOf, h1]; rfl
  | some t =>
    cases h2 : s.rt[x.tid]? with
    | none => simp only [rstep, actsOf, h1, h2]; rfl
    | some r =>
      cases hc : r.cur with
      | some L => simp only [rstep, actsOf, h1, h2, hc, lockAccess_a]
      | none =>
        cases hr : request t r x.alt with
        | some p =>
          obtain ⟨L, op⟩ := p
          simp only [rstep, actsOf, h1, h2, hc, hr, setL_a]
          rfl
        | none =>
          simp only [rstep, actsOf, h1, h2, hc, hr]
          split <;> rfl

theorem rrunFrom_a (hash : Nat → Nat) (sched : List Act) : ∀ s : RSt,
    (rrunFrom hash s sched).a = runFrom hash s.a (absSchedFrom hash s sched) := by
  induction sched with
  | nil => intro s; rfl
  | cons x xs ih =>
    intro s
    show (rrunFrom hash (rstep hash s x) xs).a = _
    rw [ih, rstep_a]
    show _ = runFrom hash s.a (actsOf s x ++ absSchedFrom hash (rstep hash s x) xs)
    rw [runFrom_append]

/-- **hmapr_refines.** Every run of the refined model (real lock words) projects onto a run of `HMap` under the schedule
`absSched`: the same threads, the same programs. -/
theorem rrun_a (hash : Nat → Nat) (progs : List (List Op)) (sched : List Act) :
    (rrun hash progs sched).a = run hash progs (absSched hash progs sched) :=
  rrunFrom_a hash sched (rinit progs)

end TbbVerif.C10R
