/- C10 (refined model): assembling `Coupled` for the state after one access to a lock word from the local obligations
(what the access did to the accessed word / the stepping thread); everything about other locks and other threads is
framed here, once. -/
import TbbVerif.Proofs.C10.RAbs

namespace TbbVerif.C10R

open TbbVerif.C10

theorem step_len' (hash : Nat → Nat) (st : St) (a : Act) : (step hash st a).ths.length = st.ths.length := by
  unfold step
  cases h : st.ths[a.tid]? with
  | none => rfl
  | some t => simp

theorem runFrom_len (hash : Nat → Nat) (acts : List Act) : ∀ st : St, (runFrom hash st acts).ths.length = st.ths.length := by
  induction acts with
  | nil => intro st; rfl
  | cons a as ih => intro st; rw [runFrom_cons, ih, step_len']

theorem step_other (hash : Nat → Nat) (st : St) (a : Act) (j : Nat) (hj : j ≠ a.tid) : (step hash st a).ths[j]? = st.ths[j]? := by
  unfold step
  cases h : st.ths[a.tid]? with
  | none => rfl
  | some t => simp only; rw [List.getElem?_set_ne (Ne.symm hj)]

theorem step_self (hash : Nat → Nat) (st : St) (tid alt : Nat) (t : Th) (h : st.ths[tid]? = some t) :
    (step hash st { tid := tid, alt := alt }).ths[tid]? = some (stepTh hash st.sh tid t alt).2.1 ∧
    (step hash st { tid := tid, alt := alt }).sh = (stepTh hash st.sh tid t alt).1 := by
  unfold step
  simp only [h]
  exact ⟨List.getElem?_set_self (lt_of_get h), trivial⟩

/-- a flagged bucket was flagged before the step (flags are only ever cleared) -/
theorem flag_mono (hash : Nat → Nat) (st : St) (a : Act) (hI : InvAll hash st) (b : Nat)
    (h : ((step hash st a).sh.bkt b).isFlagged = true) : (st.sh.bkt b).isFlagged = true := by
  unfold step at h
  cases hg : st.ths[a.tid]? with
  | none => rw [hg] at h; exact h
  | some t =>
    rw [hg] at h
    simp only at h
    have ok := stepOK_all a.alt hI.i1.sh (hI.i1.th a.tid t hg)
    cases hb : (st.sh.bkt b).isFlagged with
    | true => rfl
    | false => have := ok.frame.unflag b hb; rw [this] at h; cases h

theorem flag_mono_run (hash : Nat → Nat) (acts : List Act) : ∀ (st : St), InvAll hash st → ∀ b,
    ((runFrom hash st acts).sh.bkt b).isFlagged = true → (st.sh.bkt b).isFlagged = true := by
  induction acts with
  | nil => intro st _ b h; exact h
  | cons a as ih =>
    intro st hI b h
    rw [runFrom_cons] at h
    exact flag_mono hash st a hI b (ih _ (invAll_step hash st a hI) b h)

/-- The state after an access of thread `tid` to the word of lock `L`, described by what the proof needs. -/
structure AccessOut (hash : Nat → Nat) (s s' : RSt) (tid : Tid) (L : LId) (t t' : Th) (th' : C08.Th) (r' : RTh) : Prop where
  gl : ∀ L', getL s' L' = if L' = L then C08.step (getL s L) tid else getL s L'
  rt : s'.rt = s.rt.set tid r'
  inv : InvAll hash s'.a
  es : ∀ (tid : Nat) (t : Th), s'.a.ths[tid]? = some t → ESlot t
  len : s'.a.ths.length = s.a.ths.length
  oth : ∀ j, j ≠ tid → s'.a.ths[j]? = s.a.ths[j]?
  self : s'.a.ths[tid]? = some t'
  slot' : (C08.step (getL s L) tid).ths[tid]? = some th'
  flagmono : ∀ b, (s'.a.sh.bkt b).isFlagged = true → (s.a.sh.bkt b).isFlagged = true
  lockO : ∀ L', L' ≠ L → lockOf s'.a.sh L' = lockOf s.a.sh L'
  fother : ∀ i, i ≠ tid → ((lockOf s'.a.sh L).w = some i → (lockOf s.a.sh L).w = some i) ∧ (i ∈ (lockOf s'.a.sh L).r → i ∈ (lockOf s.a.sh L).r)
  selfSpec : ((lockOf s'.a.sh L).w = some tid → th'.phase = .holdW) ∧ (tid ∈ (lockOf s'.a.sh L).r → phaseR th'.phase)
  specN : (lockOf s'.a.sh L).r.Nodup ∧ (∀ i, (lockOf s'.a.sh L).w = some i → i < s.a.ths.length) ∧ (∀ i, i ∈ (lockOf s'.a.sh L).r → i < s.a.ths.length)
  hwO : ∀ L', L' ≠ L → HW t L' → HW t' L'
  hrO : ∀ L', L' ≠ L → HR t L' → HR t' L'
  selfPh : (th'.phase = .holdW → HW t' L) ∧ (phaseR th'.phase → HR t' L)
  flagL : ∀ b, L = .b b → FlagC s' b
  keepW : ∀ b, (s'.a.sh.bkt b).isFlagged = true → ∀ A, (s.a.sh.blk b).w = some A → ∃ A', (s'.a.sh.blk b).w = some A'
  thC : ThC s' tid t' r'

theorem slot_of_getL {s s' : RSt} {tid : Tid} {L : LId} (h : ∀ L', getL s' L' = if L' = L then C08.step (getL s L) tid else getL s L')
    (L' : LId) (j : Nat) (hj : j ≠ tid ∨ L' ≠ L) : slot s' L' j = slot s L' j := by
  unfold slot
  rw [h L']
  split
  · rename_i hL
    subst hL
    rcases hj with hj | hj
    · exact step_slot_other _ _ _ hj
    · exact absurd rfl hj
  · rfl

theorem access_coupled {hash : Nat → Nat} {s s' : RSt} {tid : Tid} {L : LId} {t t' : Th} {th th' : C08.Th} {r r' : RTh}
    (hC : Coupled hash s) (ht : s.a.ths[tid]? = some t) (hr : s.rt[tid]? = some r) (hth : slot s L tid = some th) (hpre : PreOK th)
    (o : AccessOut hash s s' tid L t t' th' r') : Coupled hash s' := by
  have hslotL : slot s' L tid = some th' := by unfold slot; rw [o.gl L, if_pos rfl]; exact o.slot'
  refine ⟨o.inv, o.es, ?_, ?_, ?_, ?_, ?_, ?_, ?_⟩
  · rw [o.rt, o.len]; simp [hC.rtlen]
  · intro L'
    rw [o.len, o.gl L']
    split
    · rename_i hL; subst hL
      exact step_ok (hC.lk _) hth hpre
    · exact hC.lk L'
  · -- spec
    intro L' i thi hs
    by_cases hL : L' = L
    · subst hL
      by_cases hi : i = tid
      · subst hi
        rw [hslotL] at hs; cases hs
        exact o.selfSpec
      · rw [slot_of_getL o.gl _ i (Or.inl hi)] at hs
        have := hC.spec _ i thi hs
        exact ⟨fun h => this.1 ((o.fother i hi).1 h), fun h => this.2 ((o.fother i hi).2 h)⟩
    · rw [slot_of_getL o.gl L' i (Or.inr hL)] at hs
      rw [o.lockO L' hL]
      exact hC.spec L' i thi hs
  · -- specN
    intro L'
    by_cases hL : L' = L
    · subst hL; rw [o.len]; exact o.specN
    · rw [o.lockO L' hL, o.len]; exact hC.specN L'
  · -- ph
    intro L' j tj thj hj hs
    by_cases hjt : j = tid
    · subst hjt
      rw [o.self] at hj; cases hj
      by_cases hL : L' = L
      · subst hL
        rw [hslotL] at hs; cases hs
        exact o.selfPh
      · rw [slot_of_getL o.gl L' j (Or.inr hL)] at hs
        have := hC.ph L' j t thj ht hs
        exact ⟨fun h => o.hwO L' hL (this.1 h), fun h => o.hrO L' hL (this.2 h)⟩
    · rw [o.oth j hjt] at hj
      rw [slot_of_getL o.gl L' j (Or.inl hjt)] at hs
      exact hC.ph L' j tj thj hj hs
  · -- flag
    intro b
    by_cases hL : L = .b b
    · exact o.flagL b hL
    · intro hf
      have hf0 := o.flagmono b hf
      obtain ⟨h1, h2⟩ := hC.flag b hf0
      have hg : s'.bw b = s.bw b := by
        have := o.gl (.b b)
        rw [if_neg (fun h => hL h.symm)] at this
        exact this
      have hl := o.lockO (.b b) (fun h => hL h.symm)
      simp only [lockOf] at hl
      rw [hg, hl]
      exact ⟨h1, h2⟩
  · -- threads
    intro j tj rj hj hrj
    by_cases hjt : j = tid
    · subst hjt
      rw [o.self] at hj; cases hj
      rw [o.rt, List.getElem?_set_self (lt_of_get hr)] at hrj
      cases hrj
      exact o.thC
    · rw [o.oth j hjt] at hj
      rw [o.rt, List.getElem?_set_ne (Ne.symm hjt)] at hrj
      have hT := hC.th j tj rj hj hrj
      refine ⟨hT.inop, ?_, ?_, hT.lagpc, ?_⟩
      · intro L' thj hc hs
        rw [slot_of_getL o.gl L' j (Or.inl hjt)] at hs
        exact hT.other L' thj hc hs
      · intro L' hc
        obtain ⟨thj, op, h1, h2⟩ := hT.cur L' hc
        exact ⟨thj, op, by rw [slot_of_getL o.gl L' j (Or.inl hjt)]; exact h1, h2⟩
      · intro hl hf
        obtain ⟨A, hA⟩ := hT.lagK hl (o.flagmono _ hf)
        exact o.keepW _ hf A hA

end TbbVerif.C10R
