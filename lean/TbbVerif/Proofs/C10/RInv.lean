/- C10 (refined model): the coupling invariant between the word-level lock machines (C08) and the `HMap` state.

`Coupled` says, for every reachable state of `HMapR`:
  * the `HMap` component satisfies all `HMap` invariants (`InvAll`);
  * every lock word with its per-thread protocol state satisfies C08's invariant, was never misused, is dimensioned for
    the threads of the run (`LockOK`);
  * the ghost specification lock (`Lock`: writer, readers) is exact: whoever it names as writer is in C08 phase `holdW` on
    that word, whoever it lists as reader is in a shared phase, nobody is listed twice (`spec`);
  * whatever phase a thread is in on a word, the thread's `HMap` state accounts for it: the bucket is on its stack in
    that mode / the element is the one its accessor (or its `internal_erase`) holds (`ph`);
  * per thread: only the lock it is working on has an operation in its slot, and that operation is the one its pc calls
    for (`ThC`, `CurOK`);
  * flagged buckets: nobody but a writer that is about to mark the bucket has touched the word (`FlagC`), which is why a
    failed `try_acquire` on a still flagged bucket means that a writer is inside (`lagK`).
-/
import TbbVerif.Proofs.C10.RLock

namespace TbbVerif.C10R

open TbbVerif.C10

def lockOf (sh : Sh) : LId → Lock
  | .b i => sh.blk i
  | .e n => sh.elk n

def slot (s : RSt) (L : LId) (tid : Tid) : Option C08.Th := (getL s L).ths[tid]?

/-- the thread's `HMap` state says it holds lock `L` exclusively -/
def HW (t : Th) : LId → Prop
  | .b b => (b, true) ∈ t.stk
  | .e n => t.acc = some (n, true) ∨ (t.acc = none ∧ t.pc = .eRel ∧ t.n = some n)

/-- … in shared mode -/
def HR (t : Th) : LId → Prop
  | .b b => (b, false) ∈ t.stk
  | .e n => t.acc = some (n, false)

/-- where the code releases lock `L` held in mode `w` -/
def RelAt (t : Th) (L : LId) (w : Bool) : Prop :=
  (t.pc = .rhRel ∧ (∃ rest, t.stk = (t.b0, w) :: rest) ∧ L = .b t.b0) ∨
  ((∃ a, t.pc = .relB a) ∧ t.stk = [(t.b0, w)] ∧ L = .b t.b0) ∨
  (t.pc = .elemTry ∧ t.stk = [(t.b0, w)] ∧ L = .b t.b0 ∧ (t.ret && t.op.k == .ins) = false ∧ t.n.isSome = true) ∨
  (t.pc = .eRel ∧ t.n.map LId.e = some L ∧ w = true) ∨
  (t.pc = .xRelAcc ∧ ∃ n, t.acc = some (n, w) ∧ L = .e n) ∨
  (t.pc = .idle ∧ (∃ o rest, t.ops = o :: rest ∧ o.k = .release) ∧ ∃ n, t.acc = some (n, w) ∧ L = .e n)

/-- the operation in a thread's slot of lock `L` is the one its `HMap` pc calls for -/
def CurOK (t : Th) (r : RTh) (L : LId) (op : C08.Op) (th : C08.Th) : Prop :=
  match op with
  | .tryLock => th.phase = .idle ∧
      ((t.pc = .lockTry ∧ r.lag = false ∧ L = .b t.tgt) ∨ (t.pc = .elemTry ∧ t.n.map LId.e = some L ∧ t.op.acc = 2))
  | .tryLockShared => (th.phase = .idle ∨ th.phase = .rt) ∧ t.pc = .elemTry ∧ t.n.map LId.e = some L ∧ t.op.acc ≠ 2
  | .lock => th.phase = .idle ∧
      (((t.pc = .lockBlk ∨ (t.pc = .lockTry ∧ r.lag = true)) ∧ wantW t = true ∧ L = .b t.tgt) ∨ (t.pc = .eLock ∧ t.n.map LId.e = some L))
  | .lockShared => (th.phase = .idle ∨ th.phase = .rt) ∧ (t.pc = .lockBlk ∨ (t.pc = .lockTry ∧ r.lag = true)) ∧ wantW t = false ∧ L = .b t.tgt
  | .upgrade =>
      (phaseR th.phase ∧ (((t.pc = .rhUpg ∨ t.pc = .upg ∨ t.pc = .eUpg) ∧ t.stk ≠ [] ∧ L = .b t.b0) ∨ (t.pc = .xUpg ∧ t.n.map LId.e = some L))) ∨
      (th.phase = .idle ∧ th.pc ≠ .start ∧
        (((t.pc = .rhRelock ∨ t.pc = .relock ∨ t.pc = .eRelock) ∧ L = .b t.tgt) ∨ (t.pc = .xRelock ∧ t.n.map LId.e = some L)))
  | .unlock => th.phase = .holdW ∧ RelAt t L true
  | .unlockShared => th.phase = .holdR ∧ RelAt t L false
  | .downgrade => th.phase = .holdW ∧ t.pc = .dng ∧ (∃ w, t.stk = [(t.b0, w)]) ∧ L = .b t.b0

/-- pcs at which the slow path of `upgrade()` re-acquires (entered, and left, only in the middle of that operation) -/
def relockPc (p : Pc) : Bool := p == .relock || p == .rhRelock || p == .eRelock || p == .xRelock
def upgPc (p : Pc) : Bool := p == .upg || p == .rhUpg || p == .eUpg || p == .xUpg

structure ThC (s : RSt) (tid : Tid) (t : Th) (r : RTh) : Prop where
  /-- at the pcs of the re-acquisition the `upgrade` is in progress (the thread is never stuck there) -/
  inop : relockPc t.pc = true → r.cur ≠ none
  other : ∀ (L : LId) (th : C08.Th), r.cur ≠ some L → slot s L tid = some th → th.ops = []
  cur : ∀ L, r.cur = some L → ∃ th op, slot s L tid = some th ∧ th.ops = [op] ∧ PreOK th ∧ CurOK t r L op th
  lagpc : r.lag = true → t.pc = .lockTry
  lagK : r.lag = true → (s.a.sh.bkt t.tgt).isFlagged = true → ∃ A, (s.a.sh.blk t.tgt).w = some A

/-- a flagged bucket's word: untouched, or taken by the writer that is going to rehash it (others can only have failed a
`try_lock` and now wait) -/
def FlagC (s : RSt) (b : Nat) : Prop :=
  (s.a.sh.bkt b).isFlagged = true →
    (∀ (i : Nat) (th : C08.Th), (s.bw b).ths[i]? = some th →
        (th.phase = .idle ∨ th.phase = .holdW) ∧ th.pc ≠ .sharedAdd ∧ (th.pc = .lockCas → th.sv = 0)) ∧
    ((s.a.sh.blk b).w = none → (s.bw b).word = {})

structure Coupled (hash : Nat → Nat) (s : RSt) : Prop where
  abs : InvAll hash s.a
  es : ∀ (tid : Nat) (t : Th), s.a.ths[tid]? = some t → ESlot t
  rtlen : s.rt.length = s.a.ths.length
  lk : ∀ L, LockOK s.a.ths.length (getL s L)
  /-- the ghost specification lock names only threads that really hold the word -/
  spec : ∀ (L : LId) (i : Nat) (th : C08.Th), slot s L i = some th →
      ((lockOf s.a.sh L).w = some i → th.phase = .holdW) ∧ (i ∈ (lockOf s.a.sh L).r → phaseR th.phase)
  specN : ∀ L, (lockOf s.a.sh L).r.Nodup ∧ (∀ i, (lockOf s.a.sh L).w = some i → i < s.a.ths.length) ∧
      (∀ i, i ∈ (lockOf s.a.sh L).r → i < s.a.ths.length)
  /-- what a thread holds on a word is accounted for by its `HMap` state -/
  ph : ∀ (L : LId) (tid : Nat) (t : Th) (th : C08.Th), s.a.ths[tid]? = some t → slot s L tid = some th →
      (th.phase = .holdW → HW t L) ∧ (phaseR th.phase → HR t L)
  flag : ∀ b, FlagC s b
  th : ∀ (tid : Nat) (t : Th) (r : RTh), s.a.ths[tid]? = some t → s.rt[tid]? = some r → ThC s tid t r

end TbbVerif.C10R
