/- C10: steps of the element-lock / erase tail (eLock, eRel, free, xUpg, xRelock, xRelAcc), elemTry and relB. -/
import TbbVerif.Proofs.C10.StepHelp

namespace TbbVerif.C10

theorem stepOK_eLock {hash : Nat → Nat} {sh : Sh} {tid : Tid} {t : Th} (alt : Nat) (hS : ShInv hash sh) (hT : ThInv hash sh tid t)
    (hpc : t.pc = .eLock) : StepOK hash sh tid t (stepTh hash sh tid t alt).1 (stepTh hash sh tid t alt).2.1 := by
  have hc := hT.c
  rw [hpc] at hc
  simp only [CAt] at hc
  have hg0 := grow_zero_of_pc hT.g (by rw [hpc]; simp) (by rw [hpc]; simp) (by rw [hpc]; simp) (by rw [hpc]; simp)
  have hrs0 := rs_false_of_pc hT (by rw [hpc]; simp) (by rw [hpc]; simp) (by rw [hpc]; simp)
  have hpci : t.pc ≠ .idle := by rw [hpc]; simp
  have hstep : stepTh hash sh tid t alt =
      (match t.n with
      | some n =>
          if (sh.elk n).isFree = true then (sh.setEL n ((sh.elk n).setW tid), { t with pc := .eRel }, .el n.id true)
          else (sh, t, .blocked)
      | none => (sh, t, .none)) := by
    unfold stepTh
    rw [hpc]
    simp only
    rfl
  rw [hstep]
  split
  · split
    · refine stepOK_same hS rfl rfl rfl rfl ?_ (fun h => h)
      refine thinv_same_sh hT rfl rfl rfl rfl rfl rfl hpci hrs0 hg0 ⟨by simp, by simp⟩ ?_
      simp only [CAt]
      exact hc
    · exact stepOK_refl hS hT
  · exact stepOK_refl hS hT

theorem stepOK_eRel {hash : Nat → Nat} {sh : Sh} {tid : Tid} {t : Th} (alt : Nat) (hS : ShInv hash sh) (hT : ThInv hash sh tid t)
    (hpc : t.pc = .eRel) : StepOK hash sh tid t (stepTh hash sh tid t alt).1 (stepTh hash sh tid t alt).2.1 := by
  have hc := hT.c
  rw [hpc] at hc
  simp only [CAt] at hc
  have hg0 := grow_zero_of_pc hT.g (by rw [hpc]; simp) (by rw [hpc]; simp) (by rw [hpc]; simp) (by rw [hpc]; simp)
  have hrs0 := rs_false_of_pc hT (by rw [hpc]; simp) (by rw [hpc]; simp) (by rw [hpc]; simp)
  have hpci : t.pc ≠ .idle := by rw [hpc]; simp
  have hstep : stepTh hash sh tid t alt =
      (match t.n with
      | some n => (sh.setEL n (sh.elk n).clrW, { t with acc := (if t.op.k == .exclude then none else t.acc), pc := .free }, .euw n.id)
      | none => (sh, t, .none)) := by
    unfold stepTh
    rw [hpc]
    simp only
    rfl
  rw [hstep]
  split
  · refine stepOK_same hS rfl rfl rfl rfl ?_ (fun h => h)
    refine thinv_same_sh hT rfl rfl rfl rfl rfl rfl hpci hrs0 hg0 ⟨by simp, by simp⟩ ?_
    simp only [CAt]
    exact hc
  · exact stepOK_refl hS hT

/-- the invariant of a thread that has just finished its operation (all bucket locks released before) -/
theorem thinv_finish_s2 {hash : Nat → Nat} {sh : Sh} {tid : Tid} {t : Th} (v : Nat) (hm : t.m ≤ sh.lvl) :
    ThInv hash sh tid (t.finish v) := by
  refine ⟨by simp [Th.finish], by simp [Th.finish], by simp [Th.finish], by simp [Th.finish, CAt], ?_⟩
  exact growAt_zero hm rfl (by simp [Th.finish]) (by simp [Th.finish])

theorem stepOK_free {hash : Nat → Nat} {sh : Sh} {tid : Tid} {t : Th} (alt : Nat) (hS : ShInv hash sh) (hT : ThInv hash sh tid t)
    (hpc : t.pc = .free) : StepOK hash sh tid t (stepTh hash sh tid t alt).1 (stepTh hash sh tid t alt).2.1 := by
  have hstep : stepTh hash sh tid t alt =
      (match t.n with
      | some n => ({ sh with freed := updN sh.freed n true }, t.finish, .free n.id)
      | none => (sh, t, .none)) := by
    unfold stepTh
    rw [hpc]
    simp only
    rfl
  rw [hstep]
  split
  · refine stepOK_same hS rfl rfl rfl rfl ?_ (fun h => absurd rfl h)
    exact thinv_finish_s2 0 hT.g.1
  · exact stepOK_refl hS hT

theorem stepOK_xUpg {hash : Nat → Nat} {sh : Sh} {tid : Tid} {t : Th} (alt : Nat) (hS : ShInv hash sh) (hT : ThInv hash sh tid t)
    (hpc : t.pc = .xUpg) : StepOK hash sh tid t (stepTh hash sh tid t alt).1 (stepTh hash sh tid t alt).2.1 := by
  have hc := hT.c
  rw [hpc] at hc
  simp only [CAt] at hc
  have hg0 := grow_zero_of_pc hT.g (by rw [hpc]; simp) (by rw [hpc]; simp) (by rw [hpc]; simp) (by rw [hpc]; simp)
  have hrs0 := rs_false_of_pc hT (by rw [hpc]; simp) (by rw [hpc]; simp) (by rw [hpc]; simp)
  have hpci : t.pc ≠ .idle := by rw [hpc]; simp
  have hstep : stepTh hash sh tid t alt =
      (match t.n with
      | some n =>
          if alt = 0 then
            if (sh.elk n).soleReader tid = true then (sh.setEL n ((sh.elk n).setW tid), { t with acc := some (n, true), pc := .eRel }, .eup n.id)
            else (sh, t, .blocked)
          else (sh.setEL n ((sh.elk n).delR tid), { t with acc := none, pc := .xRelock }, .eur n.id)
      | none => (sh, t, .none)) := by
    unfold stepTh
    rw [hpc]
    simp only
    rfl
  rw [hstep]
  split
  · split
    · split
      · refine stepOK_same hS rfl rfl rfl rfl ?_ (fun h => h)
        refine thinv_same_sh hT rfl rfl rfl rfl rfl rfl hpci hrs0 hg0 ⟨by simp, by simp⟩ ?_
        simp only [CAt]
        exact hc
      · exact stepOK_refl hS hT
    · refine stepOK_same hS rfl rfl rfl rfl ?_ (fun h => h)
      refine thinv_same_sh hT rfl rfl rfl rfl rfl rfl hpci hrs0 hg0 ⟨by simp, by simp⟩ ?_
      simp only [CAt]
      exact hc
  · exact stepOK_refl hS hT

theorem stepOK_xRelock {hash : Nat → Nat} {sh : Sh} {tid : Tid} {t : Th} (alt : Nat) (hS : ShInv hash sh) (hT : ThInv hash sh tid t)
    (hpc : t.pc = .xRelock) : StepOK hash sh tid t (stepTh hash sh tid t alt).1 (stepTh hash sh tid t alt).2.1 := by
  have hc := hT.c
  rw [hpc] at hc
  simp only [CAt] at hc
  have hg0 := grow_zero_of_pc hT.g (by rw [hpc]; simp) (by rw [hpc]; simp) (by rw [hpc]; simp) (by rw [hpc]; simp)
  have hrs0 := rs_false_of_pc hT (by rw [hpc]; simp) (by rw [hpc]; simp) (by rw [hpc]; simp)
  have hpci : t.pc ≠ .idle := by rw [hpc]; simp
  have hstep : stepTh hash sh tid t alt =
      (match t.n with
      | some n =>
          if (sh.elk n).isFree = true then (sh.setEL n ((sh.elk n).setW tid), { t with acc := some (n, true), pc := .eRel }, .el n.id true)
          else (sh, t, .blocked)
      | none => (sh, t, .none)) := by
    unfold stepTh
    rw [hpc]
    simp only
    rfl
  rw [hstep]
  split
  · split
    · refine stepOK_same hS rfl rfl rfl rfl ?_ (fun h => h)
      refine thinv_same_sh hT rfl rfl rfl rfl rfl rfl hpci hrs0 hg0 ⟨by simp, by simp⟩ ?_
      simp only [CAt]
      exact hc
    · exact stepOK_refl hS hT
  · exact stepOK_refl hS hT

theorem stepOK_xRelAcc {hash : Nat → Nat} {sh : Sh} {tid : Tid} {t : Th} (alt : Nat) (hS : ShInv hash sh) (hT : ThInv hash sh tid t)
    (hpc : t.pc = .xRelAcc) : StepOK hash sh tid t (stepTh hash sh tid t alt).1 (stepTh hash sh tid t alt).2.1 := by
  have hc := hT.c
  rw [hpc] at hc
  simp only [CAt] at hc
  have hg0 := grow_zero_of_pc hT.g (by rw [hpc]; simp) (by rw [hpc]; simp) (by rw [hpc]; simp) (by rw [hpc]; simp)
  have hrs0 := rs_false_of_pc hT (by rw [hpc]; simp) (by rw [hpc]; simp) (by rw [hpc]; simp)
  have hpci : t.pc ≠ .idle := by rw [hpc]; simp
  have hstep : stepTh hash sh tid t alt =
      (match t.acc with
      | some (n, w) =>
          ((if w = true then sh.setEL n (sh.elk n).clrW else sh.setEL n ((sh.elk n).delR tid)),
            { t with acc := none, pc := .relB .fin }, if w = true then .euw n.id else .eur n.id)
      | none => (sh, t, .none)) := by
    unfold stepTh
    rw [hpc]
    simp only
    rfl
  rw [hstep]
  split
  · rename_i n w _
    have hT' : ThInv hash sh tid { t with acc := none, pc := .relB .fin } := by
      refine thinv_same_sh hT rfl rfl rfl rfl rfl rfl hpci hrs0 hg0 ⟨by simp, by simp⟩ ?_
      simp only [CAt]
      exact hc
    cases w
    · exact stepOK_same hS rfl rfl rfl rfl hT' (fun h => h)
    · exact stepOK_same hS rfl rfl rfl rfl hT' (fun h => h)
  · exact stepOK_refl hS hT

/-- The operation's (only) bucket lock is released; the thread continues at a pc that holds no bucket. -/
theorem stepOK_releaseOp {hash : Nat → Nat} {sh : Sh} {tid : Tid} {t : Th} (t' : Th) (hS : ShInv hash sh) (hT : ThInv hash sh tid t)
    (hs : t.stk = [(t.b0, t.w0)]) (hop : OpFrame sh t t.b0) (hstk : t'.stk = [])
    (hOk : t'.pc ≠ .idle → t'.op.k ≠ .exclude → t'.h = hash t'.op.key) (hrs : t'.rs = false)
    (hc : ∀ sh', CAt sh' tid t' t'.pc) (hg : GrowAt sh t') (hgn : t'.grow ≠ 0 → t.grow ≠ 0) :
    StepOK hash sh tid t (if t.w0 = true then sh.setBL t.b0 (sh.blk t.b0).clrW else sh.setBL t.b0 ((sh.blk t.b0).delR tid)) t' := by
  have hnp : ∀ o, sh.bkt t.b0 ≠ .pending o := fun o h => by have := hop.1; rw [h] at this; cases this
  have hheld : ∀ sh', ∀ f ∈ t'.stk, HoldsB sh' tid f := fun sh' f hf => by rw [hstk] at hf; cases hf
  have hrs' : t'.rs = true → t'.pc = .chk1 ∨ t'.pc = .chk2 ∨ t'.pc = .relB .restart := fun h => by rw [hrs] at h; cases h
  cases hw0 : t.w0 with
  | true =>
    simp only [if_true]
    have hW : (sh.blk t.b0).w = some tid := by
      have := hT.heldB (t.b0, t.w0) (by rw [hs]; exact List.mem_cons_self ..)
      simpa [HoldsB, hw0] using this
    have hS1 : ShInv hash (sh.setBL t.b0 (sh.blk t.b0).clrW) :=
      shinv_setBL hS _ _ (Lock.wf_clrW _) (fun o h => absurd h (hnp o))
    exact ⟨hS1, ⟨hheld _, hOk, hrs', hc _, hg⟩, Frame.mk' (lf_clrW _ hW) (BktFrame.refl _ _ _) (Nat.le_refl _) (fun _ h => h),
      fun h => absurd rfl h, fun h => Or.inl (hgn h)⟩
  | false =>
    simp only [Bool.false_eq_true, if_false]
    have hS1 : ShInv hash (sh.setBL t.b0 ((sh.blk t.b0).delR tid)) :=
      shinv_setBL hS _ _ (Lock.wf_delR _ (hS.bwf _)) (fun o h => absurd h (hnp o))
    exact ⟨hS1, ⟨hheld _, hOk, hrs', hc _, hg⟩, Frame.mk' (lf_delR _) (BktFrame.refl _ _ _) (Nat.le_refl _) (fun _ h => h),
      fun h => absurd rfl h, fun h => Or.inl (hgn h)⟩

theorem stepOK_elemTry {hash : Nat → Nat} {sh : Sh} {tid : Tid} {t : Th} (alt : Nat) (hS : ShInv hash sh) (hT : ThInv hash sh tid t)
    (hpc : t.pc = .elemTry) : StepOK hash sh tid t (stepTh hash sh tid t alt).1 (stepTh hash sh tid t alt).2.1 := by
  have hc := hT.c
  rw [hpc] at hc
  simp only [CAt] at hc
  obtain ⟨hs, hop, _⟩ := hc
  have hrs0 := rs_false_of_pc hT (by rw [hpc]; simp) (by rw [hpc]; simp) (by rw [hpc]; simp)
  have hpci : t.pc ≠ .idle := by rw [hpc]; simp
  have hstep : stepTh hash sh tid t alt =
      (match t.n with
      | some n =>
          if alt = 0 then
            if (if t.op.acc = 2 then (sh.elk n).isFree else (sh.elk n).canRead) = true then
              ((if (t.ret && t.op.k == .ins) = true then sh.setEL n (if t.op.acc = 2 then (sh.elk n).setW tid else (sh.elk n).addR tid)
                else (sh.setEL n (if t.op.acc = 2 then (sh.elk n).setW tid else (sh.elk n).addR tid)).log (t.ev tid t.ret (some n))),
               { t with acc := some (n, decide (t.op.acc = 2)), pc := .relB .fin }, .el n.id (decide (t.op.acc = 2)))
            else (sh, t, .blocked)
          else if (t.ret && t.op.k == .ins) = true then (sh, t, .blocked)
          else
            ((if t.w0 = true then sh.setBL t.b0 (sh.blk t.b0).clrW else sh.setBL t.b0 ((sh.blk t.b0).delR tid)),
              { t with stk := [], pc := .rdMask }, if t.w0 = true then .buw t.b0 else .bur t.b0)
      | none => (sh, t, .none)) := by
    generalize t.b0 = b0 at hs
    generalize t.w0 = w0 at hs
    unfold stepTh
    rw [hpc]
    simp only
    rw [hs]
    cases t.n <;> rfl
  rw [hstep]
  split
  · rename_i n _
    by_cases halt : alt = 0
    · rw [if_pos halt]
      by_cases hok : (if t.op.acc = 2 then (sh.elk n).isFree else (sh.elk n).canRead) = true
      · -- the element lock is taken
        rw [if_pos hok]
        have hT' : ThInv hash sh tid { t with acc := some (n, decide (t.op.acc = 2)), pc := .relB .fin } := by
          refine ⟨hT.heldB, fun _ hk => hT.hOk hpci hk, fun h => ?_, ?_, ⟨hT.g.1, fun hg => ?_, by simp, by simp⟩⟩
          · have h' : t.rs = true := h
            rw [hrs0] at h'; cases h'
          · simp only [CAt]
            exact ⟨hs, hop⟩
          · obtain ⟨a, b, _, d⟩ := hT.g.2.1 hg
            exact ⟨a, b, Or.inr (Or.inl rfl), d⟩
        by_cases hcond : (t.ret && t.op.k == .ins) = true
        · rw [if_pos hcond]
          exact stepOK_same hS rfl rfl rfl rfl hT' (fun h => h)
        · rw [if_neg hcond]
          exact stepOK_same hS rfl rfl rfl rfl hT' (fun h => h)
      · rw [if_neg hok]
        exact stepOK_refl hS hT
    · rw [if_neg halt]
      by_cases hcond : (t.ret && t.op.k == .ins) = true
      · rw [if_pos hcond]
        exact stepOK_refl hS hT
      · rw [if_neg hcond]
        have hg0 : t.grow = 0 := by
          apply Classical.byContradiction
          intro hne
          obtain ⟨_, _, _, h1, h2⟩ := hT.g.2.1 hne
          apply hcond
          simp [h1, h2]
        refine stepOK_releaseOp _ hS hT hs hop rfl (fun _ hk => hT.hOk hpci hk) hrs0 (fun _ => by simp [CAt])
          (growAt_zero hT.g.1 hg0 (by simp) (by simp)) (fun h => h)
  · exact stepOK_refl hS hT

theorem stepOK_relB {hash : Nat → Nat} {sh : Sh} {tid : Tid} {t : Th} (alt : Nat) (a : After) (hS : ShInv hash sh) (hT : ThInv hash sh tid t)
    (hpc : t.pc = .relB a) : StepOK hash sh tid t (stepTh hash sh tid t alt).1 (stepTh hash sh tid t alt).2.1 := by
  have hc := hT.c
  rw [hpc] at hc
  simp only [CAt] at hc
  obtain ⟨hs, hop⟩ := hc
  have hpci : t.pc ≠ .idle := by rw [hpc]; simp
  cases a with
  | fin =>
    have hrs0 := rs_false_of_pc hT (by rw [hpc]; simp) (by rw [hpc]; simp) (by rw [hpc]; simp)
    have hstep : stepTh hash sh tid t alt =
        (if t.grow ≠ 0 then
          ((if t.w0 = true then sh.setBL t.b0 (sh.blk t.b0).clrW else sh.setBL t.b0 ((sh.blk t.b0).delR tid)),
            { t with stk := [], pc := .alloc }, if t.w0 = true then Lab.buw t.b0 else Lab.bur t.b0)
        else
          ((if t.w0 = true then sh.setBL t.b0 (sh.blk t.b0).clrW else sh.setBL t.b0 ((sh.blk t.b0).delR tid)),
            ({ t with stk := [] } : Th).finish t.resVal, if t.w0 = true then Lab.buw t.b0 else Lab.bur t.b0)) := by
      generalize t.b0 = b0 at hs
      generalize t.w0 = w0 at hs
      unfold stepTh
      rw [hpc]
      simp only
      rw [hs]
    rw [hstep]
    by_cases hgr : t.grow ≠ 0
    · rw [if_pos hgr]
      refine stepOK_releaseOp _ hS hT hs hop rfl (fun _ hk => hT.hOk hpci hk) hrs0 (fun _ => by simp [CAt]) ?_ (fun h => h)
      refine ⟨hT.g.1, fun hg => ?_, fun _ => hgr, by simp⟩
      obtain ⟨x, y, _, d⟩ := hT.g.2.1 hg
      exact ⟨x, y, Or.inr (Or.inr (Or.inl rfl)), d⟩
    · rw [if_neg hgr]
      refine stepOK_releaseOp _ hS hT hs hop rfl (fun h => absurd rfl h) rfl (fun _ => by simp [Th.finish, CAt]) ?_ (fun h => absurd rfl h)
      exact growAt_zero hT.g.1 rfl (by simp [Th.finish]) (by simp [Th.finish])
  | restart =>
    have hg0 := grow_zero_of_pc hT.g (by rw [hpc]; simp) (by rw [hpc]; simp) (by rw [hpc]; simp) (by rw [hpc]; simp)
    have hstep : stepTh hash sh tid t alt =
        ((if t.w0 = true then sh.setBL t.b0 (sh.blk t.b0).clrW else sh.setBL t.b0 ((sh.blk t.b0).delR tid)),
          { t with stk := [], pc := .peek, rs := false }, if t.w0 = true then Lab.buw t.b0 else Lab.bur t.b0) := by
      generalize t.b0 = b0 at hs
      generalize t.w0 = w0 at hs
      unfold stepTh
      rw [hpc]
      simp only
      rw [hs]
    rw [hstep]
    refine stepOK_releaseOp _ hS hT hs hop rfl (fun _ hk => hT.hOk hpci hk) rfl (fun _ => by simp [CAt, RhStack])
      (growAt_zero hT.g.1 hg0 (by simp) (by simp)) (fun h => h)
  | eLock =>
    have hg0 := grow_zero_of_pc hT.g (by rw [hpc]; simp) (by rw [hpc]; simp) (by rw [hpc]; simp) (by rw [hpc]; simp)
    have hrs0 := rs_false_of_pc hT (by rw [hpc]; simp) (by rw [hpc]; simp) (by rw [hpc]; simp)
    have hstep : stepTh hash sh tid t alt =
        ((if t.w0 = true then sh.setBL t.b0 (sh.blk t.b0).clrW else sh.setBL t.b0 ((sh.blk t.b0).delR tid)),
          { t with stk := [], pc := .eLock }, if t.w0 = true then Lab.buw t.b0 else Lab.bur t.b0) := by
      generalize t.b0 = b0 at hs
      generalize t.w0 = w0 at hs
      unfold stepTh
      rw [hpc]
      simp only
      rw [hs]
    rw [hstep]
    refine stepOK_releaseOp _ hS hT hs hop rfl (fun _ hk => hT.hOk hpci hk) hrs0 (fun _ => by simp [CAt])
      (growAt_zero hT.g.1 hg0 (by simp) (by simp)) (fun h => h)
  | xUpg =>
    have hg0 := grow_zero_of_pc hT.g (by rw [hpc]; simp) (by rw [hpc]; simp) (by rw [hpc]; simp) (by rw [hpc]; simp)
    have hrs0 := rs_false_of_pc hT (by rw [hpc]; simp) (by rw [hpc]; simp) (by rw [hpc]; simp)
    have hstep : stepTh hash sh tid t alt =
        (match t.acc with
        | some (_, true) =>
          ((if t.w0 = true then sh.setBL t.b0 (sh.blk t.b0).clrW else sh.setBL t.b0 ((sh.blk t.b0).delR tid)),
            { t with stk := [], pc := .eRel }, if t.w0 = true then Lab.buw t.b0 else Lab.bur t.b0)
        | _ =>
          ((if t.w0 = true then sh.setBL t.b0 (sh.blk t.b0).clrW else sh.setBL t.b0 ((sh.blk t.b0).delR tid)),
            { t with stk := [], pc := .xUpg }, if t.w0 = true then Lab.buw t.b0 else Lab.bur t.b0)) := by
      generalize t.b0 = b0 at hs
      generalize t.w0 = w0 at hs
      unfold stepTh
      rw [hpc]
      simp only
      rw [hs]
      rfl
    rw [hstep]
    split
    · refine stepOK_releaseOp _ hS hT hs hop rfl (fun _ hk => hT.hOk hpci hk) hrs0 (fun _ => by simp [CAt])
        (growAt_zero hT.g.1 hg0 (by simp) (by simp)) (fun h => h)
    · refine stepOK_releaseOp _ hS hT hs hop rfl (fun _ hk => hT.hOk hpci hk) hrs0 (fun _ => by simp [CAt])
        (growAt_zero hT.g.1 hg0 (by simp) (by simp)) (fun h => h)

end TbbVerif.C10
