/- C10: second invariant, steps on element locks and the linking / unlinking / freeing of nodes. -/
import TbbVerif.Proofs.C10.Pass2
import TbbVerif.Proofs.C10.KInv

namespace TbbVerif.C10

/-- nodes whose id has not been handed out yet have never been freed or unlinked -/
def Untouched (sh : Sh) : Prop := ∀ n, sh.nextId ≤ n.id → sh.freed n = false ∧ sh.unlinker n = none

theorem untouched_frame {sh sh' : Sh} {tid : Tid} (hU : Untouched sh) (h2 : ShInv2 sh) (hF : Frame2 sh tid sh') : Untouched sh' := by
  intro n hn
  have hn' : sh.nextId ≤ n.id := Nat.le_trans hF.nextId hn
  obtain ⟨h1, h3⟩ := hU n hn'
  constructor
  · apply Classical.byContradiction
    intro hc
    have hch : sh'.freed n ≠ sh.freed n := by rw [h1]; exact hc
    have := (hF.freed n hch).1
    rw [h3] at this; cases this
  · apply Classical.byContradiction
    intro hc
    have hch : sh'.unlinker n ≠ sh.unlinker n := by rw [h3]; exact hc
    have := h2.fresh n (hF.unlinker n hch)
    omega

/-! ### changing one element lock -/

theorem shinv2_setEL {sh : Sh} (h2 : ShInv2 sh) (n : Node) (l' : Lock) (hwf : l'.Wf) : ShInv2 (sh.setEL n l') := by
  refine ⟨?_, h2.fresh, h2.linkedOk, h2.lin⟩
  intro x
  simp only [setEL_elk]
  split
  · exact hwf
  · exact h2.ewf x

theorem frame2_setEL {sh : Sh} {tid : Tid} (n : Node) (l' : Lock)
    (hview : ∀ t', t' ≠ tid → ((l'.w = some t' ↔ (sh.elk n).w = some t') ∧ (t' ∈ l'.r ↔ t' ∈ (sh.elk n).r)))
    (hclaim : IsLinked sh n ∨ sh.unlinker n = some tid ∨ tid ∈ (sh.elk n).r ∨ (sh.elk n).w = some tid) : Frame2 sh tid (sh.setEL n l') := by
  refine ⟨?_, ?_, ?_, fun x h => absurd rfl h, fun x h => absurd rfl h, fun x h => Or.inl h, Nat.le_refl _⟩
  · intro x t' ht
    simp only [setEL_elk]; split
    · rename_i h; rw [h]; exact (hview t' ht).1
    · exact Iff.rfl
  · intro x t' ht
    simp only [setEL_elk]; split
    · rename_i h; rw [h]; exact (hview t' ht).2
    · exact Iff.rfl
  · intro x hx
    simp only [setEL_elk] at hx
    split at hx
    · rename_i h; rw [h]; exact hclaim
    · exact absurd rfl hx

theorem unlinked_setEL {sh : Sh} {tid : Tid} {t t' : Th} {n : Node} {l' : Lock} (hn : t'.n = t.n) (h : Unlinked sh tid t) :
    Unlinked (sh.setEL n l') tid t' := by
  obtain ⟨x, h1, h2, h3, h4, h5⟩ := h
  exact ⟨x, by rw [hn]; exact h1, h2, h3, h4, h5⟩

theorem view_setW_free {l : Lock} {tid : Tid} (hw : l.w = none) (hr : l.r = []) :
    ∀ t', t' ≠ tid → (((l.setW tid).w = some t' ↔ l.w = some t') ∧ (t' ∈ (l.setW tid).r ↔ t' ∈ l.r)) := by
  intro t' ht; simp [hw, hr]; exact fun h => ht h.symm

theorem view_setW_sole {l : Lock} {tid : Tid} (hw : l.w = none) (hr : l.r = [tid]) :
    ∀ t', t' ≠ tid → (((l.setW tid).w = some t' ↔ l.w = some t') ∧ (t' ∈ (l.setW tid).r ↔ t' ∈ l.r)) := by
  intro t' ht; simp [hw, hr, ht]; exact fun h => ht h.symm

theorem view_addR {l : Lock} {tid : Tid} :
    ∀ t', t' ≠ tid → (((l.addR tid).w = some t' ↔ l.w = some t') ∧ (t' ∈ (l.addR tid).r ↔ t' ∈ l.r)) := by
  intro t' ht; simp [ht]

theorem view_delR {l : Lock} {tid : Tid} :
    ∀ t', t' ≠ tid → (((l.delR tid).w = some t' ↔ l.w = some t') ∧ (t' ∈ (l.delR tid).r ↔ t' ∈ l.r)) := by
  intro t' ht; simp [List.mem_erase_of_ne ht]

theorem view_clrW {l : Lock} {tid : Tid} (hw : l.w = some tid) :
    ∀ t', t' ≠ tid → ((l.clrW.w = some t' ↔ l.w = some t') ∧ (t' ∈ l.clrW.r ↔ t' ∈ l.r)) := by
  intro t' ht; simp [hw]; exact fun h => ht h.symm

/-- facts about the node of a thread at a pc after the unlinking -/
theorem unlinked_facts {sh : Sh} {tid : Tid} {t : Th} (h : Unlinked sh tid t) :
    ∃ n, t.n = some n ∧ sh.unlinker n = some tid ∧ ¬ IsLinked sh n ∧ sh.freed n = false ∧ n.id < sh.nextId := h

theorem stepOK2_eLock {hash : Nat → Nat} {sh : Sh} {tid : Tid} {t : Th} (alt : Nat) (h2 : ShInv2 sh) (hT2 : ThInv2 hash sh tid t)
    (hK : KInv t) (hpc : t.pc = .eLock) : StepOK2 hash sh tid t (stepTh hash sh tid t alt).1 (stepTh hash sh tid t alt).2.1 := by
  have hd := hT2.d
  rw [hpc] at hd
  simp only [DAt] at hd
  have hk : t.op.k = .erase := by have := hK; unfold KInv at this; rw [hpc] at this; exact this
  have hacc : t.acc = none := hT2.accNone (by unfold needsSlot; rw [hk]) (by rw [hpc]; simp) (by rw [hpc]; simp) (by rw [hpc]; simp) (by rw [hpc]; simp)
  obtain ⟨n, hn, hu, hl, hf, hid⟩ := hd
  have hstep : stepTh hash sh tid t alt =
      (if (sh.elk n).isFree then (sh.setEL n ((sh.elk n).setW tid), { t with pc := Pc.eRel }, Lab.el n.id true) else (sh, t, .blocked)) := by
    unfold stepTh
    rw [hpc]
    simp only
    rw [hn]
  rw [hstep]
  split
  · rename_i hfree
    obtain ⟨hw, hr⟩ := (Lock.isFree_iff _).1 hfree
    refine ⟨shinv2_setEL h2 n _ (Lock.wf_setW _ _), ?_, frame2_setEL n _ (view_setW_free hw hr) (Or.inr (Or.inl hu))⟩
    refine ⟨(fun n' w' h => by rw [hacc] at h; cases h), hT2.nOk, (fun hk' => by have h' : t.op.k = .exclude := hk'; rw [hk] at h'; cases h'), fun _ _ _ _ _ => hacc, ?_⟩
    simp only [DAt]
    exact ⟨⟨n, hn, hu, hl, hf, hid⟩, n, hn, by simp⟩
  · exact ⟨h2, hT2, frame2_refl _ _⟩

theorem stepOK2_eRel {hash : Nat → Nat} {sh : Sh} {tid : Tid} {t : Th} (alt : Nat) (h2 : ShInv2 sh) (hT2 : ThInv2 hash sh tid t)
    (hK : KInv t) (hpc : t.pc = .eRel) : StepOK2 hash sh tid t (stepTh hash sh tid t alt).1 (stepTh hash sh tid t alt).2.1 := by
  have hd := hT2.d
  rw [hpc] at hd
  simp only [DAt] at hd
  obtain ⟨⟨n, hn, hu, hl, hf, hid⟩, n', hn', hw⟩ := hd
  rw [hn] at hn'; cases hn'
  have hr : (sh.elk n).r = [] := h2.ewf n tid hw
  have hkk : t.op.k = .erase ∨ t.op.k = .exclude := by have := hK; unfold KInv at this; rw [hpc] at this; exact this
  have hstep : stepTh hash sh tid t alt =
      (sh.setEL n (sh.elk n).clrW, { t with acc := (if t.op.k == .exclude then none else t.acc), pc := Pc.free }, Lab.euw n.id) := by
    unfold stepTh
    rw [hpc]
    simp only
    rw [hn]
  rw [hstep]
  have hacc' : (if t.op.k == OpK.exclude then none else t.acc) = none := by
    rcases hkk with hk | hk
    · have : (t.op.k == OpK.exclude) = false := by rw [hk]; rfl
      rw [this]
      exact hT2.accNone (by unfold needsSlot; rw [hk]) (by rw [hpc]; simp) (by rw [hpc]; simp) (by rw [hpc]; simp) (by rw [hpc]; simp)
    · have : (t.op.k == OpK.exclude) = true := by rw [hk]; rfl
      rw [this]; rfl
  refine ⟨shinv2_setEL h2 n _ (Lock.wf_clrW _), ?_, frame2_setEL n _ (view_clrW hw) (Or.inr (Or.inl hu))⟩
  refine ⟨(fun n' w' h => by rw [show ({ t with acc := (if t.op.k == OpK.exclude then none else t.acc), pc := Pc.free } : Th).acc = none from hacc'] at h; cases h),
    hT2.nOk, fun _ => hacc', fun _ _ _ _ _ => hacc', ?_⟩
  simp only [DAt]
  exact ⟨⟨n, hn, hu, hl, hf, hid⟩, n, hn, by simp, by simp [hr]⟩

theorem stepOK2_free {hash : Nat → Nat} {sh : Sh} {tid : Tid} {t : Th} (alt : Nat) (h2 : ShInv2 sh) (hT2 : ThInv2 hash sh tid t)
    (hK : KInv t) (hpc : t.pc = .free) : StepOK2 hash sh tid t (stepTh hash sh tid t alt).1 (stepTh hash sh tid t alt).2.1 := by
  have hd := hT2.d
  rw [hpc] at hd
  simp only [DAt] at hd
  obtain ⟨⟨n, hn, hu, hl, hf, hid⟩, n', hn', hw, hr⟩ := hd
  rw [hn] at hn'; cases hn'
  have hkk : t.op.k = .erase ∨ t.op.k = .exclude := by have := hK; unfold KInv at this; rw [hpc] at this; exact this
  have hacc : t.acc = none := by
    rcases hkk with hk | hk
    · exact hT2.accNone (by unfold needsSlot; rw [hk]) (by rw [hpc]; simp) (by rw [hpc]; simp) (by rw [hpc]; simp) (by rw [hpc]; simp)
    · have := hT2.ex hk; rw [hpc] at this; exact this
  have hstep : stepTh hash sh tid t alt = ({ sh with freed := updN sh.freed n true }, t.finish, Lab.free n.id) := by
    unfold stepTh
    rw [hpc]
    simp only
    rw [hn]
  rw [hstep]
  refine ⟨⟨h2.ewf, h2.fresh, ?_, h2.lin⟩, ?_, ?_⟩
  · intro x hx
    obtain ⟨h1, h3⟩ := h2.linkedOk x hx
    refine ⟨?_, h3⟩
    show updN sh.freed n true x = false
    unfold updN
    rw [if_neg (fun (h : x = n) => hl (h ▸ hx))]
    exact h1
  · refine ⟨(fun n' w' h => by rw [show t.finish.acc = t.acc from rfl, hacc] at h; cases h), (fun n' h => by cases h), fun _ => trivial,
      fun _ h => absurd rfl h, trivial⟩
  · refine ⟨fun _ _ _ => Iff.rfl, fun _ _ _ => Iff.rfl, fun x h => absurd rfl h, ?_, fun x h => absurd rfl h, fun x h => Or.inl h, Nat.le_refl _⟩
    intro x hx
    have : x = n := by
      apply Classical.byContradiction
      intro hne
      apply hx
      show updN sh.freed n true x = sh.freed x
      unfold updN; rw [if_neg hne]
    rw [this]; exact ⟨hu, hw, hr⟩

end TbbVerif.C10
