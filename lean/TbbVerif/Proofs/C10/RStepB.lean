/- C10 (refined model): builders of `AccessOut` for an access to a lock word: without effect on the specification locks
(`out_noeff`) and with the effect of one or two `HMap` steps on the accessed lock (`out_eff`). -/
import TbbVerif.Proofs.C10.RC08

namespace TbbVerif.C10R

open TbbVerif.C10

theorem lockAccess_out (hash : Nat → Nat) (s : RSt) (tid : Tid) (t : Th) (r : RTh) (L : LId) (th th' : C08.Th)
    (hs : slot s L tid = some th) (hs' : (C08.step (getL s L) tid).ths[tid]? = some th') :
    (lockAccess hash s tid t r L).a = runFrom hash s.a (effect s.a.sh tid t r th th').1 ∧
    (lockAccess hash s tid t r L).rt = s.rt.set tid { cur := if th'.ops.isEmpty then none else some L, lag := (effect s.a.sh tid t r th th').2 } ∧
    ∀ L', getL (lockAccess hash s tid t r L) L' = if L' = L then C08.step (getL s L) tid else getL s L' := by
  have hs0 : (getL s L).ths[tid]? = some th := hs
  simp only [lockAccess, hs0, hs']
  refine ⟨by simp, by simp, ?_⟩
  intro L'
  show getL (setL s L (C08.step (getL s L) tid)) L' = _
  exact getL_setL s L L' _

theorem runFrom_other (hash : Nat → Nat) (tid j : Nat) (hj : j ≠ tid) : ∀ (acts : List Act) (st : St), (∀ a ∈ acts, a.tid = tid) →
    (runFrom hash st acts).ths[j]? = st.ths[j]? := by
  intro acts
  induction acts with
  | nil => intro st _; rfl
  | cons a as ih =>
    intro st h
    rw [runFrom_cons, ih _ (fun x hx => h x (List.mem_cons_of_mem _ hx))]
    exact step_other hash st a j (by rw [h a (List.mem_cons_self ..)]; exact hj)

/-- what the caller knows about the thread's slot after the access and the new `cur` / `lag` -/
structure SlotOut (s' : RSt) (tid : Tid) (t' : Th) (r' : RTh) (L : LId) (th' : C08.Th) : Prop where
  cur : (th'.ops = [] ∧ r'.cur = none) ∨ (∃ op, th'.ops = [op] ∧ r'.cur = some L ∧ PreOK th' ∧ CurOK t' r' L op th')
  lagpc : r'.lag = true → t'.pc = .lockTry
  inop : relockPc t'.pc = true → r'.cur ≠ none
  lagK : r'.lag = true → (s'.a.sh.bkt t'.tgt).isFlagged = true → ∃ A, (s'.a.sh.blk t'.tgt).w = some A

theorem thC_build {hash : Nat → Nat} {s s' : RSt} {tid : Tid} {t t' : Th} {r r' : RTh} {L : LId} {th' : C08.Th}
    (hC : Coupled hash s) (ht : s.a.ths[tid]? = some t) (hr : s.rt[tid]? = some r) (hcur : r.cur = some L)
    (hgl : ∀ L', getL s' L' = if L' = L then C08.step (getL s L) tid else getL s L')
    (hslot' : (C08.step (getL s L) tid).ths[tid]? = some th') (so : SlotOut s' tid t' r' L th') : ThC s' tid t' r' := by
  have hT := hC.th tid t r ht hr
  have hslotL : slot s' L tid = some th' := by unfold slot; rw [hgl L, if_pos rfl]; exact hslot'
  refine ⟨so.inop, ?_, ?_, so.lagpc, so.lagK⟩
  · intro L' x hc hx
    by_cases hL : L' = L
    · subst hL
      rw [hslotL] at hx; cases hx
      rcases so.cur with ⟨h1, _⟩ | ⟨op, _, h2, _⟩
      · exact h1
      · exact absurd h2 hc
    · rw [slot_of_getL hgl L' tid (Or.inr hL)] at hx
      exact hT.other L' x (by rw [hcur]; intro h; exact hL (Option.some.inj h).symm) hx
  · intro L' hc
    rcases so.cur with ⟨_, h2⟩ | ⟨op, h1, h2, h3, h4⟩
    · rw [h2] at hc; cases hc
    · rw [h2] at hc; cases hc
      exact ⟨th', op, hslotL, h1, h3, h4⟩

/-- common part of the two builders -/
structure RunOut (hash : Nat → Nat) (s s' : RSt) (tid : Tid) (L : LId) (t' : Th) (th' : C08.Th) (r' : RTh) : Prop where
  gl : ∀ L', getL s' L' = if L' = L then C08.step (getL s L) tid else getL s L'
  rt : s'.rt = s.rt.set tid r'
  a : ∃ acts, s'.a = runFrom hash s.a acts ∧ ∀ x ∈ acts, x.tid = tid
  self : s'.a.ths[tid]? = some t'
  slot' : (C08.step (getL s L) tid).ths[tid]? = some th'

theorem out_noeff {hash : Nat → Nat} {s s' : RSt} {tid : Tid} {t t' : Th} {r r' : RTh} {L : LId} {th th' : C08.Th}
    (hC : Coupled hash s) (ht : s.a.ths[tid]? = some t) (hr : s.rt[tid]? = some r) (hcur : r.cur = some L)
    (hs : slot s L tid = some th) (ro : RunOut hash s s' tid L t' th' r')
    (hne : NoEff s.a.sh t s'.a.sh t')
    (hWW : th.phase = .holdW ↔ th'.phase = .holdW) (hRR : phaseR th.phase ↔ phaseR th'.phase)
    (hfl : ∀ b, L = .b b → FlagC s' b) (so : SlotOut s' tid t' r' L th') :
    AccessOut hash s s' tid L t t' th' r' := by
  obtain ⟨acts, ha, hacts⟩ := ro.a
  have hAI := absInv_runFrom hash acts s.a ⟨hC.abs, hC.es⟩
  have hv := view_of hC hs
  refine { gl := ro.gl, rt := ro.rt, inv := by rw [ha]; exact hAI.all, es := by rw [ha]; exact hAI.es, len := by rw [ha, runFrom_len],
           oth := fun j hj => by rw [ha]; exact runFrom_other hash tid j hj acts s.a hacts, self := ro.self, slot' := ro.slot',
           flagmono := fun b h => flag_mono_run hash acts s.a hC.abs b (by rw [← ha]; exact h),
           lockO := fun L' _ => hne.lock L', fother := fun i _ => by rw [hne.lock]; exact ⟨id, id⟩,
           selfSpec := ?_, specN := by rw [hne.lock]; exact hC.specN L, hwO := fun L' _ h => hne.hw L' h, hrO := fun L' _ h => hne.hr L' h,
           selfPh := ?_, flagL := hfl, keepW := ?_, thC := thC_build hC ht hr hcur ro.gl ro.slot' so }
  · rw [hne.lock]
    exact ⟨fun h => hWW.1 ((hC.spec L tid th hs).1 h), fun h => hRR.1 ((hC.spec L tid th hs).2 h)⟩
  · have := hC.ph L tid t th ht hs
    exact ⟨fun h => hne.hw L (this.1 (hWW.2 h)), fun h => hne.hr L (this.2 (hRR.2 h))⟩
  · intro b _ A hA
    have := hne.lock (.b b)
    simp only [lockOf] at this
    exact ⟨A, by rw [this]; exact hA⟩

theorem out_eff {hash : Nat → Nat} {s s' : RSt} {tid : Tid} {t t' : Th} {r r' : RTh} {L : LId} {th th' : C08.Th} {f : Lock → Lock}
    (hC : Coupled hash s) (ht : s.a.ths[tid]? = some t) (hr : s.rt[tid]? = some r) (hcur : r.cur = some L)
    (hs : slot s L tid = some th) (ro : RunOut hash s s' tid L t' th' r')
    (he : LockEff s.a.sh t s'.a.sh t' L f)
    (hsp : SpecOut s.a.ths.length (lockOf s.a.sh L) (f (lockOf s.a.sh L)) tid th')
    (hph : (th'.phase = .holdW → HW t' L) ∧ (phaseR th'.phase → HR t' L))
    (hkeep : ∀ b, L = .b b → (s'.a.sh.bkt b).isFlagged = false ∨ ∃ A', (s'.a.sh.blk b).w = some A')
    (hfl : ∀ b, L = .b b → FlagC s' b) (so : SlotOut s' tid t' r' L th') :
    AccessOut hash s s' tid L t t' th' r' := by
  obtain ⟨acts, ha, hacts⟩ := ro.a
  have hAI := absInv_runFrom hash acts s.a ⟨hC.abs, hC.es⟩
  refine { gl := ro.gl, rt := ro.rt, inv := by rw [ha]; exact hAI.all, es := by rw [ha]; exact hAI.es, len := by rw [ha, runFrom_len],
           oth := fun j hj => by rw [ha]; exact runFrom_other hash tid j hj acts s.a hacts, self := ro.self, slot' := ro.slot',
           flagmono := fun b h => flag_mono_run hash acts s.a hC.abs b (by rw [← ha]; exact h),
           lockO := he.lockO, fother := by rw [he.lock0]; exact hsp.fother,
           selfSpec := by rw [he.lock0]; exact hsp.selfSpec, specN := by rw [he.lock0]; exact hsp.specN,
           hwO := he.hwO, hrO := he.hrO, selfPh := hph, flagL := hfl, keepW := ?_, thC := thC_build hC ht hr hcur ro.gl ro.slot' so }
  intro b hf A hA
  by_cases hL : L = .b b
  · rcases hkeep b hL with h | h
    · rw [h] at hf; cases hf
    · exact h
  · have := he.lockO (.b b) (fun h => hL h.symm)
    simp only [lockOf] at this
    exact ⟨A, by rw [this]; exact hA⟩

end TbbVerif.C10R
