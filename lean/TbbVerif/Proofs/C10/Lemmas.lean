/- C10: list, path and rehash-stack lemmas used by the step proofs. -/
import TbbVerif.Proofs.C10.Frame

namespace TbbVerif.C10

/-! ### findKey / key lists -/

theorem findKey_some {c : List Node} {k : Nat} {n : Node} (h : findKey c k = some n) : n ∈ c ∧ n.key = k := by
  unfold findKey at h
  have h1 := List.find?_some h
  have h2 := List.mem_of_find?_eq_some h
  exact ⟨h2, by simpa using h1⟩

theorem findKey_none {c : List Node} {k : Nat} (h : findKey c k = none) : ∀ n ∈ c, n.key ≠ k := by
  unfold findKey at h
  intro n hn
  have := List.find?_eq_none.1 h n hn
  simpa using this

theorem findKey_none_iff {c : List Node} {k : Nat} : findKey c k = none ↔ ∀ n ∈ c, n.key ≠ k := by
  constructor
  · exact findKey_none
  · intro h
    unfold findKey
    apply List.find?_eq_none.2
    intro n hn
    simpa using h n hn

theorem nodup_keys_filter {c : List Node} (p : Node → Bool) (h : (c.map (·.key)).Nodup) : ((c.filter p).map (·.key)).Nodup :=
  List.Nodup.sublist (List.Sublist.map _ (List.filter_sublist)) h

theorem nodup_keys_reverse {c : List Node} (h : (c.map (·.key)).Nodup) : ((c.reverse).map (·.key)).Nodup := by
  rw [List.map_reverse]; exact (List.reverse_perm _).nodup_iff.2 h

theorem nodup_keys_erase {c : List Node} (n : Node) (h : (c.map (·.key)).Nodup) : ((c.erase n).map (·.key)).Nodup :=
  List.Nodup.sublist (List.Sublist.map _ (List.erase_sublist)) h

theorem nodup_keys_cons {c : List Node} {n : Node} (hk : findKey c n.key = none) (h : (c.map (·.key)).Nodup) :
    ((n :: c).map (·.key)).Nodup := by
  rw [List.map_cons, List.nodup_cons]
  refine ⟨?_, h⟩
  intro hm
  obtain ⟨x, hx, hxk⟩ := List.mem_map.1 hm
  exact findKey_none hk x hx hxk

/-- in a chain without duplicate keys a node is determined by its key -/
theorem node_unique_of_nodup {c : List Node} (h : (c.map (·.key)).Nodup) {n n' : Node} (hn : n ∈ c) (hn' : n' ∈ c)
    (hk : n.key = n'.key) : n = n' := by
  induction c with
  | nil => cases hn
  | cons x xs ih =>
    rw [List.map_cons, List.nodup_cons] at h
    rcases List.mem_cons.1 hn with e1 | m1
    · rcases List.mem_cons.1 hn' with e2 | m2
      · rw [e1, e2]
      · have hm : x.key ∈ xs.map (·.key) := List.mem_map.2 ⟨n', m2, by rw [← e1]; exact hk.symm⟩
        exact absurd hm h.1
    · rcases List.mem_cons.1 hn' with e2 | m2
      · have hm : x.key ∈ xs.map (·.key) := List.mem_map.2 ⟨n, m1, by rw [← e2]; exact hk⟩
        exact absurd hm h.1
      · exact ih h.2 m1 m2

/-! ### the path of a hash through the bucket structure -/

theorem onPath_lt {sh : Sh} {h b : Nat} (hp : OnPath sh h b) : b < 2 ^ sh.lvl := by
  obtain ⟨l, hl, rfl⟩ := hp
  exact Nat.lt_of_lt_of_le (pb_lt h l) (Nat.pow_le_pow_right (by omega) hl)

/-- chains are closed downwards along the path of a hash -/
theorem chain_down {hash : Nat → Nat} {sh : Sh} (hS : ShInv hash sh) (h : Nat) :
    ∀ d l, (sh.bkt (pb h (l + d))).isChain = true → (sh.bkt (pb h l)).isChain = true := by
  intro d
  induction d with
  | zero => intro l hc; simpa using hc
  | succ d ih =>
    intro l hc
    apply ih l
    have e : l + (d + 1) = (l + d) + 1 := by omega
    rw [e] at hc
    by_cases hne : pb h (l + d + 1) = pb h (l + d)
    · rw [hne] at hc; exact hc
    · have hpar := parentOf_pb_succ h (l + d) hne
      by_cases h2 : 2 ≤ pb h (l + d + 1)
      · have := hS.closed _ h2 hc
        rw [hpar] at this; exact this
      · have hlt : pb h (l + d) < 2 := by
          have := pb_mono h (Nat.le_succ (l + d))
          simp only [Nat.succ_eq_add_one] at this
          omega
        exact hS.emb _ hlt

theorem chain_down' {hash : Nat → Nat} {sh : Sh} (hS : ShInv hash sh) (h : Nat) {l l' : Nat} (hl : l ≤ l')
    (hc : (sh.bkt (pb h l')).isChain = true) : (sh.bkt (pb h l)).isChain = true := by
  have := chain_down hS h (l' - l) l (by rw [show l + (l' - l) = l' by omega]; exact hc)
  exact this

/-- the bucket at the current level: nothing above it has ever been touched -/
theorem aboveNC_top {hash : Nat → Nat} {sh : Sh} (hS : ShInv hash sh) (h : Nat) : AboveNC sh h (pb h sh.lvl) := by
  intro l hlt
  have hl : sh.lvl < l := pb_of_lt h hlt
  have hge : 2 ^ sh.lvl ≤ pb h l := by
    apply Classical.byContradiction
    intro hc
    have := pb_eq_of_lt_pow h (Nat.lt_of_not_le hc) (Nat.le_of_lt hl)
    omega
  rw [hS.top _ hge]; rfl

/-- check_rehashing_collision found the next bucket of the path still flagged: nothing above `b` is a chain -/
theorem aboveNC_of_flagged {hash : Nat → Nat} {sh : Sh} (hS : ShInv hash sh) {h mo m : Nat} (hlt : mo < m) (hne : pb h mo ≠ pb h m)
    (hf : (sh.bkt (pb h (nextLvl h mo (m - mo)))).isFlagged = true) : AboveNC sh h (pb h mo) := by
  obtain ⟨h1, _, h3, h4⟩ := nextLvl_spec h mo m hlt hne
  intro l hbl
  have hl : mo < l := pb_of_lt h hbl
  have hl' : nextLvl h mo (m - mo) ≤ l := by
    apply Classical.byContradiction
    intro hc
    have := h4 l (Nat.le_of_lt hl) (Nat.lt_of_not_le hc)
    omega
  cases hc : (sh.bkt (pb h l)).isChain with
  | false => rfl
  | true =>
    have := chain_down' hS h hl' hc
    rw [(isFlagged_iff _).1 hf] at this
    cases this

theorem homeIs_unique {sh : Sh} {h b b' : Nat} (h1 : HomeIs sh h b) (h2 : HomeIs sh h b') : b = b' := by
  obtain ⟨⟨l, _, hl⟩, hc, ha⟩ := h1
  obtain ⟨⟨l', _, hl'⟩, hc', ha'⟩ := h2
  rcases Nat.lt_trichotomy b b' with hlt | heq | hgt
  · have := ha l' (by rw [← hl']; exact hlt); rw [← hl', hc'] at this; cases this
  · exact heq
  · have := ha' l (by rw [← hl]; exact hgt); rw [← hl, hc] at this; cases this

/-! ### rehash stack -/

theorem rhStack_congr {sh sh' : Sh} {tid : Tid} {h m : Nat} : ∀ (s : List (Nat × Bool)),
    (∀ f ∈ s, sh'.bkt f.1 = sh.bkt f.1) → RhStack sh tid h m s → RhStack sh' tid h m s := by
  intro s
  induction s with
  | nil => intro _ _; trivial
  | cons f rest ih =>
    obtain ⟨c, w⟩ := f
    intro hb hr
    obtain ⟨h1, h2, h3, h4, h5⟩ := hr
    refine ⟨h1, ?_, h3, h4, ih (fun f hf => hb f (List.mem_cons_of_mem _ hf)) h5⟩
    rw [hb (c, w) (List.mem_cons_self ..)]; exact h2

/-- every frame of the rehash stack is above the bucket that hangs below it, and at most the operation's bucket -/
theorem rhStack_bounds {sh : Sh} {tid : Tid} {h m : Nat} : ∀ (s : List (Nat × Bool)) (c : Nat),
    LinkedTo h m c s → RhStack sh tid h m s → c ≤ pb h m ∧ ∀ f ∈ s, c < f.1 := by
  intro s
  induction s with
  | nil => intro c hl _; exact ⟨by simpa [LinkedTo] using Nat.le_of_eq hl, fun f hf => by cases hf⟩
  | cons f rest ih =>
    obtain ⟨d, w⟩ := f
    intro c hl hr
    obtain ⟨_, _, h3, h4, h5⟩ := hr
    have hcd : c < d := by
      have : c = parentOf d := hl
      rw [this]; exact parentOf_lt (by omega)
    obtain ⟨ih1, ih2⟩ := ih d h4 h5
    refine ⟨by omega, ?_⟩
    intro f hf
    rcases List.mem_cons.1 hf with rfl | hf
    · exact hcd
    · have := ih2 f hf; omega

end TbbVerif.C10
