/- C10: second invariant, steps xUpg, xRelock, xRelAcc (erase by accessor) and elemTry (accessor acquisition). -/
import TbbVerif.Proofs.C10.Step2C

namespace TbbVerif.C10

theorem stepOK2_xUpg {hash : Nat → Nat} {sh : Sh} {tid : Tid} {t : Th} (alt : Nat) (h2 : ShInv2 sh) (hT2 : ThInv2 hash sh tid t)
    (hK : KInv t) (hpc : t.pc = .xUpg) : StepOK2 hash sh tid t (stepTh hash sh tid t alt).1 (stepTh hash sh tid t alt).2.1 := by
  have hd := hT2.d
  rw [hpc] at hd
  simp only [DAt] at hd
  obtain ⟨n, hn, hu, hl, hf, hid⟩ := hd
  have hk : t.op.k = .exclude := by have := hK; unfold KInv at this; rw [hpc] at this; exact this
  have hex := hT2.ex hk
  rw [hpc] at hex
  simp only [ExAt] at hex
  obtain ⟨n', hn', hacc, _⟩ := hex
  rw [hn] at hn'; cases hn'
  have hR : tid ∈ (sh.elk n).r := by have := (hT2.heldE n false hacc).1; simpa [HoldsE] using this
  have hns : needsSlot t.op = false := by unfold needsSlot; rw [hk]
  have hstep : stepTh hash sh tid t alt =
      (if alt = 0 then
        if (sh.elk n).soleReader tid then (sh.setEL n ((sh.elk n).setW tid), { t with acc := some (n, true), pc := Pc.eRel }, Lab.eup n.id)
        else (sh, t, .blocked)
      else (sh.setEL n ((sh.elk n).delR tid), { t with acc := none, pc := Pc.xRelock }, Lab.eur n.id)) := by
    unfold stepTh
    rw [hpc]
    simp only
    rw [hn]
  rw [hstep]
  split
  · split
    · rename_i hsole
      obtain ⟨hw, hr⟩ := (Lock.soleReader_iff _ _).1 hsole
      refine ⟨shinv2_setEL h2 n _ (Lock.wf_setW _ _), ?_, frame2_setEL n _ (view_setW_sole hw hr) (Or.inr (Or.inl hu))⟩
      refine ⟨?_, hT2.nOk, (fun _ => by simp only [ExAt]; exact ⟨n, hn, rfl⟩), (fun h => by rw [show ({ t with acc := some (n, true), pc := Pc.eRel } : Th).op = t.op from rfl, hns] at h; cases h), ?_⟩
      · intro n' w' h
        simp only [Option.some.injEq, Prod.mk.injEq] at h
        obtain ⟨rfl, rfl⟩ := h
        exact ⟨by simp [HoldsE], hf, hid⟩
      · simp only [DAt]
        exact ⟨⟨n, hn, hu, hl, hf, hid⟩, n, hn, by simp⟩
    · exact ⟨h2, hT2, frame2_refl _ _⟩
  · refine ⟨shinv2_setEL h2 n _ (Lock.wf_delR _ (h2.ewf n)), ?_, frame2_setEL n _ view_delR (Or.inr (Or.inl hu))⟩
    refine ⟨(fun n' w' h => by cases h), hT2.nOk, (fun _ => by simp only [ExAt]), (fun _ _ _ _ _ => rfl), ?_⟩
    simp only [DAt]
    exact ⟨n, hn, hu, hl, hf, hid⟩

theorem stepOK2_xRelock {hash : Nat → Nat} {sh : Sh} {tid : Tid} {t : Th} (alt : Nat) (h2 : ShInv2 sh) (hT2 : ThInv2 hash sh tid t)
    (hK : KInv t) (hpc : t.pc = .xRelock) : StepOK2 hash sh tid t (stepTh hash sh tid t alt).1 (stepTh hash sh tid t alt).2.1 := by
  have hd := hT2.d
  rw [hpc] at hd
  simp only [DAt] at hd
  obtain ⟨n, hn, hu, hl, hf, hid⟩ := hd
  have hk : t.op.k = .exclude := by have := hK; unfold KInv at this; rw [hpc] at this; exact this
  have hns : needsSlot t.op = false := by unfold needsSlot; rw [hk]
  have hstep : stepTh hash sh tid t alt =
      (if (sh.elk n).isFree then (sh.setEL n ((sh.elk n).setW tid), { t with acc := some (n, true), pc := Pc.eRel }, Lab.el n.id true)
       else (sh, t, .blocked)) := by
    unfold stepTh
    rw [hpc]
    simp only
    rw [hn]
  rw [hstep]
  split
  · rename_i hfree
    obtain ⟨hw, hr⟩ := (Lock.isFree_iff _).1 hfree
    refine ⟨shinv2_setEL h2 n _ (Lock.wf_setW _ _), ?_, frame2_setEL n _ (view_setW_free hw hr) (Or.inr (Or.inl hu))⟩
    refine ⟨?_, hT2.nOk, (fun _ => by simp only [ExAt]; exact ⟨n, hn, rfl⟩), (fun h => by rw [show ({ t with acc := some (n, true), pc := Pc.eRel } : Th).op = t.op from rfl, hns] at h; cases h), ?_⟩
    · intro n' w' h
      simp only [Option.some.injEq, Prod.mk.injEq] at h
      obtain ⟨rfl, rfl⟩ := h
      exact ⟨by simp [HoldsE], hf, hid⟩
    · simp only [DAt]
      exact ⟨⟨n, hn, hu, hl, hf, hid⟩, n, hn, by simp⟩
  · exact ⟨h2, hT2, frame2_refl _ _⟩

theorem stepOK2_xRelAcc {hash : Nat → Nat} {sh : Sh} {tid : Tid} {t : Th} (alt : Nat) (h2 : ShInv2 sh) (hT2 : ThInv2 hash sh tid t)
    (hK : KInv t) (hpc : t.pc = .xRelAcc) : StepOK2 hash sh tid t (stepTh hash sh tid t alt).1 (stepTh hash sh tid t alt).2.1 := by
  have hk : t.op.k = .exclude := by have := hK; unfold KInv at this; rw [hpc] at this; exact this
  have hex := hT2.ex hk
  rw [hpc] at hex
  simp only [ExAt] at hex
  obtain ⟨n, w, hn, hacc, _⟩ := hex
  obtain ⟨hheld, hf, hid⟩ := hT2.heldE n w hacc
  have hns : needsSlot t.op = false := by unfold needsSlot; rw [hk]
  have hstep : stepTh hash sh tid t alt =
      ((if w then sh.setEL n (sh.elk n).clrW else sh.setEL n ((sh.elk n).delR tid)), { t with acc := none, pc := Pc.relB After.fin },
        if w then Lab.euw n.id else Lab.eur n.id) := by
    unfold stepTh
    rw [hpc]
    simp only
    rw [hacc]
  rw [hstep]
  have hthr : ∀ sh' : Sh, sh.nextId ≤ sh'.nextId → ThInv2 hash sh' tid { t with acc := none, pc := Pc.relB After.fin } := by
    intro sh' hle
    refine ⟨(fun n' w' h => by cases h), fun x hx => Nat.lt_of_lt_of_le (hT2.nOk x hx) hle, (fun _ => by simp only [ExAt]), (fun _ _ h => absurd rfl h), ?_⟩
    simp only [DAt]
  cases w with
  | true =>
    have hw : (sh.elk n).w = some tid := by simpa [HoldsE] using hheld
    simp only [if_true]
    exact ⟨shinv2_setEL h2 n _ (Lock.wf_clrW _), hthr _ (Nat.le_refl _), frame2_setEL n _ (view_clrW hw) (Or.inr (Or.inr (Or.inr hw)))⟩
  | false =>
    have hr : tid ∈ (sh.elk n).r := by simpa [HoldsE] using hheld
    simp only [Bool.false_eq_true, if_false]
    exact ⟨shinv2_setEL h2 n _ (Lock.wf_delR _ (h2.ewf n)), hthr _ (Nat.le_refl _), frame2_setEL n _ view_delR (Or.inr (Or.inr (Or.inl hr)))⟩

end TbbVerif.C10
