/- C10: control-flow facts of `HMap` around the contended upgrade (re-search) and the mask race, and the negative-result
lemma, used by Props/C10.lean. -/
import TbbVerif.Proofs.C10.RThm

namespace TbbVerif.C10R

open TbbVerif.C10

/-- `lookup<insert>` after `upgrade_to_writer()` returned false: the step that re-acquires the bucket lock searches the
chain again — it continues to `dng` with the node it found, or to the mask check with the key still absent -/
theorem relock_researches (hash : Nat → Nat) (sh : Sh) (tid : Tid) (t : Th) (alt : Nat) (hpc : t.pc = .relock) :
    let t' := (stepTh hash sh tid t alt).2.1
    (t' = t ∧ (stepTh hash sh tid t alt).1 = sh) ∨
    (t'.pc = .dng ∧ ∃ n, findKey (sh.chainOf t.tgt) t.op.key = some n ∧ t'.n = some n) ∨
    (t'.pc = .chk1 ∧ findKey (sh.chainOf t.tgt) t.op.key = none) := by
  unfold stepTh
  rw [hpc]
  simp only
  split
  · cases hf : findKey (sh.chainOf t.tgt) t.op.key with
    | none => right; right; simp [hf]
    | some n => right; left; simp [hf]
  · left; exact ⟨rfl, rfl⟩

/-- from `upg` the mask check (and then the linking) is reached directly only by the in-place upgrade -/
theorem upg_chk1_inplace (hash : Nat → Nat) (sh : Sh) (tid : Tid) (t : Th) (alt : Nat) (hpc : t.pc = .upg)
    (h : (stepTh hash sh tid t alt).2.1.pc = .chk1) : alt = 0 ∧ ∃ b w, t.stk = [(b, w)] ∧ (sh.blk b).soleReader tid = true := by
  revert h
  unfold stepTh
  rw [hpc]
  simp only
  split
  · rename_i b w hs
    split
    · rename_i ha
      split
      · rename_i hsole
        intro _; exact ⟨ha, b, w, hs, hsole⟩
      · intro h; rw [hpc] at h; cases h
    · intro h; cases h
  · intro h; rw [hpc] at h; cases h

theorem afterAcq_pc_ne_link (hash : Nat → Nat) (sh : Sh) (tid : Tid) (t : Th) (h : t.pc ≠ .link) : (afterAcq hash sh tid t).2.pc ≠ .link := by
  unfold afterAcq
  split
  · exact h
  · dsimp only
    split
    · simp
    · split <;> simp
  · dsimp only
    cases hk : t.op.k <;> simp only [] <;> (repeat' split) <;> simp

theorem afterLink_pc_ne_link (t : Th) : (afterLink t).pc ≠ .link := by
  unfold afterLink afterNode
  split <;> simp

/-- the node is linked (`insert_new_node`) only right after `check_mask_race` let the (re-)search stand -/
theorem link_only_after_chk (hash : Nat → Nat) (sh : Sh) (tid : Tid) (t : Th) (alt : Nat)
    (h : (stepTh hash sh tid t alt).2.1.pc = .link) (hne : t.pc ≠ .link) : t.pc = .chk1 ∨ t.pc = .chk2 := by
  apply Classical.byContradiction
  intro hne2
  revert h
  cases hpc : t.pc <;> unfold stepTh <;> rw [hpc] <;> simp only
  case link => exact absurd hpc hne
  case chk1 => exact absurd (Or.inl hpc) hne2
  case chk2 => exact absurd (Or.inr hpc) hne2
  case lockTry =>
    (repeat' split) <;> first | (intro h; exact afterAcq_pc_ne_link _ _ _ _ (by simp [hpc]) h) | (intro h; rw [hpc] at h; cases h) | simp
  case lockBlk =>
    (repeat' split) <;> first | (intro h; exact afterAcq_pc_ne_link _ _ _ _ (by simp [hpc]) h) | (intro h; rw [hpc] at h; cases h) | simp
  case rhUpg =>
    (repeat' split) <;> first | (intro h; exact afterAcq_pc_ne_link _ _ _ _ (by simp [hpc]) h) | (intro h; rw [hpc] at h; cases h) | simp
  case rhRelock =>
    (repeat' split) <;> first | (intro h; exact afterAcq_pc_ne_link _ _ _ _ (by simp [hpc]) h) | (intro h; rw [hpc] at h; cases h) | simp
  case rhRel =>
    (repeat' split) <;> first | (intro h; exact afterAcq_pc_ne_link _ _ _ _ (by simp [hpc]) h) | (intro h; rw [hpc] at h; cases h) | simp
  case elect1 =>
    (repeat' split) <;> first | (intro h; exact afterLink_pc_ne_link _ h) | simp
  case elect2 =>
    (repeat' split) <;> first | (intro h; exact afterLink_pc_ne_link _ h) | simp
  all_goals ((repeat' split) <;> first | (intro h; rw [hpc] at h; cases h) | (simp [Th.finish, Th.drop, doRdMask]; done) | (simp [Th.finish, Th.drop, doRdMask, hpc]))

/-- **Negative results are truthful.** A step that appends a failed find / count / erase-by-key to the linearization does
so in a state whose table does not contain the key. -/
theorem negative_result_absent (hash : Nat → Nat) (progs : List (List Op)) (sched : List Act) (a : Act) (e : HEv)
    (hh : (step hash (run hash progs sched) a).sh.hist = e :: (run hash progs sched).sh.hist)
    (hk : e.k = .find ∨ e.k = .count ∨ e.k = .erase) (hok : e.ok = false) :
    (run hash progs sched).sh.present hash e.key = none := by
  have hA := invAll_reachable hash progs sched
  have hA' := invAll_step hash _ a hA
  obtain ⟨s0, h0, h3, h4⟩ := hA.i2.sh.lin
  obtain ⟨s1, h1, _, _⟩ := hA'.i2.sh.lin
  rw [hh] at h1
  obtain ⟨s0', h0', hst⟩ := specOf_cons_some h1
  rw [h0] at h0'; cases h0'
  have hnone : s0 e.key = none := by
    cases hs : s0 e.key with
    | none => rfl
    | some n =>
      exfalso
      rcases hk with hk | hk | hk <;> simp only [specStep, hk, hs, hok] at hst <;> (repeat' split at hst) <;> simp_all
  have heq : ∀ k, s0 k = (run hash progs sched).sh.present hash k := by
    intro k
    cases hsk : s0 k with
    | none =>
      cases hp : (run hash progs sched).sh.present hash k with
      | none => rfl
      | some n =>
        exfalso
        obtain ⟨hl, hkk⟩ := present_some_linked hp
        have := (h3 n).2 hl
        rw [hkk, hsk] at this; cases this
    | some n =>
      have hkk := h4 k n hsk
      obtain ⟨b, hb⟩ := (h3 n).1 (by rw [hkk]; exact hsk)
      rw [← hkk, present_eq_some hA.i1.sh hb]
  rw [← heq]; exact hnone

end TbbVerif.C10R
