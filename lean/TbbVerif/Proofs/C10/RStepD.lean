/- C10 (refined model): an access to a lock word preserves `Coupled` — accesses without effect, downgrade. -/
import TbbVerif.Proofs.C10.RStepC

namespace TbbVerif.C10R

open TbbVerif.C10

theorem noeff_refl (sh : Sh) (t : Th) : NoEff sh t sh t := ⟨fun _ => rfl, fun _ h => h, fun _ h => h⟩

/-- the state after `lockAccess` for an arbitrary effect -/
theorem runOut_gen {hash : Nat → Nat} {s : RSt} {tid : Tid} {t : Th} {r : RTh} {L : LId} {th : C08.Th} (acts : List Act) (lag' : Bool) (t' : Th)
    (hs : slot s L tid = some th)
    (heff : effect s.a.sh tid t r th (acT (getL s L).word th) = (acts, lag'))
    (hacts : ∀ x ∈ acts, x.tid = tid) (hself : (runFrom hash s.a acts).ths[tid]? = some t') :
    RunOut hash s (lockAccess hash s tid t r L) tid L t' (acT (getL s L).word th)
      { cur := if (acT (getL s L).word th).ops.isEmpty then none else some L, lag := lag' } ∧
    (lockAccess hash s tid t r L).a = runFrom hash s.a acts := by
  have hs' := step_slot_self (getL s L) tid th hs
  obtain ⟨h1, h2, h3⟩ := lockAccess_out hash s tid t r L th _ hs hs'
  rw [heff] at h1 h2
  exact ⟨⟨h3, h2, ⟨acts, h1, hacts⟩, by rw [h1]; exact hself, hs'⟩, h1⟩

section silent
variable {hash : Nat → Nat} {s : RSt} {tid : Tid} {t : Th} {r : RTh} {L : LId} {th : C08.Th}

/-- an access that neither grants nor releases (and is not the failure of `bucket_accessor`'s try-lock): nothing but the
accessed word and the thread's slot changes -/
theorem silent_coupled (hC : Coupled hash s) (ht : s.a.ths[tid]? = some t) (hr : s.rt[tid]? = some r) (hcur : r.cur = some L)
    (hs : slot s L tid = some th) (hpre : PreOK th)
    (htrn : trOf th.phase (acT (getL s L).word th).phase = .none)
    (hnt : ((acT (getL s L).word th).ops.isEmpty && (th.ops.head?.map isTry).getD false && t.pc == .lockTry) = false)
    (hWW : th.phase = .holdW ↔ (acT (getL s L).word th).phase = .holdW) (hRR : phaseR th.phase ↔ phaseR (acT (getL s L).word th).phase)
    (hcont : ((acT (getL s L).word th).ops = [] ∧ relockPc t.pc = false) ∨
      ∃ op, (acT (getL s L).word th).ops = [op] ∧ PreOK (acT (getL s L).word th) ∧ CurOK t r L op (acT (getL s L).word th))
    (hfl : ∀ b, L = .b b → FlagC (lockAccess hash s tid t r L) b) :
    Coupled hash (lockAccess hash s tid t r L) := by
  have heff := effect_none s.a.sh tid t r th _ htrn hnt
  obtain ⟨ro, ha⟩ := runOut_gen (hash := hash) [] r.lag t hs heff (by simp) ht
  have hT := hC.th tid t r ht hr
  have hsh : (lockAccess hash s tid t r L).a = s.a := ha
  refine access_coupled hC ht hr hs hpre (out_noeff hC ht hr hcur hs ro (by rw [hsh]; exact noeff_refl _ _) hWW hRR hfl ?_)
  refine ⟨?_, hT.lagpc, ?_, ?_⟩
  · rcases hcont with ⟨h, _⟩ | ⟨op, h1, h2, h3⟩
    · exact Or.inl ⟨h, by simp [h]⟩
    · exact Or.inr ⟨op, h1, by simp [h1], h2, curOK_lag rfl h3⟩
  · intro hrl
    rcases hcont with ⟨_, h⟩ | ⟨op, h1, _, _⟩
    · rw [h] at hrl; cases hrl
    · simp [h1]
  · intro hl hf
    rw [hsh] at hf ⊢
    exact hT.lagK hl hf

end silent

/-- `FlagC` of the accessed bucket after the access, from what is known about the thread's new slot and the new word -/
theorem flagC_build {hash : Nat → Nat} {s s' : RSt} {tid : Tid} {b : Nat} {th' : C08.Th} (hC : Coupled hash s)
    (hgl : getL s' (.b b) = C08.step (getL s (.b b)) tid) (hslot' : (C08.step (getL s (.b b)) tid).ths[tid]? = some th')
    (hf0 : (s'.a.sh.bkt b).isFlagged = true → (s.a.sh.bkt b).isFlagged = true)
    (hth : (th'.phase = .idle ∨ th'.phase = .holdW) ∧ th'.pc ≠ .sharedAdd ∧ (th'.pc = .lockCas → th'.sv = 0))
    (hword : (s'.a.sh.blk b).w = none → (C08.step (getL s (.b b)) tid).word = {}) : FlagC s' b := by
  intro hf
  obtain ⟨h1, _⟩ := hC.flag b (hf0 hf)
  have hg : s'.bw b = C08.step (s.bw b) tid := hgl
  rw [hg]
  refine ⟨?_, hword⟩
  intro i x hx
  by_cases hi : i = tid
  · subst hi
    have : (C08.step (s.bw b) i).ths[i]? = some th' := hslot'
    rw [this] at hx; cases hx
    exact hth
  · rw [step_slot_other _ _ _ hi] at hx
    exact h1 i x hx

section dng
variable {hash : Nat → Nat} {s : RSt} {tid : Tid} {t : Th} {r : RTh} {L : LId} {th : C08.Th}

theorem downgrade_coupled (hC : Coupled hash s) (ht : s.a.ths[tid]? = some t) (hr : s.rt[tid]? = some r) (hcur : r.cur = some L)
    (hs : slot s L tid = some th) (hops : th.ops = [.downgrade]) (hpre : PreOK th)
    (hcok : CurOK t r L .downgrade th) : Coupled hash (lockAccess hash s tid t r L) := by
  obtain ⟨hph, hpc, ⟨w, hstk⟩, rfl⟩ := hcok
  have hwf := (hC.lk _).inv.hwf tid th hs
  have hpc0 : th.pc = .start := by have := hwf.2.2.2; rw [hops] at this; exact this
  obtain ⟨hdone, hR⟩ := downgrade_out (getL s (.b t.b0)).word th hops hpre hpc0
  have htr : trOf th.phase (acT (getL s (.b t.b0)).word th).phase = .dng := by rw [hR, hph]; rfl
  have hlag := lag_false_of_pc hC ht hr (by rw [hpc]; simp)
  have heff : effect s.a.sh tid t r th (acT (getL s (.b t.b0)).word th) = ([{ tid := tid, alt := 0 }], false) := by
    rw [effect_tr _ _ _ _ _ _ (by rw [htr]; simp), htr, hlag, hpc]; rfl
  obtain ⟨ro, hsh⟩ := runOut_one (hash := hash) 0 ht hs heff hdone
  obtain ⟨he, hHR⟩ := dng_eff hash s.a.sh tid t 0 t.b0 w hpc hstk
  have hc := (hC.abs.i1.th tid t ht).c
  rw [hpc] at hc; simp only [CAt] at hc
  have hnf := notflag_after hC ro (notflag_of_chain hc.2.1.1)
  refine access_coupled hC ht hr hs hpre (out_eff hC ht hr hcur hs ro (by rw [hsh]; exact he) (spec_dng (view_of hC hs) hR) ?_
    (fun b hb => by cases hb; exact Or.inl hnf) (fun b hb => by cases hb; exact flagC_vacuous hnf)
    (slotOut_done hdone (not_relock_after hash s.a.sh tid t 0 (by rw [hpc]; rfl) (by rw [hpc]; rfl))))
  rw [hR]
  exact ⟨(fun h => by cases h), fun _ => hHR⟩

end dng

end TbbVerif.C10R
