/- C10 (refined model): `Coupled` is an invariant of `HMapR` — every step preserves it, the initial state satisfies it. -/
import TbbVerif.Proofs.C10.RStepH

namespace TbbVerif.C10R

open TbbVerif.C10

theorem lockAccess_coupled {hash : Nat → Nat} {s : RSt} (hC : Coupled hash s) {tid : Tid} {t : Th} {r : RTh} {L : LId}
    (ht : s.a.ths[tid]? = some t) (hr : s.rt[tid]? = some r) (hcur : r.cur = some L) :
    Coupled hash (lockAccess hash s tid t r L) := by
  obtain ⟨th, op, hs, hops, hpre, hcok⟩ := (hC.th tid t r ht hr).cur L hcur
  have elemOf : t.n.map LId.e = some L → ∃ n, t.n = some n ∧ L = .e n := by
    intro h
    cases hn : t.n with
    | none => rw [hn] at h; cases h
    | some n => rw [hn] at h; simp at h; exact ⟨n, rfl, h.symm⟩
  cases op with
  | lock =>
    obtain ⟨hph, hh⟩ := hcok
    rcases hh with ⟨hpcs, hw, rfl⟩ | ⟨hpc, hL⟩
    · exact blocking_coupled hC ht hr hcur hs hops hpre hpcs (by simp [hw]) (Or.inl hph)
    · obtain ⟨n, hn, rfl⟩ := elemOf hL
      exact eLock_coupled hC ht hr hcur hs hops hpre hpc hn hph
  | tryLock =>
    obtain ⟨hph, hh⟩ := hcok
    rcases hh with ⟨hpc, hlag, rfl⟩ | ⟨hpc, hL, h2⟩
    · exact tryLock_bucket_coupled hC ht hr hcur hs hops hpre hph hpc hlag
    · obtain ⟨n, hn, rfl⟩ := elemOf hL
      exact elemTry_coupled hC ht hr hcur hs hops hpre hpc hn (by simp [h2]) (Or.inl hph)
  | unlock =>
    obtain ⟨hph, hrel⟩ := hcok
    exact release_coupled hC ht hr hcur hs true hops hpre (by simpa using hph) hrel
  | lockShared =>
    obtain ⟨hph, hpcs, hw, rfl⟩ := hcok
    refine blocking_coupled hC ht hr hcur hs hops hpre hpcs (by simp [hw]) ?_
    rcases hph with h | h
    · exact Or.inl h
    · exact Or.inr ⟨h, hw⟩
  | tryLockShared =>
    obtain ⟨hph, hpc, hL, h2⟩ := hcok
    obtain ⟨n, hn, rfl⟩ := elemOf hL
    refine elemTry_coupled hC ht hr hcur hs hops hpre hpc hn (by simp [h2]) ?_
    rcases hph with h | h
    · exact Or.inl h
    · exact Or.inr ⟨h, h2⟩
  | unlockShared =>
    obtain ⟨hph, hrel⟩ := hcok
    exact release_coupled hC ht hr hcur hs false hops hpre (by simpa using hph) hrel
  | upgrade => exact upgrade_coupled hC ht hr hcur hs hops hpre hcok
  | downgrade => exact downgrade_coupled hC ht hr hcur hs hops hpre hcok

/-- **Every step of `HMapR` preserves the coupling invariant.** -/
theorem coupled_step (hash : Nat → Nat) (s : RSt) (x : Act) (hC : Coupled hash s) : Coupled hash (rstep hash s x) := by
  unfold rstep
  cases ht : s.a.ths[x.tid]? with
  | none => exact hC
  | some t =>
    cases hr : s.rt[x.tid]? with
    | none => exact hC
    | some r =>
      simp only
      cases hcur : r.cur with
      | some L => exact lockAccess_coupled hC ht hr hcur
      | none =>
        simp only
        cases hreq : request t r x.alt with
        | some p =>
          obtain ⟨L, op⟩ := p
          simp only
          exact issue_coupled hC ht hr hcur hreq _ (by simp) rfl (fun L' => getL_setL s L L' _)
        | none =>
          simp only
          split
          · exact hC
          · rename_i hnl
            exact nolock_coupled hC ht hr hcur (by simpa using hnl) _ rfl rfl (fun _ => rfl)

theorem coupled_init (hash : Nat → Nat) (progs : List (List Op)) : Coupled hash (rinit progs) := by
  have hAI := absInv_init hash progs
  have hN : (rinit progs).a.ths.length = progs.length := by simp [rinit, initSt]
  have hgl : ∀ L, getL (rinit progs) L = idleLock progs.length := by intro L; cases L <;> rfl
  have hlock : ∀ L, lockOf (rinit progs).a.sh L = {} := by intro L; cases L <;> rfl
  have hslot : ∀ L i x, slot (rinit progs) L i = some x → x = { ops := [] } := by
    intro L i x h; unfold slot at h; rw [hgl] at h; exact idleLock_slot h
  refine ⟨hAI.all, hAI.es, by simp [rinit, initSt], ?_, ?_, ?_, ?_, ?_, ?_⟩
  · intro L; rw [hgl, hN]; exact idleLock_ok _
  · intro L i x _; rw [hlock]; exact ⟨(fun h => by cases h), (fun h => by cases h)⟩
  · intro L; rw [hlock]; exact ⟨List.nodup_nil, (fun i h => by cases h), (fun i h => by cases h)⟩
  · intro L i t x _ hx
    rw [hslot L i x hx]
    exact ⟨(fun h => by cases h), (fun h => by rcases h with h | h | h <;> cases h)⟩
  · intro b _
    refine ⟨?_, fun _ => rfl⟩
    intro i x hx
    have : x = { ops := [] } := hslot (.b b) i x hx
    rw [this]
    exact ⟨Or.inl rfl, by simp, (fun h => by cases h)⟩
  · intro tid t r ht hr
    have hr' : r = {} := by
      simp only [rinit, List.getElem?_map] at hr
      cases hp : progs[tid]? with
      | none => rw [hp] at hr; cases hr
      | some p => rw [hp] at hr; cases hr; rfl
    subst hr'
    have ht' : ∃ p : List Op, t = ({ ops := p } : Th) := by
      simp only [rinit, initSt, List.getElem?_map] at ht
      cases hp : progs[tid]? with
      | none => rw [hp] at ht; cases ht
      | some p => rw [hp] at ht; exact ⟨p, (Option.some.inj ht).symm⟩
    obtain ⟨p, rfl⟩ := ht'
    refine ⟨(fun h => by cases h), ?_, (fun L h => by cases h), (fun h => by cases h), (fun h => by cases h)⟩
    intro L x _ hx
    rw [hslot L tid x hx]

theorem coupled_rrunFrom (hash : Nat → Nat) (sched : List Act) : ∀ s, Coupled hash s → Coupled hash (rrunFrom hash s sched) := by
  induction sched with
  | nil => intro s h; exact h
  | cons x xs ih => intro s h; exact ih _ (coupled_step hash s x h)

/-- **The coupling invariant holds in every reachable state of `HMapR`**: any number of threads, any programs, any
schedule, any hash function. -/
theorem coupled_reachable (hash : Nat → Nat) (progs : List (List Op)) (sched : List Act) : Coupled hash (rrun hash progs sched) :=
  coupled_rrunFrom hash sched _ (coupled_init hash progs)

end TbbVerif.C10R
