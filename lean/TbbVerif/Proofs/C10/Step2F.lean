/- C10: second invariant, steps link and unlink: the linearization points of successful insert / erase. -/
import TbbVerif.Proofs.C10.Step2E

namespace TbbVerif.C10

theorem specOf_cons (e : HEv) (es : List HEv) : specOf (e :: es) = (specOf es).bind (fun s => specStep s e) := rfl

theorem stepOK2_link {hash : Nat → Nat} {sh : Sh} {tid : Tid} {t : Th} (alt : Nat) (hS : ShInv hash sh) (hT : ThInv hash sh tid t)
    (h2 : ShInv2 sh) (hT2 : ThInv2 hash sh tid t) (hU : Untouched sh) (hpc : t.pc = .link) :
    StepOK2 hash sh tid t (stepTh hash sh tid t alt).1 (stepTh hash sh tid t alt).2.1 := by
  have hc := hT.c
  rw [hpc] at hc
  simp only [CAt] at hc
  obtain ⟨hs, hop, hnf, habove, hk⟩ := hc
  have hpci : t.pc ≠ .idle := by rw [hpc]; simp
  have hkne : t.op.k ≠ .exclude := by rw [hk]; simp
  have hfk : findKey (sh.chainOf t.b0) t.op.key = none := by unfold NotFound at hnf; rw [if_neg hkne] at hnf; exact hnf
  have hhash : t.h = hash t.op.key := hT.hOk hpci hkne
  have hHome : HomeIs sh (hash t.op.key) t.b0 := by rw [← hhash]; exact ⟨hop.2, hop.1, habove⟩
  have hnokey := no_key_of_home hS hHome hfk
  let nd : Node := { id := sh.nextId, key := t.op.key, val := t.op.val }
  let sh1 : Sh := ({ sh with size := sh.size + 1, nextId := sh.nextId + 1 }.setB t.b0 (.chain (nd :: sh.chainOf t.b0))).log (t.ev tid true (some nd))
  have hstep : stepTh hash sh tid t alt =
      (if sh.size + 1 ≥ 2 ^ t.m - 1 then (sh1, { t with n := some nd, ret := true, pc := Pc.elect1 }, Lab.szinc (sh.size + 1))
       else (sh1, afterLink { t with n := some nd, ret := true }, Lab.szinc (sh.size + 1))) := by
    simp only [sh1, nd]
    generalize t.b0 = b0 at hs
    unfold stepTh
    rw [hpc]
    simp only
    rw [hs]
  rw [hstep]
  have hco : ∀ x, sh1.chainOf x = if x = t.b0 then nd :: sh.chainOf t.b0 else sh.chainOf x := by
    intro x
    show ((if x = t.b0 then Bucket.chain (nd :: sh.chainOf t.b0) else sh.bkt x)).nodes = _
    split <;> rfl
  have hl1 : ∀ n, IsLinked sh1 n ↔ IsLinked sh n ∨ n = nd := by
    intro n
    constructor
    · intro ⟨x, hx⟩
      rw [hco] at hx
      split at hx
      · rcases List.mem_cons.1 hx with h | h
        · exact Or.inr h
        · exact Or.inl ⟨t.b0, h⟩
      · exact Or.inl ⟨x, hx⟩
    · intro h
      rcases h with ⟨x, hx⟩ | h
      · by_cases hxb : x = t.b0
        · exact ⟨t.b0, by rw [hco, if_pos rfl]; exact List.mem_cons_of_mem _ (hxb ▸ hx)⟩
        · exact ⟨x, by rw [hco, if_neg hxb]; exact hx⟩
      · exact ⟨t.b0, by rw [hco, if_pos rfl, h]; exact List.mem_cons_self ..⟩
  have hndU := hU nd (Nat.le_refl _)
  have hS1 : ShInv2 sh1 := by
    refine ⟨h2.ewf, ?_, ?_, ?_⟩
    · intro n hn
      show n.id < sh.nextId + 1
      rcases (hl1 n).1 hn with h | h
      · have := h2.fresh n h; omega
      · rw [h]; exact Nat.lt_succ_self _
    · intro n hn
      rcases (hl1 n).1 hn with h | h
      · exact h2.linkedOk n h
      · rw [h]; exact hndU
    · obtain ⟨s, h1, h3, h4⟩ := h2.lin
      have hsk : s t.op.key = none := by
        cases hsk : s t.op.key with
        | none => rfl
        | some n =>
          exfalso
          have hnk := h4 _ _ hsk
          exact hnokey n ((h3 n).1 (by rw [hnk]; exact hsk)) hnk
      have hkeyE : (t.ev tid true (some nd)).key = t.op.key := ev_key_ne_excl hkne
      refine ⟨upd s t.op.key (some nd), ?_, ?_, ?_⟩
      · show specOf ((t.ev tid true (some nd)) :: sh.hist) = _
        rw [specOf_cons, h1]
        show specStep s (t.ev tid true (some nd)) = _
        unfold specStep
        simp only [ev_k, hk, hkeyE, hsk, ev_ok, ev_node]
        simp [nd]
      · intro n
        rw [hl1]
        unfold upd
        by_cases hnk : n.key = t.op.key
        · rw [if_pos hnk]
          constructor
          · intro h; exact Or.inr (Option.some.inj h).symm
          · intro h
            rcases h with h | h
            · exact absurd hnk (hnokey n h)
            · rw [h]
        · rw [if_neg hnk]
          constructor
          · intro h; exact Or.inl ((h3 n).1 h)
          · intro h
            rcases h with h | h
            · exact (h3 n).2 h
            · exact absurd (by rw [h]) hnk
      · intro k n hkn
        unfold upd at hkn
        split at hkn
        · rename_i hkk; rw [← Option.some.inj hkn, hkk]
        · exact h4 k n hkn
  have hF : Frame2 sh tid sh1 :=
    ⟨fun _ _ _ => Iff.rfl, fun _ _ _ => Iff.rfl, fun x h => absurd rfl h, fun x h => absurd rfl h, fun x h => absurd rfl h,
      fun n hn => by
        rcases (hl1 n).1 hn with h | h
        · exact Or.inl h
        · exact Or.inr (by rw [h]; exact Nat.le_refl _),
      Nat.le_succ _⟩
  have mkT : ∀ t' : Th, t'.acc = t.acc → t'.n = some nd → t'.ops = t.ops → (t'.pc = .elect1 ∨ t'.pc = .elemTry ∨ t'.pc = .relB .fin) →
      ThInv2 hash sh1 tid t' := by
    intro t' hacc hn hops hpc'
    have hop' : t'.op = t.op := by unfold Th.op; rw [hops]
    refine ⟨?_, ?_, (fun hk' => by rw [hop'] at hk'; exact absurd hk' hkne), ?_, ?_⟩
    · intro n w h
      rw [hacc] at h
      obtain ⟨h1, h3, h4⟩ := hT2.heldE n w h
      exact ⟨h1, h3, Nat.lt_succ_of_lt h4⟩
    · intro n h
      rw [hn] at h; cases h
      exact Nat.lt_succ_self _
    · intro hns _ _ _ _
      rw [hacc]
      rw [hop'] at hns
      exact hT2.accNone hns hpci (by rw [hpc]; simp) (by rw [hpc]; simp) (by rw [hpc]; simp)
    · rcases hpc' with h | h | h <;> rw [h] <;> simp only [DAt]
  split
  · exact ⟨hS1, mkT _ rfl rfl rfl (Or.inl rfl), hF⟩
  · refine ⟨hS1, ?_, hF⟩
    unfold afterLink afterNode
    split
    · exact mkT _ rfl rfl rfl (Or.inr (Or.inr rfl))
    · exact mkT _ rfl rfl rfl (Or.inr (Or.inl rfl))

theorem nodup_of_keys {c : List Node} (h : (c.map (·.key)).Nodup) : c.Nodup := by
  induction c with
  | nil => exact List.nodup_nil
  | cons x xs ih =>
    rw [List.map_cons, List.nodup_cons] at h
    rw [List.nodup_cons]
    exact ⟨fun hm => h.1 (List.mem_map.2 ⟨x, hm, rfl⟩), ih h.2⟩

theorem stepOK2_unlink {hash : Nat → Nat} {sh : Sh} {tid : Tid} {t : Th} (alt : Nat) (hS : ShInv hash sh) (hT : ThInv hash sh tid t)
    (h2 : ShInv2 sh) (hT2 : ThInv2 hash sh tid t) (hK : KInv t) (hpc : t.pc = .unlink) :
    StepOK2 hash sh tid t (stepTh hash sh tid t alt).1 (stepTh hash sh tid t alt).2.1 := by
  have hc := hT.c
  rw [hpc] at hc
  simp only [CAt] at hc
  obtain ⟨hs, hop, n, hn, hmem, hkey⟩ := hc
  have hpci : t.pc ≠ .idle := by rw [hpc]; simp
  have hkk : t.op.k = .erase ∨ t.op.k = .exclude := by have := hK; unfold KInv at this; rw [hpc] at this; exact this
  have hlinked : IsLinked sh n := ⟨t.b0, hmem⟩
  let sh1 : Sh := ({ sh with size := sh.size - 1, unlinker := updN sh.unlinker n (some tid) }.setB t.b0 (.chain ((sh.chainOf t.b0).erase n))).log (t.ev tid true (some n))
  have hstep : stepTh hash sh tid t alt =
      (sh1, { t with ret := true, pc := Pc.relB (if t.op.k == .exclude then After.xUpg else After.eLock) }, Lab.szdec (sh.size - 1)) := by
    simp only [sh1]
    generalize t.b0 = b0 at hs
    unfold stepTh
    rw [hpc]
    simp only
    rw [hn, hs]
  rw [hstep]
  have hco : ∀ x, sh1.chainOf x = if x = t.b0 then (sh.chainOf t.b0).erase n else sh.chainOf x := by
    intro x
    show ((if x = t.b0 then Bucket.chain ((sh.chainOf t.b0).erase n) else sh.bkt x)).nodes = _
    split <;> rfl
  have hnd := nodup_of_keys (hS.nodup t.b0)
  have hl1 : ∀ n', IsLinked sh1 n' ↔ IsLinked sh n' ∧ n' ≠ n := by
    intro n'
    constructor
    · intro ⟨x, hx⟩
      rw [hco] at hx
      split at hx
      · have := (List.Nodup.mem_erase_iff hnd).1 hx
        exact ⟨⟨t.b0, this.2⟩, this.1⟩
      · rename_i hxb
        refine ⟨⟨x, hx⟩, ?_⟩
        intro heq
        rw [heq] at hx
        exact hxb (linked_unique hS hx hmem rfl).1
    · intro ⟨⟨x, hx⟩, hne⟩
      by_cases hxb : x = t.b0
      · refine ⟨t.b0, ?_⟩
        rw [hco, if_pos rfl]
        exact (List.Nodup.mem_erase_iff hnd).2 ⟨hne, hxb ▸ hx⟩
      · exact ⟨x, by rw [hco, if_neg hxb]; exact hx⟩
  have hunl1 : ∀ x, x ≠ n → sh1.unlinker x = sh.unlinker x := by
    intro x hx
    show updN sh.unlinker n (some tid) x = _
    unfold updN; rw [if_neg hx]
  -- the key of the logged entry is the key of the node
  have hkeyE : (t.ev tid true (some n)).key = n.key := by
    rcases hkk with hk | hk
    · rw [ev_key_ne_excl (by rw [hk]; simp), ← hkey (by rw [hk]; simp)]
    · have hex := hT2.ex hk
      rw [hpc] at hex
      simp only [ExAt] at hex
      obtain ⟨n', w, hn', hacc, _⟩ := hex
      rw [hn] at hn'; cases hn'
      exact ev_key_excl hk hacc
  have hS1 : ShInv2 sh1 := by
    refine ⟨h2.ewf, fun x hx => h2.fresh x ((hl1 x).1 hx).1, ?_, ?_⟩
    · intro x hx
      obtain ⟨hlx, hne⟩ := (hl1 x).1 hx
      obtain ⟨h1, h3⟩ := h2.linkedOk x hlx
      exact ⟨h1, by rw [hunl1 x hne]; exact h3⟩
    · obtain ⟨s, h1, h3, h4⟩ := h2.lin
      have hsk : s n.key = some n := (h3 n).2 hlinked
      refine ⟨upd s n.key none, ?_, ?_, ?_⟩
      · show specOf ((t.ev tid true (some n)) :: sh.hist) = _
        rw [specOf_cons, h1]
        show specStep s (t.ev tid true (some n)) = _
        unfold specStep
        rcases hkk with hk | hk
        · simp only [ev_k, hk, hkeyE, hsk, ev_ok, ev_node]
          simp
        · simp only [ev_k, hk, hkeyE, hsk, ev_ok, ev_node]
          simp
      · intro x
        rw [hl1]
        unfold upd
        by_cases hxk : x.key = n.key
        · rw [if_pos hxk]
          constructor
          · intro h; cases h
          · intro ⟨⟨bx, hbx⟩, hne⟩
            exact absurd (linked_unique hS hbx hmem hxk).2 hne
        · rw [if_neg hxk]
          constructor
          · intro h; exact ⟨(h3 x).1 h, fun heq => hxk (by rw [heq])⟩
          · intro ⟨h, _⟩; exact (h3 x).2 h
      · intro k x hkx
        unfold upd at hkx
        split at hkx
        · cases hkx
        · exact h4 k x hkx
  have hF : Frame2 sh tid sh1 := by
    refine ⟨fun _ _ _ => Iff.rfl, fun _ _ _ => Iff.rfl, fun x h => absurd rfl h, fun x h => absurd rfl h, ?_,
      fun x hx => Or.inl ((hl1 x).1 hx).1, Nat.le_refl _⟩
    intro x hx
    have : x = n := by
      apply Classical.byContradiction
      intro hne
      exact hx (hunl1 x hne)
    rw [this]; exact hlinked
  refine ⟨hS1, ?_, hF⟩
  have hunl : Unlinked sh1 tid { t with ret := true, pc := Pc.relB (if t.op.k == .exclude then After.xUpg else After.eLock) } := by
    refine ⟨n, hn, ?_, fun h => ((hl1 n).1 h).2 rfl, (h2.linkedOk n hlinked).1, h2.fresh n hlinked⟩
    show updN sh.unlinker n (some tid) n = some tid
    unfold updN; rw [if_pos rfl]
  refine ⟨hT2.heldE, hT2.nOk, ?_, ?_, ?_⟩
  · intro hk
    have hk' : t.op.k = .exclude := hk
    have hex := hT2.ex hk'
    rw [hpc] at hex
    simp only [ExAt] at hex
    have : (t.op.k == OpK.exclude) = true := by rw [hk']; rfl
    show ExAt hash _ (Pc.relB (if t.op.k == .exclude then After.xUpg else After.eLock))
    rw [this]
    simp only [if_true, ExAt]
    exact hex
  · intro hns _ _ _ _
    exact hT2.accNone hns hpci (by rw [hpc]; simp) (by rw [hpc]; simp) (by rw [hpc]; simp)
  · show DAt sh1 tid _ (Pc.relB (if t.op.k == .exclude then After.xUpg else After.eLock))
    cases (t.op.k == OpK.exclude) <;> simp only [Bool.false_eq_true, if_false, if_true, DAt] <;> exact hunl

end TbbVerif.C10
