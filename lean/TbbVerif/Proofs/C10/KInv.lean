/- C10: operation-kind facts at the pcs of the erase paths and at `elemTry` (a thread-local invariant on top of `Inv`). -/
import TbbVerif.Proofs.C10.StepOps3

namespace TbbVerif.C10

def KAt (t : Th) : Pc → Prop
  | .relB .eLock | .eLock => t.op.k = .erase
  | .relB .xUpg | .xUpg | .xRelock | .xRelAcc => t.op.k = .exclude
  | .unlink | .eRel | .free => t.op.k = .erase ∨ t.op.k = .exclude
  | .elemTry => (t.op.k = .find ∧ t.ret = true) ∨ t.op.k = .ins
  | _ => True

def KInv (t : Th) : Prop := KAt t t.pc

theorem afterAcq_kinv (hash : Nat → Nat) (sh : Sh) (tid : Tid) (t : Th) (hK : KInv t) : KInv (afterAcq hash sh tid t).2 := by
  unfold afterAcq
  split
  · exact hK
  · dsimp only
    split
    · simp [KInv, KAt]
    · split <;> simp [KInv, KAt]
  · dsimp only
    cases hk : t.op.k <;> simp only []
    · split
      · split <;> simp [KInv, KAt, Th.op] <;> (simp only [Th.op] at hk; simp [hk])
      · split <;> simp [KInv, KAt]
    · split
      · simp [KInv, KAt, Th.op]; simp only [Th.op] at hk; simp [hk]
      · simp [KInv, KAt]
    · split <;> simp [KInv, KAt]
    · split
      · split <;> simp [KInv, KAt, Th.op] <;> (simp only [Th.op] at hk; simp [hk])
      · simp [KInv, KAt]
    · split
      · split
        · simp [KInv, KAt, Th.op]; simp only [Th.op] at hk; simp [hk]
        · simp [KInv, KAt]
      · simp [KInv, KAt]
    · simp [KInv, KAt]

theorem chkPass_kinv (sh : Sh) (tid : Tid) (u : Th) (hK : KInv u) : KInv (chkPass sh tid u).2 := by
  unfold chkPass
  cases hk : u.op.k <;> simp only []
  · simp [KInv, KAt]
  · simp [KInv, KAt]
  · simp [KInv, KAt]
  · split
    · split
      · split
        · simp [KInv, KAt, Th.op]; simp only [Th.op] at hk; simp [hk]
        · simp [KInv, KAt]
      · exact hK
    · simp [KInv, KAt]
  · simp [KInv, KAt, Th.op]; simp only [Th.op] at hk; simp [hk]
  · simp [KInv, KAt]

theorem kinv_afterLink (t : Th) (hk : t.op.k = .ins) : KInv (afterLink t) := by
  unfold afterLink afterNode
  split
  · simp [KInv, KAt]
  · simp [KInv, KAt, Th.op]; simp only [Th.op] at hk; simp [hk]

theorem kinv_step {hash : Nat → Nat} {sh : Sh} {tid : Tid} {t : Th} (alt : Nat) (hT : ThInv hash sh tid t) (hK : KInv t) :
    KInv (stepTh hash sh tid t alt).2.1 := by
  have hc := hT.c
  have hK' := hK
  unfold KInv at hK'
  cases hpc : t.pc <;> rw [hpc] at hc hK' <;> simp only [CAt] at hc <;> simp only [KAt] at hK' <;> unfold stepTh <;> rw [hpc] <;> simp only
  case idle =>
    split
    · exact hK
    · split
      · split
        · simp [KInv, KAt, Th.drop, hpc]
        · split <;> simp [KInv, KAt, Th.finish]
      · split
        · simp [KInv, KAt, Th.drop, hpc]
        · simp [KInv, KAt, doRdMask]
      · split
        · simp [KInv, KAt, Th.drop, hpc]
        · simp [KInv, KAt, doRdMask]
  case rdMask => simp [KInv, KAt, doRdMask]
  case peek => split <;> simp [KInv, KAt]
  case lockTry =>
    split
    · split
      · simp [KInv, KAt]
      · exact hK
    · split
      · split
        · exact afterAcq_kinv _ _ _ _ (by simp [KInv, KAt])
        · exact hK
      · simp [KInv, KAt]
  case mark => split <;> first | exact hK | simp [KInv, KAt]
  case lockBlk =>
    split
    · split
      · exact afterAcq_kinv _ _ _ _ (by simp [KInv, KAt])
      · exact hK
    · split
      · exact afterAcq_kinv _ _ _ _ (by simp [KInv, KAt])
      · exact hK
  case rhUpg =>
    split
    · split
      · split
        · exact afterAcq_kinv _ _ _ _ (by simp [KInv, KAt])
        · exact hK
      · simp [KInv, KAt]
    · exact hK
  case rhRelock =>
    split
    · exact afterAcq_kinv _ _ _ _ (by simp [KInv, KAt])
    · exact hK
  case rhRel =>
    split
    · exact afterAcq_kinv _ _ _ _ (by simp [KInv, KAt])
    · exact hK
  case upg => (repeat' split) <;> first | exact hK | simp [KInv, KAt]
  case relock => (repeat' split) <;> first | exact hK | simp [KInv, KAt]
  case dng =>
    have hk := hc.2.2.2
    (repeat' split) <;> first | exact hK | (simp only [KInv, KAt]; exact Or.inr hk) | simp [KInv, KAt]
  case chk1 =>
    split
    · exact chkPass_kinv _ _ _ hK
    · split
      · simp [KInv, KAt]
      · exact chkPass_kinv _ _ _ (by simp [KInv, KAt])
  case chk2 =>
    split
    · exact chkPass_kinv _ _ _ hK
    · simp [KInv, KAt]
  case link =>
    have hk := hc.2.2.2.2
    split
    · split
      · simp [KInv, KAt]
      · exact kinv_afterLink _ hk
    · exact hK
  case elect1 =>
    have hk := hc.2.2.2.2
    split
    · simp [KInv, KAt]
    · exact kinv_afterLink _ hk
  case elect2 =>
    have hk := hc.2.2.2.2
    split <;> exact kinv_afterLink _ hk
  case elemTry => (repeat' split) <;> first | exact hK | simp [KInv, KAt]
  case relB a =>
    split
    · cases a <;> simp only []
      · split <;> simp [KInv, KAt, Th.finish]
      · simp [KInv, KAt]
      · simp only [KInv, KAt]; exact hK'
      · split <;> simp only [KInv, KAt] <;> first | exact Or.inr hK' | exact hK'
    · exact hK
  case alloc => simp [KInv, KAt]
  case pubMask => simp [KInv, KAt, Th.finish]
  case eUpg =>
    have hk := hc.2.2.2.2
    (repeat' split) <;> first | exact hK | (simp only [KInv, KAt]; exact Or.inl hk) | simp [KInv, KAt]
  case eRelock => (repeat' split) <;> first | exact hK | simp [KInv, KAt]
  case unlink =>
    split
    · simp only [KInv, KAt]
      rcases hK' with h | h
      · have : (t.op.k == OpK.exclude) = false := by rw [h]; rfl
        simp only [this]; exact h
      · have : (t.op.k == OpK.exclude) = true := by rw [h]; rfl
        simp only [this]; exact h
    · exact hK
  case eLock => (repeat' split) <;> first | exact hK | (simp only [KInv, KAt]; exact Or.inl hK')
  case eRel => (repeat' split) <;> first | exact hK | (simp only [KInv, KAt]; exact hK')
  case free => (repeat' split) <;> first | exact hK | simp [KInv, KAt, Th.finish]
  case xUpg => (repeat' split) <;> first | exact hK | (simp only [KInv, KAt]; first | exact Or.inr hK' | exact hK')
  case xRelock => (repeat' split) <;> first | exact hK | (simp only [KInv, KAt]; exact Or.inr hK')
  case xRelAcc => (repeat' split) <;> first | exact hK | simp [KInv, KAt]

theorem kinv_init (p : List Op) : KInv ({ ops := p } : Th) := by simp [KInv, KAt]

end TbbVerif.C10
