/- C10: simp lemmas about the state update helpers of the model, and about the abstract locks. -/
import TbbVerif.Proofs.C10.Inv

namespace TbbVerif.C10

@[simp] theorem upd_same {α : Type} (f : Nat → α) (i : Nat) (v : α) : upd f i v i = v := by simp [upd]
theorem upd_other {α : Type} (f : Nat → α) {i j : Nat} (v : α) (h : j ≠ i) : upd f i v j = f j := by simp [upd, h]
theorem upd_apply {α : Type} (f : Nat → α) (i j : Nat) (v : α) : upd f i v j = if j = i then v else f j := rfl

@[simp] theorem setB_bkt (sh : Sh) (b : Nat) (v : Bucket) (j : Nat) : (sh.setB b v).bkt j = if j = b then v else sh.bkt j := rfl
@[simp] theorem setB_blk (sh : Sh) (b : Nat) (v : Bucket) : (sh.setB b v).blk = sh.blk := rfl
@[simp] theorem setB_elk (sh : Sh) (b : Nat) (v : Bucket) : (sh.setB b v).elk = sh.elk := rfl
@[simp] theorem setB_lvl (sh : Sh) (b : Nat) (v : Bucket) : (sh.setB b v).lvl = sh.lvl := rfl
@[simp] theorem setB_seg (sh : Sh) (b : Nat) (v : Bucket) : (sh.setB b v).seg = sh.seg := rfl
@[simp] theorem setB_size (sh : Sh) (b : Nat) (v : Bucket) : (sh.setB b v).size = sh.size := rfl
@[simp] theorem setB_nextId (sh : Sh) (b : Nat) (v : Bucket) : (sh.setB b v).nextId = sh.nextId := rfl
@[simp] theorem setB_hist (sh : Sh) (b : Nat) (v : Bucket) : (sh.setB b v).hist = sh.hist := rfl
@[simp] theorem setB_freed (sh : Sh) (b : Nat) (v : Bucket) : (sh.setB b v).freed = sh.freed := rfl
@[simp] theorem setB_unlinker (sh : Sh) (b : Nat) (v : Bucket) : (sh.setB b v).unlinker = sh.unlinker := rfl

@[simp] theorem setBL_blk (sh : Sh) (b : Nat) (l : Lock) (j : Nat) : (sh.setBL b l).blk j = if j = b then l else sh.blk j := rfl
@[simp] theorem setBL_bkt (sh : Sh) (b : Nat) (l : Lock) : (sh.setBL b l).bkt = sh.bkt := rfl
@[simp] theorem setBL_elk (sh : Sh) (b : Nat) (l : Lock) : (sh.setBL b l).elk = sh.elk := rfl
@[simp] theorem setBL_lvl (sh : Sh) (b : Nat) (l : Lock) : (sh.setBL b l).lvl = sh.lvl := rfl
@[simp] theorem setBL_seg (sh : Sh) (b : Nat) (l : Lock) : (sh.setBL b l).seg = sh.seg := rfl
@[simp] theorem setBL_size (sh : Sh) (b : Nat) (l : Lock) : (sh.setBL b l).size = sh.size := rfl
@[simp] theorem setBL_nextId (sh : Sh) (b : Nat) (l : Lock) : (sh.setBL b l).nextId = sh.nextId := rfl
@[simp] theorem setBL_hist (sh : Sh) (b : Nat) (l : Lock) : (sh.setBL b l).hist = sh.hist := rfl
@[simp] theorem setBL_freed (sh : Sh) (b : Nat) (l : Lock) : (sh.setBL b l).freed = sh.freed := rfl
@[simp] theorem setBL_unlinker (sh : Sh) (b : Nat) (l : Lock) : (sh.setBL b l).unlinker = sh.unlinker := rfl

@[simp] theorem setEL_elk (sh : Sh) (n : Node) (l : Lock) (j : Node) : (sh.setEL n l).elk j = if j = n then l else sh.elk j := rfl
@[simp] theorem setEL_bkt (sh : Sh) (n : Node) (l : Lock) : (sh.setEL n l).bkt = sh.bkt := rfl
@[simp] theorem setEL_blk (sh : Sh) (n : Node) (l : Lock) : (sh.setEL n l).blk = sh.blk := rfl
@[simp] theorem setEL_lvl (sh : Sh) (n : Node) (l : Lock) : (sh.setEL n l).lvl = sh.lvl := rfl
@[simp] theorem setEL_seg (sh : Sh) (n : Node) (l : Lock) : (sh.setEL n l).seg = sh.seg := rfl
@[simp] theorem setEL_size (sh : Sh) (n : Node) (l : Lock) : (sh.setEL n l).size = sh.size := rfl
@[simp] theorem setEL_nextId (sh : Sh) (n : Node) (l : Lock) : (sh.setEL n l).nextId = sh.nextId := rfl
@[simp] theorem setEL_hist (sh : Sh) (n : Node) (l : Lock) : (sh.setEL n l).hist = sh.hist := rfl
@[simp] theorem setEL_freed (sh : Sh) (n : Node) (l : Lock) : (sh.setEL n l).freed = sh.freed := rfl
@[simp] theorem setEL_unlinker (sh : Sh) (n : Node) (l : Lock) : (sh.setEL n l).unlinker = sh.unlinker := rfl

@[simp] theorem log_bkt (sh : Sh) (e : HEv) : (sh.log e).bkt = sh.bkt := rfl
@[simp] theorem log_blk (sh : Sh) (e : HEv) : (sh.log e).blk = sh.blk := rfl
@[simp] theorem log_elk (sh : Sh) (e : HEv) : (sh.log e).elk = sh.elk := rfl
@[simp] theorem log_lvl (sh : Sh) (e : HEv) : (sh.log e).lvl = sh.lvl := rfl
@[simp] theorem log_seg (sh : Sh) (e : HEv) : (sh.log e).seg = sh.seg := rfl
@[simp] theorem log_size (sh : Sh) (e : HEv) : (sh.log e).size = sh.size := rfl
@[simp] theorem log_nextId (sh : Sh) (e : HEv) : (sh.log e).nextId = sh.nextId := rfl
@[simp] theorem log_hist (sh : Sh) (e : HEv) : (sh.log e).hist = e :: sh.hist := rfl
@[simp] theorem log_freed (sh : Sh) (e : HEv) : (sh.log e).freed = sh.freed := rfl
@[simp] theorem log_unlinker (sh : Sh) (e : HEv) : (sh.log e).unlinker = sh.unlinker := rfl

@[simp] theorem chainOf_setBL (sh : Sh) (b : Nat) (l : Lock) (j : Nat) : (sh.setBL b l).chainOf j = sh.chainOf j := rfl
@[simp] theorem chainOf_setEL (sh : Sh) (n : Node) (l : Lock) (j : Nat) : (sh.setEL n l).chainOf j = sh.chainOf j := rfl
@[simp] theorem chainOf_log (sh : Sh) (e : HEv) (j : Nat) : (sh.log e).chainOf j = sh.chainOf j := rfl
theorem chainOf_setB (sh : Sh) (b : Nat) (v : Bucket) (j : Nat) : (sh.setB b v).chainOf j = if j = b then v.nodes else sh.chainOf j := by
  simp only [Sh.chainOf, setB_bkt]; split <;> rfl

@[simp] theorem nodes_chain (c : List Node) : (Bucket.chain c).nodes = c := rfl
@[simp] theorem nodes_flagged : Bucket.flagged.nodes = [] := rfl
@[simp] theorem nodes_pending (t : Tid) : (Bucket.pending t).nodes = [] := rfl
@[simp] theorem isChain_chain (c : List Node) : (Bucket.chain c).isChain = true := rfl
@[simp] theorem isChain_flagged : Bucket.flagged.isChain = false := rfl
@[simp] theorem isChain_pending (t : Tid) : (Bucket.pending t).isChain = false := rfl
@[simp] theorem isFlagged_chain (c : List Node) : (Bucket.chain c).isFlagged = false := rfl
@[simp] theorem isFlagged_flagged : Bucket.flagged.isFlagged = true := rfl
@[simp] theorem isFlagged_pending (t : Tid) : (Bucket.pending t).isFlagged = false := rfl

theorem isChain_iff (b : Bucket) : b.isChain = true ↔ ∃ c, b = .chain c := by
  cases b <;> simp [Bucket.isChain]

theorem chain_eq_of_isChain {b : Bucket} (h : b.isChain = true) : b = .chain b.nodes := by
  cases b <;> simp_all [Bucket.isChain, Bucket.nodes]

theorem isFlagged_iff (b : Bucket) : b.isFlagged = true ↔ b = .flagged := by
  cases b <;> simp [Bucket.isFlagged]

theorem mem_chainOf_isChain {sh : Sh} {b : Nat} {n : Node} (h : n ∈ sh.chainOf b) : (sh.bkt b).isChain = true := by
  unfold Sh.chainOf at h
  cases hb : sh.bkt b <;> simp_all [Bucket.nodes]

/-! ### locks -/

theorem Lock.isFree_iff (l : Lock) : l.isFree = true ↔ l.w = none ∧ l.r = [] := by
  simp [Lock.isFree, Option.isNone_iff_eq_none, List.isEmpty_iff]

theorem Lock.canRead_iff (l : Lock) : l.canRead = true ↔ l.w = none := by
  simp [Lock.canRead, Option.isNone_iff_eq_none]

theorem Lock.soleReader_iff (l : Lock) (t : Tid) : l.soleReader t = true ↔ l.w = none ∧ l.r = [t] := by
  simp [Lock.soleReader, Option.isNone_iff_eq_none]

theorem Lock.wf_setW (l : Lock) (t : Tid) : (l.setW t).Wf := by
  intro t' _; rfl

theorem Lock.wf_addR {l : Lock} (t : Tid) (h : l.w = none) : (l.addR t).Wf := by
  intro t' h'; simp [Lock.addR, h] at h'

theorem Lock.wf_delR {l : Lock} (t : Tid) (h : l.Wf) : (l.delR t).Wf := by
  intro t' h'
  have := h t' (by simpa [Lock.delR] using h')
  simp [Lock.delR, this]

theorem Lock.wf_clrW (l : Lock) : l.clrW.Wf := by
  intro t' h'; simp [Lock.clrW] at h'

theorem Lock.wf_mk_none (r : List Tid) : ({ w := none, r := r } : Lock).Wf := by
  intro t' h'; simp at h'

@[simp] theorem Lock.setW_w (l : Lock) (t : Tid) : (l.setW t).w = some t := rfl
@[simp] theorem Lock.setW_r (l : Lock) (t : Tid) : (l.setW t).r = [] := rfl
@[simp] theorem Lock.addR_w (l : Lock) (t : Tid) : (l.addR t).w = l.w := rfl
@[simp] theorem Lock.addR_r (l : Lock) (t : Tid) : (l.addR t).r = t :: l.r := rfl
@[simp] theorem Lock.delR_w (l : Lock) (t : Tid) : (l.delR t).w = l.w := rfl
@[simp] theorem Lock.delR_r (l : Lock) (t : Tid) : (l.delR t).r = l.r.erase t := rfl
@[simp] theorem Lock.clrW_w (l : Lock) : l.clrW.w = none := rfl
@[simp] theorem Lock.clrW_r (l : Lock) : l.clrW.r = l.r := rfl

/-- holding a frame under a well-formed lock excludes any other thread's write hold -/
theorem holds_excl {sh : Sh} {tid t' : Tid} {f : Nat × Bool} (hwf : (sh.blk f.1).Wf) (h : HoldsB sh tid f)
    (hw : (sh.blk f.1).w = some t') : t' = tid := by
  unfold HoldsB at h
  split at h
  · rw [hw] at h; exact Option.some.inj h
  · have := hwf t' hw; rw [this] at h; cases h

@[simp] theorem afterAcq_stk (hash : Nat → Nat) (sh : Sh) (tid : Tid) (t : Th) : (afterAcq hash sh tid t).2.stk = t.stk := by
  unfold afterAcq
  split
  · rfl
  · dsimp only
    split
    · rfl
    · split <;> rfl
  · dsimp only
    split <;> (repeat' split) <;> rfl

end TbbVerif.C10
