/- C10: steps upg, relock, dng, eUpg, eRelock (upgrade / downgrade of the operation's bucket lock). -/
import TbbVerif.Proofs.C10.StepHelp

namespace TbbVerif.C10

/-- a step that replaces the word of bucket lock `b` (a chain) and changes thread-local state -/
theorem stepOK_lockchg {hash : Nat → Nat} {sh : Sh} {tid : Tid} {t t' : Th} (b : Nat) (l' : Lock)
    (hS : ShInv hash sh) (hT : ThInv hash sh tid t) (hwf : l'.Wf) (hch : (sh.bkt b).isChain = true)
    (hL : LockFrame sh.blk (fun j => if j = b then l' else sh.blk j) tid)
    (hheld : ∀ f ∈ t'.stk, HoldsB (sh.setBL b l') tid f)
    (hops : t'.ops = t.ops) (hh : t'.h = t.h) (hpci : t.pc ≠ .idle)
    (hrs : t'.rs = true → t'.pc = .chk1 ∨ t'.pc = .chk2 ∨ t'.pc = .relB .restart)
    (hc : CAt (sh.setBL b l') tid t' t'.pc) (hg : GrowAt sh t') (hgn : t'.grow ≠ 0 → t.grow ≠ 0) :
    StepOK hash sh tid t (sh.setBL b l') t' := by
  have hS1 : ShInv hash (sh.setBL b l') := shinv_setBL hS b l' hwf (fun o h => by rw [h] at hch; cases hch)
  refine ⟨hS1, ⟨hheld, ?_, hrs, hc, hg⟩, Frame.mk' hL (BktFrame.refl _ _ _) (Nat.le_refl _) (fun _ h => h),
    fun h => absurd rfl h, fun h => Or.inl (hgn h)⟩
  intro _ hk
  rw [hh, op_eq_of_ops hops]
  rw [op_eq_of_ops hops] at hk
  exact hT.hOk hpci hk

theorem holdsW_of {hash : Nat → Nat} {sh : Sh} {tid : Tid} {t : Th} (hT : ThInv hash sh tid t) {b : Nat} (h : (b, true) ∈ t.stk) :
    (sh.blk b).w = some tid := by
  have := hT.heldB (b, true) h
  simpa [HoldsB] using this

theorem holdsR_of {hash : Nat → Nat} {sh : Sh} {tid : Tid} {t : Th} (hT : ThInv hash sh tid t) {b : Nat} (h : (b, false) ∈ t.stk) :
    tid ∈ (sh.blk b).r := by
  have := hT.heldB (b, false) h
  simpa [HoldsB] using this

theorem holdsB_single {sh : Sh} {tid : Tid} {b : Nat} {l' : Lock} {w : Bool} (hnew : if w = true then l'.w = some tid else tid ∈ l'.r) :
    ∀ f ∈ [(b, w)], HoldsB (sh.setBL b l') tid f := by
  intro f hf
  simp only [List.mem_singleton] at hf
  subst hf
  unfold HoldsB; simp only [setBL_blk, if_true]; exact hnew

/-- the common part of `upg` (insert) and `eUpg` (erase): in-place upgrade or release -/
theorem upg_hstep (hash : Nat → Nat) (sh : Sh) (tid : Tid) (t : Th) (alt : Nat) (hs : t.stk = [(t.b0, false)]) :
    (match t.stk with
      | [(b, _)] =>
          if alt = 0 then
            if (sh.blk b).soleReader tid then (sh.setBL b ((sh.blk b).setW tid), { t with stk := [(b, true)], pc := Pc.chk1 }, Lab.bup b)
            else (sh, t, .blocked)
          else (sh.setBL b ((sh.blk b).delR tid), { t with stk := [], pc := Pc.relock }, Lab.bur b)
      | _ => (sh, t, Lab.none)) =
    (if alt = 0 then
      if (sh.blk t.b0).soleReader tid then (sh.setBL t.b0 ((sh.blk t.b0).setW tid), { t with stk := [(t.b0, true)], pc := Pc.chk1 }, Lab.bup t.b0)
      else (sh, t, .blocked)
    else (sh.setBL t.b0 ((sh.blk t.b0).delR tid), { t with stk := [], pc := Pc.relock }, Lab.bur t.b0)) := by
  generalize t.b0 = b0 at hs
  rw [hs]

theorem stepOK_upg {hash : Nat → Nat} {sh : Sh} {tid : Tid} {t : Th} (alt : Nat) (hS : ShInv hash sh) (hT : ThInv hash sh tid t)
    (hpc : t.pc = .upg) : StepOK hash sh tid t (stepTh hash sh tid t alt).1 (stepTh hash sh tid t alt).2.1 := by
  have hc := hT.c
  rw [hpc] at hc
  simp only [CAt] at hc
  obtain ⟨hs, hop, hb, hnf, hk⟩ := hc
  have hg0 := grow_zero_of_pc hT.g (by rw [hpc]; simp) (by rw [hpc]; simp) (by rw [hpc]; simp) (by rw [hpc]; simp)
  have hrs0 := rs_false_of_pc hT (by rw [hpc]; simp) (by rw [hpc]; simp) (by rw [hpc]; simp)
  have hpci : t.pc ≠ .idle := by rw [hpc]; simp
  have hstep : stepTh hash sh tid t alt =
      (if alt = 0 then
        if (sh.blk t.b0).soleReader tid then (sh.setBL t.b0 ((sh.blk t.b0).setW tid), { t with stk := [(t.b0, true)], pc := Pc.chk1 }, Lab.bup t.b0)
        else (sh, t, .blocked)
      else (sh.setBL t.b0 ((sh.blk t.b0).delR tid), { t with stk := [], pc := Pc.relock }, Lab.bur t.b0)) := by
    generalize t.b0 = b0 at hs
    unfold stepTh
    rw [hpc]
    simp only
    rw [hs]
  rw [hstep]
  split
  · split
    · rename_i hsole
      obtain ⟨hw, hrr⟩ := (Lock.soleReader_iff _ _).1 hsole
      refine stepOK_lockchg t.b0 _ hS hT (Lock.wf_setW _ _) hop.1 (lf_setW_sole _ hw hrr) (holdsB_single (by simp)) rfl rfl hpci
        (fun h => Or.inl rfl) ?_ (growAt_zero hT.g.1 hg0 (by simp) (by simp)) (fun h => absurd hg0 h)
      simp only [CAt]
      obtain ⟨e1, e2⟩ := b0_cons ({ t with stk := [(t.b0, true)], pc := Pc.chk1 }) (b := t.b0) (w := true) (rest := []) rfl
      rw [e1, e2]
      refine ⟨rfl, opFrame_setBL rfl hop, Or.inl hb, ?_, ?_, ?_⟩
      · intro _; rw [e1]; exact notFound_same rfl rfl rfl hnf
      · intro h; have : t.rs = true := h; rw [hrs0] at this; cases this
      · intro _; rw [e2]
    · exact stepOK_refl hS hT
  · refine stepOK_lockchg t.b0 _ hS hT (Lock.wf_delR _ (hS.bwf _)) hop.1 (lf_delR _) (fun f hf => by cases hf) rfl rfl hpci
      (fun h => by have : t.rs = true := h; rw [hrs0] at this; cases this) ?_ (growAt_zero hT.g.1 hg0 (by simp) (by simp)) (fun h => absurd hg0 h)
    simp only [CAt]
    refine ⟨trivial, ?_, hk⟩
    show (sh.bkt (pb t.h t.m)).isChain = true
    rw [← hb]; exact hop.1

theorem stepOK_eUpg {hash : Nat → Nat} {sh : Sh} {tid : Tid} {t : Th} (alt : Nat) (hS : ShInv hash sh) (hT : ThInv hash sh tid t)
    (hpc : t.pc = .eUpg) : StepOK hash sh tid t (stepTh hash sh tid t alt).1 (stepTh hash sh tid t alt).2.1 := by
  have hc := hT.c
  rw [hpc] at hc
  simp only [CAt] at hc
  obtain ⟨hs, hop, hb, hfd, hk⟩ := hc
  have hg0 := grow_zero_of_pc hT.g (by rw [hpc]; simp) (by rw [hpc]; simp) (by rw [hpc]; simp) (by rw [hpc]; simp)
  have hrs0 := rs_false_of_pc hT (by rw [hpc]; simp) (by rw [hpc]; simp) (by rw [hpc]; simp)
  have hpci : t.pc ≠ .idle := by rw [hpc]; simp
  have hstep : stepTh hash sh tid t alt =
      (if alt = 0 then
        if (sh.blk t.b0).soleReader tid then (sh.setBL t.b0 ((sh.blk t.b0).setW tid), { t with stk := [(t.b0, true)], pc := Pc.unlink }, Lab.bup t.b0)
        else (sh, t, .blocked)
      else (sh.setBL t.b0 ((sh.blk t.b0).delR tid), { t with stk := [], pc := Pc.eRelock }, Lab.bur t.b0)) := by
    generalize t.b0 = b0 at hs
    unfold stepTh
    rw [hpc]
    simp only
    rw [hs]
  rw [hstep]
  split
  · split
    · rename_i hsole
      obtain ⟨hw, hrr⟩ := (Lock.soleReader_iff _ _).1 hsole
      refine stepOK_lockchg t.b0 _ hS hT (Lock.wf_setW _ _) hop.1 (lf_setW_sole _ hw hrr) (holdsB_single (by simp)) rfl rfl hpci
        (fun h => by have : t.rs = true := h; rw [hrs0] at this; cases this) ?_ (growAt_zero hT.g.1 hg0 (by simp) (by simp)) (fun h => absurd hg0 h)
      simp only [CAt]
      obtain ⟨e1, e2⟩ := b0_cons ({ t with stk := [(t.b0, true)], pc := Pc.unlink }) (b := t.b0) (w := true) (rest := []) rfl
      rw [e1]
      exact ⟨rfl, opFrame_setBL rfl hop, found_same rfl rfl rfl hfd⟩
    · exact stepOK_refl hS hT
  · refine stepOK_lockchg t.b0 _ hS hT (Lock.wf_delR _ (hS.bwf _)) hop.1 (lf_delR _) (fun f hf => by cases hf) rfl rfl hpci
      (fun h => by have : t.rs = true := h; rw [hrs0] at this; cases this) ?_ (growAt_zero hT.g.1 hg0 (by simp) (by simp)) (fun h => absurd hg0 h)
    simp only [CAt]
    refine ⟨trivial, ?_, hk⟩
    show (sh.bkt (pb t.h t.m)).isChain = true
    rw [← hb]; exact hop.1

theorem tgt_nil {t : Th} (h : t.stk = []) : t.tgt = pb t.h t.m := by
  unfold Th.tgt; rw [h]

theorem stepOK_relock {hash : Nat → Nat} {sh : Sh} {tid : Tid} {t : Th} (alt : Nat) (hS : ShInv hash sh) (hT : ThInv hash sh tid t)
    (hpc : t.pc = .relock) : StepOK hash sh tid t (stepTh hash sh tid t alt).1 (stepTh hash sh tid t alt).2.1 := by
  have hc := hT.c
  rw [hpc] at hc
  simp only [CAt] at hc
  obtain ⟨hs, hch, hk⟩ := hc
  have hg0 := grow_zero_of_pc hT.g (by rw [hpc]; simp) (by rw [hpc]; simp) (by rw [hpc]; simp) (by rw [hpc]; simp)
  have hrs0 := rs_false_of_pc hT (by rw [hpc]; simp) (by rw [hpc]; simp) (by rw [hpc]; simp)
  have hpci : t.pc ≠ .idle := by rw [hpc]; simp
  have htgt := tgt_nil hs
  have hstep : stepTh hash sh tid t alt =
      (if (sh.blk t.tgt).isFree then
        match findKey (sh.chainOf t.tgt) t.op.key with
        | some n => (sh.setBL t.tgt ((sh.blk t.tgt).setW tid), { t with stk := [(t.tgt, true)], n := some n, pc := Pc.dng }, Lab.bl t.tgt true)
        | none => (sh.setBL t.tgt ((sh.blk t.tgt).setW tid), { t with stk := [(t.tgt, true)], pc := Pc.chk1 }, Lab.bl t.tgt true)
      else (sh, t, .blocked)) := by
    unfold stepTh
    rw [hpc]
    simp only
    split
    · split <;> simp_all
    · rfl
  rw [hstep]
  have hop : OpFrame sh t t.tgt := ⟨by rw [htgt]; exact hch, t.m, hT.g.1, htgt⟩
  have hkne : t.op.k ≠ .exclude := by rw [hk]; simp
  split
  · rename_i hfree
    obtain ⟨hw, hrr⟩ := (Lock.isFree_iff _).1 hfree
    split
    · rename_i n hf
      obtain ⟨hn, hnk⟩ := findKey_some hf
      refine stepOK_lockchg t.tgt _ hS hT (Lock.wf_setW _ _) hop.1 (lf_setW_free _ hw hrr) (holdsB_single (by simp)) rfl rfl hpci
        (fun h => by have : t.rs = true := h; rw [hrs0] at this; cases this) ?_ (growAt_zero hT.g.1 hg0 (by simp) (by simp)) (fun h => absurd hg0 h)
      simp only [CAt]
      obtain ⟨e1, e2⟩ := b0_cons ({ t with stk := [(t.tgt, true)], n := some n, pc := Pc.dng }) (b := t.tgt) (w := true) (rest := []) rfl
      rw [e1]
      exact ⟨rfl, opFrame_setBL rfl hop, ⟨n, rfl, hn, fun _ => hnk⟩, hk⟩
    · rename_i hf
      refine stepOK_lockchg t.tgt _ hS hT (Lock.wf_setW _ _) hop.1 (lf_setW_free _ hw hrr) (holdsB_single (by simp)) rfl rfl hpci
        (fun h => Or.inl rfl) ?_ (growAt_zero hT.g.1 hg0 (by simp) (by simp)) (fun h => absurd hg0 h)
      simp only [CAt]
      obtain ⟨e1, e2⟩ := b0_cons ({ t with stk := [(t.tgt, true)], pc := Pc.chk1 }) (b := t.tgt) (w := true) (rest := []) rfl
      rw [e1, e2]
      refine ⟨rfl, opFrame_setBL rfl hop, Or.inl htgt, ?_, ?_, ?_⟩
      · intro _; rw [e1]; exact notFound_of_key (t := { t with stk := [(t.tgt, true)], pc := Pc.chk1 }) hkne hf
      · intro h; have : t.rs = true := h; rw [hrs0] at this; cases this
      · intro _; rw [e2]
  · exact stepOK_refl hS hT

theorem stepOK_eRelock {hash : Nat → Nat} {sh : Sh} {tid : Tid} {t : Th} (alt : Nat) (hS : ShInv hash sh) (hT : ThInv hash sh tid t)
    (hpc : t.pc = .eRelock) : StepOK hash sh tid t (stepTh hash sh tid t alt).1 (stepTh hash sh tid t alt).2.1 := by
  have hc := hT.c
  rw [hpc] at hc
  simp only [CAt] at hc
  obtain ⟨hs, hch, hk⟩ := hc
  have hg0 := grow_zero_of_pc hT.g (by rw [hpc]; simp) (by rw [hpc]; simp) (by rw [hpc]; simp) (by rw [hpc]; simp)
  have hpci : t.pc ≠ .idle := by rw [hpc]; simp
  have htgt := tgt_nil hs
  have hstep : stepTh hash sh tid t alt =
      (if (sh.blk t.tgt).isFree then
        (sh.setBL t.tgt ((sh.blk t.tgt).setW tid), { t with stk := [(t.tgt, true)], rs := true, pc := Pc.chk1 }, Lab.bl t.tgt true)
      else (sh, t, .blocked)) := by
    unfold stepTh
    rw [hpc]
  rw [hstep]
  have hop : OpFrame sh t t.tgt := ⟨by rw [htgt]; exact hch, t.m, hT.g.1, htgt⟩
  split
  · rename_i hfree
    obtain ⟨hw, hrr⟩ := (Lock.isFree_iff _).1 hfree
    refine stepOK_lockchg t.tgt _ hS hT (Lock.wf_setW _ _) hop.1 (lf_setW_free _ hw hrr) (holdsB_single (by simp)) rfl rfl hpci
      (fun h => Or.inl rfl) ?_ (growAt_zero hT.g.1 hg0 (by simp) (by simp)) (fun h => absurd hg0 h)
    simp only [CAt]
    obtain ⟨e1, e2⟩ := b0_cons ({ t with stk := [(t.tgt, true)], rs := true, pc := Pc.chk1 }) (b := t.tgt) (w := true) (rest := []) rfl
    rw [e1, e2]
    refine ⟨rfl, opFrame_setBL rfl hop, Or.inl htgt, ?_, ?_, ?_⟩
    · intro h; cases h
    · intro _; rw [e2]; exact ⟨rfl, hk⟩
    · intro _; rw [e2]
  · exact stepOK_refl hS hT

theorem stepOK_dng {hash : Nat → Nat} {sh : Sh} {tid : Tid} {t : Th} (alt : Nat) (hS : ShInv hash sh) (hT : ThInv hash sh tid t)
    (hpc : t.pc = .dng) : StepOK hash sh tid t (stepTh hash sh tid t alt).1 (stepTh hash sh tid t alt).2.1 := by
  have hc := hT.c
  rw [hpc] at hc
  simp only [CAt] at hc
  obtain ⟨hs, hop, hfd, _⟩ := hc
  have hg0 := grow_zero_of_pc hT.g (by rw [hpc]; simp) (by rw [hpc]; simp) (by rw [hpc]; simp) (by rw [hpc]; simp)
  have hrs0 := rs_false_of_pc hT (by rw [hpc]; simp) (by rw [hpc]; simp) (by rw [hpc]; simp)
  have hpci : t.pc ≠ .idle := by rw [hpc]; simp
  have hW := holdsW_of hT (b := t.b0) (by rw [hs]; exact List.mem_cons_self ..)
  have hR0 : (sh.blk t.b0).r = [] := hS.bwf t.b0 tid hW
  have hstep : stepTh hash sh tid t alt =
      (if t.op.acc = 0 then
        ((sh.setBL t.b0 { w := none, r := [tid] }).log (t.ev tid false t.n),
          { t with stk := [(t.b0, false)], ret := false, pc := Pc.relB After.fin }, Lab.bdn t.b0)
      else (sh.setBL t.b0 { w := none, r := [tid] }, { t with stk := [(t.b0, false)], ret := false, pc := Pc.elemTry }, Lab.bdn t.b0)) := by
    generalize t.b0 = b0 at hs
    unfold stepTh
    rw [hpc]
    simp only
    rw [hs]
  rw [hstep]
  have hheld : ∀ f ∈ [(t.b0, false)], HoldsB (sh.setBL t.b0 { w := none, r := [tid] }) tid f := holdsB_single (by simp)
  split
  · have base := stepOK_lockchg (t' := { t with stk := [(t.b0, false)], ret := false, pc := Pc.relB After.fin }) t.b0 { w := none, r := [tid] } hS hT
      (Lock.wf_mk_none _) hop.1 (lf_dng _ hW hR0) hheld rfl rfl hpci
      (fun h => by have : t.rs = true := h; rw [hrs0] at this; cases this)
      (by
        simp only [CAt]
        obtain ⟨e1, e2⟩ := b0_cons ({ t with stk := [(t.b0, false)], ret := false, pc := Pc.relB After.fin }) (b := t.b0) (w := false) (rest := []) rfl
        rw [e1, e2]
        exact ⟨rfl, opFrame_setBL rfl hop⟩)
      (growAt_zero hT.g.1 hg0 (by simp) (by simp)) (fun h => absurd hg0 h)
    -- the ghost log entry does not matter for the core invariant
    exact ⟨shinv_congr base.shinv rfl rfl rfl rfl, thinv_congr base.thinv rfl rfl rfl rfl,
      Frame.mk' (fun b t' h => ⟨base.frame.blkW b t' h, base.frame.blkR b t' h⟩)
        ⟨base.frame.bkt, base.frame.chain, base.frame.unflag, base.frame.newChain⟩ base.frame.lvl base.frame.seg,
      base.lvlg, base.growNew⟩
  · refine stepOK_lockchg t.b0 { w := none, r := [tid] } hS hT (Lock.wf_mk_none _) hop.1 (lf_dng _ hW hR0) hheld rfl rfl hpci
      (fun h => by have : t.rs = true := h; rw [hrs0] at this; cases this) ?_ (growAt_zero hT.g.1 hg0 (by simp) (by simp)) (fun h => absurd hg0 h)
    simp only [CAt]
    obtain ⟨e1, e2⟩ := b0_cons ({ t with stk := [(t.b0, false)], ret := false, pc := Pc.elemTry }) (b := t.b0) (w := false) (rest := []) rfl
    rw [e1, e2]
    exact ⟨rfl, opFrame_setBL rfl hop, found_same rfl rfl rfl hfd⟩

end TbbVerif.C10
