/- C10: steps lockBlk, rhUpg, rhRelock, rhRel. -/
import TbbVerif.Proofs.C10.StepAcq

namespace TbbVerif.C10

theorem stepOK_lockBlk {hash : Nat → Nat} {sh : Sh} {tid : Tid} {t : Th} (alt : Nat) (hS : ShInv hash sh) (hT : ThInv hash sh tid t)
    (hpc : t.pc = .lockBlk) : StepOK hash sh tid t (stepTh hash sh tid t alt).1 (stepTh hash sh tid t alt).2.1 := by
  have hc := hT.c
  rw [hpc] at hc
  simp only [CAt] at hc
  obtain ⟨hr, hfl⟩ := hc
  have hg0 := grow_zero_of_pc hT.g (by rw [hpc]; simp) (by rw [hpc]; simp) (by rw [hpc]; simp) (by rw [hpc]; simp)
  have hrs0 := rs_false_of_pc hT (by rw [hpc]; simp) (by rw [hpc]; simp) (by rw [hpc]; simp)
  have hpci : t.pc ≠ .idle := by rw [hpc]; simp
  have hstep : stepTh hash sh tid t alt =
      (if (t.stk.isEmpty && t.op.k == .exclude) = true then
        if (sh.blk t.tgt).isFree = true then
          ((afterAcq hash (sh.setBL t.tgt ((sh.blk t.tgt).setW tid)) tid { t with stk := (t.tgt, true) :: t.stk }).1,
           (afterAcq hash (sh.setBL t.tgt ((sh.blk t.tgt).setW tid)) tid { t with stk := (t.tgt, true) :: t.stk }).2, .bl t.tgt true)
        else (sh, t, .blocked)
      else
        if (sh.blk t.tgt).canRead = true then
          ((afterAcq hash (sh.setBL t.tgt ((sh.blk t.tgt).addR tid)) tid { t with stk := (t.tgt, false) :: t.stk }).1,
           (afterAcq hash (sh.setBL t.tgt ((sh.blk t.tgt).addR tid)) tid { t with stk := (t.tgt, false) :: t.stk }).2, .bl t.tgt false)
        else (sh, t, .blocked)) := by
    unfold stepTh
    rw [hpc]
  rw [hstep]
  split
  · split
    · rename_i hfree
      obtain ⟨hw, hrr⟩ := (Lock.isFree_iff _).1 hfree
      have hch := chain_of_unflagged hS hfl hw
      have hne : ∀ f ∈ t.stk, f.1 ≠ t.tgt := acq_common hT hr (fun o h => by rw [h] at hch; cases hch)
      have hS1 : ShInv hash (sh.setBL t.tgt ((sh.blk t.tgt).setW tid)) :=
        shinv_setBL hS _ _ (Lock.wf_setW _ _) (fun o h => by rw [h] at hch; cases hch)
      exact stepOK_acquire _ t.tgt true t.stk hS1 hT (lf_setW_free _ hw hrr) rfl rfl rfl
        (holdsB_after_set (by simp) hT.heldB hne) hch (linkedTo_tgt t) hr (fun _ _ => rfl) hpci hg0 hrs0
    · exact stepOK_refl hS hT
  · rename_i hwant
    split
    · rename_i hcan
      have hw := (Lock.canRead_iff _).1 hcan
      have hch := chain_of_unflagged hS hfl hw
      have hne : ∀ f ∈ t.stk, f.1 ≠ t.tgt := acq_common hT hr (fun o h => by rw [h] at hch; cases hch)
      have hS1 : ShInv hash (sh.setBL t.tgt ((sh.blk t.tgt).addR tid)) :=
        shinv_setBL hS _ _ (Lock.wf_addR _ hw) (fun o h => by rw [h] at hch; cases hch)
      refine stepOK_acquire _ t.tgt false t.stk hS1 hT (lf_addR _) rfl rfl rfl
        (holdsB_after_set (by simp) hT.heldB hne) hch (linkedTo_tgt t) hr ?_ hpci hg0 hrs0
      intro he hk
      exfalso
      apply hwant
      simp [he, hk]
    · exact stepOK_refl hS hT

theorem stepOK_rhRelock {hash : Nat → Nat} {sh : Sh} {tid : Tid} {t : Th} (alt : Nat) (hS : ShInv hash sh) (hT : ThInv hash sh tid t)
    (hpc : t.pc = .rhRelock) : StepOK hash sh tid t (stepTh hash sh tid t alt).1 (stepTh hash sh tid t alt).2.1 := by
  have hc := hT.c
  rw [hpc] at hc
  simp only [CAt] at hc
  obtain ⟨hne0, hr, hch⟩ := hc
  have hg0 := grow_zero_of_pc hT.g (by rw [hpc]; simp) (by rw [hpc]; simp) (by rw [hpc]; simp) (by rw [hpc]; simp)
  have hrs0 := rs_false_of_pc hT (by rw [hpc]; simp) (by rw [hpc]; simp) (by rw [hpc]; simp)
  have hpci : t.pc ≠ .idle := by rw [hpc]; simp
  have hstep : stepTh hash sh tid t alt =
      (if (sh.blk t.tgt).isFree = true then
          ((afterAcq hash (sh.setBL t.tgt ((sh.blk t.tgt).setW tid)) tid { t with stk := (t.tgt, true) :: t.stk }).1,
           (afterAcq hash (sh.setBL t.tgt ((sh.blk t.tgt).setW tid)) tid { t with stk := (t.tgt, true) :: t.stk }).2, .bl t.tgt true)
        else (sh, t, .blocked)) := by
    unfold stepTh
    rw [hpc]
  rw [hstep]
  split
  · rename_i hfree
    obtain ⟨hw, hrr⟩ := (Lock.isFree_iff _).1 hfree
    have hne : ∀ f ∈ t.stk, f.1 ≠ t.tgt := acq_common hT hr (fun o h => by rw [h] at hch; cases hch)
    have hS1 : ShInv hash (sh.setBL t.tgt ((sh.blk t.tgt).setW tid)) :=
      shinv_setBL hS _ _ (Lock.wf_setW _ _) (fun o h => by rw [h] at hch; cases hch)
    refine stepOK_acquire _ t.tgt true t.stk hS1 hT (lf_setW_free _ hw hrr) rfl rfl rfl
      (holdsB_after_set (by simp) hT.heldB hne) hch (linkedTo_tgt t) hr (fun _ _ => rfl) hpci hg0 hrs0
  · exact stepOK_refl hS hT

theorem stepOK_rhUpg {hash : Nat → Nat} {sh : Sh} {tid : Tid} {t : Th} (alt : Nat) (hS : ShInv hash sh) (hT : ThInv hash sh tid t)
    (hpc : t.pc = .rhUpg) : StepOK hash sh tid t (stepTh hash sh tid t alt).1 (stepTh hash sh tid t alt).2.1 := by
  have hc := hT.c
  rw [hpc] at hc
  simp only [CAt] at hc
  obtain ⟨hs, htne, hch, hlink, hrest⟩ := hc
  have hg0 := grow_zero_of_pc hT.g (by rw [hpc]; simp) (by rw [hpc]; simp) (by rw [hpc]; simp) (by rw [hpc]; simp)
  have hrs0 := rs_false_of_pc hT (by rw [hpc]; simp) (by rw [hpc]; simp) (by rw [hpc]; simp)
  have hpci : t.pc ≠ .idle := by rw [hpc]; simp
  have hbounds := rhStack_bounds t.stk.tail t.b0 hlink hrest
  have hne : ∀ f ∈ t.stk.tail, f.1 ≠ t.b0 := fun f hf => by have := hbounds.2 f hf; omega
  have hheldT : ∀ f ∈ t.stk.tail, HoldsB sh tid f := fun f hf => hT.heldB f (by rw [hs]; exact List.mem_cons_of_mem _ hf)
  have hR : tid ∈ (sh.blk t.b0).r := by
    have := hT.heldB (t.b0, false) (by rw [hs]; exact List.mem_cons_self ..)
    simpa [HoldsB] using this
  have hnp : ∀ o, sh.bkt t.b0 ≠ .pending o := fun o h => by rw [h] at hch; cases hch
  have hstep : stepTh hash sh tid t alt =
      (if alt = 0 then
        if (sh.blk t.b0).soleReader tid = true then
          ((afterAcq hash (sh.setBL t.b0 ((sh.blk t.b0).setW tid)) tid { t with stk := (t.b0, true) :: t.stk.tail }).1,
           (afterAcq hash (sh.setBL t.b0 ((sh.blk t.b0).setW tid)) tid { t with stk := (t.b0, true) :: t.stk.tail }).2, .bup t.b0)
        else (sh, t, .blocked)
      else (sh.setBL t.b0 ((sh.blk t.b0).delR tid), { t with stk := t.stk.tail, pc := .rhRelock }, .bur t.b0)) := by
    generalize t.b0 = b0 at hs
    generalize t.stk.tail = tl at hs
    unfold stepTh
    rw [hpc]
    simp only
    rw [hs]
  rw [hstep]
  split
  · split
    · rename_i hsole
      obtain ⟨hw, hrr⟩ := (Lock.soleReader_iff _ _).1 hsole
      have hS1 : ShInv hash (sh.setBL t.b0 ((sh.blk t.b0).setW tid)) :=
        shinv_setBL hS _ _ (Lock.wf_setW _ _) (fun o h => absurd h (hnp o))
      refine stepOK_acquire _ t.b0 true t.stk.tail hS1 hT (lf_setW_sole _ hw hrr) rfl rfl rfl
        (holdsB_after_set (by simp) hheldT hne) hch hlink hrest (fun h => absurd h htne) hpci hg0 hrs0
    · exact stepOK_refl hS hT
  · have hS1 : ShInv hash (sh.setBL t.b0 ((sh.blk t.b0).delR tid)) :=
      shinv_setBL hS _ _ (Lock.wf_delR _ (hS.bwf _)) (fun o h => absurd h (hnp o))
    refine ⟨hS1, ?_, Frame.mk' (lf_delR _) (BktFrame.refl _ _ _) (Nat.le_refl _) (fun _ h => h),
      fun h => absurd rfl h, fun h => absurd hg0 h⟩
    refine ⟨fun f hf => holdsB_setBL_other (hne f hf) (hheldT f hf), fun _ hk => hT.hOk hpci hk,
      (fun h => by rw [hrs0] at h; cases h), ?_, ⟨hT.g.1, fun h => absurd hg0 h, by simp, by simp⟩⟩
    simp only [CAt]
    refine ⟨htne, rhStack_congr (sh := sh) t.stk.tail (fun _ _ => rfl) hrest, ?_⟩
    have htgt : ({ t with stk := t.stk.tail, pc := Pc.rhRelock } : Th).tgt = t.b0 := by
      unfold Th.tgt
      simp only
      cases htl : t.stk.tail with
      | nil => exact absurd htl htne
      | cons f r =>
        obtain ⟨d, wd⟩ := f
        rw [htl] at hlink
        exact hlink.symm
    rw [htgt]
    exact hch

theorem stepOK_rhRel {hash : Nat → Nat} {sh : Sh} {tid : Tid} {t : Th} (alt : Nat) (hS : ShInv hash sh) (hT : ThInv hash sh tid t)
    (hpc : t.pc = .rhRel) : StepOK hash sh tid t (stepTh hash sh tid t alt).1 (stepTh hash sh tid t alt).2.1 := by
  have hc := hT.c
  rw [hpc] at hc
  simp only [CAt] at hc
  obtain ⟨hs, hch0, hch1, hb12, hpar, hlink, hrest⟩ := hc
  have hg0 := grow_zero_of_pc hT.g (by rw [hpc]; simp) (by rw [hpc]; simp) (by rw [hpc]; simp) (by rw [hpc]; simp)
  have hrs0 := rs_false_of_pc hT (by rw [hpc]; simp) (by rw [hpc]; simp) (by rw [hpc]; simp)
  have hpci : t.pc ≠ .idle := by rw [hpc]; simp
  have hbounds := rhStack_bounds (t.stk.drop 2) t.b1 hlink hrest
  have hlt : t.b0 < t.b1 := by rw [hpar]; exact parentOf_lt (by omega)
  have hne : ∀ f ∈ (t.b1, true) :: t.stk.drop 2, f.1 ≠ t.b0 := by
    intro f hf
    rcases List.mem_cons.1 hf with rfl | hf
    · simp only; omega
    · have := hbounds.2 f hf; omega
  have hheldT : ∀ f ∈ (t.b1, true) :: t.stk.drop 2, HoldsB sh tid f := fun f hf => hT.heldB f (by rw [hs]; exact List.mem_cons_of_mem _ hf)
  have hnp : ∀ o, sh.bkt t.b0 ≠ .pending o := fun o h => by rw [h] at hch0; cases hch0
  have hstep : stepTh hash sh tid t alt =
      ((afterAcq hash (if t.w0 = true then sh.setBL t.b0 (sh.blk t.b0).clrW else sh.setBL t.b0 ((sh.blk t.b0).delR tid)) tid
          { t with stk := (t.b1, true) :: t.stk.drop 2 }).1,
       (afterAcq hash (if t.w0 = true then sh.setBL t.b0 (sh.blk t.b0).clrW else sh.setBL t.b0 ((sh.blk t.b0).delR tid)) tid
          { t with stk := (t.b1, true) :: t.stk.drop 2 }).2,
       if t.w0 = true then .buw t.b0 else .bur t.b0) := by
    generalize t.b0 = b0 at hs
    generalize t.w0 = w0 at hs
    generalize t.b1 = b1 at hs
    generalize t.stk.drop 2 = tl at hs
    unfold stepTh
    rw [hpc]
    simp only
    rw [hs]
  rw [hstep]
  cases hw0 : t.w0 with
  | true =>
    simp only [if_true]
    have hW : (sh.blk t.b0).w = some tid := by
      have := hT.heldB (t.b0, t.w0) (by rw [hs]; exact List.mem_cons_self ..)
      simpa [HoldsB, hw0] using this
    have hS1 : ShInv hash (sh.setBL t.b0 (sh.blk t.b0).clrW) :=
      shinv_setBL hS _ _ (Lock.wf_clrW _) (fun o h => absurd h (hnp o))
    exact stepOK_acquire _ t.b1 true (t.stk.drop 2) hS1 hT (lf_clrW _ hW) rfl rfl rfl
      (fun f hf => holdsB_setBL_other (hne f hf) (hheldT f hf)) hch1 hlink hrest (fun _ _ => rfl) hpci hg0 hrs0
  | false =>
    simp only [Bool.false_eq_true, if_false]
    have hS1 : ShInv hash (sh.setBL t.b0 ((sh.blk t.b0).delR tid)) :=
      shinv_setBL hS _ _ (Lock.wf_delR _ (hS.bwf _)) (fun o h => absurd h (hnp o))
    exact stepOK_acquire _ t.b1 true (t.stk.drop 2) hS1 hT (lf_delR _) rfl rfl rfl
      (fun f hf => holdsB_setBL_other (hne f hf) (hheldT f hf)) hch1 hlink hrest (fun _ _ => rfl) hpci hg0 hrs0

end TbbVerif.C10
