/- C10: frames split into the lock part and the bucket part; effect of a lock operation on the shared invariant. -/
import TbbVerif.Proofs.C10.Lemmas

namespace TbbVerif.C10

/-- other threads' holdings are not touched -/
def LockFrame (blk blk' : Nat → Lock) (tid : Tid) : Prop :=
  ∀ b t', t' ≠ tid → ((blk' b).w = some t' ↔ (blk b).w = some t') ∧ (t' ∈ (blk' b).r ↔ t' ∈ (blk b).r)

structure BktFrame (bk bk' : Nat → Bucket) (blk' : Nat → Lock) (tid : Tid) : Prop where
  bkt : ∀ b, bk' b ≠ bk b → (blk' b).w = some tid
  chain : ∀ b, (bk b).isChain = true → (bk' b).isChain = true
  unflag : ∀ b, (bk b).isFlagged = false → (bk' b).isFlagged = false
  newChain : ∀ c, (bk c).isChain = false → (bk' c).isChain = true →
      1 ≤ c ∧ (bk' (parentOf c)).isChain = true ∧ ((blk' (parentOf c)).w = some tid ∨ tid ∈ (blk' (parentOf c)).r)

theorem LockFrame.refl (blk : Nat → Lock) (tid : Tid) : LockFrame blk blk tid := fun _ _ _ => ⟨Iff.rfl, Iff.rfl⟩

theorem BktFrame.refl (bkt : Nat → Bucket) (blk' : Nat → Lock) (tid : Tid) : BktFrame bkt bkt blk' tid :=
  ⟨fun _ h => absurd rfl h, fun _ h => h, fun _ h => h, fun _ h1 h2 => by rw [h1] at h2; cases h2⟩

theorem Frame.mk' {sh sh' : Sh} {tid : Tid} (hL : LockFrame sh.blk sh'.blk tid) (hB : BktFrame sh.bkt sh'.bkt sh'.blk tid)
    (hl : sh.lvl ≤ sh'.lvl) (hs : ∀ k, sh.seg k ≠ .none → sh'.seg k ≠ .none) : Frame sh tid sh' :=
  ⟨fun b t' h => (hL b t' h).1, fun b t' h => (hL b t' h).2, hB.bkt, hB.chain, hB.unflag, hB.newChain, hl, hs⟩

theorem frame_refl (sh : Sh) (tid : Tid) : Frame sh tid sh :=
  Frame.mk' (LockFrame.refl _ _) (BktFrame.refl _ _ _) (Nat.le_refl _) (fun _ h => h)

/-- replacing the word of one lock, without touching what other threads hold on it -/
theorem lockFrame_upd {blk : Nat → Lock} {tid : Tid} (b : Nat) (l' : Lock)
    (h : ∀ t', t' ≠ tid → ((l'.w = some t' ↔ (blk b).w = some t') ∧ (t' ∈ l'.r ↔ t' ∈ (blk b).r))) :
    LockFrame blk (fun j => if j = b then l' else blk j) tid := by
  intro j t' ht
  by_cases hj : j = b
  · subst hj; simpa using h t' ht
  · simp [hj]

theorem lf_setW_free {blk : Nat → Lock} {tid : Tid} (b : Nat) (hw : (blk b).w = none) (hr : (blk b).r = []) :
    LockFrame blk (fun j => if j = b then (blk b).setW tid else blk j) tid := by
  apply lockFrame_upd
  intro t' ht
  simp [hw, hr]
  exact fun h => ht h.symm

theorem lf_setW_sole {blk : Nat → Lock} {tid : Tid} (b : Nat) (hw : (blk b).w = none) (hr : (blk b).r = [tid]) :
    LockFrame blk (fun j => if j = b then (blk b).setW tid else blk j) tid := by
  apply lockFrame_upd
  intro t' ht
  simp [hw, hr, ht]
  exact fun h => ht h.symm

theorem lf_addR {blk : Nat → Lock} {tid : Tid} (b : Nat) :
    LockFrame blk (fun j => if j = b then (blk b).addR tid else blk j) tid := by
  apply lockFrame_upd
  intro t' ht
  simp [ht]

theorem lf_delR {blk : Nat → Lock} {tid : Tid} (b : Nat) :
    LockFrame blk (fun j => if j = b then (blk b).delR tid else blk j) tid := by
  apply lockFrame_upd
  intro t' ht
  simp [List.mem_erase_of_ne ht]

theorem lf_clrW {blk : Nat → Lock} {tid : Tid} (b : Nat) (hw : (blk b).w = some tid) :
    LockFrame blk (fun j => if j = b then (blk b).clrW else blk j) tid := by
  apply lockFrame_upd
  intro t' ht
  simp [hw]
  exact fun h => ht h.symm

theorem lf_dng {blk : Nat → Lock} {tid : Tid} (b : Nat) (hw : (blk b).w = some tid) (hr : (blk b).r = []) :
    LockFrame blk (fun j => if j = b then ({ w := none, r := [tid] } : Lock) else blk j) tid := by
  apply lockFrame_upd
  intro t' ht
  simp [hw, hr, ht]
  exact fun h => ht h.symm

/-- the shared invariant after replacing one lock word -/
theorem shinv_setBL {hash : Nat → Nat} {sh : Sh} (hS : ShInv hash sh) (b : Nat) (l' : Lock) (hwf : l'.Wf)
    (hp : ∀ t, sh.bkt b = .pending t → l'.w = some t) : ShInv hash (sh.setBL b l') := by
  refine ⟨hS.lvl_pos, hS.emb, hS.top, hS.closed, hS.home, hS.nodup, ?_, ?_, hS.seg_lo⟩
  · intro j
    simp only [setBL_blk]
    split
    · exact hwf
    · exact hS.bwf j
  · intro j t hj
    simp only [setBL_blk]
    split
    · rename_i hjb; subst hjb; exact hp t hj
    · exact hS.pend j t hj

theorem holdsB_setBL_other {sh : Sh} {tid : Tid} {b : Nat} {l' : Lock} {f : Nat × Bool} (hne : f.1 ≠ b) (h : HoldsB sh tid f) :
    HoldsB (sh.setBL b l') tid f := by
  unfold HoldsB at *
  simp only [setBL_blk, if_neg hne]
  exact h

end TbbVerif.C10
