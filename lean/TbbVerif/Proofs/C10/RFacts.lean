/- C10 (refined model): facts read off `Coupled` (and the `HMap` invariants inside it) that the step proofs use. -/
import TbbVerif.Proofs.C10.RSpec

namespace TbbVerif.C10R

open TbbVerif.C10

section
variable {hash : Nat → Nat} {s : RSt} (hC : Coupled hash s)
include hC

theorem tid_lt_of {tid : Tid} {t : Th} (ht : s.a.ths[tid]? = some t) : tid < s.a.ths.length := lt_of_get ht

theorem slot_of {tid : Tid} {t : Th} (ht : s.a.ths[tid]? = some t) (L : LId) : ∃ th, slot s L tid = some th :=
  slot_exists (hC.lk L) (tid_lt_of hC ht)

theorem view_of {tid : Tid} {L : LId} {th : C08.Th} (hs : slot s L tid = some th) :
    LockView s.a.ths.length (lockOf s.a.sh L) (getL s L) tid th :=
  ⟨hC.lk L, hs, fun i x hx => hC.spec L i x hx, (hC.specN L).1, (hC.specN L).2.1, (hC.specN L).2.2⟩

/-- what the thread's `HMap` state says it holds, the specification lock grants -/
theorem lock_of_HW {tid : Tid} {t : Th} (ht : s.a.ths[tid]? = some t) {L : LId} (h : HW t L) : (lockOf s.a.sh L).w = some tid := by
  cases L with
  | b b => exact holdsW_of (hC.abs.i1.th tid t ht) h
  | e n =>
    simp only [HW] at h
    rcases h with h | ⟨_, hpc, hn⟩
    · have := ((hC.abs.i2.th tid t ht).heldE n true h).1
      simpa [HoldsE, lockOf] using this
    · have hd := (hC.abs.i2.th tid t ht).d
      rw [hpc] at hd
      simp only [DAt] at hd
      obtain ⟨_, n', hn', hw⟩ := hd
      rw [hn] at hn'; cases hn'
      exact hw

theorem lock_of_HR {tid : Tid} {t : Th} (ht : s.a.ths[tid]? = some t) {L : LId} (h : HR t L) : tid ∈ (lockOf s.a.sh L).r := by
  cases L with
  | b b => exact holdsR_of (hC.abs.i1.th tid t ht) h
  | e n =>
    simp only [HR] at h
    have := ((hC.abs.i2.th tid t ht).heldE n false h).1
    simpa [HoldsE, lockOf] using this

/-- a thread whose state says it holds `L` exclusively is in phase `holdW` on the word -/
theorem phase_of_HW {tid : Tid} {t : Th} (ht : s.a.ths[tid]? = some t) {L : LId} {th : C08.Th} (hs : slot s L tid = some th)
    (h : HW t L) : th.phase = .holdW :=
  (hC.spec L tid th hs).1 (lock_of_HW hC ht h)

theorem phaseR_of_HR {tid : Tid} {t : Th} (ht : s.a.ths[tid]? = some t) {L : LId} {th : C08.Th} (hs : slot s L tid = some th)
    (h : HR t L) : phaseR th.phase :=
  (hC.spec L tid th hs).2 (lock_of_HR hC ht h)

/-- … and, when no operation is in progress in the slot, exactly in phase `holdR` -/
theorem holdR_of_HR {tid : Tid} {t : Th} (ht : s.a.ths[tid]? = some t) {L : LId} {th : C08.Th} (hs : slot s L tid = some th)
    (hops : th.ops = []) (h : HR t L) : th.phase = .holdR := by
  have hwf := (hC.lk L).inv.hwf tid th hs
  have hpc : th.pc = .start := by have := hwf.2.2.2; rw [hops] at this; exact this
  rcases phaseR_of_HR hC ht hs h with h | h | h
  · exact h
  · have := hwf.2.1 h; rw [hpc] at this; cases this
  · have := hwf.2.2.1 h; rw [hpc] at this; cases this

/-- a thread whose state does not say it holds `L`, with no operation in progress there, is idle on the word -/
theorem idle_of_not_held {tid : Tid} {t : Th} (ht : s.a.ths[tid]? = some t) {L : LId} {th : C08.Th} (hs : slot s L tid = some th)
    (hops : th.ops = []) (hw : ¬ HW t L) (hr : ¬ HR t L) : th.phase = .idle := by
  have hwf := (hC.lk L).inv.hwf tid th hs
  have hpc : th.pc = .start := by have := hwf.2.2.2; rw [hops] at this; exact this
  have hph := hC.ph L tid t th ht hs
  cases hp : th.phase with
  | idle => rfl
  | rt => have := hwf.1 hp; rw [hpc] at this; cases this
  | holdR => exact absurd (hph.2 (Or.inl hp)) hr
  | upgWait => exact absurd (hph.2 (Or.inr (Or.inl hp))) hr
  | upgReady => exact absurd (hph.2 (Or.inr (Or.inr hp))) hr
  | holdW => exact absurd (hph.1 hp) hw

theorem mem_of_phaseR {tid : Tid} {t : Th} (ht : s.a.ths[tid]? = some t) {L : LId} {th : C08.Th} (hs : slot s L tid = some th)
    (h : phaseR th.phase) : tid ∈ (lockOf s.a.sh L).r :=
  lock_of_HR hC ht ((hC.ph L tid t th ht hs).2 h)

end

/-! ### the rehash stack: buckets strictly increase from the top of the stack -/

theorem parentOf_lt' {c : Nat} (h : 2 ≤ c) : parentOf c < c := parentOf_lt (by omega)

theorem rhStack_gt {sh : Sh} {tid : Tid} {h m : Nat} : ∀ (s : List (Nat × Bool)) (x : Nat),
    RhStack sh tid h m s → (match s with | [] => True | (d, _) :: _ => x < d) → ∀ f ∈ s, x < f.1 := by
  intro s
  induction s with
  | nil => intro x _ _ f hf; cases hf
  | cons g rest ih =>
    obtain ⟨c, w⟩ := g
    intro x hr hx f hf
    obtain ⟨_, _, h2, hl, hrest⟩ := hr
    rcases List.mem_cons.1 hf with rfl | hf
    · exact hx
    · apply ih c hrest ?_ f hf |> Nat.lt_trans hx
      cases rest with
      | nil => trivial
      | cons g' rest' =>
        obtain ⟨d, w'⟩ := g'
        simp only [LinkedTo] at hl
        show c < d
        have := hrest.2.2.1
        rw [hl]; exact parentOf_lt' this

/-- the bucket a thread is about to acquire (`tgt`) is below everything on its rehash stack -/
theorem tgt_lt_stack {sh : Sh} {tid : Tid} {t : Th} (hr : RhStack sh tid t.h t.m t.stk) : ∀ f ∈ t.stk, t.tgt < f.1 := by
  apply rhStack_gt t.stk t.tgt hr
  unfold Th.tgt
  cases hs : t.stk with
  | nil => trivial
  | cons g rest =>
    obtain ⟨c, w⟩ := g
    simp only
    rw [hs] at hr
    exact parentOf_lt' hr.2.2.1

theorem tgt_not_held {sh : Sh} {tid : Tid} {t : Th} (hr : RhStack sh tid t.h t.m t.stk) :
    ¬ HW t (.b t.tgt) ∧ ¬ HR t (.b t.tgt) := by
  constructor <;> intro h <;> have := tgt_lt_stack hr _ h <;> simp at this

end TbbVerif.C10R
