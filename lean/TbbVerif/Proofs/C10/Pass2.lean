/- C10: second invariant across `chkPass` (the linearization point of negative results). -/
import TbbVerif.Proofs.C10.Acq2

namespace TbbVerif.C10

theorem chkPass2 {hash : Nat → Nat} {sh : Sh} {tid : Tid} {u : Th} (hS : ShInv hash sh) (h2 : ShInv2 sh) (hc : Carry hash sh tid u)
    (hs : u.stk = [(u.b0, u.w0)]) (hop : OpFrame sh u u.b0) (hcf : ChkFacts sh u) (habove : AboveNC sh u.h u.b0)
    (hh : u.op.k ≠ .exclude → u.h = hash u.op.key) :
    AcqOK2 hash sh tid (chkPass sh tid u).1 (chkPass sh tid u).2 := by
  obtain ⟨hnf, hrsf, _⟩ := hcf
  have hHome : HomeIs sh u.h u.b0 := ⟨hop.2, hop.1, habove⟩
  have mkLog : ∀ (e : HEv) (t2 : Th), ShInv2 (sh.log e) → Carry hash sh tid t2 →
      (t2.pc.plain = true ∨ (t2.pc = .relB .fin ∧ t2.op.k ≠ .exclude) ∨ t2.pc = .relB .restart) → AcqOK2 hash sh tid (sh.log e) t2 :=
    fun e t2 hsl c2 hp => ⟨hsl, thinv2_of_carry (carry_sh c2 rfl rfl (Nat.le_refl _)) hp,
      frame2_same rfl rfl rfl (Nat.le_refl _) (fun n h => Or.inl h)⟩
  have mk : ∀ (t2 : Th), Carry hash sh tid t2 →
      (t2.pc.plain = true ∨ (t2.pc = .relB .fin ∧ t2.op.k ≠ .exclude) ∨ t2.pc = .relB .restart) → AcqOK2 hash sh tid sh t2 :=
    fun t2 c2 hp => ⟨h2, thinv2_of_carry c2 hp, frame2_refl _ _⟩
  -- a negative result for a key that is not in its home bucket
  have absent : u.op.k ≠ .exclude → u.rs = false → (u.op.k = .find ∨ u.op.k = .count ∨ u.op.k = .erase) →
      ShInv2 (sh.log (u.ev tid false none)) := by
    intro hkne hrs hk3
    apply lin_log h2
    intro s _ h3 h4
    have hkey : (u.ev tid false none).key = u.op.key := ev_key_ne_excl hkne
    have hfk : findKey (sh.chainOf u.b0) u.op.key = none := by
      have := hnf hrs; unfold NotFound at this; rw [if_neg hkne] at this; exact this
    have hH : HomeIs sh (hash u.op.key) u.b0 := by rw [← hh hkne]; exact hHome
    apply specStep_absent hk3 _ rfl rfl
    rw [hkey]
    cases hsk : s u.op.key with
    | none => rfl
    | some n =>
      exfalso
      have hnk := h4 _ _ hsk
      have hl : IsLinked sh n := (h3 n).1 (by rw [hnk]; exact hsk)
      exact no_key_of_home hS hH hfk n hl hnk
  have rs_false_of : u.op.k ≠ .erase → u.rs = false := by
    intro hne
    cases hr : u.rs with
    | false => rfl
    | true => exact absurd (hrsf hr).2 hne
  unfold chkPass
  cases hk : u.op.k <;> simp only []
  · exact mk _ (carry_local hc rfl rfl rfl rfl) (Or.inl rfl)
  · have hkne : u.op.k ≠ .exclude := by rw [hk]; simp
    exact mkLog _ _ (absent hkne (rs_false_of (by rw [hk]; simp)) (Or.inl hk)) (carry_local hc rfl rfl rfl rfl) (Or.inr (Or.inl ⟨rfl, hkne⟩))
  · have hkne : u.op.k ≠ .exclude := by rw [hk]; simp
    exact mkLog _ _ (absent hkne (rs_false_of (by rw [hk]; simp)) (Or.inr (Or.inl hk))) (carry_local hc rfl rfl rfl rfl) (Or.inr (Or.inl ⟨rfl, hkne⟩))
  · -- erase
    have hkne : u.op.k ≠ .exclude := by rw [hk]; simp
    by_cases hrt : u.rs = true
    · have heq := chkPass_rs_eq sh tid u hk hrt hs
      unfold chkPass at heq
      rw [hk] at heq
      simp only [] at heq
      rw [heq]
      cases hf : findKey (sh.chainOf u.b0) u.op.key with
      | some n =>
        simp only []
        obtain ⟨hn, _⟩ := findKey_some hf
        exact mk _ (carry_found h2 hc rfl rfl rfl hkne (n := n) rfl ⟨_, hn⟩) (Or.inl rfl)
      | none => simp only []; exact mk _ (carry_local hc rfl rfl rfl rfl) (Or.inl rfl)
    · have hrf : u.rs = false := by cases h : u.rs <;> simp_all
      rw [if_neg (by rw [hrf]; simp)]
      exact mkLog _ _ (absent hkne hrf (Or.inr (Or.inr hk))) (carry_local hc rfl rfl rfl rfl) (Or.inr (Or.inl ⟨rfl, hkne⟩))
  · -- exclude: the node is gone
    have hrs := rs_false_of (by rw [hk]; simp)
    obtain ⟨n, w, hn, hacc, hhn⟩ := hc.ex hk
    refine mkLog _ _ ?_ (carry_local hc rfl rfl rfl rfl) (Or.inl rfl)
    apply lin_log h2
    intro s _ h3 _
    have hkey : (u.ev tid false u.n).key = n.key := ev_key_excl hk hacc
    apply specStep_excl_gone (n := n) hk (by rw [ev_node]; exact hn) hkey.symm _ rfl
    rw [hkey]
    intro hsk
    have hl : IsLinked sh n := (h3 n).1 hsk
    have hnb : n ∉ sh.chainOf u.b0 := by
      have := hnf hrs; unfold NotFound at this; rw [if_pos hk] at this; exact this n hn
    exact not_linked_of_home hS (by rw [← hhn]; exact hHome) hnb hl
  · exact mk _ (carry_local hc rfl rfl rfl rfl) (Or.inr (Or.inl ⟨rfl, by show u.op.k ≠ .exclude; rw [hk]; simp⟩))

end TbbVerif.C10
