/- C10: sequential histories over the specification `Key → Option Node` (pure list reasoning, independent of the machine). -/
import TbbVerif.Model.C10

namespace TbbVerif.C10

/-- the sequential map after a (newest-first) linearization `hist`, `none` if some result is not the sequential one -/
def specOf : List HEv → Option Spec
  | [] => some (fun _ => none)
  | e :: es => (specOf es).bind (fun s => specStep s e)

theorem specRun_snoc (s : Spec) (l : List HEv) (e : HEv) :
    specRun s (l ++ [e]) = (specRun s l).bind (fun s' => specStep s' e) := by
  induction l generalizing s with
  | nil => simp [specRun]; cases specStep s e <;> rfl
  | cons a l ih =>
    simp only [List.cons_append, specRun]
    cases specStep s a with
    | none => rfl
    | some s' => exact ih s'

theorem specOf_eq_specRun (hist : List HEv) : specOf hist = specRun (fun _ => none) hist.reverse := by
  induction hist with
  | nil => rfl
  | cons e es ih => simp only [specOf, List.reverse_cons, specRun_snoc, ih]

/-- a successful insert of key `k` -/
def IsIns (k : Nat) (e : HEv) : Prop := e.k = .ins ∧ e.ok = true ∧ e.key = k
/-- a successful erase (by key or by accessor) of key `k` -/
def IsRem (k : Nat) (e : HEv) : Prop := (e.k = .erase ∨ e.k = .exclude) ∧ e.ok = true ∧ e.key = k
/-- a find or count of key `k` -/
def IsLook (k : Nat) (e : HEv) : Prop := (e.k = .find ∨ e.k = .count) ∧ e.key = k

/-- a legal history with its newest entry split off -/
theorem specOf_cons_some {e : HEv} {es : List HEv} {s : Spec} (h : specOf (e :: es) = some s) :
    ∃ s0, specOf es = some s0 ∧ specStep s0 e = some s := by
  simp only [specOf] at h
  cases h0 : specOf es with
  | none => simp [h0] at h
  | some s0 => exact ⟨s0, rfl, by simpa [h0] using h⟩

/-- every entry of a legal history that carries a node carries one with the entry's key -/
theorem legal_prefix {es1 es2 : List HEv} {s : Spec} (h : specOf (es1 ++ es2) = some s) : ∃ s', specOf es2 = some s' := by
  induction es1 generalizing s with
  | nil => exact ⟨s, h⟩
  | cons e es ih =>
    obtain ⟨s0, h0, _⟩ := specOf_cons_some (by simpa using h)
    exact ih h0

/-- a step that is not a successful erase of `k` keeps `k` bound to the same node -/
theorem specStep_keep_some {s s' : Spec} {e : HEv} {k : Nat} {n : Node}
    (h : specStep s e = some s') (hr : ¬ IsRem k e) (hk : s k = some n) : s' k = some n := by
  obtain ⟨tid, ek, key, ok, node⟩ := e
  simp only [IsRem] at hr
  cases ek <;> simp only [specStep] at h <;> (repeat' split at h) <;>
    simp_all
  all_goals
    subst h
    simp only [upd]
    split
    · next hkk => subst hkk; simp_all
    · exact hk

/-- a step that is not a successful insert of `k` keeps `k` absent -/
theorem specStep_keep_none {s s' : Spec} {e : HEv} {k : Nat}
    (h : specStep s e = some s') (hr : ¬ IsIns k e) (hk : s k = none) : s' k = none := by
  obtain ⟨tid, ek, key, ok, node⟩ := e
  simp only [IsIns] at hr
  cases ek <;> simp only [specStep] at h <;> (repeat' split at h) <;>
    simp_all
  all_goals
    subst h
    simp only [upd]
    split
    · next hkk => subst hkk; simp_all
    · exact hk

/-- over a segment without successful erase of `k`, `k` stays bound to the same node -/
theorem seg_keep_some {k : Nat} {n : Node} {es rest : List HEv} {s s0 : Spec}
    (h : specOf (es ++ rest) = some s) (h0 : specOf rest = some s0) (hk : s0 k = some n)
    (hno : ∀ e ∈ es, ¬ IsRem k e) : s k = some n := by
  induction es generalizing s with
  | nil => simp only [List.nil_append] at h; rw [h0] at h; cases h; exact hk
  | cons e es ih =>
    obtain ⟨s1, h1, hs⟩ := specOf_cons_some (by simpa using h)
    exact specStep_keep_some hs (hno e (List.mem_cons_self ..))
      (ih h1 (fun e' he' => hno e' (List.mem_cons_of_mem _ he')))

/-- over a segment without successful insert of `k`, `k` stays absent -/
theorem seg_keep_none {k : Nat} {es rest : List HEv} {s s0 : Spec}
    (h : specOf (es ++ rest) = some s) (h0 : specOf rest = some s0) (hk : s0 k = none)
    (hno : ∀ e ∈ es, ¬ IsIns k e) : s k = none := by
  induction es generalizing s with
  | nil => simp only [List.nil_append] at h; rw [h0] at h; cases h; exact hk
  | cons e es ih =>
    obtain ⟨s1, h1, hs⟩ := specOf_cons_some (by simpa using h)
    exact specStep_keep_none hs (hno e (List.mem_cons_self ..))
      (ih h1 (fun e' he' => hno e' (List.mem_cons_of_mem _ he')))

/-- the step of a successful insert of `k` binds `k` to the entry's node -/
theorem specStep_ins {s s' : Spec} {e : HEv} {k : Nat} (h : specStep s e = some s') (hi : IsIns k e) :
    s k = none ∧ ∃ n, e.node = some n ∧ s' k = some n := by
  obtain ⟨tid, ek, key, ok, node⟩ := e
  obtain ⟨h1, h2, h3⟩ := hi
  simp only at h1 h2 h3
  subst h1 h2 h3
  simp only [specStep] at h
  repeat' split at h
  all_goals simp_all
  subst h; simp [upd]

/-- the step of a successful erase of `k` unbinds `k` -/
theorem specStep_rem {s s' : Spec} {e : HEv} {k : Nat} (h : specStep s e = some s') (hi : IsRem k e) :
    (∃ n, s k = some n) ∧ s' k = none := by
  obtain ⟨tid, ek, key, ok, node⟩ := e
  obtain ⟨h1, h2, h3⟩ := hi
  simp only at h1 h2 h3
  subst h2 h3
  rcases h1 with h1 | h1 <;> subst h1 <;> simp only [specStep] at h <;> (repeat' split at h) <;> simp_all <;>
    (subst h; simp [upd])

/-- a find/count returns the bound node, or fails on an absent key -/
theorem specStep_look {s s' : Spec} {e : HEv} {k : Nat} (h : specStep s e = some s') (hi : IsLook k e) :
    (s k = none ∧ e.ok = false ∧ e.node = none) ∨ (∃ n, s k = some n ∧ e.ok = true ∧ e.node = some n) := by
  obtain ⟨tid, ek, key, ok, node⟩ := e
  obtain ⟨h1, h3⟩ := hi
  simp only at h1 h3
  subst h3
  rcases h1 with h1 | h1 <;> subst h1 <;> simp only [specStep] at h <;> (repeat' split at h) <;> simp_all

/-- an erase by key of a bound key succeeds -/
theorem specStep_erase_some {s s' : Spec} {e : HEv} {n : Node} (h : specStep s e = some s') (hk : e.k = .erase)
    (hs : s e.key = some n) : e.ok = true := by
  obtain ⟨tid, ek, key, ok, node⟩ := e
  simp only at hk hs
  subst hk
  simp only [specStep] at h
  repeat' split at h
  all_goals simp_all

/-- split a legal history at two marked entries -/
theorem legal_split {es1 es2 es3 : List HEv} {e1 e2 : HEv} {s : Spec}
    (h : specOf (es1 ++ e2 :: es2 ++ e1 :: es3) = some s) :
    ∃ s0 s1 s2 s3, specOf es3 = some s0 ∧ specStep s0 e1 = some s1 ∧ specOf (e1 :: es3) = some s1 ∧
      specOf (es2 ++ e1 :: es3) = some s2 ∧ specStep s2 e2 = some s3 := by
  have h' : specOf (es1 ++ (e2 :: (es2 ++ e1 :: es3))) = some s := by simpa using h
  obtain ⟨s3, h3⟩ := legal_prefix h'
  obtain ⟨s2, h2, hs2⟩ := specOf_cons_some h3
  obtain ⟨s1, h1⟩ := legal_prefix h2
  obtain ⟨s0, h0, hs0⟩ := specOf_cons_some h1
  exact ⟨s0, s1, s2, s3, h0, hs0, h1, h2, hs2⟩

/-- In a legal history, between two successful inserts of the same key there is a successful erase of that key
(`e1` is the older entry: histories are newest first). -/
theorem legal_insert_one_winner {k : Nat} {es1 es2 es3 : List HEv} {e1 e2 : HEv} {s : Spec}
    (h : specOf (es1 ++ e2 :: es2 ++ e1 :: es3) = some s) (h1 : IsIns k e1) (h2 : IsIns k e2) :
    ∃ e ∈ es2, IsRem k e := by
  obtain ⟨s0, s1, s2, s3, h0, hs0, he1, hm, hs2⟩ := legal_split h
  apply Classical.byContradiction
  intro hc
  have hno : ∀ e ∈ es2, ¬ IsRem k e := fun e he hr => hc ⟨e, he, hr⟩
  obtain ⟨_, n, _, hn⟩ := specStep_ins hs0 h1
  have := seg_keep_some hm he1 hn hno
  have := (specStep_ins hs2 h2).1
  simp_all

/-- In a legal history, between two successful erases of the same key there is a successful insert of that key. -/
theorem legal_erase_one_winner {k : Nat} {es1 es2 es3 : List HEv} {e1 e2 : HEv} {s : Spec}
    (h : specOf (es1 ++ e2 :: es2 ++ e1 :: es3) = some s) (h1 : IsRem k e1) (h2 : IsRem k e2) :
    ∃ e ∈ es2, IsIns k e := by
  obtain ⟨s0, s1, s2, s3, h0, hs0, he1, hm, hs2⟩ := legal_split h
  apply Classical.byContradiction
  intro hc
  have hno : ∀ e ∈ es2, ¬ IsIns k e := fun e he hr => hc ⟨e, he, hr⟩
  have hn := (specStep_rem hs0 h1).2
  have := seg_keep_none hm he1 hn hno
  obtain ⟨⟨n, hn'⟩, _⟩ := specStep_rem hs2 h2
  simp_all

/-- In a legal history a find/count of `k` linearized after a successful insert of `k`, with no successful erase of `k`
in between, succeeds and returns the inserted node. -/
theorem legal_find_after_insert {k : Nat} {es1 es2 es3 : List HEv} {e1 e2 : HEv} {s : Spec}
    (h : specOf (es1 ++ e2 :: es2 ++ e1 :: es3) = some s) (h1 : IsIns k e1) (h2 : IsLook k e2)
    (hno : ∀ e ∈ es2, ¬ IsRem k e) : e2.ok = true ∧ e2.node = e1.node := by
  obtain ⟨s0, s1, s2, s3, h0, hs0, he1, hm, hs2⟩ := legal_split h
  obtain ⟨_, n, hn1, hn⟩ := specStep_ins hs0 h1
  have hk := seg_keep_some hm he1 hn hno
  rcases specStep_look hs2 h2 with ⟨hx, _⟩ | ⟨n', hx, hok, hnode⟩
  · simp_all
  · rw [hk] at hx; cases hx; exact ⟨hok, by rw [hnode, hn1]⟩

/-- … and an erase by key in that position succeeds. -/
theorem legal_erase_after_insert {k : Nat} {es1 es2 es3 : List HEv} {e1 e2 : HEv} {s : Spec}
    (h : specOf (es1 ++ e2 :: es2 ++ e1 :: es3) = some s) (h1 : IsIns k e1) (h2 : e2.k = .erase ∧ e2.key = k)
    (hno : ∀ e ∈ es2, ¬ IsRem k e) : e2.ok = true := by
  obtain ⟨s0, s1, s2, s3, h0, hs0, he1, hm, hs2⟩ := legal_split h
  obtain ⟨_, n, hn1, hn⟩ := specStep_ins hs0 h1
  have hk := seg_keep_some hm he1 hn hno
  exact specStep_erase_some hs2 h2.1 (by rw [h2.2]; exact hk)

/-- A find/count of `k` with no successful insert of `k` before it fails (no resurrection, nothing from thin air). -/
theorem legal_find_absent {k : Nat} {es1 es2 : List HEv} {e2 : HEv} {s : Spec}
    (h : specOf (es1 ++ e2 :: es2) = some s) (h2 : IsLook k e2) (hno : ∀ e ∈ es2, ¬ IsIns k e) : e2.ok = false := by
  obtain ⟨s3, h3⟩ := legal_prefix h
  obtain ⟨s2, hm, hs2⟩ := specOf_cons_some h3
  have hk : s2 k = none :=
    seg_keep_none (rest := []) (s0 := fun _ => none) (by simpa using hm) rfl rfl hno
  rcases specStep_look hs2 h2 with ⟨_, hx, _⟩ | ⟨n', hx, _, _⟩
  · exact hx
  · simp_all

/-- the final map of a legal history holds key `k` iff the newest successful insert/erase entry of `k` is an insert -/
theorem legal_final_none {k : Nat} {es : List HEv} {s : Spec} (h : specOf es = some s) (hno : ∀ e ∈ es, ¬ IsIns k e) : s k = none :=
  seg_keep_none (rest := []) (s0 := fun _ => none) (by simpa using h) rfl rfl hno

end TbbVerif.C10
