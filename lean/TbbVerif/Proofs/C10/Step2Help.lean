/- C10: helpers for the preservation of the second invariant (`Inv2`). -/
import TbbVerif.Proofs.C10.Inv2

namespace TbbVerif.C10

theorem frame2_same {sh sh' : Sh} {tid : Tid} (he : sh'.elk = sh.elk) (hf : sh'.freed = sh.freed) (hu : sh'.unlinker = sh.unlinker)
    (hn : sh.nextId ≤ sh'.nextId) (hl : ∀ n, IsLinked sh' n → IsLinked sh n ∨ sh.nextId ≤ n.id) : Frame2 sh tid sh' :=
  ⟨fun n _ _ => by rw [he], fun n _ _ => by rw [he], fun n h => absurd (by rw [he]) h, fun n h => absurd (by rw [hf]) h,
    fun n h => absurd (by rw [hu]) h, hl, hn⟩

theorem frame2_refl (sh : Sh) (tid : Tid) : Frame2 sh tid sh :=
  frame2_same rfl rfl rfl (Nat.le_refl _) (fun _ h => Or.inl h)

/-- the shared part only reads element locks, freed / unlinker flags, nextId, the history and which nodes are linked -/
theorem shinv2_same {sh sh' : Sh} (h2 : ShInv2 sh) (he : sh'.elk = sh.elk) (hf : sh'.freed = sh.freed) (hu : sh'.unlinker = sh.unlinker)
    (hn : sh'.nextId = sh.nextId) (hh : sh'.hist = sh.hist) (hl : ∀ n, IsLinked sh' n ↔ IsLinked sh n) : ShInv2 sh' := by
  refine ⟨by rw [he]; exact h2.ewf, fun n h => by rw [hn]; exact h2.fresh n ((hl n).1 h),
    fun n h => by rw [hf, hu]; exact h2.linkedOk n ((hl n).1 h), ?_⟩
  obtain ⟨s, h1, h3, h4⟩ := h2.lin
  exact ⟨s, by rw [hh]; exact h1, fun n => by rw [hl]; exact h3 n, h4⟩

/-- a thread's second invariant when the node-level shared state did not change (or changed only for other nodes) -/
theorem thinv2_same {hash : Nat → Nat} {sh sh' : Sh} {tid : Tid} {t : Th} (hwf : ∀ n, (sh.elk n).Wf) (hT : ThInv2 hash sh tid t)
    (he : sh'.elk = sh.elk) (hf : sh'.freed = sh.freed) (hu : sh'.unlinker = sh.unlinker) (hn : sh.nextId ≤ sh'.nextId)
    (hl : ∀ n, IsLinked sh' n → IsLinked sh n ∨ sh.nextId ≤ n.id) : ThInv2 hash sh' tid t :=
  others_ok2 (tid := tid + 1) (t' := tid) (frame2_same he hf hu hn hl) (Nat.ne_of_lt (Nat.lt_succ_self tid)) hwf hT

/-- adding a legal entry to the history -/
theorem lin_log {sh : Sh} (h2 : ShInv2 sh) (e : HEv)
    (hstep : ∀ s, specOf sh.hist = some s → (∀ n, s n.key = some n ↔ IsLinked sh n) → (∀ k n, s k = some n → n.key = k) → specStep s e = some s) :
    ShInv2 (sh.log e) := by
  refine ⟨h2.ewf, h2.fresh, h2.linkedOk, ?_⟩
  obtain ⟨s, h1, h3, h4⟩ := h2.lin
  refine ⟨s, ?_, h3, h4⟩
  show (specOf sh.hist).bind (fun s => specStep s e) = some s
  rw [h1]; exact hstep s h1 h3 h4

/-- a key that is in no chain of its home bucket is linked nowhere -/
theorem not_linked_of_home {hash : Nat → Nat} {sh : Sh} (hS : ShInv hash sh) {b : Nat} {n : Node} (hH : HomeIs sh (hash n.key) b)
    (hnb : n ∉ sh.chainOf b) : ¬ IsLinked sh n := by
  intro ⟨b', hb'⟩
  have := homeIs_unique (hS.home b' n hb') hH
  rw [this] at hb'
  exact hnb hb'

theorem no_key_of_home {hash : Nat → Nat} {sh : Sh} (hS : ShInv hash sh) {b k : Nat} (hH : HomeIs sh (hash k) b)
    (hnf : findKey (sh.chainOf b) k = none) : ∀ n, IsLinked sh n → n.key ≠ k := by
  intro n ⟨b', hb'⟩ hk
  have h1 := hS.home b' n hb'
  rw [hk] at h1
  have := homeIs_unique h1 hH
  rw [this] at hb'
  exact findKey_none hnf n hb' hk

/-- the key recorded in a history entry -/
theorem ev_key_ne_excl {t : Th} {tid : Tid} {ok : Bool} {n : Option Node} (hk : t.op.k ≠ .exclude) : (t.ev tid ok n).key = t.op.key := by
  unfold Th.ev
  cases h : t.op.k <;> simp_all

theorem ev_key_excl {t : Th} {tid : Tid} {ok : Bool} {n : Option Node} {a : Node} {w : Bool} (hk : t.op.k = .exclude) (ha : t.acc = some (a, w)) :
    (t.ev tid ok n).key = a.key := by
  unfold Th.ev
  rw [hk, ha]

@[simp] theorem ev_k (t : Th) (tid : Tid) (ok : Bool) (n : Option Node) : (t.ev tid ok n).k = t.op.k := rfl
@[simp] theorem ev_ok (t : Th) (tid : Tid) (ok : Bool) (n : Option Node) : (t.ev tid ok n).ok = ok := rfl
@[simp] theorem ev_node (t : Th) (tid : Tid) (ok : Bool) (n : Option Node) : (t.ev tid ok n).node = n := rfl

/-- a positive lookup result (insert finds the key / find / count) is what the sequential map answers -/
theorem specStep_found {s : Spec} {e : HEv} {n : Node} (hk : e.k = .ins ∨ e.k = .find ∨ e.k = .count) (hs : s e.key = some n)
    (hok : e.ok = (if e.k = .ins then false else true)) (hn : e.node = some n) : specStep s e = some s := by
  unfold specStep
  rcases hk with hk | hk | hk <;> rw [hk] at hok ⊢ <;> simp at hok <;> simp [hs, hok, hn]

/-- a negative lookup result (find / count / erase by key) is what the sequential map answers -/
theorem specStep_absent {s : Spec} {e : HEv} (hk : e.k = .find ∨ e.k = .count ∨ e.k = .erase) (hs : s e.key = none)
    (hok : e.ok = false) (hn : e.node = none) : specStep s e = some s := by
  unfold specStep
  rcases hk with hk | hk | hk <;> rw [hk] <;> simp [hs, hok, hn]

/-- erase by accessor of a node that is no longer in the map -/
theorem specStep_excl_gone {s : Spec} {e : HEv} {n : Node} (hk : e.k = .exclude) (hn : e.node = some n) (hkey : n.key = e.key)
    (hs : s e.key ≠ some n) (hok : e.ok = false) : specStep s e = some s := by
  unfold specStep
  rw [hk]
  simp [hn, hkey, hs, hok]

end TbbVerif.C10
