/- C10: second invariant, steps elemTry (accessor acquisition), link and unlink (the linearization points of the
successful updates). -/
import TbbVerif.Proofs.C10.Step2D

namespace TbbVerif.C10

theorem stepOK2_elemTry {hash : Nat → Nat} {sh : Sh} {tid : Tid} {t : Th} (alt : Nat) (hT : ThInv hash sh tid t)
    (h2 : ShInv2 sh) (hT2 : ThInv2 hash sh tid t) (hK : KInv t) (hpc : t.pc = .elemTry) :
    StepOK2 hash sh tid t (stepTh hash sh tid t alt).1 (stepTh hash sh tid t alt).2.1 := by
  have hc := hT.c
  rw [hpc] at hc
  simp only [CAt] at hc
  obtain ⟨hs, hop, n0, hn0, hmem, hkey⟩ := hc
  have hkk : (t.op.k = .find ∧ t.ret = true) ∨ t.op.k = .ins := by have := hK; unfold KInv at this; rw [hpc] at this; exact this
  have hkne : t.op.k ≠ .exclude := by rcases hkk with ⟨h, _⟩ | h <;> rw [h] <;> simp
  have hc2 := carry_of hT2 (by rw [hpc]; rfl)
  have hstep : stepTh hash sh tid t alt =
      (match t.n with
      | some n =>
          if alt = 0 then
            if (if t.op.acc = 2 then (sh.elk n).isFree else (sh.elk n).canRead) = true then
              ((if (t.ret && t.op.k == .ins) = true then sh.setEL n (if t.op.acc = 2 then (sh.elk n).setW tid else (sh.elk n).addR tid)
                else (sh.setEL n (if t.op.acc = 2 then (sh.elk n).setW tid else (sh.elk n).addR tid)).log (t.ev tid t.ret (some n))),
               { t with acc := some (n, decide (t.op.acc = 2)), pc := .relB .fin }, .el n.id (decide (t.op.acc = 2)))
            else (sh, t, .blocked)
          else if (t.ret && t.op.k == .ins) = true then (sh, t, .blocked)
          else
            ((if t.w0 = true then sh.setBL t.b0 (sh.blk t.b0).clrW else sh.setBL t.b0 ((sh.blk t.b0).delR tid)),
              { t with stk := [], pc := .rdMask }, if t.w0 = true then .buw t.b0 else .bur t.b0)
      | none => (sh, t, .none)) := by
    generalize t.b0 = b0 at hs
    generalize t.w0 = w0 at hs
    unfold stepTh
    rw [hpc]
    simp only
    rw [hs]
    cases t.n <;> rfl
  rw [hstep]
  have hlinked : IsLinked sh n0 := ⟨t.b0, hmem⟩
  split
  case h_2 => rename_i hnone; rw [hn0] at hnone; cases hnone
  rename_i n hsome
  have hnn : n0 = n := by rw [hn0] at hsome; exact Option.some.inj hsome
  subst hnn
  by_cases halt : alt = 0
  · rw [if_pos halt]
    by_cases hok : (if t.op.acc = 2 then (sh.elk n0).isFree else (sh.elk n0).canRead) = true
    · rw [if_pos hok]
      -- the new lock word
      have hwf : (if t.op.acc = 2 then (sh.elk n0).setW tid else (sh.elk n0).addR tid).Wf := by
        split
        · exact Lock.wf_setW _ _
        · rename_i h; rw [if_neg h] at hok; exact Lock.wf_addR _ ((Lock.canRead_iff _).1 hok)
      have hview : ∀ t', t' ≠ tid → (((if t.op.acc = 2 then (sh.elk n0).setW tid else (sh.elk n0).addR tid).w = some t' ↔ (sh.elk n0).w = some t') ∧
          (t' ∈ (if t.op.acc = 2 then (sh.elk n0).setW tid else (sh.elk n0).addR tid).r ↔ t' ∈ (sh.elk n0).r)) := by
        split
        · rename_i h; rw [if_pos h] at hok
          obtain ⟨hw, hr⟩ := (Lock.isFree_iff _).1 hok
          exact view_setW_free hw hr
        · exact view_addR
      have hS1 := shinv2_setEL h2 n0 _ hwf
      have hF1 := frame2_setEL (tid := tid) n0 _ hview (Or.inl hlinked)
      have hheld : HoldsE (sh.setEL n0 (if t.op.acc = 2 then (sh.elk n0).setW tid else (sh.elk n0).addR tid)) tid (n0, decide (t.op.acc = 2)) := by
        unfold HoldsE
        by_cases h : t.op.acc = 2 <;> simp [h]
      have hT' : ∀ sh' : Sh, sh'.elk = (sh.setEL n0 (if t.op.acc = 2 then (sh.elk n0).setW tid else (sh.elk n0).addR tid)).elk →
          sh'.freed = sh.freed → sh'.nextId = sh.nextId →
          ThInv2 hash sh' tid { t with acc := some (n0, decide (t.op.acc = 2)), pc := .relB .fin } := by
        intro sh' he hf hn
        refine ⟨?_, (fun x hx => by rw [hn]; exact hT2.nOk x hx), (fun hk => absurd hk hkne), (fun _ _ h => absurd rfl h), ?_⟩
        · intro n' w' h
          simp only [Option.some.injEq, Prod.mk.injEq] at h
          obtain ⟨rfl, rfl⟩ := h
          refine ⟨?_, by rw [hf]; exact (h2.linkedOk _ hlinked).1, by rw [hn]; exact h2.fresh _ hlinked⟩
          unfold HoldsE at hheld ⊢; rw [he]; exact hheld
        · simp only [DAt]
      by_cases hcond : (t.ret && t.op.k == .ins) = true
      · rw [if_pos hcond]
        exact ⟨hS1, hT' _ rfl rfl rfl, hF1⟩
      · rw [if_neg hcond]
        refine ⟨?_, hT' _ rfl rfl rfl, ⟨hF1.elkW, hF1.elkR, hF1.elk, hF1.freed, hF1.unlinker, hF1.linked, hF1.nextId⟩⟩
        apply lin_log hS1
        intro s _ h3 _
        have hkeyE : (t.ev tid t.ret (some n0)).key = t.op.key := ev_key_ne_excl hkne
        have hsk : s (t.ev tid t.ret (some n0)).key = some n0 := by
          rw [hkeyE, ← hkey hkne]; exact (h3 n0).2 hlinked
        rcases hkk with ⟨hf, hr⟩ | hi
        · apply specStep_found (n := n0) (Or.inr (Or.inl hf)) hsk _ rfl
          show t.ret = (if t.op.k = OpK.ins then false else true)
          rw [hf, hr]; rfl
        · apply specStep_found (n := n0) (Or.inl hi) hsk _ rfl
          show t.ret = (if t.op.k = OpK.ins then false else true)
          rw [hi]
          have : (t.op.k == OpK.ins) = true := by rw [hi]; rfl
          rw [this, Bool.and_true] at hcond
          simp only [if_true]
          cases h : t.ret with
          | false => rfl
          | true => exact absurd h hcond
    · rw [if_neg hok]
      exact ⟨h2, hT2, frame2_refl _ _⟩
  · rw [if_neg halt]
    by_cases hcond : (t.ret && t.op.k == .ins) = true
    · rw [if_pos hcond]
      exact ⟨h2, hT2, frame2_refl _ _⟩
    · rw [if_neg hcond]
      have hthr : ThInv2 hash sh tid { t with stk := [], pc := .rdMask } := thinv2_of_carry (carry_local hc2 rfl rfl rfl rfl) (Or.inl rfl)
      cases t.w0 with
      | true =>
        simp only [if_true]
        exact ⟨shinv2_same h2 rfl rfl rfl rfl rfl (fun _ => Iff.rfl), thinv2_same h2.ewf hthr rfl rfl rfl (Nat.le_refl _) (fun _ h => Or.inl h),
          frame2_same rfl rfl rfl (Nat.le_refl _) (fun _ h => Or.inl h)⟩
      | false =>
        simp only [Bool.false_eq_true, if_false]
        exact ⟨shinv2_same h2 rfl rfl rfl rfl rfl (fun _ => Iff.rfl), thinv2_same h2.ewf hthr rfl rfl rfl (Nat.le_refl _) (fun _ h => Or.inl h),
          frame2_same rfl rfl rfl (Nat.le_refl _) (fun _ h => Or.inl h)⟩

end TbbVerif.C10
