/- C10 (refined model): an access to a lock word preserves `Coupled` — the element lock taken with try_acquire under the
bucket lock (`elemTry`), the element lock of `internal_erase` (`eLock`), the wait loops of the blocking bucket acquisition. -/
import TbbVerif.Proofs.C10.RStepF

namespace TbbVerif.C10R

open TbbVerif.C10

theorem trOf_ir {a b : C08.Phase} (ha : a = .idle ∨ a = .rt) (hb : b = .idle ∨ b = .rt) : trOf a b = .none := by
  rcases ha with rfl | rfl <;> rcases hb with rfl | rfl <;> rfl

theorem not_holdW_ir {a : C08.Phase} (ha : a = .idle ∨ a = .rt) : ¬ a = .holdW := by
  rcases ha with rfl | rfl <;> simp

theorem not_phaseR_ir {a : C08.Phase} (ha : a = .idle ∨ a = .rt) : ¬ phaseR a := by
  rcases ha with rfl | rfl <;> (intro h; rcases h with h | h | h <;> cases h)

section
variable {hash : Nat → Nat} {s : RSt} {tid : Tid} {t : Th} {r : RTh} {L : LId} {th : C08.Th}

/-- an access without effect whose phases stay among idle / transient reader -/
theorem silent_ir (hC : Coupled hash s) (ht : s.a.ths[tid]? = some t) (hr : s.rt[tid]? = some r) (hcur : r.cur = some L)
    (hs : slot s L tid = some th) (hpre : PreOK th)
    (h0 : th.phase = .idle ∨ th.phase = .rt) (h1 : (acT (getL s L).word th).phase = .idle ∨ (acT (getL s L).word th).phase = .rt)
    (hnt : ((acT (getL s L).word th).ops.isEmpty && (th.ops.head?.map isTry).getD false && t.pc == .lockTry) = false)
    (hcont : ((acT (getL s L).word th).ops = [] ∧ relockPc t.pc = false) ∨
      ∃ op, (acT (getL s L).word th).ops = [op] ∧ PreOK (acT (getL s L).word th) ∧ CurOK t r L op (acT (getL s L).word th))
    (hfl : (lockAccess hash s tid t r L).a = s.a → ∀ b, L = .b b → FlagC (lockAccess hash s tid t r L) b) :
    Coupled hash (lockAccess hash s tid t r L) := by
  have htrn := trOf_ir h0 h1
  have hs' := step_slot_self (getL s L) tid th hs
  have ha : (lockAccess hash s tid t r L).a = s.a := by
    have := (lockAccess_out hash s tid t r L th _ hs hs').1
    rw [effect_none _ _ _ _ _ _ htrn hnt] at this; exact this
  exact silent_coupled hC ht hr hcur hs hpre htrn hnt
    ⟨fun h => absurd h (not_holdW_ir h0), fun h => absurd h (not_holdW_ir h1)⟩
    ⟨fun h => absurd h (not_phaseR_ir h0), fun h => absurd h (not_phaseR_ir h1)⟩ hcont (hfl ha)

theorem getL_access (hs : slot s L tid = some th) :
    getL (lockAccess hash s tid t r L) L = C08.step (getL s L) tid := by
  have hs' := step_slot_self (getL s L) tid th hs
  have := (lockAccess_out hash s tid t r L th _ hs hs').2.2 L
  rw [if_pos rfl] at this; exact this

/-- `lookup`: an access of `result->try_acquire( n->mutex, write )` under the bucket lock -/
theorem elemTry_coupled (hC : Coupled hash s) (ht : s.a.ths[tid]? = some t) (hr : s.rt[tid]? = some r) {n : Node}
    (hcur : r.cur = some (.e n)) (hs : slot s (.e n) tid = some th) {op : C08.Op} (hops : th.ops = [op]) (hpre : PreOK th)
    (hpc : t.pc = .elemTry) (hn : t.n = some n) (hop : op = if t.op.acc = 2 then .tryLock else .tryLockShared)
    (hph : th.phase = .idle ∨ (th.phase = .rt ∧ t.op.acc ≠ 2)) : Coupled hash (lockAccess hash s tid t r (.e n)) := by
  have hwf := (hC.lk (.e n)).inv.hwf tid th hs
  have hv := view_of hC hs
  have hc := (hC.abs.i1.th tid t ht).c
  rw [hpc] at hc; simp only [CAt] at hc
  obtain ⟨hstk, _, _⟩ := hc
  have hacc := acc_none_elemTry hC ht hpc
  have hlag := lag_false_of_pc hC ht hr (by rw [hpc]; simp)
  have hpcb : (t.pc == Pc.lockTry) = false := by rw [hpc]; rfl
  have hph0 : th.phase = .idle ∨ th.phase = .rt := by rcases hph with h | ⟨h, _⟩; exact Or.inl h; exact Or.inr h
  have hout : AcqOut (getL s (.e n)).word th op := by
    by_cases h2 : t.op.acc = 2
    · simp only [h2, if_true] at hop; subst hop
      rcases hph with h | ⟨_, h⟩
      · exact tryLock_out _ th hops hpre hwf h
      · exact absurd h2 h
    · simp only [h2, if_false] at hop
      exact shared_out false _ th op (by simpa using hop) hops hpre hwf hph0
  have hcok : ∀ th' : C08.Th, (th'.phase = .idle ∨ (th'.phase = .rt ∧ (op = .lockShared ∨ op = .tryLockShared))) → CurOK t r (.e n) op th' := by
    intro th' hp'
    by_cases h2 : t.op.acc = 2
    · simp only [h2, if_true] at hop; subst hop
      rcases hp' with h | ⟨_, h | h⟩
      · exact ⟨h, Or.inr ⟨hpc, by simp [hn], h2⟩⟩
      · cases h
      · cases h
    · simp only [h2, if_false] at hop; subst hop
      exact ⟨by rcases hp' with h | ⟨h, _⟩; exact Or.inl h; exact Or.inr h, hpc, by simp [hn], h2⟩
  have grant : (acT (getL s (.e n)).word th).ops = [] → th.phase = .idle →
      (acT (getL s (.e n)).word th).phase = (if t.op.acc = 2 then .holdW else .holdR) →
      (if t.op.acc = 2 then (s.a.sh.elk n).isFree = true else (s.a.sh.elk n).canRead = true) →
      Coupled hash (lockAccess hash s tid t r (.e n)) := by
    intro ho h0 hp' hen
    have htr : trOf th.phase (acT (getL s (.e n)).word th).phase = .acq := by rw [h0, hp']; split <;> rfl
    have heff : effect s.a.sh tid t r th (acT (getL s (.e n)).word th) = ([{ tid := tid, alt := 0 }], false) := by
      rw [effect_tr _ _ _ _ _ _ (by rw [htr]; simp), htr, hlag, hpc]; rfl
    obtain ⟨ro, hsh⟩ := runOut_one (hash := hash) 0 ht hs heff ho
    obtain ⟨he, hH⟩ := elemTry_ok_eff hash s.a.sh tid t n _ _ hpc hn hstk hacc hen
    have hsp : SpecOut s.a.ths.length (lockOf s.a.sh (.e n))
        ((fun l => if t.op.acc = 2 then l.setW tid else l.addR tid) (lockOf s.a.sh (.e n))) tid (acT (getL s (.e n)).word th) := by
      by_cases h2 : t.op.acc = 2
      · simp only [h2, if_true] at hp' ⊢; exact spec_setW hv hp'
      · simp only [h2, if_false] at hp' ⊢; exact spec_addR hv h0 hp'
    refine access_coupled hC ht hr hs hpre (out_eff hC ht hr hcur hs ro (by rw [hsh]; exact he) hsp ?_
      (fun b hb => by cases hb) (fun b hb => by cases hb) (slotOut_done ho (not_relock_after hash s.a.sh tid t 0 (by rw [hpc]; rfl) (by rw [hpc]; rfl))))
    rw [hp']
    by_cases h2 : t.op.acc = 2
    · simp only [h2, if_true] at hH ⊢
      exact ⟨fun _ => hH, (fun h => by rcases h with h | h | h <;> cases h)⟩
    · simp only [h2, if_false] at hH ⊢
      exact ⟨(fun h => by cases h), fun _ => hH⟩
  cases hout with
  | cont ho hp' hpre' hrt =>
    refine silent_ir hC ht hr hcur hs hpre hph0 hp' (by rw [ho]; rfl) (Or.inr ⟨op, ho, hpre', hcok _ ?_⟩) (fun _ b hb => by cases hb)
    rcases hp' with h | h
    · exact Or.inl h
    · exact Or.inr ⟨h, hrt h⟩
  | fail ho hp' _ =>
    exact silent_ir hC ht hr hcur hs hpre hph0 (Or.inl hp') (by rw [hpcb]; simp) (Or.inl ⟨ho, by rw [hpc]; rfl⟩) (fun _ b hb => by cases hb)
  | okW ho h0 hp' hw0 hr0 hopp =>
    have h2 : t.op.acc = 2 := by
      apply Classical.byContradiction; intro h2
      simp only [h2, if_false] at hop; subst hop
      rcases hopp with h | h <;> cases h
    refine grant ho h0 (by simp only [h2, if_true]; exact hp') ?_
    simp only [h2, if_true]
    exact free_of_word hv hw0 hr0
  | okR ho h0 hp' hw0 hopp =>
    have h2 : ¬ t.op.acc = 2 := by
      intro h2
      simp only [h2, if_true] at hop; subst hop
      rcases hopp with h | h <;> cases h
    refine grant ho h0 (by simp only [h2, if_false]; exact hp') ?_
    simp only [h2, if_false]
    exact canRead_of_word hv hw0

/-- `internal_erase`: an access of `item_locker( erase_node->mutex, write = true )` -/
theorem eLock_coupled (hC : Coupled hash s) (ht : s.a.ths[tid]? = some t) (hr : s.rt[tid]? = some r) {n : Node}
    (hcur : r.cur = some (.e n)) (hs : slot s (.e n) tid = some th) (hops : th.ops = [.lock]) (hpre : PreOK th)
    (hpc : t.pc = .eLock) (hn : t.n = some n) (hph : th.phase = .idle) : Coupled hash (lockAccess hash s tid t r (.e n)) := by
  have hwf := (hC.lk (.e n)).inv.hwf tid th hs
  have hv := view_of hC hs
  have hacc := acc_none_eLock hC ht hpc
  have hlag := lag_false_of_pc hC ht hr (by rw [hpc]; simp)
  cases lock_out (getL s (.e n)).word th hops hpre hwf hph with
  | cont ho hp' hpre' hrt =>
    have hp'' : (acT (getL s (.e n)).word th).phase = .idle := by
      rcases hp' with h | h
      · exact h
      · rcases hrt h with h' | h' <;> cases h'
    exact silent_ir hC ht hr hcur hs hpre (Or.inl hph) (Or.inl hp'') (by rw [ho]; rfl)
      (Or.inr ⟨_, ho, hpre', ⟨hp'', Or.inr ⟨hpc, by simp [hn]⟩⟩⟩) (fun _ b hb => by cases hb)
  | fail _ _ htry => rcases htry with h | h <;> cases h
  | okW ho h0 hp' hw0 hr0 _ =>
    have htr : trOf th.phase (acT (getL s (.e n)).word th).phase = .acq := by rw [h0, hp']; rfl
    have heff : effect s.a.sh tid t r th (acT (getL s (.e n)).word th) = ([{ tid := tid, alt := 0 }], false) := by
      rw [effect_tr _ _ _ _ _ _ (by rw [htr]; simp), htr, hlag, hpc]; rfl
    obtain ⟨ro, hsh⟩ := runOut_one (hash := hash) 0 ht hs heff ho
    obtain ⟨he, hH⟩ := eLock_eff hash s.a.sh tid t 0 n hpc hn hacc (free_of_word hv hw0 hr0)
    refine access_coupled hC ht hr hs hpre (out_eff hC ht hr hcur hs ro (by rw [hsh]; exact he) (spec_setW hv hp') ?_
      (fun b hb => by cases hb) (fun b hb => by cases hb) (slotOut_done ho (not_relock_after hash s.a.sh tid t 0 (by rw [hpc]; rfl) (by rw [hpc]; rfl))))
    rw [hp']; exact ⟨fun _ => hH, (fun h => by rcases h with h | h | h <;> cases h)⟩
  | okR _ _ _ _ hopp => rcases hopp with h | h <;> cases h

/-- `bucket_accessor::acquire`: an access of the blocking `acquire( mutex, writer )` -/
theorem blocking_coupled (hC : Coupled hash s) (ht : s.a.ths[tid]? = some t) (hr : s.rt[tid]? = some r)
    (hcur : r.cur = some (.b t.tgt)) (hs : slot s (.b t.tgt) tid = some th) {op : C08.Op} (hops : th.ops = [op]) (hpre : PreOK th)
    (hpcs : t.pc = .lockBlk ∨ (t.pc = .lockTry ∧ r.lag = true)) (hop : op = if wantW t = true then .lock else .lockShared)
    (hph : th.phase = .idle ∨ (th.phase = .rt ∧ wantW t = false)) : Coupled hash (lockAccess hash s tid t r (.b t.tgt)) := by
  have hwf := (hC.lk (.b t.tgt)).inv.hwf tid th hs
  have hT := hC.th tid t r ht hr
  have hph0 : th.phase = .idle ∨ th.phase = .rt := by rcases hph with h | ⟨h, _⟩; exact Or.inl h; exact Or.inr h
  have hout : AcqOut (getL s (.b t.tgt)).word th op := by
    by_cases hw : wantW t = true
    · simp only [hw, if_true] at hop; subst hop
      rcases hph with h | ⟨_, h⟩
      · exact lock_out _ th hops hpre hwf h
      · rw [hw] at h; cases h
    · simp only [hw, if_false] at hop
      exact shared_out true _ th op (by simpa using hop) hops hpre hwf hph0
  have hop3 : op = .tryLock ∨ op = .lock ∨ op = .lockShared := by
    rw [hop]; split
    · exact Or.inr (Or.inl rfl)
    · exact Or.inr (Or.inr rfl)
  have hK : (s.a.sh.bkt t.tgt).isFlagged = true → ∃ A, (s.a.sh.blk t.tgt).w = some A := by
    intro hf
    rcases hpcs with hpc | ⟨_, hlag⟩
    · have hc := (hC.abs.i1.th tid t ht).c
      rw [hpc] at hc; simp only [CAt] at hc
      rw [hc.2] at hf; cases hf
    · exact hT.lagK hlag hf
  cases hout with
  | cont ho hp' hpre' hrt =>
    refine silent_ir hC ht hr hcur hs hpre hph0 hp' (by rw [ho]; rfl) (Or.inr ⟨op, ho, hpre', ?_⟩) ?_
    · by_cases hw : wantW t = true
      · simp only [hw, if_true] at hop; subst hop
        have : (acT (getL s (.b t.tgt)).word th).phase = .idle := by
          rcases hp' with h | h
          · exact h
          · rcases hrt h with h' | h' <;> cases h'
        exact ⟨this, Or.inl ⟨hpcs, hw, rfl⟩⟩
      · simp only [hw, if_false] at hop; subst hop
        exact ⟨hp', hpcs, by simpa using hw, rfl⟩
    · intro ha b hb
      cases hb
      refine flagC_silent hC hs hops hop3 hpre hph0 (fun _ => hK) _ ha (getL_access hs) ?_
      intro h; rw [hop] at h; split at h <;> cases h
  | fail _ _ htry => rw [hop] at htry; split at htry <;> rcases htry with h | h <;> cases h
  | okW ho h0 hp' hw0 hr0 hopp =>
    have hw : wantW t = true := by
      cases hw : wantW t with
      | true => rfl
      | false => rw [hw] at hop; simp only [Bool.false_eq_true, if_false] at hop; subst hop; rcases hopp with h | h <;> cases h
    exact bucket_grant_coupled hC ht hr hcur hs hpre hpcs ho h0 (by simp only [hw, if_true]; exact hp') ⟨hw0, fun _ => hr0⟩
  | okR ho h0 hp' hw0 hopp =>
    have hw : wantW t = false := by
      cases hw : wantW t with
      | false => rfl
      | true => rw [hw] at hop; simp only [if_true] at hop; subst hop; rcases hopp with h | h <;> cases h
    exact bucket_grant_coupled hC ht hr hcur hs hpre hpcs ho h0 (by simp only [hw, Bool.false_eq_true, if_false]; exact hp')
      ⟨hw0, fun h => by rw [hw] at h; cases h⟩

end

end TbbVerif.C10R
