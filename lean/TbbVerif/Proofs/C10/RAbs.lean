/- C10 (refined model): what a single `HMap` step does to the specification locks and to what the stepping thread's state
says it holds (`LockEff` / `NoEff`) — one lemma per lock pc and outcome; the `HMap` steps without a lock operation. -/
import TbbVerif.Proofs.C10.RInv

namespace TbbVerif.C10R

open TbbVerif.C10

/-- effect of one `HMap` step on lock `L0` (`f`) and nothing else -/
structure LockEff (sh : Sh) (t : Th) (sh' : Sh) (t' : Th) (L0 : LId) (f : Lock → Lock) : Prop where
  lock0 : lockOf sh' L0 = f (lockOf sh L0)
  lockO : ∀ L, L ≠ L0 → lockOf sh' L = lockOf sh L
  hwO : ∀ L, L ≠ L0 → HW t L → HW t' L
  hrO : ∀ L, L ≠ L0 → HR t L → HR t' L

/-- a step without effect on any lock -/
structure NoEff (sh : Sh) (t : Th) (sh' : Sh) (t' : Th) : Prop where
  lock : ∀ L, lockOf sh' L = lockOf sh L
  hw : ∀ L, HW t L → HW t' L
  hr : ∀ L, HR t L → HR t' L

theorem afterAcq_frame (hash : Nat → Nat) (sh : Sh) (tid : Tid) (t : Th) (hpc : t.pc ≠ .eRel) :
    (afterAcq hash sh tid t).1.blk = sh.blk ∧ (afterAcq hash sh tid t).1.elk = sh.elk ∧
    (afterAcq hash sh tid t).2.stk = t.stk ∧ (afterAcq hash sh tid t).2.acc = t.acc ∧ (afterAcq hash sh tid t).2.pc ≠ .eRel := by
  unfold afterAcq
  split
  · exact ⟨rfl, rfl, rfl, rfl, hpc⟩
  · dsimp only
    split
    · simp
    · split <;> simp
  · dsimp only
    cases hk : t.op.k <;> simp only [] <;> (repeat' split) <;> simp

theorem lockOf_afterAcq (hash : Nat → Nat) (sh : Sh) (tid : Tid) (t : Th) (hpc : t.pc ≠ .eRel) (L : LId) :
    lockOf (afterAcq hash sh tid t).1 L = lockOf sh L := by
  obtain ⟨h1, h2, _⟩ := afterAcq_frame hash sh tid t hpc
  cases L <;> simp [lockOf, h1, h2]

theorem hw_afterAcq (hash : Nat → Nat) (sh : Sh) (tid : Tid) (t : Th) (hpc : t.pc ≠ .eRel) (L : LId) (h : HW t L) :
    HW (afterAcq hash sh tid t).2 L := by
  obtain ⟨_, _, h3, h4, h5⟩ := afterAcq_frame hash sh tid t hpc
  cases L with
  | b b => simp only [HW, h3]; exact h
  | e n =>
    simp only [HW] at h ⊢
    rcases h with h | ⟨_, h, _⟩
    · exact Or.inl (by rw [h4]; exact h)
    · exact absurd h hpc

theorem hr_afterAcq (hash : Nat → Nat) (sh : Sh) (tid : Tid) (t : Th) (hpc : t.pc ≠ .eRel) (L : LId) (h : HR t L) :
    HR (afterAcq hash sh tid t).2 L := by
  obtain ⟨_, _, h3, h4, _⟩ := afterAcq_frame hash sh tid t hpc
  cases L with
  | b b => simp only [HR, h3]; exact h
  | e n => simp only [HR] at h ⊢; rw [h4]; exact h

/-- a lock operation on bucket `b` (new word `l'`, new stack `stk'`) followed by the code under the lock (`afterAcq`) -/
theorem bucket_eff (hash : Nat → Nat) (sh : Sh) (tid : Tid) (t : Th) (b : Nat) (stk' : List (Nat × Bool)) (l' : Lock) (pc' : Pc)
    (hpc : pc' ≠ .eRel) (hpc0 : t.pc ≠ .eRel) (hsub : ∀ f ∈ t.stk, f.1 ≠ b → f ∈ stk')
    (f : Lock → Lock) (hf : f (sh.blk b) = l') (R : Sh × Th)
    (hR : R = afterAcq hash (sh.setBL b l') tid { t with stk := stk', pc := pc' }) :
    LockEff sh t R.1 R.2 (.b b) f ∧ R.2.stk = stk' := by
  subst hR
  have hfr := afterAcq_frame hash (sh.setBL b l') tid { t with stk := stk', pc := pc' } hpc
  obtain ⟨h1, h2, h3, h4, h5⟩ := hfr
  refine ⟨⟨?_, ?_, ?_, ?_⟩, h3⟩
  · simp only [lockOf]
    rw [h1, ← hf]; simp
  · intro L hL
    rw [lockOf_afterAcq _ _ _ _ hpc]
    cases L with
    | b b' => simp only [lockOf, setBL_blk]; rw [if_neg]; intro h; exact hL (by rw [h])
    | e n => rfl
  · intro L hL h
    apply hw_afterAcq _ _ _ _ hpc
    cases L with
    | b b' => simp only [HW] at h ⊢; exact hsub _ h (fun h' => hL (by simp at h'; rw [h']))
    | e n =>
      simp only [HW] at h ⊢
      rcases h with h | ⟨_, h, _⟩
      · exact Or.inl h
      · exact absurd h hpc0
  · intro L hL h
    apply hr_afterAcq _ _ _ _ hpc
    cases L with
    | b b' => simp only [HR] at h ⊢; exact hsub _ h (fun h' => hL (by simp at h'; rw [h']))
    | e n => exact h

/-- acquisition of bucket `b` (pushed on the stack) followed by the code under the lock -/
theorem acq_eff (hash : Nat → Nat) (sh : Sh) (tid : Tid) (t : Th) (b : Nat) (w : Bool) (l' : Lock) (pc' : Pc) (hpc : pc' ≠ .eRel) (hpc0 : t.pc ≠ .eRel)
    (f : Lock → Lock) (hf : f (sh.blk b) = l') (R : Sh × Th)
    (hR : R = afterAcq hash (sh.setBL b l') tid { t with stk := (b, w) :: t.stk, pc := pc' }) :
    LockEff sh t R.1 R.2 (.b b) f ∧ (if w = true then HW R.2 (.b b) else HR R.2 (.b b)) := by
  obtain ⟨h1, h2⟩ := bucket_eff hash sh tid t b ((b, w) :: t.stk) l' pc' hpc hpc0 (fun f hf _ => List.mem_cons_of_mem _ hf) f hf R hR
  refine ⟨h1, ?_⟩
  cases w
  · simp only [Bool.false_eq_true, if_false, HR, h2]; exact List.mem_cons_self ..
  · simp only [if_true, HW, h2]; exact List.mem_cons_self ..

/-- closes `LockEff` / `NoEff` goals about explicit state updates -/
macro "lockeff" : tactic =>
  `(tactic| (refine ⟨by simp [lockOf], ?_, ?_, ?_⟩ <;> (intro L hL; have hL' := Ne.symm hL; cases L <;> simp_all [lockOf, HW, HR, Th.finish])))

macro "noeff" : tactic =>
  `(tactic| (refine ⟨?_, ?_, ?_⟩ <;> (intro L; cases L <;> simp_all [lockOf, HW, HR, Th.finish, Th.drop, doRdMask])))

/-! ### bucket lock pcs -/

theorem lockTry_flagged_eff (hash : Nat → Nat) (sh : Sh) (tid : Tid) (t : Th) (alt : Nat) (hpc : t.pc = .lockTry)
    (hf : (sh.bkt t.tgt).isFlagged = true) (hfree : (sh.blk t.tgt).isFree = true) :
    LockEff sh t (stepTh hash sh tid t alt).1 (stepTh hash sh tid t alt).2.1 (.b t.tgt) (fun l => l.setW tid) ∧
    HW (stepTh hash sh tid t alt).2.1 (.b t.tgt) ∧ (stepTh hash sh tid t alt).2.1.pc = .mark := by
  unfold stepTh
  rw [hpc]
  simp only [hf, hfree, if_true]
  refine ⟨?_, ?_, ?_⟩
  · lockeff
  · simp [HW]
  · trivial

theorem lockTry_acq_eff (hash : Nat → Nat) (sh : Sh) (tid : Tid) (t : Th) (hpc : t.pc = .lockTry)
    (hf : (sh.bkt t.tgt).isFlagged = false) (hfree : (sh.blk t.tgt).isFree = true) :
    LockEff sh t (stepTh hash sh tid t 0).1 (stepTh hash sh tid t 0).2.1 (.b t.tgt) (fun l => l.setW tid) ∧
    HW (stepTh hash sh tid t 0).2.1 (.b t.tgt) := by
  have hne : t.pc ≠ .eRel := by rw [hpc]; simp
  unfold stepTh
  rw [hpc]
  simp only [hf, hfree, if_true, Bool.false_eq_true, if_false]
  have := acq_eff hash sh tid t t.tgt true ((sh.blk t.tgt).setW tid) .lockTry (by simp) hne (fun l => l.setW tid) rfl _ rfl
  simpa using this

theorem lockTry_fail_eff (hash : Nat → Nat) (sh : Sh) (tid : Tid) (t : Th) (hpc : t.pc = .lockTry)
    (hf : (sh.bkt t.tgt).isFlagged = false) :
    (stepTh hash sh tid t 1).1 = sh ∧ (stepTh hash sh tid t 1).2.1 = { t with pc := .lockBlk } := by
  unfold stepTh
  rw [hpc]
  simp [hf]

theorem lockBlk_eff (hash : Nat → Nat) (sh : Sh) (tid : Tid) (t : Th) (alt : Nat) (hpc : t.pc = .lockBlk)
    (hen : if wantW t = true then (sh.blk t.tgt).isFree = true else (sh.blk t.tgt).canRead = true) :
    LockEff sh t (stepTh hash sh tid t alt).1 (stepTh hash sh tid t alt).2.1 (.b t.tgt)
      (fun l => if wantW t = true then l.setW tid else l.addR tid) ∧
    (if wantW t = true then HW (stepTh hash sh tid t alt).2.1 (.b t.tgt) else HR (stepTh hash sh tid t alt).2.1 (.b t.tgt)) := by
  have hne : t.pc ≠ .eRel := by rw [hpc]; simp
  have hww : (t.stk.isEmpty && t.op.k == OpK.exclude) = wantW t := rfl
  unfold stepTh
  rw [hpc]
  simp only [hww]
  cases hw : wantW t with
  | true =>
    rw [hw] at hen
    simp only [if_true] at hen ⊢
    simp only [hen, if_true]
    have := acq_eff hash sh tid t t.tgt true ((sh.blk t.tgt).setW tid) .lockBlk (by simp) hne (fun l => l.setW tid) rfl _ rfl
    simpa using this
  | false =>
    rw [hw] at hen
    simp only [Bool.false_eq_true, if_false] at hen ⊢
    simp only [hen, if_true]
    have := acq_eff hash sh tid t t.tgt false ((sh.blk t.tgt).addR tid) .lockBlk (by simp) hne (fun l => l.addR tid) rfl _ rfl
    simpa using this

theorem rhUpg_inplace_eff (hash : Nat → Nat) (sh : Sh) (tid : Tid) (t : Th) (b : Nat) (w0 : Bool) (rest : List (Nat × Bool))
    (hpc : t.pc = .rhUpg) (hs : t.stk = (b, w0) :: rest) (hsole : (sh.blk b).soleReader tid = true) :
    LockEff sh t (stepTh hash sh tid t 0).1 (stepTh hash sh tid t 0).2.1 (.b b) (fun l => l.setW tid) ∧
    HW (stepTh hash sh tid t 0).2.1 (.b b) := by
  have hne : t.pc ≠ .eRel := by rw [hpc]; simp
  unfold stepTh
  rw [hpc]
  simp only [hs, hsole, if_true]
  obtain ⟨h1, h2⟩ := bucket_eff hash sh tid t b ((b, true) :: rest) ((sh.blk b).setW tid) .rhUpg (by simp) hne
    (by intro f hf hb; rw [hs] at hf; rcases List.mem_cons.1 hf with rfl | h
        · exact absurd rfl hb
        · exact List.mem_cons_of_mem _ h) (fun l => l.setW tid) rfl _ rfl
  refine ⟨h1, ?_⟩
  simp only [HW, h2]; exact List.mem_cons_self ..

theorem rhUpg_release_eff (hash : Nat → Nat) (sh : Sh) (tid : Tid) (t : Th) (b : Nat) (w0 : Bool) (rest : List (Nat × Bool))
    (hpc : t.pc = .rhUpg) (hs : t.stk = (b, w0) :: rest) :
    LockEff sh t (stepTh hash sh tid t 1).1 (stepTh hash sh tid t 1).2.1 (.b b) (fun l => l.delR tid) ∧
    (stepTh hash sh tid t 1).2.1 = { t with stk := rest, pc := .rhRelock } := by
  unfold stepTh
  rw [hpc]
  simp only [hs]
  refine ⟨?_, by simp⟩
  simp only [Nat.succ_ne_zero, if_false]
  lockeff

theorem rhRelock_eff (hash : Nat → Nat) (sh : Sh) (tid : Tid) (t : Th) (alt : Nat) (hpc : t.pc = .rhRelock)
    (hfree : (sh.blk t.tgt).isFree = true) :
    LockEff sh t (stepTh hash sh tid t alt).1 (stepTh hash sh tid t alt).2.1 (.b t.tgt) (fun l => l.setW tid) ∧
    HW (stepTh hash sh tid t alt).2.1 (.b t.tgt) := by
  have hne : t.pc ≠ .eRel := by rw [hpc]; simp
  unfold stepTh
  rw [hpc]
  simp only [hfree, if_true]
  have := acq_eff hash sh tid t t.tgt true ((sh.blk t.tgt).setW tid) .rhRelock (by simp) hne (fun l => l.setW tid) rfl _ rfl
  simpa using this

theorem rhRel_eff (hash : Nat → Nat) (sh : Sh) (tid : Tid) (t : Th) (alt : Nat) (b : Nat) (w : Bool) (rest : List (Nat × Bool))
    (hpc : t.pc = .rhRel) (hs : t.stk = (b, w) :: rest) :
    LockEff sh t (stepTh hash sh tid t alt).1 (stepTh hash sh tid t alt).2.1 (.b b) (fun l => if w = true then l.clrW else l.delR tid) := by
  have hne : t.pc ≠ .eRel := by rw [hpc]; simp
  unfold stepTh
  rw [hpc]
  simp only [hs]
  have hsub : ∀ f ∈ t.stk, f.1 ≠ b → f ∈ rest := by
    intro f hf hb; rw [hs] at hf; rcases List.mem_cons.1 hf with rfl | h
    · exact absurd rfl hb
    · exact h
  cases w
  · have := bucket_eff hash sh tid t b rest ((sh.blk b).delR tid) .rhRel (by simp) hne hsub (fun l => l.delR tid) rfl _ rfl
    simpa using this.1
  · have := bucket_eff hash sh tid t b rest ((sh.blk b).clrW) .rhRel (by simp) hne hsub (fun l => l.clrW) rfl _ rfl
    simpa using this.1

/-- `upg` (lookup<insert>) and `eUpg` (internal_erase): in-place upgrade -/
theorem upg_inplace_eff (hash : Nat → Nat) (sh : Sh) (tid : Tid) (t : Th) (b : Nat) (w0 : Bool)
    (hpc : t.pc = .upg ∨ t.pc = .eUpg) (hs : t.stk = [(b, w0)]) (hsole : (sh.blk b).soleReader tid = true) :
    LockEff sh t (stepTh hash sh tid t 0).1 (stepTh hash sh tid t 0).2.1 (.b b) (fun l => l.setW tid) ∧
    HW (stepTh hash sh tid t 0).2.1 (.b b) := by
  rcases hpc with hpc | hpc <;>
  · unfold stepTh
    rw [hpc]
    simp only [hs, hsole, if_true]
    refine ⟨?_, by simp [HW]⟩
    lockeff

theorem upg_release_eff (hash : Nat → Nat) (sh : Sh) (tid : Tid) (t : Th) (b : Nat) (w0 : Bool)
    (hpc : t.pc = .upg ∨ t.pc = .eUpg) (hs : t.stk = [(b, w0)]) :
    LockEff sh t (stepTh hash sh tid t 1).1 (stepTh hash sh tid t 1).2.1 (.b b) (fun l => l.delR tid) ∧
    (stepTh hash sh tid t 1).2.1 = { t with stk := [], pc := if t.pc = .upg then .relock else .eRelock } := by
  rcases hpc with hpc | hpc <;>
  · unfold stepTh
    rw [hpc]
    simp only [hs, Nat.succ_ne_zero, if_false]
    refine ⟨?_, by simp⟩
    lockeff

theorem relock_eff (hash : Nat → Nat) (sh : Sh) (tid : Tid) (t : Th) (alt : Nat)
    (hpc : t.pc = .relock ∨ t.pc = .eRelock) (hs : t.stk = []) (hfree : (sh.blk t.tgt).isFree = true) :
    LockEff sh t (stepTh hash sh tid t alt).1 (stepTh hash sh tid t alt).2.1 (.b t.tgt) (fun l => l.setW tid) ∧
    HW (stepTh hash sh tid t alt).2.1 (.b t.tgt) := by
  rcases hpc with hpc | hpc
  · unfold stepTh
    rw [hpc]
    simp only [hfree, if_true]
    split <;> (refine ⟨?_, by simp [HW]⟩; lockeff)
  · unfold stepTh
    rw [hpc]
    simp only [hfree, if_true]
    refine ⟨?_, by simp [HW]⟩
    lockeff

theorem dng_eff (hash : Nat → Nat) (sh : Sh) (tid : Tid) (t : Th) (alt : Nat) (b : Nat) (w0 : Bool)
    (hpc : t.pc = .dng) (hs : t.stk = [(b, w0)]) :
    LockEff sh t (stepTh hash sh tid t alt).1 (stepTh hash sh tid t alt).2.1 (.b b) (fun _ => { w := none, r := [tid] }) ∧
    HR (stepTh hash sh tid t alt).2.1 (.b b) := by
  unfold stepTh
  rw [hpc]
  simp only [hs]
  split <;> (refine ⟨?_, by simp [HR]⟩; lockeff)

theorem relB_eff (hash : Nat → Nat) (sh : Sh) (tid : Tid) (t : Th) (alt : Nat) (a : After) (b : Nat) (w : Bool)
    (hpc : t.pc = .relB a) (hs : t.stk = [(b, w)]) :
    LockEff sh t (stepTh hash sh tid t alt).1 (stepTh hash sh tid t alt).2.1 (.b b) (fun l => if w = true then l.clrW else l.delR tid) := by
  unfold stepTh
  rw [hpc]
  simp only [hs]
  cases w <;> cases a <;> simp only [] <;> (repeat' split) <;> lockeff

/-! ### element lock pcs -/

theorem elemTry_ok_eff (hash : Nat → Nat) (sh : Sh) (tid : Tid) (t : Th) (n : Node) (b : Nat) (w : Bool)
    (hpc : t.pc = .elemTry) (hn : t.n = some n) (hs : t.stk = [(b, w)]) (hacc0 : t.acc = none)
    (hen : if t.op.acc = 2 then (sh.elk n).isFree = true else (sh.elk n).canRead = true) :
    LockEff sh t (stepTh hash sh tid t 0).1 (stepTh hash sh tid t 0).2.1 (.e n)
      (fun l => if t.op.acc = 2 then l.setW tid else l.addR tid) ∧
    (if t.op.acc = 2 then HW (stepTh hash sh tid t 0).2.1 (.e n) else HR (stepTh hash sh tid t 0).2.1 (.e n)) := by
  unfold stepTh
  rw [hpc]
  simp only [hn, hs, if_true]
  by_cases hacc : t.op.acc = 2
  · simp only [hacc, if_true, decide_true] at hen ⊢
    simp only [hen, if_true]
    refine ⟨?_, by simp [HW]⟩
    split <;> lockeff
  · simp only [hacc, if_false, decide_false] at hen ⊢
    simp only [hen, if_true]
    refine ⟨?_, by simp [HR]⟩
    split <;> lockeff

theorem elemTry_giveup_eff (hash : Nat → Nat) (sh : Sh) (tid : Tid) (t : Th) (n : Node) (b : Nat) (w : Bool)
    (hpc : t.pc = .elemTry) (hn : t.n = some n) (hs : t.stk = [(b, w)]) (hfresh : (t.ret && t.op.k == .ins) = false) :
    LockEff sh t (stepTh hash sh tid t 1).1 (stepTh hash sh tid t 1).2.1 (.b b) (fun l => if w = true then l.clrW else l.delR tid) := by
  unfold stepTh
  rw [hpc]
  simp only [hn, hs, Nat.succ_ne_zero, if_false, hfresh, Bool.false_eq_true]
  cases w <;> lockeff

theorem eLock_eff (hash : Nat → Nat) (sh : Sh) (tid : Tid) (t : Th) (alt : Nat) (n : Node)
    (hpc : t.pc = .eLock) (hn : t.n = some n) (hacc : t.acc = none) (hfree : (sh.elk n).isFree = true) :
    LockEff sh t (stepTh hash sh tid t alt).1 (stepTh hash sh tid t alt).2.1 (.e n) (fun l => l.setW tid) ∧
    HW (stepTh hash sh tid t alt).2.1 (.e n) := by
  unfold stepTh
  rw [hpc]
  simp only [hn, hfree, if_true]
  refine ⟨?_, by simp [HW, hacc, hn]⟩
  lockeff

theorem eRel_eff (hash : Nat → Nat) (sh : Sh) (tid : Tid) (t : Th) (alt : Nat) (n : Node)
    (hpc : t.pc = .eRel) (hn : t.n = some n) (hacc : t.acc = none ∨ t.acc = some (n, true)) :
    LockEff sh t (stepTh hash sh tid t alt).1 (stepTh hash sh tid t alt).2.1 (.e n) (fun l => l.clrW) := by
  unfold stepTh
  rw [hpc]
  simp only [hn]
  rcases hacc with hacc | hacc <;> (split <;> lockeff)

theorem xUpg_inplace_eff (hash : Nat → Nat) (sh : Sh) (tid : Tid) (t : Th) (n : Node)
    (hpc : t.pc = .xUpg) (hn : t.n = some n) (hacc : t.acc = some (n, false)) (hsole : (sh.elk n).soleReader tid = true) :
    LockEff sh t (stepTh hash sh tid t 0).1 (stepTh hash sh tid t 0).2.1 (.e n) (fun l => l.setW tid) ∧
    HW (stepTh hash sh tid t 0).2.1 (.e n) := by
  unfold stepTh
  rw [hpc]
  simp only [hn, hsole, if_true]
  refine ⟨?_, by simp [HW]⟩
  lockeff

theorem xUpg_release_eff (hash : Nat → Nat) (sh : Sh) (tid : Tid) (t : Th) (n : Node)
    (hpc : t.pc = .xUpg) (hn : t.n = some n) (hacc : t.acc = some (n, false)) :
    LockEff sh t (stepTh hash sh tid t 1).1 (stepTh hash sh tid t 1).2.1 (.e n) (fun l => l.delR tid) ∧
    (stepTh hash sh tid t 1).2.1 = { t with acc := none, pc := .xRelock } := by
  unfold stepTh
  rw [hpc]
  simp only [hn, Nat.succ_ne_zero, if_false]
  refine ⟨?_, by simp⟩
  lockeff

theorem xRelock_eff (hash : Nat → Nat) (sh : Sh) (tid : Tid) (t : Th) (alt : Nat) (n : Node)
    (hpc : t.pc = .xRelock) (hn : t.n = some n) (hacc : t.acc = none) (hfree : (sh.elk n).isFree = true) :
    LockEff sh t (stepTh hash sh tid t alt).1 (stepTh hash sh tid t alt).2.1 (.e n) (fun l => l.setW tid) ∧
    HW (stepTh hash sh tid t alt).2.1 (.e n) := by
  unfold stepTh
  rw [hpc]
  simp only [hn, hfree, if_true]
  refine ⟨?_, by simp [HW]⟩
  lockeff

theorem xRelAcc_eff (hash : Nat → Nat) (sh : Sh) (tid : Tid) (t : Th) (alt : Nat) (n : Node) (w : Bool)
    (hpc : t.pc = .xRelAcc) (hacc : t.acc = some (n, w)) :
    LockEff sh t (stepTh hash sh tid t alt).1 (stepTh hash sh tid t alt).2.1 (.e n) (fun l => if w = true then l.clrW else l.delR tid) := by
  unfold stepTh
  rw [hpc]
  simp only [hacc]
  cases w <;> simp only [if_true, Bool.false_eq_true, if_false] <;> lockeff

theorem release_eff (hash : Nat → Nat) (sh : Sh) (tid : Tid) (t : Th) (alt : Nat) (o : Op) (rest : List Op) (n : Node) (w : Bool)
    (hpc : t.pc = .idle) (hops : t.ops = o :: rest) (hk : o.k = .release) (hacc : t.acc = some (n, w)) (hs : t.stk = []) :
    LockEff sh t (stepTh hash sh tid t alt).1 (stepTh hash sh tid t alt).2.1 (.e n) (fun l => if w = true then l.clrW else l.delR tid) := by
  unfold stepTh
  rw [hpc]
  simp only [hops, hk, hacc]
  cases w <;> simp only [if_true, Bool.false_eq_true, if_false] <;> lockeff

/-! ### where the slow path of `upgrade()` re-acquires -/

theorem afterAcq_not_relock (hash : Nat → Nat) (sh : Sh) (tid : Tid) (t : Th) (h : relockPc t.pc = false) :
    relockPc (afterAcq hash sh tid t).2.pc = false := by
  unfold afterAcq
  split
  · exact h
  · dsimp only
    split
    · rfl
    · split <;> first | rfl | exact h
  · dsimp only
    cases hk : t.op.k <;> simp only [] <;> (repeat' split) <;> first | rfl | exact h

theorem afterAcq_not_relock' (hash : Nat → Nat) (sh : Sh) (tid : Tid) (t : Th) (h : t.stk ≠ []) :
    relockPc (afterAcq hash sh tid t).2.pc = false := by
  unfold afterAcq
  split
  · rename_i hs; exact absurd hs h
  · dsimp only
    split
    · rfl
    · split <;> rfl
  · dsimp only
    cases hk : t.op.k <;> simp only [] <;> (repeat' split) <;> rfl

theorem chkPass_not_relock (sh : Sh) (tid : Tid) (u : Th) (h : relockPc u.pc = false) : relockPc (chkPass sh tid u).2.pc = false := by
  unfold chkPass
  cases hk : u.op.k <;> simp only [] <;> (repeat' split) <;> first | rfl | exact h

theorem afterLink_not_relock (t : Th) : relockPc (afterLink t).pc = false := by
  unfold afterLink afterNode
  split <;> rfl

/-- the pcs of the re-acquisition are entered only by the release inside `upgrade()` (alternative ≠ 0 of an upgrade pc) -/
theorem relock_entry (hash : Nat → Nat) (sh : Sh) (tid : Tid) (t : Th) (alt : Nat)
    (h : relockPc (stepTh hash sh tid t alt).2.1.pc = true) : relockPc t.pc = true ∨ (alt ≠ 0 ∧ upgPc t.pc = true) := by
  revert h
  cases hpc : t.pc <;> unfold stepTh <;> rw [hpc] <;> simp only
  case relock => intro _; exact Or.inl rfl
  case rhRelock => intro _; exact Or.inl rfl
  case eRelock => intro _; exact Or.inl rfl
  case xRelock => intro _; exact Or.inl rfl
  case upg => (repeat' split) <;> first | (intro _; exact Or.inr ⟨by assumption, rfl⟩) | (intro h; cases h; done) | (intro h; rw [hpc] at h; cases h)
  case eUpg => (repeat' split) <;> first | (intro _; exact Or.inr ⟨by assumption, rfl⟩) | (intro h; cases h; done) | (intro h; rw [hpc] at h; cases h)
  case xUpg => (repeat' split) <;> first | (intro _; exact Or.inr ⟨by assumption, rfl⟩) | (intro h; cases h; done) | (intro h; rw [hpc] at h; cases h)
  case rhUpg =>
    (repeat' split) <;> first
      | (intro h; rw [afterAcq_not_relock _ _ _ _ rfl] at h; cases h; done)
      | (intro _; exact Or.inr ⟨by assumption, rfl⟩)
      | (intro h; rw [hpc] at h; cases h)
  case lockTry =>
    (repeat' split) <;> first | (intro h; rw [afterAcq_not_relock _ _ _ _ (by simp [relockPc, hpc])] at h; cases h) | (intro h; cases h) | (intro h; rw [hpc] at h; cases h)
  case lockBlk =>
    (repeat' split) <;> first | (intro h; rw [afterAcq_not_relock _ _ _ _ (by simp [relockPc, hpc])] at h; cases h) | (intro h; cases h) | (intro h; rw [hpc] at h; cases h)
  case rhRel =>
    (repeat' split) <;> first | (intro h; rw [afterAcq_not_relock _ _ _ _ (by simp [relockPc, hpc])] at h; cases h) | (intro h; cases h) | (intro h; rw [hpc] at h; cases h)
  case chk1 =>
    (repeat' split) <;> first | (intro h; rw [chkPass_not_relock _ _ _ (by simp [relockPc, hpc])] at h; cases h) | (intro h; cases h) | (intro h; rw [hpc] at h; cases h)
  case chk2 =>
    (repeat' split) <;> first | (intro h; rw [chkPass_not_relock _ _ _ (by simp [relockPc, hpc])] at h; cases h) | (intro h; cases h) | (intro h; rw [hpc] at h; cases h)
  case link => (repeat' split) <;> first | (intro h; rw [afterLink_not_relock] at h; cases h) | (intro h; cases h) | (intro h; rw [hpc] at h; cases h)
  case elect1 => (repeat' split) <;> first | (intro h; rw [afterLink_not_relock] at h; cases h) | (intro h; cases h) | (intro h; rw [hpc] at h; cases h)
  case elect2 => (repeat' split) <;> first | (intro h; rw [afterLink_not_relock] at h; cases h) | (intro h; cases h) | (intro h; rw [hpc] at h; cases h)
  all_goals ((repeat' split) <;> first | (intro h; cases h) | (intro h; rw [hpc] at h; cases h) | (intro h; simp [Th.finish, Th.drop, doRdMask, relockPc, hpc] at h))

theorem not_relock_after (hash : Nat → Nat) (sh : Sh) (tid : Tid) (t : Th) (alt : Nat) (h1 : relockPc t.pc = false) (h2 : upgPc t.pc = false) :
    relockPc (stepTh hash sh tid t alt).2.1.pc = false := by
  cases h : relockPc (stepTh hash sh tid t alt).2.1.pc with
  | false => rfl
  | true =>
    rcases relock_entry hash sh tid t alt h with h' | ⟨_, h'⟩
    · rw [h1] at h'; cases h'
    · rw [h2] at h'; cases h'

theorem not_relock_after0 (hash : Nat → Nat) (sh : Sh) (tid : Tid) (t : Th) (h1 : relockPc t.pc = false) :
    relockPc (stepTh hash sh tid t 0).2.1.pc = false := by
  cases h : relockPc (stepTh hash sh tid t 0).2.1.pc with
  | false => rfl
  | true =>
    rcases relock_entry hash sh tid t 0 h with h' | ⟨h', _⟩
    · rw [h1] at h'; cases h'
    · exact absurd rfl h'

/-- at a re-acquisition pc a step either leaves the pc or changes nothing in the thread -/
theorem relock_stay (hash : Nat → Nat) (sh : Sh) (tid : Tid) (t : Th) (alt : Nat) (h1 : relockPc t.pc = true)
    (h2 : relockPc (stepTh hash sh tid t alt).2.1.pc = true) : (stepTh hash sh tid t alt).2.1 = t := by
  revert h2
  cases hpc : t.pc <;> simp only [relockPc, hpc] at h1 <;> unfold stepTh <;> rw [hpc] <;> simp only
  case relock => (repeat' split) <;> first | (intro h; cases h; done) | (intro _; rfl)
  case eRelock => (repeat' split) <;> first | (intro h; cases h; done) | (intro _; rfl)
  case rhRelock =>
    (repeat' split) <;> first | (intro h; rw [afterAcq_not_relock' _ _ _ _ (by simp)] at h; cases h; done) | (intro _; rfl)
  case xRelock => (repeat' split) <;> first | (intro h; cases h; done) | (intro _; rfl)
  all_goals (simp at h1)

/-! ### steps that are not lock operations -/

@[simp] theorem afterLink_stk (t : Th) : (afterLink t).stk = t.stk := by unfold afterLink afterNode; split <;> rfl
@[simp] theorem afterLink_acc (t : Th) : (afterLink t).acc = t.acc := by unfold afterLink afterNode; split <;> rfl
@[simp] theorem afterLink_pc_ne (t : Th) : ((afterLink t).pc = .eRel) = False := by
  unfold afterLink afterNode; split <;> simp

theorem chkPass_noeff (sh : Sh) (tid : Tid) (u : Th) (hpc : u.pc ≠ .eRel) : NoEff sh u (chkPass sh tid u).1 (chkPass sh tid u).2 := by
  unfold chkPass
  cases hk : u.op.k <;> simp only [] <;> (repeat' split) <;> noeff

theorem noeff_trans {sh sh1 sh2 : Sh} {t t1 t2 : Th} (h1 : NoEff sh t sh1 t1) (h2 : NoEff sh1 t1 sh2 t2) : NoEff sh t sh2 t2 :=
  ⟨fun L => by rw [h2.lock, h1.lock], fun L h => h2.hw L (h1.hw L h), fun L h => h2.hr L (h1.hr L h)⟩

theorem nolock_noeff (hash : Nat → Nat) (sh : Sh) (tid : Tid) (t : Th) (alt : Nat) (hnl : isLockPc t = false)
    (hs : t.pc = .idle ∨ t.pc = .rdMask ∨ t.pc = .pubMask ∨ t.pc = .free → t.stk = []) :
    NoEff sh t (stepTh hash sh tid t alt).1 (stepTh hash sh tid t alt).2.1 := by
  cases hpc : t.pc <;> simp only [isLockPc, hpc] at hnl <;> unfold stepTh <;> rw [hpc] <;> simp only
  case idle =>
    have hs0 := hs (Or.inl hpc)
    cases hops : t.ops with
    | nil => simp only; noeff
    | cons o rest =>
      rw [hops] at hnl
      simp only at hnl ⊢
      cases hk : o.k <;> simp only [] <;> (repeat' split) <;> (first | noeff | (simp_all; done))
  case rdMask => have hs0 := hs (Or.inr (Or.inl hpc)); noeff
  case pubMask => have hs0 := hs (Or.inr (Or.inr (Or.inl hpc))); noeff
  case free => have hs0 := hs (Or.inr (Or.inr (Or.inr hpc))); (repeat' split) <;> noeff
  case chk1 =>
    (repeat' split) <;>
      first
      | exact chkPass_noeff _ _ _ (by simp [hpc])
      | (refine noeff_trans (t1 := _) ?_ (chkPass_noeff _ _ _ (by simp [hpc])); noeff)
      | noeff
  case chk2 =>
    (repeat' split) <;> first | exact chkPass_noeff _ _ _ (by simp [hpc]) | noeff
  all_goals ((repeat' split) <;> noeff)

end TbbVerif.C10R
