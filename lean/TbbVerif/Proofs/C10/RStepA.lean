/- C10 (refined model): `Coupled` is preserved by the call of a lock operation and by the `HMap` steps that are not
lock operations. -/
import TbbVerif.Proofs.C10.RIssue

namespace TbbVerif.C10R

open TbbVerif.C10

theorem curOK_lag {t : Th} {r r' : RTh} {L : LId} {op : C08.Op} {th : C08.Th} (hl : r'.lag = r.lag) (h : CurOK t r L op th) :
    CurOK t r' L op th := by
  cases op <;> simp only [CurOK, hl] at h ⊢ <;> exact h

theorem issue_coupled {hash : Nat → Nat} {s : RSt} (hC : Coupled hash s) {tid : Tid} {t : Th} {r : RTh} {alt : Nat} {L : LId} {op : C08.Op}
    (ht : s.a.ths[tid]? = some t) (hr : s.rt[tid]? = some r) (hcur : r.cur = none) (hreq : request t r alt = some (L, op))
    (s' : RSt) (ha : s'.a = s.a) (hrt : s'.rt = s.rt.set tid { r with cur := some L })
    (hgl : ∀ L', getL s' L' = if L' = L then issue (getL s L) tid op else getL s L') : Coupled hash s' := by
  obtain ⟨th, hs⟩ := slot_of hC ht L
  have hT := hC.th tid t r ht hr
  have hops : th.ops = [] := hT.other L th (by rw [hcur]; simp) hs
  obtain ⟨hpre, hcok⟩ := request_ok hC ht hreq hs hops
  have hs' : (getL s L).ths[tid]? = some th := hs
  have hslot : ∀ L' j, slot s' L' j =
      if L' = L ∧ j = tid then some { th with ops := [op], results := [] } else slot s L' j := by
    intro L' j
    unfold slot
    rw [hgl L']
    by_cases hL : L' = L
    · subst hL
      by_cases hj : j = tid
      · subst hj; simp only [if_true, and_self]; exact issue_slot_self _ _ _ _ hs'
      · simp only [if_true, hj, and_false, if_false]; exact issue_slot_other _ _ _ _ hj
    · simp [hL]
  refine ⟨by rw [ha]; exact hC.abs, by rw [ha]; exact hC.es, by rw [hrt, ha]; simp [hC.rtlen], ?_, ?_, ?_, ?_, ?_, ?_⟩
  · intro L'
    rw [hgl L', ha]
    split
    · rename_i h; subst h; exact issue_ok op (hC.lk _) hs' hops
    · exact hC.lk L'
  · intro L' i x hx
    rw [hslot] at hx
    rw [ha]
    split at hx
    · rename_i h
      obtain ⟨rfl, rfl⟩ := h
      cases hx
      exact hC.spec _ _ th hs
    · exact hC.spec L' i x hx
  · intro L'; rw [ha]; exact hC.specN L'
  · intro L' j tj x hj hx
    rw [hslot] at hx
    rw [ha] at hj
    split at hx
    · rename_i h
      obtain ⟨rfl, rfl⟩ := h
      cases hx
      exact hC.ph _ _ tj th hj hs
    · exact hC.ph L' j tj x hj hx
  · intro b hf
    rw [ha] at hf
    obtain ⟨h1, h2⟩ := hC.flag b hf
    constructor
    · intro i x hx
      have hx' : slot s' (.b b) i = some x := hx
      rw [hslot] at hx'
      split at hx'
      · rename_i h
        obtain ⟨hL, rfl⟩ := h
        cases hx'
        have := h1 i th (by have := hs; rw [← hL] at this; exact this)
        exact this
      · exact h1 i x hx'
    · intro hw
      rw [ha] at hw
      have : (getL s' (.b b)).word = (s.bw b).word := by
        rw [hgl]
        split
        · rename_i h; rw [issue_word, ← h]; rfl
        · rfl
      show (getL s' (.b b)).word = {}
      rw [this]; exact h2 hw
  · intro j tj rj hj hrj
    rw [ha] at hj
    by_cases hjt : j = tid
    · subst hjt
      rw [ht] at hj; cases hj
      rw [hrt, List.getElem?_set_self (lt_of_get hr)] at hrj
      cases hrj
      refine ⟨(fun _ h => by cases h), ?_, ?_, hT.lagpc, ?_⟩
      · intro L' x hc hx
        rw [hslot] at hx
        have hne : L' ≠ L := fun h => hc (by rw [h])
        simp only [hne, false_and, if_false] at hx
        exact hT.other L' x (by rw [hcur]; simp) hx
      · intro L' hc
        simp only [Option.some.injEq] at hc
        subst hc
        refine ⟨{ th with ops := [op], results := [] }, op, by rw [hslot]; simp, rfl, ?_, curOK_lag rfl (hcok _ rfl)⟩
        intro o rest ho _
        simp only [List.cons.injEq] at ho
        rw [← ho.1]; exact hpre
      · intro hl hf; rw [ha] at hf ⊢; exact hT.lagK hl hf
    · rw [hrt, List.getElem?_set_ne (Ne.symm hjt)] at hrj
      have hTj := hC.th j tj rj hj hrj
      refine ⟨hTj.inop, ?_, ?_, hTj.lagpc, fun hl hf => by rw [ha] at hf ⊢; exact hTj.lagK hl hf⟩
      · intro L' x hc hx
        rw [hslot] at hx
        simp only [hjt, and_false, if_false] at hx
        exact hTj.other L' x hc hx
      · intro L' hc
        obtain ⟨x, o, h1, h2⟩ := hTj.cur L' hc
        exact ⟨x, o, by rw [hslot]; simp only [hjt, and_false, if_false]; exact h1, h2⟩

theorem isLockPc_lockTry {t : Th} (h : t.pc = .lockTry) : isLockPc t = true := by simp [isLockPc, h]

theorem nolock_coupled {hash : Nat → Nat} {s : RSt} (hC : Coupled hash s) {tid : Tid} {t : Th} {r : RTh}
    (ht : s.a.ths[tid]? = some t) (hr : s.rt[tid]? = some r) (hcur : r.cur = none) (hnl : isLockPc t = false)
    (s' : RSt) (ha : s'.a = step hash s.a { tid := tid, alt := 0 }) (hrt : s'.rt = s.rt) (hgl : ∀ L', getL s' L' = getL s L') :
    Coupled hash s' := by
  have hT := hC.abs.i1.th tid t ht
  obtain ⟨hself, hsh⟩ := step_self hash s.a tid 0 t ht
  have hstk : t.pc = .idle ∨ t.pc = .rdMask ∨ t.pc = .pubMask ∨ t.pc = .free → t.stk = [] := by
    intro h
    have hc := hT.c
    rcases h with h | h | h | h <;> rw [h] at hc <;> simpa [CAt] using hc
  have hne := nolock_noeff hash s.a.sh tid t 0 hnl hstk
  rw [← hsh] at hne
  have hAI := absInv_step hash s.a { tid := tid, alt := 0 } ⟨hC.abs, hC.es⟩
  have hslot : ∀ L' j, slot s' L' j = slot s L' j := by intro L' j; unfold slot; rw [hgl]
  have hlag : r.lag = false := by
    cases hl : r.lag with
    | false => rfl
    | true =>
      have := isLockPc_lockTry ((hC.th tid t r ht hr).lagpc hl)
      rw [this] at hnl; cases hnl
  have hlen : s'.a.ths.length = s.a.ths.length := by rw [ha, step_len']
  refine ⟨by rw [ha]; exact hAI.all, by rw [ha]; exact hAI.es, by rw [hrt, hlen]; exact hC.rtlen, ?_, ?_, ?_, ?_, ?_, ?_⟩
  · intro L'; rw [hgl, hlen]; exact hC.lk L'
  · intro L' i x hx
    rw [hslot] at hx
    rw [ha, hne.lock]
    exact hC.spec L' i x hx
  · intro L'; rw [hlen, ha, hne.lock]; exact hC.specN L'
  · intro L' j tj x hj hx
    rw [hslot] at hx
    rw [ha] at hj
    by_cases hjt : j = tid
    · subst hjt
      rw [hself] at hj; cases hj
      have := hC.ph L' j t x ht hx
      exact ⟨fun h => hne.hw L' (this.1 h), fun h => hne.hr L' (this.2 h)⟩
    · rw [step_other hash s.a _ j hjt] at hj
      exact hC.ph L' j tj x hj hx
  · intro b hf
    rw [ha] at hf
    have hf0 := flag_mono hash s.a _ hC.abs b hf
    obtain ⟨h1, h2⟩ := hC.flag b hf0
    have hb := hne.lock (.b b)
    simp only [lockOf] at hb
    have hg : s'.bw b = s.bw b := hgl (.b b)
    rw [hg, ha, hb]
    exact ⟨h1, h2⟩
  · intro j tj rj hj hrj
    rw [ha] at hj
    rw [hrt] at hrj
    by_cases hjt : j = tid
    · subst hjt
      rw [hself] at hj; cases hj
      rw [hr] at hrj; cases hrj
      refine ⟨?_, ?_, ?_, ?_, ?_⟩
      · intro hrl
        have hrl0 : relockPc t.pc = false := by
          cases h : relockPc t.pc with
          | false => rfl
          | true =>
            have : isLockPc t = true := by
              cases hpc : t.pc <;> simp [relockPc, hpc] at h <;> simp [isLockPc, hpc]
            rw [this] at hnl; cases hnl
        have hup0 : upgPc t.pc = false := by
          cases h : upgPc t.pc with
          | false => rfl
          | true =>
            have : isLockPc t = true := by
              cases hpc : t.pc <;> simp [upgPc, hpc] at h <;> simp [isLockPc, hpc]
            rw [this] at hnl; cases hnl
        rw [not_relock_after hash s.a.sh j t 0 hrl0 hup0] at hrl; cases hrl
      · intro L' x hc hx
        rw [hslot] at hx
        exact (hC.th j t r ht hr).other L' x hc hx
      · intro L' hc; rw [hcur] at hc; cases hc
      · intro hl; rw [hlag] at hl; cases hl
      · intro hl; rw [hlag] at hl; cases hl
    · rw [step_other hash s.a _ j hjt] at hj
      have hTj := hC.th j tj rj hj hrj
      refine ⟨hTj.inop, ?_, ?_, hTj.lagpc, ?_⟩
      · intro L' x hc hx; rw [hslot] at hx; exact hTj.other L' x hc hx
      · intro L' hc
        obtain ⟨x, o, h1, h2⟩ := hTj.cur L' hc
        exact ⟨x, o, by rw [hslot]; exact h1, h2⟩
      · intro hl hf
        rw [ha] at hf ⊢
        obtain ⟨A, hA⟩ := hTj.lagK hl (flag_mono hash s.a _ hC.abs _ hf)
        have hb := hne.lock (.b tj.tgt)
        simp only [lockOf] at hb
        exact ⟨A, by rw [hb]; exact hA⟩

end TbbVerif.C10R
