/- C10: `afterAcq` (the code that runs under a freshly acquired bucket lock) preserves the invariant. -/
import TbbVerif.Proofs.C10.Rehash

namespace TbbVerif.C10

/-- what `afterAcq` leaves untouched in the thread-local state -/
structure SameLocal (t t2 : Th) : Prop where
  stk : t2.stk = t.stk
  ops : t2.ops = t.ops
  h : t2.h = t.h
  m : t2.m = t.m
  grow : t2.grow = t.grow
  rs : t2.rs = t.rs

/-- conclusion shared by the two cases of `afterAcq` -/
structure AcqOK (hash : Nat → Nat) (sh : Sh) (tid : Tid) (t : Th) (sh2 : Sh) (t2 : Th) : Prop where
  shinv : ShInv hash sh2
  c : CAt sh2 tid t2 t2.pc
  blk : sh2.blk = sh.blk
  lvl : sh2.lvl = sh.lvl
  seg : sh2.seg = sh.seg
  bktF : BktFrame sh.bkt sh2.bkt sh.blk tid
  loc : SameLocal t t2
  pc : t2.pc ≠ .alloc ∧ t2.pc ≠ .pubMask

theorem b0_cons (t : Th) {b : Nat} {w : Bool} {rest : List (Nat × Bool)} (h : t.stk = (b, w) :: rest) : t.b0 = b ∧ t.w0 = w := by
  simp [Th.b0, Th.w0, h]

theorem b1_cons (t : Th) {b c : Nat} {w wc : Bool} {rest : List (Nat × Bool)} (h : t.stk = (b, w) :: (c, wc) :: rest) : t.b1 = c := by
  simp [Th.b1, h]

theorem afterAcq_rehash_eq (hash : Nat → Nat) (sh : Sh) (tid : Tid) (t : Th) {b c : Nat} {w wc : Bool} {r : List (Nat × Bool)}
    (hs : t.stk = (b, w) :: (c, wc) :: r) :
    afterAcq hash sh tid t =
      (if ((sh.chainOf b).filter (fun n => movesTo c (hash n.key))).isEmpty then (sh.setB c (.chain []), { t with pc := .rhRel })
       else if w then
        ((sh.setB b (.chain ((sh.chainOf b).filter (fun n => !movesTo c (hash n.key))))).setB c
          (.chain ((sh.chainOf b).filter (fun n => movesTo c (hash n.key))).reverse), { t with pc := .rhRel })
       else (sh, { t with pc := .rhUpg })) := by
  unfold afterAcq
  split
  · rename_i heq; rw [hs] at heq; cases heq
  · rename_i heq; rw [hs] at heq
    simp only [List.cons.injEq, Prod.mk.injEq] at heq
    obtain ⟨⟨rfl, rfl⟩, ⟨rfl, rfl⟩, rfl⟩ := heq
    rfl
  · rename_i heq; rw [hs] at heq; simp at heq

/-- `afterAcq` when a pending child `c` hangs below the acquired bucket `b = parentOf c`: the move of rehash_bucket. -/
theorem afterAcq_rehash {hash : Nat → Nat} {sh : Sh} {tid : Tid} {t : Th} {b c : Nat} {w wc : Bool} {r : List (Nat × Bool)}
    (hS : ShInv hash sh) (hs : t.stk = (b, w) :: (c, wc) :: r)
    (hheld : ∀ f ∈ t.stk, HoldsB sh tid f) (hch : (sh.bkt b).isChain = true)
    (hbc : b = parentOf c) (hr : RhStack sh tid t.h t.m ((c, wc) :: r)) (hm : t.m ≤ sh.lvl) :
    AcqOK hash sh tid t (afterAcq hash sh tid t).1 (afterAcq hash sh tid t).2 := by
  obtain ⟨hwc, hpend, hc2, hlink, hrest⟩ := hr
  subst hwc
  have hbounds := rhStack_bounds r c hlink hrest
  have hclt : c < 2 ^ sh.lvl := by
    have h1 := pb_lt t.h t.m
    have h2 : 2 ^ t.m ≤ 2 ^ sh.lvl := Nat.pow_le_pow_right (by omega) hm
    omega
  have hblt : b < c := by rw [hbc]; exact parentOf_lt (by omega)
  have hnc : (sh.bkt c).isChain = false := by rw [hpend]; rfl
  have hcW : (sh.blk c).w = some tid := by
    have := hheld (c, true) (by rw [hs]; simp)
    simpa [HoldsB] using this
  have hbheld : HoldsB sh tid (b, w) := hheld (b, w) (by rw [hs]; simp)
  have hsrc : sh.bkt b = .chain (sh.chainOf b) := chain_eq_of_isChain hch
  -- frames below `c` are untouched by updates of `b` and `c`
  have hrest' : ∀ sh2 : Sh, (∀ x, x ≠ b → x ≠ c → sh2.bkt x = sh.bkt x) → RhStack sh2 tid t.h t.m r := by
    intro sh2 ho
    apply rhStack_congr r _ hrest
    intro f hf
    have := hbounds.2 f hf
    exact ho f.1 (by omega) (by omega)
  rw [afterAcq_rehash_eq hash sh tid t hs]
  split
  · -- nothing to move: the child becomes an empty chain
    rename_i hmv
    have hmv' : ∀ n ∈ sh.chainOf b, movesTo c (hash n.key) = false := by
      intro n hn
      have := List.filter_eq_nil_iff.1 (List.isEmpty_iff.1 hmv) n hn
      simpa using this
    have hother : ∀ x, x ≠ b → x ≠ c → (sh.setB c (.chain [])).bkt x = sh.bkt x := by
      intro x _ hxc; simp [hxc]
    refine ⟨?_, ?_, rfl, rfl, rfl, ?_, ⟨rfl, rfl, rfl, rfl, rfl, rfl⟩, ⟨by simp, by simp⟩⟩
    · show ShInv hash (sh.setB c (.chain []))
      apply shinv_split (sh2 := sh.setB c (.chain [])) (b := b) (c := c) (stay := sh.chainOf b) (mv := []) hS hc2 hbc hclt hch hnc rfl rfl rfl
      · simp [show b ≠ c by omega]; exact hsrc
      · simp
      · exact hother
      · intro n; exact ⟨fun h => ⟨h, hmv' n h⟩, fun h => h.1⟩
      · intro n; constructor
        · intro h; cases h
        · intro h; have := hmv' n h.1; rw [this] at h; cases h.2
      · exact hS.nodup b
      · simp
    · simp only [CAt]
      have e0 := b0_cons (t := { t with pc := Pc.rhRel }) (b := b) (w := w) (rest := (c, true) :: r) hs
      have e1 := b1_cons (t := { t with pc := Pc.rhRel }) (b := b) (w := w) (c := c) (wc := true) (rest := r) hs
      rw [e0.1, e0.2, e1]
      simp only [hs, List.drop_succ_cons, List.drop_zero]
      refine ⟨trivial, ?_, by simp, hc2, hbc, hlink, hrest' _ hother⟩
      simp [show b ≠ c by omega]; exact hch
    · refine ⟨?_, ?_, ?_, ?_⟩
      · intro x hx
        by_cases hxc : x = c
        · rw [hxc]; exact hcW
        · simp [hxc] at hx
      · intro x hx; by_cases hxc : x = c <;> simp [hxc]; exact hx
      · intro x hx; by_cases hxc : x = c <;> simp [hxc]; exact hx
      · intro x h1 h2
        by_cases hxc : x = c
        · subst hxc
          refine ⟨by omega, ?_, ?_⟩
          · rw [← hbc]; simp [show b ≠ x by omega]; exact hch
          · rw [← hbc]
            unfold HoldsB at hbheld
            cases w <;> simp_all
        · simp [hxc] at h2; rw [h1] at h2; cases h2
  · rename_i hmv
    split
    · -- move under the writer lock
      rename_i hw
      subst hw
      have hbW : (sh.blk b).w = some tid := by simpa [HoldsB] using hbheld
      have hother : ∀ x, x ≠ b → x ≠ c →
          ((sh.setB b (.chain ((sh.chainOf b).filter (fun n => !movesTo c (hash n.key))))).setB c
            (.chain ((sh.chainOf b).filter (fun n => movesTo c (hash n.key))).reverse)).bkt x = sh.bkt x := by
        intro x hxb hxc; simp [hxb, hxc]
      refine ⟨?_, ?_, rfl, rfl, rfl, ?_, ⟨rfl, rfl, rfl, rfl, rfl, rfl⟩, ⟨by simp, by simp⟩⟩
      · show ShInv hash ((sh.setB b (.chain ((sh.chainOf b).filter (fun n => !movesTo c (hash n.key))))).setB c
            (.chain ((sh.chainOf b).filter (fun n => movesTo c (hash n.key))).reverse))
        apply shinv_split (sh2 := (sh.setB b (.chain ((sh.chainOf b).filter (fun n => !movesTo c (hash n.key))))).setB c
            (.chain ((sh.chainOf b).filter (fun n => movesTo c (hash n.key))).reverse))
          (b := b) (c := c) (stay := (sh.chainOf b).filter (fun n => !movesTo c (hash n.key)))
          (mv := ((sh.chainOf b).filter (fun n => movesTo c (hash n.key))).reverse) hS hc2 hbc hclt hch hnc rfl rfl rfl
        · simp [show b ≠ c by omega]
        · simp
        · exact hother
        · intro n; simp [List.mem_filter]
        · intro n; simp [List.mem_filter]
        · exact nodup_keys_filter _ (hS.nodup b)
        · exact nodup_keys_reverse (nodup_keys_filter _ (hS.nodup b))
      · simp only [CAt]
        have e0 := b0_cons (t := { t with pc := Pc.rhRel }) (b := b) (w := true) (rest := (c, true) :: r) hs
        have e1 := b1_cons (t := { t with pc := Pc.rhRel }) (b := b) (w := true) (c := c) (wc := true) (rest := r) hs
        rw [e0.1, e0.2, e1]
        simp only [hs, List.drop_succ_cons, List.drop_zero]
        exact ⟨trivial, by simp [show b ≠ c by omega], by simp, hc2, hbc, hlink, hrest' _ hother⟩
      · refine ⟨?_, ?_, ?_, ?_⟩
        · intro x hx
          by_cases hxc : x = c
          · rw [hxc]; exact hcW
          · by_cases hxb : x = b
            · rw [hxb]; exact hbW
            · simp [hxc, hxb] at hx
        · intro x hx
          by_cases hxc : x = c
          · simp [hxc]
          · by_cases hxb : x = b
            · simp [hxb, show b ≠ c by omega]
            · simp [hxc, hxb]; exact hx
        · intro x hx
          by_cases hxc : x = c
          · simp [hxc]
          · by_cases hxb : x = b
            · simp [hxb, show b ≠ c by omega]
            · simp [hxc, hxb]; exact hx
        · intro x h1 h2
          by_cases hxc : x = c
          · subst hxc
            refine ⟨by omega, ?_, Or.inl (by rw [← hbc]; exact hbW)⟩
            rw [← hbc]; simp [show b ≠ x by omega]
          · by_cases hxb : x = b
            · rw [hxb, hch] at h1; cases h1
            · simp [hxc, hxb] at h2; rw [h1] at h2; cases h2
    · -- reader lock: upgrade first
      rename_i hw
      have hw' : w = false := by cases w <;> simp_all
      subst hw'
      refine ⟨hS, ?_, rfl, rfl, rfl, BktFrame.refl _ _ _, ⟨rfl, rfl, rfl, rfl, rfl, rfl⟩, ⟨by simp, by simp⟩⟩
      simp only [CAt]
      have e0 := b0_cons (t := { t with pc := Pc.rhUpg }) (b := b) (w := false) (rest := (c, true) :: r) hs
      rw [e0.1]
      refine ⟨by simp [hs], by simp [hs], hch, by simpa [hs, LinkedTo] using hbc, ?_⟩
      simpa [hs, RhStack] using (⟨hpend, hc2, hlink, hrest⟩ : sh.bkt c = .pending tid ∧ 2 ≤ c ∧ LinkedTo t.h t.m c r ∧ RhStack sh tid t.h t.m r)

theorem afterAcq_top_eq (hash : Nat → Nat) (sh : Sh) (tid : Tid) (t : Th) {b : Nat} {w : Bool} (hs : t.stk = [(b, w)]) :
    afterAcq hash sh tid t =
      (match t.op.k with
      | .ins =>
          match findKey (sh.chainOf b) t.op.key with
          | some n =>
              if ({ t with n := some n, ret := false } : Th).op.acc = 0 then
                (sh.log (({ t with n := some n, ret := false } : Th).ev tid false (some n)), { t with n := some n, ret := false, pc := .relB .fin })
              else (sh, { t with n := some n, ret := false, pc := .elemTry })
          | none => if w then (sh, { t with pc := .chk1 }) else (sh, { t with pc := .upg })
      | .find =>
          match findKey (sh.chainOf b) t.op.key with
          | some n => (sh, { t with n := some n, ret := true, pc := .elemTry })
          | none => (sh, { t with pc := .chk1 })
      | .count =>
          match findKey (sh.chainOf b) t.op.key with
          | some n => (sh.log (t.ev tid true (some n)), { t with ret := true, pc := .relB .fin })
          | none => (sh, { t with pc := .chk1 })
      | .erase =>
          match findKey (sh.chainOf b) t.op.key with
          | some n => (sh, { t with n := some n, pc := if w then .unlink else .eUpg })
          | none => (sh, { t with pc := .chk1 })
      | .exclude =>
          match t.n with
          | some n => if n ∈ sh.chainOf b then (sh, { t with pc := .unlink }) else (sh, { t with pc := .chk1 })
          | none => (sh, { t with pc := .chk1 })
      | .release => (sh, { t with pc := .relB .fin })) := by
  unfold afterAcq
  split
  · rename_i heq; rw [hs] at heq; cases heq
  · rename_i heq; rw [hs] at heq; simp at heq
  · rename_i heq; rw [hs] at heq
    simp only [List.cons.injEq, Prod.mk.injEq, and_true] at heq
    obtain ⟨rfl, rfl⟩ := heq
    rfl

theorem notFound_of_key {sh : Sh} {t : Th} {b : Nat} (hk : t.op.k ≠ .exclude) (hf : findKey (sh.chainOf b) t.op.key = none) :
    NotFound sh t b := by
  unfold NotFound; rw [if_neg hk]; exact hf

theorem notFound_of_excl {sh : Sh} {t : Th} {b : Nat} (hk : t.op.k = .exclude) (h : ∀ n, t.n = some n → n ∉ sh.chainOf b) :
    NotFound sh t b := by
  unfold NotFound; rw [if_pos hk]; exact h

theorem opFrame_same {sh sh2 : Sh} {t t2 : Th} {b : Nat} (hb : sh2.bkt = sh.bkt) (hl : sh2.lvl = sh.lvl) (hh : t2.h = t.h)
    (h : OpFrame sh t b) : OpFrame sh2 t2 b := by
  obtain ⟨h1, l, h2, h3⟩ := h
  exact ⟨by rw [hb]; exact h1, l, by rw [hl]; exact h2, by rw [hh]; exact h3⟩

/-- `afterAcq` on the operation's own bucket: the search. -/
theorem afterAcq_top {hash : Nat → Nat} {sh : Sh} {tid : Tid} {t : Th} {b : Nat} {w : Bool}
    (hS : ShInv hash sh) (hs : t.stk = [(b, w)]) (hch : (sh.bkt b).isChain = true) (hb : b = pb t.h t.m) (hm : t.m ≤ sh.lvl)
    (hx : t.op.k = .exclude → w = true) (hrs : t.rs = false) :
    AcqOK hash sh tid t (afterAcq hash sh tid t).1 (afterAcq hash sh tid t).2 := by
  have hop : OpFrame sh t b := ⟨hch, t.m, hm, hb⟩
  have e0 : ∀ t2 : Th, t2.stk = t.stk → t2.b0 = b ∧ t2.w0 = w := fun t2 h2 => b0_cons t2 (h2.trans hs)
  -- the shape of every outcome: same stack, same shared buckets
  have mk : ∀ (sh2 : Sh) (t2 : Th), sh2.bkt = sh.bkt → sh2.blk = sh.blk → sh2.lvl = sh.lvl → sh2.seg = sh.seg → ShInv hash sh2 →
      SameLocal t t2 → t2.pc ≠ .alloc ∧ t2.pc ≠ .pubMask → CAt sh2 tid t2 t2.pc → AcqOK hash sh tid t sh2 t2 := by
    intro sh2 t2 hbk hbl hl hsg hS2 hloc hpc hc
    exact ⟨hS2, hc, hbl, hl, hsg, by rw [hbk]; exact BktFrame.refl _ _ _, hloc, hpc⟩
  have hSlog : ∀ e, ShInv hash (sh.log e) := fun e =>
    ⟨hS.lvl_pos, hS.emb, hS.top, hS.closed, hS.home, hS.nodup, hS.bwf, hS.pend, hS.seg_lo⟩
  rw [afterAcq_top_eq hash sh tid t hs]
  cases hk : t.op.k <;> simp only []
  · -- ins
    cases hf : findKey (sh.chainOf b) t.op.key with
    | some n =>
      simp only []
      obtain ⟨hn, hnk⟩ := findKey_some hf
      split
      · refine mk _ _ rfl rfl rfl rfl (hSlog _) ⟨rfl, rfl, rfl, rfl, rfl, rfl⟩ ⟨by simp, by simp⟩ ?_
        simp only [CAt]
        obtain ⟨e1, e2⟩ := e0 { t with n := some n, ret := false, pc := .relB .fin } rfl
        rw [e1, e2]
        exact ⟨hs, opFrame_same rfl rfl rfl hop⟩
      · refine mk _ _ rfl rfl rfl rfl hS ⟨rfl, rfl, rfl, rfl, rfl, rfl⟩ ⟨by simp, by simp⟩ ?_
        simp only [CAt]
        obtain ⟨e1, e2⟩ := e0 { t with n := some n, ret := false, pc := .elemTry } rfl
        rw [e1, e2]
        exact ⟨hs, opFrame_same rfl rfl rfl hop, n, rfl, hn, fun _ => hnk⟩
    | none =>
      simp only []
      split
      · rename_i hw; subst hw
        refine mk _ _ rfl rfl rfl rfl hS ⟨rfl, rfl, rfl, rfl, rfl, rfl⟩ ⟨by simp, by simp⟩ ?_
        simp only [CAt]
        obtain ⟨e1, e2⟩ := e0 { t with pc := .chk1 } rfl
        rw [e1, e2]
        refine ⟨hs, opFrame_same rfl rfl rfl hop, Or.inl hb, ?_, ?_, ?_⟩
        · intro _; rw [e1]; exact notFound_of_key (t := { t with pc := .chk1 }) (show t.op.k ≠ .exclude by rw [hk]; simp) hf
        · intro h; rw [hrs] at h; cases h
        · intro _; rw [e2]
      · rename_i hw
        have hw' : w = false := by cases w <;> simp_all
        subst hw'
        refine mk _ _ rfl rfl rfl rfl hS ⟨rfl, rfl, rfl, rfl, rfl, rfl⟩ ⟨by simp, by simp⟩ ?_
        simp only [CAt]
        obtain ⟨e1, e2⟩ := e0 { t with pc := .upg } rfl
        rw [e1]
        exact ⟨hs, opFrame_same rfl rfl rfl hop, hb, notFound_of_key (t := { t with pc := .upg }) (show t.op.k ≠ .exclude by rw [hk]; simp) hf, hk⟩
  · -- find
    cases hf : findKey (sh.chainOf b) t.op.key with
    | some n =>
      simp only []
      obtain ⟨hn, hnk⟩ := findKey_some hf
      refine mk _ _ rfl rfl rfl rfl hS ⟨rfl, rfl, rfl, rfl, rfl, rfl⟩ ⟨by simp, by simp⟩ ?_
      simp only [CAt]
      obtain ⟨e1, e2⟩ := e0 { t with n := some n, ret := true, pc := .elemTry } rfl
      rw [e1, e2]
      exact ⟨hs, opFrame_same rfl rfl rfl hop, n, rfl, hn, fun _ => hnk⟩
    | none =>
      simp only []
      refine mk _ _ rfl rfl rfl rfl hS ⟨rfl, rfl, rfl, rfl, rfl, rfl⟩ ⟨by simp, by simp⟩ ?_
      simp only [CAt]
      obtain ⟨e1, e2⟩ := e0 { t with pc := .chk1 } rfl
      rw [e1, e2]
      refine ⟨hs, opFrame_same rfl rfl rfl hop, Or.inl hb, ?_, ?_, ?_⟩
      · intro _; rw [e1]; exact notFound_of_key (t := { t with pc := .chk1 }) (show t.op.k ≠ .exclude by rw [hk]; simp) hf
      · intro h; rw [hrs] at h; cases h
      · intro h; have h' : t.op.k = .ins := h; rw [hk] at h'; cases h'
  · -- count
    cases hf : findKey (sh.chainOf b) t.op.key with
    | some n =>
      simp only []
      refine mk _ _ rfl rfl rfl rfl (hSlog _) ⟨rfl, rfl, rfl, rfl, rfl, rfl⟩ ⟨by simp, by simp⟩ ?_
      simp only [CAt]
      obtain ⟨e1, e2⟩ := e0 { t with ret := true, pc := .relB .fin } rfl
      rw [e1, e2]
      exact ⟨hs, opFrame_same rfl rfl rfl hop⟩
    | none =>
      simp only []
      refine mk _ _ rfl rfl rfl rfl hS ⟨rfl, rfl, rfl, rfl, rfl, rfl⟩ ⟨by simp, by simp⟩ ?_
      simp only [CAt]
      obtain ⟨e1, e2⟩ := e0 { t with pc := .chk1 } rfl
      rw [e1, e2]
      refine ⟨hs, opFrame_same rfl rfl rfl hop, Or.inl hb, ?_, ?_, ?_⟩
      · intro _; rw [e1]; exact notFound_of_key (t := { t with pc := .chk1 }) (show t.op.k ≠ .exclude by rw [hk]; simp) hf
      · intro h; rw [hrs] at h; cases h
      · intro h; have h' : t.op.k = .ins := h; rw [hk] at h'; cases h'
  · -- erase
    cases hf : findKey (sh.chainOf b) t.op.key with
    | some n =>
      simp only []
      obtain ⟨hn, hnk⟩ := findKey_some hf
      cases w with
      | true =>
        refine mk _ _ rfl rfl rfl rfl hS ⟨rfl, rfl, rfl, rfl, rfl, rfl⟩ ⟨by simp, by simp⟩ ?_
        simp only [CAt, if_true]
        obtain ⟨e1, e2⟩ := e0 { t with n := some n, pc := .unlink } rfl
        rw [e1]
        exact ⟨hs, opFrame_same rfl rfl rfl hop, n, rfl, hn, fun _ => hnk⟩
      | false =>
        refine mk _ _ rfl rfl rfl rfl hS ⟨rfl, rfl, rfl, rfl, rfl, rfl⟩ ⟨by simp, by simp⟩ ?_
        simp only [CAt, Bool.false_eq_true, if_false]
        obtain ⟨e1, e2⟩ := e0 { t with n := some n, pc := .eUpg } rfl
        rw [e1]
        exact ⟨hs, opFrame_same rfl rfl rfl hop, hb, ⟨n, rfl, hn, fun _ => hnk⟩, hk⟩
    | none =>
      simp only []
      refine mk _ _ rfl rfl rfl rfl hS ⟨rfl, rfl, rfl, rfl, rfl, rfl⟩ ⟨by simp, by simp⟩ ?_
      simp only [CAt]
      obtain ⟨e1, e2⟩ := e0 { t with pc := .chk1 } rfl
      rw [e1, e2]
      refine ⟨hs, opFrame_same rfl rfl rfl hop, Or.inl hb, ?_, ?_, ?_⟩
      · intro _; rw [e1]; exact notFound_of_key (t := { t with pc := .chk1 }) (show t.op.k ≠ .exclude by rw [hk]; simp) hf
      · intro h; rw [hrs] at h; cases h
      · intro h; have h' : t.op.k = .ins := h; rw [hk] at h'; cases h'
  · -- exclude
    have hw : w = true := hx hk
    subst hw
    have hchk : AcqOK hash sh tid t sh { t with pc := .chk1 } → True := fun _ => trivial
    have tochk : (∀ n, t.n = some n → n ∉ sh.chainOf b) → AcqOK hash sh tid t sh { t with pc := .chk1 } := by
      intro hnf
      refine mk _ _ rfl rfl rfl rfl hS ⟨rfl, rfl, rfl, rfl, rfl, rfl⟩ ⟨by simp, by simp⟩ ?_
      simp only [CAt]
      obtain ⟨e1, e2⟩ := e0 { t with pc := .chk1 } rfl
      rw [e1, e2]
      refine ⟨hs, opFrame_same rfl rfl rfl hop, Or.inl hb, ?_, ?_, ?_⟩
      · intro _; rw [e1]; exact notFound_of_excl (t := { t with pc := .chk1 }) hk hnf
      · intro h; rw [hrs] at h; cases h
      · intro _; rw [e2]
    split
    · rename_i n hn
      split
      · rename_i hmem
        refine mk _ _ rfl rfl rfl rfl hS ⟨rfl, rfl, rfl, rfl, rfl, rfl⟩ ⟨by simp, by simp⟩ ?_
        simp only [CAt]
        obtain ⟨e1, e2⟩ := e0 { t with pc := .unlink } rfl
        rw [e1]
        exact ⟨hs, opFrame_same rfl rfl rfl hop, n, hn, hmem, fun h => absurd hk h⟩
      · rename_i hmem
        exact tochk (fun n' h => by rw [hn] at h; cases h; exact hmem)
    · rename_i hn
      exact tochk (fun n h => by rw [hn] at h; cases h)
  · -- release (unreachable)
    refine mk _ _ rfl rfl rfl rfl hS ⟨rfl, rfl, rfl, rfl, rfl, rfl⟩ ⟨by simp, by simp⟩ ?_
    simp only [CAt]
    obtain ⟨e1, e2⟩ := e0 { t with pc := .relB .fin } rfl
    rw [e1, e2]
    exact ⟨hs, opFrame_same rfl rfl rfl hop⟩

end TbbVerif.C10
