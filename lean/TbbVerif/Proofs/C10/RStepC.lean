/- C10 (refined model): an access to a lock word preserves `Coupled` — releases and downgrade. -/
import TbbVerif.Proofs.C10.RStepB

namespace TbbVerif.C10R

open TbbVerif.C10

theorem effect_tr (sh : Sh) (tid : Tid) (t : Th) (r : RTh) (th th' : C08.Th) (h : trOf th.phase th'.phase ≠ .none) :
    effect sh tid t r th th' =
      ((if r.lag then [({ tid := tid, alt := 1 } : Act)] else []) ++ [{ tid := tid, alt := altOf t.pc (trOf th.phase th'.phase) }], false) := by
  unfold effect
  simp only [bne_iff_ne, ne_eq, h, not_false_eq_true, if_true]

theorem effect_none (sh : Sh) (tid : Tid) (t : Th) (r : RTh) (th th' : C08.Th) (h : trOf th.phase th'.phase = .none)
    (h2 : (th'.ops.isEmpty && (th.ops.head?.map isTry).getD false && t.pc == .lockTry) = false) :
    effect sh tid t r th th' = ([], r.lag) := by
  unfold effect
  simp only [h, bne_self_eq_false, Bool.false_eq_true, if_false, h2]

theorem effect_tryfail (sh : Sh) (tid : Tid) (t : Th) (r : RTh) (th th' : C08.Th) (h : trOf th.phase th'.phase = .none)
    (h2 : (th'.ops.isEmpty && (th.ops.head?.map isTry).getD false && t.pc == .lockTry) = true) :
    effect sh tid t r th th' = if (sh.bkt t.tgt).isFlagged then ([], true) else ([{ tid := tid, alt := 1 }], false) := by
  unfold effect
  simp only [h, bne_self_eq_false, Bool.false_eq_true, if_false, h2, if_true]

theorem notflag_of_chain {b : Bucket} (h : b.isChain = true) : b.isFlagged = false := by
  cases b <;> simp_all [Bucket.isChain, Bucket.isFlagged]

theorem flagC_vacuous {s' : RSt} {b : Nat} (h : (s'.a.sh.bkt b).isFlagged = false) : FlagC s' b := by
  intro hf; rw [h] at hf; cases hf

/-- a bucket that is not flagged stays so -/
theorem notflag_after {hash : Nat → Nat} {s s' : RSt} {tid : Tid} {L : LId} {t' : Th} {th' : C08.Th} {r' : RTh}
    (hC : Coupled hash s) (ro : RunOut hash s s' tid L t' th' r') {b : Nat} (h : (s.a.sh.bkt b).isFlagged = false) :
    (s'.a.sh.bkt b).isFlagged = false := by
  obtain ⟨acts, ha, _⟩ := ro.a
  cases hf : (s'.a.sh.bkt b).isFlagged with
  | false => rfl
  | true =>
    have := flag_mono_run hash acts s.a hC.abs b (by rw [← ha]; exact hf)
    rw [h] at this; cases this

theorem lag_false_of_pc {hash : Nat → Nat} {s : RSt} (hC : Coupled hash s) {tid : Tid} {t : Th} {r : RTh}
    (ht : s.a.ths[tid]? = some t) (hr : s.rt[tid]? = some r) (hpc : t.pc ≠ .lockTry) : r.lag = false := by
  cases hl : r.lag with
  | false => rfl
  | true => exact absurd ((hC.th tid t r ht hr).lagpc hl) hpc

/-- the state after `lockAccess`, when the effect is the single `HMap` step `⟨tid, alt⟩` and the operation is complete -/
theorem runOut_one {hash : Nat → Nat} {s : RSt} {tid : Tid} {t : Th} {r : RTh} {L : LId} {th : C08.Th} (alt : Nat)
    (ht : s.a.ths[tid]? = some t) (hs : slot s L tid = some th)
    (heff : effect s.a.sh tid t r th (acT (getL s L).word th) = ([{ tid := tid, alt := alt }], false))
    (hdone : (acT (getL s L).word th).ops = []) :
    RunOut hash s (lockAccess hash s tid t r L) tid L (stepTh hash s.a.sh tid t alt).2.1 (acT (getL s L).word th) { cur := none, lag := false } ∧
    (lockAccess hash s tid t r L).a.sh = (stepTh hash s.a.sh tid t alt).1 := by
  have hs' := step_slot_self (getL s L) tid th hs
  obtain ⟨h1, h2, h3⟩ := lockAccess_out hash s tid t r L th _ hs hs'
  rw [heff] at h1 h2
  simp only [hdone, List.isEmpty_nil, if_true] at h2
  obtain ⟨hself, hsh⟩ := step_self hash s.a tid alt t ht
  refine ⟨⟨h3, h2, ⟨[{ tid := tid, alt := alt }], h1, by simp⟩, ?_, hs'⟩, ?_⟩
  · rw [h1]; exact hself
  · rw [h1]; exact hsh

/-- the slot after a completed operation, no lag -/
theorem slotOut_done {s' : RSt} {tid : Tid} {t' : Th} {L : LId} {th' : C08.Th} (h : th'.ops = []) (hnr : relockPc t'.pc = false) :
    SlotOut s' tid t' { cur := none, lag := false } L th' :=
  ⟨Or.inl ⟨h, rfl⟩, (fun h => by cases h), (fun h => by rw [hnr] at h; cases h), (fun h => by cases h)⟩

section release
variable {hash : Nat → Nat} {s : RSt} {tid : Tid} {t : Th} {r : RTh} {L : LId} {th : C08.Th}

/-- `unlock` / `unlock_shared`: the lock is released where `RelAt` says -/
theorem release_coupled (hC : Coupled hash s) (ht : s.a.ths[tid]? = some t) (hr : s.rt[tid]? = some r) (hcur : r.cur = some L)
    (hs : slot s L tid = some th) (w : Bool) (hops : th.ops = [relOp w]) (hpre : PreOK th)
    (hph : th.phase = if w = true then .holdW else .holdR) (hrel : RelAt t L w) :
    Coupled hash (lockAccess hash s tid t r L) := by
  have hwf := (hC.lk L).inv.hwf tid th hs
  have hpc0 : th.pc = .start := by
    have := hwf.2.2.2; rw [hops] at this
    cases w <;> exact this
  have hout : (acT (getL s L).word th).ops = [] ∧ (acT (getL s L).word th).phase = .idle := by
    cases w
    · exact unlockShared_out _ th hops hpre hpc0
    · exact unlock_out _ th hops hpre hpc0
  obtain ⟨hdone, hidle⟩ := hout
  have htr : trOf th.phase (acT (getL s L).word th).phase = .rel := by
    rw [hidle, hph]; cases w <;> rfl
  have hT := hC.abs.i1.th tid t ht
  have hc := hT.c
  have hv := view_of hC hs
  have hsp : SpecOut s.a.ths.length (lockOf s.a.sh L) ((fun l => if w = true then l.clrW else l.delR tid) (lockOf s.a.sh L)) tid
      (acT (getL s L).word th) := by
    cases w
    · simp only [Bool.false_eq_true, if_false] at hph ⊢
      exact spec_delR hv (Or.inl hph)
    · simp only [if_true] at hph ⊢
      exact spec_clrW hv hph
  have hphs : ((acT (getL s L).word th).phase = .holdW → HW (stepTh hash s.a.sh tid t (altOf t.pc .rel)).2.1 L) ∧
      (phaseR (acT (getL s L).word th).phase → HR (stepTh hash s.a.sh tid t (altOf t.pc .rel)).2.1 L) := by
    rw [hidle]
    exact ⟨(fun h => by cases h), (fun h => by rcases h with h | h | h <;> cases h)⟩
  -- finish from the `LockEff` of the `HMap` step
  have finish : t.pc ≠ .lockTry → relockPc t.pc = false → upgPc t.pc = false →
      LockEff s.a.sh t (stepTh hash s.a.sh tid t (altOf t.pc .rel)).1 (stepTh hash s.a.sh tid t (altOf t.pc .rel)).2.1 L
        (fun l => if w = true then l.clrW else l.delR tid) →
      (∀ b, L = .b b → (s.a.sh.bkt b).isFlagged = false) → Coupled hash (lockAccess hash s tid t r L) := by
    intro hne hrl0 hup0 he hnf
    have hlag := lag_false_of_pc hC ht hr hne
    have heff : effect s.a.sh tid t r th (acT (getL s L).word th) = ([{ tid := tid, alt := altOf t.pc .rel }], false) := by
      rw [effect_tr _ _ _ _ _ _ (by rw [htr]; simp), htr, hlag]; rfl
    obtain ⟨ro, hsh⟩ := runOut_one (hash := hash) (altOf t.pc .rel) ht hs heff hdone
    have hnf' : ∀ b, L = .b b → ((lockAccess hash s tid t r L).a.sh.bkt b).isFlagged = false :=
      fun b hb => notflag_after hC ro (hnf b hb)
    refine access_coupled hC ht hr hs hpre (out_eff hC ht hr hcur hs ro (by rw [hsh]; exact he) hsp hphs
      (fun b hb => Or.inl (hnf' b hb)) (fun b hb => flagC_vacuous (hnf' b hb)) (slotOut_done hdone (not_relock_after hash s.a.sh tid t _ hrl0 hup0)))
  rcases hrel with ⟨hpc, ⟨rest, hstk⟩, rfl⟩ | ⟨⟨a, hpc⟩, hstk, rfl⟩ | ⟨hpc, hstk, rfl, hfresh, hn⟩ | ⟨hpc, hn, rfl⟩ | ⟨hpc, n, hacc, rfl⟩ |
      ⟨hpc, ⟨o, rest, hops', hk⟩, n, hacc, rfl⟩
  · rw [hpc] at hc; simp only [CAt] at hc
    refine finish (by rw [hpc]; simp) (by rw [hpc]; rfl) (by rw [hpc]; rfl) ?_ (fun b hb => by cases hb; exact notflag_of_chain hc.2.1)
    rw [hpc]; exact rhRel_eff hash s.a.sh tid t _ _ w rest hpc hstk
  · rw [hpc] at hc; simp only [CAt] at hc
    refine finish (by rw [hpc]; simp) (by rw [hpc]; rfl) (by rw [hpc]; rfl) ?_ (fun b hb => by cases hb; exact notflag_of_chain hc.2.1)
    rw [hpc]; exact relB_eff hash s.a.sh tid t _ a _ w hpc hstk
  · rw [hpc] at hc; simp only [CAt] at hc
    cases hnn : t.n with
    | none => rw [hnn] at hn; cases hn
    | some n =>
      refine finish (by rw [hpc]; simp) (by rw [hpc]; rfl) (by rw [hpc]; rfl) ?_ (fun b hb => by cases hb; exact notflag_of_chain hc.2.1.1)
      rw [hpc]; exact elemTry_giveup_eff hash s.a.sh tid t n _ w hpc hnn hstk hfresh
  · cases hnn : t.n with
    | none => rw [hnn] at hn; cases hn
    | some n =>
      rw [hnn] at hn
      simp only [Option.map_some, Option.some.injEq] at hn
      subst hn
      refine finish (by rw [hpc]; simp) (by rw [hpc]; rfl) (by rw [hpc]; rfl) ?_ (fun b hb => by cases hb)
      rw [hpc]; exact eRel_eff hash s.a.sh tid t _ n hpc hnn (hw_eRel hC ht hpc hnn).2
  · refine finish (by rw [hpc]; simp) (by rw [hpc]; rfl) (by rw [hpc]; rfl) ?_ (fun b hb => by cases hb)
    rw [hpc]; exact xRelAcc_eff hash s.a.sh tid t _ n w hpc hacc
  · rw [hpc] at hc; simp only [CAt] at hc
    refine finish (by rw [hpc]; simp) (by rw [hpc]; rfl) (by rw [hpc]; rfl) ?_ (fun b hb => by cases hb)
    rw [hpc]; exact release_eff hash s.a.sh tid t _ o rest n w hpc hops' hk hacc hc

end release

end TbbVerif.C10R
