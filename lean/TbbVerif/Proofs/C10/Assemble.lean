/- C10: from the per-step obligations `StepOK` to preservation of the whole invariant. -/
import TbbVerif.Proofs.C10.Frame

namespace TbbVerif.C10

theorem getElem?_set_self' {α : Type} (l : List α) (i : Nat) (x y : α) (h : (l.set i x)[i]? = some y) : y = x ∧ i < l.length := by
  rw [List.getElem?_set] at h
  simp at h
  exact ⟨h.2.symm, h.1⟩

theorem inv_step_of (hash : Nat → Nat) (st : St) (a : Act) (hI : Inv hash st)
    (hok : ∀ t, st.ths[a.tid]? = some t →
      StepOK hash st.sh a.tid t (stepTh hash st.sh a.tid t a.alt).1 (stepTh hash st.sh a.tid t a.alt).2.1) :
    Inv hash (step hash st a) := by
  unfold step
  cases hget : st.ths[a.tid]? with
  | none => simpa using hI
  | some t =>
    have ok := hok t hget
    simp only
    generalize hsh' : (stepTh hash st.sh a.tid t a.alt).1 = sh' at ok
    generalize ht' : (stepTh hash st.sh a.tid t a.alt).2.1 = t' at ok
    have hT := hI.th a.tid t hget
    -- threads of the new state
    have hths : ∀ j tj, (st.ths.set a.tid t')[j]? = some tj → (j = a.tid ∧ tj = t') ∨ (j ≠ a.tid ∧ st.ths[j]? = some tj) := by
      intro j tj hj
      by_cases hja : j = a.tid
      · subst hja; exact Or.inl ⟨rfl, (getElem?_set_self' _ _ _ _ hj).1⟩
      · rw [List.getElem?_set_ne (Ne.symm hja)] at hj; exact Or.inr ⟨hja, hj⟩
    have hgrow_other : ∀ j tj, j ≠ a.tid → st.ths[j]? = some tj → tj.grow ≠ 0 → sh'.lvl = st.sh.lvl := by
      intro j tj hj hgj hgr
      apply Classical.byContradiction
      intro hne
      have := ok.lvlg hne
      have := hI.grow1 a.tid j t tj hget hgj (Ne.symm hj) this
      exact hgr this
    refine ⟨ok.shinv, ?_, ?_⟩
    · intro j tj hj
      rcases hths j tj hj with ⟨rfl, rfl⟩ | ⟨hja, hj'⟩
      · exact ok.thinv
      · exact others_ok ok.frame ok.shinv.bwf hja (hI.th j tj hj') (hgrow_other j tj hja hj')
    · intro i j ti tj hi hj hij hgi
      rcases hths i ti hi with ⟨rfl, rfl⟩ | ⟨hia, hi'⟩
      · rcases hths j tj hj with ⟨rfl, _⟩ | ⟨hja, hj'⟩
        · exact absurd rfl hij
        · rcases ok.growNew hgi with hold | hnone
          · exact hI.grow1 _ j t tj hget hj' hij hold
          · apply Classical.byContradiction
            intro hgj
            exact (((hI.th j tj hj').g).2.1 hgj).2.1 hnone
      · rcases hths j tj hj with ⟨rfl, rfl⟩ | ⟨hja, hj'⟩
        · apply Classical.byContradiction
          intro hgj
          rcases ok.growNew hgj with hold | hnone
          · have := hI.grow1 i _ ti t hi' hget hij hgi
            exact hold this
          · exact (((hI.th i ti hi').g).2.1 hgi).2.1 hnone
        · exact hI.grow1 i j ti tj hi' hj' hij hgi

end TbbVerif.C10
