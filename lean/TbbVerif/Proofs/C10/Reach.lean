/- C10: all invariants together, in every reachable state. -/
import TbbVerif.Proofs.C10.Step2B1
import TbbVerif.Proofs.C10.Step2B2
import TbbVerif.Proofs.C10.Step2F

namespace TbbVerif.C10

theorem stepOK2_all {hash : Nat → Nat} {sh : Sh} {tid : Tid} {t : Th} (alt : Nat) (hS : ShInv hash sh) (hT : ThInv hash sh tid t)
    (h2 : ShInv2 sh) (hT2 : ThInv2 hash sh tid t) (hU : Untouched sh) (hK : KInv t) :
    StepOK2 hash sh tid t (stepTh hash sh tid t alt).1 (stepTh hash sh tid t alt).2.1 := by
  cases hpc : t.pc with
  | idle => exact stepOK2_idle alt hS hT h2 hT2 hpc
  | rdMask => exact stepOK2_rdMask alt hS hT h2 hT2 hpc
  | peek => exact stepOK2_peek alt hS hT h2 hT2 hpc
  | lockTry => exact stepOK2_lockTry alt hS hT h2 hT2 hpc
  | mark => exact stepOK2_mark alt hS hT h2 hT2 hpc
  | lockBlk => exact stepOK2_lockBlk alt hS hT h2 hT2 hpc
  | rhUpg => exact stepOK2_rhUpg alt hS hT h2 hT2 hpc
  | rhRelock => exact stepOK2_rhRelock alt hS hT h2 hT2 hpc
  | rhRel => exact stepOK2_rhRel alt hS hT h2 hT2 hpc
  | upg => exact stepOK2_upg alt hS hT h2 hT2 hpc
  | relock => exact stepOK2_relock alt hS hT h2 hT2 hpc
  | dng => exact stepOK2_dng alt hS hT h2 hT2 hpc
  | chk1 => exact stepOK2_chk1 alt hS hT h2 hT2 hpc
  | chk2 => exact stepOK2_chk2 alt hS hT h2 hT2 hpc
  | link => exact stepOK2_link alt hS hT h2 hT2 hU hpc
  | elect1 => exact stepOK2_elect1 alt hS hT h2 hT2 hpc
  | elect2 => exact stepOK2_elect2 alt hS hT h2 hT2 hpc
  | elemTry => exact stepOK2_elemTry alt hT h2 hT2 hK hpc
  | relB a =>
    refine stepOK2_relB alt a hS hT h2 hT2 hpc ?_
    intro ha
    have := hK
    unfold KInv at this
    rw [hpc, ha] at this
    exact this
  | alloc => exact stepOK2_alloc alt hS hT h2 hT2 hpc
  | pubMask => exact stepOK2_pubMask alt hS hT h2 hT2 hpc
  | eUpg => exact stepOK2_eUpg alt hS hT h2 hT2 hpc
  | eRelock => exact stepOK2_eRelock alt hS hT h2 hT2 hpc
  | unlink => exact stepOK2_unlink alt hS hT h2 hT2 hK hpc
  | eLock => exact stepOK2_eLock alt h2 hT2 hK hpc
  | eRel => exact stepOK2_eRel alt h2 hT2 hK hpc
  | free => exact stepOK2_free alt h2 hT2 hK hpc
  | xUpg => exact stepOK2_xUpg alt h2 hT2 hK hpc
  | xRelock => exact stepOK2_xRelock alt h2 hT2 hK hpc
  | xRelAcc => exact stepOK2_xRelAcc alt h2 hT2 hK hpc

/-- Everything that is proved to hold in every reachable state. -/
structure InvAll (hash : Nat → Nat) (st : St) : Prop where
  i1 : Inv hash st
  i2 : Inv2 hash st
  unt : Untouched st.sh
  k : ∀ (tid : Nat) (t : Th), st.ths[tid]? = some t → KInv t

theorem invAll_step (hash : Nat → Nat) (st : St) (a : Act) (h : InvAll hash st) : InvAll hash (step hash st a) := by
  have hok2 : ∀ t, st.ths[a.tid]? = some t →
      StepOK2 hash st.sh a.tid t (stepTh hash st.sh a.tid t a.alt).1 (stepTh hash st.sh a.tid t a.alt).2.1 :=
    fun t ht => stepOK2_all a.alt h.i1.sh (h.i1.th a.tid t ht) h.i2.sh (h.i2.th a.tid t ht) h.unt (h.k a.tid t ht)
  refine ⟨inv_step hash st a h.i1, inv2_step_of hash st a h.i2 hok2, ?_, ?_⟩
  · unfold step
    cases hget : st.ths[a.tid]? with
    | none => exact h.unt
    | some t => exact untouched_frame h.unt h.i2.sh (hok2 t hget).frame
  · unfold step
    cases hget : st.ths[a.tid]? with
    | none => simpa [hget] using h.k
    | some t =>
      intro j tj hj
      simp only at hj
      by_cases hja : j = a.tid
      · rw [hja] at hj
        rw [(getElem?_set_self' _ _ _ _ hj).1]
        exact kinv_step a.alt (h.i1.th a.tid t hget) (h.k a.tid t hget)
      · rw [List.getElem?_set_ne (Ne.symm hja)] at hj
        exact h.k j tj hj

theorem invAll_init (hash : Nat → Nat) (progs : List (List Op)) : InvAll hash (initSt progs) := by
  have hnl : ∀ n, ¬ IsLinked (initSt progs).sh n := by
    intro n ⟨b, hb⟩
    have : n ∈ (if b < Generated.C10.embeddedBuckets then Bucket.chain [] else Bucket.flagged).nodes := hb
    split at this <;> cases this
  have hth : ∀ (tid : Nat) (t : Th), (initSt progs).ths[tid]? = some t → ∃ p : List Op, t = ({ ops := p } : Th) := by
    intro tid t ht
    simp only [initSt, List.getElem?_map] at ht
    cases hp : progs[tid]? with
    | none => rw [hp] at ht; cases ht
    | some p => rw [hp] at ht; exact ⟨p, (Option.some.inj ht).symm⟩
  refine ⟨inv_init hash progs, ⟨⟨?_, fun n h => absurd h (hnl n), fun n h => absurd h (hnl n), ?_⟩, ?_⟩, fun n _ => ⟨rfl, rfl⟩, ?_⟩
  · intro n t ht; cases ht
  · refine ⟨fun _ => none, rfl, fun n => ⟨(fun h => by cases h), fun h => absurd h (hnl n)⟩, (fun k n h => by cases h)⟩
  · intro tid t ht
    obtain ⟨p, rfl⟩ := hth tid t ht
    exact ⟨(fun n w h => by cases h), (fun n h => by cases h), (fun _ => trivial), (fun _ h => absurd rfl h), trivial⟩
  · intro tid t ht
    obtain ⟨p, rfl⟩ := hth tid t ht
    exact kinv_init p

theorem invAll_runFrom (hash : Nat → Nat) (sched : List Act) : ∀ st, InvAll hash st → InvAll hash (runFrom hash st sched) := by
  induction sched with
  | nil => intro st h; exact h
  | cons a rest ih => intro st h; exact ih _ (invAll_step hash st a h)

/-- All invariants hold in every reachable state: any number of threads, any programs, any schedule (including every
choice the lock abstraction leaves open), any hash function. -/
theorem invAll_reachable (hash : Nat → Nat) (progs : List (List Op)) (sched : List Act) : InvAll hash (run hash progs sched) :=
  invAll_runFrom hash sched _ (invAll_init hash progs)

end TbbVerif.C10
