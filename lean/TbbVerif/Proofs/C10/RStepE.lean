/- C10 (refined model): an access to a lock word preserves `Coupled` — the access that grants a bucket lock to a
blocking `acquire(mutex, writer)` (directly, or catching up after a failed `try_acquire` on a flagged bucket). -/
import TbbVerif.Proofs.C10.RFlag

namespace TbbVerif.C10R

open TbbVerif.C10

theorem lockEff_pre {sh sh2 : Sh} {t t1 t2 : Th} {L : LId} {f : Lock → Lock}
    (h : ∀ L', (HW t L' → HW t1 L') ∧ (HR t L' → HR t1 L')) (he : LockEff sh t1 sh2 t2 L f) : LockEff sh t sh2 t2 L f :=
  ⟨he.lock0, he.lockO, fun L' hL hw => he.hwO L' hL ((h L').1 hw), fun L' hL hr => he.hrO L' hL ((h L').2 hr)⟩

theorem holds_pc_change (t : Th) (pc' : Pc) (hne : t.pc ≠ .eRel) (L : LId) :
    (HW t L → HW { t with pc := pc' } L) ∧ (HR t L → HR { t with pc := pc' } L) := by
  cases L with
  | b b => exact ⟨id, id⟩
  | e n =>
    refine ⟨?_, id⟩
    intro h
    rcases h with h | ⟨_, h, _⟩
    · exact Or.inl h
    · exact absurd h hne

section
variable {hash : Nat → Nat} {s : RSt} {tid : Tid} {t : Th} {r : RTh} {th : C08.Th}

theorem bucket_grant_coupled (hC : Coupled hash s) (ht : s.a.ths[tid]? = some t) (hr : s.rt[tid]? = some r)
    (hcur : r.cur = some (.b t.tgt)) (hs : slot s (.b t.tgt) tid = some th) (hpre : PreOK th)
    (hpcs : t.pc = .lockBlk ∨ (t.pc = .lockTry ∧ r.lag = true))
    (hdone : (acT (getL s (.b t.tgt)).word th).ops = []) (h0 : th.phase = .idle)
    (hph' : (acT (getL s (.b t.tgt)).word th).phase = if wantW t = true then .holdW else .holdR)
    (hword : (getL s (.b t.tgt)).word.w = false ∧ (wantW t = true → (getL s (.b t.tgt)).word.r = 0)) :
    Coupled hash (lockAccess hash s tid t r (.b t.tgt)) := by
  have hv := view_of hC hs
  have hen : if wantW t = true then (s.a.sh.blk t.tgt).isFree = true else (s.a.sh.blk t.tgt).canRead = true := by
    split
    · rename_i hw; exact free_of_word hv hword.1 (hword.2 hw)
    · exact canRead_of_word hv hword.1
  have hwnone : (s.a.sh.blk t.tgt).w = none := by
    split at hen
    · exact ((Lock.isFree_iff _).1 hen).1
    · exact (Lock.canRead_iff _).1 hen
  have htr : trOf th.phase (acT (getL s (.b t.tgt)).word th).phase = .acq := by
    rw [h0, hph']; split <;> rfl
  have hsp : SpecOut s.a.ths.length (lockOf s.a.sh (.b t.tgt))
      ((fun l => if wantW t = true then l.setW tid else l.addR tid) (lockOf s.a.sh (.b t.tgt))) tid (acT (getL s (.b t.tgt)).word th) := by
    by_cases hw : wantW t = true
    · simp only [hw, if_true] at hph' ⊢; exact spec_setW hv hph'
    · simp only [hw, if_false] at hph' ⊢; exact spec_addR hv h0 hph'
  have hT := hC.abs.i1.th tid t ht
  have hc := hT.c
  rcases hpcs with hpc | ⟨hpc, hlag⟩
  · -- directly at `lockBlk`
    have hlag := lag_false_of_pc hC ht hr (by rw [hpc]; simp)
    have heff : effect s.a.sh tid t r th (acT (getL s (.b t.tgt)).word th) = ([{ tid := tid, alt := 0 }], false) := by
      rw [effect_tr _ _ _ _ _ _ (by rw [htr]; simp), htr, hlag, hpc]; rfl
    obtain ⟨ro, hsh⟩ := runOut_one (hash := hash) 0 ht hs heff hdone
    obtain ⟨he, hH⟩ := lockBlk_eff hash s.a.sh tid t 0 hpc hen
    rw [hpc] at hc; simp only [CAt] at hc
    have hnf := notflag_after hC ro hc.2
    refine access_coupled hC ht hr hs hpre (out_eff hC ht hr hcur hs ro (by rw [hsh]; exact he) hsp ?_
      (fun b hb => by cases hb; exact Or.inl hnf) (fun b hb => by cases hb; exact flagC_vacuous hnf)
      (slotOut_done hdone (not_relock_after hash s.a.sh tid t 0 (by rw [hpc]; rfl) (by rw [hpc]; rfl))))
    rw [hph']
    by_cases hw : wantW t = true
    · simp only [hw, if_true] at hH ⊢
      exact ⟨fun _ => hH, (fun h => by rcases h with h | h | h <;> cases h)⟩
    · simp only [hw, if_false] at hH ⊢
      exact ⟨(fun h => by cases h), fun _ => hH⟩
  · -- catching up: the `HMap` image moves from `lockTry` to `lockBlk`, then acquires
    have hTC := hC.th tid t r ht hr
    have hnfl : (s.a.sh.bkt t.tgt).isFlagged = false := by
      cases hf : (s.a.sh.bkt t.tgt).isFlagged with
      | false => rfl
      | true =>
        obtain ⟨A, hA⟩ := hTC.lagK hlag hf
        rw [hwnone] at hA; cases hA
    have heff : effect s.a.sh tid t r th (acT (getL s (.b t.tgt)).word th) =
        ([{ tid := tid, alt := 1 }, { tid := tid, alt := 0 }], false) := by
      rw [effect_tr _ _ _ _ _ _ (by rw [htr]; simp), htr, hlag, hpc]; rfl
    obtain ⟨hf1, hf2⟩ := lockTry_fail_eff hash s.a.sh tid t hpc hnfl
    obtain ⟨hself1, hsh1⟩ := step_self hash s.a tid 1 t ht
    rw [hf2] at hself1
    rw [hf1] at hsh1
    have hpc1 : ({ t with pc := Pc.lockBlk } : Th).pc = .lockBlk := rfl
    obtain ⟨hself2, hsh2⟩ := step_self hash (step hash s.a { tid := tid, alt := 1 }) tid 0 _ hself1
    rw [hsh1] at hself2 hsh2
    have hrun : runFrom hash s.a [{ tid := tid, alt := 1 }, { tid := tid, alt := 0 }] =
        step hash (step hash s.a { tid := tid, alt := 1 }) { tid := tid, alt := 0 } := rfl
    obtain ⟨ro, ha⟩ := runOut_gen (hash := hash) [{ tid := tid, alt := 1 }, { tid := tid, alt := 0 }] false _ hs heff
      (by intro x hx; simp at hx; rcases hx with rfl | rfl <;> rfl) (by rw [hrun]; exact hself2)
    simp only [hdone, List.isEmpty_nil, if_true] at ro
    have hsh : (lockAccess hash s tid t r (.b t.tgt)).a.sh = (stepTh hash s.a.sh tid { t with pc := Pc.lockBlk } 0).1 := by
      rw [ha, hrun]; exact hsh2
    obtain ⟨he, hH⟩ := lockBlk_eff hash s.a.sh tid { t with pc := Pc.lockBlk } 0 hpc1 hen
    have he' := lockEff_pre (fun L' => holds_pc_change t .lockBlk (by rw [hpc]; simp) L') he
    have hnf := notflag_after hC ro hnfl
    refine access_coupled hC ht hr hs hpre (out_eff hC ht hr hcur hs ro (by rw [hsh]; exact he') hsp ?_
      (fun b hb => by cases hb; exact Or.inl hnf) (fun b hb => by cases hb; exact flagC_vacuous hnf)
      (slotOut_done hdone (not_relock_after hash s.a.sh tid { t with pc := Pc.lockBlk } 0 rfl rfl)))
    rw [hph']
    by_cases hw : wantW t = true
    · have hw1 : wantW ({ t with pc := Pc.lockBlk } : Th) = true := hw
      simp only [hw1, if_true] at hH
      simp only [hw, if_true]
      exact ⟨fun _ => hH, (fun h => by rcases h with h | h | h <;> cases h)⟩
    · have hw1 : ¬ wantW ({ t with pc := Pc.lockBlk } : Th) = true := hw
      simp only [hw1, if_false] at hH
      simp only [hw, if_false]
      exact ⟨(fun h => by cases h), fun _ => hH⟩

end

end TbbVerif.C10R
