/- C10: from the path form of key_home (`HomeIs`) to the executable abstraction function `Sh.home` / `Sh.present`. -/
import TbbVerif.Proofs.C10.StepOps3

namespace TbbVerif.C10

theorem homeAt_eq {hash : Nat → Nat} {sh : Sh} (hS : ShInv hash sh) {h b : Nat} (hH : HomeIs sh h b) :
    ∀ j, b ≤ pb h (j + 1) → homeAt sh.bkt h j = b := by
  obtain ⟨⟨l, _, hl⟩, hch, ha⟩ := hH
  intro j
  induction j with
  | zero =>
    intro hle
    show h % 2 = b
    rcases Nat.lt_or_ge b (pb h 1) with hlt | hge
    · exfalso
      have := ha 1 hlt
      have h1 : pb h 1 < 2 := pb_lt h 1
      rw [hS.emb _ h1] at this; cases this
    · have h2 : pb h 1 = h % 2 := by simp [pb]
      have hle' : b ≤ pb h 1 := hle
      omega
  | succ j ih =>
    intro hle
    show (if (sh.bkt (h % 2 ^ (j + 2))).isChain = true then h % 2 ^ (j + 2) else homeAt sh.bkt h j) = b
    rcases Nat.lt_or_ge b (pb h (j + 2)) with hlt | hge
    · have hnc := ha (j + 2) hlt
      rw [if_neg (by rw [show h % 2 ^ (j + 2) = pb h (j + 2) from rfl, hnc]; simp)]
      apply ih
      have hlj : l < j + 2 := by
        apply Classical.byContradiction; intro hc
        have := pb_mono h (Nat.le_of_not_lt hc)
        omega
      rw [hl]; exact pb_mono h (by omega)
    · have heq : pb h (j + 2) = b := by
        have : pb h (j + 1 + 1) = pb h (j + 2) := rfl
        omega
      rw [if_pos (by rw [show h % 2 ^ (j + 2) = pb h (j + 2) from rfl, heq]; exact hch)]
      exact heq

/-- `HomeIs` determines the value of the executable abstraction function. -/
theorem home_eq {hash : Nat → Nat} {sh : Sh} (hS : ShInv hash sh) {h b : Nat} (hH : HomeIs sh h b) : sh.home h = b := by
  unfold Sh.home
  apply homeAt_eq hS hH
  obtain ⟨⟨l, hl, hb⟩, _, _⟩ := hH
  have h1 := hS.lvl_pos
  rw [show sh.lvl - 1 + 1 = sh.lvl by omega, hb]
  exact pb_mono h hl

/-- two linked nodes with the same key are the same node in the same bucket -/
theorem linked_unique {hash : Nat → Nat} {sh : Sh} (hS : ShInv hash sh) {b b' : Nat} {n n' : Node}
    (hn : n ∈ sh.chainOf b) (hn' : n' ∈ sh.chainOf b') (hk : n.key = n'.key) : b = b' ∧ n = n' := by
  have h1 := hS.home b n hn
  have h2 := hS.home b' n' hn'
  rw [hk] at h1
  have hb := homeIs_unique h1 h2
  subst hb
  exact ⟨rfl, node_unique_of_nodup (hS.nodup b) hn hn' hk⟩

/-- the executable `present` finds exactly the linked node with that key -/
theorem present_eq_some {hash : Nat → Nat} {sh : Sh} (hS : ShInv hash sh) {b : Nat} {n : Node} (hn : n ∈ sh.chainOf b) :
    sh.present hash n.key = some n := by
  unfold Sh.present
  rw [home_eq hS (hS.home b n hn)]
  cases hf : findKey (sh.chainOf b) n.key with
  | none => exact absurd rfl (findKey_none hf n hn)
  | some n' =>
    obtain ⟨hm, hk⟩ := findKey_some hf
    rw [node_unique_of_nodup (hS.nodup b) hm hn hk]

theorem present_some_linked {hash : Nat → Nat} {sh : Sh} {k : Nat} {n : Node} (h : sh.present hash k = some n) : IsLinked sh n ∧ n.key = k := by
  unfold Sh.present at h
  obtain ⟨hm, hk⟩ := findKey_some h
  exact ⟨⟨_, hm⟩, hk⟩

end TbbVerif.C10
