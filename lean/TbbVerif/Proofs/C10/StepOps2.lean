/- C10: steps chk1, chk2 (check_mask_race / check_rehashing_collision), link, unlink. -/
import TbbVerif.Proofs.C10.StepOps1

namespace TbbVerif.C10

/-- what `chkPass` guarantees -/
structure PassOK (sh : Sh) (tid : Tid) (u : Th) (sh' : Sh) (u' : Th) : Prop where
  bkt : sh'.bkt = sh.bkt
  blk : sh'.blk = sh.blk
  lvl : sh'.lvl = sh.lvl
  seg : sh'.seg = sh.seg
  c : CAt sh tid u' u'.pc
  stk : u'.stk = u.stk
  ops : u'.ops = u.ops
  h : u'.h = u.h
  m : u'.m = u.m
  grow : u'.grow = u.grow
  rs : u'.rs = false
  pc : u'.pc ≠ .alloc ∧ u'.pc ≠ .pubMask

theorem chkPass_rs_eq (sh : Sh) (tid : Tid) (u : Th) (hk : u.op.k = .erase) (hr : u.rs = true) (hs : u.stk = [(u.b0, u.w0)]) :
    chkPass sh tid u =
      (match findKey (sh.chainOf u.b0) u.op.key with
       | some n => (sh, { u with n := some n, rs := false, pc := .unlink })
       | none => (sh, { u with rs := false, pc := .chk1 })) := by
  generalize u.b0 = b0 at hs
  generalize u.w0 = w0 at hs
  unfold chkPass
  rw [hk]
  simp only [hr, if_true]
  rw [hs]
  simp only
  cases findKey (sh.chainOf b0) u.op.key <;> rfl

theorem chkPass_ok {sh : Sh} {tid : Tid} {u : Th} (hs : u.stk = [(u.b0, u.w0)]) (hop : OpFrame sh u u.b0)
    (hcf : ChkFacts sh u) (habove : AboveNC sh u.h u.b0) : PassOK sh tid u (chkPass sh tid u).1 (chkPass sh tid u).2 := by
  obtain ⟨hnf, hrsf, hinsw⟩ := hcf
  unfold chkPass
  cases hk : u.op.k <;> simp only []
  · -- ins → link
    have hw := hinsw hk
    have hrs : u.rs = false := by
      cases hr : u.rs with
      | false => rfl
      | true => have := (hrsf hr).2; rw [hk] at this; cases this
    refine ⟨rfl, rfl, rfl, rfl, ?_, rfl, rfl, rfl, rfl, rfl, hrs, by simp, by simp⟩
    simp only [CAt]
    refine ⟨?_, hop, hnf hrs, habove, hk⟩
    show u.stk = [(u.b0, true)]
    rw [← hw]; exact hs
  · -- find
    have hrs : u.rs = false := by
      cases hr : u.rs with
      | false => rfl
      | true => have := (hrsf hr).2; rw [hk] at this; cases this
    refine ⟨rfl, rfl, rfl, rfl, ?_, rfl, rfl, rfl, rfl, rfl, hrs, by simp, by simp⟩
    simp only [CAt]
    exact ⟨hs, hop⟩
  · -- count
    have hrs : u.rs = false := by
      cases hr : u.rs with
      | false => rfl
      | true => have := (hrsf hr).2; rw [hk] at this; cases this
    refine ⟨rfl, rfl, rfl, rfl, ?_, rfl, rfl, rfl, rfl, rfl, hrs, by simp, by simp⟩
    simp only [CAt]
    exact ⟨hs, hop⟩
  · -- erase
    by_cases hrt : u.rs = true
    · have hw := (hrsf hrt).1
      have hkne : u.op.k ≠ .exclude := by rw [hk]; simp
      have heq := chkPass_rs_eq sh tid u hk hrt hs
      unfold chkPass at heq
      rw [hk] at heq
      simp only [] at heq
      rw [heq]
      cases hf : findKey (sh.chainOf u.b0) u.op.key with
      | some n =>
        simp only []
        obtain ⟨hn, hnk⟩ := findKey_some hf
        refine ⟨rfl, rfl, rfl, rfl, ?_, rfl, rfl, rfl, rfl, rfl, rfl, by simp, by simp⟩
        simp only [CAt]
        refine ⟨?_, hop, n, rfl, hn, fun _ => hnk⟩
        show u.stk = [(u.b0, true)]
        rw [← hw]; exact hs
      | none =>
        simp only []
        refine ⟨rfl, rfl, rfl, rfl, ?_, rfl, rfl, rfl, rfl, rfl, rfl, by simp, by simp⟩
        simp only [CAt]
        refine ⟨hs, hop, Or.inr ⟨hw, habove⟩, ?_, ?_, ?_⟩
        · intro _; exact notFound_of_key (t := { u with rs := false, pc := Pc.chk1 }) hkne hf
        · intro h; cases h
        · intro h; have : u.op.k = .ins := h; rw [hk] at this; cases this
    have hrf : u.rs = false := by cases h : u.rs <;> simp_all
    cases hr : u.rs with
    | false =>
      simp only [Bool.false_eq_true, if_false]
      refine ⟨rfl, rfl, rfl, rfl, ?_, rfl, rfl, rfl, rfl, rfl, rfl, by simp, by simp⟩
      simp only [CAt]
      exact ⟨hs, hop⟩
    | true => rw [hrf] at hr; cases hr
  · -- exclude
    have hrs : u.rs = false := by
      cases hr : u.rs with
      | false => rfl
      | true => have := (hrsf hr).2; rw [hk] at this; cases this
    refine ⟨rfl, rfl, rfl, rfl, ?_, rfl, rfl, rfl, rfl, rfl, hrs, by simp, by simp⟩
    simp only [CAt]
    exact ⟨hs, hop⟩
  · -- release (unreachable)
    have hrs : u.rs = false := by
      cases hr : u.rs with
      | false => rfl
      | true => have := (hrsf hr).2; rw [hk] at this; cases this
    refine ⟨rfl, rfl, rfl, rfl, ?_, rfl, rfl, rfl, rfl, rfl, hrs, by simp, by simp⟩
    simp only [CAt]
    exact ⟨hs, hop⟩

/-- from `PassOK` to the step obligations -/
theorem stepOK_of_pass {hash : Nat → Nat} {sh sh' : Sh} {tid : Tid} {t u u' : Th} (hS : ShInv hash sh) (hT : ThInv hash sh tid t)
    (hP : PassOK sh tid u sh' u') (hstk : u.stk = t.stk) (hops : u.ops = t.ops) (hh : u.h = t.h) (hm : u.m ≤ sh.lvl)
    (hgr : u.grow = t.grow) (hpci : t.pc ≠ .idle) (hg0 : t.grow = 0) : StepOK hash sh tid t sh' u' := by
  refine stepOK_same hS hP.bkt hP.blk hP.lvl hP.seg ?_ (fun h => by rw [hP.grow, hgr] at h; exact h)
  refine thinv_mk' hT (by rw [hP.stk, hstk]; exact hT.heldB) (by rw [hP.ops, hops]) (by rw [hP.h, hh]) hpci
    (fun h => by rw [hP.rs] at h; cases h) hP.c (growAt_zero (by rw [hP.m]; exact hm) (by rw [hP.grow, hgr]; exact hg0) hP.pc.1 hP.pc.2)

theorem stepOK_chk1 {hash : Nat → Nat} {sh : Sh} {tid : Tid} {t : Th} (alt : Nat) (hS : ShInv hash sh) (hT : ThInv hash sh tid t)
    (hpc : t.pc = .chk1) : StepOK hash sh tid t (stepTh hash sh tid t alt).1 (stepTh hash sh tid t alt).2.1 := by
  have hc := hT.c
  rw [hpc] at hc
  simp only [CAt] at hc
  obtain ⟨hs, hop, hdis, hcf⟩ := hc
  have hg0 := grow_zero_of_pc hT.g (by rw [hpc]; simp) (by rw [hpc]; simp) (by rw [hpc]; simp) (by rw [hpc]; simp)
  have hpci : t.pc ≠ .idle := by rw [hpc]; simp
  have hstep : stepTh hash sh tid t alt =
      (if sh.lvl = t.m then
        ((chkPass sh tid t).1, (chkPass sh tid t).2, Lab.ldmask (2 ^ sh.lvl - 1))
      else if t.h % 2 ^ t.m ≠ t.h % 2 ^ sh.lvl then (sh, { t with mo := t.m, m := sh.lvl, pc := Pc.chk2 }, Lab.ldmask (2 ^ sh.lvl - 1))
      else ((chkPass sh tid { t with mo := t.m, m := sh.lvl }).1, (chkPass sh tid { t with mo := t.m, m := sh.lvl }).2, Lab.ldmask (2 ^ sh.lvl - 1))) := by
    unfold stepTh
    rw [hpc]
  rw [hstep]
  split
  · rename_i hmn
    have habove : AboveNC sh t.h t.b0 := by
      rcases hdis with h | ⟨_, h⟩
      · rw [h, ← hmn]; exact aboveNC_top hS t.h
      · exact h
    exact stepOK_of_pass hS hT (chkPass_ok hs hop hcf habove) rfl rfl rfl hT.g.1 rfl hpci hg0
  · rename_i hmn
    have hlt : t.m < sh.lvl := by have := hT.g.1; omega
    split
    · rename_i hne
      refine stepOK_same hS rfl rfl rfl rfl ?_ (fun h => h)
      refine thinv_mk' hT hT.heldB rfl rfl hpci (fun _ => Or.inr (Or.inl rfl)) ?_ (growAt_zero (Nat.le_refl _) hg0 (by simp) (by simp))
      simp only [CAt]
      exact ⟨hs, hop, hdis, hlt, hne, hcf⟩
    · rename_i heq
      have heq' : t.h % 2 ^ t.m = t.h % 2 ^ sh.lvl := by
        apply Classical.byContradiction; intro h; exact heq h
      have habove : AboveNC sh t.h t.b0 := by
        rcases hdis with h | ⟨_, h⟩
        · rw [h]; show AboveNC sh t.h (t.h % 2 ^ t.m); rw [heq']; exact aboveNC_top hS t.h
        · exact h
      exact stepOK_of_pass (u := { t with mo := t.m, m := sh.lvl }) hS hT (chkPass_ok hs hop hcf habove) rfl rfl rfl (Nat.le_refl _) rfl hpci hg0

theorem stepOK_chk2 {hash : Nat → Nat} {sh : Sh} {tid : Tid} {t : Th} (alt : Nat) (hS : ShInv hash sh) (hT : ThInv hash sh tid t)
    (hpc : t.pc = .chk2) : StepOK hash sh tid t (stepTh hash sh tid t alt).1 (stepTh hash sh tid t alt).2.1 := by
  have hc := hT.c
  rw [hpc] at hc
  simp only [CAt] at hc
  obtain ⟨hs, hop, hdis, hlt, hne, hcf⟩ := hc
  have hg0 := grow_zero_of_pc hT.g (by rw [hpc]; simp) (by rw [hpc]; simp) (by rw [hpc]; simp) (by rw [hpc]; simp)
  have hpci : t.pc ≠ .idle := by rw [hpc]; simp
  have hstep : stepTh hash sh tid t alt =
      (if (sh.bkt (t.h % 2 ^ nextLvl t.h t.mo (t.m - t.mo))).isFlagged = true then
        ((chkPass sh tid t).1, (chkPass sh tid t).2, Lab.ldl (t.h % 2 ^ nextLvl t.h t.mo (t.m - t.mo)) true)
      else (sh, { t with pc := Pc.relB After.restart }, Lab.ldl (t.h % 2 ^ nextLvl t.h t.mo (t.m - t.mo)) false)) := by
    unfold stepTh
    rw [hpc]
  rw [hstep]
  split
  · rename_i hfl
    have habove : AboveNC sh t.h t.b0 := by
      rcases hdis with h | ⟨_, h⟩
      · rw [h]; exact aboveNC_of_flagged hS hlt hne hfl
      · exact h
    exact stepOK_of_pass hS hT (chkPass_ok hs hop hcf habove) rfl rfl rfl hT.g.1 rfl hpci hg0
  · refine stepOK_same hS rfl rfl rfl rfl ?_ (fun h => h)
    refine thinv_mk' hT hT.heldB rfl rfl hpci (fun _ => Or.inr (Or.inr rfl)) ?_ (growAt_zero hT.g.1 hg0 (by simp) (by simp))
    simp only [CAt]
    exact ⟨hs, hop⟩

theorem stepOK_link {hash : Nat → Nat} {sh : Sh} {tid : Tid} {t : Th} (alt : Nat) (hS : ShInv hash sh) (hT : ThInv hash sh tid t)
    (hpc : t.pc = .link) : StepOK hash sh tid t (stepTh hash sh tid t alt).1 (stepTh hash sh tid t alt).2.1 := by
  have hc := hT.c
  rw [hpc] at hc
  simp only [CAt] at hc
  obtain ⟨hs, hop, hnf, habove, hk⟩ := hc
  have hg0 := grow_zero_of_pc hT.g (by rw [hpc]; simp) (by rw [hpc]; simp) (by rw [hpc]; simp) (by rw [hpc]; simp)
  have hrs0 := rs_false_of_pc hT (by rw [hpc]; simp) (by rw [hpc]; simp) (by rw [hpc]; simp)
  have hpci : t.pc ≠ .idle := by rw [hpc]; simp
  have hkne : t.op.k ≠ .exclude := by rw [hk]; simp
  have hW := holdsW_of hT (b := t.b0) (by rw [hs]; exact List.mem_cons_self ..)
  have hfk : findKey (sh.chainOf t.b0) t.op.key = none := by unfold NotFound at hnf; rw [if_neg hkne] at hnf; exact hnf
  have hhash : t.h = hash t.op.key := hT.hOk hpci hkne
  -- the new node and the new shared state
  let nd : Node := { id := sh.nextId, key := t.op.key, val := t.op.val }
  let sh1 : Sh := ({ sh with size := sh.size + 1, nextId := sh.nextId + 1 }.setB t.b0 (.chain (nd :: sh.chainOf t.b0))).log (t.ev tid true (some nd))
  have hstep : stepTh hash sh tid t alt =
      (if sh.size + 1 ≥ 2 ^ t.m - 1 then (sh1, { t with n := some nd, ret := true, pc := Pc.elect1 }, Lab.szinc (sh.size + 1))
       else (sh1, afterLink { t with n := some nd, ret := true }, Lab.szinc (sh.size + 1))) := by
    simp only [sh1, nd]
    generalize t.b0 = b0 at hs
    unfold stepTh
    rw [hpc]
    simp only
    rw [hs]
  rw [hstep]
  have hbk : ∀ x, sh1.bkt x = if x = t.b0 then .chain (nd :: sh.chainOf t.b0) else sh.bkt x := fun x => rfl
  have hS1 : ShInv hash sh1 := by
    apply shinv_setChain (c' := nd :: sh.chainOf t.b0) hS hop.1 hbk rfl rfl rfl
    · intro n hn
      rcases List.mem_cons.1 hn with rfl | hn
      · show HomeIs sh (hash t.op.key) t.b0
        rw [← hhash]; exact ⟨hop.2, hop.1, habove⟩
      · exact hS.home _ n hn
    · exact nodup_keys_cons (n := nd) hfk (hS.nodup _)
  have hF : Frame sh tid sh1 :=
    Frame.mk' (LockFrame.refl _ _) (bktFrame_setChain hop.1 hbk hW) (Nat.le_refl _) (fun _ h => h)
  have hop1 : ∀ t' : Th, t'.h = t.h → OpFrame sh1 t' t.b0 := by
    intro t' hh
    obtain ⟨_, l, h2, h3⟩ := hop
    exact ⟨by rw [hbk, if_pos rfl]; rfl, l, h2, by rw [hh]; exact h3⟩
  have hfd1 : ∀ t' : Th, t'.n = some nd → t'.ops = t.ops → Found sh1 t' t.b0 := by
    intro t' hn ho
    refine ⟨nd, hn, ?_, fun _ => by rw [op_eq_of_ops ho]⟩
    unfold Sh.chainOf; rw [hbk, if_pos rfl]; exact List.mem_cons_self ..
  have mkT : ∀ t' : Th, t'.stk = t.stk → t'.ops = t.ops → t'.h = t.h → t'.m = t.m → t'.grow = t.grow → t'.rs = t.rs →
      t'.pc ≠ .alloc ∧ t'.pc ≠ .pubMask → CAt sh1 tid t' t'.pc → ThInv hash sh1 tid t' := by
    intro t' h1 h2 h3 h4 h5 h6 h7 hc'
    refine ⟨?_, ?_, (fun h => by rw [h6, hrs0] at h; cases h), hc', growAt_zero (by rw [h4]; exact hT.g.1) (by rw [h5]; exact hg0) h7.1 h7.2⟩
    · intro f hf; rw [h1] at hf; exact hT.heldB f hf
    · intro _ hk'; rw [h3, op_eq_of_ops h2]; rw [op_eq_of_ops h2] at hk'; exact hT.hOk hpci hk'
  split
  · refine ⟨hS1, mkT _ rfl rfl rfl rfl rfl rfl ⟨by simp, by simp⟩ ?_, hF, fun h => absurd rfl h, fun h => absurd hg0 h⟩
    simp only [CAt]
    obtain ⟨e1, _⟩ := b0_cons ({ t with n := some nd, ret := true, pc := Pc.elect1 }) (b := t.b0) (w := true) (rest := []) hs
    rw [e1]
    exact ⟨hs, hop1 _ rfl, hfd1 _ rfl rfl, trivial, hk⟩
  · unfold afterLink afterNode
    split
    · refine ⟨hS1, mkT _ rfl rfl rfl rfl rfl rfl ⟨by simp, by simp⟩ ?_, hF, fun h => absurd rfl h, fun h => absurd hg0 h⟩
      simp only [CAt]
      obtain ⟨e1, e2⟩ := b0_cons ({ t with n := some nd, ret := true, pc := Pc.relB After.fin }) (b := t.b0) (w := true) (rest := []) hs
      rw [e1, e2]
      exact ⟨hs, hop1 _ rfl⟩
    · refine ⟨hS1, mkT _ rfl rfl rfl rfl rfl rfl ⟨by simp, by simp⟩ ?_, hF, fun h => absurd rfl h, fun h => absurd hg0 h⟩
      simp only [CAt]
      obtain ⟨e1, e2⟩ := b0_cons ({ t with n := some nd, ret := true, pc := Pc.elemTry }) (b := t.b0) (w := true) (rest := []) hs
      rw [e1, e2]
      exact ⟨hs, hop1 _ rfl, hfd1 _ rfl rfl⟩

end TbbVerif.C10
