/- C10: what a step of one thread may change, and why that preserves the invariants of the other threads. -/
import TbbVerif.Proofs.C10.Basic

namespace TbbVerif.C10

/-- Effect of a step of thread `tid` on the shared state, as far as other threads can tell. -/
structure Frame (sh : Sh) (tid : Tid) (sh' : Sh) : Prop where
  blkW : ∀ b t', t' ≠ tid → ((sh'.blk b).w = some t' ↔ (sh.blk b).w = some t')
  blkR : ∀ b t', t' ≠ tid → (t' ∈ (sh'.blk b).r ↔ t' ∈ (sh.blk b).r)
  bkt : ∀ b, sh'.bkt b ≠ sh.bkt b → (sh'.blk b).w = some tid
  chain : ∀ b, (sh.bkt b).isChain = true → (sh'.bkt b).isChain = true
  unflag : ∀ b, (sh.bkt b).isFlagged = false → (sh'.bkt b).isFlagged = false
  newChain : ∀ c, (sh.bkt c).isChain = false → (sh'.bkt c).isChain = true →
      1 ≤ c ∧ (sh'.bkt (parentOf c)).isChain = true ∧ ((sh'.blk (parentOf c)).w = some tid ∨ tid ∈ (sh'.blk (parentOf c)).r)
  lvl : sh.lvl ≤ sh'.lvl
  seg : ∀ k, sh.seg k ≠ .none → sh'.seg k ≠ .none

/-- What has to be shown about one step of thread `tid` (from `sh, t` to `sh', t'`). -/
structure StepOK (hash : Nat → Nat) (sh : Sh) (tid : Tid) (t : Th) (sh' : Sh) (t' : Th) : Prop where
  shinv : ShInv hash sh'
  thinv : ThInv hash sh' tid t'
  frame : Frame sh tid sh'
  lvlg : sh'.lvl ≠ sh.lvl → t.grow ≠ 0
  growNew : t'.grow ≠ 0 → t.grow ≠ 0 ∨ sh.seg sh.lvl = .none

theorem holdsB_frame {sh sh' : Sh} {tid t' : Tid} (hF : Frame sh tid sh') (hne : t' ≠ tid) (f : Nat × Bool)
    (h : HoldsB sh t' f) : HoldsB sh' t' f := by
  unfold HoldsB at *
  split
  · rename_i hw; rw [if_pos hw] at h; exact (hF.blkW f.1 t' hne).2 h
  · rename_i hw; rw [if_neg hw] at h; exact (hF.blkR f.1 t' hne).2 h

/-- a bucket another thread holds (in any mode) is not modified -/
theorem bkt_held {sh sh' : Sh} {tid t' : Tid} (hF : Frame sh tid sh') (hwf : ∀ b, (sh'.blk b).Wf) (hne : t' ≠ tid)
    (f : Nat × Bool) (h : HoldsB sh t' f) : sh'.bkt f.1 = sh.bkt f.1 := by
  apply Classical.byContradiction
  intro hc
  have hw := hF.bkt f.1 hc
  have := holds_excl (hwf f.1) (holdsB_frame hF hne f h) hw
  exact hne this.symm

theorem chainOf_held {sh sh' : Sh} {tid t' : Tid} (hF : Frame sh tid sh') (hwf : ∀ b, (sh'.blk b).Wf) (hne : t' ≠ tid)
    (f : Nat × Bool) (h : HoldsB sh t' f) : sh'.chainOf f.1 = sh.chainOf f.1 := by
  unfold Sh.chainOf; rw [bkt_held hF hwf hne f h]

theorem rhStack_frame {sh sh' : Sh} {tid t' : Tid} (hF : Frame sh tid sh') (hwf : ∀ b, (sh'.blk b).Wf) (hne : t' ≠ tid)
    (h m : Nat) : ∀ (s : List (Nat × Bool)), (∀ f ∈ s, HoldsB sh t' f) → RhStack sh t' h m s → RhStack sh' t' h m s := by
  intro s
  induction s with
  | nil => intro _ _; trivial
  | cons f rest ih =>
    obtain ⟨c, w⟩ := f
    intro hh hr
    obtain ⟨h1, h2, h3, h4, h5⟩ := hr
    refine ⟨h1, ?_, h3, h4, ih (fun f hf => hh f (List.mem_cons_of_mem _ hf)) h5⟩
    have := bkt_held hF hwf hne (c, w) (hh (c, w) (List.mem_cons_self ..))
    simpa [this] using h2

theorem onPath_frame {sh sh' : Sh} {tid : Tid} (hF : Frame sh tid sh') {h b : Nat} (hp : OnPath sh h b) : OnPath sh' h b := by
  obtain ⟨l, hl, hb⟩ := hp
  exact ⟨l, Nat.le_trans hl hF.lvl, hb⟩

theorem opFrame_frame {sh sh' : Sh} {tid : Tid} (hF : Frame sh tid sh') {t : Th} {b : Nat} (hp : OpFrame sh t b) : OpFrame sh' t b :=
  ⟨hF.chain b hp.1, onPath_frame hF hp.2⟩

theorem notFound_congr {sh sh' : Sh} {t : Th} {b : Nat} (hc : sh'.chainOf b = sh.chainOf b) (h : NotFound sh t b) : NotFound sh' t b := by
  unfold NotFound at *; rw [hc]; exact h

theorem found_congr {sh sh' : Sh} {t : Th} {b : Nat} (hc : sh'.chainOf b = sh.chainOf b) (h : Found sh t b) : Found sh' t b := by
  unfold Found at *; rw [hc]; exact h

/-- nothing above the bucket a writer holds becomes a chain behind its back: a bucket is only turned into a chain by a
thread that holds its parent, the parent of a path bucket is a path bucket, and no path bucket lies between a bucket and
its parent -/
theorem aboveNC_frame {sh sh' : Sh} {tid t' : Tid} (hF : Frame sh tid sh') (hwf : ∀ b, (sh'.blk b).Wf) (hne : t' ≠ tid)
    {h b : Nat} (hp : ∃ j, b = pb h j) (hold : HoldsB sh t' (b, true)) (ha : AboveNC sh h b) : AboveNC sh' h b := by
  have hold' : (sh'.blk b).w = some t' := by simpa [HoldsB] using holdsB_frame hF hne (b, true) hold
  obtain ⟨j, hj⟩ := hp
  -- strong induction on the bucket index
  have key : ∀ n c, c < n → (∃ l, c = pb h l) → b < c → (sh'.bkt c).isChain = false := by
    intro n
    induction n with
    | zero => intro c hc; omega
    | succ n ih =>
      intro c hcn hcl hbc
      obtain ⟨l, hl⟩ := hcl
      cases hch : (sh'.bkt c).isChain with
      | false => rfl
      | true =>
        exfalso
        have hold_nc : (sh.bkt c).isChain = false := by rw [hl]; exact ha l (by rw [← hl]; exact hbc)
        obtain ⟨hc1, hpc, hheld⟩ := hF.newChain c hold_nc hch
        have hle : b ≤ parentOf c := pb_le_parent hc1 hl hj hbc
        have hplt : parentOf c < c := parentOf_lt hc1
        rcases Nat.lt_or_ge b (parentOf c) with hlt | hge
        · have hpp : ∃ l, parentOf c = pb h l := ⟨_, (pb_level hc1 hl).2⟩
          have := ih (parentOf c) (by omega) hpp hlt
          rw [this] at hpc; cases hpc
        · have hbp : parentOf c = b := by omega
          rw [hbp] at hheld
          rcases hheld with hw | hr
          · rw [hold'] at hw; exact hne (Option.some.inj hw)
          · have := hwf b t' hold'; rw [this] at hr; cases hr
  intro l hbl
  exact key (pb h l + 1) (pb h l) (by omega) ⟨l, rfl⟩ hbl

/-- Transfer of a thread's invariant to a changed shared state in which its frames are still held, the buckets it holds are
unchanged, and everything else changed monotonically. -/
theorem thinv_transfer {hash : Nat → Nat} {sh sh' : Sh} {t' : Tid} {th : Th} (hT : ThInv hash sh t' th)
    (hB : ∀ f ∈ th.stk, HoldsB sh' t' f) (hbk : ∀ f ∈ th.stk, sh'.bkt f.1 = sh.bkt f.1)
    (hchain : ∀ b, (sh.bkt b).isChain = true → (sh'.bkt b).isChain = true)
    (hunflag : ∀ b, (sh.bkt b).isFlagged = false → (sh'.bkt b).isFlagged = false)
    (hlvl : sh.lvl ≤ sh'.lvl) (hseg : ∀ k, sh.seg k ≠ .none → sh'.seg k ≠ .none)
    (habove : ∀ h b, (b, true) ∈ th.stk → (∃ j, b = pb h j) → AboveNC sh h b → AboveNC sh' h b)
    (hg : th.grow ≠ 0 → sh'.lvl = sh.lvl) :
    ThInv hash sh' t' th := by
  have hch : ∀ f ∈ th.stk, sh'.chainOf f.1 = sh.chainOf f.1 := fun f hf => by unfold Sh.chainOf; rw [hbk f hf]
  have hrs : ∀ s, (∀ f ∈ s, f ∈ th.stk) → RhStack sh t' th.h th.m s → RhStack sh' t' th.h th.m s := by
    intro s hs hr
    induction s with
    | nil => trivial
    | cons f rest ih =>
      obtain ⟨c, w⟩ := f
      obtain ⟨h1, h2, h3, h4, h5⟩ := hr
      refine ⟨h1, ?_, h3, h4, ih (fun f hf => hs f (List.mem_cons_of_mem _ hf)) h5⟩
      rw [hbk (c, w) (hs (c, w) (List.mem_cons_self ..))]; exact h2
  have opf : ∀ {b : Nat}, OpFrame sh th b → OpFrame sh' th b := by
    intro b hp
    obtain ⟨h1, l, h2, h3⟩ := hp
    exact ⟨hchain b h1, l, Nat.le_trans h2 hlvl, h3⟩
  refine ⟨hB, hT.hOk, hT.rsOk, ?_, ?_⟩
  · have hc := hT.c
    cases hpc : th.pc <;> rw [hpc] at hc <;> simp only [CAt] at hc ⊢
    all_goals try exact hc
    case peek => exact hrs _ (fun f hf => hf) hc
    case lockTry => exact hrs _ (fun f hf => hf) hc
    case lockBlk => exact ⟨hrs _ (fun f hf => hf) hc.1, hunflag _ hc.2⟩
    case mark =>
      obtain ⟨h1, h2, h3, h4, h5⟩ := hc
      have hm : (th.b0, true) ∈ th.stk := by rw [h1]; exact List.mem_cons_self ..
      refine ⟨h1, ?_, h3, h4, hrs _ (fun f hf => by rw [h1]; exact List.mem_cons_of_mem _ hf) h5⟩
      rw [hbk _ hm]; exact h2
    case rhUpg =>
      obtain ⟨h1, h2, h3, h4, h5⟩ := hc
      exact ⟨h1, h2, hchain _ h3, h4, hrs _ (fun f hf => by rw [h1]; exact List.mem_cons_of_mem _ hf) h5⟩
    case rhRelock => exact ⟨hc.1, hrs _ (fun f hf => hf) hc.2.1, hchain _ hc.2.2⟩
    case rhRel =>
      obtain ⟨h1, h2, h3, h4, h5, h6, h7⟩ := hc
      refine ⟨h1, hchain _ h2, hchain _ h3, h4, h5, h6, hrs _ (fun f hf => ?_) h7⟩
      rw [h1]; exact List.mem_cons_of_mem _ (List.mem_cons_of_mem _ hf)
    case upg =>
      obtain ⟨h1, h2, h3, h4, h5⟩ := hc
      have hm : (th.b0, false) ∈ th.stk := by rw [h1]; exact List.mem_cons_self ..
      exact ⟨h1, opf h2, h3, notFound_congr (hch _ hm) h4, h5⟩
    case relock => exact ⟨hc.1, hchain _ hc.2.1, hc.2.2⟩
    case eRelock => exact ⟨hc.1, hchain _ hc.2.1, hc.2.2⟩
    case chk1 =>
      obtain ⟨h1, h2, h3, h4, h5⟩ := hc
      have hm : (th.b0, th.w0) ∈ th.stk := by rw [h1]; exact List.mem_cons_self ..
      refine ⟨h1, opf h2, ?_, fun hr => notFound_congr (hch _ hm) (h4 hr), h5⟩
      rcases h3 with h3 | ⟨hw, h3⟩
      · exact Or.inl h3
      · obtain ⟨l, _, hl⟩ := h2.2
        exact Or.inr ⟨hw, habove _ _ (by rw [← hw]; exact hm) ⟨l, hl⟩ h3⟩
    case chk2 =>
      obtain ⟨h1, h2, h3, h4, h5, h6, h7⟩ := hc
      have hm : (th.b0, th.w0) ∈ th.stk := by rw [h1]; exact List.mem_cons_self ..
      refine ⟨h1, opf h2, ?_, h4, h5, fun hr => notFound_congr (hch _ hm) (h6 hr), h7⟩
      rcases h3 with h3 | ⟨hw, h3⟩
      · exact Or.inl h3
      · obtain ⟨l, _, hl⟩ := h2.2
        exact Or.inr ⟨hw, habove _ _ (by rw [← hw]; exact hm) ⟨l, hl⟩ h3⟩
    case link =>
      obtain ⟨h1, h2, h3, h4, h5⟩ := hc
      have hm : (th.b0, true) ∈ th.stk := by rw [h1]; exact List.mem_cons_self ..
      refine ⟨h1, opf h2, notFound_congr (hch _ hm) h3, ?_, h5⟩
      obtain ⟨l, _, hl⟩ := h2.2
      exact habove _ _ hm ⟨l, hl⟩ h4
    case dng =>
      obtain ⟨h1, h2, h3, h4⟩ := hc
      have hm : (th.b0, true) ∈ th.stk := by rw [h1]; exact List.mem_cons_self ..
      exact ⟨h1, opf h2, found_congr (hch _ hm) h3, h4⟩
    case elect1 =>
      obtain ⟨h1, h2, h3, h4⟩ := hc
      have hm : (th.b0, true) ∈ th.stk := by rw [h1]; exact List.mem_cons_self ..
      exact ⟨h1, opf h2, found_congr (hch _ hm) h3, h4⟩
    case elect2 =>
      obtain ⟨h1, h2, h3, h4⟩ := hc
      have hm : (th.b0, true) ∈ th.stk := by rw [h1]; exact List.mem_cons_self ..
      exact ⟨h1, opf h2, found_congr (hch _ hm) h3, h4⟩
    case unlink =>
      obtain ⟨h1, h2, h3⟩ := hc
      have hm : (th.b0, true) ∈ th.stk := by rw [h1]; exact List.mem_cons_self ..
      exact ⟨h1, opf h2, found_congr (hch _ hm) h3⟩
    case elemTry =>
      obtain ⟨h1, h2, h3⟩ := hc
      have hm : (th.b0, th.w0) ∈ th.stk := by rw [h1]; exact List.mem_cons_self ..
      exact ⟨h1, opf h2, found_congr (hch _ hm) h3⟩
    case relB => exact ⟨hc.1, opf hc.2⟩
    case xRelAcc => exact ⟨hc.1, opf hc.2⟩
    case eUpg =>
      obtain ⟨h1, h2, h3, h4, h5⟩ := hc
      have hm : (th.b0, false) ∈ th.stk := by rw [h1]; exact List.mem_cons_self ..
      exact ⟨h1, opf h2, h3, found_congr (hch _ hm) h4, h5⟩
  · obtain ⟨g1, g2, g3, g4⟩ := hT.g
    refine ⟨Nat.le_trans g1 hlvl, ?_, g3, ?_⟩
    · intro hgn
      obtain ⟨a, b, c⟩ := g2 hgn
      have := hg hgn
      exact ⟨by omega, by rw [this]; exact hseg _ b, c⟩
    · intro hp
      obtain ⟨a, b⟩ := g4 hp
      exact ⟨a, fun k h1 h2 => hseg k (b k h1 h2)⟩

/-- The invariant of another thread survives the step. -/
theorem others_ok {hash : Nat → Nat} {sh sh' : Sh} {tid t' : Tid} {th : Th} (hF : Frame sh tid sh')
    (hwf : ∀ b, (sh'.blk b).Wf) (hne : t' ≠ tid) (hT : ThInv hash sh t' th) (hg : th.grow ≠ 0 → sh'.lvl = sh.lvl) :
    ThInv hash sh' t' th :=
  thinv_transfer hT (fun f hf => holdsB_frame hF hne f (hT.heldB f hf))
    (fun f hf => bkt_held hF hwf hne f (hT.heldB f hf)) hF.chain hF.unflag hF.lvl hF.seg
    (fun _ _ hm hp ha => aboveNC_frame hF hwf hne hp (hT.heldB _ hm) ha) hg

/-- … and so does the invariant of any thread when only fields the invariant does not read (element locks, sizes, ghosts) change. -/
theorem thinv_congr {hash : Nat → Nat} {sh sh' : Sh} {t' : Tid} {th : Th} (hT : ThInv hash sh t' th)
    (hb : sh'.bkt = sh.bkt) (hl : sh'.blk = sh.blk) (hv : sh'.lvl = sh.lvl) (hs : sh'.seg = sh.seg) : ThInv hash sh' t' th :=
  thinv_transfer hT (fun f hf => by have := hT.heldB f hf; unfold HoldsB at *; rw [hl]; exact this)
    (fun f _ => by rw [hb]) (fun b h => by rw [hb]; exact h) (fun b h => by rw [hb]; exact h) (by rw [hv]; exact Nat.le_refl _)
    (fun k h => by rw [hs]; exact h) (fun h b _ _ ha => by unfold AboveNC at *; rw [hb]; exact ha) (fun _ => hv)

theorem shinv_congr {hash : Nat → Nat} {sh sh' : Sh} (hS : ShInv hash sh)
    (hb : sh'.bkt = sh.bkt) (hl : sh'.blk = sh.blk) (hv : sh'.lvl = sh.lvl) (hs : sh'.seg = sh.seg) : ShInv hash sh' := by
  have hc : ∀ b, sh'.chainOf b = sh.chainOf b := fun b => by unfold Sh.chainOf; rw [hb]
  refine ⟨by rw [hv]; exact hS.lvl_pos, by rw [hb]; exact hS.emb, by rw [hb, hv]; exact hS.top, by rw [hb]; exact hS.closed, ?_,
    fun b => by rw [hc]; exact hS.nodup b, by rw [hl]; exact hS.bwf, by rw [hb, hl]; exact hS.pend, by rw [hv, hs]; exact hS.seg_lo⟩
  intro b n hn
  rw [hc] at hn
  obtain ⟨⟨l, h1, h2⟩, h3, h4⟩ := hS.home b n hn
  exact ⟨⟨l, by rw [hv]; exact h1, h2⟩, by rw [hb]; exact h3, by unfold AboveNC at *; rw [hb]; exact h4⟩

end TbbVerif.C10
