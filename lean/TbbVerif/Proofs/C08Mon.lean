/- C08 — generic facts about the sleep/wake hand-shake sub-machines (`waitStep`, `notifyStep`) shared by the models of
tbb::mutex and tbb::rw_mutex: a waiter that a notifier removed from the wait set always has its wake-up in flight. -/
import TbbVerif.Model.C08S

namespace TbbVerif.C08.Slp

def fupd (f : Tid → WT) (t : Tid) (x : WT) : Tid → WT := fun i => if i = t then x else f i

@[simp] theorem fupd_same (f : Tid → WT) (t : Tid) (x : WT) : fupd f t x t = x := by simp [fupd]
theorem fupd_other (f : Tid → WT) (t i : Tid) (x : WT) (h : i ≠ t) : fupd f t x i = f i := by simp [fupd, h]

/-- the thread has queued its node (prepare_wait done) and has neither consumed a wake-up nor removed itself -/
def staged (x : WT) : Prop :=
  x.w = .chk ∨ x.w = .commit ∨ x.w = .sleep ∨ (∃ a, x.w = .cancel a) ∨ (∃ a, x.w = .pump a)

/-- queued before, but no longer in the wait set: some notifier has removed it -/
def NeedsV (m : Mon) (f : Tid → WT) (w : Tid) : Prop := staged (f w) ∧ inSet m.waitset w = false

/-- its semaphore has been V'ed, or a notifier that removed it is about to V it -/
def InFlight (m : Mon) (f : Tid → WT) (w : Tid) : Prop := w ∈ m.posted ∨ ∃ n, (f n).n = .v ∧ w ∈ (f n).toWake

def WakeInFlight (m : Mon) (f : Tid → WT) : Prop := ∀ w, NeedsV m f w → InFlight m f w

theorem inSet_iff (ws : List (Tid × Nat)) (w : Tid) : inSet ws w = true ↔ ∃ c, (w, c) ∈ ws := by
  simp only [inSet, List.any_eq_true]
  constructor
  · rintro ⟨⟨a, c⟩, hm, he⟩; simp at he; subst he; exact ⟨c, hm⟩
  · rintro ⟨c, hm⟩; exact ⟨(w, c), hm, by simp⟩

theorem inSet_false_iff (ws : List (Tid × Nat)) (w : Tid) : inSet ws w = false ↔ ∀ c, (w, c) ∉ ws := by
  rw [← Bool.not_eq_true, inSet_iff]; simp

theorem inSet_append (ws : List (Tid × Nat)) (t w : Tid) (c : Nat) : inSet (ws ++ [(t, c)]) w = (inSet ws w || t == w) := by
  simp [inSet]

theorem inSet_filter_ne (ws : List (Tid × Nat)) (t w : Tid) (h : w ≠ t) : inSet (ws.filter (·.1 != t)) w = inSet ws w := by
  rw [Bool.eq_iff_iff, inSet_iff, inSet_iff]
  constructor
  · rintro ⟨c, hc⟩; exact ⟨c, (List.mem_filter.mp hc).1⟩
  · rintro ⟨c, hc⟩; exact ⟨c, List.mem_filter.mpr ⟨hc, by simp [h]⟩⟩

theorem inSet_filter_self (ws : List (Tid × Nat)) (t : Tid) : inSet (ws.filter (·.1 != t)) t = false := by
  rw [inSet_false_iff]; intro c hc
  have := (List.mem_filter.mp hc).2; simp at this

theorem inSet_filter_rem (ws : List (Tid × Nat)) (rem : List Tid) (w : Tid)
    (h : inSet (ws.filter (fun e => !rem.contains e.1)) w = false) : inSet ws w = false ∨ w ∈ rem := by
  by_cases hw : w ∈ rem
  · exact Or.inr hw
  · left
    rw [inSet_false_iff] at h ⊢
    intro c hc
    exact h c (List.mem_filter.mpr ⟨hc, by simp [hw]⟩)

theorem inSet_filter_rem' (ws : List (Tid × Nat)) (rem : List Tid) (w : Tid)
    (h : inSet (ws.filter (fun e => !rem.contains e.1)) w = true) : inSet ws w = true ∧ w ∉ rem := by
  rw [inSet_iff] at h ⊢
  obtain ⟨c, hc⟩ := h
  have := List.mem_filter.mp hc
  exact ⟨⟨c, this.1⟩, by simpa using this.2⟩

theorem wake_wait (t : Tid) (word : Nat) (cond : Bool) (ctx sm : Nat) (redo : Bool) (m : Mon) (f : Tid → WT)
    (h : WakeInFlight m f) :
    WakeInFlight (waitStep t word cond ctx sm redo m (f t)).1 (fupd f t (waitStep t word cond ctx sm redo m (f t)).2.1) := by
  intro w ⟨hs, hi⟩
  -- the stepping thread keeps its notifier fields
  have keepn : (waitStep t word cond ctx sm redo m (f t)).2.1.n = (f t).n ∧ (waitStep t word cond ctx sm redo m (f t)).2.1.toWake = (f t).toWake := by
    unfold waitStep; split <;> (try split) <;> (try split) <;> (try split) <;> simp
  have lift : InFlight m f w → (w ∈ m.posted → w ∈ (waitStep t word cond ctx sm redo m (f t)).1.posted) →
      InFlight (waitStep t word cond ctx sm redo m (f t)).1 (fupd f t (waitStep t word cond ctx sm redo m (f t)).2.1) w := by
    intro hif hp
    rcases hif with a | ⟨n, a, b⟩
    · exact Or.inl (hp a)
    · right; refine ⟨n, ?_⟩
      by_cases e : n = t
      · subst e; simp [keepn.1, keepn.2, a, b]
      · rw [fupd_other _ _ _ _ e]; exact ⟨a, b⟩
  by_cases e : w = t
  · subst e
    simp only [fupd_same] at hs
    -- case analysis on the stage of the stepping thread
    unfold waitStep at hs hi ⊢
    unfold staged at hs
    cases hw : (f w).w with
    | none => simp [hw] at hs
    | spin k => simp [hw] at hs; split at hs <;> (try split at hs) <;> simp at hs
    | enq => simp [hw, inSet_append] at hs hi
    | chk =>
      simp [hw] at hi ⊢
      have := h w ⟨Or.inl hw, hi⟩
      rcases this with a | ⟨n, a, b⟩
      · exact Or.inl a
      · right; refine ⟨n, ?_⟩
        by_cases e : n = w
        · subst e; simp [fupd]; exact ⟨a, b⟩
        · rw [fupd_other _ _ _ _ e]; exact ⟨a, b⟩
    | commit =>
      simp [hw] at hi ⊢
      have := h w ⟨Or.inr (Or.inl hw), hi⟩
      rcases this with a | ⟨n, a, b⟩
      · exact Or.inl a
      · right; refine ⟨n, ?_⟩
        by_cases e : n = w
        · subst e; simp [fupd]; exact ⟨a, b⟩
        · rw [fupd_other _ _ _ _ e]; exact ⟨a, b⟩
    | sleep =>
      simp only [hw] at hs hi ⊢
      split at hs
      · split at hs <;> simp at hs
      · rename_i hp
        simp only [hp] at hi ⊢
        simp at hi ⊢
        have := h w ⟨Or.inr (Or.inr (Or.inl hw)), hi⟩
        rcases this with a | ⟨n, a, b⟩
        · exact Or.inl a
        · right; refine ⟨n, ?_⟩
          by_cases e : n = w
          · subst e; simp [fupd]; exact ⟨a, b⟩
          · rw [fupd_other _ _ _ _ e]; exact ⟨a, b⟩
    | cancel again =>
      simp only [hw] at hs hi ⊢
      split at hs
      · split at hs
        · simp at hs
        · split at hs <;> simp at hs
      · rename_i hp
        simp only [hp] at hi ⊢
        simp at hi ⊢
        have hi' : inSet m.waitset w = false := by simpa using hp
        have := h w ⟨Or.inr (Or.inr (Or.inr (Or.inl ⟨again, hw⟩))), hi'⟩
        rcases this with a | ⟨n, a, b⟩
        · exact Or.inl a
        · right; refine ⟨n, ?_⟩
          by_cases e : n = w
          · subst e; simp [fupd]; exact ⟨a, b⟩
          · rw [fupd_other _ _ _ _ e]; exact ⟨a, b⟩
    | pump again =>
      simp only [hw] at hs hi ⊢
      split at hs
      · split at hs
        · simp at hs
        · split at hs <;> simp at hs
      · rename_i hp
        simp only [hp] at hi ⊢
        simp at hi ⊢
        have := h w ⟨Or.inr (Or.inr (Or.inr (Or.inr ⟨again, hw⟩))), hi⟩
        rcases this with a | ⟨n, a, b⟩
        · exact Or.inl a
        · right; refine ⟨n, ?_⟩
          by_cases e : n = w
          · subst e; simp [fupd]; exact ⟨a, b⟩
          · rw [fupd_other _ _ _ _ e]; exact ⟨a, b⟩
    | rechk => simp [hw] at hs; split at hs <;> simp at hs
  · rw [fupd_other _ _ _ _ e] at hs
    -- another thread: its membership in the wait set and in `posted` is not affected by t's step
    have hi0 : inSet m.waitset w = false := by
      unfold waitStep at hi
      split at hi <;> (try split at hi) <;> (try split at hi) <;> (try split at hi) <;>
        first
        | exact hi
        | (simp only [inSet_append] at hi; simp at hi; exact hi.1)
        | (rw [inSet_filter_ne _ _ _ e] at hi; exact hi)
    refine lift (h w ⟨hs, hi0⟩) (fun hp => ?_)
    unfold waitStep
    split <;> (try split) <;> (try split) <;> (try split) <;>
      first
      | exact hp
      | exact (List.mem_erase_of_ne e).mpr hp


theorem wake_notify (t : Tid) (m : Mon) (f : Tid → WT) (h : WakeInFlight m f) :
    WakeInFlight (notifyStep m (f t)).1 (fupd f t (notifyStep m (f t)).2.1) := by
  intro w ⟨hs, hi⟩
  have keepw : (notifyStep m (f t)).2.1.w = (f t).w := by
    unfold notifyStep; split <;> (try split) <;> (try split) <;> (try split) <;> (try simp) <;> (split <;> rfl)
  have hs0 : staged (f w) := by
    by_cases e : w = t
    · subst e; simp only [fupd_same] at hs; unfold staged at hs ⊢; rw [keepw] at hs; exact hs
    · rw [fupd_other _ _ _ _ e] at hs; exact hs
  unfold notifyStep at hi ⊢
  cases hn : (f t).n with
  | none =>
    simp only [hn] at hi ⊢
    rcases h w ⟨hs0, hi⟩ with a | ⟨n, a, b⟩
    · exact Or.inl a
    · right; refine ⟨n, ?_⟩
      by_cases e : n = t
      · subst e; simp; exact ⟨a, b⟩
      · rw [fupd_other _ _ _ _ e]; exact ⟨a, b⟩
  | peek =>
    simp only [hn] at hi ⊢
    have hi0 : inSet m.waitset w = false := by
      split at hi
      · exact hi
      · split at hi <;> exact hi
    rcases h w ⟨hs0, hi0⟩ with a | ⟨n, a, b⟩
    · left; split
      · exact a
      · split <;> exact a
    · right; refine ⟨n, ?_⟩
      have e : n ≠ t := fun e => by subst e; rw [hn] at a; cases a
      rw [fupd_other _ _ _ _ e]; exact ⟨a, b⟩
  | flush =>
    simp only [hn] at hi ⊢
    have hi' : inSet (m.waitset.filter (fun e => !(selected (f t).nsel m.waitset).contains e.1)) w = false := by
      split at hi <;> exact hi
    rcases inSet_filter_rem _ _ _ hi' with hi0 | hrem
    · rcases h w ⟨hs0, hi0⟩ with a | ⟨n, a, b⟩
      · left; split <;> exact a
      · right; refine ⟨n, ?_⟩
        have e : n ≠ t := fun e => by subst e; rw [hn] at a; cases a
        rw [fupd_other _ _ _ _ e]; exact ⟨a, b⟩
    · right; refine ⟨t, ?_⟩
      have hne : (selected (f t).nsel m.waitset).isEmpty = false := by
        cases hq : selected (f t).nsel m.waitset with
        | nil => rw [hq] at hrem; cases hrem
        | cons a r => rfl
      simp [hne]; exact hrem
  | v =>
    simp only [hn] at hi ⊢
    cases htw : (f t).toWake with
    | nil =>
      simp only [htw] at hi ⊢
      rcases h w ⟨hs0, hi⟩ with a | ⟨n, a, b⟩
      · exact Or.inl a
      · right; refine ⟨n, ?_⟩
        have e : n ≠ t := fun e => by subst e; rw [htw] at b; cases b
        rw [fupd_other _ _ _ _ e]; exact ⟨a, b⟩
    | cons u r =>
      simp only [htw] at hi ⊢
      have hi0 : inSet m.waitset w = false := by split at hi <;> exact hi
      rcases h w ⟨hs0, hi0⟩ with a | ⟨n, a, b⟩
      · left; split <;> simp [a]
      · by_cases e : n = t
        · subst e
          rw [htw] at b
          simp at b
          rcases b with b | b
          · left; split <;> simp [b]
          · right; refine ⟨n, ?_⟩
            have : r.isEmpty = false := by cases r with | nil => cases b | cons _ _ => rfl
            simp [this]; exact b
        · right; refine ⟨n, ?_⟩
          rw [fupd_other _ _ _ _ e]; exact ⟨a, b⟩

/-- a step that leaves the monitor alone and does not start from / create a queued stage or a pending V list -/
theorem wake_other (t : Tid) (x' : WT) (m : Mon) (f : Tid → WT) (h : WakeInFlight m f)
    (h1 : staged x' → staged (f t)) (h2 : (f t).n = .v → x'.n = .v ∧ x'.toWake = (f t).toWake) :
    WakeInFlight m (fupd f t x') := by
  intro w ⟨hs, hi⟩
  have hs0 : staged (f w) := by
    by_cases e : w = t
    · subst e; simp only [fupd_same] at hs; exact h1 hs
    · rw [fupd_other _ _ _ _ e] at hs; exact hs
  rcases h w ⟨hs0, hi⟩ with a | ⟨n, a, b⟩
  · exact Or.inl a
  · right; refine ⟨n, ?_⟩
    by_cases e : n = t
    · subst e; simp only [fupd_same]; have := h2 a; exact ⟨this.1, by rw [this.2]; exact b⟩
    · rw [fupd_other _ _ _ _ e]; exact ⟨a, b⟩


/-! ### small facts about the sub-machines -/

theorem waitStep_keep (t : Tid) (word : Nat) (cond : Bool) (ctx sm : Nat) (redo : Bool) (m : Mon) (x : WT) :
    (waitStep t word cond ctx sm redo m x).2.1.n = x.n ∧ (waitStep t word cond ctx sm redo m x).2.1.toWake = x.toWake ∧
    (waitStep t word cond ctx sm redo m x).2.1.nsel = x.nsel ∧ (waitStep t word cond ctx sm redo m x).2.1.orc = x.orc ∧
    (waitStep t word cond ctx sm redo m x).1.epoch = m.epoch := by
  unfold waitStep; split <;> (try split) <;> (try split) <;> (try split) <;> simp

theorem waitStep_fin (t : Tid) (word : Nat) (cond : Bool) (ctx sm : Nat) (redo : Bool) (m : Mon) (x : WT)
    (h : (waitStep t word cond ctx sm redo m x).2.2.2 = true) : (waitStep t word cond ctx sm redo m x).2.1.w = .none ∨ x.w = .none := by
  unfold waitStep at h ⊢; split <;> (try split) <;> (try split) <;> (try split) <;> simp_all

theorem notifyStep_keep (m : Mon) (x : WT) : (notifyStep m x).2.1.w = x.w ∧ (notifyStep m x).2.1.nsel = x.nsel := by
  unfold notifyStep; split <;> (try split) <;> (try split) <;> (try split) <;> (try simp) <;> (split <;> simp)

theorem notifyStep_fin (m : Mon) (x : WT) (h : (notifyStep m x).2.2.2 = true) : (notifyStep m x).2.1.n = .none := by
  unfold notifyStep at h ⊢; split <;> (try split) <;> (try split) <;> (try split) <;> simp_all
  all_goals (split <;> simp_all)

/-- how a wait step changes the set of committed sleepers -/
theorem waitStep_set (t : Tid) (word : Nat) (cond : Bool) (ctx sm : Nat) (redo : Bool) (m : Mon) (x : WT) :
    (∀ w c, w ≠ t → ((w, c) ∈ (waitStep t word cond ctx sm redo m x).1.waitset ↔ (w, c) ∈ m.waitset)) ∧
    (((waitStep t word cond ctx sm redo m x).2.1.w = .commit ∨ (waitStep t word cond ctx sm redo m x).2.1.w = .sleep) →
       ((x.w = .commit ∨ x.w = .sleep) ∨ (x.w = .chk ∧ cond = false)) ∧
       (waitStep t word cond ctx sm redo m x).1.waitset = m.waitset) := by
  unfold waitStep
  cases hw : x.w with
  | none => simp [hw]
  | spin k => simp only []; split <;> (try split) <;> simp
  | enq => simp; intro w c hne a; exact absurd a hne
  | chk => cases cond <;> simp
  | commit => simp
  | sleep => simp only []; split <;> (try split) <;> simp [hw]
  | cancel again =>
    simp only []
    split
    · have hf : ∀ w c, w ≠ t → ((w, c) ∈ m.waitset.filter (·.1 != t) ↔ (w, c) ∈ m.waitset) := by
        intro w c hne; rw [List.mem_filter]; simp [hne]
      split
      · exact ⟨hf, by simp⟩
      · split <;> exact ⟨hf, by simp⟩
    · simp
  | pump again => simp only []; split <;> (try split) <;> (try split) <;> simp [hw]
  | rechk => simp only []; split <;> simp

end TbbVerif.C08.Slp
