/- C09 — the auxiliary global invariant `AGb` under each protocol effect. -/
import TbbVerif.Proofs.C09.Stamps

namespace TbbVerif.C09

theorem Grow_refl (g : G) : Grow g g := ⟨fun _ h => h, fun _ _ => rfl, fun _ _ => rfl, fun _ _ => rfl, fun _ => Nat.le_refl _, fun h => h⟩

/-- effects that touch none of: pushLog, head, popTime, done, crashed, cap, flags, item slots -/
theorem AGb_frame (g g' : G) (b : Nat) (h : AGb g b) (hP : PInv g.toP) (gr : Grow g g')
    (e1 : g'.pushLog = g.pushLog) (e2 : g'.head = g.head) (e3 : g'.popTime = g.popTime) (e4 : g'.done = g.done)
    (e5 : g'.crashed = g.crashed ∧ g'.noPage = g.noPage) (e6 : g'.cap = g.cap) (e7 : capOK g' → capOK g)
    (e8 : ∀ k v, g'.slot k = .item v → g.slot k = .item v ∨ (capOK g → (k : Int) < g.head + g.cap)) : AGb g' b := by
  refine ⟨?_, ?_, ?_, ?_, ?_, ?_, ?_⟩
  · intro k r hk; rw [e1] at hk; exact h.pushT k r hk
  · intro k k' r r' hkk hk hk'; rw [e1] at hk hk'; exact h.pushMono k k' r r' hkk hk hk'
  · intro x hx; rw [e2] at hx; rw [e3]; exact h.popT x hx
  · intro x y hxy hy; rw [e2] at hy; rw [e3]; exact h.popMono x y hxy hy
  · intro d hd; rw [e4] at hd; exact DoneOK_grow g g' b d (h.done d hd) hP gr
  · rw [e5.1, e5.2]; exact h.noCrash
  · intro hc k v hk
    rw [e2, e6]
    rcases e8 k v hk with a | a
    · exact h.capB (e7 hc) k v a
    · exact a (e7 hc)

theorem AGb_takeTail (g : G) (b tid v : Nat) (h : AGb g b) (hb : b < g.now) (hP : PInv g.toP) (unb : Bool) :
    AGb { takeTail g tid v with unb := g.unb || unb } g.now := by
  have hw := AGb_weaken g b g.now h (Nat.le_of_lt hb)
  have gr : Grow g { takeTail g tid v with unb := g.unb || unb } :=
    ⟨fun _ hx => hx, fun _ _ => rfl, fun _ _ => rfl,
     fun k hk => pushTime_append g _ k (slot_lt_len g hP k hk) _ rfl, fun _ => Nat.le_refl _, fun hx => hx⟩
  refine ⟨?_, ?_, hw.popT, hw.popMono, fun d hd => DoneOK_grow g _ _ d (hw.done d hd) hP gr, hw.noCrash, ?_⟩
  · intro k r hk
    simp only [takeTail] at hk
    rcases Nat.lt_or_ge k g.pushLog.length with hl | hl
    · rw [List.getElem?_append_left hl] at hk; exact hw.pushT k r hk
    · rw [List.getElem?_append_right hl] at hk
      cases hi : k - g.pushLog.length with
      | zero => simp [hi] at hk; subst hk; exact Nat.le_refl _
      | succ n => simp [hi] at hk
  · intro k k' r r' hkk hk hk'
    simp only [takeTail] at hk hk'
    have hl' : k' < g.pushLog.length + 1 := by
      have := lt_of_getElem?_some hk'; simpa using this
    rcases Nat.lt_or_ge k' g.pushLog.length with hl | hl
    · rw [List.getElem?_append_left hl] at hk'
      rw [List.getElem?_append_left (by omega)] at hk
      exact h.pushMono k k' r r' hkk hk hk'
    · have : k' = g.pushLog.length := by omega
      subst this
      rw [List.getElem?_append_left hkk] at hk
      simp at hk'
      subst hk'
      have := h.pushT k r hk
      simp only; omega
  · intro hc k w hk
    have hc0 : capOK g := by
      simp only [capOK, Bool.or_eq_false_iff] at hc
      exact ⟨hc.1, hc.2.1, hc.2.2.1⟩
    exact h.capB hc0 k w hk

theorem AGb_takeHead (g : G) (b tid : Nat) (h : AGb g b) (hb : b < g.now) (hP : PInv g.toP) : AGb (takeHead g tid) g.now := by
  have hw := AGb_weaken g b g.now h (Nat.le_of_lt hb)
  have gr : Grow g (takeHead g tid) :=
    ⟨fun _ hx => hx, fun x hx => by have := hP.consLt x hx; simp only [takeHead, upd]; rw [if_neg (by omega)],
     fun _ _ => rfl, fun _ _ => rfl, fun _ => Nat.le_refl _, fun hx => hx⟩
  refine ⟨hw.pushT, hw.pushMono, ?_, ?_, fun d hd => DoneOK_grow g _ _ d (hw.done d hd) hP gr, hw.noCrash, ?_⟩
  · intro x hx
    simp only [takeHead, upd] at hx ⊢
    split
    · exact Nat.le_refl _
    · exact hw.popT x (by omega)
  · intro x y hxy hy
    simp only [takeHead, upd] at hy ⊢
    rw [if_neg (by omega)]
    split
    · have := h.popT x (by omega); omega
    · exact h.popMono x y hxy (by omega)
  · intro hc k w hk
    have := h.capB hc k w hk
    simp only [takeHead]; omega

theorem AGb_invalidate (g : G) (b k : Nat) (h : AGb g b) (hP : PInv g.toP) (hp : g.slot k = .pending) : AGb (invalidate g k) b := by
  have hs : ∀ x, g.slot x ≠ .pending → (invalidate g k).slot x = g.slot x := by
    intro x hx; simp only [invalidate, upd]; rw [if_neg (by intro e; subst e; exact hx hp)]
  refine AGb_frame g _ b h hP ⟨fun _ hx => hx, fun _ _ => rfl, hs, fun _ _ => rfl, fun _ => Nat.le_refl _, fun hx => hx⟩
    rfl rfl rfl rfl ⟨rfl, rfl⟩ rfl (fun hc => hc) ?_
  intro x w hx
  simp only [invalidate, upd] at hx
  by_cases e : x = k
  · simp [e] at hx
  · rw [if_neg e] at hx; exact Or.inl hx

theorem AGb_maskStore (g : G) (b k v m' : Nat) (h : AGb g b) (hP : PInv g.toP) (hp : g.slot k = .pending)
    (hgate : capOK g → (k : Int) < g.head + g.cap) : AGb (maskStore g k v m') b := by
  have hs : ∀ x, g.slot x ≠ .pending → (maskStore g k v m').slot x = g.slot x := by
    intro x hx; simp only [maskStore, upd]; rw [if_neg (by intro e; subst e; exact hx hp)]
  refine AGb_frame g _ b h hP ⟨fun _ hx => hx, fun _ _ => rfl, hs, fun _ _ => rfl, fun _ => Nat.le_refl _, fun hx => hx⟩
    rfl rfl rfl rfl ⟨rfl, rfl⟩ rfl (fun hc => hc) ?_
  intro x w hx
  simp only [maskStore, upd] at hx
  by_cases e : x = k
  · subst e; exact Or.inr hgate
  · rw [if_neg e] at hx; exact Or.inl hx

theorem AGb_advTail (g : G) (b k : Nat) (h : AGb g b) (hP : PInv g.toP) : AGb (advTail g k) b := by
  refine AGb_frame g _ b h hP ⟨fun _ hx => hx, fun _ _ => rfl, fun _ _ => rfl, fun _ _ => rfl, ?_, fun hx => hx⟩
    rfl rfl rfl rfl ⟨rfl, rfl⟩ rfl (fun hc => hc) (fun _ _ hx => Or.inl hx)
  intro l; simp only [advTail, upd]; split
  · rename_i e; subst e; omega
  · exact Nat.le_refl _

theorem AGb_popMove (g : G) (b hd v : Nat) (h : AGb g b) (hP : PInv g.toP) : AGb (popMove g hd v) b :=
  AGb_frame g _ b h hP ⟨fun _ hx => by simp only [popMove, List.mem_append]; exact Or.inl hx, fun _ _ => rfl, fun _ _ => rfl,
    fun _ _ => rfl, fun _ => Nat.le_refl _, fun hx => hx⟩ rfl rfl rfl rfl ⟨rfl, rfl⟩ rfl (fun hc => hc) (fun _ _ hx => Or.inl hx)

theorem AGb_skipInv (g : G) (b hd : Nat) (h : AGb g b) (hP : PInv g.toP) : AGb (skipInv g hd) b :=
  AGb_frame g _ b h hP (Grow_refl g |> fun gr => ⟨gr.pop, gr.popT, gr.slot, gr.pushTm, gr.ltail, gr.und⟩)
    rfl rfl rfl rfl ⟨rfl, rfl⟩ rfl (fun hc => hc) (fun _ _ hx => Or.inl hx)

theorem AGb_advHead (g : G) (b hd : Nat) (h : AGb g b) (hP : PInv g.toP) : AGb (advHead g hd) b :=
  AGb_frame g _ b h hP (Grow_refl g |> fun gr => ⟨gr.pop, gr.popT, gr.slot, gr.pushTm, gr.ltail, gr.und⟩)
    rfl rfl rfl rfl ⟨rfl, rfl⟩ rfl (fun hc => hc) (fun _ _ hx => Or.inl hx)

theorem AGb_undoHead (g : G) (b hd : Nat) (h : AGb g b) (hP : PInv g.toP) : AGb (undoHead g hd) b := by
  have gr : Grow g (undoHead g hd) :=
    ⟨fun _ hx => hx, fun _ _ => rfl, fun _ _ => rfl, fun _ _ => rfl, fun _ => Nat.le_refl _, fun hx => by simp [undoHead] at hx⟩
  refine ⟨h.pushT, h.pushMono, ?_, ?_, fun d hd' => DoneOK_grow g _ _ d (h.done d hd') hP gr, h.noCrash, ?_⟩
  · intro x hx; simp only [undoHead] at hx; exact h.popT x (by omega)
  · intro x y hxy hy; simp only [undoHead] at hy; exact h.popMono x y hxy (by omega)
  · intro hc; simp [capOK, undoHead] at hc

/-- changes of `cap`, `abortCnt`, `capSet` only -/
theorem AGb_setCap (g : G) (b : Nat) (c : Int) (h : AGb g b) (hP : PInv g.toP) : AGb { g with cap := c, capSet := true } b := by
  refine ⟨h.pushT, h.pushMono, h.popT, h.popMono, fun d hd => DoneOK_grow g _ _ d (h.done d hd) hP ?_, h.noCrash, ?_⟩
  · exact ⟨fun _ hx => hx, fun _ _ => rfl, fun _ _ => rfl, fun _ _ => rfl, fun _ => Nat.le_refl _, fun hx => hx⟩
  · intro hc; simp [capOK] at hc

theorem AGb_abortCnt (g : G) (b n : Nat) (h : AGb g b) (hP : PInv g.toP) : AGb { g with abortCnt := n } b :=
  AGb_frame g _ b h hP (Grow_refl g |> fun gr => ⟨gr.pop, gr.popT, gr.slot, gr.pushTm, gr.ltail, gr.und⟩)
    rfl rfl rfl rfl ⟨rfl, rfl⟩ rfl (fun hc => hc) (fun _ _ hx => Or.inl hx)

theorem AGb_flush (g : G) (b n m : Nat) (h : AGb g b) (hP : PInv g.toP) : AGb { g with flushPop := n, flushPush := m } b :=
  AGb_frame g _ b h hP (Grow_refl g |> fun gr => ⟨gr.pop, gr.popT, gr.slot, gr.pushTm, gr.ltail, gr.und⟩)
    rfl rfl rfl rfl ⟨rfl, rfl⟩ rfl (fun hc => hc) (fun _ _ hx => Or.inl hx)

/-- recording a completed operation -/
theorem AGb_finish (g : G) (tid : Nat) (t : Th) (op : Op) (res : Res) (lin : Nat) (wit : Bool) (h : AGb g g.now) (hP : PInv g.toP)
    (hd : DoneOK g g.now { tid := tid, op := op, res := res, ticket := t.k, inv := t.inv, lin := lin, resp := g.now, wit := wit }) :
    AGb (finish g tid t op res lin wit).1 g.now := by
  have gr : Grow g (finish g tid t op res lin wit).1 := Grow_refl g |> fun gr => ⟨gr.pop, gr.popT, gr.slot, gr.pushTm, gr.ltail, gr.und⟩
  refine ⟨h.pushT, h.pushMono, h.popT, h.popMono, ?_, h.noCrash, h.capB⟩
  intro d hd'
  simp only [finish, List.mem_append, List.mem_singleton] at hd'
  rcases hd' with a | a
  · exact DoneOK_grow g _ _ d (h.done d a) hP gr
  · subst a; exact DoneOK_grow g _ _ _ hd hP gr

end TbbVerif.C09
