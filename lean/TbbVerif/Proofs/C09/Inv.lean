/-
C09 — the safety invariant of the ticket protocol, and its preservation by each kind of protocol effect.
Everything is conditional on `ok` (no aborted pop has undone `head_counter` out of order, no page allocation has
failed): those two events are exactly the as-coded behaviours after which the protocol is no longer safe
(Props/C09.lean has the witnesses).
-/
import TbbVerif.Proofs.C09.Arith

namespace TbbVerif.C09

/-! ### protocol effects on `P` -/

def P.takeTail (p : P) (r : PRec) : P := { p with pushLog := p.pushLog ++ [r] }
def P.takeHead (p : P) (tid : Nat) : P := { p with head := p.head + 1, popOwner := upd p.popOwner p.head tid }
def P.invalidate (p : P) (k : Nat) : P :=
  { p with ninv := p.ninv + 1, slot := upd p.slot k .invalid, invLog := p.invLog ++ [k] }
def P.maskStore (p : P) (k v m' : Nat) : P :=
  { p with mask := upd2 p.mask (lane k) (pageOf p.ipp k) m', slot := upd p.slot k (.item v) }
def P.advTail (p : P) (k : Nat) : P := { p with ltail := upd p.ltail (lane k) (p.ltail (lane k) + nq) }
def P.popMove (p : P) (h v : Nat) : P := { p with popLog := p.popLog ++ [(h, v)] }
def P.skipInv (p : P) (h : Nat) : P :=
  { p with ninv := p.ninv - 1, skipLog := p.skipLog ++ [h], underflow := p.underflow || p.ninv == 0 }
def P.advHead (p : P) (h : Nat) : P := { p with lhead := upd p.lhead (lane h) (base h + nq) }
def P.undoHead (p : P) (h : Nat) : P := { p with head := p.head - 1, hazard := p.hazard || (h + 1 != p.head) }

theorem takeTail_toP (g : G) (tid v : Nat) : (takeTail g tid v).toP = g.toP.takeTail ⟨v, tid, g.now⟩ := rfl
theorem takeHead_toP (g : G) (tid : Nat) : (takeHead g tid).toP = g.toP.takeHead tid := rfl
theorem invalidate_toP (g : G) (k : Nat) : (invalidate g k).toP = g.toP.invalidate k := rfl
theorem maskStore_toP (g : G) (k v m' : Nat) : (maskStore g k v m').toP = g.toP.maskStore k v m' := rfl
theorem advTail_toP (g : G) (k : Nat) : (advTail g k).toP = g.toP.advTail k := rfl
theorem popMove_toP (g : G) (h v : Nat) : (popMove g h v).toP = g.toP.popMove h v := rfl
theorem skipInv_toP (g : G) (h : Nat) : (skipInv g h).toP = g.toP.skipInv h := rfl
theorem advHead_toP (g : G) (h : Nat) : (advHead g h).toP = g.toP.advHead h := rfl
theorem undoHead_toP (g : G) (h : Nat) : (undoHead g h).toP = g.toP.undoHead h := rfl

/-! ### the invariant -/

def consumed (p : P) (h : Nat) : Prop := h ∈ p.popLog.map Prod.fst ∨ h ∈ p.skipLog

def ok (p : P) : Prop := p.hazard = false ∧ p.poisoned = false

structure PInv (p : P) : Prop where
  ippPos : 0 < p.ipp
  lmod : ∀ l, p.ltail l % nq = 0 ∧ p.lhead l % nq = 0
  lle : ∀ l, p.lhead l ≤ p.ltail l
  pub : ∀ k, base k < p.ltail (lane k) → p.slot k ≠ .pending
  slotLt : ∀ k, p.slot k ≠ .pending → k < p.tail
  maskBit : ∀ k, (p.mask (lane k) (pageOf p.ipp k)).testBit (idx p.ipp k) = true ↔ ∃ v, p.slot k = .item v
  popItem : ∀ h v, (h, v) ∈ p.popLog → p.slot h = .item v
  skipInvalid : ∀ h, h ∈ p.skipLog → p.slot h = .invalid
  passed : ∀ h, base h < p.lhead (lane h) → consumed p h
  consLt : ∀ h, consumed p h → h < p.head
  nodupPop : (p.popLog.map Prod.fst).Nodup
  nodupSkip : p.skipLog.Nodup
  disj : ∀ x, x ∈ p.popLog.map Prod.fst → x ∉ p.skipLog
  invLogIff : ∀ k, k ∈ p.invLog ↔ p.slot k = .invalid
  invNodup : p.invLog.Nodup
  ninvEq : p.ninv + p.skipLog.length = p.invLog.length
  slotVal : ∀ k v, p.slot k = .item v → ∃ r, p.pushLog[k]? = some r ∧ r.v = v
  noUnder : p.underflow = false

def holdsT : Pc → Bool
  | .pAlloc1 | .pTurn | .pCons | .pMaskSt | .pAdv _ | .bGate | .bPredA | .bPredH | .bBlocked
  | .bAbTurn | .bAbInv | .bAbAdv => true
  | _ => false
def prePub : Pc → Bool
  | .pAlloc1 | .pTurn | .pCons | .pMaskSt | .bGate | .bPredA | .bPredH | .bBlocked | .bAbTurn | .bAbInv => true
  | _ => false
def atTurnT : Pc → Bool
  | .pCons | .pMaskSt | .pAdv _ | .bAbInv | .bAbAdv => true
  | _ => false
def holdsH : Pc → Bool
  | .lHead | .lTail | .lMask | .lMove | .lInv | .lFin _ | .qGate | .qPredA | .qPredT | .qBlocked | .qUndo => true
  | _ => false
def preCons : Pc → Bool
  | .lHead | .lTail | .lMask | .lMove | .lInv | .qGate | .qPredA | .qPredT | .qBlocked | .qUndo => true
  | _ => false
def atTurnH : Pc → Bool
  | .lTail | .lMask | .lMove | .lInv | .lFin _ => true
  | _ => false
def pubSeen : Pc → Bool
  | .lMask | .lMove | .lInv | .lFin _ => true
  | _ => false
def deadPc : Pc → Bool
  | .pAlloc2 | .pBadLast => true
  | _ => false

def opVal : List Op → Option Nat
  | .push v _ :: _ => some v
  | .bpush v _ :: _ => some v
  | .btryPush v _ :: _ => some v
  | _ => none

structure TInv (p : P) (tid : Nat) (t : Th) : Prop where
  alive : deadPc t.pc = false
  ownT : holdsT t.pc = true → ∃ r, p.pushLog[t.k]? = some r ∧ r.tid = tid ∧ opVal t.ops = some r.v
  pend : prePub t.pc = true → p.slot t.k = .pending
  turnT : atTurnT t.pc = true → p.ltail (lane t.k) = base t.k
  mval : t.pc = .pMaskSt → t.m = p.mask (lane t.k) (pageOf p.ipp t.k)
  advOk : t.pc = .pAdv true → ∃ v, p.slot t.k = .item v
  advBad : t.pc = .pAdv false ∨ t.pc = .bAbAdv → p.slot t.k = .invalid
  ownH : holdsH t.pc = true → t.k < p.head ∧ p.popOwner t.k = tid
  fresh : preCons t.pc = true → ¬ consumed p t.k
  turnH : atTurnH t.pc = true → p.lhead (lane t.k) = base t.k
  seen : pubSeen t.pc = true → base t.k < p.ltail (lane t.k)
  mvItem : t.pc = .lMove → ∃ v, p.slot t.k = .item v
  invSlot : t.pc = .lInv → p.slot t.k = .invalid
  fin : ∀ r, t.pc = .lFin r → consumed p t.k ∧ ∀ v, r = some v → (t.k, v) ∈ p.popLog

theorem prePub_holdsT {pc : Pc} (h : prePub pc = true) : holdsT pc = true := by cases pc <;> simp_all [prePub, holdsT]
theorem atTurnT_holdsT {pc : Pc} (h : atTurnT pc = true) : holdsT pc = true := by cases pc <;> simp_all [atTurnT, holdsT]
theorem preCons_holdsH {pc : Pc} (h : preCons pc = true) : holdsH pc = true := by cases pc <;> simp_all [preCons, holdsH]
theorem atTurnH_holdsH {pc : Pc} (h : atTurnH pc = true) : holdsH pc = true := by cases pc <;> simp_all [atTurnH, holdsH]
theorem pubSeen_atTurnH {pc : Pc} (h : pubSeen pc = true) : atTurnH pc = true := by cases pc <;> simp_all [pubSeen, atTurnH]

/-- the whole invariant -/
def Inv (s : St) : Prop := ok s.g.toP → PInv s.g.toP ∧ ∀ j t, s.ths[j]? = some t → TInv s.g.toP j t

/-! ### small helpers -/

theorem upd_same {α : Type} (f : Nat → α) (i : Nat) (x : α) : upd f i x i = x := by simp [upd]
theorem upd_other {α : Type} (f : Nat → α) (i j : Nat) (x : α) (h : j ≠ i) : upd f i x j = f j := by simp [upd, h]

theorem getElem?_append_some {α : Type} {l m : List α} {k : Nat} {r : α} (h : l[k]? = some r) : (l ++ m)[k]? = some r := by
  have hlt : k < l.length := by
    rcases Nat.lt_or_ge k l.length with h' | h'
    · exact h'
    · rw [List.getElem?_eq_none_iff.2 h'] at h; cases h
  rw [List.getElem?_append_left hlt]; exact h

/-- different owners hold different tail tickets -/
theorem tail_ticket_ne {p : P} {i j : Nat} {t u : Th} (hi : TInv p i t) (hj : TInv p j u) (hne : j ≠ i)
    (ht : holdsT t.pc = true) (hu : holdsT u.pc = true) : u.k ≠ t.k := by
  intro e
  obtain ⟨r, h1, h2, _⟩ := hi.ownT ht
  obtain ⟨r', h1', h2', _⟩ := hj.ownT hu
  rw [e, h1] at h1'
  cases h1'
  omega

theorem head_ticket_ne {p : P} {i j : Nat} {t u : Th} (hi : TInv p i t) (hj : TInv p j u) (hne : j ≠ i)
    (ht : holdsH t.pc = true) (hu : holdsH u.pc = true) : u.k ≠ t.k := by
  intro e
  have h1 := (hi.ownH ht).2
  have h2 := (hj.ownH hu).2
  rw [e] at h2
  omega

theorem nodup_subset_length : ∀ (l₁ l₂ : List Nat), l₁.Nodup → (∀ x, x ∈ l₁ → x ∈ l₂) → l₁.length ≤ l₂.length := by
  intro l₁
  induction l₁ with
  | nil => intro l₂ _ _; simp
  | cons a l ih =>
    intro l₂ hn hs
    have ha : a ∈ l₂ := hs a (by simp)
    rw [List.nodup_cons] at hn
    have h2 : ∀ x, x ∈ l → x ∈ l₂.erase a := by
      intro x hx
      have hxa : x ≠ a := by intro e; subst e; exact hn.1 hx
      exact (List.mem_erase_of_ne hxa).2 (hs x (by simp [hx]))
    have := ih (l₂.erase a) hn.2 h2
    rw [List.length_erase_of_mem ha] at this
    have : 0 < l₂.length := List.length_pos_of_mem ha
    simp only [List.length_cons]
    omega

end TbbVerif.C09
