/-
C09 — page life cycle: every step of `prepare_page` / `push` preserves the invariant (lane facts, the stepping thread's own
facts, and the facts every other thread relies on).
-/
import TbbVerif.Proofs.C09.PgInv

namespace TbbVerif.C09.Pg

/-- effect of one step of a push of round `(n, i)` by thread `a` on the lane facts and on everybody else -/
structure PStep (l : Lane) (a : Nat) (n i : Nat) (l' : Lane) : Prop where
  g : LInv l'
  fut : ∀ o, futOK l o → pushRound o ≠ some (n, i) → futOK l' o
  pu : ∀ b tb n' i' v' f', b ≠ a → ¬(n' = n ∧ i' = i) → PushLoc l b tb n' i' v' f' → PushLoc l' b tb n' i' v' f'
  po : ∀ b tb n' i', b ≠ a → PopLoc l b tb n' i' → PopLoc l' b tb n' i'

theorem PStep.refl {l : Lane} (hg : LInv l) (a n i : Nat) : PStep l a n i l :=
  ⟨hg, fun _ h _ => h, fun _ _ _ _ _ _ _ _ h => h, fun _ _ _ _ _ h => h⟩

/-- `omega` after reducing the projections of updated records -/
macro "om" : tactic => `(tactic| ((try dsimp only [setNext, setMask, setSlot] at *); omega))

macro "selfc" : tactic =>
  `(tactic| (constructor <;> first
    | (intro h; simp [isPushPc, isPopPc, pendPc, secP, lockP, mxP, idleP, linkedP, rawP, builtP, secC, mv0C, mv1C, ltC, pgC, lastC,
        u0C, u1C, mxC, idleC] at h; done)
    | skip))

theorem mxP_sec {pc : Pc} (h : mxP pc = true) : secP pc = true := by cases pc <;> simp_all [mxP, secP]
theorem idleP_mx {pc : Pc} (h : idleP pc = true) : mxP pc = true := by cases pc <;> simp_all [mxP, idleP]
theorem linkedP_sec {pc : Pc} (h : linkedP pc = true) : secP pc = true := by cases pc <;> simp_all [linkedP, secP]
theorem rawP_sec {pc : Pc} (h : rawP pc = true) : secP pc = true := by cases pc <;> simp_all [rawP, secP]
theorem builtP_sec {pc : Pc} (h : builtP pc = true) : secP pc = true := by cases pc <;> simp_all [builtP, secP]
theorem lockP_sec {pc : Pc} (h : lockP pc = true) : secP pc = true := by cases pc <;> simp_all [lockP, secP]
theorem idleC_mx {pc : Pc} (h : idleC pc = true) : mxC pc = true := by cases pc <;> simp_all [mxC, idleC]
theorem mxC_sec {pc : Pc} (h : mxC pc = true) : secC pc = true := by cases pc <;> simp_all [mxC, secC]
theorem mv0C_sec {pc : Pc} (h : mv0C pc = true) : secC pc = true := by cases pc <;> simp_all [mv0C, secC]
theorem mv1C_sec {pc : Pc} (h : mv1C pc = true) : secC pc = true := by cases pc <;> simp_all [mv1C, secC]
theorem ltC_sec {pc : Pc} (h : ltC pc = true) : secC pc = true := by cases pc <;> simp_all [ltC, secC]
theorem u0C_sec {pc : Pc} (h : u0C pc = true) : secC pc = true := by cases pc <;> simp_all [u0C, secC]
theorem u1C_sec {pc : Pc} (h : u1C pc = true) : secC pc = true := by cases pc <;> simp_all [u1C, secC]

/-- a thread that holds the mutex excludes every other holder -/
theorem PushLoc.no_mx {l : Lane} {a b : Nat} {tb : LTh} {n' i' v'} {f'} (hm : l.mutex = some a) (hba : b ≠ a)
    (hb : PushLoc l b tb n' i' v' f') : mxP tb.pc = false := by
  cases h : mxP tb.pc
  · rfl
  · have := hb.mx h; rw [hm] at this; simp at this; exact absurd this.symm hba

theorem PopLoc.no_mx {l : Lane} {a b : Nat} {tb : LTh} {n' i'} (hm : l.mutex = some a) (hba : b ≠ a)
    (hb : PopLoc l b tb n' i') : mxC tb.pc = false := by
  cases h : mxC tb.pc
  · rfl
  · have := hb.mx h; rw [hm] at this; simp at this; exact absurd this.symm hba

theorem PushLoc.no_sec {l : Lane} {b : Nat} {tb : LTh} {n i n' i' v'} {f'} (ht : l.tP = n ∧ l.tI = i) (hne : ¬(n' = n ∧ i' = i))
    (hb : PushLoc l b tb n' i' v' f') : secP tb.pc = false := by
  cases h : secP tb.pc
  · rfl
  · have := hb.sec h; omega

/-- the page of a push that owns the turn is linked or pending: live in both cases -/
theorem PushLoc.live {l : Lane} {b : Nat} {tb : LTh} {n' i' v'} {f'} (hg : LInv l) (hb : PushLoc l b tb n' i' v' f')
    (hs : secP tb.pc = true) : (l.pages n').st = .live := by
  obtain ⟨e1, e2⟩ := hb.sec hs
  by_cases hp : pendPc tb.pc = true
  · have hi : i' = 0 := by
      apply hb.i0
      cases hpc : tb.pc <;> simp_all [pendPc, lockP, secP]
    exact (hb.pend hp hi).2.1
  · -- linked
    have hL : l.L = n' + 1 := by
      by_cases hl : linkedP tb.pc = true
      · exact (hb.lk hl).2
      · have h2 : tb.pc = .pLdTail2 := by cases hpc : tb.pc <;> simp_all [pendPc, linkedP, secP]
        have := hb.i1 h2
        have := hg.Lrel.1 (by omega)
        omega
    have hU := hg.Urel; have h1 := hg.ht; have h3 := hg.tI; have h4 := hg.hI
    simp only [rle, rlt] at hU h1
    exact (hg.chain n' (by omega) (by omega)).1

/-! ### the individual steps -/

section
variable {l : Lane} {a n i v : Nat} {f : Fail} {t : LTh}

/-- `start`, `index == 0`: the page is allocated -/
theorem p_alloc (hg : LInv l) (hf : futOK l (.push n i v f)) (hi : i = 0) (hst : (l.pages n).st = .unalloc) :
    PStep l a n i { l with pages := updF l.pages n { st := .live, next := .null, mask := fun _ => false } } ∧
    PushLoc { l with pages := updF l.pages n { st := .live, next := .null, mask := fun _ => false } } a
      { t with pc := .pTurn, p := .pg n } n i v f := by
  obtain ⟨f1, f2, f3, f4, f5⟩ := hf
  subst hi
  have hU := hg.Urel; have h1 := hg.ht; have h3 := hg.tI; have h4 := hg.hI
  simp only [rle, rlt] at hU h1 f2
  have hnU : l.U ≤ n := by omega
  have hnL : l.L ≤ n := by
    rcases Nat.lt_or_ge n l.L with h | h
    · have := (hg.chain n hnU h).1; rw [hst] at this; cases this
    · exact h
  have hne : ∀ m, (l.pages m).st ≠ .unalloc → m ≠ n := fun m h e => h (e ▸ hst)
  refine ⟨⟨?_, ?_, ?_, ?_⟩, ?_⟩
  · refine { hg with chain := ?_, freed := ?_, maskR := ?_ }
    · intro m hm1 hm2
      have hc := hg.chain m hm1 hm2
      have : m ≠ n := hne m (by rw [hc.1]; simp)
      simp only [updF_ne _ _ _ _ this]; exact hc
    · intro m hm
      by_cases e : m = n
      · subst e; simp at hm
      · simp only [updF_ne _ _ _ _ e] at hm; exact hg.freed m hm
    · intro m k hk hm1 hm2 hm3
      have : m ≠ n := by simp only [rle, rlt] at hm1 hm2; omega
      simp only [updF_ne _ _ _ _ this]; exact hg.maskR m k hk hm1 hm2 hm3
  · intro o ho hr
    cases o with
    | push n' i' v' f' =>
      obtain ⟨g1, g2, g3, g4, g5⟩ := ho
      refine ⟨g1, g2, ?_, g4, ?_⟩
      · intro e; subst e
        have : n' ≠ n := by intro e; subst e; simp [pushRound] at hr
        simp only [updF_ne _ _ _ _ this]; exact g3 rfl
      · by_cases e : n' = n
        · subst e; simp
        · simp only [updF_ne _ _ _ _ e]; exact g5
    | pop n' i' => exact ho
  · intro b tb n' i' v' f' _ hne' hb
    have hsec : secP tb.pc = true → n' ≠ n := fun hs => hne n' (by rw [PushLoc.live hg hb hs]; simp)
    have key : ∀ k, (updF l.pages n { st := .live, next := .null, mask := fun _ => false } n').mask k = false →
        True := fun _ _ => trivial
    refine { hb with pre := ?_, pend := ?_, raw := ?_, built := ?_, msk := ?_, advT := ?_, advF := ?_ }
    · intro hp
      obtain ⟨g1, g2, g3, g4⟩ := hb.pre hp
      refine ⟨g1, g2, g3, ?_⟩
      by_cases e : n' = n
      · subst e; simp
      · simp only [updF_ne _ _ _ _ e]; exact g4
    · intro hp hi'
      have hpd := hb.pend hp hi'
      have : n' ≠ n := hne n' (by rw [hpd.2.1]; simp)
      simp only [updF_ne _ _ _ _ this]; exact hpd
    · intro hp; have := hsec (rawP_sec hp); simp only [updF_ne _ _ _ _ this]; exact hb.raw hp
    · intro hp; have := hsec (builtP_sec hp); simp only [updF_ne _ _ _ _ this]; exact hb.built hp
    · intro hp; have := hsec (by rw [hp]; rfl); simp only [updF_ne _ _ _ _ this]; exact hb.msk hp
    · intro hp; have := hsec (by rw [hp]; rfl); simp only [updF_ne _ _ _ _ this]; exact hb.advT hp
    · intro hp; have := hsec (by rw [hp]; rfl); simp only [updF_ne _ _ _ _ this]; exact hb.advF hp
  · intro b tb n' i' _ hb
    have hlive : (l.pages n').st = .live → n' ≠ n := fun h => hne n' (by rw [h]; simp)
    refine { hb with u1 := ?_, pub := ?_, qv := ?_, free := ?_ }
    · intro hp; have h := hb.u1 hp; have := hlive h.2; simp only [updF_ne _ _ _ _ this]; exact h
    · intro hp
      have h := hb.pub hp
      refine ⟨fun e => ?_, h.2⟩
      have h' := h.1 e; have := hlive h'.2; simp only [updF_ne _ _ _ _ this]; exact h'
    · intro hp
      -- the pop holds the turn and its page is the head of the chain
      have hs := hb.sec (by rw [hp]; rfl)
      have hu := hb.u0 (by rw [hp]; rfl)
      have hlt := hb.lt (by rw [hp]; rfl)
      have hL := hg.Lrel
      simp only [rlt] at hlt
      have : n' < l.L := by
        by_cases hz : l.tI = 0
        · have := hL.2 hz; omega
        · have := hL.1 hz; omega
      have := hlive (hg.chain n' (by omega) this).1
      simp only [updF_ne _ _ _ _ this]; exact hb.qv hp
    · intro hp; have h := hb.free hp; have := hlive h.1; simp only [updF_ne _ _ _ _ this]; exact h
  · selfc
    case pcs => simp [isPushPc]
    case ilt => exact f1
    case pre => intro _; exact ⟨by simp only [rle]; omega, fun h => absurd rfl h, f4, by simp⟩
    case pend => intro _ _; exact ⟨rfl, by simp, by simp, by simp, hnL⟩

/-- `spin_wait_until_my_turn` sees its ticket -/
theorem p_turn (hg : LInv l) (hl : PushLoc l a t n i v f) (hpc : t.pc = .pTurn) (ht : l.tP = n ∧ l.tI = i) :
    PushLoc l a { t with pc := if t.p.valid then .pLock else .pLdTail2 } n i v f := by
  obtain ⟨g1, g2, g3, g4⟩ := hl.pre hpc
  by_cases hi : i = 0
  · have hp := hl.pend (by rw [hpc]; rfl) hi
    have hv : t.p.valid = true := by rw [hp.1]; rfl
    simp only [hv, if_true]
    selfc
    case pcs => simp [isPushPc]
    case ilt => exact hl.ilt
    case pend => intro _ _; exact hp
    case sec => intro _; exact ht
    case i0 => intro _; exact hi
    case raw => intro _; exact ⟨g3, g4⟩
  · have hv : t.p.valid = false := by rw [g2 hi]; rfl
    simp only [hv]
    selfc
    case pcs => simp [isPushPc]
    case ilt => exact hl.ilt
    case sec => intro _; exact ht
    case i1 => intro _; exact hi
    case raw => intro _; exact ⟨g3, g4⟩

/-- taking `page_mutex` (both in `prepare_page` and in the pop finalizer): only the mutex word changes -/
theorem lock_step (hg : LInv l) (hm : l.mutex = none) (n i : Nat) : PStep l a n i { l with mutex := some a } := by
  refine ⟨{ hg with mxPh := by simp }, fun _ h _ => h, ?_, ?_⟩
  · intro b tb n' i' v' f' _ _ hb
    exact { hb with mx := fun hp => by have := hb.mx hp; rw [hm] at this; cases this }
  · intro b tb n' i' _ hb
    exact { hb with mx := fun hp => by have := hb.mx hp; rw [hm] at this; cases this }

theorem p_lock_self (hg : LInv l) (hl : PushLoc l a t n i v f) (hpc : t.pc = .pLock) (hm : l.mutex = none) :
    PushLoc { l with mutex := some a } a { t with pc := .pLdTail } n i v f := by
  have hs : secP t.pc = true := by rw [hpc]; rfl
  selfc
  case pcs => simp [isPushPc]
  case ilt => exact hl.ilt
  case pend => intro _ h; exact hl.pend (by rw [hpc]; rfl) h
  case sec => intro _; exact hl.sec hs
  case i0 => intro _; exact hl.i0 (by rw [hpc]; rfl)
  case mx => intro _; rfl
  case phI => intro _; exact hg.mxPh hm
  case raw => intro _; exact hl.raw (by rw [hpc]; rfl)

theorem p_ldtail_self (hl : PushLoc l a t n i v f) (hpc : t.pc = .pLdTail) :
    PushLoc l a { t with pc := .pLink, q := l.tp } n i v f := by
  have hs : secP t.pc = true := by rw [hpc]; rfl
  selfc
  case pcs => simp [isPushPc]
  case ilt => exact hl.ilt
  case pend => intro _ h; exact hl.pend (by rw [hpc]; rfl) h
  case sec => intro _; exact hl.sec hs
  case i0 => intro _; exact hl.i0 (by rw [hpc]; rfl)
  case mx => intro _; exact hl.mx (by rw [hpc]; rfl)
  case phI => intro _; exact hl.phI (by rw [hpc]; rfl)
  case qv => intro _; rfl
  case raw => intro _; exact hl.raw (by rw [hpc]; rfl)

/-- facts shared by the two link steps -/
theorem p_link_facts (hg : LInv l) (hl : PushLoc l a t n i v f) (hpc : t.pc = .pLink) :
    i = 0 ∧ l.tP = n ∧ l.tI = 0 ∧ l.L = n ∧ l.mutex = some a ∧ l.ph = .idle ∧ t.p = .pg n ∧
    t.q = (if l.U < l.L then .pg (l.L - 1) else .null) ∧ l.U ≤ l.L := by
  have hi := hl.i0 (by rw [hpc]; rfl)
  have hs := hl.sec (by rw [hpc]; rfl)
  have hp := hl.pend (by rw [hpc]; rfl) hi
  have hph := hl.phI (by rw [hpc]; rfl)
  have hL := hg.Lrel.2 (by omega)
  refine ⟨hi, hs.1, by omega, by omega, hl.mx (by rw [hpc]; rfl), hph, hp.1, ?_, hg.UleL⟩
  rw [hl.qv hpc]; exact hg.tpC.1 (by rw [hph]; simp)

/-- `q->next = p` (the old tail page is valid) -/
theorem p_link_next (hg : LInv l) (hl : PushLoc l a t n i v f) (hpc : t.pc = .pLink) (qn : Nat) (hq : t.q = .pg qn) :
    (l.pages qn).st = .live ∧ PStep l a n i { setNext l qn t.p with ph := .linkHalf } ∧
    PushLoc { setNext l qn t.p with ph := .linkHalf } a { t with pc := .pSetTail } n i v f := by
  obtain ⟨hi, h1, h2, hL, hm, hph, hp, hqv, hUL⟩ := p_link_facts hg hl hpc
  have hpd := hl.pend (by rw [hpc]; rfl) hi
  rw [hq] at hqv
  have hUlt : l.U < l.L := by by_cases h : l.U < l.L <;> simp [h] at hqv; exact h
  simp only [hUlt, if_true, Ptr.pg.injEq] at hqv
  have hqL : qn + 1 = l.L := by omega
  have hlive := (hg.chain qn (by omega) (by omega)).1
  have hnq : n ≠ qn := by omega
  refine ⟨hlive, ⟨?_, ?_, ?_, ?_⟩, ?_⟩
  · refine { hg with hpC := ?_, tpC := ?_, chain := ?_, mxPh := ?_, freed := ?_, maskR := ?_ }
    · exact ⟨hg.hpC.1, fun h => by om⟩
    · refine ⟨fun _ => ?_, fun h => by simp at h⟩
      have := hg.tpC.1 (by rw [hph]; simp); exact this
    · intro m hm1 hm2
      dsimp only [setNext] at hm1 hm2 ⊢
      have hc := hg.chain m hm1 hm2
      simp only [st_updNext]
      refine ⟨hc.1, ?_⟩
      by_cases e : m = qn
      · subst e
        have : ¬ (m + 1 < l.L) := by omega
        simp [this, hp, hL]
        intro; omega
      · simp only [updF_ne _ _ _ _ e]
        rw [hc.2]
        have : m + 1 < l.L := by omega
        simp [this]
    · intro h; simp [setNext, hm] at h
    · intro m hm'; simp only [setNext, st_updNext] at hm'; exact hg.freed m hm'
    · intro m k; simp only [setNext, mask_updNext]; exact hg.maskR m k
  · intro o ho _
    cases o with
    | push n' i' v' f' => simpa only [futOK, setNext, st_updNext, mask_updNext] using ho
    | pop n' i' => exact ho
  · intro b tb n' i' v' f' hba hne hb
    have hnm := PushLoc.no_mx hm hba hb
    refine { hb with pre := ?_, pend := ?_, phI := ?_, phL := ?_, raw := ?_, built := ?_, msk := ?_, advT := ?_, advF := ?_ }
    · intro h; simpa only [setNext, mask_updNext] using hb.pre h
    · intro h1' h2'
      have hpd' := hb.pend h1' h2'
      have : n' ≠ qn := by omega
      simp only [setNext, updF_ne _ _ _ _ this]; exact hpd'
    · intro h; rw [idleP_mx h] at hnm; cases hnm
    · intro _; rfl
    · intro h; simpa only [setNext, mask_updNext] using hb.raw h
    · intro h; simpa only [setNext, mask_updNext] using hb.built h
    · intro h; simpa only [setNext, mask_updNext] using hb.msk h
    · intro h; simpa only [setNext, mask_updNext] using hb.advT h
    · intro h; simpa only [setNext, mask_updNext] using hb.advF h
  · intro b tb n' i' hba hb
    have hnm := PopLoc.no_mx hm hba hb
    refine { hb with u1 := ?_, pub := ?_, phI := ?_, phU := ?_, qv := ?_, free := ?_ }
    · intro h; simpa only [setNext, st_updNext] using hb.u1 h
    · intro h; simpa only [setNext, st_updNext] using hb.pub h
    · intro h; rw [idleC_mx h] at hnm; cases hnm
    · intro h; have : mxC tb.pc = true := by rw [h]; rfl
      rw [this] at hnm; cases hnm
    · intro h; have : mxC tb.pc = true := by rw [h]; rfl
      rw [this] at hnm; cases hnm
    · intro h; simpa only [setNext, st_updNext] using hb.free h
  · selfc
    case pcs => simp [isPushPc]
    case ilt => exact hl.ilt
    case pend =>
      intro _ _
      simp only [setNext, updF_ne _ _ _ _ hnq]; exact hpd
    case sec => intro _; exact ⟨h1, by om⟩
    case i0 => intro _; exact hi
    case mx => intro _; exact hm
    case phL => intro _; rfl
    case raw => intro _; simpa only [setNext, mask_updNext] using hl.raw (by rw [hpc]; rfl)

/-- `head_page = p` (the lane had no page) -/
theorem p_link_head (hg : LInv l) (hl : PushLoc l a t n i v f) (hpc : t.pc = .pLink) (hq : ∀ qn, t.q ≠ .pg qn) :
    PStep l a n i { l with hp := t.p, ph := .linkHalf } ∧
    PushLoc { l with hp := t.p, ph := .linkHalf } a { t with pc := .pSetTail } n i v f := by
  obtain ⟨hi, h1, h2, hL, hm, hph, hp, hqv, hUL⟩ := p_link_facts hg hl hpc
  have hUeq : l.U = l.L := by
    by_cases h : l.U < l.L
    · simp [h] at hqv; exact absurd hqv (hq _)
    · omega
  refine ⟨⟨?_, fun _ h _ => h, ?_, ?_⟩, ?_⟩
  · refine { hg with hpC := ?_, tpC := ?_, chain := ?_, mxPh := ?_ }
    · exact ⟨fun h => by om, fun _ => by simp [hp, hL]⟩
    · exact ⟨fun _ => hg.tpC.1 (by rw [hph]; simp), fun h => by simp at h⟩
    · intro m hm1 hm2; om
    · intro h; simp [hm] at h
  · intro b tb n' i' v' f' hba _ hb
    have hnm := PushLoc.no_mx hm hba hb
    exact { hb with
      phI := fun h => (by rw [idleP_mx h] at hnm; cases hnm)
      phL := fun _ => rfl }
  · intro b tb n' i' hba hb
    have hnm := PopLoc.no_mx hm hba hb
    exact { hb with
      phI := fun h => (by rw [idleC_mx h] at hnm; cases hnm)
      phU := fun h => (by
        have : mxC tb.pc = true := by rw [h]; rfl
        rw [this] at hnm; cases hnm) }
  · selfc
    case pcs => simp [isPushPc]
    case ilt => exact hl.ilt
    case pend => intro _ h; exact hl.pend (by rw [hpc]; rfl) h
    case sec => intro _; exact ⟨h1, by om⟩
    case i0 => intro _; exact hi
    case mx => intro _; exact hm
    case phL => intro _; rfl
    case raw => intro _; exact hl.raw (by rw [hpc]; rfl)

end

end TbbVerif.C09.Pg
