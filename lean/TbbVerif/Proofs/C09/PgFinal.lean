/-
C09 — page life cycle: `Inv` holds after every schedule of any number of threads (while no page allocation failed).
-/
import TbbVerif.Proofs.C09.PgRun

namespace TbbVerif.C09.Pg

theorem stepTh_ok {l : Lane} {a : Nat} {t : LTh} (hg : LInv l) (hloc : Loc l a t)
    (hnod : (t.ops.filterMap pushRound).Nodup ∧ (t.ops.filterMap popRound).Nodup)
    (hpo : (stepTh l a t).1.poisoned = false) : StepOK l a t (stepTh l a t).1 (stepTh l a t).2.1 := by
  unfold stepTh at hpo ⊢
  cases hops : t.ops with
  | nil => exact StepOK.refl hg hloc
  | cons o rest =>
    rw [hops] at hpo
    cases o with
    | push n i v f => exact stepPush_ok hg hloc hops hnod.1 hpo
    | pop n i => exact stepPop_ok hg hloc hops hnod.2

theorem opsDisj_mono {a a' b : List LOp} (h : opsDisj a b) (hs : ∀ x, x ∈ a' → x ∈ a) : opsDisj a' b :=
  ⟨fun x hx y hy => h.1 x (hs x hx) y hy, fun x hx y hy => h.2 x (hs x hx) y hy⟩

theorem opsDisj_symm {a b : List LOp} (h : opsDisj a b) : opsDisj b a := by
  refine ⟨fun x hx y hy => ?_, fun x hx y hy => ?_⟩
  · rcases h.1 y hy x hx with e | e
    · by_cases hn : pushRound x = none
      · exact Or.inl hn
      · exact Or.inr (by rw [e]; exact hn)
    · exact Or.inr (fun e' => e e'.symm)
  · rcases h.2 y hy x hx with e | e
    · by_cases hn : popRound x = none
      · exact Or.inl hn
      · exact Or.inr (by rw [e]; exact hn)
    · exact Or.inr (fun e' => e e'.symm)

theorem lt_of_getElem?_some' {α : Type} {l : List α} {i : Nat} {x : α} (h : l[i]? = some x) : i < l.length := by
  rcases Nat.lt_or_ge i l.length with h' | h'
  · exact h'
  · rw [List.getElem?_eq_none h'] at h; cases h

/-- one step of thread `a` preserves the invariant, as long as no allocation has failed -/
theorem step_inv (s : St) (a : Nat) (h : Inv s) (hp : (step s a).l.poisoned = false) : Inv (step s a) := by
  unfold step stepEv at hp ⊢
  cases hth : s.ths[a]? with
  | none => simp only [hth]; exact h
  | some t =>
    simp only [hth] at hp ⊢
    have hlen := lt_of_getElem?_some' hth
    have ok := stepTh_ok h.g (h.loc a t hth) (h.nod a t hth) hp
    have hsub : ∀ x, x ∈ (stepTh s.l a t).2.1.ops → x ∈ t.ops := by
      intro x hx
      rcases ok.opsR with e | e
      · rw [e] at hx; exact hx
      · rw [e] at hx; exact mem_of_mem_tail' hx
    have get : ∀ j tj, (s.ths.set a (stepTh s.l a t).2.1)[j]? = some tj →
        (j = a ∧ tj = (stepTh s.l a t).2.1) ∨ (j ≠ a ∧ s.ths[j]? = some tj) := by
      intro j tj hj
      by_cases e : j = a
      · subst e; rw [List.getElem?_set_self hlen] at hj; exact Or.inl ⟨rfl, (Option.some.inj hj).symm⟩
      · rw [List.getElem?_set_ne (fun e' => e e'.symm)] at hj; exact Or.inr ⟨e, hj⟩
    refine ⟨ok.g, ?_, ?_, ?_⟩
    · intro j tj hj
      rcases get j tj hj with ⟨e1, e2⟩ | ⟨e1, e2⟩
      · rw [e1, e2]; exact ok.self
      · exact ok.frame j tj e1 (h.loc j tj e2) (h.dis a j t tj (fun e => e1 e.symm) hth e2)
    · intro x y tx ty hxy hx hy
      rcases get x tx hx with ⟨e1, e2⟩ | ⟨e1, e2⟩ <;> rcases get y ty hy with ⟨f1, f2⟩ | ⟨f1, f2⟩
      · exact absurd (e1.trans f1.symm) hxy
      · rw [e2]; exact opsDisj_mono (h.dis a y t ty (fun e => f1 e.symm) hth f2) hsub
      · rw [f2]; exact opsDisj_symm (opsDisj_mono (h.dis a x t tx (fun e => e1 e.symm) hth e2) hsub)
      · exact h.dis x y tx ty hxy e2 f2
    · intro j tj hj
      rcases get j tj hj with ⟨_, e2⟩ | ⟨_, e2⟩
      · rw [e2]
        have hn := h.nod a t hth
        rcases ok.opsR with e | e
        · rw [e]; exact hn
        · rw [e]
          exact ⟨hn.1.sublist (List.Sublist.filterMap _ (List.tail_sublist _)),
                 hn.2.sublist (List.Sublist.filterMap _ (List.tail_sublist _))⟩
      · exact h.nod j tj e2

theorem flag_poisoned (l : Lane) (x : Acc) : (l.flag x).poisoned = l.poisoned := by cases x <;> rfl

/-- `poisoned` is never reset -/
theorem poisoned_step (s : St) (a : Nat) (h : s.l.poisoned = true) : (step s a).l.poisoned = true := by
  unfold step stepEv
  cases hth : s.ths[a]? with
  | none => simpa using h
  | some t =>
    simp only []
    unfold stepTh
    cases hops : t.ops with
    | nil => simpa using h
    | cons o rest =>
      cases o with
      | push n i v f =>
        simp only []
        unfold stepPush
        cases hpc : t.pc <;> simp only [] <;> (repeat' split) <;> simp_all [finish, crash, flag_poisoned, setNext, setMask, setSlot]
      | pop n i =>
        simp only []
        unfold stepPop
        cases hpc : t.pc <;> simp only [] <;> (repeat' split) <;> simp_all [finish, crash, flag_poisoned, setNext, setMask, setSlot]

def Inv' (s : St) : Prop := s.l.poisoned = false → Inv s

theorem step_inv' (s : St) (a : Nat) (h : Inv' s) : Inv' (step s a) := by
  intro hp
  have h0 : s.l.poisoned = false := by
    cases hq : s.l.poisoned with
    | false => rfl
    | true => rw [poisoned_step s a hq] at hp; cases hp
  exact step_inv s a (h h0) hp

theorem inv_runFrom (s : St) (h : Inv' s) (sched : List Nat) : Inv' (runFrom s sched) := by
  unfold runFrom
  induction sched generalizing s with
  | nil => exact h
  | cons a as ih => exact ih (step s a) (step_inv' s a h)

/-- the empty lane -/
theorem linv_empty (ipp : Nat) (h : 0 < ipp) : LInv { ipp := ipp } :=
  { clean := ⟨rfl, rfl, rfl, rfl, rfl, rfl⟩
    odd := rfl
    ipp := h
    tI := h
    hI := h
    ht := Or.inr ⟨rfl, Nat.le_refl _⟩
    Lrel := ⟨fun h => absurd rfl h, fun _ => Or.inl rfl⟩
    Urel := Or.inl rfl
    hpC := ⟨fun h => absurd h (Nat.lt_irrefl _), fun _ => by simp⟩
    tpC := ⟨fun _ => by simp, fun h => by cases h⟩
    chain := fun n _ h2 => absurd h2 (Nat.not_lt_zero _)
    mxPh := fun _ => rfl
    freed := fun n h => by cases h
    consR := fun n k v h => by cases h
    maskR := fun n k _ _ h _ => by simp only [rlt] at h; omega
    mvR := fun h => by cases h
    deliv := fun e h => by cases h }

/-- a quiescent lane satisfying `LInv` with fresh, well-formed programs satisfies `Inv` -/
theorem inv_init (l : Lane) (progs : List (List LOp)) (hg : LInv l) (hmv : l.mv = false) (hwf : wf progs) (hfr : fresh l progs) :
    Inv (initFrom l progs) := by
  have getp : ∀ (j : Nat) (t : LTh), (initFrom l progs).ths[j]? = some t → ∃ p, progs[j]? = some p ∧ t = ({ ops := p } : LTh) := by
    intro j t hj
    simp only [initFrom, List.getElem?_map] at hj
    cases hp : progs[j]? with
    | none => rw [hp] at hj; cases hj
    | some p => rw [hp] at hj; exact ⟨p, rfl, (Option.some.inj hj).symm⟩
  have futp : ∀ p, p ∈ progs → ∀ o, o ∈ p → futOK l o := by
    intro p hp o ho
    have := hfr p hp o ho
    cases o with
    | push n i v f => exact this
    | pop n i => exact ⟨this.1, this.2, fun _ => hmv⟩
  refine ⟨hg, ?_, ?_, ?_⟩
  · intro j t hj
    obtain ⟨p, hp, e⟩ := getp j t hj
    subst e
    have hmem : p ∈ progs := List.mem_of_getElem? hp
    exact Loc.mk_fin rfl (futp p hmem)
  · intro x y tx ty hxy hx hy
    obtain ⟨p, hp, e⟩ := getp x tx hx
    obtain ⟨q, hq, e'⟩ := getp y ty hy
    subst e; subst e'
    have hpw := hwf.1
    rw [List.pairwise_iff_getElem] at hpw
    have hxl := lt_of_getElem?_some' hp
    have hyl := lt_of_getElem?_some' hq
    have ep : progs[x] = p := by rw [List.getElem?_eq_getElem hxl] at hp; exact Option.some.inj hp
    have eq : progs[y] = q := by rw [List.getElem?_eq_getElem hyl] at hq; exact Option.some.inj hq
    rcases Nat.lt_or_gt_of_ne hxy with hlt | hlt
    · have := hpw x y hxl hyl hlt; rw [ep, eq] at this; exact this
    · have := hpw y x hyl hxl hlt; rw [ep, eq] at this; exact opsDisj_symm this
  · intro j t hj
    obtain ⟨p, hp, e⟩ := getp j t hj
    subst e
    exact hwf.2 p (List.mem_of_getElem? hp)

end TbbVerif.C09.Pg
