/-
C09 — second invariant: time stamps (real-time order of the linearisation points), what the recorded operation
results mean, truthfulness of `empty` / `full` answers, the capacity bound, and absence of the invalid-page
dereference.  Proved on top of `Inv` (Proofs/C09/Step.lean).
-/
import TbbVerif.Proofs.C09.Step

namespace TbbVerif.C09

def capOK (g : G) : Prop := g.undone = false ∧ g.capSet = false ∧ g.unb = false

/-- meaning of a recorded result -/
structure DoneOK (g : G) (b : Nat) (d : DoneRec) : Prop where
  t1 : d.inv ≤ d.lin
  t2 : d.lin ≤ d.resp
  t3 : d.resp ≤ b
  val : ∀ v, d.res = .val v → (d.ticket, v) ∈ g.popLog ∧ d.lin = max (g.popTime d.ticket) (pushTime g d.ticket)
  pushed : ∀ v, opVal [d.op] = some v → d.res = .ok → g.slot d.ticket = .item v ∧ d.lin = pushTime g d.ticket
  threw : d.res = .threw → g.slot d.ticket = .invalid ∧ base d.ticket < g.ltail (lane d.ticket)
  empty : d.res = .empty → g.undone = false → d.wit = true
  full : d.res = .full → d.wit = true

structure AGb (g : G) (b : Nat) : Prop where
  pushT : ∀ (k : Nat) (r : PRec), g.pushLog[k]? = some r → r.time ≤ b
  pushMono : ∀ (k k' : Nat) (r r' : PRec), k < k' → g.pushLog[k]? = some r → g.pushLog[k']? = some r' → r.time < r'.time
  popT : ∀ h, h < g.head → g.popTime h ≤ b
  popMono : ∀ h h', h < h' → h' < g.head → g.popTime h < g.popTime h'
  done : ∀ d, d ∈ g.done → DoneOK g b d
  noCrash : g.crashed = false ∧ ∀ k, g.noPage k = false
  capB : capOK g → ∀ k v, g.slot k = .item v → (k : Int) < g.head + g.cap

/-- the auxiliary global invariant of a state between two steps -/
def AG (g : G) : Prop := AGb g g.now

def lanePushPc : Pc → Bool
  | .pAlloc1 | .pTurn | .pCons | .pMaskSt | .pAdv _ => true
  | _ => false

structure AT (g : G) (t : Th) : Prop where
  invNow : t.pc ≠ .start → t.inv ≤ g.now
  invT : holdsT t.pc = true → ∃ r, g.pushLog[t.k]? = some r ∧ t.inv ≤ r.time
  invH : holdsH t.pc = true → t.inv ≤ g.popTime t.k
  stale : (t.pc = .tTail ∨ t.pc = .tCas) → g.undone = false → t.k ≤ g.head
  staleT : (t.pc = .yHead ∨ t.pc = .yCas) → t.k ≤ g.tail
  gate : capOK g → (lanePushPc t.pc = true ∨ t.pc = .yCas) → (t.k : Int) < g.head + g.cap

/-- how the global state may evolve while another thread moves -/
structure Ext (g g' : G) : Prop where
  now : g.now ≤ g'.now
  push : ∀ (k : Nat) (r : PRec), g.pushLog[k]? = some r → g'.pushLog[k]? = some r
  tail : g.tail ≤ g'.tail
  head : g.head ≤ g'.head ∨ g'.undone = true
  popT : ∀ h, h < g.head → g'.popTime h = g.popTime h
  und : g.undone = true → g'.undone = true
  cap : capOK g' → capOK g ∧ g'.cap = g.cap

theorem AT_ext (g g' : G) (t : Th) (h : AT g t) (e : Ext g g') (hH : holdsH t.pc = true → t.k < g.head) : AT g' t := by
  refine ⟨?_, ?_, ?_, ?_, ?_, ?_⟩
  · intro hh; have := h.invNow hh; have := e.now; omega
  · intro hh; obtain ⟨r, h1, h2⟩ := h.invT hh; exact ⟨r, e.push _ _ h1, h2⟩
  · intro hh; rw [e.popT _ (hH hh)]; exact h.invH hh
  · intro hh hu
    have hu0 : g.undone = false := by
      cases hg : g.undone with
      | false => rfl
      | true => have := e.und hg; rw [hu] at this; cases this
    have := h.stale hh hu0
    rcases e.head with a | a
    · omega
    · rw [hu] at a; cases a
  · intro hh; have := h.staleT hh; have := e.tail; omega
  · intro hc hh
    obtain ⟨hc0, hcap⟩ := e.cap hc
    have := h.gate hc0 hh
    rcases e.head with a | a
    · rw [hcap]; omega
    · rw [hc.1] at a; cases a

theorem Ext_refl (g : G) : Ext g g :=
  ⟨Nat.le_refl _, fun _ _ h => h, Nat.le_refl _, Or.inl (Nat.le_refl _), fun _ _ => rfl, fun h => h, fun h => ⟨h, rfl⟩⟩

theorem pushTime_ext (g g' : G) (k : Nat) (r : PRec) (h : g.pushLog[k]? = some r) (e : ∀ (k : Nat) (r : PRec), g.pushLog[k]? = some r → g'.pushLog[k]? = some r) :
    pushTime g' k = pushTime g k := by
  simp only [pushTime, h, e k r h]

theorem DoneOK_weaken (g : G) (b b' : Nat) (d : DoneRec) (h : DoneOK g b d) (hb : b ≤ b') : DoneOK g b' d :=
  ⟨h.t1, h.t2, Nat.le_trans h.t3 hb, h.val, h.pushed, h.threw, h.empty, h.full⟩

theorem AGb_weaken (g : G) (b b' : Nat) (h : AGb g b) (hb : b ≤ b') : AGb g b' :=
  ⟨fun k r hk => Nat.le_trans (h.pushT k r hk) hb, h.pushMono, fun x hx => Nat.le_trans (h.popT x hx) hb, h.popMono,
   fun d hd => DoneOK_weaken g b b' d (h.done d hd) hb, h.noCrash, h.capB⟩

/-- monotone evolution of the parts of the state a recorded result talks about -/
structure Grow (g g' : G) : Prop where
  pop : ∀ x, x ∈ g.popLog → x ∈ g'.popLog
  popT : ∀ h, consumed g.toP h → g'.popTime h = g.popTime h
  slot : ∀ k, g.slot k ≠ .pending → g'.slot k = g.slot k
  pushTm : ∀ k, g.slot k ≠ .pending → pushTime g' k = pushTime g k
  ltail : ∀ l, g.ltail l ≤ g'.ltail l
  und : g'.undone = false → g.undone = false

theorem DoneOK_grow (g g' : G) (b : Nat) (d : DoneRec) (h : DoneOK g b d) (hP : PInv g.toP) (e : Grow g g') : DoneOK g' b d := by
  refine ⟨h.t1, h.t2, h.t3, ?_, ?_, ?_, ?_, h.full⟩
  · intro v hv
    obtain ⟨h1, h2⟩ := h.val v hv
    have hs : g.slot d.ticket = .item v := hP.popItem _ _ h1
    have hc : consumed g.toP d.ticket := Or.inl (List.mem_map.2 ⟨(d.ticket, v), h1, rfl⟩)
    refine ⟨e.pop _ h1, ?_⟩
    rw [e.popT _ hc, e.pushTm _ (by rw [hs]; simp)]; exact h2
  · intro v hv hr
    obtain ⟨h1, h2⟩ := h.pushed v hv hr
    have hne : g.slot d.ticket ≠ .pending := by rw [h1]; simp
    exact ⟨by rw [e.slot _ hne]; exact h1, by rw [e.pushTm _ hne]; exact h2⟩
  · intro hr
    obtain ⟨h1, h2⟩ := h.threw hr
    have hne : g.slot d.ticket ≠ .pending := by rw [h1]; simp
    exact ⟨by rw [e.slot _ hne]; exact h1, Nat.lt_of_lt_of_le h2 (e.ltail _)⟩
  · intro hr hu
    exact h.empty hr (e.und hu)

theorem pushTime_append (g : G) (x : PRec) (k : Nat) (hk : k < g.pushLog.length) (g' : G) (hg : g'.pushLog = g.pushLog ++ [x]) :
    pushTime g' k = pushTime g k := by
  simp only [pushTime, hg, List.getElem?_append_left hk]

theorem slot_lt_len (g : G) (hP : PInv g.toP) (k : Nat) (h : g.slot k ≠ .pending) : k < g.pushLog.length := hP.slotLt k h

end TbbVerif.C09
