/-
C09 — each protocol effect preserves the global invariant `PInv` and the thread invariants `TInv` of the
threads that did not move.
-/
import TbbVerif.Proofs.C09.Inv

namespace TbbVerif.C09

/-! ### takeTail: a push takes tail ticket `p.tail` -/

theorem PInv_takeTail (p : P) (r : PRec) (h : PInv p) : PInv (p.takeTail r) :=
  ⟨h.ippPos, h.lmod, h.lle, h.pub,
   fun k hk => by have := h.slotLt k hk; simp only [P.takeTail, P.tail, List.length_append, List.length_singleton] at *; omega,
   h.maskBit, h.popItem, h.skipInvalid, h.passed, h.consLt, h.nodupPop, h.nodupSkip, h.disj, h.invLogIff, h.invNodup, h.ninvEq,
   fun k v hk => by obtain ⟨r', h1, h2⟩ := h.slotVal k v hk; exact ⟨r', getElem?_append_some h1, h2⟩,
   h.noUnder⟩

theorem TInv_takeTail (p : P) (r : PRec) (j : Nat) (t : Th) (h : TInv p j t) : TInv (p.takeTail r) j t :=
  ⟨h.alive, fun hh => by obtain ⟨r', h1, h2⟩ := h.ownT hh; exact ⟨r', getElem?_append_some h1, h2⟩,
   h.pend, h.turnT, h.mval, h.advOk, h.advBad, h.ownH, h.fresh, h.turnH, h.seen, h.mvItem, h.invSlot, h.fin⟩

theorem takeTail_new (p : P) (r : PRec) (h : PInv p) :
    (p.takeTail r).pushLog[p.tail]? = some r ∧ p.slot p.tail = .pending := by
  constructor
  · simp [P.takeTail, P.tail]
  · cases hs : p.slot p.tail with
    | pending => rfl
    | item v => have := h.slotLt p.tail (by simp [hs]); omega
    | invalid => have := h.slotLt p.tail (by simp [hs]); omega

/-! ### takeHead: a pop takes head ticket `p.head` -/

theorem PInv_takeHead (p : P) (tid : Nat) (h : PInv p) : PInv (p.takeHead tid) :=
  ⟨h.ippPos, h.lmod, h.lle, h.pub, h.slotLt, h.maskBit, h.popItem, h.skipInvalid, h.passed,
   fun x hx => by have := h.consLt x hx; simp only [P.takeHead]; omega,
   h.nodupPop, h.nodupSkip, h.disj, h.invLogIff, h.invNodup, h.ninvEq, h.slotVal, h.noUnder⟩

theorem TInv_takeHead (p : P) (tid j : Nat) (t : Th) (h : TInv p j t) : TInv (p.takeHead tid) j t :=
  ⟨h.alive, h.ownT, h.pend, h.turnT, h.mval, h.advOk, h.advBad,
   fun hh => by
     obtain ⟨h1, h2⟩ := h.ownH hh
     simp only [P.takeHead]
     exact ⟨by omega, by rw [upd_other _ _ _ _ (by omega)]; exact h2⟩,
   h.fresh, h.turnH, h.seen, h.mvItem, h.invSlot, h.fin⟩

theorem takeHead_new (p : P) (tid : Nat) (h : PInv p) :
    p.head < (p.takeHead tid).head ∧ (p.takeHead tid).popOwner p.head = tid ∧ ¬ consumed (p.takeHead tid) p.head := by
  refine ⟨by simp [P.takeHead], by simp [P.takeHead, upd], ?_⟩
  intro hc
  have := h.consLt p.head hc
  omega

/-! ### invalidate: the holder of tail ticket `k` (still pending) marks it invalid and bumps `n_invalid_entries` -/

theorem PInv_invalidate (p : P) (k : Nat) (h : PInv p) (hp : p.slot k = .pending) (hk : k < p.tail) : PInv (p.invalidate k) := by
  have hnotin : k ∉ p.invLog := by intro hin; have := (h.invLogIff k).1 hin; rw [hp] at this; cases this
  refine ⟨h.ippPos, h.lmod, h.lle, ?_, ?_, ?_, ?_, ?_, h.passed, h.consLt, h.nodupPop, h.nodupSkip, h.disj, ?_, ?_, ?_, ?_, h.noUnder⟩
  · intro x hx
    simp only [P.invalidate, upd]
    split
    · simp
    · exact h.pub x hx
  · intro x hx
    simp only [P.invalidate, upd] at hx
    by_cases e : x = k
    · subst e; exact hk
    · simp only [e, if_false] at hx; exact h.slotLt x hx
  · intro x
    simp only [P.invalidate, upd]
    by_cases e : x = k
    · subst e
      simp only [if_true]
      have := h.maskBit x
      rw [hp] at this
      simp only [reduceCtorEq, exists_false, iff_false] at this ⊢
      exact this
    · simp only [e, if_false]; exact h.maskBit x
  · intro x v hx
    simp only [P.invalidate, upd]
    have := h.popItem x v hx
    by_cases e : x = k
    · subst e; rw [hp] at this; cases this
    · simp only [e, if_false]; exact this
  · intro x hx
    simp only [P.invalidate, upd]
    split
    · rfl
    · exact h.skipInvalid x hx
  · intro x
    simp only [P.invalidate, upd, List.mem_append, List.mem_singleton]
    by_cases e : x = k
    · simp [e]
    · simp only [e, if_false, or_false]; exact h.invLogIff x
  · simp only [P.invalidate]
    rw [List.nodup_append]
    refine ⟨h.invNodup, by simp, ?_⟩
    intro a ha b hb
    simp only [List.mem_singleton] at hb
    subst hb
    intro e; subst e; exact hnotin ha
  · simp only [P.invalidate, List.length_append, List.length_singleton]
    have := h.ninvEq; omega
  · intro x v hx
    simp only [P.invalidate, upd] at hx
    by_cases e : x = k
    · simp [e] at hx
    · simp only [e, if_false] at hx; exact h.slotVal x v hx

theorem TInv_invalidate (p : P) (k j : Nat) (t : Th) (h : TInv p j t) (hp : p.slot k = .pending)
    (hne : holdsT t.pc = true → t.k ≠ k) : TInv (p.invalidate k) j t := by
  have hslot : ∀ x, x ≠ k → (p.invalidate k).slot x = p.slot x := fun x hx => by simp [P.invalidate, upd, hx]
  have hitem : ∀ x v, p.slot x = .item v → (p.invalidate k).slot x = .item v := by
    intro x v hx
    have : x ≠ k := by intro e; subst e; rw [hp] at hx; cases hx
    rw [hslot x this]; exact hx
  have hinv : ∀ x, p.slot x = .invalid → (p.invalidate k).slot x = .invalid := by
    intro x hx
    simp only [P.invalidate, upd]; split <;> simp_all
  refine ⟨h.alive, h.ownT, ?_, h.turnT, h.mval, ?_, ?_, h.ownH, h.fresh, h.turnH, h.seen, ?_, ?_, h.fin⟩
  · intro hh
    rw [hslot _ (hne (prePub_holdsT hh))]; exact h.pend hh
  · intro hh; obtain ⟨v, hv⟩ := h.advOk hh; exact ⟨v, hitem _ _ hv⟩
  · intro hh; exact hinv _ (h.advBad hh)
  · intro hh; obtain ⟨v, hv⟩ := h.mvItem hh; exact ⟨v, hitem _ _ hv⟩
  · intro hh; exact hinv _ (h.invSlot hh)

/-! ### maskStore: the holder of tail ticket `k`, at its lane turn, publishes the element -/

theorem testBit_or_shift (m i b : Nat) : (m ||| 1 <<< i).testBit b = (m.testBit b || decide (b = i)) := by
  rw [Nat.testBit_or, Nat.one_shiftLeft, Nat.testBit_two_pow]
  congr 1
  simp [eq_comm]

theorem PInv_maskStore (p : P) (k v : Nat) (h : PInv p) (hp : p.slot k = .pending) (hk : k < p.tail)
    (hv : ∃ r, p.pushLog[k]? = some r ∧ r.v = v) :
    PInv (p.maskStore k v (p.mask (lane k) (pageOf p.ipp k) ||| 1 <<< idx p.ipp k)) := by
  refine ⟨h.ippPos, h.lmod, h.lle, ?_, ?_, ?_, ?_, ?_, h.passed, h.consLt, h.nodupPop, h.nodupSkip, h.disj, ?_, h.invNodup, h.ninvEq, ?_, h.noUnder⟩
  · intro x hx
    simp only [P.maskStore, upd]
    split
    · simp
    · exact h.pub x hx
  · intro x hx
    simp only [P.maskStore, upd] at hx
    by_cases e : x = k
    · subst e; exact hk
    · simp only [e, if_false] at hx; exact h.slotLt x hx
  · intro x
    simp only [P.maskStore, upd, upd2]
    by_cases e : x = k
    · subst e
      simp [testBit_or_shift]
    · simp only [e, if_false]
      by_cases e2 : lane x = lane k ∧ pageOf p.ipp x = pageOf p.ipp k
      · simp only [e2, and_self, if_true, testBit_or_shift]
        have hidx : idx p.ipp x ≠ idx p.ipp k := fun hi => e (slot_triple_inj p.ipp x k h.ippPos e2.1 e2.2 hi)
        simp only [hidx, decide_false, Bool.or_false]
        have := h.maskBit x
        rw [e2.1, e2.2] at this
        exact this
      · simp only [e2, if_false]; exact h.maskBit x
  · intro x w hx
    simp only [P.maskStore, upd]
    have := h.popItem x w hx
    by_cases e : x = k
    · subst e; rw [hp] at this; cases this
    · simp only [e, if_false]; exact this
  · intro x hx
    simp only [P.maskStore, upd]
    have := h.skipInvalid x hx
    by_cases e : x = k
    · subst e; rw [hp] at this; cases this
    · simp only [e, if_false]; exact this
  · intro x
    simp only [P.maskStore, upd]
    by_cases e : x = k
    · subst e
      simp only [if_true, reduceCtorEq, iff_false]
      intro hin; have := (h.invLogIff x).1 hin; rw [hp] at this; cases this
    · simp only [e, if_false]; exact h.invLogIff x
  · intro x w hx
    simp only [P.maskStore, upd] at hx
    by_cases e : x = k
    · subst e
      simp only [if_true, Slot.item.injEq] at hx
      subst hx; exact hv
    · simp only [e, if_false] at hx; exact h.slotVal x w hx

theorem TInv_maskStore (p : P) (k v m' j : Nat) (t : Th) (h : TInv p j t) (hp : p.slot k = .pending)
    (hturn : p.ltail (lane k) = base k) (hne : holdsT t.pc = true → t.k ≠ k) : TInv (p.maskStore k v m') j t := by
  have hslot : ∀ x, x ≠ k → (p.maskStore k v m').slot x = p.slot x := fun x hx => by simp [P.maskStore, upd, hx]
  have hitem : ∀ x w, p.slot x = .item w → (p.maskStore k v m').slot x = .item w := by
    intro x w hx
    have : x ≠ k := by intro e; subst e; rw [hp] at hx; cases hx
    rw [hslot x this]; exact hx
  have hinv : ∀ x, p.slot x = .invalid → (p.maskStore k v m').slot x = .invalid := by
    intro x hx
    have : x ≠ k := by intro e; subst e; rw [hp] at hx; cases hx
    rw [hslot x this]; exact hx
  refine ⟨h.alive, h.ownT, ?_, h.turnT, ?_, ?_, ?_, h.ownH, h.fresh, h.turnH, h.seen, ?_, ?_, h.fin⟩
  · intro hh
    rw [hslot _ (hne (prePub_holdsT hh))]; exact h.pend hh
  · intro hh
    have hT : atTurnT t.pc = true := by rw [hh]; rfl
    have hne' := hne (atTurnT_holdsT hT)
    have hl : ¬ (lane t.k = lane k ∧ pageOf p.ipp t.k = pageOf p.ipp k) := by
      intro ⟨e1, _⟩
      have hb : base t.k = base k := by rw [← h.turnT hT, e1, hturn]
      exact hne' (lane_base_inj _ _ e1 hb)
    simp only [P.maskStore, upd2, hl, if_false]
    exact h.mval hh
  · intro hh; obtain ⟨w, hw⟩ := h.advOk hh; exact ⟨w, hitem _ _ hw⟩
  · intro hh; exact hinv _ (h.advBad hh)
  · intro hh; obtain ⟨w, hw⟩ := h.mvItem hh; exact ⟨w, hitem _ _ hw⟩
  · intro hh; exact hinv _ (h.invSlot hh)

/-! ### advTail: the lane's tail_counter moves past ticket `k` (which is no longer pending) -/

theorem PInv_advTail (p : P) (k : Nat) (h : PInv p) (hturn : p.ltail (lane k) = base k) (hs : p.slot k ≠ .pending) :
    PInv (p.advTail k) := by
  refine ⟨h.ippPos, ?_, ?_, ?_, h.slotLt, h.maskBit, h.popItem, h.skipInvalid, h.passed, h.consLt, h.nodupPop, h.nodupSkip, h.disj,
    h.invLogIff, h.invNodup, h.ninvEq, h.slotVal, h.noUnder⟩
  · intro l
    simp only [P.advTail, upd]
    refine ⟨?_, (h.lmod l).2⟩
    split
    · rw [Nat.add_mod_right]; exact (h.lmod _).1
    · exact (h.lmod l).1
  · intro l
    simp only [P.advTail, upd]
    split
    · rename_i e; subst e; have := h.lle (lane k); omega
    · exact h.lle l
  · intro x hx
    simp only [P.advTail, upd] at hx
    by_cases e : lane x = lane k
    · simp only [e, if_true] at hx
      rw [hturn] at hx
      rcases Nat.lt_or_ge (base x) (base k) with hlt | hge
      · exact h.pub x (by rw [e, hturn]; exact hlt)
      · have hb := mult_between nq (base k) (base x) (base_mod k) (base_mod x) hge hx
        have : x = k := lane_base_inj x k e hb.symm
        subst this; exact hs
    · simp only [e, if_false] at hx; exact h.pub x hx

theorem TInv_advTail (p : P) (k j : Nat) (t : Th) (h : TInv p j t) (hturn : p.ltail (lane k) = base k)
    (hne : holdsT t.pc = true → t.k ≠ k) : TInv (p.advTail k) j t := by
  refine ⟨h.alive, h.ownT, h.pend, ?_, h.mval, h.advOk, h.advBad, h.ownH, h.fresh, h.turnH, ?_, h.mvItem, h.invSlot, h.fin⟩
  · intro hh
    have hne' := hne (atTurnT_holdsT hh)
    have hl : lane t.k ≠ lane k := by
      intro e1
      have hb : base t.k = base k := by rw [← h.turnT hh, e1, hturn]
      exact hne' (lane_base_inj _ _ e1 hb)
    simp only [P.advTail, upd, hl, if_false]
    exact h.turnT hh
  · intro hh
    have := h.seen hh
    simp only [P.advTail, upd]
    split
    · rename_i e; rw [e] at this; omega
    · exact this

/-! ### popMove / skipInv: the holder of head ticket `h` consumes it -/

theorem consumed_popMove (p : P) (h v x : Nat) : consumed (p.popMove h v) x ↔ consumed p x ∨ x = h := by
  simp only [consumed, P.popMove, List.map_append, List.map_cons, List.map_nil, List.mem_append, List.mem_singleton]
  constructor
  · rintro ((a | a) | a)
    · exact Or.inl (Or.inl a)
    · exact Or.inr a
    · exact Or.inl (Or.inr a)
  · rintro ((a | a) | a)
    · exact Or.inl (Or.inl a)
    · exact Or.inr a
    · exact Or.inl (Or.inr a)

theorem consumed_skipInv (p : P) (h x : Nat) : consumed (p.skipInv h) x ↔ consumed p x ∨ x = h := by
  simp only [consumed, P.skipInv, List.mem_append, List.mem_singleton]
  constructor
  · rintro (a | a | a)
    · exact Or.inl (Or.inl a)
    · exact Or.inl (Or.inr a)
    · exact Or.inr a
  · rintro ((a | a) | a)
    · exact Or.inl a
    · exact Or.inr (Or.inl a)
    · exact Or.inr (Or.inr a)

theorem PInv_popMove (p : P) (hd v : Nat) (h : PInv p) (hs : p.slot hd = .item v) (hf : ¬ consumed p hd) (hlt : hd < p.head) :
    PInv (p.popMove hd v) := by
  have hf1 : hd ∉ p.popLog.map Prod.fst := fun a => hf (Or.inl a)
  have hf2 : hd ∉ p.skipLog := fun a => hf (Or.inr a)
  refine ⟨h.ippPos, h.lmod, h.lle, h.pub, h.slotLt, h.maskBit, ?_, h.skipInvalid, ?_, ?_, ?_, h.nodupSkip, ?_,
    h.invLogIff, h.invNodup, h.ninvEq, h.slotVal, h.noUnder⟩
  · intro x w hx
    simp only [P.popMove, List.mem_append, List.mem_singleton] at hx
    rcases hx with hx | hx
    · exact h.popItem x w hx
    · cases hx; exact hs
  · intro x hx; rw [consumed_popMove]; exact Or.inl (h.passed x hx)
  · intro x hx
    rw [consumed_popMove] at hx
    rcases hx with hx | hx
    · exact h.consLt x hx
    · subst hx; exact hlt
  · simp only [P.popMove, List.map_append, List.map_cons, List.map_nil]
    rw [List.nodup_append]
    refine ⟨h.nodupPop, by simp, ?_⟩
    intro a ha b hb
    simp only [List.mem_singleton] at hb
    subst hb; intro e; subst e; exact hf1 ha
  · intro x hx
    simp only [P.popMove, List.map_append, List.map_cons, List.map_nil, List.mem_append, List.mem_singleton] at hx
    rcases hx with hx | hx
    · exact h.disj x hx
    · subst hx; exact hf2

theorem TInv_popMove (p : P) (hd v j : Nat) (t : Th) (h : TInv p j t) (hne : holdsH t.pc = true → t.k ≠ hd) :
    TInv (p.popMove hd v) j t := by
  refine ⟨h.alive, h.ownT, h.pend, h.turnT, h.mval, h.advOk, h.advBad, h.ownH, ?_, h.turnH, h.seen, h.mvItem, h.invSlot, ?_⟩
  · intro hh hc
    rw [consumed_popMove] at hc
    rcases hc with hc | hc
    · exact h.fresh hh hc
    · exact hne (preCons_holdsH hh) hc
  · intro r hr
    obtain ⟨h1, h2⟩ := h.fin r hr
    refine ⟨by rw [consumed_popMove]; exact Or.inl h1, ?_⟩
    intro w hw
    simp only [P.popMove, List.mem_append]
    exact Or.inl (h2 w hw)

theorem PInv_skipInv (p : P) (hd : Nat) (h : PInv p) (hs : p.slot hd = .invalid) (hf : ¬ consumed p hd) (hlt : hd < p.head) :
    PInv (p.skipInv hd) := by
  have hf1 : hd ∉ p.popLog.map Prod.fst := fun a => hf (Or.inl a)
  have hf2 : hd ∉ p.skipLog := fun a => hf (Or.inr a)
  have hpos : 1 ≤ p.ninv := by
    have hnd : (hd :: p.skipLog).Nodup := List.nodup_cons.2 ⟨hf2, h.nodupSkip⟩
    have hsub : ∀ x, x ∈ hd :: p.skipLog → x ∈ p.invLog := by
      intro x hx
      simp only [List.mem_cons] at hx
      rcases hx with hx | hx
      · subst hx; exact (h.invLogIff x).2 hs
      · exact (h.invLogIff x).2 (h.skipInvalid x hx)
    have := nodup_subset_length _ _ hnd hsub
    have := h.ninvEq
    simp only [List.length_cons] at *
    omega
  refine ⟨h.ippPos, h.lmod, h.lle, h.pub, h.slotLt, h.maskBit, h.popItem, ?_, ?_, ?_, h.nodupPop, ?_, ?_,
    h.invLogIff, h.invNodup, ?_, h.slotVal, ?_⟩
  · intro x hx
    simp only [P.skipInv, List.mem_append, List.mem_singleton] at hx
    rcases hx with hx | hx
    · exact h.skipInvalid x hx
    · subst hx; exact hs
  · intro x hx; rw [consumed_skipInv]; exact Or.inl (h.passed x hx)
  · intro x hx
    rw [consumed_skipInv] at hx
    rcases hx with hx | hx
    · exact h.consLt x hx
    · subst hx; exact hlt
  · simp only [P.skipInv]
    rw [List.nodup_append]
    refine ⟨h.nodupSkip, by simp, ?_⟩
    intro a ha b hb
    simp only [List.mem_singleton] at hb
    subst hb; intro e; subst e; exact hf2 ha
  · intro x hx
    simp only [P.skipInv, List.mem_append, List.mem_singleton]
    intro hc
    rcases hc with hc | hc
    · exact h.disj x hx hc
    · subst hc; exact hf1 hx
  · simp only [P.skipInv, List.length_append, List.length_singleton]
    have := h.ninvEq; omega
  · simp only [P.skipInv, h.noUnder, Bool.false_or, beq_eq_false_iff_ne, ne_eq]
    omega

theorem TInv_skipInv (p : P) (hd j : Nat) (t : Th) (h : TInv p j t) (hne : holdsH t.pc = true → t.k ≠ hd) :
    TInv (p.skipInv hd) j t := by
  refine ⟨h.alive, h.ownT, h.pend, h.turnT, h.mval, h.advOk, h.advBad, h.ownH, ?_, h.turnH, h.seen, h.mvItem, h.invSlot, ?_⟩
  · intro hh hc
    rw [consumed_skipInv] at hc
    rcases hc with hc | hc
    · exact h.fresh hh hc
    · exact hne (preCons_holdsH hh) hc
  · intro r hr
    obtain ⟨h1, h2⟩ := h.fin r hr
    exact ⟨by rw [consumed_skipInv]; exact Or.inl h1, h2⟩

/-! ### advHead: the lane's head_counter moves past the consumed ticket `hd` -/

theorem PInv_advHead (p : P) (hd : Nat) (h : PInv p) (hturn : p.lhead (lane hd) = base hd)
    (hseen : base hd < p.ltail (lane hd)) (hc : consumed p hd) : PInv (p.advHead hd) := by
  refine ⟨h.ippPos, ?_, ?_, h.pub, h.slotLt, h.maskBit, h.popItem, h.skipInvalid, ?_, h.consLt, h.nodupPop, h.nodupSkip, h.disj,
    h.invLogIff, h.invNodup, h.ninvEq, h.slotVal, h.noUnder⟩
  · intro l
    simp only [P.advHead, upd]
    refine ⟨(h.lmod l).1, ?_⟩
    split
    · rw [Nat.add_mod_right]; exact base_mod hd
    · exact (h.lmod l).2
  · intro l
    simp only [P.advHead, upd]
    split
    · rename_i e; subst e
      exact mult_step nq (base hd) _ (base_mod hd) (h.lmod _).1 hseen
    · exact h.lle l
  · intro x hx
    simp only [P.advHead, upd] at hx
    by_cases e : lane x = lane hd
    · simp only [e, if_true] at hx
      rcases Nat.lt_or_ge (base x) (base hd) with hlt | hge
      · exact h.passed x (by rw [e, hturn]; exact hlt)
      · have hb := mult_between nq (base hd) (base x) (base_mod hd) (base_mod x) hge hx
        have : x = hd := lane_base_inj x hd e hb.symm
        subst this; exact hc
    · simp only [e, if_false] at hx; exact h.passed x hx

theorem TInv_advHead (p : P) (hd j : Nat) (t : Th) (h : TInv p j t) (hturn : p.lhead (lane hd) = base hd)
    (hne : holdsH t.pc = true → t.k ≠ hd) : TInv (p.advHead hd) j t := by
  refine ⟨h.alive, h.ownT, h.pend, h.turnT, h.mval, h.advOk, h.advBad, h.ownH, h.fresh, ?_, h.seen, h.mvItem, h.invSlot, h.fin⟩
  intro hh
  have hne' := hne (atTurnH_holdsH hh)
  have hl : lane t.k ≠ lane hd := by
    intro e1
    have hb : base t.k = base hd := by rw [← h.turnH hh, e1, hturn]
    exact hne' (lane_base_inj _ _ e1 hb)
  simp only [P.advHead, upd, hl, if_false]
  exact h.turnH hh

/-! ### undoHead: an aborted pop that holds the LATEST head ticket gives it back -/

theorem PInv_undoHead (p : P) (hd : Nat) (h : PInv p) (hlast : hd + 1 = p.head) (hf : ¬ consumed p hd) : PInv (p.undoHead hd) := by
  refine ⟨h.ippPos, h.lmod, h.lle, h.pub, h.slotLt, h.maskBit, h.popItem, h.skipInvalid, h.passed, ?_, h.nodupPop, h.nodupSkip, h.disj,
    h.invLogIff, h.invNodup, h.ninvEq, h.slotVal, h.noUnder⟩
  intro x hx
  have h1 := h.consLt x hx
  have : x ≠ hd := by intro e; subst e; exact hf hx
  simp only [P.undoHead]
  omega

theorem TInv_undoHead (p : P) (hd j : Nat) (t : Th) (h : TInv p j t) (hlast : hd + 1 = p.head)
    (hne : holdsH t.pc = true → t.k ≠ hd) : TInv (p.undoHead hd) j t := by
  refine ⟨h.alive, h.ownT, h.pend, h.turnT, h.mval, h.advOk, h.advBad, ?_, h.fresh, h.turnH, h.seen, h.mvItem, h.invSlot, h.fin⟩
  intro hh
  obtain ⟨h1, h2⟩ := h.ownH hh
  have := hne hh
  simp only [P.undoHead]
  exact ⟨by omega, h2⟩

theorem ok_undoHead (p : P) (hd : Nat) (h : ok (p.undoHead hd)) : ok p ∧ hd + 1 = p.head := by
  simp only [ok, P.undoHead, Bool.or_eq_false_iff, bne_eq_false_iff_eq] at h
  exact ⟨⟨h.1.1, h.2⟩, h.1.2⟩

end TbbVerif.C09
