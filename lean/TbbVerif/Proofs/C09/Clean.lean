/-
C09 — programs that never call `abort()` and in which no page allocation fails stay `ok`: the hazard / poison flags
the safety theorems are conditional on are then never set.
-/
import TbbVerif.Proofs.C09.Holders

namespace TbbVerif.C09

def cleanOp : Op → Bool
  | .abort => false
  | .push _ f => f != .alloc
  | .bpush _ f => f != .alloc
  | .btryPush _ f => f != .alloc
  | _ => true

def cleanPc : Pc → Bool
  | .qUndo | .bAbTurn | .bAbInv | .bAbAdv | .pAlloc1 | .pAlloc2 => false
  | _ => true

structure CleanG (g : G) : Prop where
  ab : g.abortCnt = 0
  hz : g.hazard = false
  un : g.undone = false
  po : g.poisoned = false
  fp : g.flushPop = 0
  fq : g.flushPush = 0

structure CleanT (t : Th) : Prop where
  old : t.old = 0
  pc : cleanPc t.pc = true
  ops : ∀ op, op ∈ t.ops → cleanOp op = true
  fl : t.fl = 0

def Clean (s : St) : Prop := CleanG s.g ∧ ∀ t, t ∈ s.ths → CleanT t

theorem pushEntry_clean (g : G) (t : Th) (f : Fail) (hf : (f != .alloc) = true) : pushEntry g t f = .pTurn := by
  unfold pushEntry
  have : f ≠ .alloc := by simpa using hf
  simp [this]

theorem finish_clean (g : G) (tid : Nat) (t : Th) (op : Op) (res : Res) (lin : Nat) (wit : Bool) (hg : CleanG g) (ht : CleanT t) :
    CleanG (finish g tid t op res lin wit).1 ∧ CleanT (finish g tid t op res lin wit).2 :=
  ⟨⟨hg.ab, hg.hz, hg.un, hg.po, hg.fp, hg.fq⟩, ⟨ht.old, rfl, fun op hop => ht.ops op (List.mem_of_mem_tail hop), ht.fl⟩⟩

theorem lanePush_clean (g : G) (tid : Nat) (t : Th) (op : Op) (v : Nat) (f : Fail) (hg : CleanG g) (ht : CleanT t) :
    CleanG (stepLanePush g tid t op v f).1 ∧ CleanT (stepLanePush g tid t op v f).2.1 := by
  have hpcc := ht.pc
  cases hpc : t.pc <;> simp only [stepLanePush, hpc] <;> try exact ⟨hg, ht⟩
  case pAlloc1 => rw [hpc] at hpcc; simp [cleanPc] at hpcc
  case pAlloc2 => rw [hpc] at hpcc; simp [cleanPc] at hpcc
  case pTurn =>
    refine ⟨hg, ht.old, ?_, ht.ops, ht.fl⟩
    split
    · rfl
    · split <;> rfl
  case pBadLast => exact finish_clean _ _ _ _ _ _ _ ⟨hg.ab, hg.hz, hg.un, hg.po, hg.fp, hg.fq⟩ ht
  case pCons =>
    split
    · exact ⟨⟨hg.ab, hg.hz, hg.un, hg.po, hg.fp, hg.fq⟩, ht.old, rfl, ht.ops, ht.fl⟩
    · exact ⟨hg, ht.old, rfl, ht.ops, ht.fl⟩
  case pMaskSt => exact ⟨⟨hg.ab, hg.hz, hg.un, hg.po, hg.fp, hg.fq⟩, ht.old, rfl, ht.ops, ht.fl⟩
  case pAdv okb => exact finish_clean _ _ _ _ _ _ _ ⟨hg.ab, hg.hz, hg.un, hg.po, hg.fp, hg.fq⟩ ht

theorem lanePop_clean (g : G) (tid : Nat) (t : Th) (op : Op) (retry : Pc) (hr : cleanPc retry = true) (hg : CleanG g) (ht : CleanT t) :
    CleanG (stepLanePop g tid t op retry).1 ∧ CleanT (stepLanePop g tid t op retry).2.1 := by
  cases hpc : t.pc <;> simp only [stepLanePop, hpc] <;> try exact ⟨hg, ht⟩
  case lHead => exact ⟨hg, ht.old, by split <;> rfl, ht.ops, ht.fl⟩
  case lTail => exact ⟨hg, ht.old, by split <;> rfl, ht.ops, ht.fl⟩
  case lMask =>
    refine ⟨?_, ht.old, by split <;> rfl, ht.ops, ht.fl⟩
    split <;> exact ⟨hg.ab, hg.hz, hg.un, hg.po, hg.fp, hg.fq⟩
  case lMove => exact ⟨⟨hg.ab, hg.hz, hg.un, hg.po, hg.fp, hg.fq⟩, ht.old, rfl, ht.ops, ht.fl⟩
  case lInv => exact ⟨⟨hg.ab, hg.hz, hg.un, hg.po, hg.fp, hg.fq⟩, ht.old, rfl, ht.ops, ht.fl⟩
  case lFin r =>
    cases r with
    | some v => exact finish_clean _ _ _ _ _ _ _ ⟨hg.ab, hg.hz, hg.un, hg.po, hg.fp, hg.fq⟩ ht
    | none => exact ⟨⟨hg.ab, hg.hz, hg.un, hg.po, hg.fp, hg.fq⟩, ht.old, hr, ht.ops, ht.fl⟩

theorem stepTh_clean (g : G) (tid c : Nat) (t : Th) (hg : CleanG g) (ht : CleanT t) :
    CleanG (stepTh g tid c t).1 ∧ CleanT (stepTh g tid c t).2.1 := by
  unfold stepTh
  cases hops : t.ops with
  | nil => exact ⟨hg, ht⟩
  | cons op rest =>
    have hop := ht.ops op (by rw [hops]; simp)
    have hpcc := ht.pc
    cases op with
    | push v f =>
      simp only [cleanOp] at hop
      cases hpc : t.pc <;> simp only [stepPush, hpc] <;> try exact lanePush_clean g tid t _ v f hg ht
      case start => rw [pushEntry_clean _ _ _ hop]; exact ⟨⟨hg.ab, hg.hz, hg.un, hg.po, hg.fp, hg.fq⟩, ht.old, rfl, ht.ops, ht.fl⟩
    | tryPop =>
      cases hpc : t.pc <;> simp only [stepTryPop, hpc] <;> try exact lanePop_clean g tid t _ _ rfl hg ht
      case start => exact ⟨hg, ht.old, rfl, ht.ops, ht.fl⟩
      case tHead => exact ⟨hg, ht.old, rfl, ht.ops, ht.fl⟩
      case tTail =>
        split
        · exact finish_clean _ _ _ _ _ _ _ hg ht
        · exact ⟨hg, ht.old, rfl, ht.ops, ht.fl⟩
      case tCas =>
        split
        · exact ⟨⟨hg.ab, hg.hz, hg.un, hg.po, hg.fp, hg.fq⟩, ht.old, rfl, ht.ops, ht.fl⟩
        · exact ⟨hg, ht.old, rfl, ht.ops, ht.fl⟩
    | bpush v f =>
      simp only [cleanOp] at hop
      have hpe := pushEntry_clean g t f hop
      cases hpc : t.pc <;> simp only [stepBPush, hpc] <;> (try exact lanePush_clean g tid t _ v f hg ht) <;>
        (try (rw [hpc] at hpcc; simp [cleanPc] at hpcc; done))
      case start => exact ⟨hg, hg.ab, rfl, ht.ops, ht.fl⟩
      case bTicket => exact ⟨⟨hg.ab, hg.hz, hg.un, hg.po, hg.fp, hg.fq⟩, ht.old, rfl, ht.ops, ht.fl⟩
      case bGate => refine ⟨hg, ht.old, ?_, ht.ops, hg.fq⟩; split <;> simp [hpe, cleanPc]
      case bPredA =>
        have : ¬ (g.abortCnt ≠ t.old) := by rw [hg.ab, ht.old]; simp
        simp only [this, if_false]; exact ⟨hg, ht.old, rfl, ht.ops, ht.fl⟩
      case bPredH => refine ⟨hg, ht.old, ?_, ht.ops, ht.fl⟩; split <;> simp [hpe, cleanPc]
      case bBlocked =>
        have : ¬ (c = 0 ∧ (g.abortCnt ≠ t.old ∨ g.flushPush ≠ t.fl)) := by rw [hg.ab, ht.old, hg.fq, ht.fl]; simp
        simp only [this, if_false]
        split
        · exact ⟨hg, ht.old, rfl, ht.ops, ht.fl⟩
        · split
          · exact ⟨hg, ht.old, by simp [hpe, cleanPc], ht.ops, ht.fl⟩
          · exact ⟨hg, ht⟩
    | btryPush v f =>
      simp only [cleanOp] at hop
      have hpe := pushEntry_clean g t f hop
      cases hpc : t.pc <;> simp only [stepBTryPush, hpc] <;> try exact lanePush_clean g tid t _ v f hg ht
      case start => exact ⟨hg, ht.old, rfl, ht.ops, ht.fl⟩
      case yHead =>
        split
        · exact finish_clean _ _ _ _ _ _ _ hg ht
        · exact ⟨hg, ht.old, rfl, ht.ops, ht.fl⟩
      case yCas =>
        split
        · exact ⟨⟨hg.ab, hg.hz, hg.un, hg.po, hg.fp, hg.fq⟩, ht.old, by simp [hpe, cleanPc], ht.ops, ht.fl⟩
        · exact ⟨hg, ht.old, rfl, ht.ops, ht.fl⟩
    | bpop =>
      cases hpc : t.pc <;> simp only [stepBPop, hpc] <;> (try exact lanePop_clean g tid t _ _ rfl hg ht)
      case start => exact ⟨hg, hg.ab, rfl, ht.ops, ht.fl⟩
      case qTicket => exact ⟨⟨hg.ab, hg.hz, hg.un, hg.po, hg.fp, hg.fq⟩, ht.old, rfl, ht.ops, ht.fl⟩
      case qGate => refine ⟨hg, ht.old, ?_, ht.ops, hg.fp⟩; split <;> rfl
      case qPredA =>
        have : ¬ (g.abortCnt ≠ t.old) := by rw [hg.ab, ht.old]; simp
        simp only [this, if_false]; exact ⟨hg, ht.old, rfl, ht.ops, ht.fl⟩
      case qPredT => refine ⟨hg, ht.old, ?_, ht.ops, ht.fl⟩; split <;> rfl
      case qBlocked =>
        have : ¬ (c = 0 ∧ (g.abortCnt ≠ t.old ∨ g.flushPop ≠ t.fl)) := by rw [hg.ab, ht.old, hg.fp, ht.fl]; simp
        simp only [this, if_false]
        split
        · exact ⟨hg, ht.old, rfl, ht.ops, ht.fl⟩
        · split
          · exact ⟨hg, ht.old, rfl, ht.ops, ht.fl⟩
          · exact ⟨hg, ht⟩
      case qUndo => rw [hpc] at hpcc; simp [cleanPc] at hpcc
    | abort => simp [cleanOp] at hop
    | setCap cp =>
      simp only; split
      · exact finish_clean _ _ _ _ _ _ _ ⟨hg.ab, hg.hz, hg.un, hg.po, hg.fp, hg.fq⟩ ⟨ht.old, ht.pc, by rw [← hops]; exact ht.ops, ht.fl⟩
      · exact ⟨hg, ht⟩

theorem step_clean (s : St) (a : Act) (h : Clean s) : Clean (step s a) := by
  unfold step stepEv
  cases hth : s.ths[a.tid]? with
  | none => exact h
  | some t =>
    simp only
    have ht := h.2 t (List.mem_of_getElem? hth)
    have hg0 : CleanG { s.g with now := s.g.now + 1 } := ⟨h.1.ab, h.1.hz, h.1.un, h.1.po, h.1.fp, h.1.fq⟩
    obtain ⟨h1, h2⟩ := stepTh_clean _ a.tid a.c t hg0 ht
    refine ⟨h1, ?_⟩
    intro u hu
    rcases List.mem_or_eq_of_mem_set hu with hm | he
    · exact h.2 u hm
    · rw [he]; exact h2

def cleanProgs (progs : List (List Op)) : Prop := ∀ p, p ∈ progs → ∀ op, op ∈ p → cleanOp op = true

instance (progs : List (List Op)) : Decidable (cleanProgs progs) := by unfold cleanProgs; exact inferInstance

theorem clean_run (ipp : Nat) (cap : Int) (progs : List (List Op)) (hc : cleanProgs progs) (sched : List Act) :
    Clean (run ipp cap progs sched) := by
  unfold run runFrom
  suffices ∀ s, Clean s → Clean (sched.foldl step s) by
    apply this
    refine ⟨⟨rfl, rfl, rfl, rfl, rfl, rfl⟩, ?_⟩
    intro t ht
    simp only [initSt, List.mem_map] at ht
    obtain ⟨p, hp, rfl⟩ := ht
    exact ⟨rfl, rfl, hc p hp, rfl⟩
  induction sched with
  | nil => intro s h; exact h
  | cons a as ih => intro s h; exact ih _ (step_clean s a h)

theorem clean_ok (s : St) (h : Clean s) : ok s.g.toP ∧ s.g.undone = false := ⟨⟨h.1.hz, h.1.po⟩, h.1.un⟩

end TbbVerif.C09
