/-
C09 — the sequential operations refine the abstract FIFO (helper lemmas for `queue_ops_refine_fifo`).
-/
import TbbVerif.Model.C09Seq

namespace TbbVerif.C09.Seq

theorem absGo_congr (s s' : Nat → Slot) : ∀ n k, (∀ j, k ≤ j → j < k + n → s' j = s j) → absGo s' k n = absGo s k n := by
  intro n
  induction n with
  | zero => intro k _; rfl
  | succ n ih =>
    intro k h
    simp only [absGo]
    rw [h k (Nat.le_refl _) (by omega), ih (k + 1) (fun j h1 h2 => h j (by omega) (by omega))]

theorem invCount_congr (s s' : Nat → Slot) : ∀ n k, (∀ j, k ≤ j → j < k + n → s' j = s j) → invCount s' k n = invCount s k n := by
  intro n
  induction n with
  | zero => intro k _; rfl
  | succ n ih =>
    intro k h
    simp only [invCount]
    rw [h k (Nat.le_refl _) (by omega), ih (k + 1) (fun j h1 h2 => h j (by omega) (by omega))]

theorem absGo_snoc (s : Nat → Slot) : ∀ n k, absGo s k (n + 1) = absGo s k n ++ itemOf (s (k + n)) := by
  intro n
  induction n with
  | zero => intro k; simp [absGo]
  | succ n ih =>
    intro k
    have := ih (k + 1)
    simp only [absGo] at this ⊢
    rw [this, List.append_assoc]
    have e : k + 1 + n = k + (n + 1) := by omega
    rw [e]

theorem invCount_snoc (s : Nat → Slot) : ∀ n k, invCount s k (n + 1) = invCount s k n + (if s (k + n) = .invalid then 1 else 0) := by
  intro n
  induction n with
  | zero => intro k; simp [invCount]
  | succ n ih =>
    intro k
    have := ih (k + 1)
    simp only [invCount] at this ⊢
    rw [this]
    have e : k + 1 + n = k + (n + 1) := by omega
    rw [e]; omega

theorem abs_len (s : Nat → Slot) : ∀ n k, (∀ j, k ≤ j → j < k + n → s j ≠ .pending) → (absGo s k n).length + invCount s k n = n := by
  intro n
  induction n with
  | zero => intro k _; rfl
  | succ n ih =>
    intro k h
    have := ih (k + 1) (fun j h1 h2 => h j (by omega) (by omega))
    have hk := h k (Nat.le_refl _) (by omega)
    simp only [absGo, invCount, List.length_append]
    cases hs : s k with
    | pending => exact absurd hs hk
    | item v => simp [itemOf]; omega
    | invalid => simp [itemOf]; omega

theorem iterGo_eq (s : Nat → Slot) : ∀ n k, iterGo s k n = absGo s k n := by
  intro n
  induction n with
  | zero => intro k; rfl
  | succ n ih =>
    intro k
    simp only [iterGo, absGo]
    cases hs : s k <;> simp [itemOf, ih]

/-- the pop loop returns the first item and leaves the rest; it consumes exactly the invalid tickets it skipped -/
theorem popGo_spec (s : Nat → Slot) : ∀ f h ni, (∀ j, h ≤ j → j < h + f → s j ≠ .pending) → ni = invCount s h f →
    let r := popGo s h ni f
    r.2.2 = (absGo s h f).head? ∧ h ≤ r.1 ∧ r.1 ≤ h + f ∧ absGo s r.1 (h + f - r.1) = (absGo s h f).tail ∧
    r.2.1 = invCount s r.1 (h + f - r.1) := by
  intro f
  induction f with
  | zero => intro h ni _ hn; simp [popGo, absGo, invCount] at *; exact hn
  | succ f ih =>
    intro h ni hp hn
    have hk := hp h (Nat.le_refl _) (by omega)
    simp only [popGo]
    cases hs : s h with
    | pending => exact absurd hs hk
    | item v =>
      simp only [absGo, hs, itemOf, invCount] at hn ⊢
      have e : h + (f + 1) - (h + 1) = f := by omega
      simp [e]
      simpa using hn
    | invalid =>
      simp only [absGo, invCount, hs, itemOf] at hn ⊢
      have := ih (h + 1) (ni - 1) (fun j h1 h2 => hp j (by omega) (by omega)) (by simp at hn; omega)
      obtain ⟨a1, a2, a3, a4, a5⟩ := this
      have e : h + (f + 1) = h + 1 + f := by omega
      simp only [List.nil_append]
      rw [e]
      exact ⟨a1, by omega, a3, a4, a5⟩

theorem wf_push (q : SQ) (hw : WF q) (v : Nat) (okc : Bool) :
    WF (push q v okc) ∧ abs (push q v okc) = abs q ++ (if okc then [v] else []) := by
  obtain ⟨h1, h2, h3⟩ := hw
  have hcong : ∀ x, ∀ j, q.head ≤ j → j < q.head + (q.tail - q.head) → upd q.slot q.tail x j = q.slot j := by
    intro x j _ hj; simp [upd]; intro e; omega
  have e : q.tail + 1 - q.head = (q.tail - q.head) + 1 := by omega
  have ht : q.head + (q.tail - q.head) = q.tail := by omega
  cases okc with
  | true =>
    simp only [push, if_true, abs, WF]
    refine ⟨⟨by omega, ?_, ?_⟩, ?_⟩
    · rw [e, invCount_snoc, ht, invCount_congr _ _ _ _ (hcong _)]; simp [upd]; exact h2
    · intro k hk1 hk2
      by_cases ek : k = q.tail
      · simp [upd, ek]
      · simp [upd, ek]; exact h3 k hk1 (by omega)
    · rw [e, absGo_snoc, ht, absGo_congr _ _ _ _ (hcong _)]; simp [upd, itemOf]
  | false =>
    simp only [push, Bool.false_eq_true, ↓reduceIte, abs, WF]
    refine ⟨⟨by omega, ?_, ?_⟩, ?_⟩
    · rw [e, invCount_snoc, ht, invCount_congr _ _ _ _ (hcong _)]; simp [upd]; exact h2
    · intro k hk1 hk2
      by_cases ek : k = q.tail
      · simp [upd, ek]
      · simp [upd, ek]; exact h3 k hk1 (by omega)
    · rw [e, absGo_snoc, ht, absGo_congr _ _ _ _ (hcong _)]; simp [upd, itemOf]

theorem wf_tryPop (q : SQ) (hw : WF q) :
    (tryPop q).2 = (abs q).head? ∧ abs (tryPop q).1 = (abs q).tail ∧ WF (tryPop q).1 := by
  obtain ⟨h1, h2, h3⟩ := hw
  have ht : q.head + (q.tail - q.head) = q.tail := by omega
  have sp := popGo_spec q.slot (q.tail - q.head) q.head q.ninv (fun j a b => h3 j a (by omega)) h2
  simp only [ht] at sp
  obtain ⟨a1, a2, a3, a4, a5⟩ := sp
  simp only [tryPop, abs, WF]
  exact ⟨a1, a4, a3, a5, fun k hk1 hk2 => h3 k (by omega) hk2⟩

theorem size_eq (q : SQ) (hw : WF q) : size q = ((abs q).length : Int) := by
  obtain ⟨h1, h2, h3⟩ := hw
  have ht : q.head + (q.tail - q.head) = q.tail := by omega
  have := abs_len q.slot (q.tail - q.head) q.head (fun j a b => h3 j a (by omega))
  simp only [size, abs]
  omega

theorem wf_assign (dst src : SQ) (hw : WF src) : WF (assignRep dst src) ∧ abs (assignRep dst src) = abs src := by
  obtain ⟨h1, h2, h3⟩ := hw
  have hcong : ∀ j, src.head ≤ j → j < src.head + (src.tail - src.head) →
      (fun k => if src.head ≤ k ∧ k < src.tail then src.slot k else Slot.pending) j = src.slot j := by
    intro j a b
    have : src.head ≤ j ∧ j < src.tail := ⟨a, by omega⟩
    simp [this]
  simp only [assignRep, WF, abs]
  refine ⟨⟨h1, ?_, ?_⟩, absGo_congr _ _ _ _ hcong⟩
  · rw [invCount_congr _ _ _ _ hcong]; exact h2
  · intro k a b
    have : src.head ≤ k ∧ k < src.tail := ⟨a, b⟩
    simp only [this, and_self, if_true]; exact h3 k a b

end TbbVerif.C09.Seq
