/-
C09 — page life cycle: every step of `micro_queue::pop` and of the pop finalizer preserves the invariant.
-/
import TbbVerif.Proofs.C09.PgPush2

namespace TbbVerif.C09.Pg

/-- effect of one step of a pop of round `(n, i)` by thread `a` on the lane facts and on everybody else -/
structure CStep (l : Lane) (a : Nat) (n i : Nat) (l' : Lane) : Prop where
  g : LInv l'
  fut : ∀ o, futOK l o → popRound o ≠ some (n, i) → futOK l' o
  pu : ∀ b tb n' i' v' f', b ≠ a → PushLoc l b tb n' i' v' f' → PushLoc l' b tb n' i' v' f'
  po : ∀ b tb n' i', b ≠ a → ¬(n' = n ∧ i' = i) → PopLoc l b tb n' i' → PopLoc l' b tb n' i'

theorem CStep.refl {l : Lane} (hg : LInv l) (a n i : Nat) : CStep l a n i l :=
  ⟨hg, fun _ h _ => h, fun _ _ _ _ _ _ _ h => h, fun _ _ _ _ _ _ h => h⟩

theorem CStep.ofP {l l' : Lane} {a n i : Nat} (h : PStep l a n i l')
    (hf : ∀ o, futOK l o → futOK l' o)
    (hpu : ∀ b tb n' i' v' f', b ≠ a → PushLoc l b tb n' i' v' f' → PushLoc l' b tb n' i' v' f') : CStep l a n i l' :=
  ⟨h.g, fun o ho _ => hf o ho, hpu, fun b tb n' i' hba _ hb => h.po b tb n' i' hba hb⟩

theorem PopLoc.no_sec {l : Lane} {b : Nat} {tb : LTh} {n i n' i'} (ht : l.hP = n ∧ l.hI = i) (hne : ¬(n' = n ∧ i' = i))
    (hb : PopLoc l b tb n' i') : secC tb.pc = false := by
  cases h : secC tb.pc
  · rfl
  · have := hb.sec h; omega

section
variable {l : Lane} {a n i : Nat} {t : LTh}

theorem c_lock (hg : LInv l) (hm : l.mutex = none) : CStep l a n i { l with mutex := some a } := by
  refine ⟨{ hg with mxPh := by simp }, fun _ h _ => h, ?_, ?_⟩
  · intro b tb n' i' v' f' _ hb
    exact { hb with mx := fun hp => by have := hb.mx hp; rw [hm] at this; cases this }
  · intro b tb n' i' _ _ hb
    exact { hb with mx := fun hp => by have := hb.mx hp; rw [hm] at this; cases this }

theorem c_unlock (hg : LInv l) (hm : l.mutex = some a) (hph : l.ph = .idle) : CStep l a n i { l with mutex := none } := by
  refine ⟨{ hg with mxPh := fun _ => hph }, fun _ h _ => h, ?_, ?_⟩
  · intro b tb n' i' v' f' hba hb
    have hnm := PushLoc.no_mx hm hba hb
    exact { hb with mx := fun h => (by rw [h] at hnm; cases hnm) }
  · intro b tb n' i' hba _ hb
    have hnm := PopLoc.no_mx hm hba hb
    exact { hb with mx := fun h => (by rw [h] at hnm; cases hnm) }

/-- `spin_wait_until_eq(head_counter, k)` -/
theorem c_head_self (hilt : i < l.ipp) (hpre : rle l.hP l.hI n i ∧ (l.hP = n ∧ l.hI = i → l.mv = false)) :
    PopLoc l a { t with pc := if l.hP = n ∧ l.hI = i then .cTail else .cHead } n i := by
  by_cases h : l.hP = n ∧ l.hI = i
  · simp only [h, and_self, if_true]
    selfc
    case pcs => simp [isPopPc]
    case ilt => exact hilt
    case sec => intro _; exact h
    case mv0 => intro _; exact hpre.2 h
  · simp only [h, if_false]
    selfc
    case pcs => simp [isPopPc]
    case ilt => exact hilt
    case pre => intro _; exact hpre

/-- `spin_wait_while_eq(tail_counter, k)` passed -/
theorem c_tail_self (hg : LInv l) (hl : PopLoc l a t n i) (hpc : t.pc = .cTail) (hne : ¬(l.tP = n ∧ l.tI = i)) :
    PopLoc l a { t with pc := .cPage } n i := by
  have hs := hl.sec (by rw [hpc]; rfl)
  selfc
  case pcs => simp [isPopPc]
  case ilt => exact hl.ilt
  case sec => intro _; exact hs
  case mv0 => intro _; exact hl.mv0 (by rw [hpc]; rfl)
  case lt => intro _; have := hg.ht; simp only [rle, rlt] at this ⊢; omega

/-- facts of a pop that owns the head turn, before its slot is consumed -/
theorem c_facts (hg : LInv l) (hl : PopLoc l a t n i) (hk : mv0C t.pc = true) (hlt : ltC t.pc = true) :
    l.hP = n ∧ l.hI = i ∧ l.mv = false ∧ rlt l.hP l.hI l.tP l.tI ∧ l.U = n ∧ n < l.L ∧ (l.pages n).st = .live ∧ l.hp = .pg n := by
  have hs := hl.sec (mv0C_sec hk)
  have hmv := hl.mv0 hk
  have hlt' := hl.lt hlt
  have hU : l.U = n := by
    rcases hg.Urel with h | ⟨_, _, _, h⟩
    · omega
    · rw [hmv] at h; cases h
  have hL := hg.Lrel
  have hnL : n < l.L := by
    simp only [rlt] at hlt'
    by_cases hz : l.tI = 0
    · have := hL.2 hz; omega
    · have := hL.1 hz; omega
  refine ⟨hs.1, hs.2, hmv, hlt', hU, hnL, (hg.chain n (by omega) hnL).1, ?_⟩
  have := hg.hpC.1 (by omega); rw [this, hU]

theorem c_page_self (hg : LInv l) (hl : PopLoc l a t n i) (hpc : t.pc = .cPage) :
    PopLoc l a { t with pc := .cMask, p := l.hp } n i := by
  obtain ⟨h1, h2, h3, h4, h5, h6, h7, h8⟩ := c_facts hg hl (by rw [hpc]; rfl) (by rw [hpc]; rfl)
  selfc
  case pcs => simp [isPopPc]
  case ilt => exact hl.ilt
  case sec => intro _; exact ⟨h1, h2⟩
  case mv0 => intro _; exact h3
  case lt => intro _; exact h4
  case pg => intro _; exact h8

theorem c_mask_hit_self (hg : LInv l) (hl : PopLoc l a t n i) (hpc : t.pc = .cMask) (hbit : (l.pages n).mask i = true) :
    PopLoc l a { t with pc := .cMove } n i := by
  obtain ⟨h1, h2, h3, h4, h5, h6, h7, h8⟩ := c_facts hg hl (by rw [hpc]; rfl) (by rw [hpc]; rfl)
  selfc
  case pcs => simp [isPopPc]
  case ilt => exact hl.ilt
  case sec => intro _; exact ⟨h1, h2⟩
  case mv0 => intro _; exact h3
  case lt => intro _; exact h4
  case pg => intro _; exact hl.pg (by rw [hpc]; rfl)
  case cons =>
    intro _
    exact (hg.maskR n i hl.ilt (by simp only [rle]; omega) (by rw [← h1, ← h2]; exact h4) (by rw [h3]; intro h; cases h)).1 hbit

/-- the self facts after the slot was consumed or skipped (`mv` is set): continue with the finalizer -/
theorem c_fin_self {l' : Lane} {t' : LTh} (hl : PopLoc l a t n i) (hf : mv0C t.pc = true) (hlt : ltC t.pc = true)
    (hg : LInv l) (hpg : pgC t.pc = true)
    (e1 : l'.ipp = l.ipp) (e2 : l'.hP = l.hP) (e3 : l'.hI = l.hI) (e4 : l'.tP = l.tP) (e5 : l'.tI = l.tI) (e6 : l'.mv = true)
    (e7 : l'.U = l.U) (ep : t'.p = t.p) (epc : t'.pc = if i + 1 = l.ipp ∧ t.p.valid then .fLock else .fPub) :
    PopLoc l' a t' n i := by
  obtain ⟨h1, h2, h3, h4, h5, h6, h7, h8⟩ := c_facts hg hl hf hlt
  have hp := hl.pg hpg
  have hv : t.p.valid = true := by rw [hp]; rfl
  by_cases hi : i + 1 = l.ipp
  · simp only [hi, hv, and_self, if_true] at epc
    constructor <;> first
      | (intro h; rw [epc] at h; simp [secC, mv0C, mv1C, ltC, pgC, lastC, u0C, u1C, mxC, idleC] at h; done)
      | skip
    case pcs => rw [epc]; rfl
    case ilt => rw [e1]; exact hl.ilt
    case sec => intro _; rw [e2, e3]; exact ⟨h1, h2⟩
    case mv1 => intro _; exact e6
    case lt => intro _; rw [e2, e3, e4, e5]; exact h4
    case pg => intro _; rw [ep]; exact hp
    case last => intro _; rw [e1]; exact hi
    case u0 => intro _; rw [e7]; exact h5
  · have : ¬(i + 1 = l.ipp ∧ t.p.valid = true) := fun h => hi h.1
    simp only [this, if_false] at epc
    constructor <;> first
      | (intro h; rw [epc] at h; simp [secC, mv0C, mv1C, ltC, pgC, lastC, u0C, u1C, mxC, idleC] at h; done)
      | skip
    case pcs => rw [epc]; rfl
    case ilt => rw [e1]; exact hl.ilt
    case sec => intro _; rw [e2, e3]; exact ⟨h1, h2⟩
    case mv1 => intro _; exact e6
    case lt => intro _; rw [e2, e3, e4, e5]; exact h4
    case pg => intro _; rw [ep]; exact hp
    case pub => intro _; rw [e1, e7]; exact ⟨fun h => absurd h hi, fun _ => h5⟩

/-- the mask bit is clear: the slot is skipped -/
theorem c_skip (hg : LInv l) (hl : PopLoc l a t n i) (hpc : t.pc = .cMask) (hbit : (l.pages n).mask i = false) :
    CStep l a n i { l with mv := true } := by
  obtain ⟨h1, h2, h3, h4, h5, h6, h7, h8⟩ := c_facts hg hl (by rw [hpc]; rfl) (by rw [hpc]; rfl)
  have hnc : ∀ v, l.slot n i ≠ .cons v := by
    intro v hv
    have := (hg.maskR n i hl.ilt (by simp only [rle]; omega) (by rw [← h1, ← h2]; exact h4) (by rw [h3]; intro h; cases h)).2 ⟨v, hv⟩
    rw [hbit] at this; cases this
  refine ⟨?_, ?_, fun _ _ _ _ _ _ _ hb => { hb with }, ?_⟩
  · refine { hg with Urel := ?_, consR := ?_, maskR := ?_, mvR := ?_ }
    · exact Or.inl (by rw [h5, h1])
    · intro n' k v hc
      obtain ⟨c1, c2, _, c4⟩ := hg.consR n' k v hc
      exact ⟨c1, c2, fun _ e => hnc v (by rw [← h1, ← h2, ← e.1, ← e.2]; exact hc), c4⟩
    · intro n' k hk hm1 hm2 _
      exact hg.maskR n' k hk hm1 hm2 (by rw [h3]; intro h; cases h)
    · intro _; exact h4
  · intro o ho hr
    cases o with
    | push n' i' v' f' => exact ho
    | pop n' i' =>
      obtain ⟨g1, g2, g3⟩ := ho
      refine ⟨g1, g2, fun e => ?_⟩
      exfalso; apply hr; simp [popRound]
      have : l.hP = n' ∧ l.hI = i' := e
      omega
  · intro b tb n' i' _ hne hb
    have hns := PopLoc.no_sec ⟨h1, h2⟩ hne hb
    refine { hb with pre := ?_, mv0 := ?_, mv1 := ?_ }
    · intro h; obtain ⟨g1, g2⟩ := hb.pre h
      exact ⟨g1, fun e => by exfalso; apply hne; have : l.hP = n' ∧ l.hI = i' := e; omega⟩
    · intro h; rw [mv0C_sec h] at hns; cases hns
    · intro _; rfl

/-- the element is moved out and destroyed -/
theorem c_move (hg : LInv l) (hl : PopLoc l a t n i) (hpc : t.pc = .cMove) (v : Nat) (hv : l.slot n i = .cons v)
    (dl : List (Nat × Nat × Nat)) (hdl : dl = l.delivered ++ [(n, i, v)]) :
    CStep l a n i { setSlot l n i (.dead v) with mv := true, delivered := dl } := by
  obtain ⟨h1, h2, h3, h4, h5, h6, h7, h8⟩ := c_facts hg hl (by rw [hpc]; rfl) (by rw [hpc]; rfl)
  have key : ∀ n' k, ¬(n' = n ∧ k = i) → (setSlot l n i (.dead v)).slot n' k = l.slot n' k := by
    intro n' k e; dsimp only [setSlot]; rw [updF2_ne _ _ _ _ _ _ e]
  refine ⟨?_, ?_, ?_, ?_⟩
  · refine { hg with Urel := ?_, consR := ?_, maskR := ?_, mvR := ?_, deliv := ?_ }
    · exact Or.inl (by show l.U = l.hP; rw [h5, h1])
    · intro n' k v' hc
      by_cases e : n' = n ∧ k = i
      · obtain ⟨e1, e2⟩ := e; subst e1; subst e2
        simp [setSlot, updF2_same] at hc
      · have hc' : l.slot n' k = .cons v' := by rw [← key n' k e]; exact hc
        obtain ⟨c1, c2, _, c4⟩ := hg.consR n' k v' hc'
        exact ⟨c1, c2, fun _ e' => e (by rw [← h1, ← h2]; exact e'), c4⟩
    · intro n' k hk hm1 hm2 hm3
      have e : ¬(n' = n ∧ k = i) := by rw [← h1, ← h2]; exact hm3 rfl
      show ((l.pages n').mask k = true ↔ ∃ v', (setSlot l n i (.dead v)).slot n' k = .cons v')
      rw [key n' k e]
      exact hg.maskR n' k hk hm1 hm2 (by rw [h3]; intro h; cases h)
    · intro _; exact h4
    · intro e he
      show (setSlot l n i (.dead v)).slot e.1 e.2.1 = .dead e.2.2
      rw [hdl] at he
      rcases List.mem_append.1 he with he | he
      · have hd := hg.deliv e he
        have : ¬(e.1 = n ∧ e.2.1 = i) := by
          intro ⟨e1, e2⟩; rw [e1, e2, hv] at hd; cases hd
        rw [key _ _ this]; exact hd
      · simp at he; subst he; simp [setSlot, updF2_same]
  · intro o ho hr
    cases o with
    | push n' i' v' f' =>
      obtain ⟨g1, g2, g3, g4, g5⟩ := ho
      have e : ¬(n' = n ∧ i' = i) := by intro ⟨e1, e2⟩; rw [e1, e2, hv] at g4; cases g4
      exact ⟨g1, g2, g3, by rw [key n' i' e]; exact g4, g5⟩
    | pop n' i' =>
      obtain ⟨g1, g2, g3⟩ := ho
      refine ⟨g1, g2, fun e => ?_⟩
      exfalso; apply hr; simp [popRound]
      have : l.hP = n' ∧ l.hI = i' := e
      omega
  · intro b tb n' i' v' f' _ hb
    have hne : secP tb.pc = true → ¬(n' = n ∧ i' = i) := by
      intro hs
      have := hb.sec hs
      simp only [rlt] at h4; omega
    refine { hb with pre := ?_, raw := ?_, built := ?_, advT := ?_, advF := ?_ }
    · intro h; obtain ⟨g1, g2, g3, g4⟩ := hb.pre h
      have e : ¬(n' = n ∧ i' = i) := by intro ⟨e1, e2⟩; rw [e1, e2, hv] at g3; cases g3
      exact ⟨g1, g2, by rw [key n' i' e]; exact g3, g4⟩
    · intro h; rw [key n' i' (hne (rawP_sec h))]; exact hb.raw h
    · intro h; rw [key n' i' (hne (builtP_sec h))]; exact hb.built h
    · intro h; rw [key n' i' (hne (by rw [h]; rfl))]; exact hb.advT h
    · intro h; rw [key n' i' (hne (by rw [h]; rfl))]; exact hb.advF h
  · intro b tb n' i' _ hne hb
    have hns := PopLoc.no_sec ⟨h1, h2⟩ hne hb
    refine { hb with pre := ?_, mv0 := ?_, mv1 := ?_, cons := ?_ }
    · intro h; obtain ⟨g1, g2⟩ := hb.pre h
      exact ⟨g1, fun e => by exfalso; apply hne; have : l.hP = n' ∧ l.hI = i' := e; omega⟩
    · intro h; rw [mv0C_sec h] at hns; cases hns
    · intro _; rfl
    · intro h; have : secC tb.pc = true := by rw [h]; rfl
      rw [this] at hns; cases hns

theorem f_lock_self (hg : LInv l) (hl : PopLoc l a t n i) (hpc : t.pc = .fLock) (hm : l.mutex = none) :
    PopLoc { l with mutex := some a } a { t with pc := .fNext } n i := by
  selfc
  case pcs => simp [isPopPc]
  case ilt => exact hl.ilt
  case sec => intro _; exact hl.sec (by rw [hpc]; rfl)
  case mv1 => intro _; exact hl.mv1 (by rw [hpc]; rfl)
  case lt => intro _; exact hl.lt (by rw [hpc]; rfl)
  case pg => intro _; exact hl.pg (by rw [hpc]; rfl)
  case last => intro _; exact hl.last (by rw [hpc]; rfl)
  case u0 => intro _; exact hl.u0 (by rw [hpc]; rfl)
  case mx => intro _; rfl
  case phI => intro _; exact hg.mxPh hm

/-- facts of the finalizer while the page is still the head of the chain -/
theorem f_facts (hg : LInv l) (hl : PopLoc l a t n i) (hk : u0C t.pc = true) :
    l.hP = n ∧ l.hI = i ∧ i + 1 = l.ipp ∧ rlt l.hP l.hI l.tP l.tI ∧ l.U = n ∧ n < l.L ∧ (l.pages n).st = .live ∧ t.p = .pg n ∧
    l.mv = true := by
  have hs := hl.sec (u0C_sec hk)
  have hlt : ltC t.pc = true := by cases hpc : t.pc <;> simp_all [u0C, ltC]
  have hlast : lastC t.pc = true := by cases hpc : t.pc <;> simp_all [u0C, lastC]
  have hpgc : pgC t.pc = true := by cases hpc : t.pc <;> simp_all [u0C, pgC]
  have hmv : mv1C t.pc = true := by cases hpc : t.pc <;> simp_all [u0C, mv1C]
  have hlt' := hl.lt hlt
  have hU := hl.u0 hk
  have hL := hg.Lrel
  have hnL : n < l.L := by
    simp only [rlt] at hlt'
    by_cases hz : l.tI = 0
    · have := hL.2 hz; omega
    · have := hL.1 hz; omega
  exact ⟨hs.1, hs.2, hl.last hlast, hlt', hU, hnL, (hg.chain n (by omega) hnL).1, hl.pg hpgc, hl.mv1 hmv⟩

theorem f_next_self (hg : LInv l) (hl : PopLoc l a t n i) (hpc : t.pc = .fNext) :
    PopLoc l a { t with pc := .fSetHead, q := (l.pages n).next } n i := by
  selfc
  case pcs => simp [isPopPc]
  case ilt => exact hl.ilt
  case sec => intro _; exact hl.sec (by rw [hpc]; rfl)
  case mv1 => intro _; exact hl.mv1 (by rw [hpc]; rfl)
  case lt => intro _; exact hl.lt (by rw [hpc]; rfl)
  case pg => intro _; exact hl.pg (by rw [hpc]; rfl)
  case last => intro _; exact hl.last (by rw [hpc]; rfl)
  case u0 => intro _; exact hl.u0 (by rw [hpc]; rfl)
  case mx => intro _; exact hl.mx (by rw [hpc]; rfl)
  case phI => intro _; exact hl.phI (by rw [hpc]; rfl)
  case qv => intro _; rfl

/-- `head_page = p->next` -/
theorem f_sethead (hg : LInv l) (hl : PopLoc l a t n i) (hpc : t.pc = .fSetHead) :
    (t.q.valid = true →
      CStep l a n i { l with hp := t.q, U := l.U + 1 } ∧ PopLoc { l with hp := t.q, U := l.U + 1 } a { t with pc := .fUnlock } n i) ∧
    (t.q.valid = false →
      CStep l a n i { l with hp := t.q, U := l.U + 1, ph := .unlinkHalf } ∧
      PopLoc { l with hp := t.q, U := l.U + 1, ph := .unlinkHalf } a { t with pc := .fSetTail } n i) := by
  obtain ⟨h1, h2, hlast, hlt, hU, hnL, hlive, hp, hmv⟩ := f_facts hg hl (by rw [hpc]; rfl)
  have hm := hl.mx (by rw [hpc]; rfl)
  have hph := hl.phI (by rw [hpc]; rfl)
  have hq := hl.qv hpc
  have hnx := (hg.chain n (by omega) hnL).2
  rw [hph] at hnx; simp only [reduceCtorEq, ↓reduceIte] at hnx
  have hs : l.hP = n ∧ l.hI = i := ⟨h1, h2⟩
  have frame_pu : ∀ (l' : Lane), l'.ipp = l.ipp → l'.pages = l.pages → l'.slot = l.slot → l'.tP = l.tP → l'.tI = l.tI → l'.L = l.L →
      l'.mutex = l.mutex → l'.tp = l.tp → (l'.ph = l.ph ∨ l'.ph = .unlinkHalf) →
      ∀ b tb n' i' v' f', b ≠ a → PushLoc l b tb n' i' v' f' → PushLoc l' b tb n' i' v' f' := by
    intro l' e1 e2 e3 e4 e5 e6 e7 e8 e9 b tb n' i' v' f' hba hb
    have hnm := PushLoc.no_mx hm hba hb
    constructor
    · exact hb.pcs
    · rw [e1]; exact hb.ilt
    · rw [e2, e3, e4, e5]; exact hb.pre
    · rw [e2, e6]; exact hb.pend
    · rw [e4, e5]; exact hb.sec
    · exact hb.i0
    · exact hb.i1
    · rw [e7]; exact hb.mx
    · intro h; rw [idleP_mx h] at hnm; cases hnm
    · intro h; have : mxP tb.pc = true := by rw [h]; rfl
      rw [this] at hnm; cases hnm
    · rw [e8]; exact hb.qv
    · rw [e6]; exact hb.lk
    · rw [e2, e3]; exact hb.raw
    · rw [e2, e3]; exact hb.built
    · rw [e2]; exact hb.msk
    · rw [e2, e3]; exact hb.advT
    · rw [e2, e3]; exact hb.advF
  have frame_po : ∀ (l' : Lane), l'.ipp = l.ipp → l'.pages = l.pages → l'.slot = l.slot → l'.tP = l.tP → l'.tI = l.tI →
      l'.hP = l.hP → l'.hI = l.hI → l'.mv = l.mv → l'.mutex = l.mutex →
      ∀ b tb n' i', b ≠ a → ¬(n' = n ∧ i' = i) → PopLoc l b tb n' i' → PopLoc l' b tb n' i' := by
    intro l' e1 e2 e3 e4 e5 e6 e7 e8 e9 b tb n' i' hba hne hb
    have hnm := PopLoc.no_mx hm hba hb
    have hns := PopLoc.no_sec hs hne hb
    constructor
    · exact hb.pcs
    · rw [e1]; exact hb.ilt
    · rw [e6, e7, e8]; exact hb.pre
    · rw [e6, e7]; exact hb.sec
    · rw [e8]; exact hb.mv0
    · rw [e8]; exact hb.mv1
    · rw [e4, e5, e6, e7]; exact hb.lt
    · exact hb.pg
    · rw [e1]; exact hb.last
    · intro h; rw [u0C_sec h] at hns; cases hns
    · intro h; rw [u1C_sec h] at hns; cases hns
    · intro h; have : secC tb.pc = true := by rw [h]; rfl
      rw [this] at hns; cases hns
    · rw [e9]; exact hb.mx
    · intro h; rw [idleC_mx h] at hnm; cases hnm
    · intro h; have : mxC tb.pc = true := by rw [h]; rfl
      rw [this] at hnm; cases hnm
    · rw [e2]; exact hb.qv
    · rw [e3]; exact hb.cons
    · rw [e2, e6]; exact hb.free
  constructor
  · intro hv
    have hlt2 : n + 1 < l.L := by
      by_cases h : n + 1 < l.L
      · exact h
      · rw [hq, hnx] at hv; simp [h, Ptr.valid] at hv
    simp only [hlt2, if_true] at hnx
    refine ⟨⟨?_, fun _ h _ => h, frame_pu _ rfl rfl rfl rfl rfl rfl rfl rfl (Or.inl rfl),
      frame_po _ rfl rfl rfl rfl rfl rfl rfl rfl rfl⟩, ?_⟩
    · refine { hg with Urel := ?_, hpC := ?_, tpC := ?_, chain := ?_ }
      · exact Or.inr ⟨by om, by om, hlt, hmv⟩
      · exact ⟨fun _ => by show t.q = .pg (l.U + 1); rw [hq, hnx, hU], fun h => by om⟩
      · refine ⟨fun h => ?_, fun h => by rw [hph] at h; cases h⟩
        have := hg.tpC.1 h
        have h1' : l.U < l.L := by omega
        have h2' : l.U + 1 < l.L := by omega
        simp only [h1', if_true] at this
        show l.tp = if l.U + 1 < l.L then .pg (l.L - 1) else .null
        simp only [h2', if_true]; exact this
      · intro m hm1 hm2; exact hg.chain m (by om) hm2
    · selfc
      case pcs => simp [isPopPc]
      case ilt => exact hl.ilt
      case sec => intro _; exact hs
      case mv1 => intro _; exact hmv
      case lt => intro _; exact hlt
      case pg => intro _; exact hp
      case last => intro _; exact hlast
      case u1 => intro _; exact ⟨by om, hlive⟩
      case mx => intro _; exact hm
      case phI => intro _; exact hph
  · intro hv
    have hL1 : l.L = n + 1 := by
      by_cases h : n + 1 < l.L
      · rw [hq, hnx] at hv; simp [h, Ptr.valid] at hv
      · omega
    have hqn : t.q = .null := by
      rw [hq, hnx]; have : ¬(n + 1 < l.L) := by omega
      simp [this]
    refine ⟨⟨?_, fun _ h _ => h, frame_pu _ rfl rfl rfl rfl rfl rfl rfl rfl (Or.inr rfl),
      frame_po _ rfl rfl rfl rfl rfl rfl rfl rfl rfl⟩, ?_⟩
    · refine { hg with Urel := ?_, hpC := ?_, tpC := ?_, chain := ?_, mxPh := ?_ }
      · exact Or.inr ⟨by om, by om, hlt, hmv⟩
      · exact ⟨fun h => by om, fun _ => by simp [hqn]⟩
      · exact ⟨fun h => absurd rfl h, fun _ => by om⟩
      · intro m hm1 hm2; om
      · intro h; rw [hm] at h; cases h
    · selfc
      case pcs => simp [isPopPc]
      case ilt => exact hl.ilt
      case sec => intro _; exact hs
      case mv1 => intro _; exact hmv
      case lt => intro _; exact hlt
      case pg => intro _; exact hp
      case last => intro _; exact hlast
      case u1 => intro _; exact ⟨by om, hlive⟩
      case mx => intro _; exact hm
      case phU => intro _; rfl

end

end TbbVerif.C09.Pg
